import Chess.Basic
import Chess.Spec.Rules
import Chess.Model.BB
import Chess.Model.Tables
import Chess.Model.Board
import Chess.Model.Text
import Chess.Model.Game
