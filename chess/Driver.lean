import Chess
/-! `cvdriver <keys.txt> <ops.txt> <model.txt>`: executes every op line of PROTOCOL.md on the model (M1) and on the
specification (M0) and writes one line per op: `<M1 observation> ## <M0 observation>`.
No Mathlib import anywhere below, so this links as a `lean_exe`. -/
open Chess

namespace Drv

def hexDigit (n : Nat) : Char := if n < 10 then Char.ofNat (48 + n) else Char.ofNat (87 + n)
partial def hexNat (n : Nat) : String :=
  if n < 16 then String.singleton (hexDigit n) else hexNat (n / 16) ++ String.singleton (hexDigit (n % 16))
def hexBB (b : BB) : String := hexNat b.toNat
def hexVal (c : Char) : Option Nat :=
  if '0' ≤ c ∧ c ≤ '9' then some (c.toNat - 48) else if 'a' ≤ c ∧ c ≤ 'f' then some (c.toNat - 87) else none
def parseHexNat (s : String) : Nat := s.toList.foldl (fun n c => n * 16 + (hexVal c).getD 0) 0
def parseBB (s : String) : BB := BitVec.ofNat 64 (parseHexNat s)

/-- hex(text): UTF-8 bytes, `-` for empty -/
def hexText (s : Str) : String :=
  let bytes := (String.ofList s).toUTF8
  if bytes.size == 0 then "-" else
  bytes.foldl (fun acc b => acc ++ String.singleton (hexDigit (b.toNat / 16)) ++ String.singleton (hexDigit (b.toNat % 16))) ""
def unhexText (h : String) : Option Str :=
  if h == "-" then some [] else
  let cs := h.toList
  let rec go : List Char → ByteArray → Option ByteArray
    | a :: b :: r, acc => match hexVal a, hexVal b with
      | some x, some y => go r (acc.push (UInt8.ofNat (x * 16 + y)))
      | _, _ => none
    | [], acc => some acc
    | _, _ => none
  match go cs ByteArray.empty with
  | some ba => (String.fromUTF8? ba).map String.toList
  | none => none

def colorCh : Color → String | .white => "w" | .black => "b"
def sqIdx (s : Option Sq) : String := match s with | some x => toString x.val | none => "-"
def us (s : Str) : String := String.ofList (s.map fun c => if c = ' ' then '_' else c)
def commaOr (l : List String) : String := if l.isEmpty then "-" else ",".intercalate l
def sortStrs (l : List String) : List String := l.mergeSort (fun a b => a ≤ b)

/-! ### raw dump → M1 board -/
def boardOfRaw (raw : String) : Option Board :=
  match raw.splitOn ";" with
  | [pm, cm, comb, stm, rr, ep, pin, chk, term, half, full, hash] =>
    let p := (pm.splitOn ",").map parseBB |>.toArray
    let c := (cm.splitOn ",").map parseBB |>.toArray
    let r := (rr.splitOn ",").map (fun x => (CR.ofIdx? x.toNat!).getD .neither) |>.toArray
    if p.size != 6 || c.size != 2 || r.size != 2 then none else
    some { pieces := fun t => p[t.idx]!, colors := fun k => c[k.idx]!, combined := parseBB comb,
           stm := if stm == "w" then .white else .black,
           rights := fun k => r[k.idx]!,
           ep := if ep == "-" then none else Sq.new? ep.toNat!,
           pinned := parseBB pin, checks := parseBB chk, term := term == "1",
           half := half.toNat!, full := full.toNat!, hash := parseBB hash }
  | _ => none

def placement (f : Sq → Option Piece) : String :=
  String.ofList (allSq.map fun s => match f s with | some p => pieceChar p | none => '.')

def posobs (b : Board) : String :=
  s!"pl={placement b.getPieceOn} pm={",".intercalate (PT.all.map fun t => hexBB (b.pieces t))} " ++
  s!"cm={hexBB (b.colors .white)},{hexBB (b.colors .black)} comb={hexBB b.combined} stm={colorCh b.stm} " ++
  s!"cr={(b.rights .white).idx},{(b.rights .black).idx} ep={sqIdx b.ep} pin={hexBB b.pinned} chk={hexBB b.checks} " ++
  s!"term={if b.term then 1 else 0} half={b.half} full={b.full} hash={hexBB b.hash}"

/-! ### M1 → M0 abstraction -/
def crToRights (r : CR) : Spec.Rights := ⟨r.hasK, r.hasQ⟩
def rightsIdx (r : Spec.Rights) : Nat := (CR.ofBits r.k r.q).idx

def absPos (b : Board) : Spec.Pos :=
  let a : Array (Option Piece) := (allSq.map b.getPieceOn).toArray
  { board := fun s => a[s.val]!, stm := b.stm, rights := fun c => crToRights (b.rights c), ep := b.ep,
    half := b.half, full := b.full }
def normPos (p : Spec.Pos) : Spec.Pos :=
  let a : Array (Option Piece) := (allSq.map p.board).toArray
  { p with board := fun s => a[s.val]! }

def specobs (K : Keys) (p : Spec.Pos) : String :=
  s!"hash={hexBB (K.specHash p)} pl={placement p.board} stm={colorCh p.stm} cr={rightsIdx (p.rights .white)},{rightsIdx (p.rights .black)} " ++
  s!"ep={sqIdx p.ep} half={p.half} full={p.full}"

def moveText (m : Move) : String := String.ofList (printMove m)
def parseMoveText (s : String) : Option Move := match parseMove s.toList with | .ok m => some m | .error _ => none

def bbOfList (l : List Sq) : BB := l.foldl (fun acc s => acc ||| bbOf s) 0#64

def statusStr : Board.Status → String
  | .ongoing => "ongoing" | .checkmated c => "mate:" ++ colorCh c | .theoreticalDraw => "theo"
  | .fiftyMoves => "fifty" | .stalemate => "stale"
def specStatusStr : Spec.Status → String
  | .ongoing => "ongoing" | .checkmated c => "mate:" ++ colorCh c | .insufficient => "theo"
  | .fifty => "fifty" | .stalemate => "stale"

def gstatusStr : GStatus → String
  | .ongoing => "ongoing" | .drawOffered c => "offered:" ++ colorCh c | .checkMated c => "mate:" ++ colorCh c
  | .resigned c => "resigned:" ++ colorCh c | .fiftyMoves => "fifty" | .theoreticalDraw => "theo"
  | .repetition => "rep" | .drawAccepted => "accepted" | .stalemate => "stale"
def specGStatusStr : Spec.GStatus → String
  | .ongoing => "ongoing" | .drawOffered c => "offered:" ++ colorCh c | .checkmated c => "mate:" ++ colorCh c
  | .resigned c => "resigned:" ++ colorCh c | .fifty => "fifty" | .insufficient => "theo"
  | .repetition => "rep" | .drawAccepted => "accepted" | .stalemate => "stale"

def errKind : Err → String
  | .invalidFen => "fen" | .colorsOverlap => "overlapc" | .typeOverlap => "overlapt" | .selfNonConsistency => "noncons"
  | .multipleKings => "kings" | .opponentInCheck => "oppcheck" | .inconsistentEnPassant => "ep"
  | .inconsistentCastling => "castling" | _ => "other"

/-- C06: the representation invariant evaluated on a dumped board -/
def maskConsistent (b : Board) : Bool :=
  isBlank (b.colors .white &&& b.colors .black) &&
  PT.all.all (fun t => PT.all.all fun u => t == u || isBlank (b.pieces t &&& b.pieces u)) &&
  (PT.all.foldl (fun acc t => acc ||| b.pieces t) 0#64 == b.combined) &&
  ((b.colors .white ||| b.colors .black) == b.combined)

def moveUniverse : List Move :=
  (PT.all.flatMap fun pt => allSq.flatMap fun s => allSq.flatMap fun d =>
    [none, some PT.knight, some .bishop, some .rook, some .queen, some .king].map fun pr => Move.piece pt s d pr) ++
  [.castle .king, .castle .queen]

def ambCh : Amb → String | .extraFile => "f" | .extraRank => "r" | .extraSquare => "s" | .neither => "n"
def flag (b : Bool) (c : String) : String := if b then c else "-"

def specAmbCh (p : Spec.Pos) : Move → String
  | .piece pt s d _ => (match Spec.disamb p pt s d with | .none => "n" | .file => "f" | .rank => "r" | .both => "s")
  | .castle _ => "n"

/-- the non-ASCII part of the Unicode classes `\w`, `\s`, `\d` for the non-ASCII characters the harness ever puts into a text
(`é`, `ß` are letters; `€`, `♔` are symbols); a text with any OTHER non-ASCII character is answered `*` (not compared) -/
def drvUni : PgnTags.UniClasses := ⟨fun c => c == 'é' || c == 'ß', fun _ => false, fun _ => false⟩
def foreignChars (t : Str) : Bool := t.any fun c => c.toNat ≥ 128 && !(c == 'é' || c == 'ß' || c == '€' || c == '♔')

structure Session where
  g : Game
  s : Spec.GState
  /-- is the rule-level protocol state `s` maintained for this session? (sampled: `m0every`) -/
  m0 : Bool := true
  /-- the metadata map of the game (`GameMetadata`), apart from its `Result` entry which follows `g.result` -/
  md : PgnTags.Metadata := PgnTags.Metadata.default

def gobs (g : Game) : String :=
  s!"status={gstatusStr g.status} tag={String.ofList g.result} cnt={g.positionCounter g.position} " ++
  s!"hlen={g.history.positions.length} cnts={commaOr (g.history.positions.map fun p => toString (g.positionCounter p))} " ++
  s!"fen={us g.position.asFen} hash={hexBB g.position.hash}"

def specOccur (s : Spec.GState) (p : Spec.Pos) : Nat := (Spec.history s).countP (Spec.sameKey p)
def specGobs (s : Spec.GState) : String :=
  let cur := Spec.posAfter s
  s!"status={specGStatusStr s.status} tag={Spec.tagOf s.status} cnt={specOccur s cur} " ++
  s!"hlen={s.moves.length + 1} cnts={commaOr ((Spec.history s).map fun p => toString (specOccur s p))}"

def parseAction (a : String) : Option Action :=
  if a.startsWith "m:" then (parseMoveText (a.drop 2).toString).map Action.move
  else match a with
  | "offer:w" => some (.offerDraw .white) | "offer:b" => some (.offerDraw .black)
  | "accept" => some .acceptDraw | "decline" => some .declineDraw
  | "resign:w" => some (.resign .white) | "resign:b" => some (.resign .black)
  | _ => none
def toSpecAction : Action → Spec.Action
  | .move m => .move m | .offerDraw c => .offer c | .acceptDraw => .accept | .declineDraw => .decline | .resign c => .resign c

def startFen : Str := "rnbqkbnr/pppppppp/8/8/8/8/PPPPPPPP/RNBQKBNR w KQkq - 0 1".toList

/-! ### prim blobs -/
def optIdx (o : Option (Fin 8)) : String := match o with | some x => toString x.val | none => "!"
def optSq (o : Option Sq) : String := match o with | some x => toString x.val | none => "!"
def b01 (b : Bool) : String := if b then "1" else "0"

/-- the operator impls of `BitBoard` (`& | ^ ! *`, wrapping multiplication) on two fixed masks, as the harness combines them -/
def bbAlg (x : BB) : BB :=
  let c : BB := 0x00ff00f00f0f3c5a#64
  let d : BB := 0x8100004224000081#64
  (x &&& c) ^^^ (x ||| d) ^^^ (~~~x) ^^^ (x * 3#64)
/-- `Debug for BitBoard`: `BitBoard(0x%016x)` -/
def bbDebug (x : BB) : Str :=
  let h := (Nat.toDigits 16 x.toNat)
  "BitBoard(0x".toList ++ List.replicate (16 - h.length) '0' ++ h ++ [')']

/-- the far-out-of-range indices of the harness (`FAR_IDX`) -/
def farIdx : List Nat := [255, 256, 257, 263, 264, 511, 512, 519, 65535, 65536, 65543, 4294967295, 4294967296, 4294967303,
  18446744073709551615 - 255, 18446744073709551615 - 248, 18446744073709551615]

def primBlob (kind : String) : String :=
  match kind with
  | "square" => ";".intercalate ((List.range 256).map fun i =>
      match Sq.new? i with
      | none => s!"{i}:!"
      | some s =>
        let t := printSquare s
        let back := match parseSquare t with | .ok x => toString x.val | .error _ => "!"
        s!"{i}:{String.ofList t}:{back}:{s.rank8.val}:{s.file8.val}:{optSq s.up}:{optSq s.down}:{optSq s.left}:{optSq s.right}:{b01 s.isLight}:{b01 s.isDark}")
  | "file" => ";".intercalate ((List.range 10 ++ farIdx).map fun i =>
      match idx8? i with
      | none => s!"{i}:!"
      | some f => let back := match parseFile (fileText f) with | .ok x => toString x.val | .error _ => "!"
        s!"{i}:{String.ofList (fileText f)}:{back}:{optIdx (pred8 f)}:{optIdx (succ8 f)}")
  | "rank" => ";".intercalate ((List.range 10 ++ farIdx).map fun i =>
      match idx8? i with
      | none => s!"{i}:!"
      | some f => let back := match parseRank (rankText f) with | .ok x => toString x.val | .error _ => "!"
        s!"{i}:{String.ofList (rankText f)}:{back}:{optIdx (pred8 f)}:{optIdx (succ8 f)}")
  | "color" => ";".intercalate ((List.range 4 ++ farIdx).map fun i =>
      match Color.ofIdx? i with
      | none => s!"{i}:!"
      | some c => s!"{i}:{String.ofList c.name}:{c.other.idx}:{Board.backRank c}:{Board.promoRank c}")
  | "piece" => ";".intercalate ((List.range 8 ++ farIdx).map fun i =>
      match PT.ofIdx? i with
      | none => s!"{i}:!"
      | some p =>
        let a := match parsePieceType p.text with | .ok x => toString x.idx | .error _ => "!"
        let b := match parsePieceType (p.text.map Char.toLower) with | .ok x => toString x.idx | .error _ => "!"
        s!"{i}:{String.ofList p.text}:{a}:{b}")
  | "cr" =>
    ";".intercalate ((List.range 6 ++ farIdx).map fun i =>
      match CR.ofIdx? i with
      | none => s!"{i}:!"
      | some r => let d := String.ofList r.show
        s!"{i}:{r.idx}:{if d.isEmpty then "-" else d}:{b01 r.hasK}:{b01 r.hasQ}:{b01 r.hasAny}") ++ ";" ++
    ";".intercalate (CR.all.flatMap fun a => CR.all.flatMap fun b =>
      [s!"A{a.idx}{b.idx}={(a.add b).idx}", s!"S{a.idx}{b.idx}={(a.sub b).idx}"])
  | "bbfr" => ":".intercalate (((List.finRange 8).map fun f => hexBB (bbOfFile f)) ++ ((List.finRange 8).map fun r => hexBB (bbOfRank r)))
  | "offsets" => ";".intercalate (allSq.flatMap fun a => allSq.map fun b => let o := offsets a b; s!"{o.1},{o.2}")
  | "misc" =>
    -- `BoardBuilder::default()` is the parsed standard start FEN; its Display, its cell array, `Color::iter`, `PieceType::iter`,
    -- `Game::default().as_fen()`
    let us (t : Str) : String := String.ofList (t.map fun c => if c = ' ' then '_' else c)
    match parseFen startFen with
    | .ok bb => s!"{us (printFen bb)}:{placement bb.pieces}:wb:PNBRQK:{us (printFen bb)}"
    | .error _ => "?"
  | _ => "?"

def tblBlob (name : String) : String :=
  match name with
  | "rays" => ",".intercalate (allSq.flatMap fun s => (List.finRange 8).map fun i => hexBB (ray s i))
  | "knight" => ",".intercalate (allSq.map fun s => hexBB (knightT s))
  | "king" => ",".intercalate (allSq.map fun s => hexBB (kingT s))
  | "bishop" => ",".intercalate (allSq.map fun s => hexBB (bishopT s))
  | "rook" => ",".intercalate (allSq.map fun s => hexBB (rookT s))
  | "queen" => ",".intercalate (allSq.map fun s => hexBB (queenT s))
  | "pawnpush.w" => ",".intercalate (allSq.map fun s => hexBB (pawnPush .white s))
  | "pawnpush.b" => ",".intercalate (allSq.map fun s => hexBB (pawnPush .black s))
  | "pawndbl.w" => ",".intercalate (allSq.map fun s => hexBB (pawnDouble .white s))
  | "pawndbl.b" => ",".intercalate (allSq.map fun s => hexBB (pawnDouble .black s))
  | "pawncap.w" => ",".intercalate (allSq.map fun s => hexBB (pawnCap .white s))
  | "pawncap.b" => ",".intercalate (allSq.map fun s => hexBB (pawnCap .black s))
  | "between" => ",".intercalate (allSq.flatMap fun a => allSq.map fun b =>
      match between a b with | some v => hexBB v | none => "x")
  | _ => "?"

/-! ### one op -/
def sanFlags (mp : MoveProps) : String :=
  flag mp.isCapture "c" ++ flag mp.isCheck "k" ++ flag mp.isMate "m" ++ ambCh mp.amb

def runOp (K : Keys) (committedKeys : String) (lite : Bool) (skipM0 : Bool) (rehash : Bool) (sess : Option Session) (line : String) : Option Session × String :=
  -- `rehash` (corpus mode): op lines recorded under an older key table carry a stale hash field; recompute it from scratch
  let boardOfRaw (t : String) : Option Board :=
    (Drv.boardOfRaw t).map fun b => if rehash then { b with hash := b.calcHash K } else b
  let toks := line.splitOn " "
  let op := toks.headD ""
  let arg (i : Nat) : String := toks.getD i ""
  -- a dumped position that violates C09's list (possible only after a defect of the implementation itself) is marked
  -- `vp=0`: the properties quantify over valid positions, so M1-vs-M0 differences there are not model disagreements
  let withBoard (f : Board → String) : String :=
    match boardOfRaw (arg 1) with
    | some b => if Spec.ValidPos (absPos b) then f b else "vp=0 " ++ f b
    | none => "bad-raw ## "
  -- the same with the cached fields (check/pin masks, terminal flag) recomputed from the masks: the model's answers about
  -- moves must not inherit a wrong cache of the implementation (the caches themselves are compared by `masks`/`status`)
  let withNormBoard (f : Board → String) : String :=
    withBoard fun b => f ((b.updatePinsAndChecks).updateTerminalStatus K)
  match op with
  | "zob" => (sess, s!"keys={committedKeys} ## ")
  | "legal" => (sess, withNormBoard fun b =>
      let ms := sortStrs ((b.getLegalMoves K).map moveText)
      if skipM0 then s!"moves={commaOr ms} castle={(b.castlingAvailable none).idx} c03=- ## " else
      let p := absPos b
      let sms := sortStrs ((Spec.legalMoves p).map moveText)
      let sc := CR.ofBits (Spec.castleOk p .king) (Spec.castleOk p .queen)
      -- c03: the near-universe self-consistency key of the harness; the model's answer is the constant "-" by theorem C03_iff
      s!"moves={commaOr ms} castle={(b.castlingAvailable none).idx} c03=- ## moves={commaOr sms} castle={sc.idx} c03=-")
  | "mv" => (sess, withNormBoard fun b =>
      match parseMoveText (arg 2) with
      | none => "bad-move ## "
      | some m =>
        let p := absPos b
        let m0 := if skipM0 then "" else if Spec.legal p m then s!"r=ok {specobs K (Spec.apply p m)}" else "r=illegal"
        match b.makeMove K m with
        | .ok nb => s!"r=ok {posobs nb} same=1 sc03=- ## {m0}"
        | .error _ => s!"r=illegal same=1 ## {m0}")
  | "univ" => (sess, withNormBoard fun b =>
      let acc := sortStrs ((moveUniverse.filter (b.isLegalMove K)).map moveText)
      let sms := sortStrs ((Spec.legalMoves (absPos b)).map moveText)
      s!"acc={commaOr acc} appdiff=0 panics=0 n={moveUniverse.length} ## acc={commaOr sms}")
  | "status" => (sess, withBoard fun b =>
      let b' := b.updateTerminalStatus K
      if skipM0 then s!"status={statusStr b'.getStatus} term={b01 b'.term} ## " else
      let p := absPos b
      let st := Spec.status p
      s!"status={statusStr b'.getStatus} term={b01 b'.term} ## status={specStatusStr st} term={b01 (Spec.legalMoves p).isEmpty}")
  | "masks" => (sess, withBoard fun b =>
      let b' := b.updatePinsAndChecks
      if skipM0 then s!"chk={hexBB b'.checks} pin={hexBB b'.pinned} ## " else
      let p := absPos b
      s!"chk={hexBB b'.checks} pin={hexBB b'.pinned} ## chk={hexBB (bbOfList (Spec.checkers p))} pin={hexBB (bbOfList (Spec.pinnedSet p))}")
  | "q" => (sess, withBoard fun b =>
      let tl := String.ofList (allSq.map fun s => match b.getPieceTypeOn s with | some t => t.letter | none => '.')
      let cl := String.ofList (allSq.map fun s => match b.getPieceColorOn s with | some .white => 'w' | some .black => 'b' | none => '.')
      let em := String.ofList (allSq.map fun s => if b.isEmptySq s then '1' else '0')
      let inv := maskConsistent b && Spec.ValidPos (absPos b)
      s!"pl={placement b.getPieceOn} tl={tl} cl={cl} em={em} kw={(b.kingSq .white).val} kb={(b.kingSq .black).val} inv={b01 inv} ## ")
  | "fen" => (sess, withBoard fun b =>
      let f := b.asFen
      let rt := match Board.ofFen K f with
        | .ok b2 => posobs b2 == posobs b
        | .error _ => false
      let pl : List (Sq × Piece) := allSq.filterMap fun s => (b.getPieceOn s).map fun p => (s, p)
      let su := match Board.ofBuilder K (Board.setupBuilder pl b.stm (b.rights .white) (b.rights .black) b.ep b.half b.full) with
        | .ok b2 => posobs b2 == posobs b
        | .error _ => false
      -- For a position satisfying C09's list the round trip through FEN and through the set-up path reproduces the board in
      -- all 12 fields: theorems C08_fen_roundtrip / C08_setup_roundtrip (for every Valid board).  The model's answer is that
      -- constant; computing it from the DUMPED board would inherit a wrong cached field (hash, masks, flag) of the
      -- implementation and agree with it.
      if Spec.ValidPos (absPos b) then s!"fen={us f} rt=1 setup=1 ## "
      else s!"fen={us f} rt={b01 rt} setup={b01 su} ## ")
  | "pfen" => (sess,
      match unhexText (arg 1) with
      | none => "bad-hex ## "
      | some t =>
        let bpart := match parseFen t with | .ok bb => s!"b=ok:{us (printFen bb)}" | .error _ => "b=err"
        match Board.ofFen K t with
        | .ok b => s!"{bpart} c=ok {posobs b} g=ok ## "
        | .error e => s!"{bpart} c=err:{errKind e} g=err ## ")
  | "pmove" => (sess,
      match unhexText (arg 1) with
      | none => "bad-hex ## "
      | some t =>
        match parseMove t with
        | .ok m =>
          let rp := printMove m
          let rr := match parseMove rp with | .ok m2 => m2 == m | .error _ => false
          s!"r=ok:{String.ofList rp} rr={b01 rr} ## "
        | .error _ => "r=err ## ")
  | "psq" => (sess, match unhexText (arg 1) with
      | none => "bad-hex ## "
      | some t => (match parseSquare t with | .ok s => s!"r=ok:{s.val} ## " | .error _ => "r=err ## "))
  | "pfile" => (sess, match unhexText (arg 1) with
      | none => "bad-hex ## "
      | some t => (match parseFile t with | .ok s => s!"r=ok:{s.val} ## " | .error _ => "r=err ## "))
  | "prank" => (sess, match unhexText (arg 1) with
      | none => "bad-hex ## "
      | some t => (match parseRank t with | .ok s => s!"r=ok:{s.val} ## " | .error _ => "r=err ## "))
  | "ppiece" => (sess, match unhexText (arg 1) with
      | none => "bad-hex ## "
      | some t => (match parsePieceType t with | .ok s => s!"r=ok:{s.idx} ## " | .error _ => "r=err ## "))
  | "sanall" => (sess, withNormBoard fun b =>
      let ms := b.getLegalMoves K
      let recs := ms.filterMap fun m => match b.moveProps K m with
        | .ok mp => some (moveText m, String.ofList (sanText m mp), sanFlags mp)
        | .error _ => none
      let sorted := recs.mergeSort (fun a b => a.1 ≤ b.1)
      let texts := sorted.map (·.2.1)
      let dup := texts.eraseDups.length != texts.length
      let ill := match moveUniverse.find? (fun m => match m with | .piece _ _ _ none => !b.isLegalMove K m | _ => false) with
        | some m => (match b.moveProps K m with | .ok _ => "ok" | .error _ => "err")
        | none => "err"
      if skipM0 then s!"sans={commaOr (sorted.map fun r => s!"{r.1}:{r.2.1}:{r.2.2}")} dup={b01 dup} illegal={ill} ## " else
      let p := absPos b
      let srecs := (Spec.legalMoves p).map fun m =>
        (moveText m, Spec.san p m,
         flag (Spec.isCapture p m) "c" ++ flag (Spec.givesCheck p m) "k" ++ flag (Spec.givesMate p m) "m" ++ specAmbCh p m)
      let ssorted := srecs.mergeSort (fun a b => a.1 ≤ b.1)
      let stexts := ssorted.map (·.2.1)
      let sdup := stexts.eraseDups.length != stexts.length
      s!"sans={commaOr (sorted.map fun r => s!"{r.1}:{r.2.1}:{r.2.2}")} dup={b01 dup} illegal={ill} ## " ++
      s!"sans={commaOr (ssorted.map fun r => s!"{r.1}:{r.2.1}:{r.2.2}")} dup={b01 sdup} illegal=err")
  | "g.new" =>
    match boardOfRaw (arg 1) with
    | none => (sess, "bad-raw ## ")
    | some b =>
      let g := Game.ofBoard b
      let s := Spec.init (absPos b)
      if lite then (some ⟨g, s, false, PgnTags.Metadata.default⟩, "skip ## ") else
      if skipM0 then (some ⟨g, s, false, PgnTags.Metadata.default⟩, s!"{gobs g} ## ") else
      (some ⟨g, s, true, PgnTags.Metadata.default⟩, s!"{gobs g} ## {specGobs s}")
  | "g.act" =>
    match sess, parseAction (arg 1) with
    | some ⟨g, s, m0, md⟩, some a =>
      if lite then
        (match g.act K a with | .ok g2 => (some ⟨g2, s, false, md⟩, "skip ## ") | .error _ => (some ⟨g, s, false, md⟩, "skip ## "))
      else
      let (g', r) := match g.act K a with
        | .ok g2 => (g2, "ok")
        | .error .illegalAction => (g, "illegal")
        | .error .gameFinished => (g, "finished")
        | .error _ => (g, "other")
      if !m0 then (some ⟨g', s, false, md⟩, s!"r={r} {gobs g'} ## ") else
      let (s', sr) := match Spec.step s (toSpecAction a) with
        | .ok s2 => ({ s2 with later := s2.later.map normPos }, "ok")
        | .error .illegalAction => (s, "illegal")
        | .error .finished => (s, "finished")
      (some ⟨g', s', true, md⟩, s!"r={r} {gobs g'} ## r={sr} {specGobs s'}")
    | _, _ => (sess, "bad-session ## ")
  | "g.hist" =>
    match sess with
    | some ⟨g, s, m0, _⟩ =>
      let fl := g.history.props.map fun mp => flag mp.isCapture "c" ++ flag mp.isCheck "k" ++ flag mp.isMate "m"
      if !m0 then (sess, s!"text={hexText g.history.render} lookup=1 flags={commaOr fl} chain=1 ## ") else
      let hist := Spec.history s
      let sfl := (List.range s.moves.length).map fun i =>
        match hist[i]?, s.moves[i]? with
        | some p, some m => flag (Spec.isCapture p m) "c" ++ flag (Spec.givesCheck p m) "k" ++ flag (Spec.givesMate p m) "m"
        | _, _ => "?"
      (sess, s!"text={hexText g.history.render} lookup=1 flags={commaOr fl} chain=1 ## flags={commaOr sfl}")
    | none => (sess, "bad-session ## ")
  | "g.probe" =>
    -- `get_position_counter(&q)` for an arbitrary board `q`: the number of history positions whose (64-bit) hash is `q`'s
    match sess, boardOfRaw (arg 1) with
    | some ⟨g, s, m0, _⟩, some q =>
      -- M0: the number of history positions with q's position key (placement, side, rights, en-passant square)
      if m0 && Spec.ValidPos (absPos q) then (sess, s!"cnt={g.positionCounter q} ## cnt={specOccur s (normPos (absPos q))}")
      else (sess, s!"cnt={g.positionCounter q} ## ")
    | _, _ => (sess, "bad-session ## ")
  | "g.tag" =>
    -- `get_metadata_mut().set_value(key, value)` on the session's game
    match sess, unhexText (arg 1), unhexText (arg 2) with
    | some ⟨g, s, m0, md⟩, some k, some v =>
      -- the model keeps the `Result` entry in `Game.result`
      if k == PgnTags.resultKey then (some ⟨{ g with result := v }, s, m0, md⟩, "r=ok ## ")
      else (some ⟨g, s, m0, md.set k v⟩, "r=ok ## ")
    | _, _, _ => (sess, "bad-session ## ")
  | "g.pgn" =>
    match sess with
    | some ⟨g, _, _, md0⟩ =>
      -- the map's `Result` entry follows the game (`set_game_status`), unless the caller overwrote it after the last change
      let md := md0.set PgnTags.resultKey g.result
      let pgn := Game.asPgnWith md g
      -- split at the first blank line
      let rec splitTags : Str → Str → Str × Str
        | acc, '\n' :: '\n' :: r => (acc ++ ['\n'], r)
        | acc, c :: r => splitTags (acc ++ [c]) r
        | acc, [] => (acc, [])
      let (tags, rest) := splitTags [] pgn
      let words := (splitOn ' ' (rest.map fun c => if c = '\n' then ' ' else c)).filter (fun w => !w.isEmpty)
      let (rt, rtags) := match Board.ofFen K startFen with
        | .error _ => ("err", "err")
        | .ok sb =>
          match Game.ofPgnFull drvUni K (Game.ofBoard sb) pgn with
          | .error _ => ("err", "err")
          | .ok (g2, md2) =>
            let stOrig := match g.status with | .drawOffered _ => GStatus.ongoing | x => x
            (b01 (g2.history.moves == g.history.moves && g2.result == g.result && g2.status == stOrig &&
                 g2.history.positions.map posobs == g.history.positions.map posobs),
             b01 (PgnTags.tagsText md2 == tags))
      (sess, s!"tags={hexText tags} words={hexText (Game.joinWith [' '] words)} rt={rt} rtags={if foreignChars pgn then "*" else rtags} ## ")
    | none => (sess, "bad-session ## ")
  | "g.frompgn" => (sess,
      -- `Game::from_pgn` on ARBITRARY text: section split, move and result regexes (Model/PgnRegex.lean), replay by SAN lookup
      match unhexText (arg 1) with
      | none => "bad-hex ## "
      | some t =>
        match Board.ofFen K startFen with
        | .error _ => "r=err ## "
        | .ok sb =>
          match Game.ofPgnFull drvUni K (Game.ofBoard sb) t with
          | .error _ => "r=err ## "
          | .ok (g2, md2) =>
            let tg := if foreignChars t then "*" else hexText (PgnTags.tagsText md2)
            s!"r=ok st={gstatusStr g2.status} n={g2.history.moves.length} fen={us g2.position.asFen} tags={tg} ## ")
  | "rx" => (sess,
      match unhexText (arg 1) with
      | none => "bad-hex ## "
      | some t =>
        let secs := PgnRegex.splitSections t
        match PgnRegex.regexMovesSection t with
        | none => s!"sec=none nsec={secs.length} ## "
        | some ms =>
          let toks := PgnRegex.findMoves ms
          let res := match PgnRegex.findResult ms with | some r => hexText r | none => "none"
          s!"sec={hexText ms} nsec={secs.length} moves={hexText (Game.joinWith [' '] toks)} n={toks.length} res={res} ## ")
  | "tbl" => (sess, s!"v={tblBlob (arg 1)} ## ")
  | "prim" => (sess, s!"v={primBlob (arg 1)} ## ")
  | "bb" =>
    let b := parseBB (arg 1)
    (sess, s!"list={commaOr ((toList b).map fun s => toString s.val)} cnt={popcount b} lo={sqIdx (lowest b)} hi={sqIdx (highest b)} grid={hexText (showBB b)} alg={hexBB (bbAlg b)} dbg={hexText (bbDebug b)} ## ")
  | "render" => (sess, withBoard fun b => s!"s={hexText b.renderStraight} f={hexText b.renderFlipped} d=1 ## ")
  | "gstat" =>
    let all : List GStatus := [.ongoing, .drawOffered .white, .drawOffered .black, .checkMated .white, .checkMated .black,
      .resigned .white, .resigned .black, .fiftyMoves, .theoreticalDraw, .repetition, .drawAccepted, .stalemate]
    (sess, s!"v={hexText (Game.joinWith ['|'] (all.map GStatus.show))} ## ")
  | "flip" => (sess, withBoard fun b =>
      let h := if b.rights .white == .neither && b.rights .black == .neither then "1" else "-"
      s!"v=1 h={h} what=- ## ")
  | _ => (sess, "unknown-op ## ")

end Drv

def main (args : List String) : IO UInt32 := do
  match args with
  | keysPath :: opsPath :: outPath :: rest =>
    let lite := rest.contains "lite"
    -- `m0every=N`: the declarative spec M0 is executed on every N-th line only (M1 = M0 is a theorem for these ops;
    -- executing M0 is a sanity check of the statements, not part of the verdict on the implementation)
    let every : Nat := (rest.filterMap fun a => if a.startsWith "m0every=" then (a.drop 8).toString.toNat? else none).headD 1
    let keysLine := ((← IO.FS.readFile keysPath).trimAscii).toString
    let arr : Array BB := ((keysLine.splitOn ",").map Drv.parseBB).toArray
    let K := Keys.ofArray arr
    let committed0 := ",".intercalate ((List.range 785).map fun i => Drv.hexNat (Chess.Gen.zkey i))
    -- `seed=N`: the SEED constant read from /repo/src/zobrist.rs by the orchestrator; the modelled generator
    -- (Model/Rng.lean: seed_from_u64 + ChaCha12 + next_u64) is run on it and its table is reported next to the committed one
    let seedArg : Option Nat := (rest.filterMap fun a => if a.startsWith "seed=" then (a.drop 5).toString.toNat? else none).head?
    let committed := match seedArg with
      | some sd => committed0 ++ " rng=" ++ ",".intercalate ((Chess.Rng.tableList sd).map Drv.hexNat)
      | none => committed0
    let hin ← IO.FS.Handle.mk opsPath .read
    let hout ← IO.FS.Handle.mk outPath .write
    let mut sess : Option Drv.Session := none
    let mut lineno : Nat := 0
    repeat
      let line ← hin.getLine
      if line.isEmpty then break
      let l := (line.trimAsciiEnd).toString
      lineno := lineno + 1
      let (s', out) := Drv.runOp K committed lite (every > 1 && lineno % every != 0) (rest.contains "rehash") sess l
      sess := s'
      hout.putStrLn out
    hout.flush
    return 0
  | _ =>
    IO.eprintln "usage: cvdriver <keys.txt> <ops.txt> <model.txt>"
    return 2
