import Chess.Lemmas.LegalJoin
import Chess.Lemmas.Status
/-! # C04 — terminal flag and status classification -/
namespace Chess
open Board Spec
variable {K : Keys}

/-- the position is reported terminal iff the side to move has no legal move (castling included: an available castling implies
a legal king step, `castle_implies_king_step`) -/
theorem C04_terminal (b : Board) (hv : b.Valid K) : b.term = true ↔ ∀ m, Spec.legal b.absPos m = false := hv.term_iff

/-- in terms of the generated list -/
theorem C04_terminal_list (b : Board) (hv : b.Valid K) : b.term = true ↔ b.getLegalMoves K = [] := by
  rw [C04_terminal b hv]
  constructor
  · intro h
    cases hl : b.getLegalMoves K with
    | nil => rfl
    | cons m ms =>
      have : m ∈ b.getLegalMoves K := by rw [hl]; exact List.mem_cons_self
      have := (hv.mem_getLegalMoves_iff m).1 this
      rw [h m] at this; exact Bool.noConfusion this
  · intro h m
    cases hm : Spec.legal b.absPos m with
    | false => rfl
    | true =>
      have := (hv.mem_getLegalMoves_iff m).2 hm
      rw [h] at this; exact absurd this (by simp)

end Chess
