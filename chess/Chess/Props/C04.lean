import Chess.Lemmas.LegalJoin
import Chess.Lemmas.Status
import Chess.Lemmas.LegalMoves
/-! # C04 — terminal flag and status classification -/
namespace Chess
open Board Spec
variable {K : Keys}

/-- the position is reported terminal iff the side to move has no legal move (castling included: an available castling implies
a legal king step, `castle_implies_king_step`) -/
theorem C04_terminal (b : Board) (hv : b.Valid K) : b.term = true ↔ ∀ m, Spec.legal b.absPos m = false := hv.term_iff

/-- in terms of the generated list -/
theorem C04_terminal_list (b : Board) (hv : b.Valid K) : b.term = true ↔ b.getLegalMoves K = [] := by
  rw [C04_terminal b hv]
  constructor
  · intro h
    cases hl : b.getLegalMoves K with
    | nil => rfl
    | cons m ms =>
      have : m ∈ b.getLegalMoves K := by rw [hl]; exact List.mem_cons_self
      have := (hv.mem_getLegalMoves_iff m).1 this
      rw [h m] at this; exact Bool.noConfusion this
  · intro h m
    cases hm : Spec.legal b.absPos m with
    | false => rfl
    | true =>
      have := (hv.mem_getLegalMoves_iff m).2 hm
      rw [h] at this; exact absurd this (by simp)

/-- the flag equals the emptiness of the specification's own enumeration of legal moves -/
theorem C04_terminal_spec (b : Board) (hv : b.Valid K) : b.term = (Spec.legalMoves b.absPos).isEmpty := by
  cases he : (Spec.legalMoves b.absPos).isEmpty with
  | true => exact (C04_terminal b hv).2 ((legalMoves_isEmpty_iff b.absPos).1 he)
  | false =>
    cases ht : b.term with
    | false => rfl
    | true =>
      have := (legalMoves_isEmpty_iff b.absPos).2 ((C04_terminal b hv).1 ht)
      rw [he] at this; exact Bool.noConfusion this

/-- C04: the status is checkmate of the side to move iff terminal and in check, stalemate iff terminal and not in check,
otherwise insufficient material iff each side has only a king or a king plus a single bishop or knight, otherwise fifty-move
iff the half-move clock is at least 100, otherwise ongoing — `Spec.status` spells exactly that out -/
theorem C04_status (b : Board) (hv : b.Valid K) : statusToSpec b.getStatus = Spec.status b.absPos :=
  getStatus_spec hv (C04_terminal_spec b hv)

end Chess
