import Chess.Model.Game
/-! # C12 — game action protocol and result bookkeeping (M1 level)

`Game.act` is the model of `Game::make_move`; a rejected action returns `.error` and no new state (the Rust
mutates in place; "rejected leaves everything unchanged" is observed by the correspondence run on position,
history, counters, status and tag).  Statements below are the property text, clause by clause. -/
namespace Chess.C12
open Chess Chess.Game

variable (K : Keys)

def finished : GStatus → Bool | .ongoing => false | .drawOffered _ => false | _ => true

/-- the board result as a game status (what a move or the construction yields), with the repetition rule -/
def afterMoveStatus (g : Game) : GStatus :=
  match g.position.getStatus with
  | .checkmated c => .checkMated c
  | .theoreticalDraw => .theoreticalDraw
  | .stalemate => .stalemate
  | .fiftyMoves => .fiftyMoves
  | .ongoing => if g.positionCounter g.position ≥ 3 then .repetition else .ongoing

@[simp] theorem setStatus_status (g : Game) (s : GStatus) : (g.setStatus s).status = s := by
  unfold setStatus; split <;> simp_all
theorem setStatus_position (g : Game) (s : GStatus) : (g.setStatus s).position = g.position := by
  unfold setStatus; split <;> rfl
theorem setStatus_history (g : Game) (s : GStatus) : (g.setStatus s).history = g.history := by
  unfold setStatus; split <;> rfl
theorem setStatus_counter (g : Game) (s : GStatus) : (g.setStatus s).counter = g.counter := by
  unfold setStatus; split <;> rfl

/-- the result tag always matches the status -/
def TagOK (g : Game) : Prop := g.result = resultTagOf g.status

theorem setStatus_tag (g : Game) (s : GStatus) (h : TagOK g) : TagOK (g.setStatus s) := by
  unfold setStatus TagOK at *
  split
  · rfl
  · rename_i hs; simp only [ne_eq, Decidable.not_not] at hs; subst hs; exact h

/-! ## after a terminal status every action is rejected with the finished-game error -/
theorem finished_rejects (g : Game) (a : Action) (h : finished g.status = true) : g.act K a = .error .gameFinished := by
  unfold act
  cases hs : g.status <;> simp_all [finished]

theorem moveAmbiguity_ok (b : Board) (pt : PT) (src dst : Sq) (promo : Option PT)
    (hl : b.isLegalMove K (.piece pt src dst promo) = true) : ∃ a, b.moveAmbiguity K pt src dst promo = .ok a := by
  unfold Board.moveAmbiguity
  simp only [hl, Bool.not_true, Bool.false_eq_true, if_false]
  repeat' split
  all_goals exact ⟨_, rfl⟩

/-- the notation properties of a legal move always exist (the `unwrap` in `GameHistory::push` cannot fail) -/
theorem moveProps_ok (b : Board) (m : Move) (hl : b.isLegalMove K m = true) : ∃ mp, b.moveProps K m = .ok mp := by
  unfold Board.moveProps Board.makeMove
  simp only [hl, if_true]
  cases m with
  | castle s => exact ⟨_, rfl⟩
  | piece pt src dst promo =>
    obtain ⟨a, ha⟩ := moveAmbiguity_ok K b pt src dst promo hl
    cases pt <;> simp only [ha] <;> exact ⟨_, rfl⟩

/-! ## while ongoing: exactly legal moves, draw offers and resignations are accepted -/
theorem ongoing_move (g : Game) (m : Move) (h : g.status = .ongoing) :
    (∃ g', g.act K (.move m) = .ok g') ↔ g.position.isLegalMove K m = true := by
  unfold act
  simp only [h]
  by_cases hl : g.position.isLegalMove K m = true
  · obtain ⟨mp, hmp⟩ := moveProps_ok K g.position m hl
    simp only [Board.makeMove, hl, if_true, hmp, iff_true]
    exact ⟨_, rfl⟩
  · simp only [Board.makeMove, hl, Bool.false_eq_true, if_false, iff_false]
    rintro ⟨g', h'⟩; cases h'

theorem ongoing_illegal_move (g : Game) (m : Move) (h : g.status = .ongoing) (hl : g.position.isLegalMove K m = false) :
    g.act K (.move m) = .error .illegalAction := by
  unfold act; simp [h, Board.makeMove, hl]

theorem ongoing_offer (g : Game) (c : Color) (h : g.status = .ongoing) :
    ∃ g', g.act K (.offerDraw c) = .ok g' ∧ g'.status = .drawOffered c ∧ g'.position = g.position ∧ g'.history = g.history := by
  refine ⟨_, by unfold act; simp only [h]; rfl, ?_, ?_, ?_⟩ <;>
    simp [updateStatus, setStatus_position, setStatus_history]
theorem ongoing_resign (g : Game) (c : Color) (h : g.status = .ongoing) :
    ∃ g', g.act K (.resign c) = .ok g' ∧ g'.status = .resigned c ∧ g'.position = g.position ∧ g'.history = g.history := by
  refine ⟨_, by unfold act; simp only [h]; rfl, ?_, ?_, ?_⟩ <;>
    simp [updateStatus, setStatus_position, setStatus_history]
theorem ongoing_accept_decline (g : Game) (h : g.status = .ongoing) :
    g.act K .acceptDraw = .error .illegalAction ∧ g.act K .declineDraw = .error .illegalAction := by
  unfold act; simp [h]

/-! ## while an offer is pending: exactly accept, decline and resignation are accepted -/
theorem pending_accept (g : Game) (c : Color) (h : g.status = .drawOffered c) :
    ∃ g', g.act K .acceptDraw = .ok g' ∧ g'.status = .drawAccepted ∧ g'.position = g.position ∧ g'.history = g.history := by
  refine ⟨_, by unfold act; simp only [h]; rfl, ?_, ?_, ?_⟩ <;>
    simp [updateStatus, setStatus_position, setStatus_history]
theorem pending_decline (g : Game) (c : Color) (h : g.status = .drawOffered c) :
    ∃ g', g.act K .declineDraw = .ok g' ∧ g'.status = .ongoing ∧ g'.position = g.position ∧ g'.history = g.history := by
  refine ⟨_, by unfold act; simp only [h]; rfl, ?_, ?_, ?_⟩ <;>
    simp [updateStatus, setStatus_position, setStatus_history]
theorem pending_resign (g : Game) (c d : Color) (h : g.status = .drawOffered c) :
    ∃ g', g.act K (.resign d) = .ok g' ∧ g'.status = .resigned d ∧ g'.position = g.position ∧ g'.history = g.history := by
  refine ⟨_, by unfold act; simp only [h]; rfl, ?_, ?_, ?_⟩ <;>
    simp [updateStatus, setStatus_position, setStatus_history]
theorem pending_rejects (g : Game) (c : Color) (h : g.status = .drawOffered c) (m : Move) (d : Color) :
    g.act K (.move m) = .error .illegalAction ∧ g.act K (.offerDraw d) = .error .illegalAction := by
  unfold act; simp [h]

/-! ## an accepted move: position advanced by the checked move application, status = board result or repetition -/
theorem afterMoveStatus_congr (g g' : Game) (hp : g'.position = g.position) (hc : g'.counter = g.counter) :
    afterMoveStatus g' = afterMoveStatus g := by
  unfold afterMoveStatus positionCounter counterGet
  rw [hp, hc]

theorem updateStatus_move (g : Game) (m : Move) :
    (g.updateStatus (some (.move m))).status = afterMoveStatus (g.updateStatus (some (.move m))) := by
  unfold updateStatus
  rw [afterMoveStatus_congr g _ (setStatus_position _ _) (setStatus_counter _ _)]
  simp only [setStatus_status, afterMoveStatus]
  cases g.position.getStatus <;> rfl

theorem move_result (g g' : Game) (m : Move) (h : g.status = .ongoing) (ha : g.act K (.move m) = .ok g') :
    (g.position.makeMove K m = .ok g'.position) ∧ g'.status = afterMoveStatus g' ∧
    g'.history.moves = g.history.moves ++ [m] ∧ g'.history.positions = g.history.positions ++ [g'.position] := by
  unfold act at ha
  simp only [h] at ha
  cases hm : g.position.makeMove K m with
  | error e => simp [hm] at ha
  | ok nb =>
    simp only [hm] at ha
    cases hp : g.position.moveProps K m with
    | error e => simp [hp] at ha
    | ok mp =>
      simp only [hp, Except.ok.injEq] at ha
      subst ha
      refine ⟨?_, updateStatus_move _ m, ?_, ?_⟩
      · simp [updateStatus, setStatus_position, counterIncrement]
      · simp [updateStatus, setStatus_history, counterIncrement]
      · simp [updateStatus, setStatus_history, setStatus_position, counterIncrement]

/-! ## initial status and the tag invariant over every reachable game -/
theorem initial_status (b : Board) : (ofBoard b).status =
    (match b.getStatus with
     | .checkmated c => .checkMated c | .theoreticalDraw => .theoreticalDraw | .stalemate => .stalemate
     | .fiftyMoves => .fiftyMoves | .ongoing => .ongoing) := by
  simp only [ofBoard, counterIncrement, updateStatus, setStatus_status, positionCounter, counterGet]
  cases b.getStatus <;> simp

inductive Reach : Game → Prop
  | init (b : Board) : Reach (ofBoard b)
  | step (g g' : Game) (a : Action) : Reach g → g.act K a = .ok g' → Reach g'

theorem updateStatus_tag (g : Game) (l : Option Action) (h : TagOK g) : TagOK (g.updateStatus l) := by
  unfold updateStatus; exact setStatus_tag _ _ h

theorem counterIncrement_tag (g : Game) (h : TagOK g) : TagOK g.counterIncrement := h

theorem act_tag (g g' : Game) (a : Action) (h : TagOK g) (ha : g.act K a = .ok g') : TagOK g' := by
  unfold act at ha
  split at ha
  · split at ha
    · split at ha
      · split at ha
        · cases ha
        · simp only [Except.ok.injEq] at ha; subst ha
          apply updateStatus_tag; exact h
      · cases ha
    · cases ha
    · cases ha
    · simp only [Except.ok.injEq] at ha; subst ha; exact updateStatus_tag _ _ h
  · split at ha
    · cases ha
    · cases ha
    · simp only [Except.ok.injEq] at ha; subst ha; exact updateStatus_tag _ _ h
  · cases ha

/-- the result tag is `1-0`, `0-1`, `1/2-1/2` or `?` exactly as the status dictates, in every reachable game -/
theorem result_tag (g : Game) (hr : Reach K g) : g.result = resultTagOf g.status := by
  induction hr with
  | init b => exact counterIncrement_tag _ (updateStatus_tag _ _ rfl)
  | step g g' a _ ha ih => exact act_tag K g g' a ih ha

theorem tag_values (s : GStatus) : resultTagOf s ∈ ["1-0".toList, "0-1".toList, "1/2-1/2".toList, "?".toList] := by
  cases s <;> (try (rename_i c; cases c)) <;> simp [resultTagOf]

end Chess.C12
