import Chess.Model.Text
/-! C16, piece type `knight`: every origin × destination × promotion by kernel evaluation (whole finite domain). -/
namespace Chess.C16
open Chess
theorem rt_knight_0 : ∀ src dst : Sq, parseMove (printMove (.piece .knight src dst (none))) = .ok (.piece .knight src dst (none)) := by
  decide +kernel
theorem rt_knight_1 : ∀ src dst : Sq, parseMove (printMove (.piece .knight src dst (some .knight))) = .ok (.piece .knight src dst (some .knight)) := by
  decide +kernel
theorem rt_knight_2 : ∀ src dst : Sq, parseMove (printMove (.piece .knight src dst (some .bishop))) = .ok (.piece .knight src dst (some .bishop)) := by
  decide +kernel
theorem rt_knight_3 : ∀ src dst : Sq, parseMove (printMove (.piece .knight src dst (some .rook))) = .ok (.piece .knight src dst (some .rook)) := by
  decide +kernel
theorem rt_knight_4 : ∀ src dst : Sq, parseMove (printMove (.piece .knight src dst (some .queen))) = .ok (.piece .knight src dst (some .queen)) := by
  decide +kernel
theorem rt_knight_5 : ∀ src dst : Sq, parseMove (printMove (.piece .knight src dst (some .king))) = .ok (.piece .knight src dst (some .king)) := by
  decide +kernel
end Chess.C16
