import Chess.Lemmas.LegalJoin
import Chess.Lemmas.Construct
import Chess.Props.C02
import Chess.Props.C07
import Chess.Props.C09
/-! # C06 — board representation invariants hold in every reachable position

`Board.Valid K b` spells out the invariant: the masks encode one placement (`Cons`: colour masks disjoint, type masks pairwise
disjoint, unions = occupancy — `C06_masks`), the position satisfies `Spec.ValidPos` (one king each, the side that just moved not in
check, held rights have king and rook at home, en-passant clauses), and the cached check/pin masks, terminal flag and hash equal
their recomputation.  Constructors establish it (C09); every legal move preserves it (`C06_step`); hence it holds in every
reachable position (`C06_reachable`, induction over the move list). -/
namespace Chess
open Board Spec
variable {K : Keys}

/-- the cached masks of the successor are recomputed on the successor itself -/
theorem makeMoveUnchecked_caches (b : Board) (m : Move) :
    let b' := b.makeMoveUnchecked K m
    b'.pinned = (b'.pinsAndChecks (b'.kingSq b'.stm)).1 ∧ b'.checks = (b'.pinsAndChecks (b'.kingSq b'.stm)).2 := by
  simp only [Board.makeMoveUnchecked, Board.updateTerminalStatus, Board.updatePinsAndChecks]
  exact ⟨rfl, rfl⟩

theorem makeMoveUnchecked_term (b : Board) (m : Move) :
    (b.makeMoveUnchecked K m).term = !(b.makeMoveUnchecked K m).hasEscape K := by
  simp only [Board.makeMoveUnchecked]
  exact Construct.updateTerminalStatus_term K _

/-- one legal move keeps every invariant -/
theorem C06_step (b : Board) (hv : b.Valid K) (m : Move) (hm : Spec.legal b.absPos m = true) :
    (b.makeMoveUnchecked K m).Valid K := by
  obtain ⟨habs, hcons⟩ := C02_successor K b hv m hm
  obtain ⟨hp, hc⟩ := makeMoveUnchecked_caches (K := K) b m
  exact {
    cons := hcons
    pos := by rw [habs]; exact validPos_apply b.absPos hv.pos m hm
    pinned_eq := hp
    checks_eq := hc
    term_eq := makeMoveUnchecked_term b m
    hash_eq := C07_incremental K b hv.cons hv.hash_eq m }

/-- the same through the checked form -/
theorem C06_step_checked (b b' : Board) (hv : b.Valid K) (m : Move) (hw : ∀ pt s d, m ≠ .piece pt s d (some .pawn))
    (h : b.makeMove K m = .ok b') : b'.Valid K := by
  obtain ⟨hl, rfl⟩ := (C02_pure_iff K b b' m).1 h
  exact C06_step b hv m ((hv.mem_getLegalMoves_iff m).1 ((hv.isLegalMove_iff m hw).1 hl))

/-- every position reached from a valid one by legal moves satisfies the invariant -/
theorem C06_reachable (ms : List Move) : ∀ (b : Board), b.Valid K → LegalSeq b.absPos ms →
    (ms.foldl (fun b m => b.makeMoveUnchecked K m) b).Valid K := by
  induction ms with
  | nil => intro b hv _; exact hv
  | cons m ms ih =>
    intro b hv hl
    obtain ⟨hm, hrest⟩ := hl
    simp only [List.foldl_cons]
    apply ih _ (C06_step b hv m hm)
    rw [(C02_successor K b hv m hm).1]; exact hrest

/-- … starting from any successfully constructed position -/
theorem C06_reachable_from_builder (bb : Builder) (b0 : Board) (h0 : Board.ofBuilder K bb = .ok b0) (ms : List Move)
    (hl : LegalSeq b0.absPos ms) : (ms.foldl (fun b m => b.makeMoveUnchecked K m) b0).Valid K :=
  C06_reachable ms b0 (C09_sound K bb b0 h0).1 hl

/-! ## what the invariant says, clause by clause -/

/-- mask clauses: colour masks disjoint; type masks pairwise disjoint; their union is the occupancy mask, which is also the
union of the colour masks -/
theorem C06_masks {b : Board} (hv : b.Valid K) :
    b.colors .white &&& b.colors .black = 0#64 ∧
    (∀ t u : PT, t ≠ u → b.pieces t &&& b.pieces u = 0#64) ∧
    (b.pieces .pawn ||| b.pieces .knight ||| b.pieces .bishop ||| b.pieces .rook ||| b.pieces .queen ||| b.pieces .king) = b.combined ∧
    (b.colors .white ||| b.colors .black) = b.combined := by
  have h : Rep b b.abs := hv.cons
  refine ⟨(isBlank_iff _).1 (Construct.colors_disjoint h), fun t u htu => (isBlank_iff _).1 (Construct.pieces_disjoint h t u htu), ?_, ?_⟩
  · apply bb_ext; intro s
    simp only [mem_or, h.pcs, h.cmb]
    rcases b.abs s with _ | ⟨pt, c⟩
    · rfl
    · cases pt <;> rfl
  · apply bb_ext; intro s
    simp only [mem_or, h.cls, h.cmb]
    rcases b.abs s with _ | ⟨pt, c⟩
    · rfl
    · cases c <;> rfl

/-- per-square queries agree with the masks (all expressed through the encoded placement `b.abs`) -/
theorem C06_queries {b : Board} (hv : b.Valid K) (s : Sq) :
    b.getPieceOn s = b.abs s ∧ b.getPieceTypeOn s = (b.abs s).map (·.pt) ∧ b.getPieceColorOn s = (b.abs s).map (·.c) ∧
    b.isEmptySq s = (b.abs s).isNone ∧ b.panicsTypeOn s = false ∧
    (∀ t, mem s (b.pieces t) = true ↔ ∃ c, b.abs s = some ⟨t, c⟩) ∧ (∀ c, mem s (b.colors c) = true ↔ ∃ t, b.abs s = some ⟨t, c⟩) ∧
    (mem s b.combined = true ↔ (b.abs s).isSome = true) := by
  have h : Rep b b.abs := hv.cons
  refine ⟨h.getPieceOn s, h.getPieceTypeOn s, h.getPieceColorOn s, h.isEmptySq s, ?_, ?_, ?_, ?_⟩
  · unfold Board.panicsTypeOn
    rw [h.isEmptySq]
    cases hp : b.abs s with
    | none => rfl
    | some p =>
      rw [h.typeIdxSum s p hp]
      cases p.pt <;> rfl
  · intro t; rw [h.pcs]
    cases b.abs s with
    | none => simp
    | some p => obtain ⟨pt, c⟩ := p; simp
  · intro c; rw [h.cls]
    cases b.abs s with
    | none => simp
    | some p => obtain ⟨pt, c'⟩ := p; simp
  · rw [h.cmb]

/-- exactly one king per side, and the reported king square is where it stands -/
theorem C06_kings {b : Board} (hv : b.Valid K) (c : Color) :
    b.abs (b.kingSq c) = some ⟨.king, c⟩ ∧ (∀ s, b.abs s = some ⟨.king, c⟩ → s = b.kingSq c) ∧ (b.kingSq? c).isSome = true := by
  obtain ⟨k, hk, hkk, hu⟩ := king_unique b.abs c (validPos_count b.absPos hv.pos c)
  have e : b.kingSq c = k := kingSq_spec hv.cons c k hk
  have e2 : b.kingSq? c = some k := by rw [kingSq?_spec hv.cons c, hk]
  rw [e, e2]; exact ⟨hkk, hu, rfl⟩

/-- the side that just moved is not in check; rights and en-passant clauses -/
theorem C06_position {b : Board} (hv : b.Valid K) :
    Spec.inCheck b.abs b.stm.other = false ∧ Spec.rightsOk b.absPos .white = true ∧ Spec.rightsOk b.absPos .black = true ∧
    Spec.epOk b.absPos = true := by
  obtain ⟨_, _, h3, h4, h5, h6⟩ := validPos_parts b.absPos hv.pos
  exact ⟨h3, h4, h5, h6⟩

end Chess
