import Chess.Props.C14
import Chess.Props.C02
import Chess.Props.C04
import Chess.Props.C05
import Chess.Props.C06
import Chess.Lemmas.LegalJoin
import Chess.Lemmas.LegalMoves
import Chess.Lemmas.Status
/-! # C14 — refinement: the model's SAN text is the declarative standard SAN (`Spec.san`)

`C14_refines`: on a valid board, for every move with notation properties (= accepted by the legality test) that does
not promote to a pawn, `sanText m p = (Spec.san b.absPos m).toList`.

Parts: character level (`sqStr_toList`, `ptLetter_toList`), suffix (`suffix_toList`), capture mark
(`capture_toList`), disambiguation (`rivals_mem_iff`, `disamb_eq`, `disamb_toList`), assembly. -/
namespace Chess
open Board

/-! ## 1. characters -/
theorem fileCh_eq (s : Sq) : Spec.fileCh s = fileChar s.fl := rfl
theorem rankCh_eq (s : Sq) : Spec.rankCh s = rankChar s.rk := rfl

theorem sqStr_toList (s : Sq) : (Spec.sqStr s).toList = printSquare s := by
  simp only [Spec.sqStr, String.toList_ofList, printSquare, fileCh_eq, rankCh_eq]

theorem ptLetter_toList (t : PT) : (Spec.ptLetter t).toList = sanL t := by
  cases t <;> decide

/-! ## 2. check / mate suffix -/
theorem decide_popcount_pos (m : BB) : decide (popcount m > 0) = !isBlank m := by
  rw [Bool.eq_iff_iff, decide_eq_true_iff]; exact popcount_pos_iff m

theorem suffix_toList (K : Keys) (b : Board) (hv : b.Valid K) (m : Move) (hm : Spec.legal b.absPos m = true)
    (p : MoveProps)
    (hc : p.isCheck = decide (popcount (b.makeMoveUnchecked K m).checks > 0))
    (hmate : p.isMate = ((b.makeMoveUnchecked K m).term && decide (popcount (b.makeMoveUnchecked K m).checks > 0))) :
    (Spec.suffix b.absPos m).toList = sanC p := by
  have hv' := C06_step (K := K) b hv m hm
  have habs := (C02_successor K b hv m hm).1
  have hchk := C05.C05_inCheck hv'
  have hterm := C04_terminal_spec (K := K) _ hv'
  rw [decide_popcount_pos] at hc hmate
  rw [hchk] at hc hmate
  rw [hterm, habs] at hmate
  rw [habs] at hc
  unfold Spec.suffix sanC sanChk
  rw [hmate, hc]
  simp only []
  cases Spec.inCheck (Spec.apply b.absPos m).board (Spec.apply b.absPos m).stm <;>
    cases (Spec.legalMoves (Spec.apply b.absPos m)).isEmpty <;> decide

/-! ## 3. capture mark -/
theorem capture_toList (b : Board) (hc : b.Cons) (m : Move) (p : MoveProps) (hx : p.isCapture = b.isCapture m) :
    (if Spec.isCapture b.absPos m then "x" else "").toList = sanX p.isCapture := by
  rw [hx, hc.isCapture m, sanX]
  cases Spec.isCapture b.absPos m <;> decide

/-! ## 4. disambiguation -/
/-- a legal move of a piece other than a pawn has no promotion field (declarative side) -/
theorem spec_legal_nonpawn_promo (q : Spec.Pos) (pt : PT) (s d : Sq) (pr : Option PT) (hp : pt ≠ .pawn)
    (h : Spec.legal q (.piece pt s d pr) = true) : pr = none := by
  simp only [Spec.legal, Spec.pseudo, Bool.and_eq_true] at h
  have h3 := h.1.2
  cases pt <;> first | exact absurd rfl hp | (simp only [beq_iff_eq] at h3; exact h3.2)

/-- the rival origins counted by the model are exactly the declarative rivals (as sets) -/
theorem rivals_mem_iff (K : Keys) (b : Board) (hv : b.Valid K) (pt : PT) (src dst : Sq) (hp : pt ≠ .pawn) (s : Sq) :
    s ∈ b.rivals K pt src dst ↔ s ∈ Spec.rivals b.absPos pt src dst := by
  rw [mem_rivals]
  unfold Spec.rivals
  rw [List.mem_filter]
  simp only [allSq, List.mem_finRange, true_and, Bool.and_eq_true, bne_iff_ne, ne_eq]
  constructor
  · rintro ⟨hne, pr, hm⟩
    have hl := (hv.mem_getLegalMoves_iff _).1 hm
    have := spec_legal_nonpawn_promo _ _ _ _ _ hp hl
    subst this
    exact ⟨hne, hl⟩
  · rintro ⟨hne, hl⟩
    exact ⟨hne, none, (hv.mem_getLegalMoves_iff _).2 hl⟩

def ambToDisamb : Amb → Spec.Disamb
  | .neither => .none | .extraFile => .file | .extraRank => .rank | .extraSquare => .both

theorem Sq.file_ne_iff (a b : Sq) : (a.file != b.file) = (a.fl != b.fl) := by
  rw [Bool.eq_iff_iff]; simp only [bne_iff_ne, ne_eq, Sq.file, Sq.fl]; omega
theorem Sq.rank_ne_iff (a b : Sq) : (a.rank != b.rank) = (a.rk != b.rk) := by
  rw [Bool.eq_iff_iff]; simp only [bne_iff_ne, ne_eq, Sq.rank, Sq.rk]; omega

/-- the standard choice depends only on the set of rivals -/
theorem ambKind_set (R R' : List Sq) (src : Sq) (hR : ∀ s, s ∈ R ↔ s ∈ R') :
    (if R'.isEmpty then Spec.Disamb.none
     else if R'.all (fun s => s.file != src.file) then .file
     else if R'.all (fun s => s.rank != src.rank) then .rank
     else .both) = ambToDisamb (ambKind R src) := by
  have e1 : R'.isEmpty = R.isEmpty := by
    rw [Bool.eq_iff_iff, List.isEmpty_iff, List.isEmpty_iff, List.eq_nil_iff_forall_not_mem,
      List.eq_nil_iff_forall_not_mem]
    exact ⟨fun h a ha => h a ((hR a).1 ha), fun h a ha => h a ((hR a).2 ha)⟩
  have e2 : R'.all (fun s => s.file != src.file) = R.all (fun s => s.fl != src.fl) := by
    rw [Bool.eq_iff_iff, List.all_eq_true, List.all_eq_true]
    simp only [Sq.file_ne_iff]
    exact ⟨fun h a ha => h a ((hR a).1 ha), fun h a ha => h a ((hR a).2 ha)⟩
  have e3 : R'.all (fun s => s.rank != src.rank) = R.all (fun s => s.rk != src.rk) := by
    rw [Bool.eq_iff_iff, List.all_eq_true, List.all_eq_true]
    simp only [Sq.rank_ne_iff]
    exact ⟨fun h a ha => h a ((hR a).1 ha), fun h a ha => h a ((hR a).2 ha)⟩
  unfold ambKind
  rw [e1, e2, e3]
  cases R.isEmpty <;> cases R.all (fun s => s.fl != src.fl) <;> cases R.all (fun s => s.rk != src.rk) <;> rfl

/-- the model's disambiguation kind is the declarative one -/
theorem disamb_eq (K : Keys) (b : Board) (hv : b.Valid K) (pt : PT) (src dst : Sq) (promo : Option PT) :
    Spec.disamb b.absPos pt src dst = ambToDisamb (b.stdAmb K (.piece pt src dst promo)) := by
  have key : ∀ pt, pt ≠ .pawn →
      (if (Spec.rivals b.absPos pt src dst).isEmpty then Spec.Disamb.none
       else if (Spec.rivals b.absPos pt src dst).all (fun s => s.file != src.file) then .file
       else if (Spec.rivals b.absPos pt src dst).all (fun s => s.rank != src.rank) then .rank
       else .both) = ambToDisamb (ambKind (b.rivals K pt src dst) src) :=
    fun pt hp => ambKind_set _ _ src (rivals_mem_iff K b hv pt src dst hp)
  cases pt
  case pawn =>
    simp only [Spec.disamb, stdAmb, beq_self_eq_true, if_true, Sq.file_ne_iff]
    cases (src.fl != dst.fl) <;> rfl
  case king => rfl
  all_goals exact key _ (by intro e; cases e)

/-- the two `match` parts of `Spec.san`, named -/
def disambStr (d : Spec.Disamb) (src : Sq) : String :=
  match d with
  | .none => "" | .file => String.ofList [Spec.fileCh src] | .rank => String.ofList [Spec.rankCh src]
  | .both => Spec.sqStr src
def promoStr (promo : Option PT) : String := match promo with | some x => "=" ++ Spec.ptLetter x | none => ""

theorem san_piece_toList (q : Spec.Pos) (pt : PT) (src dst : Sq) (promo : Option PT) :
    (Spec.san q (.piece pt src dst promo)).toList =
      (Spec.ptLetter pt).toList ++ (disambStr (Spec.disamb q pt src dst) src).toList ++
      (if Spec.isCapture q (.piece pt src dst promo) then "x" else "").toList ++ (Spec.sqStr dst).toList ++
      (promoStr promo).toList ++ (Spec.suffix q (.piece pt src dst promo)).toList := by
  simp only [Spec.san, String.toList_append]
  cases Spec.disamb q pt src dst <;> cases promo <;> rfl

/-- the disambiguation characters -/
theorem disamb_toList (a : Amb) (src : Sq) : (disambStr (ambToDisamb a) src).toList = sanD a src := by
  cases a <;> simp only [disambStr, ambToDisamb, sanD, String.toList_ofList, fileCh_eq, rankCh_eq, sqStr_toList] <;> rfl

theorem promo_toList (promo : Option PT) (hw : promo ≠ some .pawn) : (promoStr promo).toList = sanP promo := by
  cases promo with
  | none => decide
  | some t => cases t <;> first | exact absurd rfl hw | decide

/-! ## 5. assembly -/
/-- a move with notation properties that does not promote to a pawn is legal in the declarative sense -/
theorem moveProps_spec_legal (K : Keys) (b : Board) (hv : b.Valid K) (m : Move) (p : MoveProps)
    (hw : ∀ pt s d, m ≠ .piece pt s d (some .pawn)) (h : b.moveProps K m = .ok p) :
    Spec.legal b.absPos m = true :=
  (hv.mem_getLegalMoves_iff m).1 ((hv.isLegalMove_iff m hw).1 (moveProps_inv K b m p h).1)

/-- MAIN: the text printed by the model for a move with notation properties is the declarative standard SAN of the
move in the position the board encodes.  `hw` excludes the one move value (promotion *to a pawn*, not constructible by
`PieceMove::new`) that the legality test accepts but the rules do not. -/
theorem C14_refines (K : Keys) (b : Board) (hv : b.Valid K) (m : Move) (p : MoveProps)
    (hw : ∀ pt s d, m ≠ .piece pt s d (some .pawn))
    (h : b.moveProps K m = .ok p) : sanText m p = (Spec.san b.absPos m).toList := by
  have hl := moveProps_spec_legal K b hv m p hw h
  obtain ⟨_, hc, hm, hx, ha⟩ := moveProps_inv K b m p h
  have hs := suffix_toList K b hv m hl p hc hm
  cases m with
  | castle s =>
    rw [sanText_castle]
    cases s <;> simp only [Spec.san, String.toList_append, hs] <;> rfl
  | piece pt src dst promo =>
    rw [sanText_piece, san_piece_toList, hs, ptLetter_toList, sqStr_toList, capture_toList b hv.cons _ p hx,
      disamb_eq K b hv pt src dst promo, disamb_toList, ← ha, promo_toList promo (fun e => hw pt src dst (by rw [e]))]

/-! ## 6. corollaries; the side condition cannot be dropped -/
/-- no move that promotes to a pawn is legal in the declarative sense -/
theorem spec_legal_not_pawn_promo (q : Spec.Pos) (pt : PT) (s d : Sq) :
    Spec.legal q (.piece pt s d (some .pawn)) = false := by
  cases h : Spec.legal q (.piece pt s d (some .pawn)) with
  | false => rfl
  | true =>
    exfalso
    by_cases hp : pt = .pawn
    · subst hp
      simp only [Spec.legal, Spec.pseudo, Bool.and_eq_true] at h
      have h3 := h.1.2.2
      split at h3 <;> simp at h3
    · have := spec_legal_nonpawn_promo q pt s d _ hp h
      cases this

/-- the same for a generated move: no side condition is needed -/
theorem C14_refines_legal (K : Keys) (b : Board) (hv : b.Valid K) (m : Move) (p : MoveProps)
    (hm : m ∈ b.getLegalMoves K) (h : b.moveProps K m = .ok p) : sanText m p = (Spec.san b.absPos m).toList := by
  refine C14_refines K b hv m p ?_ h
  rintro pt s d rfl
  have := (hv.mem_getLegalMoves_iff _).1 hm
  rw [spec_legal_not_pawn_promo] at this
  cases this

/-- the same with legality stated declaratively -/
theorem C14_refines_spec (K : Keys) (b : Board) (hv : b.Valid K) (m : Move) (p : MoveProps)
    (hm : Spec.legal b.absPos m = true) (h : b.moveProps K m = .ok p) : sanText m p = (Spec.san b.absPos m).toList :=
  C14_refines_legal K b hv m p ((hv.mem_getLegalMoves_iff m).2 hm) h

/-- a move accepted by the legality test has notation properties -/
theorem moveProps_ok_of_legal (K : Keys) (b : Board) (m : Move) (hl : b.isLegalMove K m = true) :
    ∃ p, b.moveProps K m = .ok p := by
  unfold Board.moveProps Board.makeMove
  simp only [hl, if_true]
  cases m with
  | castle s => exact ⟨_, rfl⟩
  | piece pt src dst promo =>
    have ha := moveAmbiguity_legal K b pt src dst promo hl
    cases pt <;> simp only [ha] <;> exact ⟨_, rfl⟩

/-- every generated move has notation properties, and its text is the standard one -/
theorem C14_refines_all (K : Keys) (b : Board) (hv : b.Valid K) (m : Move) (hm : m ∈ b.getLegalMoves K) :
    ∃ p, b.moveProps K m = .ok p ∧ sanText m p = (Spec.san b.absPos m).toList := by
  have hw : ∀ pt s d, m ≠ .piece pt s d (some .pawn) := by
    rintro pt s d rfl
    have := (hv.mem_getLegalMoves_iff _).1 hm
    rw [spec_legal_not_pawn_promo] at this
    cases this
  obtain ⟨p, hp⟩ := moveProps_ok_of_legal K b m ((hv.isLegalMove_iff m hw).2 hm)
  exact ⟨p, hp, C14_refines K b hv m p hw hp⟩

/-- `hw` cannot be dropped from `C14_refines`: on a move that promotes to a pawn (accepted by the legality test of the
library when a pawn can reach the last rank) the model prints `=P`, the declarative text has a bare `=` — the two texts
differ whatever the position and the properties. -/
theorem C14_pawn_promo_differs (q : Spec.Pos) (pt : PT) (s d : Sq) (p : MoveProps) :
    sanText (.piece pt s d (some .pawn)) p ≠ (Spec.san q (.piece pt s d (some .pawn))).toList := by
  intro e
  rw [sanText_piece, san_piece_toList, sqStr_toList] at e
  have e := congrArg List.reverse e
  have hsuf : (Spec.suffix q (.piece pt s d (some .pawn))).toList = [] ∨
      (Spec.suffix q (.piece pt s d (some .pawn))).toList = ['+'] ∨
      (Spec.suffix q (.piece pt s d (some .pawn))).toList = ['#'] := by
    unfold Spec.suffix
    simp only []
    cases Spec.inCheck _ _ <;> cases (Spec.legalMoves _).isEmpty <;> simp
  have hP : (promoStr (some PT.pawn)).toList = ['='] := by decide
  rw [hP] at e
  simp only [List.reverse_append, sanP, printSquare, PT.letter] at e
  rcases sanChk_cases p.isMate p.isCheck with h1 | h1 | h1 <;> rcases hsuf with h2 | h2 | h2 <;>
    rw [sanC, h1, h2] at e <;> simp at e

end Chess
