import Chess.Lemmas.Flip
/-! # C19: the rules are invariant under the rank mirror with colour swap, and (without castling rights)
under the file mirror.  A theorem about the declarative specification `Chess/Spec/Rules.lean` only. -/
namespace Chess
open Spec

/-! ## definitions -/
def flipPiece : Piece → Piece := fun ⟨t, c⟩ => ⟨t, c.other⟩

/-- rank mirror of a position: colours, side to move, castling rights swapped, en-passant square mirrored -/
def flipV (p : Pos) : Pos :=
  { board := fun s => (p.board (flipSq s)).map flipPiece, stm := p.stm.other,
    rights := fun c => p.rights c.other, ep := p.ep.map flipSq, half := p.half, full := p.full }
def flipVm : Move → Move
  | .piece pt src dst promo => .piece pt (flipSq src) (flipSq dst) promo
  | .castle s => .castle s

/-- file mirror of a position (colours and rights unchanged; meaningful when there are no castling rights) -/
def flipH (p : Pos) : Pos :=
  { board := fun s => p.board (mirSq s), stm := p.stm, rights := p.rights, ep := p.ep.map mirSq,
    half := p.half, full := p.full }
def flipHm : Move → Move
  | .piece pt src dst promo => .piece pt (mirSq src) (mirSq dst) promo
  | .castle s => .castle s

def flipStatus : Status → Status
  | .checkmated c => .checkmated c.other
  | s => s

theorem flipV_eq (p : Pos) : flipV p = symV.pos p := rfl
theorem flipVm_eq (m : Move) : flipVm m = symV.mv m := by cases m <;> rfl
theorem flipH_eq (p : Pos) : flipH p = symH.pos p := by
  apply Pos.ext' <;> try rfl
  funext s
  show p.board (mirSq s) = (p.board (mirSq s)).map (mapPiece id)
  cases p.board (mirSq s) <;> rfl
theorem flipHm_eq (m : Move) : flipHm m = symH.mv m := by cases m <;> rfl
theorem flipStatus_eq (s : Status) : flipStatus s = symV.mapStatus s := by cases s <;> rfl
theorem mapStatus_symH (s : Status) : symH.mapStatus s = s := by cases s <;> rfl

theorem flipV_flipV (p : Pos) : flipV (flipV p) = p := by simp only [flipV_eq, symV.pos_pos]
theorem flipVm_flipVm (m : Move) : flipVm (flipVm m) = m := by simp only [flipVm_eq, symV.mv_mv]
theorem flipH_flipH (p : Pos) : flipH (flipH p) = p := by simp only [flipH_eq, symH.pos_pos]
theorem flipHm_flipHm (m : Move) : flipHm (flipHm m) = m := by simp only [flipHm_eq, symH.mv_mv]

/-! ## geometry (the facts packaged in `symV`, `symH`, restated) -/
theorem C19_flipSq_flipSq (s : Sq) : flipSq (flipSq s) = s := flipSq_flipSq s
theorem C19_flipSq_rank (s : Sq) : (flipSq s).rank = 7 - s.rank := flipSq_rank s
theorem C19_flipSq_file (s : Sq) : (flipSq s).file = s.file := flipSq_file s
theorem C19_strictlyBetween (a c b : Sq) :
    strictlyBetween (flipSq a) (flipSq c) (flipSq b) = strictlyBetween a c b := strictlyBetween_flipSq a c b
theorem C19_orthogonal (a b : Sq) : orthogonal (flipSq a) (flipSq b) = orthogonal a b := symV.orth a b
theorem C19_diagonal (a b : Sq) : diagonal (flipSq a) (flipSq b) = diagonal a b := symV.diag a b
/-- `mkSq?` commutes with the rank mirror, for all integer coordinates -/
theorem mkSq?_flipSq (r f : Int) : mkSq? (7 - r) f = (mkSq? r f).map flipSq := by
  unfold mkSq?
  by_cases h : 0 ≤ r ∧ r < 8 ∧ 0 ≤ f ∧ f < 8
  · have h' : 0 ≤ 7 - r ∧ 7 - r < 8 ∧ 0 ≤ f ∧ f < 8 := by omega
    rw [dif_pos h, dif_pos h']
    simp only [Option.map_some, Option.some.injEq]
    apply Fin.ext
    simp only [flipSq]
    omega
  · have h' : ¬ (0 ≤ 7 - r ∧ 7 - r < 8 ∧ 0 ≤ f ∧ f < 8) := by omega
    rw [dif_neg h, dif_neg h']; rfl
/-- `mkSq?` commutes with the file mirror, for all integer coordinates -/
theorem mkSq?_mirSq (r f : Int) : mkSq? r (7 - f) = (mkSq? r f).map mirSq := by
  unfold mkSq?
  by_cases h : 0 ≤ r ∧ r < 8 ∧ 0 ≤ f ∧ f < 8
  · have h' : 0 ≤ r ∧ r < 8 ∧ 0 ≤ 7 - f ∧ 7 - f < 8 := by omega
    rw [dif_pos h, dif_pos h']
    simp only [Option.map_some, Option.some.injEq]
    apply Fin.ext
    simp only [mirSq]
    omega
  · have h' : ¬ (0 ≤ r ∧ r < 8 ∧ 0 ≤ 7 - f ∧ 7 - f < 8) := by omega
    rw [dif_neg h, dif_neg h']; rfl
theorem C19_mirror_strictlyBetween (a c b : Sq) :
    strictlyBetween (mirSq a) (mirSq c) (mirSq b) = strictlyBetween a c b := strictlyBetween_mirSq a c b
theorem C19_mirror_orthogonal (a b : Sq) : orthogonal (mirSq a) (mirSq b) = orthogonal a b := symH.orth a b
theorem C19_mirror_diagonal (a b : Sq) : diagonal (mirSq a) (mirSq b) = diagonal a b := symH.diag a b
theorem C19_fwd (c : Color) : fwd c.other = - fwd c := by cases c <;> rfl

theorem C19_attacks (p : Pos) (a t : Sq) : attacks (flipV p).board (flipSq a) (flipSq t) = attacks p.board a t :=
  symV.attacks_sym p.board a t
theorem C19_clearBetween (p : Pos) (a t : Sq) :
    clearBetween (flipV p).board (flipSq a) (flipSq t) = clearBetween p.board a t :=
  symV.clearBetween_sym p.board a t
theorem C19_attackedBy (p : Pos) (c : Color) (t : Sq) :
    attackedBy (flipV p).board c.other (flipSq t) = attackedBy p.board c t :=
  symV.attackedBy_sym p.board c t

/-- `kingSq?` picks the first king in index order, so the mirror image commutes with it only when the king of
that colour is unique (`KingUniq`); with two kings of one colour the statement is false. -/
theorem C19_kingSq? (p : Pos) (c : Color) (hu : Sym.KingUniq p.board c) :
    kingSq? (flipV p).board c.other = (kingSq? p.board c).map flipSq := symV.kingSq?_sym hu
theorem C19_inCheck (p : Pos) (c : Color) (hu : Sym.KingUniq p.board c) :
    inCheck (flipV p).board c.other = inCheck p.board c := symV.inCheck_sym hu

/-! ## castling under the rank mirror -/
theorem flipSq_csq_fin : ∀ (c : Color) (f : Fin 8), flipSq (csq c f.val) = csq c.other f.val := by decide +kernel
theorem flipSq_csq (c : Color) (f : Nat) (hf : f < 8 := by decide) : flipSq (csq c f) = csq c.other f :=
  flipSq_csq_fin c ⟨f, hf⟩
theorem symV_σ : symV.σ = flipSq := rfl
theorem symV_κ : symV.κ = Color.other := rfl
theorem symH_σ : symH.σ = mirSq := rfl
theorem symH_κ (c : Color) : symH.κ c = c := rfl

theorem applyBoard_castle_eq (p : Pos) (s : Side) :
    applyBoard p (.castle s) =
      match s with
      | .king => upd (upd (upd (upd p.board (csq p.stm 4) none) (csq p.stm 7) none) (csq p.stm 6) (some ⟨.king, p.stm⟩))
          (csq p.stm 5) (some ⟨.rook, p.stm⟩)
      | .queen => upd (upd (upd (upd p.board (csq p.stm 4) none) (csq p.stm 0) none) (csq p.stm 2) (some ⟨.king, p.stm⟩))
          (csq p.stm 3) (some ⟨.rook, p.stm⟩) := by
  cases s <;> rfl

theorem applyBoard_castle_flipV (p : Pos) (s : Side) :
    applyBoard (symV.pos p) (.castle s) = symV.bd (applyBoard p (.castle s)) := by
  rw [applyBoard_castle_eq, applyBoard_castle_eq]
  have e (f : Nat) (hf : f < 8 := by decide) : csq p.stm.other f = symV.σ (csq p.stm f) := (flipSq_csq _ f hf).symm
  cases s
  · simp only [Sym.upd_sym, Sym.pos, symV_κ, e 4, e 7, e 6, e 5]; rfl
  · simp only [Sym.upd_sym, Sym.pos, symV_κ, e 4, e 0, e 2, e 3]; rfl

def castlePath (p : Pos) : Side → Bool
  | .king  => p.board (csq p.stm 7) == some ⟨.rook, p.stm⟩ && (p.board (csq p.stm 5)).isNone && (p.board (csq p.stm 6)).isNone
  | .queen => p.board (csq p.stm 0) == some ⟨.rook, p.stm⟩ && (p.board (csq p.stm 1)).isNone && (p.board (csq p.stm 2)).isNone && (p.board (csq p.stm 3)).isNone
def castleThrough (c : Color) : Side → Sq
  | .king => csq c 5 | .queen => csq c 3

theorem castleOk_eq (p : Pos) (s : Side) : castleOk p s =
    ((p.rights p.stm).has s && p.board (csq p.stm 4) == some ⟨.king, p.stm⟩ && castlePath p s &&
     !inCheck p.board p.stm && !attackedBy p.board p.stm.other (castleThrough p.stm s) &&
     !inCheck (applyBoard p (.castle s)) p.stm) := by
  cases s <;> rfl

theorem applyBoard_castle_uniq {p : Pos} (hu : Sym.KingUniq p.board p.stm)
    (hk : p.board (csq p.stm 4) = some ⟨.king, p.stm⟩) (s : Side) :
    Sym.KingUniq (applyBoard p (.castle s)) p.stm := by
  have key : ∀ x, applyBoard p (.castle s) x = some ⟨.king, p.stm⟩ →
      x = (match s with | .king => csq p.stm 6 | .queen => csq p.stm 2) := by
    intro x hx
    rw [applyBoard_castle_eq] at hx
    cases s <;> simp only [upd] at hx ⊢
    all_goals
      split at hx
      · simp at hx
      · split at hx
        · assumption
        · split at hx
          · cases hx
          · split at hx
            · cases hx
            · rename_i h4; exact absurd (hu _ _ hx hk) h4
  intro a b ha hb
  rw [key a ha, key b hb]

theorem castlePath_flipV (p : Pos) (s : Side) : castlePath (symV.pos p) s = castlePath p s := by
  have e (f : Nat) (hf : f < 8 := by decide) : csq p.stm.other f = symV.σ (csq p.stm f) := (flipSq_csq _ f hf).symm
  have hs : (symV.pos p).stm = symV.κ p.stm := rfl
  have hb : (symV.pos p).board = symV.bd p.board := rfl
  cases s <;> simp only [castlePath, hs, hb]
  · rw [show symV.κ p.stm = p.stm.other from rfl, e 7, e 5, e 6]
    simp only [Sym.bd_σ, Option.isNone_map]
    rw [show p.stm.other = symV.κ p.stm from rfl, Sym.map_beq_some]
  · rw [show symV.κ p.stm = p.stm.other from rfl, e 0, e 1, e 2, e 3]
    simp only [Sym.bd_σ, Option.isNone_map]
    rw [show p.stm.other = symV.κ p.stm from rfl, Sym.map_beq_some]

theorem castleOk_flipV (p : Pos) (hu : Sym.KingUniq p.board p.stm) (s : Side) :
    castleOk (symV.pos p) s = castleOk p s := by
  rw [castleOk_eq, castleOk_eq, castlePath_flipV, applyBoard_castle_flipV]
  have e (f : Nat) (hf : f < 8 := by decide) : csq p.stm.other f = symV.σ (csq p.stm f) := (flipSq_csq _ f hf).symm
  have hs : (symV.pos p).stm = symV.κ p.stm := rfl
  have hb : (symV.pos p).board = symV.bd p.board := rfl
  have hr : (symV.pos p).rights (symV.κ p.stm) = p.rights p.stm := by simp [Sym.pos, symV.κκ]
  have h4 : (symV.bd p.board (csq (symV.κ p.stm) 4) == some ⟨.king, symV.κ p.stm⟩) =
      (p.board (csq p.stm 4) == some ⟨.king, p.stm⟩) := by
    rw [show csq (symV.κ p.stm) 4 = symV.σ (csq p.stm 4) from e 4, Sym.bd_σ, Sym.map_beq_some]
  have ht : castleThrough (symV.κ p.stm) s = symV.σ (castleThrough p.stm s) := by
    cases s
    · exact e 5
    · exact e 3
  rw [hs, hb, hr, h4, ht, symV.inCheck_sym hu, ← symV.κ_other, symV.attackedBy_sym]
  cases hk : (p.board (csq p.stm 4) == some ⟨.king, p.stm⟩) with
  | false => simp
  | true =>
    rw [symV.inCheck_sym (applyBoard_castle_uniq hu (by simpa using hk) s)]


/-! ## uniqueness of kings -/
theorem uniq_of_countP_le_one {α : Type} (q : α → Bool) : ∀ (l : List α), l.Nodup → l.countP q ≤ 1 →
    ∀ a ∈ l, ∀ b ∈ l, q a = true → q b = true → a = b := by
  intro l
  induction l with
  | nil => intro _ _ a ha; cases ha
  | cons x l ih =>
    intro hn hc a ha b hb qa qb
    rw [List.nodup_cons] at hn
    rw [List.countP_cons] at hc
    by_cases hx : q x = true
    · have h0 : l.countP q = 0 := by rw [if_pos hx] at hc; omega
      rw [List.countP_eq_zero] at h0
      rcases List.mem_cons.mp ha with rfl | ha'
      · rcases List.mem_cons.mp hb with rfl | hb'
        · rfl
        · exact absurd qb (h0 _ hb')
      · exact absurd qa (h0 _ ha')
    · have hc' : l.countP q ≤ 1 := by rw [if_neg hx] at hc; omega
      rcases List.mem_cons.mp ha with rfl | ha'
      · exact absurd qa hx
      · rcases List.mem_cons.mp hb with rfl | hb'
        · exact absurd qb hx
        · exact ih hn.2 hc' a ha' b hb' qa qb

theorem kingUniq_of_count {b : Sq → Option Piece} {c : Color} (h : countPiece b ⟨.king, c⟩ ≤ 1) :
    Sym.KingUniq b c := by
  intro s s' hs hs'
  exact uniq_of_countP_le_one _ allSq (List.nodup_finRange 64) h s (List.mem_finRange s) s' (List.mem_finRange s')
    (by simp [hs]) (by simp [hs'])

/-- a valid position has exactly one king of each colour, in particular at most one -/
theorem ValidPos.kingUniq {p : Pos} (hv : ValidPos p = true) (c : Color) : Sym.KingUniq p.board c := by
  unfold ValidPos at hv
  simp only [Bool.and_eq_true, beq_iff_eq] at hv
  cases c
  · exact kingUniq_of_count (by omega)
  · exact kingUniq_of_count (by omega)

/-! ## C19, rank mirror -/
/-- Legality is invariant under the rank mirror.  Hypothesis needed: at most one king of the side to move
(`inCheck` looks at the FIRST king in index order; with two kings of one colour the statement is false). -/
theorem C19_legal (p : Pos) (hk : Sym.KingUniq p.board p.stm) (m : Move) :
    legal (flipV p) (flipVm m) = legal p m := by
  rw [flipV_eq, flipVm_eq]
  cases m with
  | piece pt src dst promo => exact symV.legal_piece_sym p hk pt src dst promo
  | castle s => exact castleOk_flipV p hk s

theorem C19_legal_valid (p : Pos) (hv : ValidPos p = true) (m : Move) :
    legal (flipV p) (flipVm m) = legal p m := C19_legal p (ValidPos.kingUniq hv _) m

/-- the legal move list of the mirror image consists exactly of the mirror images of the legal moves -/
theorem C19_legalMoves (p : Pos) (hk : Sym.KingUniq p.board p.stm) (m : Move) :
    flipVm m ∈ legalMoves (flipV p) ↔ m ∈ legalMoves p := by
  rw [mem_legalMoves_iff, mem_legalMoves_iff, C19_legal p hk]

theorem C19_applyBoard (p : Pos) (m : Move) :
    applyBoard (flipV p) (flipVm m) = fun s => (applyBoard p m (flipSq s)).map flipPiece := by
  rw [flipV_eq, flipVm_eq]
  show _ = symV.bd (applyBoard p m)
  cases m with
  | piece pt src dst promo => exact symV.applyBoard_piece_sym p pt src dst promo
  | castle s => exact applyBoard_castle_flipV p s

/-- Successor positions: every field commutes with the mirror except the full-move counter, which counts Black's
moves and therefore cannot commute with a colour swap; the exact value is given.  No hypothesis on `p` or `m`. -/
theorem C19_apply (p : Pos) (m : Move) :
    apply (flipV p) (flipVm m) =
      { flipV (apply p m) with full := if p.stm = .white then p.full + 1 else p.full } := by
  rw [flipV_eq, flipVm_eq, flipV_eq]
  apply Pos.ext'
  · show (apply (symV.pos p) (symV.mv m)).board = symV.bd (apply p m).board
    cases m with
    | piece pt src dst promo => exact symV.apply_sym_board_piece p pt src dst promo
    | castle s => exact applyBoard_castle_flipV p s
  · exact symV.apply_sym_stm p m
  · show (apply (symV.pos p) (symV.mv m)).rights = fun c => (apply p m).rights (symV.κ c)
    apply symV.apply_rights_sym
    intro c s
    have e (f : Nat) (hf : f < 8 := by decide) : csq (symV.κ c) f = symV.σ (csq c f) := (flipSq_csq _ f hf).symm
    rw [e 7, e 0, symV.σ_beq, symV.σ_beq]
  · exact symV.apply_sym_ep p m
  · exact symV.apply_sym_half p m
  · show (apply (symV.pos p) (symV.mv m)).full = _
    rw [apply_full]
    show (if p.stm.other = .black then p.full + 1 else p.full) = _
    cases p.stm <;> simp [Color.other]

/-- the five fields other than `full`, stated as an equality after resetting `full` on both sides -/
theorem C19_apply_upToFull (p : Pos) (m : Move) (n : Nat) :
    { apply (flipV p) (flipVm m) with full := n } = { flipV (apply p m) with full := n } := by
  rw [C19_apply]

theorem C19_checkers (p : Pos) (hk : Sym.KingUniq p.board p.stm) (x : Sq) :
    flipSq x ∈ checkers (flipV p) ↔ x ∈ checkers p := symV.mem_checkers_sym p hk x
theorem C19_pinned (p : Pos) (hk : Sym.KingUniq p.board p.stm) (x : Sq) :
    flipSq x ∈ pinnedSet (flipV p) ↔ x ∈ pinnedSet p := symV.mem_pinnedSet_sym p hk x

theorem C19_status (p : Pos) (hk : Sym.KingUniq p.board p.stm) :
    status (flipV p) = flipStatus (status p) := by
  rw [flipV_eq, flipStatus_eq]
  apply symV.status_sym p hk
  intro m
  have := C19_legal p hk m
  rwa [flipV_eq, flipVm_eq] at this

/-! ## C19, file mirror (no castling rights) -/
theorem castleOk_noRights (p : Pos) (hr : p.rights p.stm = ⟨false, false⟩) (s : Side) : castleOk p s = false := by
  rw [castleOk_eq, hr]; cases s <;> simp [Rights.has]

/-- piece moves: no hypothesis on the rights is needed -/
theorem C19_mirror_legal_piece (p : Pos) (hk : Sym.KingUniq p.board p.stm) (pt : PT) (src dst : Sq) (promo : Option PT) :
    legal (flipH p) (.piece pt (mirSq src) (mirSq dst) promo) = legal p (.piece pt src dst promo) := by
  rw [flipH_eq]; exact symH.legal_piece_sym p hk pt src dst promo

theorem C19_mirror_legal (p : Pos) (hk : Sym.KingUniq p.board p.stm) (hr : ∀ c, p.rights c = ⟨false, false⟩) (m : Move) :
    legal (flipH p) (flipHm m) = legal p m := by
  cases m with
  | piece pt src dst promo => exact C19_mirror_legal_piece p hk pt src dst promo
  | castle s =>
    show castleOk (flipH p) s = castleOk p s
    rw [castleOk_noRights p (hr _), castleOk_noRights (flipH p) (hr _)]

theorem C19_mirror_legalMoves (p : Pos) (hk : Sym.KingUniq p.board p.stm) (hr : ∀ c, p.rights c = ⟨false, false⟩) (m : Move) :
    flipHm m ∈ legalMoves (flipH p) ↔ m ∈ legalMoves p := by
  rw [mem_legalMoves_iff, mem_legalMoves_iff, C19_mirror_legal p hk hr]

/-- Successor positions under the file mirror, for piece moves (castling moves are never legal without rights, and
`apply` of a castling move is NOT mirror-symmetric: the king lands on the g/c file on both sides). -/
theorem C19_mirror_apply (p : Pos) (hr : ∀ c, p.rights c = ⟨false, false⟩) (pt : PT) (src dst : Sq) (promo : Option PT) :
    apply (flipH p) (flipHm (.piece pt src dst promo)) = flipH (apply p (.piece pt src dst promo)) := by
  rw [flipH_eq, flipHm_eq, flipH_eq]
  apply Pos.ext'
  · exact symH.apply_sym_board_piece p pt src dst promo
  · exact symH.apply_sym_stm p _
  · apply symH.apply_rights_sym
    intro c s
    rw [hr c]; rfl
  · exact symH.apply_sym_ep p _
  · exact symH.apply_sym_half p _
  · rfl

theorem C19_mirror_apply_legal (p : Pos) (hr : ∀ c, p.rights c = ⟨false, false⟩) (m : Move) (hm : legal p m = true) :
    apply (flipH p) (flipHm m) = flipH (apply p m) := by
  cases m with
  | piece pt src dst promo => exact C19_mirror_apply p hr pt src dst promo
  | castle s =>
    have : castleOk p s = false := castleOk_noRights p (hr _) s
    rw [show legal p (.castle s) = castleOk p s from rfl, this] at hm
    cases hm

/-- the successor of a rights-free position is rights-free, so the mirror theorems apply along a whole game -/
theorem noRights_apply (p : Pos) (hr : ∀ c, p.rights c = ⟨false, false⟩) (m : Move) :
    ∀ c, (apply p m).rights c = ⟨false, false⟩ := by
  intro c
  rw [apply_rights]
  have h1 : ownR p m = ⟨false, false⟩ := by
    cases m with
    | castle s => rfl
    | piece pt src dst promo => cases pt <;> simp [ownR, hr, dropRights]
  have h2 : oppR p m = ⟨false, false⟩ := by
    cases m <;> simp [oppR, hr, dropRights]
  simp only [h1, h2]; split <;> rfl

theorem C19_mirror_checkers (p : Pos) (hk : Sym.KingUniq p.board p.stm) (x : Sq) :
    mirSq x ∈ checkers (flipH p) ↔ x ∈ checkers p := by
  rw [flipH_eq]; exact symH.mem_checkers_sym p hk x
theorem C19_mirror_pinned (p : Pos) (hk : Sym.KingUniq p.board p.stm) (x : Sq) :
    mirSq x ∈ pinnedSet (flipH p) ↔ x ∈ pinnedSet p := by
  rw [flipH_eq]; exact symH.mem_pinnedSet_sym p hk x

theorem C19_mirror_status (p : Pos) (hk : Sym.KingUniq p.board p.stm) (hr : ∀ c, p.rights c = ⟨false, false⟩) :
    status (flipH p) = status p := by
  rw [flipH_eq, ← mapStatus_symH (status p)]
  apply symH.status_sym p hk
  intro m
  have := C19_mirror_legal p hk hr m
  rwa [flipH_eq, flipHm_eq] at this

/-! ## validity is preserved -/
theorem rightsOk_eq_f (p : Pos) (c : Color) : rightsOk p c =
    ((!((p.rights c).k || (p.rights c).q) || p.board (csq c 4) == some ⟨.king, c⟩) &&
     (!(p.rights c).k || p.board (csq c 7) == some ⟨.rook, c⟩) &&
     (!(p.rights c).q || p.board (csq c 0) == some ⟨.rook, c⟩)) := rfl

theorem rightsOk_flipV (p : Pos) (c : Color) : rightsOk (symV.pos p) (symV.κ c) = rightsOk p c := by
  have e (f : Nat) (hf : f < 8 := by decide) : csq (symV.κ c) f = symV.σ (csq c f) := (flipSq_csq _ f hf).symm
  rw [rightsOk_eq_f, rightsOk_eq_f]
  have hr : (symV.pos p).rights (symV.κ c) = p.rights c := by simp [Sym.pos, symV.κκ]
  have hb : (symV.pos p).board = symV.bd p.board := rfl
  rw [hr, hb, e 4, e 7, e 0]
  simp only [Sym.bd_σ, Sym.map_beq_some]

theorem rightsOk_noRights (p : Pos) (c : Color) (hr : p.rights c = ⟨false, false⟩) : rightsOk p c = true := by
  rw [rightsOk_eq_f, hr]; rfl

theorem symV_epRank : ∀ (s : Sq) (c : Color),
    ((symV.σ s).rank == (if symV.κ c == .white then 5 else 2)) = (s.rank == (if c == .white then 5 else 2)) := by
  decide +kernel
theorem symH_epRank : ∀ (s : Sq) (c : Color),
    ((symH.σ s).rank == (if symH.κ c == .white then 5 else 2)) = (s.rank == (if c == .white then 5 else 2)) := by
  decide +kernel

/-- the mirror image of a valid position is valid (and conversely) -/
theorem C19_validPos (p : Pos) : ValidPos (flipV p) = ValidPos p := by
  rw [flipV_eq]
  unfold ValidPos
  have hb : (symV.pos p).board = symV.bd p.board := rfl
  have c1 : countPiece (symV.bd p.board) ⟨.king, .white⟩ = countPiece p.board ⟨.king, .black⟩ :=
    symV.countPiece_sym p.board .king .black
  have c2 : countPiece (symV.bd p.board) ⟨.king, .black⟩ = countPiece p.board ⟨.king, .white⟩ :=
    symV.countPiece_sym p.board .king .white
  rw [hb, c1, c2, symV.epOk_sym p symV_epRank]
  have r1 : rightsOk (symV.pos p) .white = rightsOk p .black := rightsOk_flipV p .black
  have r2 : rightsOk (symV.pos p) .black = rightsOk p .white := rightsOk_flipV p .white
  rw [r1, r2]
  by_cases hc : countPiece p.board ⟨.king, p.stm.other⟩ ≤ 1
  · have : inCheck (symV.bd p.board) (symV.pos p).stm.other = inCheck p.board p.stm.other := by
      show inCheck (symV.bd p.board) (symV.κ p.stm).other = _
      rw [← symV.κ_other]; exact symV.inCheck_sym (kingUniq_of_count hc)
    rw [this]
    cases (countPiece p.board ⟨.king, .white⟩ == 1) <;> cases (countPiece p.board ⟨.king, .black⟩ == 1) <;>
      cases rightsOk p .white <;> cases rightsOk p .black <;> simp
  · have : (countPiece p.board ⟨.king, .white⟩ == 1 && countPiece p.board ⟨.king, .black⟩ == 1) = false := by
      cases hs : p.stm <;> simp only [hs, Color.other] at hc
      · have : ¬ countPiece p.board ⟨.king, .black⟩ = 1 := by omega
        simp [this]
      · have : ¬ countPiece p.board ⟨.king, .white⟩ = 1 := by omega
        simp [this]
    have h2 : (countPiece p.board ⟨.king, .black⟩ == 1 && countPiece p.board ⟨.king, .white⟩ == 1) = false := by
      rw [Bool.and_comm]; exact this
    simp only [this, h2, Bool.false_and]

theorem C19_mirror_validPos (p : Pos) (hr : ∀ c, p.rights c = ⟨false, false⟩) : ValidPos (flipH p) = ValidPos p := by
  rw [flipH_eq]
  unfold ValidPos
  have hb : (symH.pos p).board = symH.bd p.board := rfl
  have c1 : countPiece (symH.bd p.board) ⟨.king, .white⟩ = countPiece p.board ⟨.king, .white⟩ :=
    symH.countPiece_sym p.board .king .white
  have c2 : countPiece (symH.bd p.board) ⟨.king, .black⟩ = countPiece p.board ⟨.king, .black⟩ :=
    symH.countPiece_sym p.board .king .black
  rw [hb, c1, c2, symH.epOk_sym p symH_epRank]
  rw [rightsOk_noRights _ _ (hr .white), rightsOk_noRights _ _ (hr .black),
    rightsOk_noRights (symH.pos p) .white (hr .white), rightsOk_noRights (symH.pos p) .black (hr .black)]
  by_cases hc : countPiece p.board ⟨.king, p.stm.other⟩ ≤ 1
  · have : inCheck (symH.bd p.board) (symH.pos p).stm.other = inCheck p.board p.stm.other :=
      symH.inCheck_sym (c := p.stm.other) (kingUniq_of_count hc)
    rw [this]
  · have : (countPiece p.board ⟨.king, .white⟩ == 1 && countPiece p.board ⟨.king, .black⟩ == 1) = false := by
      cases hs : p.stm <;> simp only [hs, Color.other] at hc
      · have : ¬ countPiece p.board ⟨.king, .black⟩ = 1 := by omega
        simp [this]
      · have : ¬ countPiece p.board ⟨.king, .white⟩ = 1 := by omega
        simp [this]
    simp only [this, Bool.false_and]

/-! ## examples -/
/-- two bare kings: the hypotheses of all C19 theorems (valid, unique kings, no rights) are satisfiable -/
def exPosF : Pos :=
  { board := fun s => if s = 4 then some ⟨.king, .white⟩ else if s = 60 then some ⟨.king, .black⟩ else none,
    stm := .white, rights := fun _ => ⟨false, false⟩, ep := none, half := 0, full := 1 }
example : ValidPos exPosF = true ∧ (∀ c, exPosF.rights c = ⟨false, false⟩) := ⟨by decide +kernel, fun _ => rfl⟩

/-- Why `KingUniq` is needed: White kings on a1 and a8, a black rook on h1.  `inCheck` looks at the first king in index
order (a1, attacked); in the mirror image the first king is the image of a8 (not attacked). -/
def exTwoKings : Pos :=
  { board := fun s => if s = 0 then some ⟨.king, .white⟩ else if s = 56 then some ⟨.king, .white⟩
      else if s = 7 then some ⟨.rook, .black⟩ else none,
    stm := .white, rights := fun _ => ⟨false, false⟩, ep := none, half := 0, full := 1 }
example : inCheck exTwoKings.board .white = true ∧ inCheck (flipV exTwoKings).board .black = false := by
  decide +kernel

end Chess
