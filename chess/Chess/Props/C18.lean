import Chess.Lemmas.BB
import Chess.Model.Prims
/-! # C18 — coordinate, piece, colour, castling-right and bitboard primitives are consistent

Finite types: every value is enumerated by the kernel (`decide`).  Bitboards: genuine proofs for
all 2^64 values (imported from `Lemmas/BB`). -/
namespace Chess.C18
open Chess


/-! ## index and text round trips; out-of-range indices are errors -/
theorem square_index_roundtrip : ∀ s : Sq, Sq.new? s.val = some s := by decide
theorem square_index_out_of_range : ∀ i : Nat, 64 ≤ i → Sq.new? i = none := by
  intro i h; simp [Sq.new?]; omega
theorem square_text_roundtrip : ∀ s : Sq, parseSquare (printSquare s) = .ok s := by decide
theorem file_index_roundtrip : ∀ f : Fin 8, idx8? f.val = some f := by decide
theorem file_index_out_of_range : ∀ i : Nat, 8 ≤ i → idx8? i = none := by
  intro i h; simp [idx8?]; omega
theorem file_text_roundtrip : ∀ f : Fin 8, parseFile (fileText f) = .ok f := by decide
theorem rank_text_roundtrip : ∀ r : Fin 8, parseRank (rankText r) = .ok r := by decide
theorem color_index_roundtrip : ∀ c : Color, Color.ofIdx? c.idx = some c := by intro c; cases c <;> rfl
theorem color_index_out_of_range : ∀ i : Nat, 2 ≤ i → Color.ofIdx? i = none := by
  intro i h; match i, h with | i + 2, _ => rfl
theorem piece_index_roundtrip : ∀ p : PT, PT.ofIdx? p.idx = some p := by intro p; cases p <;> rfl
theorem piece_index_out_of_range : ∀ i : Nat, 6 ≤ i → PT.ofIdx? i = none := by
  intro i h; match i, h with | i + 6, _ => rfl
theorem piece_text_roundtrip : ∀ p : PT, parsePieceType p.text = .ok p := by intro p; cases p <;> decide
theorem piece_text_roundtrip_lower : ∀ p : PT, parsePieceType (p.text.map Char.toLower) = .ok p := by intro p; cases p <;> decide
/-- needs repair F10 (`from_index` was not the inverse of `to_index`) -/
theorem rights_index_roundtrip : ∀ r : CR, CR.ofIdx? r.idx = some r := by intro r; cases r <;> rfl
theorem rights_index_roundtrip' : ∀ i : Nat, i < 4 → (CR.ofIdx? i).map CR.idx = some i := by decide
theorem rights_index_out_of_range : ∀ i : Nat, 4 ≤ i → CR.ofIdx? i = none := by
  intro i h; match i, h with | i + 4, _ => rfl
/-- foreign one-character texts are errors (every `Char`, not a sample) -/
theorem file_text_foreign (c : Char) (h : c ∉ ['a', 'b', 'c', 'd', 'e', 'f', 'g', 'h']) : ∃ e, parseFile [c] = .error e := by
  simp only [List.mem_cons, List.not_mem_nil, or_false, not_or] at h
  obtain ⟨h1, h2, h3, h4, h5, h6, h7, h8⟩ := h
  unfold parseFile
  split
  · exact ⟨_, rfl⟩
  · split <;> first | exact ⟨_, rfl⟩ | (rename_i heq; simp at heq; simp_all)
theorem rank_text_foreign (c : Char) (h : c ∉ ['1', '2', '3', '4', '5', '6', '7', '8']) : ∃ e, parseRank [c] = .error e := by
  simp only [List.mem_cons, List.not_mem_nil, or_false, not_or] at h
  obtain ⟨h1, h2, h3, h4, h5, h6, h7, h8⟩ := h
  unfold parseRank
  split
  · exact ⟨_, rfl⟩
  · split <;> first | exact ⟨_, rfl⟩ | (rename_i heq; simp at heq; simp_all)

/-! ## square geometry -/
theorem from_rank_file : ∀ r f : Fin 8, (fromRankFile r f).val = 8 * r.val + f.val := by decide
theorem rank_file_of_square : ∀ s : Sq, s.rank8.val = s.val / 8 ∧ s.file8.val = s.val % 8 := by decide
theorem rank_file_roundtrip : ∀ s : Sq, fromRankFile s.rank8 s.file8 = s := by decide
theorem up_spec : ∀ s : Sq, s.up = mkSq? (s.rank + 1) s.file := by decide
theorem down_spec : ∀ s : Sq, s.down = mkSq? (s.rank - 1) s.file := by decide
theorem right_spec : ∀ s : Sq, s.right = mkSq? s.rank (s.file + 1) := by decide
theorem left_spec : ∀ s : Sq, s.left = mkSq? s.rank (s.file - 1) := by decide
/-- a1 (rank 0 + file 0) is dark -/
theorem light_dark : ∀ s : Sq, s.isLight = ((s.val / 8 + s.val % 8) % 2 == 1) ∧ s.isDark = !s.isLight := by decide

/-! ## castling rights: `+` is union and `-` is difference over (kingside, queenside) -/
theorem rights_add : ∀ a b : CR, (a.add b).hasK = (a.hasK || b.hasK) ∧ (a.add b).hasQ = (a.hasQ || b.hasQ) := by intro a b; cases a <;> cases b <;> decide
theorem rights_sub : ∀ a b : CR, (a.sub b).hasK = (a.hasK && !b.hasK) ∧ (a.sub b).hasQ = (a.hasQ && !b.hasQ) := by intro a b; cases a <;> cases b <;> decide
theorem rights_ext : ∀ a b : CR, a.hasK = b.hasK → a.hasQ = b.hasQ → a = b := by intro a b; cases a <;> cases b <;> decide
theorem rights_has_any : ∀ a : CR, a.hasAny = (a.hasK || a.hasQ) := by intro a; cases a <;> decide

/-! ## bitboards (all 2^64 values) -/
/-- the iterator yields exactly the set squares, in ascending order -/
theorem iter_spec (b : BB) : toList b = allSq.filter (mem · b) := toList_spec b
theorem iter_sorted (b : BB) : (toList b).Pairwise (· < ·) := by
  rw [toList_spec]; exact (List.pairwise_lt_finRange 64).filter _
theorem iter_mem (b : BB) (s : Sq) : s ∈ toList b ↔ mem s b = true := mem_toList b s
/-- `count_ones` is the number of enumerated squares (definitional in the model) and is 0 exactly for the blank board -/
theorem count_spec (b : BB) : popcount b = (toList b).length := rfl
theorem count_zero (b : BB) : popcount b = 0 ↔ b = 0#64 := popcount_zero b
/-- lowest square = first enumerated, highest = last enumerated -/
theorem lowest_is_head (b : BB) : lowest b = (toList b).head? := by
  rw [toList_spec, List.head?_filter]; rfl
theorem highest_is_last (b : BB) : highest b = (toList b).getLast? := by
  rw [toList_spec, List.getLast?_eq_head?_reverse, ← List.filter_reverse, List.head?_filter]; rfl
theorem lowest_spec (b : BB) (s : Sq) : lowest b = some s ↔ (mem s b = true ∧ ∀ t : Sq, t < s → mem t b = false) :=
  lowest_some b s
theorem single_square (s t : Sq) : mem t (bbOf s) = decide (t = s) := mem_bbOf t s
theorem file_mask : ∀ (f : Fin 8) (s : Sq), mem s (bbOfFile f) = decide (s.val % 8 = f.val) := by decide +kernel
theorem rank_mask : ∀ (r : Fin 8) (s : Sq), mem s (bbOfRank r) = decide (s.val / 8 = r.val) := by decide +kernel

/-! ## non-vacuity -/
example : toList (0xff00#64) = [8, 9, 10, 11, 12, 13, 14, 15] := by decide
example : popcount (0x8000000000000001#64) = 2 ∧ lowest (0x8000000000000001#64) = some 0 ∧ highest (0x8000000000000001#64) = some 63 := by decide

end Chess.C18
