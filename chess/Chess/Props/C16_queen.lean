import Chess.Model.Text
/-! C16, piece type `queen`: every origin × destination × promotion by kernel evaluation (whole finite domain). -/
namespace Chess.C16
open Chess
theorem rt_queen_0 : ∀ src dst : Sq, parseMove (printMove (.piece .queen src dst (none))) = .ok (.piece .queen src dst (none)) := by
  decide +kernel
theorem rt_queen_1 : ∀ src dst : Sq, parseMove (printMove (.piece .queen src dst (some .knight))) = .ok (.piece .queen src dst (some .knight)) := by
  decide +kernel
theorem rt_queen_2 : ∀ src dst : Sq, parseMove (printMove (.piece .queen src dst (some .bishop))) = .ok (.piece .queen src dst (some .bishop)) := by
  decide +kernel
theorem rt_queen_3 : ∀ src dst : Sq, parseMove (printMove (.piece .queen src dst (some .rook))) = .ok (.piece .queen src dst (some .rook)) := by
  decide +kernel
theorem rt_queen_4 : ∀ src dst : Sq, parseMove (printMove (.piece .queen src dst (some .queen))) = .ok (.piece .queen src dst (some .queen)) := by
  decide +kernel
theorem rt_queen_5 : ∀ src dst : Sq, parseMove (printMove (.piece .queen src dst (some .king))) = .ok (.piece .queen src dst (some .king)) := by
  decide +kernel
end Chess.C16
