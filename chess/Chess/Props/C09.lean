import Chess.Lemmas.Construct
import Chess.Model.Text
/-! # C09 — position construction accepts exactly the valid positions

`TryFrom<&BoardBuilder> for ChessBoard` (`Board.ofBuilder`, reached from `from_fen`/`from_str` and from a piece list via
`BoardBuilder::setup`) succeeds exactly on the builders whose described position `bb.toPos` satisfies `Spec.ValidPos`:
one king per side, the side not to move not in check, every granted castling right backed by king and rook on their home
squares, and a consistent en-passant square.  The produced board stands for exactly that position and satisfies
`Board.Valid`, the predicate every other theorem assumes.  For an ARBITRARY key table `K`. -/
namespace Chess
open Board Construct
variable (K : Keys)

/-- `validate` alone: on masks that encode a placement it accepts exactly the valid positions -/
theorem C09_validate {b : Board} (hc : b.Cons) : b.validate = none ↔ Spec.ValidPos b.absPos = true :=
  validate_none_iff hc

/-- success of the constructor, unfolded -/
theorem ofBuilder_ok_iff (bb : Builder) (b : Board) :
    Board.ofBuilder K bb = .ok b ↔
      (Spec.ValidPos bb.toPos = true ∧ b = (b3 K bb).updateTerminalStatus K) := by
  have hv := validate_none_iff (b3_rep K bb)
  rw [b3_pos] at hv
  rw [ofBuilder_eq, popcount_king (b0_rep K bb), popcount_king (b0_rep K bb)]
  constructor
  · intro h
    split at h
    · cases h
    split at h
    · cases h
    split at h
    · next hval => cases h; exact ⟨hv.1 hval, rfl⟩
    · cases h
  · rintro ⟨hp, rfl⟩
    have hval := hv.2 hp
    simp only [Spec.ValidPos, Bool.and_eq_true, beq_iff_eq] at hp
    have hw : Spec.countPiece bb.pieces ⟨.king, .white⟩ = 1 := hp.1.1.1.1.1
    have hb : Spec.countPiece bb.pieces ⟨.king, .black⟩ = 1 := hp.1.1.1.1.2
    rw [hw, hb, hval]
    rfl

/-- the abstraction of the constructed board is the builder's position -/
theorem absPos_updateTerminalStatus (b : Board) : (b.updateTerminalStatus K).absPos = b.absPos := rfl

theorem b3_absPos (bb : Builder) : (b3 K bb).absPos = bb.toPos := by
  rw [← b3_pos K bb]
  unfold Board.absPos posOf
  rw [(b3_rep K bb).abs_eq]

/-- SOUNDNESS: a successful construction yields a `Valid` board standing for exactly the builder's position
(so that position satisfies `Spec.ValidPos`: see `C09_sound_validPos`) -/
theorem C09_sound (bb : Builder) (b : Board) (h : Board.ofBuilder K bb = .ok b) :
    b.Valid K ∧ b.absPos = bb.toPos := by
  obtain ⟨hp, rfl⟩ := (ofBuilder_ok_iff K bb b).1 h
  have habs : ((b3 K bb).updateTerminalStatus K).absPos = bb.toPos := by
    rw [absPos_updateTerminalStatus, b3_absPos]
  refine ⟨⟨?_, ?_, ?_, ?_, ?_, ?_⟩, habs⟩
  · have hr := b3_rep K bb
    exact Rep.cons (f := bb.pieces) ⟨hr.pcs, hr.cls, hr.cmb⟩
  · rw [habs]; exact hp
  · exact b3_pinned K bb
  · exact b3_checks K bb
  · exact updateTerminalStatus_term K _
  · exact b3_hash K bb

theorem C09_sound_validPos (bb : Builder) (b : Board) (h : Board.ofBuilder K bb = .ok b) :
    Spec.ValidPos bb.toPos = true := ((ofBuilder_ok_iff K bb b).1 h).1

/-- the four groups of conditions of a successfully constructed position, spelled out -/
theorem C09_sound_clauses (bb : Builder) (b : Board) (h : Board.ofBuilder K bb = .ok b) :
    (Spec.countPiece b.abs ⟨.king, .white⟩ = 1 ∧ Spec.countPiece b.abs ⟨.king, .black⟩ = 1) ∧
    Spec.inCheck b.abs b.stm.other = false ∧
    (Spec.rightsOk b.absPos .white = true ∧ Spec.rightsOk b.absPos .black = true) ∧
    Spec.epOk b.absPos = true := by
  have hv := (C09_sound K bb b h).1.pos
  simp only [Spec.ValidPos, Bool.and_eq_true, beq_iff_eq, Bool.not_eq_true'] at hv
  exact ⟨⟨hv.1.1.1.1.1, hv.1.1.1.1.2⟩, hv.1.1.1.2, ⟨hv.1.1.2, hv.1.2⟩, hv.2⟩

/-- COMPLETENESS: every builder describing a valid position is accepted -/
theorem C09_complete (bb : Builder) (hv : Spec.ValidPos bb.toPos = true) : ∃ b, Board.ofBuilder K bb = .ok b :=
  ⟨_, (ofBuilder_ok_iff K bb _).2 ⟨hv, rfl⟩⟩

/-- REJECTION: every builder describing an invalid position gets an error -/
theorem C09_error (bb : Builder) (hv : Spec.ValidPos bb.toPos = false) : ∃ e, Board.ofBuilder K bb = .error e := by
  cases h : Board.ofBuilder K bb with
  | error e => exact ⟨e, rfl⟩
  | ok b =>
    have := C09_sound_validPos K bb b h
    rw [hv] at this; exact Bool.noConfusion this

/-- acceptance is decided by `Spec.ValidPos` -/
theorem C09_iff (bb : Builder) : (∃ b, Board.ofBuilder K bb = .ok b) ↔ Spec.ValidPos bb.toPos = true :=
  ⟨fun ⟨b, h⟩ => C09_sound_validPos K bb b h, C09_complete K bb⟩

/-- text: every board produced by the FEN parser is `Valid` (and stands for the parsed builder's position) -/
theorem C09_ofFen (s : Str) (b : Board) (h : Board.ofFen K s = .ok b) : b.Valid K := by
  unfold Board.ofFen at h
  split at h
  · cases h
  · exact (C09_sound K _ b h).1

theorem C09_ofFen_pos (s : Str) (b : Board) (h : Board.ofFen K s = .ok b) :
    ∃ bb, parseFen s = .ok bb ∧ b.absPos = bb.toPos ∧ Spec.ValidPos bb.toPos = true := by
  unfold Board.ofFen at h
  split at h
  · cases h
  · next bb hb => exact ⟨bb, hb, (C09_sound K _ b h).2, C09_sound_validPos K _ b h⟩

/-- piece list: `BoardBuilder::setup` followed by the conversion yields a `Valid` board -/
theorem C09_setup (pl : List (Sq × Piece)) (stm : Color) (wr br : CR) (ep : Option Sq) (half full : Nat) (b : Board)
    (h : Board.ofBuilder K (Board.setupBuilder pl stm wr br ep half full) = .ok b) : b.Valid K :=
  (C09_sound K _ b h).1

/-! hypotheses are satisfiable: kings on e1/e8, white rooks on a1/h1 with both white castling rights, a black pawn that
has just played e7-e5 (en-passant square e6), White to move — accepted for every key table -/
def C09.sample : Builder :=
  { pieces := fun s =>
      if s = 4 then some ⟨.king, .white⟩ else if s = 0 then some ⟨.rook, .white⟩ else if s = 7 then some ⟨.rook, .white⟩
      else if s = 60 then some ⟨.king, .black⟩ else if s = 36 then some ⟨.pawn, .black⟩ else none,
    stm := .white, rights := fun c => match c with | .white => .both | .black => .neither,
    ep := some 44, half := 0, full := 1 }

theorem C09.sample_valid : Spec.ValidPos C09.sample.toPos = true := by decide +kernel

example : ∃ b, Board.ofBuilder K C09.sample = .ok b ∧ b.Valid K ∧ b.absPos = C09.sample.toPos := by
  obtain ⟨b, hb⟩ := C09_complete K _ C09.sample_valid
  exact ⟨b, hb, C09_sound K _ b hb⟩

/-- … and an invalid one (no kings) is rejected -/
example : ∃ e, Board.ofBuilder K Builder.new = .error e := C09_error K _ (by decide +kernel)

end Chess
