import Chess.Model.Text
/-! C16, piece type `king`: every origin × destination × promotion by kernel evaluation (whole finite domain). -/
namespace Chess.C16
open Chess
theorem rt_king_0 : ∀ src dst : Sq, parseMove (printMove (.piece .king src dst (none))) = .ok (.piece .king src dst (none)) := by
  decide +kernel
theorem rt_king_1 : ∀ src dst : Sq, parseMove (printMove (.piece .king src dst (some .knight))) = .ok (.piece .king src dst (some .knight)) := by
  decide +kernel
theorem rt_king_2 : ∀ src dst : Sq, parseMove (printMove (.piece .king src dst (some .bishop))) = .ok (.piece .king src dst (some .bishop)) := by
  decide +kernel
theorem rt_king_3 : ∀ src dst : Sq, parseMove (printMove (.piece .king src dst (some .rook))) = .ok (.piece .king src dst (some .rook)) := by
  decide +kernel
theorem rt_king_4 : ∀ src dst : Sq, parseMove (printMove (.piece .king src dst (some .queen))) = .ok (.piece .king src dst (some .queen)) := by
  decide +kernel
theorem rt_king_5 : ∀ src dst : Sq, parseMove (printMove (.piece .king src dst (some .king))) = .ok (.piece .king src dst (some .king)) := by
  decide +kernel
end Chess.C16
