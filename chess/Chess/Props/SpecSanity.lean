import Chess.Lemmas.Construct
/-! # Sanity of the SPECIFICATION text (tests, labelled as tests)

`Chess/Spec/Rules.lean` is part of the trusted base: the property theorems say "the model equals the specification", so the
specification has to say what the rules of chess say.  It is validated at run time against the implementation on tens of thousands
of positions; the statements below are additional, kernel-checked EVALUATIONS of the specification itself on positions with known
answers (the perft(1) values of the six standard perft roots used by the repository's suite, perft(2) of the start position,
one position of every status kind, some notation cases).  They are tests of the specification text on concrete inputs, not theorems
about all positions, and nothing else depends on them. -/
namespace Chess.SpecSanity
open Chess

def fenPos (s : String) : Option Spec.Pos :=
  match parseFen s.toList with
  | .ok bb => some bb.toPos
  | .error _ => none

/-- number of legal moves the SPECIFICATION gives in a position written as FEN (`999`: the FEN did not parse) -/
def nLegal (s : String) : Nat := match fenPos s with | some p => (Spec.legalMoves p).length | none => 999

/-- perft(2) by the specification -/
def perft2 (s : String) : Nat :=
  match fenPos s with
  | some p => ((Spec.legalMoves p).map fun m => (Spec.legalMoves (Spec.apply p m)).length).foldl (· + ·) 0
  | none => 999

def statusOf (s : String) : Option Spec.Status := (fenPos s).map Spec.status

set_option maxRecDepth 100000

/-! ### perft(1) of the six roots of the repository's suite (reference values 20, 48, 14, 6, 44, 46) -/
example : nLegal "rnbqkbnr/pppppppp/8/8/8/8/PPPPPPPP/RNBQKBNR w KQkq - 0 1" = 20 := by decide +kernel
example : nLegal "r3k2r/p1ppqpb1/bn2pnp1/3PN3/1p2P3/2N2Q1p/PPPBBPPP/R3K2R w KQkq - 0 1" = 48 := by decide +kernel
example : nLegal "8/2p5/3p4/KP5r/1R3p1k/8/4P1P1/8 w - - 0 1" = 14 := by decide +kernel
example : nLegal "r3k2r/Pppp1ppp/1b3nbN/nP6/BBP1P3/q4N2/Pp1P2PP/R2Q1RK1 w kq - 0 1" = 6 := by decide +kernel
example : nLegal "rnbq1k1r/pp1Pbppp/2p5/8/2B5/8/PPP1NnPP/RNBQK2R w KQ - 1 8" = 44 := by decide +kernel
example : nLegal "r4rk1/1pp1qppp/p1np1n2/2b1p1B1/2B1P1b1/P1NP1N2/1PP1QPPP/R4RK1 w - - 0 10" = 46 := by decide +kernel
/-! ### perft(2) of the start position (400) and of the en-passant / promotion heavy root 3 (191) -/
example : perft2 "rnbqkbnr/pppppppp/8/8/8/8/PPPPPPPP/RNBQKBNR w KQkq - 0 1" = 400 := by decide +kernel
example : perft2 "8/2p5/3p4/KP5r/1R3p1k/8/4P1P1/8 w - - 0 1" = 191 := by decide +kernel

/-! ### one position per status kind -/
-- fool's mate
example : statusOf "rnb1kbnr/pppp1ppp/8/4p3/6Pq/5P2/PPPPP2P/RNBQKBNR w KQkq - 1 3" = some (.checkmated .white) := by decide +kernel
-- stalemate (queen)
example : statusOf "7k/5Q2/8/8/8/8/8/K7 b - - 0 1" = some .stalemate := by decide +kernel
-- K+B v K: insufficient material; K+B v K+N: insufficient; K+R v K: not
example : statusOf "8/8/8/3k4/8/8/3B4/K7 w - - 0 1" = some .insufficient := by decide +kernel
example : statusOf "8/8/8/3k4/5n2/8/3B4/K7 w - - 0 1" = some .insufficient := by decide +kernel
example : statusOf "8/8/8/3k4/8/8/3R4/K7 w - - 40 1" = some .ongoing := by decide +kernel
-- fifty-move threshold: 99 ongoing, 100 drawn; stalemate takes precedence over both draws
example : statusOf "8/8/8/3k4/8/8/3R4/K7 w - - 99 80" = some .ongoing := by decide +kernel
example : statusOf "8/8/8/3k4/8/8/3R4/K7 w - - 100 80" = some .fifty := by decide +kernel
example : statusOf "7k/5Q2/8/8/8/8/8/K7 b - - 100 80" = some .stalemate := by decide +kernel
-- an en-passant capture that would uncover the king along the rank is not legal (root 3 family)
-- (Ka4, Ka6, Kb6, b6: four moves; bxc6 e.p. is not among them)
example : nLegal "8/8/8/KPp4r/8/8/8/7k w - c6 0 2" = 4 := by decide +kernel
-- no castling out of check (Kd2, Ke2, Kf2 only); castling with only b1 attacked is legal (5 king + 10 rook moves + O-O-O);
-- castling through the attacked d1 is not (3 king + 10 rook moves)
example : nLegal "4k3/8/8/8/8/8/8/R3K2r w Q - 0 1" = 3 := by decide +kernel
example : nLegal "1r2k3/8/8/8/8/8/8/R3K3 w Q - 0 1" = 16 := by decide +kernel
example : nLegal "3rk3/8/8/8/8/8/8/R3K3 w Q - 0 1" = 13 := by decide +kernel

end Chess.SpecSanity
