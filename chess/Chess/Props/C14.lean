import Chess.Lemmas.San
import Chess.Lemmas.SanBoard
import Chess.Lemmas.LegalJoin
/-! # C14 — short algebraic notation identifies every legal move uniquely, in standard form (M1 level)

Property text: "short algebraic notation identifies every legal move uniquely, in standard form … PGN-standard
disambiguation (none when unneeded, else origin file, else origin rank, else both, counting only pieces that can
legally make the move), so that no two legal moves of a position ever render to the same text.  Asking for the
notation properties of an illegal move returns an error."

* `C14_illegal`            — the notation properties of an illegal move are an error (the illegal-move error);
* `C14_standard_parts`     — decomposition equation of the text of a legal piece move: piece letter, disambiguation,
                             `x` iff capture, destination, `=P` iff promotion, `#` iff mate else `+` iff check;
  `C14_standard_castle`    — same for castling;
* `C14_disambiguation`     — the disambiguation kind is the PGN-standard one, over the *legal* rivals only;
* `C14_text_inversion`     — parser-free inversion of the text (all parts are recovered from the characters);
* `C14_injective_core`     — no two legal moves of a position render to the same text, from the three facts it needs;
* `C14_injective`          — the same for a valid board, with the C03 hypothesis in the form given in the work order;
  `C14_injective_C03`      — the same with the C03 hypothesis restricted to moves that do not promote to a pawn.

The text parts (`sanL`, `sanD`, `sanX`, `sanP`, `sanChk`, `castleStr`) are defined in `Chess/Lemmas/San.lean`;
`Board.rivals`, `Board.ambKind`, `Board.stdAmb` in `Chess/Lemmas/SanBoard.lean`. -/
namespace Chess
open Board

variable (K : Keys)

/-! ## 1. illegal moves -/
theorem C14_illegal (b : Board) (m : Move) (h : b.isLegalMove K m = false) : ∃ e, b.moveProps K m = .error e := by
  unfold Board.moveProps Board.makeMove
  simp only [h, Bool.false_eq_true, if_false]
  exact ⟨_, rfl⟩

/-- sharper: it is the illegal-move error, and conversely a legal move always has notation properties -/
theorem C14_illegal_iff (b : Board) (m : Move) :
    b.isLegalMove K m = false ↔ b.moveProps K m = .error .illegalMove := by
  constructor
  · intro h
    unfold Board.moveProps Board.makeMove
    simp only [h, Bool.false_eq_true, if_false]
  · intro h
    cases hl : b.isLegalMove K m
    · rfl
    · exfalso
      have hok : ∃ p, b.moveProps K m = .ok p := by
        unfold Board.moveProps Board.makeMove
        simp only [hl, if_true]
        cases m with
        | castle s => exact ⟨_, rfl⟩
        | piece pt src dst promo =>
          have ha := moveAmbiguity_legal K b pt src dst promo hl
          cases pt <;> simp only [ha] <;> exact ⟨_, rfl⟩
      obtain ⟨p, hp⟩ := hok
      rw [hp] at h; cases h

/-! ## 4. standard parts -/
/-- the text of a legal piece move: letter (none for a pawn), disambiguation characters of the standard kind,
`x` iff the move captures, the destination square, `=P` iff it promotes, `#` iff it mates else `+` iff it checks -/
theorem C14_standard_parts (b : Board) (pt : PT) (src dst : Sq) (promo : Option PT) (p : MoveProps)
    (h : b.moveProps K (.piece pt src dst promo) = .ok p) :
    sanText (.piece pt src dst promo) p =
      (match pt with | .pawn => [] | t => [t.letter]) ++
      (match b.stdAmb K (.piece pt src dst promo) with
        | .neither => [] | .extraFile => [fileChar src.fl] | .extraRank => [rankChar src.rk]
        | .extraSquare => [fileChar src.fl, rankChar src.rk]) ++
      (if b.isCapture (.piece pt src dst promo) then ['x'] else []) ++
      [fileChar dst.fl, rankChar dst.rk] ++
      (match promo with | some t => ['=', t.letter] | none => []) ++
      (if (b.makeMoveUnchecked K (.piece pt src dst promo)).term &&
            decide (popcount (b.makeMoveUnchecked K (.piece pt src dst promo)).checks > 0) then ['#']
       else if decide (popcount (b.makeMoveUnchecked K (.piece pt src dst promo)).checks > 0) then ['+'] else []) := by
  obtain ⟨_, hc, hm, hx, ha⟩ := moveProps_inv K b _ p h
  rw [sanText_piece, sanC, sanChk, hm, hc, hx, ha]
  cases pt <;> cases promo <;> cases b.stdAmb K _ <;> rfl

theorem C14_standard_castle (b : Board) (s : Side) (p : MoveProps) (h : b.moveProps K (.castle s) = .ok p) :
    sanText (.castle s) p =
      (match s with | .king => ['O', '-', 'O'] | .queen => ['O', '-', 'O', '-', 'O']) ++
      (if (b.makeMoveUnchecked K (.castle s)).term &&
            decide (popcount (b.makeMoveUnchecked K (.castle s)).checks > 0) then ['#']
       else if decide (popcount (b.makeMoveUnchecked K (.castle s)).checks > 0) then ['+'] else []) := by
  obtain ⟨_, hc, hm, _, _⟩ := moveProps_inv K b _ p h
  rw [sanText_castle, sanC, sanChk, hm, hc]
  cases s <;> rfl

/-! ### the disambiguation kind is the standard one -/
theorem ambKind_iff (R : List Sq) (s : Sq) :
    (ambKind R s = .neither ↔ R = []) ∧
    (ambKind R s = .extraFile ↔ R ≠ [] ∧ ∀ x ∈ R, x.fl ≠ s.fl) ∧
    (ambKind R s = .extraRank ↔ R ≠ [] ∧ ¬(∀ x ∈ R, x.fl ≠ s.fl) ∧ ∀ x ∈ R, x.rk ≠ s.rk) ∧
    (ambKind R s = .extraSquare ↔ R ≠ [] ∧ ¬(∀ x ∈ R, x.fl ≠ s.fl) ∧ ¬(∀ x ∈ R, x.rk ≠ s.rk)) := by
  unfold ambKind
  by_cases hR : R = []
  · subst hR; simp
  · have hE : R.isEmpty = false := by cases R <;> simp_all
    simp only [hE, Bool.not_false, if_true, List.all_eq_true, bne_iff_ne]
    by_cases hF : ∀ x ∈ R, x.fl ≠ s.fl
    · simp only [if_pos hF]
      grind
    · simp only [if_neg hF]
      by_cases hK : ∀ x ∈ R, x.rk ≠ s.rk
      · simp only [if_pos hK]; grind
      · simp only [if_neg hK]; grind

/-- PGN-standard disambiguation of a legal knight, bishop, rook or queen move: the rivals are the origins of the
other *legal* moves of a piece of the same type to the same destination; no extra character when there is none,
else the origin file when it separates from all rivals, else the origin rank when it does, else both.
(A pawn prints its origin file exactly when it changes file, a king never prints anything: by `Board.stdAmb`.) -/
theorem C14_disambiguation (b : Board) (pt : PT) (src dst : Sq) (promo : Option PT) (p : MoveProps)
    (h : b.moveProps K (.piece pt src dst promo) = .ok p) (hp : pt ≠ .pawn) (hk : pt ≠ .king) :
    (∀ s, s ∈ b.rivals K pt src dst ↔ s ≠ src ∧ ∃ pr, Move.piece pt s dst pr ∈ b.getLegalMoves K) ∧
    (p.amb = .neither ↔ b.rivals K pt src dst = []) ∧
    (p.amb = .extraFile ↔ b.rivals K pt src dst ≠ [] ∧ ∀ x ∈ b.rivals K pt src dst, x.fl ≠ src.fl) ∧
    (p.amb = .extraRank ↔ b.rivals K pt src dst ≠ [] ∧ ¬(∀ x ∈ b.rivals K pt src dst, x.fl ≠ src.fl) ∧
        ∀ x ∈ b.rivals K pt src dst, x.rk ≠ src.rk) ∧
    (p.amb = .extraSquare ↔ b.rivals K pt src dst ≠ [] ∧ ¬(∀ x ∈ b.rivals K pt src dst, x.fl ≠ src.fl) ∧
        ¬(∀ x ∈ b.rivals K pt src dst, x.rk ≠ src.rk)) := by
  obtain ⟨_, _, _, _, ha⟩ := moveProps_inv K b _ p h
  have e : b.stdAmb K (.piece pt src dst promo) = ambKind (b.rivals K pt src dst) src := by
    unfold stdAmb; cases pt <;> simp_all
  rw [ha, e]
  exact ⟨mem_rivals K b pt src dst, ambKind_iff _ _⟩

/-- pawn and king: the file of origin exactly for a pawn that changes file, nothing for a king -/
theorem C14_disambiguation_pawn_king (b : Board) (pt : PT) (src dst : Sq) (promo : Option PT) (p : MoveProps)
    (h : b.moveProps K (.piece pt src dst promo) = .ok p) :
    (pt = .pawn → p.amb = if src.fl ≠ dst.fl then .extraFile else .neither) ∧ (pt = .king → p.amb = .neither) := by
  obtain ⟨_, _, _, _, ha⟩ := moveProps_inv K b _ p h
  rw [ha]
  constructor
  · rintro rfl; simp only [stdAmb, beq_self_eq_true, if_true, bne_iff_ne, ne_eq]
  · rintro rfl; rfl

/-! ## 2. text inversion (no parser) -/
/-- from the text of a piece move one recovers the piece type, the destination, the promotion piece, the
disambiguation characters, the capture mark and the check/mate suffix -/
theorem C14_text_inversion {pt₁ pt₂ : PT} {src₁ src₂ dst₁ dst₂ : Sq} {promo₁ promo₂ : Option PT} {p₁ p₂ : MoveProps}
    (h : sanText (.piece pt₁ src₁ dst₁ promo₁) p₁ = sanText (.piece pt₂ src₂ dst₂ promo₂) p₂) :
    pt₁ = pt₂ ∧ dst₁ = dst₂ ∧ promo₁ = promo₂ ∧ sanD p₁.amb src₁ = sanD p₂.amb src₂ ∧
    p₁.isCapture = p₂.isCapture ∧ sanChk p₁.isMate p₁.isCheck = sanChk p₂.isMate p₂.isCheck :=
  sanText_piece_inj h

/-! ## 3. uniqueness -/
theorem ambKind_spec (R : List Sq) (s x : Sq) (hx : x ∈ R) :
    (ambKind R s = .extraFile ∧ x.fl ≠ s.fl) ∨ (ambKind R s = .extraRank ∧ x.rk ≠ s.rk) ∨ ambKind R s = .extraSquare := by
  have hR : R ≠ [] := by rintro rfl; cases hx
  obtain ⟨h0, h1, h2, h3⟩ := ambKind_iff R s
  by_cases hF : ∀ x ∈ R, x.fl ≠ s.fl
  · exact Or.inl ⟨h1.2 ⟨hR, hF⟩, hF x hx⟩
  · by_cases hK : ∀ x ∈ R, x.rk ≠ s.rk
    · exact Or.inr (Or.inl ⟨h2.2 ⟨hR, hF, hK⟩, hK x hx⟩)
    · exact Or.inr (Or.inr (h3.2 ⟨hR, hF, hK⟩))

/-- two origins, each a rival of the other, never get the same disambiguation characters -/
theorem ambKind_sep (R₁ R₂ : List Sq) (s₁ s₂ : Sq) (h₂ : s₂ ∈ R₁) (h₁ : s₁ ∈ R₂)
    (hD : sanD (ambKind R₁ s₁) s₁ = sanD (ambKind R₂ s₂) s₂) : s₁ = s₂ := by
  have f1 := fc s₁; have f2 := fc s₂; have r1 := rc s₁; have r2 := rc s₂
  rcases ambKind_spec R₁ s₁ s₂ h₂ with ⟨e₁, n₁⟩ | ⟨e₁, n₁⟩ | e₁ <;>
    rcases ambKind_spec R₂ s₂ s₁ h₁ with ⟨e₂, n₂⟩ | ⟨e₂, n₂⟩ | e₂ <;>
    rw [e₁, e₂] at hD <;>
    simp only [sanD, printSquare, List.cons.injEq, and_true, reduceCtorEq, and_false] at hD
  · exact absurd (fileChar_fl_inj hD).symm n₁
  · exfalso; rw [hD] at f1; rw [f1.2.1] at r2; cases r2.1
  · exfalso; rw [hD] at r1; rw [r1.2.1] at f2; cases f2.1
  · exact absurd (rankChar_rk_inj hD).symm n₁
  · exact Sq.ext_rk_fl (rankChar_rk_inj hD.2) (fileChar_fl_inj hD.1)

/-- MAIN (core form).  On a board where
* `hl`   every move accepted by the legality test without promotion piece is in the generated list (the part of C03 used),
* `hking` the side to move has at most one king,
* `hocc` the men of the side to move are in the occupancy mask (mask consistency),
no two moves with notation properties (= legal moves) render to the same text. -/
theorem C14_injective_core (b : Board) (m₁ m₂ : Move) (p₁ p₂ : MoveProps)
    (h₁ : b.moveProps K m₁ = .ok p₁) (h₂ : b.moveProps K m₂ = .ok p₂)
    (hl : ∀ pt s d, b.isLegalMove K (.piece pt s d none) = true → Move.piece pt s d none ∈ b.getLegalMoves K)
    (hking : ∀ s₁ s₂, (mem s₁ (b.pieces .king) = true ∧ mem s₁ (b.colors b.stm) = true) →
      (mem s₂ (b.pieces .king) = true ∧ mem s₂ (b.colors b.stm) = true) → s₁ = s₂)
    (hocc : ∀ s, mem s (b.colors b.stm) = true → mem s b.combined = true)
    (ht : sanText m₁ p₁ = sanText m₂ p₂) : m₁ = m₂ := by
  obtain ⟨l₁, -, -, -, a₁⟩ := moveProps_inv K b m₁ p₁ h₁
  obtain ⟨l₂, -, -, -, a₂⟩ := moveProps_inv K b m₂ p₂ h₂
  cases m₁ with
  | castle s₁ =>
    cases m₂ with
    | castle s₂ => rw [(sanText_castle_inj ht).1]
    | piece pt₂ src₂ dst₂ promo₂ => exact absurd ht (sanText_castle_ne_piece _ _ _ _ _ _ _)
  | piece pt₁ src₁ dst₁ promo₁ =>
    cases m₂ with
    | castle s₂ => exact absurd ht.symm (sanText_castle_ne_piece _ _ _ _ _ _ _)
    | piece pt₂ src₂ dst₂ promo₂ =>
      obtain ⟨rfl, rfl, rfl, hD, -, -⟩ := sanText_piece_inj ht
      suffices src₁ = src₂ by rw [this]
      rw [a₁, a₂] at hD
      obtain ⟨hp₁, ho₁, hm₁, -⟩ := legal_piece_inv K b _ _ _ _ l₁
      obtain ⟨hp₂, ho₂, hm₂, -⟩ := legal_piece_inv K b _ _ _ _ l₂
      by_cases hpawn : pt₁ = .pawn
      · subst hpawn
        refine pawn_unique b hocc src₁ src₂ dst₁ ?_ ho₁ ho₂ hm₁ hm₂
        simp only [stdAmb, beq_self_eq_true, if_true, bne_iff_ne, ne_eq] at hD
        by_cases f1 : src₁.fl = dst₁.fl <;> by_cases f2 : src₂.fl = dst₁.fl <;>
          simp only [f1, f2, not_true_eq_false, not_false_eq_true, if_true, if_false, sanD, List.cons.injEq, and_true,
            reduceCtorEq] at hD
        · rw [f1, f2]
        · exact fileChar_fl_inj hD
      · by_cases hkg : pt₁ = .king
        · subst hkg; exact hking _ _ ⟨hp₁, ho₁⟩ ⟨hp₂, ho₂⟩
        · have e₁ := legal_nonpawn_promo K b _ _ _ _ hpawn l₁
          subst e₁
          apply Classical.byContradiction
          intro hne
          have r₂ : src₂ ∈ b.rivals K pt₁ src₁ dst₁ :=
            (mem_rivals K b _ _ _ _).2 ⟨fun e => hne e.symm, none, hl _ _ _ l₂⟩
          have r₁ : src₁ ∈ b.rivals K pt₁ src₂ dst₁ :=
            (mem_rivals K b _ _ _ _).2 ⟨hne, none, hl _ _ _ l₁⟩
          have hbp : (pt₁ == PT.pawn) = false := by cases pt₁ <;> simp_all
          have hbk : (pt₁ == PT.king) = false := by cases pt₁ <;> simp_all
          simp only [stdAmb, hbp, hbk, Bool.false_eq_true, if_false] at hD
          exact hne (ambKind_sep _ _ _ _ r₂ r₁ hD)

/-- MAIN.  No two legal moves of a valid position render to the same text.  `hl` is property C03 (the legality test
agrees with the generated list), proved elsewhere and taken as a hypothesis exactly as in the work order;
validity supplies "one own king" and mask consistency. -/
theorem C14_injective (b : Board) (hv : b.Valid K) (m₁ m₂ : Move) (p₁ p₂ : MoveProps)
    (h₁ : b.moveProps K m₁ = .ok p₁) (h₂ : b.moveProps K m₂ = .ok p₂)
    (hl : ∀ m, b.isLegalMove K m = true ↔ m ∈ b.getLegalMoves K)
    (ht : sanText m₁ p₁ = sanText m₂ p₂) : m₁ = m₂ :=
  C14_injective_core K b m₁ m₂ p₁ p₂ h₁ h₂ (fun _ _ _ h => (hl _).1 h)
    (king_unique_of_valid hv) (own_occ_of_cons hv.cons) ht

/-- the move promotes to a pawn (the one value on which the legality test and the generated list may differ: such a
move value cannot be constructed by `PieceMove::new`) -/
def Move.promotesToPawn : Move → Bool
  | .piece _ _ _ (some .pawn) => true
  | _ => false

/-- MAIN, with C03 in its restricted form (`C03_iff` carries the side condition "no promotion to a pawn");
no restriction on `m₁`, `m₂` themselves is needed. -/
theorem C14_injective_C03 (b : Board) (hv : b.Valid K) (m₁ m₂ : Move) (p₁ p₂ : MoveProps)
    (h₁ : b.moveProps K m₁ = .ok p₁) (h₂ : b.moveProps K m₂ = .ok p₂)
    (hl : ∀ m, m.promotesToPawn = false → (b.isLegalMove K m = true ↔ m ∈ b.getLegalMoves K))
    (ht : sanText m₁ p₁ = sanText m₂ p₂) : m₁ = m₂ :=
  C14_injective_core K b m₁ m₂ p₁ p₂ h₁ h₂ (fun _ _ _ h => (hl _ rfl).1 h)
    (king_unique_of_valid hv) (own_occ_of_cons hv.cons) ht

/-- as a statement about texts: distinct legal moves have distinct texts -/
theorem C14_distinct (b : Board) (hv : b.Valid K) (m₁ m₂ : Move) (p₁ p₂ : MoveProps)
    (h₁ : b.moveProps K m₁ = .ok p₁) (h₂ : b.moveProps K m₂ = .ok p₂)
    (hl : ∀ m, m.promotesToPawn = false → (b.isLegalMove K m = true ↔ m ∈ b.getLegalMoves K))
    (hne : m₁ ≠ m₂) : sanText m₁ p₁ ≠ sanText m₂ p₂ :=
  fun ht => hne (C14_injective_C03 K b hv m₁ m₂ p₁ p₂ h₁ h₂ hl ht)

/-! ### sanity: the rendering on concrete values, and satisfiability of the core hypotheses -/
example : sanText (.piece .knight ⟨1, by decide⟩ ⟨11, by decide⟩ none) ⟨false, false, false, .extraFile⟩ = "Nbd2".toList := by decide
example : sanText (.piece .knight ⟨1, by decide⟩ ⟨11, by decide⟩ none) ⟨true, false, true, .extraSquare⟩ = "Nb1xd2+".toList := by decide
example : sanText (.piece .pawn ⟨52, by decide⟩ ⟨61, by decide⟩ (some .queen)) ⟨true, true, true, .extraFile⟩ = "exf8=Q#".toList := by decide
example : sanText (.castle .queen) ⟨true, false, false, .neither⟩ = "O-O-O+".toList := by decide

/-- the three hypotheses of `C14_injective_core` are jointly satisfiable (trivially, on the empty board;
on every valid board the last two hold by `king_unique_of_valid`, `own_occ_of_cons`) -/
example :
    (∀ pt s d, Board.new.isLegalMove K (.piece pt s d none) = true → Move.piece pt s d none ∈ Board.new.getLegalMoves K) ∧
    (∀ s₁ s₂ : Sq, (mem s₁ (Board.new.pieces .king) = true ∧ mem s₁ (Board.new.colors Board.new.stm) = true) →
      (mem s₂ (Board.new.pieces .king) = true ∧ mem s₂ (Board.new.colors Board.new.stm) = true) → s₁ = s₂) ∧
    (∀ s : Sq, mem s (Board.new.colors Board.new.stm) = true → mem s Board.new.combined = true) := by
  refine ⟨?_, ?_, ?_⟩
  · intro pt s d h
    have := (legal_piece_inv K _ _ _ _ _ h).1
    simp [Board.new] at this
  · intro s₁ s₂ h; simp [Board.new] at h
  · intro s h; simp [Board.new] at h

end Chess

namespace Chess
open Board
/-- C14 closed with C03: on every valid board, equal SAN texts of legal moves mean equal moves -/
theorem C14_injective_valid (K : Keys) (b : Board) (hv : b.Valid K) (m₁ m₂ : Move) (p₁ p₂ : MoveProps)
    (h₁ : b.moveProps K m₁ = .ok p₁) (h₂ : b.moveProps K m₂ = .ok p₂) (ht : sanText m₁ p₁ = sanText m₂ p₂) : m₁ = m₂ :=
  C14_injective_core K b m₁ m₂ p₁ p₂ h₁ h₂
    (fun pt s d h => (hv.isLegalMove_iff _ (by intro _ _ _ e; cases e)).1 h)
    (king_unique_of_valid hv) (own_occ_of_cons hv.cons) ht
end Chess
