import Chess.Model.Rng
import Chess.Gen.ZobristKeys
import Chess.Props.C07Keys
/-! C07 (key table part, "key tables from a fixed seed"): the published table `Gen.zkey` (dumped from the running
implementation) IS the output of the modelled generator `StdRng::seed_from_u64(1370359990842121)` +
785 × `rng.gen::<u64>()` (`Chess/Model/Rng.lean`: PCG32 seed expansion, ChaCha12 block function, `BlockRng::next_u64`).
The key stream is evaluated once by the kernel (one pass over the 785 keys, ≈ 5 s). -/
namespace Chess.C07
open Chess.Rng

/-- first two keys (the values of the independent Python prototype) -/
theorem rng_first_keys :
    Rng.key 1370359990842121 0 = 0xb110fe7ecabc4947 ∧ Rng.key 1370359990842121 1 = 0x68398d91d6011492 := by
  decide +kernel

/-- the eight ChaCha key words obtained from `SEED` by the PCG32 expansion -/
theorem rng_seed_words :
    Rng.pcg32Seed 1370359990842121 =
      [0x3fd4ef00, 0xab970239, 0x50e78fbd, 0xe7ba6fe3, 0x6a41dd09, 0x3a3afaeb, 0x1e6ae3c9, 0x87df428d] := by
  decide +kernel

/-- one pass over the generator: the next `n` outputs from state `r` are the published keys `i, i+1, …` -/
def checkFrom : Nat → Nat → BlockRng → Bool
  | 0, _, _ => true
  | n + 1, i, r => Nat.beq r.nextU64.1 (Gen.zkey i) && checkFrom n (i + 1) r.nextU64.2

theorem checkFrom_spec : ∀ (n i : Nat) (r : BlockRng), checkFrom n i r = true →
    ∀ j, j < n → (Rng.iter (fun r => r.nextU64.2) j r).nextU64.1 = Gen.zkey (i + j)
  | 0, _, _, _, j, hj => by omega
  | n + 1, i, r, h, j, hj => by
    simp only [checkFrom, Bool.and_eq_true] at h
    cases j with
    | zero => exact Nat.eq_of_beq_eq_true h.1
    | succ j =>
      have := checkFrom_spec n (i + 1) r.nextU64.2 h.2 j (by omega)
      simp only [Rng.iter]
      rw [this]
      congr 1
      omega

set_option maxRecDepth 100000 in
theorem rng_table_check : checkFrom 785 0 (Rng.seedFromU64 1370359990842121) = true := by decide +kernel

/-- MAIN: every published key is the corresponding output of the seeded generator -/
theorem rng_table_eq : ∀ i, i < 785 → Rng.key 1370359990842121 i = Gen.zkey i := by
  intro i hi
  have := checkFrom_spec 785 0 _ rng_table_check i hi
  simpa [Rng.key] using this

/-- the keys produced from the seed are non-zero and pairwise distinct (all indices below 785) -/
theorem keys_from_seed_good : KeysGood (Rng.key 1370359990842121) := by
  obtain ⟨h1, h2⟩ := keys_good
  constructor
  · intro i hi
    rw [rng_table_eq i hi]
    exact h1 i hi
  · intro i j hji hi
    rw [rng_table_eq i hi, rng_table_eq j (by omega)]
    exact h2 i j hji hi

/-! ### the table computed once (`Rng.table`, `Rng.tableList`, `Rng.tableHex`) agrees with `Rng.key` -/

theorem nth_gens : ∀ (n : Nat) (r : BlockRng) (j : Nat), j < n →
    Rng.nth (Rng.gens n r) j = (Rng.iter (fun r => r.nextU64.2) j r).nextU64.1
  | 0, _, j, hj => by omega
  | n + 1, r, j, hj => by
    cases j with
    | zero => simp [Rng.gens, Rng.nth, Rng.iter]
    | succ j =>
      simp only [Rng.gens, Rng.nth, Rng.iter]
      exact nth_gens n _ j (by omega)

theorem length_gens : ∀ (n : Nat) (r : BlockRng), (Rng.gens n r).length = n
  | 0, _ => rfl
  | n + 1, r => by simp [Rng.gens, length_gens n]

/-- for every seed: entry `i` of the table list is the `i`-th generated value -/
theorem table_eq_key (seed i : Nat) (hi : i < 785) : Rng.table seed i = Rng.key seed i :=
  nth_gens 785 _ i hi

theorem tableList_length (seed : Nat) : (Rng.tableList seed).length = 785 := length_gens _ _

/-- the model's table for `SEED` is the published table -/
theorem table_eq_zkey : ∀ i, i < 785 → Rng.table Rng.zobristSeed i = Gen.zkey i := by
  intro i hi
  rw [table_eq_key _ i hi]
  exact rng_table_eq i hi

/-! ### independent test vectors of the block function (not needed for the theorems above) -/

/-- RFC 7539 §2.3.2 (ChaCha20 = 10 double rounds; key 00..1f, counter 1, nonce 00:00:00:09:00:00:00:4a:00:00:00:00):
`chachaBlock` with the counter/nonce row ⟨1, 0x09000000, 0x4a000000, 0⟩ gives the published block -/
theorem chacha20_rfc7539_vector :
    Rng.chachaBlock ⟨⟨0x03020100, 0x07060504, 0x0b0a0908, 0x0f0e0d0c⟩, ⟨0x13121110, 0x17161514, 0x1b1a1918, 0x1f1e1d1c⟩,
        ⟨0, 0, 0, 0⟩⟩ 10 ⟨1, 0x09000000, 0x4a000000, 0⟩ =
      [0xe4e7f110, 0x15593bd1, 0x1fdd0f50, 0xc47120a3, 0xc7f4d1c7, 0x0368c033, 0x9aaa2204, 0x4e6cd4c3,
       0x466482d2, 0x09aa9f07, 0x05d7c214, 0xa2028bd9, 0xd19c12b5, 0xb94e16de, 0xe883d0cb, 0x4e3c50a2] := by
  decide +kernel

/-- `rand_chacha-0.3.1/src/chacha.rs` `test_chacha_true_values_a` (ChaCha20, all-zero seed): blocks 0 and 1 -/
theorem chacha20_zero_seed_vector :
    ((Rng.ChaCha.new (Rng.zeros 32)).refill4 10).1.take 32 =
      [0xade0b876, 0x903df1a0, 0xe56a5d40, 0x28bd8653, 0xb819d2bd, 0x1aed8da0, 0xccef36a8,
       0xc70d778b, 0x7c5941da, 0x8d485751, 0x3fe02477, 0x374ad8b8, 0xf4b8436a, 0x1ca11815,
       0x69b687c3, 0x8665eeb2,
       0xbee7079f, 0x7a385155, 0x7c97ba98, 0x0d082d73, 0xa0290fcb, 0x6965e348, 0x3e53c612,
       0xed7aee32, 0x7621b729, 0x434ee69c, 0xb03371d5, 0xd539d874, 0x281fed31, 0x45fb0a51,
       0x1f0ae1ac, 0x6f4d794b] := by
  decide +kernel

end Chess.C07
