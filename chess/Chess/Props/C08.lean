import Chess.Lemmas.Fen
/-! # C08 — FEN output and input are inverse

`printFen` mirrors `Display for BoardBuilder`, `parseFen` mirrors `BoardBuilder::from_str` (the
unvalidated builder).  For every builder whose clocks fit a `usize`, parsing the printed text gives the
builder back; hence every canonical FEN text (a text in the image of `printFen`), whether or not it
describes a valid position, is parsed and re-printed unchanged, and `printFen` is injective. -/
namespace Chess.C08
open Chess Chess.Fen

theorem Builder.ext' {a b : Builder} (h1 : a.pieces = b.pieces) (h2 : a.stm = b.stm) (h3 : a.rights = b.rights)
    (h4 : a.ep = b.ep) (h5 : a.half = b.half) (h6 : a.full = b.full) : a = b := by
  cases a; cases b; simp_all

/-- the printed text, with its six fields made explicit -/
theorem printFen_fields (bb : Builder) : printFen bb =
    placement bb.pieces ++ ' ' :: (stmText bb.stm ++ ' ' ::
      (castlesText (bb.rights .white) (bb.rights .black) ++ ' ' :: (epText bb.ep ++ ' ' ::
      (natStr bb.half ++ ' ' :: natStr bb.full)))) := by
  simp [printFen_eq]

/-- `str::split(' ')` of the printed text gives exactly the six fields -/
theorem split_printFen (bb : Builder) : splitOn ' ' (printFen bb) =
    [placement bb.pieces, stmText bb.stm, castlesText (bb.rights .white) (bb.rights .black),
      epText bb.ep, natStr bb.half, natStr bb.full] := by
  rw [printFen_fields,
    splitOn_append_sep _ _ _ (placement_spec bb.pieces).1,
    splitOn_append_sep _ _ _ (stm_spec bb.stm).1,
    splitOn_append_sep _ _ _ (castles_spec (bb.rights .white) (bb.rights .black)).1,
    splitOn_append_sep _ _ _ (ep_spec bb.ep).1,
    splitOn_append_sep _ _ _ (natStr_no_space bb.half),
    splitOn_no_sep _ _ (natStr_no_space bb.full)]

/-- MAIN: parsing the printed builder gives the builder back -/
theorem C08_builder_roundtrip (bb : Builder) (hh : bb.half < 2 ^ 64) (hf : bb.full < 2 ^ 64) :
    parseFen (printFen bb) = .ok bb := by
  obtain ⟨_, cur, hrun, hP⟩ := placement_spec bb.pieces
  have hstm := (stm_spec bb.stm).2
  obtain ⟨_, hw, hb⟩ := castles_spec (bb.rights .white) (bb.rights .black)
  have hep := (ep_spec bb.ep).2
  unfold parseFen
  rw [split_printFen]
  simp only [parseUsize_natStr _ hh, parseUsize_natStr _ hf]
  unfold run at hrun
  simp only [hrun, hstm, hw, hb]
  apply congrArg Except.ok
  refine Builder.ext' hP rfl ?_ ?_ rfl rfl
  · funext c; cases c <;> rfl
  · show _ = bb.ep
    generalize parseSquare (epText bb.ep) = q at hep ⊢
    cases q <;> exact hep

/-- every canonical FEN text (one produced by `printFen`) is parsed and re-printed unchanged -/
theorem C08_canonical_reprint (bb : Builder) (hh : bb.half < 2 ^ 64) (hf : bb.full < 2 ^ 64) :
    (parseFen (printFen bb)).map printFen = .ok (printFen bb) := by
  rw [C08_builder_roundtrip bb hh hf]; rfl

/-- the same, stated for texts: a text that is the canonical FEN of some builder (valid position or not)
parses to a builder that prints that very text -/
theorem C08_canonical_text (t : Str) (bb : Builder) (hh : bb.half < 2 ^ 64) (hf : bb.full < 2 ^ 64)
    (ht : t = printFen bb) : ∃ bb', parseFen t = .ok bb' ∧ printFen bb' = t :=
  ⟨bb, by rw [ht, C08_builder_roundtrip bb hh hf], ht.symm⟩

/-- `printFen` is injective on builders with in-range clocks -/
theorem C08_printFen_injective (a b : Builder) (ha : a.half < 2 ^ 64) (ha' : a.full < 2 ^ 64)
    (hb : b.half < 2 ^ 64) (hb' : b.full < 2 ^ 64) (h : printFen a = printFen b) : a = b := by
  have h1 := C08_builder_roundtrip a ha ha'
  rw [h, C08_builder_roundtrip b hb hb'] at h1
  exact (Except.ok.inj h1).symm

/-- the hypotheses are satisfiable, and the statement is not vacuous: the starting position -/
example : parseFen (printFen Builder.new) = .ok Builder.new :=
  C08_builder_roundtrip Builder.new (by decide) (by decide)
end Chess.C08
