import Chess.Lemmas.Hash
import Chess.Props.C07Keys
import Chess.Model.Text
/-! C07: for every reachable position the stored hash equals the hash recomputed from scratch and equals
the XOR of the published per-feature keys of its pieces, side to move, castling rights and en-passant
file; the hash is therefore independent of the path and of the clocks; and, the published keys being
non-zero and pairwise distinct, positions that differ in exactly one feature never share a hash.
Every statement except `keysDistinct_published` is for an ARBITRARY key table `K`. -/
namespace Chess
open Board
variable (K : Keys)

/-! ### 3. every primitive keeps `hash = calcHash` (with mask consistency `Cons`) -/
namespace C07

theorem clearSquare_ok {b : Board} (hc : b.Cons) (hh : b.hash = b.calcHash K) (s : Sq) :
    (b.clearSquare K s).Cons ∧ (b.clearSquare K s).hash = (b.clearSquare K s).calcHash K :=
  ((Board.HashOk.inv K ⟨hc, hh⟩).clearSquare K s).hashOk K

theorem putPiece_ok {b : Board} (hc : b.Cons) (hh : b.hash = b.calcHash K) (p : Piece) (s : Sq) :
    (b.putPiece K p s).Cons ∧ (b.putPiece K p s).hash = (b.putPiece K p s).calcHash K :=
  ((Board.HashOk.inv K ⟨hc, hh⟩).putPiece K p s).hashOk K

theorem setSideToMove_ok {b : Board} (hc : b.Cons) (hh : b.hash = b.calcHash K) (c : Color) :
    (b.setSideToMove K c).Cons ∧ (b.setSideToMove K c).hash = (b.setSideToMove K c).calcHash K :=
  ((Board.HashOk.inv K ⟨hc, hh⟩).setSideToMove K c).hashOk K

theorem setCastlingRights_ok {b : Board} (hc : b.Cons) (hh : b.hash = b.calcHash K) (c : Color) (r : CR) :
    (b.setCastlingRights K c r).Cons ∧ (b.setCastlingRights K c r).hash = (b.setCastlingRights K c r).calcHash K :=
  ((Board.HashOk.inv K ⟨hc, hh⟩).setCastlingRights K c r).hashOk K

theorem setEnPassant_ok {b : Board} (hc : b.Cons) (hh : b.hash = b.calcHash K) (e : Option Sq) :
    (b.setEnPassant K e).Cons ∧ (b.setEnPassant K e).hash = (b.setEnPassant K e).calcHash K :=
  ((Board.HashOk.inv K ⟨hc, hh⟩).setEnPassant K e).hashOk K

theorem movePiece_ok {b : Board} (hc : b.Cons) (hh : b.hash = b.calcHash K) (pt : PT) (src dst : Sq) (promo : Option PT) :
    (b.movePiece K pt src dst promo).Cons ∧
      (b.movePiece K pt src dst promo).hash = (b.movePiece K pt src dst promo).calcHash K := by
  obtain ⟨_, h⟩ := (Board.HashOk.inv K ⟨hc, hh⟩).movePiece K pt src dst promo
  exact h.hashOk K

theorem clearIfEp_ok {b : Board} (hc : b.Cons) (hh : b.hash = b.calcHash K) (pt : PT) (dst : Sq) :
    (b.clearIfEp K pt dst).Cons ∧ (b.clearIfEp K pt dst).hash = (b.clearIfEp K pt dst).calcHash K := by
  obtain ⟨_, h⟩ := (Board.HashOk.inv K ⟨hc, hh⟩).clearIfEp K pt dst
  exact h.hashOk K

theorem updateCastlingRights_ok {b : Board} (hc : b.Cons) (hh : b.hash = b.calcHash K) (m : Move) :
    (b.updateCastlingRights K m).Cons ∧ (b.updateCastlingRights K m).hash = (b.updateCastlingRights K m).calcHash K :=
  ((Board.HashOk.inv K ⟨hc, hh⟩).updateCastlingRights K m).hashOk K

theorem updateEnPassant_ok {b : Board} (hc : b.Cons) (hh : b.hash = b.calcHash K) (m : Move) :
    (b.updateEnPassant K m).Cons ∧ (b.updateEnPassant K m).hash = (b.updateEnPassant K m).calcHash K :=
  ((Board.HashOk.inv K ⟨hc, hh⟩).updateEnPassant K m).hashOk K

/-- `b'` agrees with `b` on the stored hash and on every field `calcHash` reads -/
def HashFrame (b b' : Board) : Prop :=
  b'.hash = b.hash ∧ b'.pieces = b.pieces ∧ b'.colors = b.colors ∧ b'.combined = b.combined ∧
  b'.stm = b.stm ∧ b'.rights = b.rights ∧ b'.ep = b.ep

/-- `calcHash` reads nothing but the masks, the side to move, the rights and the en-passant square -/
theorem HashFrame.calcHash_eq {b b' : Board} (h : HashFrame b b') : b'.calcHash K = b.calcHash K := by
  obtain ⟨p, c, cm, st, r, e, pn, ck, tm, hf, fl, hs⟩ := b
  obtain ⟨p', c', cm', st', r', e', pn', ck', tm', hf', fl', hs'⟩ := b'
  simp only [HashFrame] at h
  obtain ⟨_, rfl, rfl, rfl, rfl, rfl, rfl⟩ := h
  rfl

theorem HashFrame.cons {b b' : Board} (h : HashFrame b b') (hc : b.Cons) : b'.Cons := by
  obtain ⟨_, hp, hcl, hcm, _, _, _⟩ := h
  exact Rep.cons (f := b.abs) ⟨by rw [hp]; exact hc.pcs, by rw [hcl]; exact hc.cls, by rw [hcm]; exact hc.cmb⟩

theorem updateMoveNumber_frame (b : Board) : HashFrame b b.updateMoveNumber := by
  unfold Board.updateMoveNumber HashFrame; split <;> simp

theorem updateMovesSinceCapture_frame (b : Board) (m : Move) (c : Bool) :
    HashFrame b (b.updateMovesSinceCapture m c) := by
  unfold Board.updateMovesSinceCapture HashFrame
  split
  · split <;> simp
  · simp

theorem updatePinsAndChecks_frame (b : Board) : HashFrame b b.updatePinsAndChecks := by
  simp [Board.updatePinsAndChecks, HashFrame]

theorem updateTerminalStatus_frame (b : Board) : HashFrame b (b.updateTerminalStatus K) := by
  simp [Board.updateTerminalStatus, HashFrame]

end C07

/-! ### 4. incremental = from scratch, for EVERY move (no legality hypothesis) -/

/-- mask consistency survives `make_move_mut_unchecked` (any move, legal or not) -/
theorem C07_cons (b : Board) (hc : b.Cons) (hh : b.hash = b.calcHash K) (m : Move) :
    (b.makeMoveUnchecked K m).Cons := by
  obtain ⟨_, h⟩ := (Board.HashOk.inv K ⟨hc, hh⟩).makeMoveUnchecked K m
  exact (h.hashOk K).1

/-- MAIN: after `make_move_mut_unchecked` the incrementally maintained hash equals the hash from scratch -/
theorem C07_incremental (b : Board) (hc : b.Cons) (hh : b.hash = b.calcHash K) (m : Move) :
    (b.makeMoveUnchecked K m).hash = (b.makeMoveUnchecked K m).calcHash K := by
  obtain ⟨_, h⟩ := (Board.HashOk.inv K ⟨hc, hh⟩).makeMoveUnchecked K m
  exact (h.hashOk K).2

/-- the stored hash of a board is the XOR of the per-feature keys of the position it stands for -/
theorem C07_hash_spec (b : Board) (hc : b.Cons) (hh : b.hash = b.calcHash K) : b.hash = K.specHash b.absPos := by
  rw [hh, calcHash_spec K hc]

/-- … and so is the stored hash after any move -/
theorem C07_hash_spec_step (b : Board) (hc : b.Cons) (hh : b.hash = b.calcHash K) (m : Move) :
    (b.makeMoveUnchecked K m).hash = K.specHash (b.makeMoveUnchecked K m).absPos :=
  C07_hash_spec K _ (C07_cons K b hc hh m) (C07_incremental K b hc hh m)

/-- every board reached from a good board by any sequence of (unchecked) moves is good -/
theorem C07_reachable (b : Board) (hc : b.Cons) (hh : b.hash = b.calcHash K) (ms : List Move) :
    (ms.foldl (fun b m => b.makeMoveUnchecked K m) b).Cons ∧
    (ms.foldl (fun b m => b.makeMoveUnchecked K m) b).hash = (ms.foldl (fun b m => b.makeMoveUnchecked K m) b).calcHash K := by
  induction ms generalizing b with
  | nil => exact ⟨hc, hh⟩
  | cons m ms ih => exact ih _ (C07_cons K b hc hh m) (C07_incremental K b hc hh m)

/-- checked application: a successful `make_move` yields a good board -/
theorem C07_makeMove (b b' : Board) (hc : b.Cons) (hh : b.hash = b.calcHash K) (m : Move)
    (h : b.makeMove K m = .ok b') : b'.Cons ∧ b'.hash = b'.calcHash K := by
  unfold Board.makeMove at h
  split at h
  · cases h; exact ⟨C07_cons K b hc hh m, C07_incremental K b hc hh m⟩
  · cases h

/-! ### the constructor: every board produced by `TryFrom<&BoardBuilder>` (hence by the FEN parser) is good -/
namespace C07

/-- same masks -/
def SameMasks (b b' : Board) : Prop := b'.pieces = b.pieces ∧ b'.colors = b.colors ∧ b'.combined = b.combined

theorem SameMasks.rep {b b' : Board} {f} (h : SameMasks b b') (hr : Rep b f) : Rep b' f :=
  ⟨by rw [h.1]; exact hr.pcs, by rw [h.2.1]; exact hr.cls, by rw [h.2.2]; exact hr.cmb⟩

theorem SameMasks.trans {a b c : Board} (h1 : SameMasks a b) (h2 : SameMasks b c) : SameMasks a c :=
  ⟨h2.1.trans h1.1, h2.2.1.trans h1.2.1, h2.2.2.trans h1.2.2⟩

theorem setSideToMove_masks (b : Board) (c : Color) : SameMasks b (b.setSideToMove K c) := by
  unfold Board.setSideToMove SameMasks; split <;> simp
theorem setEnPassant_masks (b : Board) (e : Option Sq) : SameMasks b (b.setEnPassant K e) := by
  simp [Board.setEnPassant, SameMasks]
theorem setCastlingRights_masks (b : Board) (c : Color) (r : CR) : SameMasks b (b.setCastlingRights K c r) := by
  simp [Board.setCastlingRights, SameMasks]

theorem foldPut_rep (pcs : Sq → Option Piece) (l : List Sq) (b : Board) (h : ∃ f, Rep b f) :
    ∃ f, Rep (l.foldl (fun b sq => match pcs sq with | some p => b.putPiece K p sq | none => b) b) f := by
  induction l generalizing b with
  | nil => exact h
  | cons x xs ih =>
    simp only [List.foldl_cons]
    apply ih
    obtain ⟨f, hf⟩ := h
    cases pcs x with
    | none => exact ⟨f, hf⟩
    | some p => exact ⟨_, hf.putPiece K p x⟩

theorem new_rep : Rep Board.new (fun _ => none) :=
  ⟨fun _ _ => by simp [Board.new], fun _ _ => by simp [Board.new], fun _ => by simp [Board.new]⟩

end C07

theorem C07_ofBuilder (bb : Builder) (b : Board) (h : Board.ofBuilder K bb = .ok b) :
    b.Cons ∧ b.hash = b.calcHash K := by
  unfold Board.ofBuilder at h
  simp only [] at h
  split at h
  · cases h
  split at h
  · cases h
  split at h
  · cases h
    obtain ⟨f, hf⟩ := C07.foldPut_rep K bb.pieces allSq Board.new ⟨_, C07.new_rep⟩
    have hr := C07.SameMasks.rep ((((C07.setSideToMove_masks K _ bb.stm).trans (C07.setEnPassant_masks K _ bb.ep)).trans
      (C07.setCastlingRights_masks K _ .white (bb.rights .white))).trans
      (C07.setCastlingRights_masks K _ .black (bb.rights .black))) hf
    exact ⟨Rep.cons (f := f) ⟨hr.pcs, hr.cls, hr.cmb⟩, rfl⟩
  · cases h

/-- every board produced by the FEN parser is good -/
theorem C07_ofFen (s : Str) (b : Board) (h : Board.ofFen K s = .ok b) : b.Cons ∧ b.hash = b.calcHash K := by
  unfold Board.ofFen at h
  split at h
  · cases h
  · exact C07_ofBuilder K _ b h

/-! ### 5. path and clock independence -/

theorem epKey_congr {e e' : Option Sq} (h : e.map epFile = e'.map epFile) : K.epKey e = K.epKey e' := by
  cases e <;> cases e' <;> simp_all [Keys.epKey]

/-- same placement, side, rights and en-passant FILE ⇒ same hash (however reached, whatever the clocks,
pins, checks and terminal flag) -/
theorem C07_path_independent_file (b₁ b₂ : Board) (h₁ : b₁.Cons) (h₂ : b₂.Cons)
    (hh₁ : b₁.hash = b₁.calcHash K) (hh₂ : b₂.hash = b₂.calcHash K)
    (hk : b₁.abs = b₂.abs ∧ b₁.stm = b₂.stm ∧ b₁.rights = b₂.rights ∧ b₁.ep.map epFile = b₂.ep.map epFile) :
    b₁.hash = b₂.hash := by
  obtain ⟨ha, hs, hr, he⟩ := hk
  rw [hh₁, hh₂, Rep.calcHash K h₁, Rep.calcHash K h₂, ha, hs, hr]
  unfold normHash; rw [epKey_congr K he]

theorem C07_path_independent (b₁ b₂ : Board) (h₁ : b₁.Cons) (h₂ : b₂.Cons)
    (hh₁ : b₁.hash = b₁.calcHash K) (hh₂ : b₂.hash = b₂.calcHash K)
    (hk : b₁.abs = b₂.abs ∧ b₁.stm = b₂.stm ∧ b₁.rights = b₂.rights ∧ b₁.ep = b₂.ep) :
    b₁.hash = b₂.hash :=
  C07_path_independent_file K b₁ b₂ h₁ h₂ hh₁ hh₂ ⟨hk.1, hk.2.1, hk.2.2.1, by rw [hk.2.2.2]⟩

/-- specification-level form: the hash of a position does not depend on its clocks -/
theorem specHash_clocks (p q : Spec.Pos) (hb : p.board = q.board) (hs : p.stm = q.stm) (hr : p.rights = q.rights)
    (he : p.ep.map epFile = q.ep.map epFile) : K.specHash p = K.specHash q := by
  rw [specHash_eq_normHash, specHash_eq_normHash, hb, hs, hr]
  unfold normHash; rw [epKey_congr K he]

/-! ### 6. one-feature separation from key distinctness -/

/-- all published keys are non-zero and pairwise distinct -/
structure KeysDistinct (K : Keys) : Prop where
  piece_ne_zero : ∀ c t s, K.piece c t s ≠ 0#64
  castle_ne_zero : ∀ c r, K.castle c r ≠ 0#64
  ep_ne_zero : ∀ f, K.ep f ≠ 0#64
  black_ne_zero : K.black ≠ 0#64
  piece_inj : ∀ c t s c' t' s', K.piece c t s = K.piece c' t' s' → c = c' ∧ t = t' ∧ s = s'
  castle_inj : ∀ c r c' r', K.castle c r = K.castle c' r' → c = c' ∧ r = r'
  ep_inj : ∀ f f', K.ep f = K.ep f' → f = f'
  piece_ne_castle : ∀ c t s c' r, K.piece c t s ≠ K.castle c' r
  piece_ne_ep : ∀ c t s f, K.piece c t s ≠ K.ep f
  piece_ne_black : ∀ c t s, K.piece c t s ≠ K.black
  castle_ne_ep : ∀ c r f, K.castle c r ≠ K.ep f
  castle_ne_black : ∀ c r, K.castle c r ≠ K.black
  ep_ne_black : ∀ f, K.ep f ≠ K.black

variable {K}

theorem KeysDistinct.occ_inj (hK : KeysDistinct K) (s : Sq) {v v' : Option Piece} (h : K.occ v s = K.occ v' s) :
    v = v' := by
  cases v with
  | none =>
    cases v' with
    | none => rfl
    | some q => exact absurd h.symm (hK.piece_ne_zero _ _ _)
  | some p =>
    cases v' with
    | none => exact absurd h (hK.piece_ne_zero _ _ _)
    | some q =>
      obtain ⟨h1, h2, _⟩ := hK.piece_inj _ _ _ _ _ _ h
      obtain ⟨pt, pc⟩ := p; obtain ⟨qt, qc⟩ := q
      simp_all

theorem KeysDistinct.stmKey_inj (hK : KeysDistinct K) {c c' : Color} (h : K.stmKey c = K.stmKey c') : c = c' := by
  cases c <;> cases c' <;> simp [Keys.stmKey] at h ⊢
  · exact hK.black_ne_zero h.symm
  · exact hK.black_ne_zero h

theorem KeysDistinct.epKey_inj (hK : KeysDistinct K) {e e' : Option Sq} (h : K.epKey e = K.epKey e') :
    e.map epFile = e'.map epFile := by
  cases e <;> cases e' <;> simp only [Keys.epKey, Option.map_none, Option.map_some] at h ⊢
  · exact absurd h.symm (hK.ep_ne_zero _)
  · exact absurd h (hK.ep_ne_zero _)
  · rw [hK.ep_inj _ _ h]

theorem CR.ofBits_inj {k q k' q' : Bool} (h : CR.ofBits k q = CR.ofBits k' q') : k = k' ∧ q = q' := by
  cases k <;> cases q <;> cases k' <;> cases q' <;> simp [CR.ofBits] at h ⊢

/-- XOR cancellation: an XOR with two extra terms equals the original only if the terms are equal -/
theorem xor_two_cancel {a x y : BB} (h : a = a ^^^ x ^^^ y) : x = y := by
  have h' : a ^^^ 0#64 = a ^^^ (x ^^^ y) := by rw [← BitVec.xor_assoc, BitVec.xor_zero]; exact h
  exact BitVec.xor_eq_zero_iff.1 ((BitVec.xor_right_inj a).1 h').symm

/-- (a) positions that differ in the side to move only have different hashes -/
theorem C07_sep_stm (hK : KeysDistinct K) (p q : Spec.Pos) (hb : p.board = q.board) (hr : p.rights = q.rights)
    (he : p.ep.map epFile = q.ep.map epFile) (hs : p.stm ≠ q.stm) : K.specHash p ≠ K.specHash q := by
  intro h
  rw [specHash_eq_normHash, specHash_eq_normHash, hb, hr] at h
  unfold normHash at h
  rw [epKey_congr K he] at h
  exact hs (hK.stmKey_inj ((BitVec.xor_right_inj _).1
    ((BitVec.xor_left_inj _).1 ((BitVec.xor_left_inj _).1 ((BitVec.xor_left_inj _).1 h)))))

/-- (b) positions that differ in the content of exactly one square (empty vs occupied, or two different
men) have different hashes -/
theorem C07_sep_square (hK : KeysDistinct K) (p q : Spec.Pos) (s : Sq)
    (hb : ∀ x, x ≠ s → p.board x = q.board x) (hd : p.board s ≠ q.board s)
    (hs : p.stm = q.stm) (hr : p.rights = q.rights) (he : p.ep.map epFile = q.ep.map epFile) :
    K.specHash p ≠ K.specHash q := by
  intro h
  have hq : q.board = Spec.upd p.board s (q.board s) := by
    funext x; by_cases hx : x = s
    · subst hx; simp [Spec.upd]
    · simp [Spec.upd, hx, hb x hx]
  rw [specHash_eq_normHash, specHash_eq_normHash, hq, hs, hr] at h
  unfold normHash at h
  rw [epKey_congr K he, placeHash_upd] at h
  have h2 := (BitVec.xor_left_inj _).1 ((BitVec.xor_left_inj _).1 ((BitVec.xor_left_inj _).1 ((BitVec.xor_left_inj _).1 h)))
  have h3 := hK.occ_inj s (xor_two_cancel h2)
  exact hd h3

/-- (c) positions that differ in the castling rights of exactly one colour have different hashes -/
theorem C07_sep_rights (hK : KeysDistinct K) (p q : Spec.Pos) (c : Color)
    (hd : p.rights c ≠ q.rights c) (ho : p.rights c.other = q.rights c.other)
    (hb : p.board = q.board) (hs : p.stm = q.stm) (he : p.ep.map epFile = q.ep.map epFile) :
    K.specHash p ≠ K.specHash q := by
  intro h
  rw [specHash_eq_normHash, specHash_eq_normHash, hb, hs] at h
  simp only [normHash] at h
  rw [epKey_congr K he] at h
  have h1 := (BitVec.xor_left_inj _).1 h
  apply hd
  cases c with
  | white =>
    simp only [Color.other] at ho
    rw [ho] at h1
    have h2 := (BitVec.xor_right_inj _).1 ((BitVec.xor_left_inj _).1 h1)
    have h3 := CR.ofBits_inj (hK.castle_inj _ _ _ _ h2).2
    cases hp : p.rights .white; cases hq' : q.rights .white; simp_all
  | black =>
    simp only [Color.other] at ho
    rw [ho] at h1
    have h2 := (BitVec.xor_right_inj _).1 h1
    have h3 := CR.ofBits_inj (hK.castle_inj _ _ _ _ h2).2
    cases hp : p.rights .black; cases hq' : q.rights .black; simp_all

/-- (d) positions that differ in the en-passant file only (including none vs some) have different hashes -/
theorem C07_sep_ep (hK : KeysDistinct K) (p q : Spec.Pos) (hd : p.ep.map epFile ≠ q.ep.map epFile)
    (hb : p.board = q.board) (hs : p.stm = q.stm) (hr : p.rights = q.rights) :
    K.specHash p ≠ K.specHash q := by
  intro h
  rw [specHash_eq_normHash, specHash_eq_normHash, hb, hs, hr] at h
  unfold normHash at h
  exact hd (hK.epKey_inj ((BitVec.xor_right_inj _).1 h))

/-- board-level corollaries: two consistent boards whose stored hashes are correct and that differ in
exactly one feature have different stored hashes -/
theorem C07_sep_stm_board (hK : KeysDistinct K) (b₁ b₂ : Board) (h₁ : b₁.Cons) (h₂ : b₂.Cons)
    (hh₁ : b₁.hash = b₁.calcHash K) (hh₂ : b₂.hash = b₂.calcHash K)
    (ha : b₁.abs = b₂.abs) (hr : b₁.rights = b₂.rights) (he : b₁.ep.map epFile = b₂.ep.map epFile)
    (hs : b₁.stm ≠ b₂.stm) : b₁.hash ≠ b₂.hash := by
  rw [C07_hash_spec K b₁ h₁ hh₁, C07_hash_spec K b₂ h₂ hh₂]
  exact C07_sep_stm hK _ _ ha (by simp [Board.absPos, hr]) he hs

theorem CR.toRights_inj {r r' : CR} (h : r.toRights = r'.toRights) : r = r' := by
  cases r <;> cases r' <;> simp [CR.toRights, CR.hasK, CR.hasQ] at h ⊢

theorem C07_sep_square_board (hK : KeysDistinct K) (b₁ b₂ : Board) (h₁ : b₁.Cons) (h₂ : b₂.Cons)
    (hh₁ : b₁.hash = b₁.calcHash K) (hh₂ : b₂.hash = b₂.calcHash K) (s : Sq)
    (ha : ∀ x, x ≠ s → b₁.abs x = b₂.abs x) (hd : b₁.abs s ≠ b₂.abs s)
    (hs : b₁.stm = b₂.stm) (hr : b₁.rights = b₂.rights) (he : b₁.ep.map epFile = b₂.ep.map epFile) :
    b₁.hash ≠ b₂.hash := by
  rw [C07_hash_spec K b₁ h₁ hh₁, C07_hash_spec K b₂ h₂ hh₂]
  exact C07_sep_square hK _ _ s ha hd hs (by simp [Board.absPos, hr]) he

theorem C07_sep_rights_board (hK : KeysDistinct K) (b₁ b₂ : Board) (h₁ : b₁.Cons) (h₂ : b₂.Cons)
    (hh₁ : b₁.hash = b₁.calcHash K) (hh₂ : b₂.hash = b₂.calcHash K) (c : Color)
    (hd : b₁.rights c ≠ b₂.rights c) (ho : b₁.rights c.other = b₂.rights c.other)
    (ha : b₁.abs = b₂.abs) (hs : b₁.stm = b₂.stm) (he : b₁.ep.map epFile = b₂.ep.map epFile) :
    b₁.hash ≠ b₂.hash := by
  rw [C07_hash_spec K b₁ h₁ hh₁, C07_hash_spec K b₂ h₂ hh₂]
  exact C07_sep_rights hK _ _ c (fun h => hd (CR.toRights_inj h)) (by simp [Board.absPos, ho]) ha hs he

theorem C07_sep_ep_board (hK : KeysDistinct K) (b₁ b₂ : Board) (h₁ : b₁.Cons) (h₂ : b₂.Cons)
    (hh₁ : b₁.hash = b₁.calcHash K) (hh₂ : b₂.hash = b₂.calcHash K)
    (hd : b₁.ep.map epFile ≠ b₂.ep.map epFile)
    (ha : b₁.abs = b₂.abs) (hs : b₁.stm = b₂.stm) (hr : b₁.rights = b₂.rights) : b₁.hash ≠ b₂.hash := by
  rw [C07_hash_spec K b₁ h₁ hh₁, C07_hash_spec K b₂ h₂ hh₂]
  exact C07_sep_ep hK _ _ hd ha hs (by simp [Board.absPos, hr])

/-! ### the published table satisfies `KeysDistinct` -/

theorem Color.idx_le (c : Color) : c.idx ≤ 1 := by cases c <;> simp [Color.idx]
theorem PT.idx_le (t : PT) : t.idx ≤ 5 := by cases t <;> simp [PT.idx]
theorem CR.idx_le (r : CR) : r.idx ≤ 3 := by cases r <;> simp [CR.idx]
theorem Color.idx_inj {c c' : Color} (h : c.idx = c'.idx) : c = c' := by cases c <;> cases c' <;> simp_all [Color.idx]
theorem PT.idx_inj {t t' : PT} (h : t.idx = t'.idx) : t = t' := by cases t <;> cases t' <;> simp_all [PT.idx]
theorem CR.idx_inj {r r' : CR} (h : r.idx = r'.idx) : r = r' := by cases r <;> cases r' <;> simp_all [CR.idx]

/-- a table of 785 non-zero, pairwise distinct values laid out by `Keys.ofFn` is `KeysDistinct` -/
theorem KeysDistinct.ofFn (k : Nat → BB) (hnz : ∀ i, i < 785 → k i ≠ 0#64)
    (hinj : ∀ i j, i < 785 → j < 785 → k i = k j → i = j) : KeysDistinct (Keys.ofFn k) := by
  have hp : ∀ (c : Color) (t : PT) (s : Sq), 1 + c.idx * 384 + t.idx * 64 + s.val < 769 ∧ 1 ≤ 1 + c.idx * 384 + t.idx * 64 + s.val := by
    intro c t s; have := Color.idx_le c; have := PT.idx_le t; have := s.isLt; omega
  have hc : ∀ (c : Color) (r : CR), 769 + c.idx * 4 + r.idx < 777 := by
    intro c r; have := Color.idx_le c; have := CR.idx_le r; omega
  have he : ∀ f : Fin 8, 777 + f.val < 785 := by intro f; have := f.isLt; omega
  constructor
  · intro c t s; exact hnz _ (by have := hp c t s; omega)
  · intro c r; exact hnz _ (by have := hc c r; omega)
  · intro f; exact hnz _ (he f)
  · exact hnz 0 (by omega)
  · intro c t s c' t' s' h
    have h1 := hinj _ _ (by have := hp c t s; omega) (by have := hp c' t' s'; omega) h
    have := Color.idx_le c; have := Color.idx_le c'; have := PT.idx_le t; have := PT.idx_le t'
    have := s.isLt; have := s'.isLt
    exact ⟨Color.idx_inj (by omega), PT.idx_inj (by omega), Fin.ext (by omega)⟩
  · intro c r c' r' h
    have h1 := hinj _ _ (by have := hc c r; omega) (by have := hc c' r'; omega) h
    have := Color.idx_le c; have := Color.idx_le c'; have := CR.idx_le r; have := CR.idx_le r'
    exact ⟨Color.idx_inj (by omega), CR.idx_inj (by omega)⟩
  · intro f f' h
    have h1 := hinj _ _ (he f) (he f') h
    exact Fin.ext (by omega)
  · intro c t s c' r h
    have h1 := hinj _ _ (by have := hp c t s; omega) (by have := hc c' r; omega) h
    have := hp c t s; omega
  · intro c t s f h
    have h1 := hinj _ _ (by have := hp c t s; omega) (he f) h
    have := hp c t s; omega
  · intro c t s h
    have h1 := hinj _ 0 (by have := hp c t s; omega) (by omega) h
    have := hp c t s; omega
  · intro c r f h
    have h1 := hinj _ _ (by have := hc c r; omega) (he f) h
    have := hc c r; omega
  · intro c r h
    have h1 := hinj _ 0 (by have := hc c r; omega) (by omega) h
    omega
  · intro f h
    have h1 := hinj _ 0 (he f) (by omega) h
    omega

theorem zkey_lt (i : Nat) : Gen.zkey i < 2 ^ 64 := by
  unfold Gen.zkey
  exact Nat.lt_of_le_of_lt Nat.and_le_right (by decide)

/-- the key table the implementation publishes, as 64-bit words -/
def publishedKeys : Keys := Keys.ofFn fun i => BitVec.ofNat 64 (Gen.zkey i)

/-- the published keys are non-zero and pairwise distinct (from the kernel-checked `C07.keys_good`) -/
theorem keysDistinct_published : KeysDistinct publishedKeys := by
  have hinjN : ∀ i j, i < 785 → j < 785 → Gen.zkey i = Gen.zkey j → i = j := by
    intro i j hi hj h
    rcases Nat.lt_trichotomy i j with hlt | heq | hgt
    · exact absurd h.symm (C07.keys_good.2 j i hlt hj)
    · exact heq
    · exact absurd h (C07.keys_good.2 i j hgt hi)
  have hof : ∀ a b : Nat, a < 2 ^ 64 → b < 2 ^ 64 → BitVec.ofNat 64 a = BitVec.ofNat 64 b → a = b := by
    intro a b ha hb h
    have := congrArg BitVec.toNat h
    simpa [BitVec.toNat_ofNat, Nat.mod_eq_of_lt ha, Nat.mod_eq_of_lt hb] using this
  apply KeysDistinct.ofFn
  · intro i hi h
    exact C07.keys_good.1 i hi (hof _ 0 (zkey_lt i) (by decide) h)
  · intro i j hi hj h
    exact hinjN i j hi hj (hof _ _ (zkey_lt i) (zkey_lt j) h)

/-- C07 for the published table: one-feature separation holds unconditionally -/
theorem C07_published_sep_stm (p q : Spec.Pos) (hb : p.board = q.board) (hr : p.rights = q.rights)
    (he : p.ep.map epFile = q.ep.map epFile) (hs : p.stm ≠ q.stm) :
    publishedKeys.specHash p ≠ publishedKeys.specHash q :=
  C07_sep_stm keysDistinct_published p q hb hr he hs

/-! hypotheses are satisfiable: the empty board with its hash computed from scratch -/
example : let b : Board := { Board.new with hash := Board.new.calcHash K }
    b.Cons ∧ b.hash = b.calcHash K := by
  intro b
  have hr : Rep b (fun _ => none) :=
    ⟨fun _ _ => by simp [b, Board.new], fun _ _ => by simp [b, Board.new], fun _ => by simp [b, Board.new]⟩
  exact ⟨hr.cons, rfl⟩

end Chess
