import Chess.Model.Text
/-! C16, piece type `rook`: every origin × destination × promotion by kernel evaluation (whole finite domain). -/
namespace Chess.C16
open Chess
theorem rt_rook_0 : ∀ src dst : Sq, parseMove (printMove (.piece .rook src dst (none))) = .ok (.piece .rook src dst (none)) := by
  decide +kernel
theorem rt_rook_1 : ∀ src dst : Sq, parseMove (printMove (.piece .rook src dst (some .knight))) = .ok (.piece .rook src dst (some .knight)) := by
  decide +kernel
theorem rt_rook_2 : ∀ src dst : Sq, parseMove (printMove (.piece .rook src dst (some .bishop))) = .ok (.piece .rook src dst (some .bishop)) := by
  decide +kernel
theorem rt_rook_3 : ∀ src dst : Sq, parseMove (printMove (.piece .rook src dst (some .rook))) = .ok (.piece .rook src dst (some .rook)) := by
  decide +kernel
theorem rt_rook_4 : ∀ src dst : Sq, parseMove (printMove (.piece .rook src dst (some .queen))) = .ok (.piece .rook src dst (some .queen)) := by
  decide +kernel
theorem rt_rook_5 : ∀ src dst : Sq, parseMove (printMove (.piece .rook src dst (some .king))) = .ok (.piece .rook src dst (some .king)) := by
  decide +kernel
end Chess.C16
