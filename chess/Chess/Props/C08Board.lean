import Chess.Props.C08
import Chess.Props.C09
/-! # C08 (board level) — FEN text / builder / piece-list round trips of a whole `ChessBoard`

For every `Valid` board `b` (every reachable position is `Valid`: C06/C09):
* `b.asFen` is the standard six-field FEN text of the observable state of `b` (`C08_asFen_fields`);
* parsing that text gives back a board EQUAL to `b` in all twelve fields — masks, side, castling rights,
  en-passant square, clocks, hash, check and pin masks, terminal flag (`C08_fen_roundtrip`);
* so does the conversion through the unvalidated builder (`C08_board_roundtrip`) and the piece-list
  set-up path (`C08_setup_roundtrip`).  For an ARBITRARY key table `K`. -/
namespace Chess
open Board Construct Chess.Fen
variable (K : Keys)

/-! ### 1. extensionality of `Board` -/

theorem Board.ext' {a b : Board} (h1 : a.pieces = b.pieces) (h2 : a.colors = b.colors) (h3 : a.combined = b.combined)
    (h4 : a.stm = b.stm) (h5 : a.rights = b.rights) (h6 : a.ep = b.ep) (h7 : a.pinned = b.pinned)
    (h8 : a.checks = b.checks) (h9 : a.term = b.term) (h10 : a.half = b.half) (h11 : a.full = b.full)
    (h12 : a.hash = b.hash) : a = b := by
  cases a; cases b; simp_all

/-- two boards whose masks encode the same placement have equal masks -/
theorem Rep.masks_unique {b b' : Board} {f} (h : Rep b f) (h' : Rep b' f) :
    b.pieces = b'.pieces ∧ b.colors = b'.colors ∧ b.combined = b'.combined := by
  refine ⟨?_, ?_, ?_⟩
  · funext t; apply bb_ext; intro s; rw [h.pcs, h'.pcs]
  · funext c; apply bb_ext; intro s; rw [h.cls, h'.cls]
  · apply bb_ext; intro s; rw [h.cmb, h'.cmb]

/-! ### 2. the builder of a consistent board carries its placement -/

theorem toBuilder_pieces {b : Board} {f} (h : Rep b f) : b.toBuilder.pieces = f := by
  funext s
  show (match b.getPieceTypeOn s, b.getPieceColorOn s with
      | some t, some c => some (⟨t, c⟩ : Piece) | _, _ => none) = f s
  rw [h.getPieceTypeOn, h.getPieceColorOn]
  cases f s <;> rfl

theorem toBuilder_toPos {b : Board} (hc : b.Cons) : (b.toBuilder).toPos = b.absPos := by
  unfold Builder.toPos Board.absPos
  rw [toBuilder_pieces hc]
  rfl

/-! ### 3. congruence: the recomputed fields read only masks, side, rights and en-passant square -/

/-- the fields from which every derived field is recomputed -/
structure SameCore (a b : Board) : Prop where
  pieces : a.pieces = b.pieces
  colors : a.colors = b.colors
  combined : a.combined = b.combined
  stm : a.stm = b.stm
  rights : a.rights = b.rights
  ep : a.ep = b.ep

theorem SameCore.eq {a b : Board} (h : SameCore a b) :
    a = { b with pinned := a.pinned, checks := a.checks, term := a.term, half := a.half, full := a.full,
                 hash := a.hash } :=
  Board.ext' h.pieces h.colors h.combined h.stm h.rights h.ep rfl rfl rfl rfl rfl rfl

theorem SameCore.pinsAndChecks {a b : Board} (h : SameCore a b) :
    a.pinsAndChecks (a.kingSq a.stm) = b.pinsAndChecks (b.kingSq b.stm) := by
  rw [h.eq]; rfl

theorem SameCore.calcHash {a b : Board} (h : SameCore a b) : a.calcHash K = b.calcHash K := by
  rw [h.eq]; rfl

/-! ### 4. MAIN: a valid board survives the conversion to a builder and back, in all twelve fields -/

theorem b3_toBuilder_core {b : Board} (hc : b.Cons) : SameCore (b3 K b.toBuilder) b := by
  have hr : Rep (b3 K b.toBuilder) b.abs := by
    have := b3_rep K b.toBuilder
    rwa [toBuilder_pieces hc] at this
  obtain ⟨h1, h2, h3⟩ := Rep.masks_unique hr hc
  exact ⟨h1, h2, h3, b3_stm K _, funext fun c => b3_rights K _ c, b3_ep K _⟩

/-- the constructed board (before the terminal flag is set) is `b` up to the terminal flag -/
theorem b3_toBuilder_eq {b : Board} (hv : b.Valid K) :
    b3 K b.toBuilder = setTerm b (b3 K b.toBuilder).term := by
  have hcore := b3_toBuilder_core K hv.cons
  have hpc := hcore.pinsAndChecks
  refine Board.ext' hcore.pieces hcore.colors hcore.combined hcore.stm hcore.rights hcore.ep ?_ ?_ rfl
    (b3_half K _) (b3_full K _) ?_
  · show (b3 K b.toBuilder).pinned = b.pinned
    rw [b3_pinned, hpc, ← hv.pinned_eq]
  · show (b3 K b.toBuilder).checks = b.checks
    rw [b3_checks, hpc, ← hv.checks_eq]
  · show (b3 K b.toBuilder).hash = b.hash
    rw [b3_hash, hcore.calcHash K, ← hv.hash_eq]

theorem setTerm_self (b : Board) : setTerm b b.term = b := rfl

/-- MAIN (builder path): `ChessBoard → BoardBuilder → ChessBoard` is the identity on valid boards -/
theorem C08_board_roundtrip (b : Board) (hv : b.Valid K) : Board.ofBuilder K b.toBuilder = .ok b := by
  rw [ofBuilder_ok_iff]
  refine ⟨by rw [toBuilder_toPos hv.cons]; exact hv.pos, ?_⟩
  have he := b3_toBuilder_eq K hv
  generalize (b3 K b.toBuilder).term = t at he
  rw [he]
  show b = setTerm b (!(setTerm b t).hasEscape K)
  rw [hasEscape_setTerm, ← hv.term_eq]
  rfl

/-- the twelve fields, spelled out -/
theorem C08_board_roundtrip_fields (b : Board) (hv : b.Valid K) :
    ∃ b', Board.ofBuilder K b.toBuilder = .ok b' ∧
      b'.pieces = b.pieces ∧ b'.colors = b.colors ∧ b'.combined = b.combined ∧ b'.stm = b.stm ∧
      b'.rights = b.rights ∧ b'.ep = b.ep ∧ b'.pinned = b.pinned ∧ b'.checks = b.checks ∧ b'.term = b.term ∧
      b'.half = b.half ∧ b'.full = b.full ∧ b'.hash = b.hash ∧ b'.getStatus = b.getStatus :=
  ⟨b, C08_board_roundtrip K b hv, rfl, rfl, rfl, rfl, rfl, rfl, rfl, rfl, rfl, rfl, rfl, rfl, rfl⟩

/-! ### 5. MAIN (text path) -/

/-- `ChessBoard::from_fen(board.as_fen())` is `board` itself — every field, for clocks that fit a `usize` -/
theorem C08_fen_roundtrip (b : Board) (hv : b.Valid K) (hh : b.half < 2 ^ 64) (hf : b.full < 2 ^ 64) :
    Board.ofFen K b.asFen = .ok b := by
  unfold Board.ofFen Board.asFen
  rw [C08.C08_builder_roundtrip b.toBuilder hh hf]
  exact C08_board_roundtrip K b hv

/-- the parsed board is valid again, stands for the same position, and has the same status -/
theorem C08_fen_roundtrip_observables (b : Board) (hv : b.Valid K) (hh : b.half < 2 ^ 64) (hf : b.full < 2 ^ 64) :
    ∃ b', Board.ofFen K b.asFen = .ok b' ∧ b' = b ∧ b'.absPos = b.absPos ∧ b'.getStatus = b.getStatus ∧
      b'.asFen = b.asFen :=
  ⟨b, C08_fen_roundtrip K b hv hh hf, rfl, rfl, rfl, rfl⟩

/-! ### 6. the text written is the standard six-field FEN of the observable state -/

theorem C08_asFen_fields (b : Board) : splitOn ' ' b.asFen =
    [placement b.toBuilder.pieces, stmText b.stm, castlesText (b.rights .white) (b.rights .black),
      epText b.ep, natStr b.half, natStr b.full] :=
  C08.split_printFen b.toBuilder

/-- … where, on a consistent board, the placement field is the placement `b.abs` the masks encode -/
theorem C08_asFen_fields_abs (b : Board) (hc : b.Cons) : splitOn ' ' b.asFen =
    [placement b.abs, stmText b.stm, castlesText (b.rights .white) (b.rights .black),
      epText b.ep, natStr b.half, natStr b.full] := by
  rw [C08_asFen_fields, toBuilder_pieces hc]

/-! ### 7. the piece-list set-up path -/

/-- the piece list of a placement: the occupied squares with their men, in square order -/
def pieceList (g : Sq → Option Piece) : List (Sq × Piece) :=
  allSq.filterMap (fun s => (g s).map (fun p => (s, p)))

theorem foldSet_filterMap (g : Sq → Option Piece) (l : List Sq) (f0 : Sq → Option Piece) :
    (l.filterMap (fun s => (g s).map (fun p => (s, p)))).foldl
        (fun f (sp : Sq × Piece) => setFn f sp.1 (some sp.2)) f0 =
      fun s => if s ∈ l ∧ (g s).isSome then g s else f0 s := by
  induction l generalizing f0 with
  | nil => simp
  | cons x xs ih =>
    cases hx : g x with
    | none =>
      rw [List.filterMap_cons_none (by simp [hx]), ih]
      funext s
      by_cases hs : s = x
      · subst hs; simp [hx]
      · simp [hs]
    | some p =>
      rw [List.filterMap_cons_some (b := (x, p)) (by simp [hx]), List.foldl_cons, ih]
      funext s
      by_cases hs : s = x
      · subst hs; simp [hx, setFn]
      · simp [hs, setFn]

theorem setup_pieces (g : Sq → Option Piece) :
    (pieceList g).foldl (fun f (sp : Sq × Piece) => setFn f sp.1 (some sp.2)) (fun _ => none) = g := by
  unfold pieceList
  rw [foldSet_filterMap]
  funext s
  have : s ∈ allSq := by simp [allSq, List.mem_finRange]
  cases h : g s <;> simp [this]

/-- the set-up builder of the piece list of `b` is the builder of `b` -/
theorem setupBuilder_eq (b : Board) (hc : b.Cons) :
    Board.setupBuilder (pieceList b.abs) b.stm (b.rights .white) (b.rights .black) b.ep b.half b.full = b.toBuilder := by
  refine C08.Builder.ext' ?_ rfl ?_ rfl rfl rfl
  · show (pieceList b.abs).foldl (fun f (sp : Sq × Piece) => setFn f sp.1 (some sp.2)) (fun _ => none) = _
    rw [setup_pieces, toBuilder_pieces hc]
  · funext c; cases c <;> rfl

/-- MAIN (piece-list path): setting the position of `b` up from its piece list gives `b` itself -/
theorem C08_setup_roundtrip (b : Board) (hv : b.Valid K) :
    Board.ofBuilder K (Board.setupBuilder
      (allSq.filterMap (fun s => (b.abs s).map (fun p => (s, p)))) b.stm (b.rights .white) (b.rights .black)
      b.ep b.half b.full) = .ok b := by
  have := setupBuilder_eq b hv.cons
  unfold pieceList at this
  rw [this]
  exact C08_board_roundtrip K b hv

/-! ### the hypotheses are satisfiable: the board constructed from `C09.sample` -/
example : ∃ b : Board, b.Valid K ∧ b.half < 2 ^ 64 ∧ b.full < 2 ^ 64 ∧ Board.ofFen K b.asFen = .ok b := by
  obtain ⟨b, hb⟩ := C09_complete K _ C09.sample_valid
  obtain ⟨hv, hp⟩ := C09_sound K _ b hb
  have h1 : b.half = 0 := congrArg Spec.Pos.half hp
  have h2 : b.full = 1 := congrArg Spec.Pos.full hp
  exact ⟨b, hv, by rw [h1]; decide, by rw [h2]; decide, C08_fen_roundtrip K b hv (by rw [h1]; decide) (by rw [h2]; decide)⟩

end Chess
