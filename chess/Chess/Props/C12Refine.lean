import Chess.Props.C11
import Chess.Props.C03
import Chess.Props.C04
import Chess.Props.C06
/-! # C12 — the game protocol, refinement form

The model game (`Game`, `Game.ofBoard`, `Game.act K`) refines the specification's transition table
(`Spec.GState`, `Spec.init`, `Spec.step`) under the abstraction `absGame`: model and specification accept and
reject the same actions with the same error kind, and every accepted action leads to related states
(status — board result or repetition —, recorded moves, positions).

Only one clause depends on an assumption: the model keys its occurrence counter by the 64-bit hash whereas
`Spec.occurrences` compares repetition keys, so the status after an accepted MOVE is the specification's only
if no two positions of the successor's history collide (`hinj`, exactly the hypothesis of `C11_counter_partial`).
The theorems needing it are named `…_partial`; rejection, every non-move action, the initial state, the tag and
all fields other than the status after a move are unconditional. -/
namespace Chess
open Chess.Game

variable (K : Keys)

/-! ## 1. the abstraction -/

def absStatus : GStatus → Spec.GStatus
  | .ongoing => .ongoing
  | .drawOffered c => .drawOffered c
  | .checkMated c => .checkmated c
  | .resigned c => .resigned c
  | .fiftyMoves => .fifty
  | .theoreticalDraw => .insufficient
  | .repetition => .repetition
  | .drawAccepted => .drawAccepted
  | .stalemate => .stalemate

def absAction : Action → Spec.Action
  | .move m => .move m
  | .offerDraw c => .offer c
  | .acceptDraw => .accept
  | .declineDraw => .decline
  | .resign c => .resign c

/-- `Game.act` only ever fails with `illegalAction` or `gameFinished` (`act_err_kind`) -/
def absErr : Err → Spec.GErr
  | .gameFinished => .finished
  | _ => .illegalAction

/-- the specification state a model game stands for: start position, one position per accepted move,
the accepted moves, the status -/
def absGame (g : Game) : Spec.GState :=
  { start := (g.history.positions.headD g.position).absPos,
    later := (g.history.positions.drop 1).map Board.absPos,
    moves := g.history.moves,
    status := absStatus g.status }

/-- the outcome of an action, abstracted -/
def absResult : Except Err Game → Except Spec.GErr Spec.GState
  | .ok g => .ok (absGame g)
  | .error e => .error (absErr e)

theorem absResult_eq (r : Except Err Game) : absResult r = (r.map absGame).mapError absErr := by
  cases r <;> rfl

theorem absStatus_injective : ∀ s t, absStatus s = absStatus t → s = t := by
  intro s t h; cases s <;> cases t <;> simp_all [absStatus]

theorem absAction_injective : ∀ a b, absAction a = absAction b → a = b := by
  intro a b h; cases a <;> cases b <;> simp_all [absAction]

theorem absStatus_terminal (s : GStatus) : (absStatus s).terminal = C12.finished s := by
  cases s <;> rfl

/-- the moves a caller can construct: `BoardMove`'s constructor rejects promotion to a pawn -/
def Action.Constructible : Action → Prop
  | .move m => ∀ pt s d, m ≠ .piece pt s d (some .pawn)
  | _ => True

/-! ## 2. the invariant -/

/-- the games a caller can hold: built from a `Valid` board, followed by accepted constructible actions -/
inductive GameOK : Game → Prop
  | init (b : Board) : b.Valid K → GameOK (Game.ofBoard b)
  | step {g g' : Game} (a : Action) : GameOK g → Action.Constructible a → g.act K a = .ok g' → GameOK g'

theorem GameOK.reach {g : Game} (h : GameOK K g) : GameReach K g := by
  induction h with
  | init b _ => exact .init b
  | step a _ _ ha ih => exact .step a ih ha

/-- every position of the history (the current one included) satisfies the board invariant -/
theorem history_valid {g : Game} (h : GameOK K g) : ∀ q ∈ g.history.positions, q.Valid K := by
  induction h with
  | init b hv =>
    intro q hq
    simp only [ofBoard_history, History.fromPosition, List.mem_singleton] at hq
    subst hq; exact hv
  | @step g g' a hok hc ha ih =>
    intro q hq
    rcases act_cases K g g' a ha with ⟨m, nb, mp, rfl, _, hm, _, _, hh, _⟩ | ⟨_, _, hh, _⟩
    · rw [hh] at hq
      rcases List.mem_append.1 hq with hq | hq
      · exact ih q hq
      · simp only [List.mem_singleton] at hq; subst hq
        exact C06_step_checked _ _ (ih _ (C11_current_mem K g hok.reach)) m hc hm
    · rw [hh] at hq; exact ih q hq

theorem GameOK.position_valid {g : Game} (h : GameOK K g) : g.position.Valid K :=
  history_valid K h _ (C11_current_mem K g h.reach)

/-- the recorded moves are constructible -/
theorem GameOK.moves_constructible {g : Game} (h : GameOK K g) :
    ∀ m ∈ g.history.moves, ∀ pt s d, m ≠ .piece pt s d (some .pawn) := by
  induction h with
  | init b hv => intro m hm; simp [History.fromPosition] at hm
  | @step g g' a hok hc ha ih =>
    intro m' hm'
    rcases act_cases K g g' a ha with ⟨m, nb, mp, rfl, _, _, _, _, hh, _⟩ | ⟨_, _, hh, _⟩
    · rw [hh] at hm'
      rcases List.mem_append.1 hm' with hm' | hm'
      · exact ih m' hm'
      · simp only [List.mem_singleton] at hm'; subst hm'; exact hc
    · rw [hh] at hm'; exact ih m' hm'

/-- the start position is a `Valid` board -/
theorem GameOK.start_valid {g : Game} (h : GameOK K g) :
    ∃ b, g.history.positions.head? = some b ∧ b.Valid K := by
  obtain ⟨b, hb⟩ := C13_start K g h.reach
  exact ⟨b, hb, history_valid K h b (List.mem_of_mem_head? hb)⟩

/-- `GameOK` is `GameReach` from a valid start board with constructible recorded moves -/
theorem GameOK_iff (g : Game) :
    GameOK K g ↔ GameReach K g ∧ (∃ b, g.history.positions.head? = some b ∧ b.Valid K) ∧
      ∀ m ∈ g.history.moves, ∀ pt s d, m ≠ .piece pt s d (some .pawn) := by
  constructor
  · intro h; exact ⟨h.reach, h.start_valid, h.moves_constructible⟩
  · rintro ⟨hr, hs, hm⟩
    induction hr with
    | init b =>
      obtain ⟨b', hb', hv⟩ := hs
      rw [C11_start_ofBoard] at hb'; cases hb'
      exact .init b hv
    | @step g g' a hr ha ih =>
      have hhead := C11_start_step K g g' hr a ha
      rcases act_cases K g g' a ha with ⟨m, nb, mp, rfl, _, _, _, _, hh, _⟩ | ⟨hne, _, hh, _⟩
      · have hm' : ∀ m' ∈ g.history.moves, ∀ pt s d, m' ≠ .piece pt s d (some .pawn) := by
          intro m' h'; apply hm; rw [hh]; exact List.mem_append_left _ h'
        refine .step _ (ih (by rw [← hhead]; exact hs) hm') ?_ ha
        show ∀ pt s d, m ≠ .piece pt s d (some .pawn)
        apply hm; rw [hh]; simp
      · refine .step a (ih (by rw [← hhead]; exact hs) (by rw [← hh]; exact hm)) ?_ ha
        cases a with
        | move m => exact absurd rfl (hne m)
        | _ => trivial

/-! ## shape of the abstract state -/

theorem positions_ne_nil {g : Game} (hr : GameReach K g) : g.history.positions ≠ [] := by
  obtain ⟨b, hb⟩ := C13_start K g hr
  intro h; rw [h] at hb; cases hb

/-- the specification's history of the abstract state is the model's list of positions -/
theorem history_absGame {g : Game} (hr : GameReach K g) :
    Spec.history (absGame g) = g.history.positions.map Board.absPos := by
  unfold Spec.history absGame
  cases hp : g.history.positions with
  | nil => exact absurd hp (positions_ne_nil K hr)
  | cons x l => simp

/-- the specification's current position of the abstract state is the model's current position -/
theorem posAfter_absGame {g : Game} (hr : GameReach K g) :
    Spec.posAfter (absGame g) = g.position.absPos := by
  have hl := (C13_chain' K g hr).last
  unfold Spec.posAfter absGame
  cases hp : g.history.positions with
  | nil => exact absurd hp (positions_ne_nil K hr)
  | cons x l =>
    rw [hp] at hl
    simp only [List.headD_cons, List.drop_one, List.tail_cons]
    cases l with
    | nil => simp at hl ⊢; rw [hl]
    | cons y l' =>
      rw [List.getLast?_cons_cons] at hl
      rw [List.getLast?_map, hl]; rfl

/-- the two "status after a move" tables with the occurrence count as a parameter -/
def modelAfter (st : Board.Status) (n : Nat) : GStatus :=
  match st with
  | .checkmated c => .checkMated c
  | .theoreticalDraw => .theoreticalDraw
  | .stalemate => .stalemate
  | .fiftyMoves => .fiftyMoves
  | .ongoing => if n ≥ 3 then .repetition else .ongoing

def specAfter (st : Spec.Status) (n : Nat) : Spec.GStatus :=
  match st with
  | .checkmated c => .checkmated c | .stalemate => .stalemate | .insufficient => .insufficient | .fifty => .fifty
  | .ongoing => if n ≥ 3 then .repetition else .ongoing

theorem afterMoveStatus_model (g : Game) :
    C12.afterMoveStatus g = modelAfter g.position.getStatus (g.positionCounter g.position) := by
  unfold C12.afterMoveStatus modelAfter; cases g.position.getStatus <;> rfl

theorem afterMoveStatus_spec (G : Spec.GState) :
    Spec.afterMoveStatus G = specAfter (Spec.status (Spec.posAfter G)) (Spec.occurrences G) := by
  unfold Spec.afterMoveStatus specAfter; cases Spec.status (Spec.posAfter G) <;> rfl

/-- the tables agree whenever the counts agree about "at least three" (needed only when the board gives no result) -/
theorem absStatus_modelAfter (st : Board.Status) (n k : Nat) (h : st = .ongoing → (n ≥ 3 ↔ k ≥ 3)) :
    absStatus (modelAfter st n) = specAfter (statusToSpec st) k := by
  cases st with
  | ongoing =>
    have := h rfl
    simp only [modelAfter, specAfter, statusToSpec]
    by_cases hn : n ≥ 3
    · rw [if_pos hn, if_pos (this.1 hn)]; rfl
    · rw [if_neg hn, if_neg (fun hk => hn (this.2 hk))]; rfl
  | _ => rfl

/-! ## 4. the initial state -/

/-- **C12 (initial).**  The game built from a valid board stands for the specification's initial state of the
position the board stands for: no moves, status = the board result of the start position. -/
theorem C12_init (b : Board) (hv : b.Valid K) : absGame (Game.ofBoard b) = Spec.init b.absPos := by
  have hst : absStatus (Game.ofBoard b).status = specAfter (Spec.status b.absPos) 1 := by
    rw [C12.initial_status, ← C04_status b hv]
    cases b.getStatus <;> rfl
  unfold absGame Spec.init
  simp only [ofBoard_history, ofBoard_position, History.fromPosition, List.headD_cons, List.drop_one, List.tail_cons,
    List.map_nil, hst, afterMoveStatus_spec]
  have hocc : Spec.occurrences ⟨b.absPos, [], [], .ongoing⟩ = 1 := by
    have : Spec.sameKey b.absPos b.absPos = true := sameKey_refl b
    simp [Spec.occurrences, Spec.history, Spec.posAfter, this]
  have hpos : Spec.posAfter ⟨b.absPos, [], [], .ongoing⟩ = b.absPos := rfl
  rw [hocc, hpos]

/-- the initial game satisfies the invariant and is never a repetition -/
theorem C12_init_status (b : Board) (hv : b.Valid K) :
    (Spec.init b.absPos).status = specAfter (Spec.status b.absPos) 1 := by
  rw [← C12_init K b hv]
  show absStatus (Game.ofBoard b).status = _
  rw [C12.initial_status, ← C04_status b hv]
  cases b.getStatus <;> rfl

/-! ## 5. the result tag -/

theorem resultTagOf_abs (s : GStatus) : resultTagOf s = (Spec.tagOf (absStatus s)).toList := by
  cases s <;> (try (rename_i c; cases c)) <;> rfl

/-- **C12 (tag).**  The result tag is `1-0`, `0-1`, `1/2-1/2` or `?` exactly as the specification's table
dictates for the (abstract) status, in every reachable game. -/
theorem C12_tag (g : Game) (hr : GameReach K g) : g.result = (Spec.tagOf (absStatus g.status)).toList := by
  rw [C12.result_tag K g hr.toC12, resultTagOf_abs]

/-! ## 3. one action: the model step is the specification step -/

/-- `Game.act` fails only with the illegal-action or the finished-game error -/
theorem act_err_kind (g : Game) (a : Action) (e : Err) (h : g.act K a = .error e) :
    e = .illegalAction ∨ e = .gameFinished := by
  unfold act at h
  repeat' split at h
  all_goals (cases h; try simp)

@[simp] theorem absGame_status (g : Game) : (absGame g).status = absStatus g.status := rfl

theorem absGame_updateStatus (g : Game) (l : Option Action) :
    absGame (g.updateStatus l) = { absGame g with status := absStatus (g.updateStatus l).status } := by
  simp [absGame]

theorem updateStatus_offer (g : Game) (c : Color) : (g.updateStatus (some (.offerDraw c))).status = .drawOffered c := by
  simp [updateStatus]
theorem updateStatus_accept (g : Game) : (g.updateStatus (some .acceptDraw)).status = .drawAccepted := by
  simp [updateStatus]
theorem updateStatus_decline (g : Game) : (g.updateStatus (some .declineDraw)).status = .ongoing := by
  simp [updateStatus]
theorem updateStatus_resign (g : Game) (c : Color) : (g.updateStatus (some (.resign c))).status = .resigned c := by
  simp [updateStatus]

/-- **C12 (refinement, non-move actions) — unconditional, for every game value.**  Draw offers, accept, decline
and resignation are accepted / rejected by the model exactly as by the specification, with the same error
kind, and the accepted ones lead to the specification's successor (only the status changes). -/
theorem C12_refines_nonmove (g : Game) (a : Action) (hne : ∀ m, a ≠ .move m) :
    absResult (g.act K a) = Spec.step (absGame g) (absAction a) := by
  cases a with
  | move m => exact absurd rfl (hne m)
  | offerDraw c =>
    cases hs : g.status <;>
      simp [act, Spec.step, hs, absStatus, absAction, absResult, absErr, absGame_updateStatus, updateStatus_offer]
  | acceptDraw =>
    cases hs : g.status <;>
      simp [act, Spec.step, hs, absStatus, absAction, absResult, absErr, absGame_updateStatus, updateStatus_accept]
  | declineDraw =>
    cases hs : g.status <;>
      simp [act, Spec.step, hs, absStatus, absAction, absResult, absErr, absGame_updateStatus, updateStatus_decline]
  | resign c =>
    cases hs : g.status <;>
      simp [act, Spec.step, hs, absStatus, absAction, absResult, absErr, absGame_updateStatus, updateStatus_resign]

/-- a move offered when the game is not ongoing: both sides reject it, with the same error kind -/
theorem C12_refines_move_not_ongoing (g : Game) (m : Move) (hs : g.status ≠ .ongoing) :
    absResult (g.act K (.move m)) = Spec.step (absGame g) (.move m) := by
  cases hs' : g.status <;>
    simp_all [act, Spec.step, absStatus, absResult, absErr]

/-- the specification's move step, spelled out -/
theorem spec_step_move (G : Spec.GState) (m : Move) (hs : G.status = .ongoing) :
    Spec.step G (.move m) =
      if Spec.legal (Spec.posAfter G) m then
        .ok { start := G.start, later := G.later ++ [Spec.apply (Spec.posAfter G) m], moves := G.moves ++ [m],
              status := Spec.afterMoveStatus
                { start := G.start, later := G.later ++ [Spec.apply (Spec.posAfter G) m], moves := G.moves ++ [m],
                  status := G.status } }
      else .error .illegalAction := by
  unfold Spec.step; simp only [hs]

theorem spec_afterMoveStatus_congr (G G' : Spec.GState) (h1 : G.start = G'.start) (h2 : G.later = G'.later) :
    Spec.afterMoveStatus G = Spec.afterMoveStatus G' := by
  unfold Spec.afterMoveStatus Spec.occurrences Spec.history Spec.posAfter
  rw [h1, h2]

theorem spec_afterMoveStatus_mk (G' : Spec.GState) (s : Spec.Pos) (l : List Spec.Pos) (mv : List Move)
    (st : Spec.GStatus) (h1 : s = G'.start) (h2 : l = G'.later) :
    Spec.afterMoveStatus ⟨s, l, mv, st⟩ = Spec.afterMoveStatus G' :=
  spec_afterMoveStatus_congr _ _ h1 h2

/-- no two positions of the game's history have the same hash without having the same repetition key -/
def NoCollision (g : Game) : Prop :=
  ∀ p q, p ∈ g.history.positions → q ∈ g.history.positions → p.hash = q.hash → sameKey p q = true

theorem GameOK.hashGood {g : Game} (h : GameOK K g) :
    ∀ b, g.history.positions.head? = some b → Board.HashGood K b := by
  intro b hb
  have hv := history_valid K h b (List.mem_of_mem_head? hb)
  exact ⟨hv.cons, hv.hash_eq⟩

/-- `Spec.occurrences` of the abstract state = occurrences of the current position's repetition key in the
model history -/
theorem occurrences_absGame {g : Game} (hr : GameReach K g) :
    Spec.occurrences (absGame g) = (g.history.positions.map Board.absPos).countP (Spec.sameKey g.position.absPos) := by
  unfold Spec.occurrences
  rw [history_absGame K hr, posAfter_absGame K hr]

/-- the hash-keyed counter never under-counts the specification's occurrences (unconditional) … -/
theorem occurrences_le_counter {g : Game} (h : GameOK K g) :
    Spec.occurrences (absGame g) ≤ g.positionCounter g.position := by
  have := C11_counter_ge K g h.reach h.hashGood g.position (C11_current_mem K g h.reach)
  rw [occurrences_absGame K h.reach, List.countP_map, List.countP_eq_length_filter]
  refine Nat.le_trans (Nat.le_of_eq ?_) this
  congr 1
  apply List.filter_congr
  intro q _
  exact (sameKey_symm q g.position).symm

/-- … and equals them when no two history positions collide -/
theorem occurrences_eq_counter_partial {g : Game} (h : GameOK K g) (hinj : NoCollision g) :
    g.positionCounter g.position = Spec.occurrences (absGame g) := by
  rw [occurrences_absGame K h.reach]
  exact C11_counter_spec_partial K g h.reach h.hashGood hinj

/-- status after a move, from any agreement of the two counts on "at least three" -/
theorem status_after_move_of_count {g : Game} (h : GameOK K g) (hst : g.status = C12.afterMoveStatus g)
    (hcount : g.position.getStatus = .ongoing →
      (g.positionCounter g.position ≥ 3 ↔ Spec.occurrences (absGame g) ≥ 3)) :
    absStatus g.status = Spec.afterMoveStatus (absGame g) := by
  rw [hst, afterMoveStatus_model, afterMoveStatus_spec, posAfter_absGame K h.reach, ← C04_status _ h.position_valid]
  exact absStatus_modelAfter _ _ _ hcount

/-- the fields of the successor of an accepted move other than the status, and the legality of the move -/
theorem move_frame {g g' : Game} (hok : GameOK K g) (m : Move) (hw : ∀ pt s d, m ≠ .piece pt s d (some .pawn))
    (ha : g.act K (.move m) = .ok g') :
    g.status = .ongoing ∧ Spec.legal (Spec.posAfter (absGame g)) m = true ∧
    (absGame g').start = (absGame g).start ∧
    (absGame g').later = (absGame g).later ++ [Spec.apply (Spec.posAfter (absGame g)) m] ∧
    (absGame g').moves = (absGame g).moves ++ [m] ∧
    g'.status = C12.afterMoveStatus g' := by
  have hr := hok.reach
  rcases act_cases K g g' _ ha with ⟨m', nb, mp, hm', hs, hm, _, hpos, hh, _⟩ | ⟨hne, _⟩
  · cases hm'
    obtain ⟨hl, hnb⟩ := makeMove_ok K hm
    have hv := hok.position_valid
    rw [C03_rules _ hv m hw] at hl
    have hsucc := (C02_successor K _ hv m hl).1
    have hne := positions_ne_nil K hr
    refine ⟨hs, by rw [posAfter_absGame K hr]; exact hl, ?_, ?_, ?_, (C12.move_result K g g' m hs ha).2.1⟩
    · simp only [absGame, hh]
      cases hp : g.history.positions with
      | nil => exact absurd hp hne
      | cons x l => rfl
    · rw [posAfter_absGame K hr, ← hsucc, ← hnb]
      simp only [absGame, hh]
      cases hp : g.history.positions with
      | nil => exact absurd hp hne
      | cons x l => simp
    · simp only [absGame, hh]
  · exact absurd rfl (hne m)

/-- an accepted move leads to the specification's successor as soon as the status agrees -/
theorem refines_move_of_status {g g' : Game} (hok : GameOK K g) (m : Move)
    (hw : ∀ pt s d, m ≠ .piece pt s d (some .pawn)) (ha : g.act K (.move m) = .ok g')
    (hst : absStatus g'.status = Spec.afterMoveStatus (absGame g')) :
    Spec.step (absGame g) (.move m) = .ok (absGame g') := by
  obtain ⟨hs, hl, h1, h2, h3, _⟩ := move_frame K hok m hw ha
  rw [spec_step_move _ _ (by rw [absGame_status, hs]; rfl), if_pos hl]
  congr 1
  rw [spec_afterMoveStatus_mk (absGame g') _ _ _ _ h1.symm h2.symm, ← hst, ← h1, ← h2, ← h3]
  rfl

/-- a rejected move in an ongoing game: the specification rejects it as illegal too -/
theorem refines_move_illegal {g : Game} (hok : GameOK K g) (m : Move)
    (hw : ∀ pt s d, m ≠ .piece pt s d (some .pawn)) (hs : g.status = .ongoing)
    (hl : g.position.isLegalMove K m = false) :
    Spec.step (absGame g) (.move m) = .error .illegalAction := by
  rw [spec_step_move _ _ (by rw [absGame_status, hs]; rfl), posAfter_absGame K hok.reach,
    ← C03_rules _ hok.position_valid m hw, hl]
  rfl

/-- **C12 (refinement, rejection) — unconditional.**  Whatever the model rejects the specification rejects,
with the same error kind (`illegalAction ↦ illegalAction`, `gameFinished ↦ finished`). -/
theorem C12_refines_err (g : Game) (hok : GameOK K g) (a : Action) (hc : Action.Constructible a) (e : Err)
    (h : g.act K a = .error e) : Spec.step (absGame g) (absAction a) = .error (absErr e) := by
  cases a with
  | move m =>
    by_cases hs : g.status = .ongoing
    · by_cases hl : g.position.isLegalMove K m = true
      · obtain ⟨g', hg'⟩ := (C12.ongoing_move K g m hs).2 hl
        rw [hg'] at h; cases h
      · have hl' : g.position.isLegalMove K m = false := Bool.eq_false_iff.2 hl
        rw [C12.ongoing_illegal_move K g m hs hl'] at h
        cases h
        exact refines_move_illegal K hok m hc hs hl'
    · have := C12_refines_move_not_ongoing K g m hs
      rw [h] at this; exact this.symm
  | offerDraw c => have := C12_refines_nonmove K g (.offerDraw c) (by simp); rw [h] at this; exact this.symm
  | acceptDraw => have := C12_refines_nonmove K g .acceptDraw (by simp); rw [h] at this; exact this.symm
  | declineDraw => have := C12_refines_nonmove K g .declineDraw (by simp); rw [h] at this; exact this.symm
  | resign c => have := C12_refines_nonmove K g (.resign c) (by simp); rw [h] at this; exact this.symm

/-- conversely, whatever the specification rejects the model rejects (unconditional) -/
theorem C12_refines_err_iff (g : Game) (hok : GameOK K g) (a : Action) (hc : Action.Constructible a) :
    (∃ e, g.act K a = .error e) ↔ (∃ e, Spec.step (absGame g) (absAction a) = .error e) := by
  constructor
  · rintro ⟨e, he⟩; exact ⟨_, C12_refines_err K g hok a hc e he⟩
  · rintro ⟨e, he⟩
    cases hr : g.act K a with
    | error e' => exact ⟨e', rfl⟩
    | ok g' =>
      exfalso
      cases a with
      | move m =>
        obtain ⟨hs, hl, _⟩ := move_frame K hok m hc hr
        rw [show absAction (.move m) = .move m from rfl,
          spec_step_move _ _ (by rw [absGame_status, hs]; rfl), if_pos hl] at he
        cases he
      | offerDraw c => have := C12_refines_nonmove K g (.offerDraw c) (by simp); rw [hr, he] at this; cases this
      | acceptDraw => have := C12_refines_nonmove K g .acceptDraw (by simp); rw [hr, he] at this; cases this
      | declineDraw => have := C12_refines_nonmove K g .declineDraw (by simp); rw [hr, he] at this; cases this
      | resign c => have := C12_refines_nonmove K g (.resign c) (by simp); rw [hr, he] at this; cases this

/-- **C12 (refinement, accepted non-move) — unconditional.** -/
theorem C12_refines_ok_nonmove (g g' : Game) (a : Action) (hne : ∀ m, a ≠ .move m) (h : g.act K a = .ok g') :
    Spec.step (absGame g) (absAction a) = .ok (absGame g') := by
  have := C12_refines_nonmove K g a hne
  rw [h] at this; exact this.symm

/-- **C12 (refinement, accepted move) — unconditional part.**  The specification accepts the move too; its
successor has the same start position, positions and moves as the abstraction of the model's successor; the
status is the same whenever the board gives a result (mate, stalemate, insufficient material, fifty moves), and
whenever the specification declares repetition so does the model.  The only possible disagreement: the
board gives no result, the true number of occurrences is below three, but the hash-keyed counter reached three
(a hash collision) — then the model says repetition where the specification says ongoing. -/
theorem C12_refines_move (g g' : Game) (hok : GameOK K g) (m : Move)
    (hw : ∀ pt s d, m ≠ .piece pt s d (some .pawn)) (h : g.act K (.move m) = .ok g') :
    ∃ G', Spec.step (absGame g) (.move m) = .ok G' ∧
      G'.start = (absGame g').start ∧ G'.later = (absGame g').later ∧ G'.moves = (absGame g').moves ∧
      (G'.status = absStatus g'.status ∨
        (G'.status = .ongoing ∧ g'.status = .repetition ∧ Spec.status g'.position.absPos = .ongoing ∧
          Spec.occurrences (absGame g') < 3 ∧ 3 ≤ g'.positionCounter g'.position)) := by
  obtain ⟨hs, hl, h1, h2, h3, hst⟩ := move_frame K hok m hw h
  have hok' : GameOK K g' := .step (.move m) hok hw h
  have hle := occurrences_le_counter K hok'
  rw [spec_step_move _ _ (by rw [absGame_status, hs]; rfl), if_pos hl]
  refine ⟨_, rfl, h1.symm, h2.symm, h3.symm, ?_⟩
  show Spec.afterMoveStatus _ = _ ∨ (Spec.afterMoveStatus _ = _ ∧ _)
  rw [spec_afterMoveStatus_mk (absGame g') _ _ _ _ h1.symm h2.symm]
  by_cases hcount : g'.position.getStatus = .ongoing →
      (g'.positionCounter g'.position ≥ 3 ↔ Spec.occurrences (absGame g') ≥ 3)
  · left; exact (status_after_move_of_count K hok' hst hcount).symm
  · right
    have hon : g'.position.getStatus = .ongoing := Classical.byContradiction fun hn => hcount (fun hh => absurd hh hn)
    have hcnt : ¬ (g'.positionCounter g'.position ≥ 3 ↔ Spec.occurrences (absGame g') ≥ 3) := fun hh => hcount (fun _ => hh)
    have hspec : Spec.status g'.position.absPos = .ongoing := by
      rw [← C04_status _ hok'.position_valid, hon]; rfl
    have h3c : 3 ≤ g'.positionCounter g'.position ∧ Spec.occurrences (absGame g') < 3 := by omega
    refine ⟨?_, ?_, hspec, h3c.2, h3c.1⟩
    · rw [afterMoveStatus_spec, posAfter_absGame K hok'.reach, hspec]
      simp only [specAfter]; rw [if_neg (by omega)]
    · rw [hst, afterMoveStatus_model, hon]
      simp only [modelAfter]; rw [if_pos h3c.1]

/-- **C12 (refinement, accepted action), partial: assuming no hash collision among the positions of the
successor's history** (needed for the repetition clause of an accepted move only).
FULL statement: the same without `hinj`; it is false if two positions of one game collide under the 64-bit
hash, see `C12_refines_move` for exactly what remains true then. -/
theorem C12_refines_ok_partial (g g' : Game) (hok : GameOK K g) (a : Action) (hc : Action.Constructible a)
    (h : g.act K a = .ok g') (hinj : NoCollision g') :
    Spec.step (absGame g) (absAction a) = .ok (absGame g') := by
  cases a with
  | move m =>
    have hok' : GameOK K g' := .step _ hok hc h
    have hst := (move_frame K hok m hc h).2.2.2.2.2
    apply refines_move_of_status K hok m hc h
    apply status_after_move_of_count K hok' hst
    intro _
    rw [occurrences_eq_counter_partial K hok' hinj]
  | offerDraw c => exact C12_refines_ok_nonmove K g g' _ (by simp) h
  | acceptDraw => exact C12_refines_ok_nonmove K g g' _ (by simp) h
  | declineDraw => exact C12_refines_ok_nonmove K g g' _ (by simp) h
  | resign c => exact C12_refines_ok_nonmove K g g' _ (by simp) h

/-- **C12 (refinement), partial in the repetition clause only.**  Model and specification accept / reject the
action identically, with the same error kind, and on acceptance the abstraction of the model's successor is
the specification's successor. -/
theorem C12_refines_partial (g : Game) (hok : GameOK K g) (a : Action) (hc : Action.Constructible a)
    (hinj : ∀ g', g.act K a = .ok g' → NoCollision g') :
    ((g.act K a).map absGame).mapError absErr = Spec.step (absGame g) (absAction a) := by
  rw [← absResult_eq]
  cases h : g.act K a with
  | ok g' => exact (C12_refines_ok_partial K g g' hok a hc h (hinj g' h)).symm
  | error e => exact (C12_refines_err K g hok a hc e h).symm

/-- when the board gives a result after the move, no hypothesis is needed -/
theorem C12_refines_ok_move_result (g g' : Game) (hok : GameOK K g) (m : Move)
    (hw : ∀ pt s d, m ≠ .piece pt s d (some .pawn)) (h : g.act K (.move m) = .ok g')
    (hres : g'.position.getStatus ≠ .ongoing) :
    Spec.step (absGame g) (.move m) = .ok (absGame g') := by
  have hok' : GameOK K g' := .step (.move m) hok hw h
  exact refines_move_of_status K hok m hw h
    (status_after_move_of_count K hok' (move_frame K hok m hw h).2.2.2.2.2 (fun hh => absurd hh hres))

/-! ## 6. runs: model and specification in lockstep -/

/-- apply a list of actions to a game; a rejected action leaves the game unchanged (the Rust returns the error
and mutates nothing); the trace records `none` for an accepted action and the error for a rejected one -/
def runModel : Game → List Action → Game × List (Option Err)
  | g, [] => (g, [])
  | g, a :: as =>
    match g.act K a with
    | .ok g' => ((runModel g' as).1, none :: (runModel g' as).2)
    | .error e => ((runModel g as).1, some e :: (runModel g as).2)

/-- the same for the specification's transition table -/
def runSpec : Spec.GState → List Spec.Action → Spec.GState × List (Option Spec.GErr)
  | G, [] => (G, [])
  | G, a :: as =>
    match Spec.step G a with
    | .ok G' => ((runSpec G' as).1, none :: (runSpec G' as).2)
    | .error e => ((runSpec G as).1, some e :: (runSpec G as).2)

theorem runModel_ok (g g' : Game) (a : Action) (as : List Action) (h : g.act K a = .ok g') :
    runModel K g (a :: as) = ((runModel K g' as).1, none :: (runModel K g' as).2) := by
  simp only [runModel, h]
theorem runModel_err (g : Game) (a : Action) (as : List Action) (e : Err) (h : g.act K a = .error e) :
    runModel K g (a :: as) = ((runModel K g as).1, some e :: (runModel K g as).2) := by
  simp only [runModel, h]
theorem runSpec_ok (G G' : Spec.GState) (a : Spec.Action) (as : List Spec.Action) (h : Spec.step G a = .ok G') :
    runSpec G (a :: as) = ((runSpec G' as).1, none :: (runSpec G' as).2) := by
  simp only [runSpec, h]
theorem runSpec_err (G : Spec.GState) (a : Spec.Action) (as : List Spec.Action) (e : Spec.GErr)
    (h : Spec.step G a = .error e) :
    runSpec G (a :: as) = ((runSpec G as).1, some e :: (runSpec G as).2) := by
  simp only [runSpec, h]

/-- an accepted action only ever appends to the list of positions -/
theorem act_positions_prefix (g g' : Game) (a : Action) (h : g.act K a = .ok g') :
    g.history.positions <+: g'.history.positions := by
  rcases act_cases K g g' a h with ⟨m, nb, mp, _, _, _, _, _, hh, _⟩ | ⟨_, _, hh, _⟩
  · rw [hh]; exact List.prefix_append _ _
  · rw [hh]; exact List.prefix_refl _

theorem runModel_positions_prefix (as : List Action) : ∀ g : Game,
    g.history.positions <+: (runModel K g as).1.history.positions := by
  induction as with
  | nil => intro g; exact List.prefix_refl _
  | cons a as ih =>
    intro g
    cases h : g.act K a with
    | ok g' => rw [runModel_ok K g g' a as h]; exact (act_positions_prefix K g g' a h).trans (ih g')
    | error e => rw [runModel_err K g a as e h]; exact ih g

theorem NoCollision.of_prefix {g g' : Game} (hp : g.history.positions <+: g'.history.positions)
    (h : NoCollision g') : NoCollision g :=
  fun p q hpm hqm e => h p q (hp.subset hpm) (hp.subset hqm) e

theorem NoCollision.ofBoard (b : Board) : NoCollision (Game.ofBoard b) := by
  intro p q hp hq _
  simp only [ofBoard_history, History.fromPosition, List.mem_singleton] at hp hq
  subst hp; subst hq; exact sameKey_refl _

/-- the invariant along a run -/
theorem runModel_ok_inv (as : List Action) : ∀ g : Game, GameOK K g → (∀ a ∈ as, Action.Constructible a) →
    GameOK K (runModel K g as).1 := by
  induction as with
  | nil => intro g h _; exact h
  | cons a as ih =>
    intro g hok hc
    have hca := hc a List.mem_cons_self
    have hcas : ∀ a' ∈ as, Action.Constructible a' := fun a' h' => hc a' (List.mem_cons_of_mem _ h')
    cases h : g.act K a with
    | ok g' => rw [runModel_ok K g g' a as h]; exact ih g' (.step a hok hca h) hcas
    | error e => rw [runModel_err K g a as e h]; exact ih g hok hcas

/-- **C12 (runs), partial in the repetition clause only** (`hinj`: no two positions of the final history
collide; the histories of the intermediate games are prefixes of it).  Running any list of constructible
actions through the model and through the specification from related states gives related final states and
the same accept / reject trace, error kinds included. -/
theorem C12_lockstep_partial (as : List Action) : ∀ g : Game, GameOK K g → (∀ a ∈ as, Action.Constructible a) →
    NoCollision (runModel K g as).1 →
    absGame (runModel K g as).1 = (runSpec (absGame g) (as.map absAction)).1 ∧
    (runModel K g as).2.map (Option.map absErr) = (runSpec (absGame g) (as.map absAction)).2 := by
  induction as with
  | nil => intro g _ _ _; exact ⟨rfl, rfl⟩
  | cons a as ih =>
    intro g hok hc hinj
    have hca := hc a List.mem_cons_self
    have hcas : ∀ a' ∈ as, Action.Constructible a' := fun a' h' => hc a' (List.mem_cons_of_mem _ h')
    rw [List.map_cons]
    cases h : g.act K a with
    | ok g' =>
      rw [runModel_ok K g g' a as h] at hinj ⊢
      have hinj' : NoCollision g' := NoCollision.of_prefix (runModel_positions_prefix K as g') hinj
      rw [runSpec_ok _ _ _ _ (C12_refines_ok_partial K g g' hok a hca h hinj')]
      obtain ⟨h1, h2⟩ := ih g' (.step a hok hca h) hcas hinj
      exact ⟨h1, by rw [List.map_cons, h2]; rfl⟩
    | error e =>
      rw [runModel_err K g a as e h] at hinj ⊢
      rw [runSpec_err _ _ _ _ (C12_refines_err K g hok a hca e h)]
      obtain ⟨h1, h2⟩ := ih g hok hcas hinj
      exact ⟨h1, by rw [List.map_cons, h2]; rfl⟩

/-- **C12 (whole games), partial in the repetition clause only.**  For every valid start position and every
sequence of constructible actions: the game built from the board and then driven by the actions stands, at the
end, for the state the specification reaches from its initial state of that position under the same actions, and
both accepted and rejected the same actions with the same error kinds. -/
theorem C12_game_partial (b : Board) (hv : b.Valid K) (as : List Action) (hc : ∀ a ∈ as, Action.Constructible a)
    (hinj : NoCollision (runModel K (Game.ofBoard b) as).1) :
    absGame (runModel K (Game.ofBoard b) as).1 = (runSpec (Spec.init b.absPos) (as.map absAction)).1 ∧
    (runModel K (Game.ofBoard b) as).2.map (Option.map absErr) = (runSpec (Spec.init b.absPos) (as.map absAction)).2 ∧
    (runModel K (Game.ofBoard b) as).1.result =
      (Spec.tagOf (runSpec (Spec.init b.absPos) (as.map absAction)).1.status).toList := by
  have hok : GameOK K (Game.ofBoard b) := .init b hv
  obtain ⟨h1, h2⟩ := C12_lockstep_partial K as _ hok hc hinj
  rw [C12_init K b hv] at h1 h2
  refine ⟨h1, h2, ?_⟩
  rw [← h1, C12_tag K _ (runModel_ok_inv K as _ hok hc).reach]
  rfl

/-- runs of non-move actions need no hypothesis at all (no position is added, so nothing can collide) -/
theorem C12_lockstep_nonmove (as : List Action) (hne : ∀ a ∈ as, ∀ m, a ≠ .move m) : ∀ g : Game,
    absGame (runModel K g as).1 = (runSpec (absGame g) (as.map absAction)).1 ∧
    (runModel K g as).2.map (Option.map absErr) = (runSpec (absGame g) (as.map absAction)).2 := by
  induction as with
  | nil => intro g; exact ⟨rfl, rfl⟩
  | cons a as ih =>
    intro g
    have hr := C12_refines_nonmove K g a (hne a List.mem_cons_self)
    have ih' := ih (fun a' h' => hne a' (List.mem_cons_of_mem _ h'))
    rw [List.map_cons]
    cases h : g.act K a with
    | ok g' =>
      rw [h] at hr
      rw [runModel_ok K g g' a as h, runSpec_ok _ _ _ _ hr.symm]
      obtain ⟨h1, h2⟩ := ih' g'
      exact ⟨h1, by rw [List.map_cons, h2]; rfl⟩
    | error e =>
      rw [h] at hr
      rw [runModel_err K g a as e h, runSpec_err _ _ _ _ hr.symm]
      obtain ⟨h1, h2⟩ := ih' g
      exact ⟨h1, by rw [List.map_cons, h2]; rfl⟩

/-- the hypotheses are satisfiable: the game of any valid board is `GameOK` and collision-free -/
example (b : Board) (hv : b.Valid K) : GameOK K (Game.ofBoard b) ∧ NoCollision (Game.ofBoard b) :=
  ⟨.init b hv, NoCollision.ofBoard b⟩

/-- … and valid boards exist for every key table (`C09.sample`), so `GameOK` games do -/
example : ∃ g : Game, GameOK K g ∧ NoCollision g ∧ absGame g = Spec.init C09.sample.toPos := by
  obtain ⟨b, hb⟩ := C09_complete K _ C09.sample_valid
  obtain ⟨hv, habs⟩ := C09_sound K _ b hb
  exact ⟨Game.ofBoard b, .init b hv, NoCollision.ofBoard b, by rw [C12_init K b hv, habs]⟩

end Chess
