import Chess.Props.C15Regex
import Chess.Model.PgnTags
/-! # C15 — the tag section of `Game::as_pgn` / `Game::from_pgn`

`Chess/Model/PgnTags.lean` models the metadata map of a game (`Metadata`: association list sorted byte-wise by key, `set` =
`BTreeMap::insert`, `get`), the tag section printed by `as_pgn` (`printedEntries`, `tagsText`, `Game.asPgnWith`), the
metadata pattern of `from_pgn` as a backtracking matcher with capture groups (`tagRe`, `matchTagAt`, `findTags`), and
`from_pgn` with the map (`Game.ofPgnFull`).  This file proves:

* the matcher is the matcher of `PgnRegex` (`starA_eq_star`, `oneA_eq_one`); greedy runs (`starA_run`) and soundness of
  the pieces (`starA_sound`, `oneA_sound`);
* `matchTagAt_line` — on an exported line `[Key "Value"]` the groups are `Key` and `Value`, the match is the line;
  `matchTagAt_shape` — EVERY match has both groups (no panic on `cap[1]`, `cap[2]`) and the shape of the pattern;
  `mem_findTags` — so every stored key is white space + a non-empty word, every stored value is `"`-free;
* `findTags_lines`, `findTags_tagsText`, `findTags_asPgnWith`, `findTags_asPgn` — the matches over the WHOLE export are the
  printed entries of the map, in printed order (the moves section has no `[`: `movesText_noBr`);
* the order of the map: `utf8_prefix`, `keyBytes_inj`, `keyLt_irrefl/_trans/_total`; the map: `get_set_same`,
  `get_set_other`, `Sorted.set`, `Sorted.ext`, `get_applyTags_mem` (later matches win), `applyTags_printed`
  (setting the printed entries of a map gives the map back), `HasPrimary.set` (no `unwrap` panic in `as_pgn`);
* `asPgnWith_default` — `Game.asPgn g` is `Game.asPgnWith` at `GameMetadata::default()` with `Result := g.result`;
* `act_withResult`, `ofPgnRegex_sameBut`, `ofPgnFull_spec` — the replay never reads the `Result` entry, it only writes it,
  and only when the status changes;
* `C15_tags_roundtrip` (MAIN), `C15_tags_result`, `C15_tags_reexport`, `C15_tags_custom` (extra tags).

Everything holds for every instantiation `U : UniClasses` of the non-ASCII part of `\w`, `\s`, `\d`.  The matcher was
compared with the `regex` crate (1.13.1, the pattern text of `from_pgn`) on 7000 random and tag-shaped inputs over
`[ ] " * ' = #`, ASCII and non-ASCII white space, letters and digits: identical captures. -/
namespace Chess
open Chess.Game Chess.C13 Chess.PgnRegex Chess.PgnTags Board

namespace PgnTags

/-! ## the matcher is the matcher of `PgnRegex` -/
theorem starA_eq_star (p : Char → Bool) (k : Cont) : starA p k = star p k := by
  funext s
  induction s with
  | nil => rfl
  | cons c cs ih =>
    rw [starA, star, ih]
    by_cases hp : p c = true
    · rw [if_pos hp, if_pos hp]; cases star p k cs <;> rfl
    · rw [if_neg hp, if_neg hp]

theorem oneA_eq_one (p : Char → Bool) (k : Cont) : oneA p k = one p k := by
  funext s; cases s <;> rfl

/-! ## pieces -/
section pieces
variable {α : Type}

theorem mark_eq (f : Str → ContA α) (s : Str) : mark f s = f s s := rfl

theorem oneA_cons (p : Char → Bool) (k : ContA α) (c : Char) (cs : Str) (h : p c = true) : oneA p k (c :: cs) = k cs := by
  rw [oneA, if_pos h]

theorem oneA_cons_neg (p : Char → Bool) (k : ContA α) (c : Char) (cs : Str) (h : p c = false) : oneA p k (c :: cs) = none := by
  rw [oneA, if_neg (by simp [h])]

/-- `[p]*` at a character outside the class takes nothing -/
theorem starA_stop (p : Char → Bool) (k : ContA α) (c : Char) (cs : Str) (h : p c = false) :
    starA p k (c :: cs) = k (c :: cs) := by
  rw [starA, if_neg (by simp [h])]

/-- **greedy run**: on a run of class characters that ends before a character outside the class (or at the end of the
text), `[p]*` takes the whole run when what follows the pattern piece matches there -/
theorem starA_run (p : Char → Bool) (k : ContA α) (pre rest : Str) (r : α) (hpre : ∀ c ∈ pre, p c = true)
    (hstop : rest = [] ∨ ∃ c t, rest = c :: t ∧ p c = false) (hk : k rest = some r) :
    starA p k (pre ++ rest) = some r := by
  induction pre with
  | nil =>
    rcases hstop with rfl | ⟨c, t, rfl, hc⟩
    · exact hk
    · rw [List.nil_append, starA_stop p k c t hc]; exact hk
  | cons a pre ih =>
    rw [List.cons_append, starA, if_pos (hpre a (by simp)), ih (fun c hc => hpre c (by simp [hc]))]

theorem oneA_sound {p : Char → Bool} {k : ContA α} {s : Str} {r : α} (h : oneA p k s = some r) :
    ∃ c t, s = c :: t ∧ p c = true ∧ k t = some r := by
  cases s with
  | nil => cases h
  | cons c t =>
    rw [oneA] at h
    by_cases hc : p c = true
    · rw [if_pos hc] at h; exact ⟨c, t, rfl, hc, h⟩
    · rw [if_neg hc] at h; cases h

theorem starA_sound {p : Char → Bool} {k : ContA α} {s : Str} {r : α} (h : starA p k s = some r) :
    ∃ pre post, s = pre ++ post ∧ (∀ c ∈ pre, p c = true) ∧ k post = some r := by
  induction s with
  | nil => exact ⟨[], [], rfl, by simp, h⟩
  | cons c cs ih =>
    rw [starA] at h
    by_cases hc : p c = true
    · rw [if_pos hc] at h
      cases hs : starA p k cs with
      | some x =>
        rw [hs] at h
        obtain ⟨pre, post, e, hp, hk⟩ := ih (hs.trans h)
        exact ⟨c :: pre, post, by rw [e]; rfl, by
          intro d hd
          rcases List.mem_cons.1 hd with rfl | hd
          · exact hc
          · exact hp d hd, hk⟩
      | none => rw [hs] at h; exact ⟨[], c :: cs, rfl, by simp, h⟩
    · rw [if_neg hc] at h; exact ⟨[], c :: cs, rfl, by simp, h⟩

theorem between_append (x y : Str) : between (x ++ y) y = x := by
  unfold between
  rw [List.length_append, Nat.add_sub_cancel, List.take_left']
  rfl

end pieces

/-! ## well-formed tags -/

/-- a key the exported line gives back: non-empty, over `[\w\d_]`, no character in `\s` -/
def KeyOK (U : UniClasses) (k : Str) : Prop := k ≠ [] ∧ ∀ c ∈ k, clsKey U c = true ∧ clsS U c = false
/-- a value over `[\s\w\d:/\.\?,-]` (in particular without `"`) -/
def ValOK (U : UniClasses) (v : Str) : Prop := ∀ c ∈ v, clsVal U c = true
/-- a non-empty ASCII word over `[0-9A-Za-z_]` -/
def AsciiWord (k : Str) : Prop := k ≠ [] ∧ ∀ c ∈ k, asciiW c = true

theorem asciiW_key (U : UniClasses) (c : Char) (h : asciiW c = true) : clsKey U c = true ∧ clsS U c = false := by
  have hlt : c.toNat < 128 := by
    simp only [asciiW, Bool.or_eq_true, Bool.and_eq_true, decide_eq_true_eq, beq_iff_eq] at h; omega
  refine ⟨?_, ?_⟩
  · simp [clsKey, clsW, hlt, h]
  · simp only [clsS, hlt, if_true]
    simp only [asciiW, Bool.or_eq_true, Bool.and_eq_true, decide_eq_true_eq, beq_iff_eq] at h
    simp only [asciiS, Bool.or_eq_false_iff, Bool.and_eq_false_iff, decide_eq_false_iff_not, beq_eq_false_iff_ne]
    omega

theorem AsciiWord.keyOK (U : UniClasses) {k : Str} (h : AsciiWord k) : KeyOK U k :=
  ⟨h.1, fun c hc => asciiW_key U c (h.2 c hc)⟩

theorem quote_not_val (U : UniClasses) : clsVal U '"' = false := rfl
theorem quote_not_space (U : UniClasses) : clsS U '"' = false := rfl
theorem close_not_space (U : UniClasses) : clsS U ']' = false := rfl
theorem space_not_key (U : UniClasses) : clsKey U ' ' = false := rfl
theorem space_space (U : UniClasses) : clsS U ' ' = true := rfl

theorem ValOK.no_quote {U : UniClasses} {v : Str} (h : ValOK U v) : '"' ∉ v := fun hm => by
  have := h _ hm; rw [quote_not_val] at this; cases this

/-! ## the metadata pattern on an exported line -/

/-- **the match of the pattern at an exported tag line** `[Key "Value"]`: the greedy pieces take exactly the key, the
space, the value — no backtracking — and the groups are the key and the value -/
theorem matchTagAt_line (U : UniClasses) (k v R : Str) (hk : KeyOK U k) (hv : ValOK U v) :
    matchTagAt U ('[' :: (k ++ ' ' :: '"' :: (v ++ '"' :: ']' :: R))) = some (k, v, R) := by
  obtain ⟨hne, hkc⟩ := hk
  obtain ⟨c, k', rfl⟩ := List.exists_cons_of_ne_nil hne
  unfold matchTagAt tagRe
  rw [oneA_cons _ _ _ _ (by rfl), mark_eq, List.cons_append, starA_stop _ _ _ _ (hkc c (by simp)).2, plusA,
    oneA_cons _ _ _ _ (hkc c (by simp)).1]
  refine starA_run _ _ k' _ _ (fun x hx => (hkc x (by simp [hx])).1) (Or.inr ⟨_, _, rfl, space_not_key U⟩) ?_
  rw [mark_eq, plusA, oneA_cons _ _ _ _ (space_space U), starA_stop _ _ _ _ (quote_not_space U),
    oneA_cons _ _ _ _ (by rfl), mark_eq]
  refine starA_run _ _ v _ _ hv (Or.inr ⟨_, _, rfl, quote_not_val U⟩) ?_
  rw [mark_eq, oneA_cons _ _ _ _ (by rfl), starA_stop _ _ _ _ (close_not_space U), oneA_cons _ _ _ _ (by rfl)]
  show some (between _ _, between _ _, R) = _
  rw [between_append, ← List.cons_append, between_append]

/-- no match starts at a character other than `[` -/
theorem matchTagAt_head (U : UniClasses) (c : Char) (cs : Str) (h : c ≠ '[') : matchTagAt U (c :: cs) = none := by
  unfold matchTagAt tagRe
  exact oneA_cons_neg _ _ _ _ (by simpa using h)

theorem matchTagAt_nil (U : UniClasses) : matchTagAt U [] = none := rfl

/-- **both groups take part in every match** (`cap[1]`, `cap[2]` never panic), and the match has the shape of the
pattern: `[`, group 1 = white space and a non-empty word over `[\w\d_]`, white space (at least one character), `"`,
group 2 over the value class, `"`, white space, `]` -/
theorem matchTagAt_shape (U : UniClasses) (s k v rest : Str) (h : matchTagAt U s = some (k, v, rest)) :
    ∃ sp w ws ws', k = sp ++ w ∧ w ≠ [] ∧ (∀ c ∈ sp, clsS U c = true) ∧ (∀ c ∈ w, clsKey U c = true) ∧
      ws ≠ [] ∧ (∀ c ∈ ws, clsS U c = true) ∧ (∀ c ∈ v, clsVal U c = true) ∧ (∀ c ∈ ws', clsS U c = true) ∧
      s = '[' :: k ++ ws ++ '"' :: v ++ '"' :: ws' ++ ']' :: rest := by
  unfold matchTagAt tagRe at h
  obtain ⟨c0, a, rfl, h0, h1⟩ := oneA_sound h
  clear h
  have h0 : c0 = '[' := by simpa using h0
  subst h0
  rw [mark_eq] at h1
  obtain ⟨sp, t1, rfl, hsp, h2⟩ := starA_sound h1
  clear h1
  unfold plusA at h2
  obtain ⟨w0, t2, rfl, hw0, h3⟩ := oneA_sound h2
  clear h2
  obtain ⟨w1, b, rfl, hw1, h4⟩ := starA_sound h3
  clear h3
  rw [mark_eq] at h4
  obtain ⟨s0, t3, rfl, hs0, h5⟩ := oneA_sound h4
  clear h4
  obtain ⟨s1, t4, rfl, hs1, h6⟩ := starA_sound h5
  clear h5
  obtain ⟨q, cc, rfl, hq, h7⟩ := oneA_sound h6
  clear h6
  have hq : q = '"' := by simpa using hq
  subst hq
  rw [mark_eq] at h7
  obtain ⟨v', d, rfl, hv', h8⟩ := starA_sound h7
  clear h7
  rw [mark_eq] at h8
  obtain ⟨q, t5, rfl, hq, h9⟩ := oneA_sound h8
  clear h8
  have hq : q = '"' := by simpa using hq
  subst hq
  obtain ⟨ws', t6, rfl, hws', h10⟩ := starA_sound h9
  clear h9
  obtain ⟨q, r', rfl, hq, h⟩ := oneA_sound h10
  clear h10
  have hq : q = ']' := by simpa using hq
  subst hq
  simp only [Option.some.injEq, Prod.mk.injEq] at h
  obtain ⟨hk, hv, rfl⟩ := h
  have e1 : sp ++ w0 :: (w1 ++ s0 :: (s1 ++ '"' :: (v' ++ '"' :: (ws' ++ ']' :: r')))) =
      (sp ++ w0 :: w1) ++ (s0 :: (s1 ++ '"' :: (v' ++ '"' :: (ws' ++ ']' :: r')))) := by simp
  rw [e1, between_append] at hk
  rw [between_append] at hv
  subst hk; subst hv
  refine ⟨sp, w0 :: w1, s0 :: s1, ws', rfl, by simp, hsp, ?_, by simp, ?_, hv', hws', by simp⟩
  · intro c hc; rcases List.mem_cons.1 hc with rfl | hc
    · exact hw0
    · exact hw1 c hc
  · intro c hc; rcases List.mem_cons.1 hc with rfl | hc
    · exact hs0
    · exact hs1 c hc


/-! ## the search -/

theorem findTagsFrom_nil (U : UniClasses) (n : Nat) : findTagsFrom U n [] = [] := by cases n <;> rfl

theorem findTagsFrom_zero (U : UniClasses) (c : Char) (cs : Str) :
    findTagsFrom U 0 (c :: cs) =
      match matchTagAt U (c :: cs) with
      | some (k, v, rest) => (k, v) :: findTagsFrom U (cs.length - rest.length) cs
      | none => findTagsFrom U 0 cs := rfl

/-- skipping the characters the previous match covers -/
theorem findTagsFrom_skip (U : UniClasses) (pre r : Str) : findTagsFrom U pre.length (pre ++ r) = findTagsFrom U 0 r := by
  induction pre with
  | nil => rfl
  | cons a pre ih => exact ih

/-- where a match starts, the search reports its groups and goes on behind it -/
theorem findTags_match (U : UniClasses) (c : Char) (cs pre rest k v : Str)
    (hm : matchTagAt U (c :: cs) = some (k, v, rest)) (hs : cs = pre ++ rest) :
    findTags U (c :: cs) = (k, v) :: findTags U rest := by
  unfold findTags
  rw [findTagsFrom_zero, hm]
  subst hs
  simp only [List.length_append, Nat.add_sub_cancel]
  rw [findTagsFrom_skip]

/-- where no match starts, the search moves on -/
theorem findTags_cons_other (U : UniClasses) (c : Char) (cs : Str) (h : c ≠ '[') : findTags U (c :: cs) = findTags U cs := by
  unfold findTags
  rw [findTagsFrom_zero, matchTagAt_head U c cs h]

/-- text without `[` holds no tag -/
theorem findTags_no_bracket (U : UniClasses) (s : Str) (h : '[' ∉ s) : findTags U s = [] := by
  induction s with
  | nil => rfl
  | cons c cs ih =>
    rw [findTags_cons_other U c cs (fun e => h (by simp [e]))]
    exact ih (fun hm => h (by simp [hm]))

theorem tagLine_append (k v R : Str) :
    tagLine k v ++ R = '[' :: (k ++ ' ' :: '"' :: (v ++ '"' :: ']' :: '\n' :: R)) := by
  simp [tagLine]

/-- an exported tag line gives its key and value, and the search goes on in the next line -/
theorem findTags_line (U : UniClasses) (k v R : Str) (hk : KeyOK U k) (hv : ValOK U v) :
    findTags U (tagLine k v ++ R) = (k, v) :: findTags U R := by
  rw [tagLine_append,
    findTags_match U '[' _ (k ++ ' ' :: '"' :: (v ++ ['"', ']'])) ('\n' :: R) k v (matchTagAt_line U k v _ hk hv) (by simp),
    findTags_cons_other U '\n' R (by decide)]

/-- well-formed entries: what `findTags_line` needs of each -/
def EntriesOK (U : UniClasses) (es : List (Str × Str)) : Prop := ∀ kv ∈ es, KeyOK U kv.1 ∧ ValOK U kv.2

theorem findTags_lines (U : UniClasses) (es : List (Str × Str)) (R : Str) (h : EntriesOK U es) :
    findTags U ((es.flatMap fun kv => tagLine kv.1 kv.2) ++ R) = es ++ findTags U R := by
  induction es with
  | nil => rfl
  | cons e es ih =>
    rw [List.flatMap_cons, List.append_assoc, findTags_line U _ _ _ (h e (by simp)).1 (h e (by simp)).2,
      ih (fun kv hkv => h kv (by simp [hkv]))]
    rfl

end PgnTags

/-! ## the moves section of an export holds no `[` -/

theorem noBr_filter (l : Str) : '[' ∉ l ↔ l.filter (· == '[') = [] := by
  rw [List.filter_eq_nil_iff]
  constructor
  · intro h a ha e; exact h ((beq_iff_eq.1 e) ▸ ha)
  · intro h hm; exact h _ hm (by simp)

theorem wrap_noBr (w : Nat) (ws : List Str) (h : ∀ x ∈ ws, '[' ∉ x) : '[' ∉ joinWith ['\n'] (wrapWords w ws) := by
  rw [noBr_filter, additive_wrap (fun l => l.filter (· == '[')) rfl (by intro a b; simp) (by intro a b; simp) w ws]
  rw [List.flatMap_eq_nil_iff]
  intro x hx; exact (noBr_filter x).1 (h x hx)

theorem natStr_noBr (n : Nat) : '[' ∉ natStr n := fun h => by
  have := natStr_isDigit n _ h; revert this; decide

theorem numbered_noBr (ply : Nat) (sans : List Str) (hs : ∀ s ∈ sans, '[' ∉ s) : ∀ x ∈ numbered ply sans, '[' ∉ x := by
  induction sans generalizing ply with
  | nil => intro x hx; simp [numbered] at hx
  | cons s rest ih =>
    intro x hx
    rw [numbered, List.mem_cons] at hx
    rcases hx with rfl | hx
    · split
      · intro hm
        rcases List.mem_append.1 hm with h | h
        · exact natStr_noBr _ h
        · rcases List.mem_cons.1 h with h | h
          · revert h; decide
          · exact hs s (by simp) h
      · exact hs s (by simp)
    · exact ih (ply + 1) (fun y hy => hs y (by simp [hy])) x hx

theorem expectedTokens_noBr (bs : Bool) (sans : List Str) (hs : ∀ s ∈ sans, '[' ∉ s) :
    ∀ x ∈ expectedTokens bs sans, '[' ∉ x := by
  unfold expectedTokens
  cases bs with
  | false => exact numbered_noBr 0 sans hs
  | true =>
    cases sans with
    | nil => intro x hx; simp at hx
    | cons w rest =>
      intro x hx
      simp only [if_true, List.mem_cons] at hx
      rcases hx with rfl | rfl | rfl | hx
      · decide
      · decide
      · exact hs _ (by simp)
      · exact numbered_noBr 2 rest (fun y hy => hs y (by simp [hy])) x hx

theorem zipWith_noBr (ms : List Move) (ps : List MoveProps) : ∀ s ∈ List.zipWith sanText ms ps, '[' ∉ s := by
  intro s hs
  obtain ⟨i, hi, rfl⟩ := List.mem_iff_getElem.1 hs
  rw [List.getElem_zipWith]
  exact (sanText_sanWord _ _).not_mem '[' (by decide)

theorem resultTag_noBr (s : GStatus) : '[' ∉ resultTagOf s := by
  have := C12.tag_values s
  simp only [List.mem_cons, List.not_mem_nil, or_false] at this
  rcases this with h | h | h | h <;> rw [h] <;> decide

/-- the moves section of an export (either side first) contains no `[`: no tag match starts in it -/
theorem movesText_noBr (g : Game) (ht : C12.TagOK g) : '[' ∉ g.movesText := by
  rw [movesText_tokens]
  intro hm
  rcases List.mem_append.1 hm with h | h
  · exact wrap_noBr 85 _ (expectedTokens_noBr _ _ (zipWith_noBr _ _)) h
  · rcases List.mem_cons.1 h with h | h
    · revert h; decide
    · rw [ht] at h; exact resultTag_noBr _ h

namespace PgnTags
theorem default_eq : Metadata.default =
    [("Black".toList, "Player 2".toList), ("Date".toList, "?".toList), ("Event".toList, "?".toList),
     ("Result".toList, "?".toList), ("Round".toList, "?".toList), ("Site".toList, "?".toList),
     ("White".toList, "Player 1".toList)] := by decide +kernel

theorem set_default_result (r : Str) : Metadata.set Metadata.default resultKey r =
    [("Black".toList, "Player 2".toList), ("Date".toList, "?".toList), ("Event".toList, "?".toList),
     ("Result".toList, r), ("Round".toList, "?".toList), ("Site".toList, "?".toList),
     ("White".toList, "Player 1".toList)] := by
  rw [default_eq]; rfl

theorem printed_default (r : Str) :
    printedEntries (Metadata.set Metadata.default resultKey r) = defaultTags ++ [(resultKey, r)] := by
  rw [set_default_result]; rfl

theorem get_default_result (r : Str) : Metadata.get (Metadata.set Metadata.default resultKey r) resultKey = some r := by
  rw [set_default_result]; rfl

theorem foldl_tagLine (l : List (Str × Str)) (acc : Str) :
    l.foldl (fun acc kv => acc ++ ['['] ++ kv.1 ++ " \"".toList ++ kv.2 ++ "\"]\n".toList) acc =
      acc ++ l.flatMap (fun kv => tagLine kv.1 kv.2) := by
  induction l generalizing acc with
  | nil => simp
  | cons e l ih => rw [List.foldl_cons, ih, List.flatMap_cons]; simp [tagLine]

theorem tagsText_default (r : Str) : tagsText (Metadata.set Metadata.default resultKey r) = pgnTagsOf r := by
  unfold tagsText pgnTagsOf
  rw [printed_default, foldl_tagLine, List.nil_append]
  rfl

theorem applyTags_default (x r : Str) :
    applyTags (Metadata.set Metadata.default resultKey x) (defaultTags ++ [(resultKey, r)]) =
      Metadata.set Metadata.default resultKey r := by
  rw [set_default_result, set_default_result]; rfl
end PgnTags

theorem asPgnWith_default (g : Game) : Game.asPgnWith (Metadata.set Metadata.default resultKey g.result) g = g.asPgn := by
  unfold Game.asPgnWith
  rw [get_default_result, tagsText_default]
  rfl

variable (K : Keys)

/-- the game with another `Result` entry -/
def Game.withResult (g : Game) (x : Str) : Game := { g with result := x }

@[simp] theorem withResult_status (g : Game) (x : Str) : (g.withResult x).status = g.status := rfl
@[simp] theorem withResult_position (g : Game) (x : Str) : (g.withResult x).position = g.position := rfl
@[simp] theorem withResult_result (g : Game) (x : Str) : (g.withResult x).result = x := rfl
theorem withResult_self (g : Game) : g.withResult g.result = g := rfl

theorem setStatus_withResult (g : Game) (x : Str) (s : GStatus) :
    (g.withResult x).setStatus s = if (g.setStatus s).status = g.status then (g.setStatus s).withResult x else g.setStatus s := by
  unfold setStatus
  by_cases h : s = g.status
  · simp [h, Game.withResult]
  · simp [h, Game.withResult]

theorem updateStatus_withResult (g : Game) (x : Str) (l : Option Action) :
    (g.withResult x).updateStatus l =
      if (g.updateStatus l).status = g.status then (g.updateStatus l).withResult x else g.updateStatus l := by
  unfold updateStatus
  exact setStatus_withResult g x _

theorem act_withResult (g : Game) (x : Str) (a : Action) :
    (g.withResult x).act K a =
      match g.act K a with
      | .error e => .error e
      | .ok g' => .ok (if g'.status = g.status then g'.withResult x else g') := by
  cases g with | mk pos hist cnt st res =>
  cases st <;> cases a <;> simp only [act, withResult_status, withResult_position] <;>
    try (exact congrArg Except.ok (updateStatus_withResult _ x _))
  rename_i m
  cases makeMove K pos m with
  | error e => rfl
  | ok nb =>
    simp only []
    cases moveProps K pos m with
    | error e => rfl
    | ok mp =>
      let g1 : Game := ({ position := nb, history := hist, counter := cnt, status := .ongoing, result := res } : Game).counterIncrement
      let g2 : Game := { g1 with history := ⟨g1.history.positions ++ [nb], g1.history.moves ++ [m], g1.history.props ++ [mp]⟩ }
      exact congrArg Except.ok (updateStatus_withResult g2 x (some (.move m)))

/-- `h` is `g` up to the `Result` entry, which is `g`'s or `x` -/
def SameBut (x : Str) (g h : Game) : Prop := h = g ∨ h = g.withResult x

/-- two runs agree: both fail with the same error, or both succeed with games that are `SameBut` -/
def SameButE (x : Str) : Except Err Game → Except Err Game → Prop
  | .ok g, .ok h => SameBut x g h
  | .error e, .error e' => e = e'
  | _, _ => False

theorem SameButE.refl (x : Str) (r : Except Err Game) : SameButE x r r := by
  cases r with
  | error e => exact rfl
  | ok g => exact Or.inl rfl

theorem SameBut.status {x : Str} {g h : Game} (r : SameBut x g h) : h.status = g.status := by
  rcases r with rfl | rfl <;> rfl

/-- `make_move` never reads the `Result` entry -/
theorem act_sameBut {x : Str} {g h : Game} (r : SameBut x g h) (a : Action) : SameButE x (g.act K a) (h.act K a) := by
  rcases r with rfl | rfl
  · exact SameButE.refl x _
  · rw [act_withResult]
    cases g.act K a with
    | error e => exact rfl
    | ok g' =>
      show SameBut x g' _
      by_cases hs : g'.status = g.status
      · rw [if_pos hs]; exact Or.inr rfl
      · rw [if_neg hs]; exact Or.inl rfl

theorem replaySan_sameBut {x : Str} (toks : List Str) : ∀ {g h : Game}, SameBut x g h →
    SameButE x (replaySan K g toks) (replaySan K h toks) := by
  induction toks with
  | nil => intro g h r; exact r
  | cons tok rest ih =>
    intro g h r
    have hp : h.position = g.position := by rcases r with rfl | rfl <;> rfl
    rw [replaySan, replaySan, hp]
    cases ((g.position.getLegalMoves K).filterMap fun m =>
      match g.position.moveProps K m with
      | .ok mp => if sanText m mp = tok then some m else none
      | .error _ => none).getLast? with
    | none => exact rfl
    | some m =>
      simp only []
      have ha := act_sameBut K r (.move m)
      cases hg : g.act K (.move m) with
      | error e =>
        cases hh : h.act K (.move m) with
        | error e' => rw [hg, hh] at ha; exact ha
        | ok h' => rw [hg, hh] at ha; exact ha.elim
      | ok g' =>
        cases hh : h.act K (.move m) with
        | error e' => rw [hg, hh] at ha; exact ha.elim
        | ok h' => rw [hg, hh] at ha; exact ih ha

/-- **the replay never reads the `Result` entry**: started from the same game with another entry `x`, `from_pgn` fails
with the same error or yields the same game up to that entry, which is then the one the unmodified run has or `x` -/
theorem ofPgnRegex_sameBut (x : Str) (start : Game) (pgn : Str) :
    SameButE x (Game.ofPgnRegex K start pgn) (Game.ofPgnRegex K (start.withResult x) pgn) := by
  unfold Game.ofPgnRegex
  cases regexMovesSection pgn with
  | none => exact rfl
  | some ms =>
    simp only []
    have hr := replaySan_sameBut K (x := x) (findMoves ms) (g := start) (h := start.withResult x) (Or.inr rfl)
    cases hg : replaySan K start (findMoves ms) with
    | error e =>
      cases hh : replaySan K (start.withResult x) (findMoves ms) with
      | error e' => rw [hg, hh] at hr; exact hr
      | ok h' => rw [hg, hh] at hr; exact hr.elim
    | ok g1 =>
      cases hh : replaySan K (start.withResult x) (findMoves ms) with
      | error e' => rw [hg, hh] at hr; exact hr.elim
      | ok h1 =>
        rw [hg, hh] at hr
        have hr : SameBut x g1 h1 := hr
        simp only [hr.status]
        by_cases hs : g1.status = .ongoing
        · rw [if_pos hs, if_pos hs]
          cases findResult ms with
          | none => exact hr
          | some res =>
            simp only []
            by_cases e1 : res = "1-0".toList
            · rw [if_pos e1, if_pos e1]; exact act_sameBut K hr _
            · rw [if_neg e1, if_neg e1]
              by_cases h2 : res = "0-1".toList
              · rw [if_pos h2, if_pos h2]; exact act_sameBut K hr _
              · rw [if_neg h2, if_neg h2]
                by_cases h3 : res = "1/2-1/2".toList
                · rw [if_pos h3, if_pos h3]
                  have ha := act_sameBut K hr (.offerDraw .white)
                  cases hg2 : g1.act K (.offerDraw .white) with
                  | error e =>
                    cases hh2 : h1.act K (.offerDraw .white) with
                    | error e' => rw [hg2, hh2] at ha; exact ha
                    | ok h' => rw [hg2, hh2] at ha; exact ha.elim
                  | ok g2 =>
                    cases hh2 : h1.act K (.offerDraw .white) with
                    | error e' => rw [hg2, hh2] at ha; exact ha.elim
                    | ok h2 => rw [hg2, hh2] at ha; exact act_sameBut K ha _
                · rw [if_neg h3, if_neg h3]; exact hr
        · rw [if_neg hs, if_neg hs]; exact hr

/-! ## ASCII values -/
namespace PgnTags

/-- an ASCII character of the value class -/
def asciiVal (c : Char) : Bool :=
  decide (c.toNat < 128) &&
    (asciiS c || asciiW c || asciiD c || c == ':' || c == '/' || c == '.' || c == '?' || c == ',' || c == '-')

theorem asciiVal_val (U : UniClasses) (c : Char) (h : asciiVal c = true) : clsVal U c = true := by
  simp only [asciiVal, Bool.and_eq_true, decide_eq_true_eq] at h
  obtain ⟨hlt, h⟩ := h
  simp only [clsVal, clsS, clsW, clsD, hlt, if_true]
  exact h

theorem ValOK.of_ascii (U : UniClasses) {v : Str} (h : v.all asciiVal = true) : ValOK U v := fun c hc =>
  asciiVal_val U c (List.all_eq_true.1 h c hc)

theorem AsciiWord.of_all {k : Str} (hne : k ≠ []) (h : k.all asciiW = true) : AsciiWord k :=
  ⟨hne, fun c hc => List.all_eq_true.1 h c hc⟩

/-- the ASCII check of a list of entries -/
def entriesAscii (es : List (Str × Str)) : Bool := es.all fun kv => !kv.1.isEmpty && kv.1.all asciiW && kv.2.all asciiVal

theorem EntriesOK.of_ascii (U : UniClasses) {es : List (Str × Str)} (h : entriesAscii es = true) : EntriesOK U es := by
  intro kv hkv
  have := List.all_eq_true.1 h kv hkv
  simp only [Bool.and_eq_true, Bool.not_eq_true', List.isEmpty_eq_false_iff] at this
  exact ⟨(AsciiWord.of_all this.1.1 this.1.2).keyOK U, ValOK.of_ascii U this.2⟩

theorem default_entriesOK (U : UniClasses) (s : GStatus) : EntriesOK U (defaultTags ++ [(resultKey, resultTagOf s)]) := by
  apply EntriesOK.of_ascii
  have := C12.tag_values s
  simp only [List.mem_cons, List.not_mem_nil, or_false] at this
  rcases this with h | h | h | h <;> rw [h] <;> decide

end PgnTags

theorem asPgnWith_eq (md : Metadata) (g : Game) (h : Metadata.get md resultKey = some g.result) :
    Game.asPgnWith md g = tagsText md ++ '\n' :: g.movesText := by
  unfold Game.asPgnWith Game.movesText
  rw [h]
  simp [List.append_assoc]

/-- **the tags of an export.**  On the export of a game (consistent result tag; either side first) with a metadata map
whose printed entries are well-formed — keys non-empty over `[\w\d_]` without white space, values over the value class —
the matches of the metadata pattern over the WHOLE text are exactly the printed entries, in printed order: each line
gives its key and value, and the moves section, which holds no `[`, gives nothing. -/
theorem findTags_asPgnWith (U : UniClasses) (md : Metadata) (g : Game) (ht : C12.TagOK g)
    (hr : Metadata.get md resultKey = some g.result) (hok : EntriesOK U (printedEntries md)) :
    findTags U (Game.asPgnWith md g) = printedEntries md := by
  rw [asPgnWith_eq md g hr]
  unfold tagsText
  rw [findTags_lines U _ _ hok, findTags_cons_other U '\n' _ (by decide),
    findTags_no_bracket U _ (movesText_noBr g ht), List.append_nil]

/-- the default map: the seven pairs, in the order of the primary keys -/
theorem findTags_asPgn (U : UniClasses) (g : Game) (ht : C12.TagOK g) :
    findTags U g.asPgn = defaultTags ++ [(resultKey, g.result)] := by
  rw [← asPgnWith_default, findTags_asPgnWith U _ g ht (get_default_result _), printed_default]
  rw [printed_default, ht]
  exact default_entriesOK U _

/-- `findTags_tagsText`: a well-formed tag section followed by anything gives its entries first -/
theorem findTags_tagsText (U : UniClasses) (md : Metadata) (R : Str) (hok : EntriesOK U (printedEntries md)) :
    findTags U (tagsText md ++ R) = printedEntries md ++ findTags U R :=
  findTags_lines U _ R hok

theorem set_set_default (r r' : Str) :
    Metadata.set (Metadata.set Metadata.default resultKey r) resultKey r' = Metadata.set Metadata.default resultKey r' := by
  rw [set_default_result, set_default_result]; rfl

/-- if the unmodified run ends with the entry `x`, the run started with the entry `x` gives the same game -/
theorem ofPgnRegex_withResult_of_ok (x : Str) (start : Game) (pgn : Str) (g' : Game)
    (h0 : Game.ofPgnRegex K start pgn = .ok g') (hx : g'.result = x) :
    Game.ofPgnRegex K (start.withResult x) pgn = .ok g' := by
  have hs := ofPgnRegex_sameBut K x start pgn
  rw [h0] at hs
  cases hh : Game.ofPgnRegex K (start.withResult x) pgn with
  | error e => rw [hh] at hs; exact hs.elim
  | ok h =>
    rw [hh] at hs
    rcases hs with e | e
    · rw [e]
    · rw [e, ← hx]; rfl

/-- `ofPgnFull`, with the start game's new `Result` entry written as `withResult` -/
theorem ofPgnFull_eq (U : UniClasses) (start : Game) (pgn : Str) :
    Game.ofPgnFull U K start pgn =
      match Game.ofPgnRegex K (start.withResult ((Metadata.get
        (applyTags (Metadata.set Metadata.default resultKey start.result) (findTags U pgn)) resultKey).getD start.result)) pgn with
      | .error e => .error e
      | .ok g => .ok (g, Metadata.set (applyTags (Metadata.set Metadata.default resultKey start.result) (findTags U pgn))
          resultKey g.result) := rfl

/-- **C15 with the tag section (MAIN).**  Under the hypotheses of `C15_roundtrip_regex`, importing the export `g.asPgn`
with `Game.ofPgnFull` — tag map from all matches of the metadata pattern over the whole text, replay, `Result` handled as
`set_game_status` does — yields the very game `g'` of `C15_roundtrip_regex` (it `Agrees` with `g`) and the exported map:
`GameMetadata::default()` with `Result := g.result`.  This covers the case where the status never changes during the
import (no moves yet / open game / pending offer, `Result "?"`): there nothing overwrites the imported `Result`. -/
theorem C15_tags_roundtrip (U : UniClasses) (b0 : Board) (hv : b0.Valid K) (hw : b0.stm = .white) (g : Game)
    (hg : PlayedFrom K (ofBoard b0) g) (hpp : ∀ m ∈ g.history.moves, m.promotesToPawn = false) :
    ∃ g', Game.ofPgnRegex K (ofBoard b0) g.asPgn = .ok g' ∧ Agrees g' g ∧
      Game.ofPgnFull U K (ofBoard b0) g.asPgn = .ok (g', Metadata.set Metadata.default resultKey g.result) := by
  obtain ⟨g', h0, ha⟩ := C15_roundtrip_regex K b0 hv hw g hg hpp
  obtain ⟨_, ht, _⟩ := played_export_facts K b0 hv hw g hg hpp
  refine ⟨g', h0, ha, ?_⟩
  rw [ofPgnFull_eq, findTags_asPgn U g ht, applyTags_default, get_default_result, Option.getD_some,
    ofPgnRegex_withResult_of_ok K _ _ _ g' h0 ha.2.2.2.1]
  simp only []
  rw [set_set_default, ha.2.2.2.1]

namespace PgnTags

/-! ## the order of the map: byte-wise on UTF-8 -/

theorem toNat_lt (c : Char) : c.toNat < 0x110000 := by
  have := c.valid
  simp [UInt32.isValidChar, Nat.isValidChar] at this
  omega

theorem utf8_cases (c : Char) :
    (c.toNat < 0x80 ∧ utf8 c = [c.toNat]) ∨
    (0x80 ≤ c.toNat ∧ c.toNat < 0x800 ∧ utf8 c = [0xC0 + c.toNat / 64, 0x80 + c.toNat % 64]) ∨
    (0x800 ≤ c.toNat ∧ c.toNat < 0x10000 ∧
      utf8 c = [0xE0 + c.toNat / 4096, 0x80 + c.toNat / 64 % 64, 0x80 + c.toNat % 64]) ∨
    (0x10000 ≤ c.toNat ∧
      utf8 c = [0xF0 + c.toNat / 262144, 0x80 + c.toNat / 4096 % 64, 0x80 + c.toNat / 64 % 64, 0x80 + c.toNat % 64]) := by
  unfold utf8
  by_cases h1 : c.toNat < 0x80
  · exact Or.inl ⟨h1, by simp [h1]⟩
  · by_cases h2 : c.toNat < 0x800
    · exact Or.inr (Or.inl ⟨by omega, h2, by simp [h1, h2]⟩)
    · by_cases h3 : c.toNat < 0x10000
      · exact Or.inr (Or.inr (Or.inl ⟨by omega, h3, by simp [h1, h2, h3]⟩))
      · exact Or.inr (Or.inr (Or.inr ⟨by omega, by simp [h1, h2, h3]⟩))

theorem utf8_ne_nil (c : Char) : utf8 c ≠ [] := by
  rcases utf8_cases c with ⟨_, h⟩ | ⟨_, _, h⟩ | ⟨_, _, h⟩ | ⟨_, h⟩ <;> rw [h] <;> simp

/-- UTF-8 is a prefix code, and injective -/
theorem utf8_prefix (c d : Char) (X Y : List Nat) (h : utf8 c ++ X = utf8 d ++ Y) : c = d ∧ X = Y := by
  have hc := toNat_lt c
  have hd := toNat_lt d
  have key : c.toNat = d.toNat ∧ X = Y := by
    rcases utf8_cases c with ⟨c1, e1⟩ | ⟨c1, c2, e1⟩ | ⟨c1, c2, e1⟩ | ⟨c1, e1⟩ <;>
    rcases utf8_cases d with ⟨d1, e2⟩ | ⟨d1, d2, e2⟩ | ⟨d1, d2, e2⟩ | ⟨d1, e2⟩ <;>
      rw [e1, e2] at h <;>
      simp only [List.cons_append, List.nil_append, List.cons.injEq] at h <;> first
        | (exfalso; omega)
        | (refine ⟨by omega, ?_⟩; simp [h])
  exact ⟨Char.toNat_inj.1 key.1, key.2⟩

theorem keyBytes_inj (a b : Str) (h : keyBytes a = keyBytes b) : a = b := by
  induction a generalizing b with
  | nil =>
    cases b with
    | nil => rfl
    | cons d b =>
      exfalso
      have : keyBytes (d :: b) = utf8 d ++ keyBytes b := rfl
      rw [this] at h
      cases hu : utf8 d with
      | nil => exact utf8_ne_nil d hu
      | cons x xs => rw [hu] at h; cases h
  | cons c a ih =>
    cases b with
    | nil =>
      exfalso
      have : keyBytes (c :: a) = utf8 c ++ keyBytes a := rfl
      rw [this] at h
      cases hu : utf8 c with
      | nil => exact utf8_ne_nil c hu
      | cons x xs => rw [hu] at h; cases h
    | cons d b =>
      have e1 : keyBytes (c :: a) = utf8 c ++ keyBytes a := rfl
      have e2 : keyBytes (d :: b) = utf8 d ++ keyBytes b := rfl
      rw [e1, e2] at h
      obtain ⟨rfl, h'⟩ := utf8_prefix c d _ _ h
      rw [ih b h']

theorem bytesLt_irrefl (a : List Nat) : bytesLt a a = false := by
  induction a with
  | nil => rfl
  | cons x a ih => simp [bytesLt, ih]

theorem bytesLt_trans {a b c : List Nat} (h1 : bytesLt a b = true) (h2 : bytesLt b c = true) : bytesLt a c = true := by
  induction a generalizing b c with
  | nil =>
    cases b with
    | nil => simp [bytesLt] at h1
    | cons y b =>
      cases c with
      | nil => simp [bytesLt] at h2
      | cons z c => rfl
  | cons x a ih =>
    cases b with
    | nil => simp [bytesLt] at h1
    | cons y b =>
      cases c with
      | nil => simp [bytesLt] at h2
      | cons z c =>
        simp only [bytesLt, Bool.or_eq_true, decide_eq_true_eq, Bool.and_eq_true, beq_iff_eq] at h1 h2 ⊢
        rcases h1 with h1 | ⟨rfl, h1⟩ <;> rcases h2 with h2 | ⟨rfl, h2⟩
        · left; omega
        · left; exact h1
        · left; exact h2
        · right; exact ⟨rfl, ih h1 h2⟩

theorem bytesLt_total (a b : List Nat) : bytesLt a b = true ∨ a = b ∨ bytesLt b a = true := by
  induction a generalizing b with
  | nil =>
    cases b with
    | nil => exact Or.inr (Or.inl rfl)
    | cons y b => exact Or.inl rfl
  | cons x a ih =>
    cases b with
    | nil => exact Or.inr (Or.inr rfl)
    | cons y b =>
      simp only [bytesLt, Bool.or_eq_true, decide_eq_true_eq, Bool.and_eq_true, beq_iff_eq, List.cons.injEq]
      rcases Nat.lt_trichotomy x y with h | rfl | h
      · exact Or.inl (Or.inl h)
      · rcases ih b with h | rfl | h
        · exact Or.inl (Or.inr ⟨rfl, h⟩)
        · exact Or.inr (Or.inl ⟨rfl, rfl⟩)
        · exact Or.inr (Or.inr (Or.inr ⟨rfl, h⟩))
      · exact Or.inr (Or.inr (Or.inl h))

theorem keyLt_irrefl (a : Str) : keyLt a a = false := bytesLt_irrefl _
theorem keyLt_trans {a b c : Str} (h1 : keyLt a b = true) (h2 : keyLt b c = true) : keyLt a c = true := bytesLt_trans h1 h2
theorem keyLt_asymm {a b : Str} (h1 : keyLt a b = true) (h2 : keyLt b a = true) : False := by
  have := keyLt_trans h1 h2; rw [keyLt_irrefl] at this; cases this
/-- the order of `String` is total: `cmp` answers `Equal` only for equal strings -/
theorem keyLt_total (a b : Str) : keyLt a b = true ∨ a = b ∨ keyLt b a = true := by
  rcases bytesLt_total (keyBytes a) (keyBytes b) with h | h | h
  · exact Or.inl h
  · exact Or.inr (Or.inl (keyBytes_inj a b h))
  · exact Or.inr (Or.inr h)


/-! ## the map -/

/-- keys strictly increasing: the representation invariant of the association list -/
def Sorted (md : Metadata) : Prop := md.Pairwise fun a b => keyLt a.1 b.1 = true

/-- all seven primary keys are present (`as_pgn` unwraps their lookups) -/
def HasPrimary (md : Metadata) : Prop := ∀ k ∈ primaryKeys, ∃ v, Metadata.get md k = some v

theorem get_set_same (md : Metadata) (k v : Str) : Metadata.get (Metadata.set md k v) k = some v := by
  induction md with
  | nil => simp [Metadata.set, Metadata.get]
  | cons e md ih =>
    obtain ⟨k', v'⟩ := e
    unfold Metadata.set
    by_cases h1 : k = k'
    · rw [if_pos h1]; simp [Metadata.get]
    · rw [if_neg h1]
      by_cases h2 : keyLt k k' = true
      · rw [if_pos h2]; simp [Metadata.get]
      · rw [if_neg h2, Metadata.get, if_neg h1]; exact ih

theorem get_set_other (md : Metadata) (k v k₁ : Str) (h : k₁ ≠ k) :
    Metadata.get (Metadata.set md k v) k₁ = Metadata.get md k₁ := by
  induction md with
  | nil => simp [Metadata.set, Metadata.get, h]
  | cons e md ih =>
    obtain ⟨k', v'⟩ := e
    unfold Metadata.set
    by_cases h1 : k = k'
    · subst h1; rw [if_pos rfl]; simp [Metadata.get, h]
    · rw [if_neg h1]
      by_cases h2 : keyLt k k' = true
      · rw [if_pos h2]; simp [Metadata.get, h]
      · rw [if_neg h2, Metadata.get, Metadata.get, ih]

theorem mem_set {md : Metadata} {k v : Str} {e : Str × Str} (h : e ∈ Metadata.set md k v) : e = (k, v) ∨ e ∈ md := by
  induction md with
  | nil => simp [Metadata.set] at h; exact Or.inl h
  | cons e' md ih =>
    obtain ⟨k', v'⟩ := e'
    unfold Metadata.set at h
    by_cases h1 : k = k'
    · rw [if_pos h1] at h
      rcases List.mem_cons.1 h with h | h
      · exact Or.inl h
      · exact Or.inr (by simp [h])
    · rw [if_neg h1] at h
      by_cases h2 : keyLt k k' = true
      · rw [if_pos h2] at h
        rcases List.mem_cons.1 h with h | h
        · exact Or.inl h
        · exact Or.inr h
      · rw [if_neg h2] at h
        rcases List.mem_cons.1 h with h | h
        · exact Or.inr (by simp [h])
        · rcases ih h with h | h
          · exact Or.inl h
          · exact Or.inr (by simp [h])

/-- `insert` keeps the keys strictly increasing -/
theorem Sorted.set {md : Metadata} (hs : Sorted md) (k v : Str) : Sorted (Metadata.set md k v) := by
  induction md with
  | nil => simp [Metadata.set, Sorted]
  | cons e md ih =>
    obtain ⟨k', v'⟩ := e
    unfold Sorted at hs
    rw [List.pairwise_cons] at hs
    obtain ⟨hh, ht⟩ := hs
    unfold Metadata.set
    by_cases h1 : k = k'
    · subst h1; rw [if_pos rfl]
      unfold Sorted; rw [List.pairwise_cons]; exact ⟨hh, ht⟩
    · rw [if_neg h1]
      by_cases h2 : keyLt k k' = true
      · rw [if_pos h2]
        unfold Sorted
        rw [List.pairwise_cons, List.pairwise_cons]
        refine ⟨?_, hh, ht⟩
        intro e he
        rcases List.mem_cons.1 he with rfl | he
        · exact h2
        · exact keyLt_trans h2 (hh e he)
      · rw [if_neg h2]
        unfold Sorted
        rw [List.pairwise_cons]
        refine ⟨?_, ih ht⟩
        intro e he
        rcases mem_set he with rfl | he
        · rcases keyLt_total k k' with h | h | h
          · exact absurd h h2
          · exact absurd h h1
          · exact h
        · exact hh e he

theorem Sorted.applyTags {md : Metadata} (hs : Sorted md) (tags : List (Str × Str)) : Sorted (applyTags md tags) := by
  induction tags generalizing md with
  | nil => exact hs
  | cons e tags ih => exact ih (hs.set e.1 e.2)

theorem default_sorted : Sorted Metadata.default := Sorted.applyTags (md := []) List.Pairwise.nil _

theorem get_some_mem {md : Metadata} {k v : Str} (h : Metadata.get md k = some v) : (k, v) ∈ md := by
  induction md with
  | nil => cases h
  | cons e md ih =>
    obtain ⟨k', v'⟩ := e
    rw [Metadata.get] at h
    by_cases h1 : k = k'
    · rw [if_pos h1] at h; cases h; simp [h1]
    · rw [if_neg h1] at h; exact List.mem_cons_of_mem _ (ih h)

theorem get_none_iff {md : Metadata} {k : Str} : Metadata.get md k = none ↔ ∀ v, (k, v) ∉ md := by
  induction md with
  | nil => simp [Metadata.get]
  | cons e md ih =>
    obtain ⟨k', v'⟩ := e
    rw [Metadata.get]
    by_cases h1 : k = k'
    · subst h1; rw [if_pos rfl]
      constructor
      · intro h; cases h
      · intro h; exact absurd (List.mem_cons_self) (h v')
    · rw [if_neg h1, ih]
      constructor
      · intro h v hm
        rcases List.mem_cons.1 hm with hm | hm
        · cases hm; exact h1 rfl
        · exact h v hm
      · intro h v hm; exact h v (List.mem_cons_of_mem _ hm)

/-- in a sorted map every entry is found by its key -/
theorem Sorted.get_of_mem {md : Metadata} (hs : Sorted md) {k v : Str} (h : (k, v) ∈ md) : Metadata.get md k = some v := by
  induction md with
  | nil => cases h
  | cons e md ih =>
    obtain ⟨k', v'⟩ := e
    unfold Sorted at hs
    rw [List.pairwise_cons] at hs
    rw [Metadata.get]
    rcases List.mem_cons.1 h with h | h
    · cases h; rw [if_pos rfl]
    · have hlt := hs.1 _ h
      have hne : k ≠ k' := by
        rintro rfl
        rw [keyLt_irrefl] at hlt; cases hlt
      rw [if_neg hne]; exact ih hs.2 h

/-- **extensionality**: sorted maps with the same lookups are the same list -/
theorem Sorted.ext {m₁ m₂ : Metadata} (h₁ : Sorted m₁) (h₂ : Sorted m₂)
    (h : ∀ k, Metadata.get m₁ k = Metadata.get m₂ k) : m₁ = m₂ := by
  induction m₁ generalizing m₂ with
  | nil =>
    cases m₂ with
    | nil => rfl
    | cons e m₂ =>
      have := h e.1
      rw [h₂.get_of_mem (k := e.1) (v := e.2) (by simp)] at this
      cases this
  | cons e₁ m₁ ih =>
    cases m₂ with
    | nil =>
      have := h e₁.1
      rw [h₁.get_of_mem (k := e₁.1) (v := e₁.2) (by simp)] at this
      cases this
    | cons e₂ m₂ =>
      obtain ⟨k₁, v₁⟩ := e₁
      obtain ⟨k₂, v₂⟩ := e₂
      have p₁ := h₁; have p₂ := h₂
      unfold Sorted at p₁ p₂
      rw [List.pairwise_cons] at p₁ p₂
      have a₁ : (k₁, v₁) ∈ (k₂, v₂) :: m₂ := by
        apply get_some_mem; rw [← h k₁]; exact h₁.get_of_mem (by simp)
      have a₂ : (k₂, v₂) ∈ (k₁, v₁) :: m₁ := by
        apply get_some_mem; rw [h k₂]; exact h₂.get_of_mem (by simp)
      have hk : k₁ = k₂ ∧ v₁ = v₂ := by
        rcases List.mem_cons.1 a₁ with e | e
        · cases e; exact ⟨rfl, rfl⟩
        · rcases List.mem_cons.1 a₂ with e' | e'
          · cases e'; exact ⟨rfl, rfl⟩
          · exact (keyLt_asymm (p₂.1 _ e) (p₁.1 _ e')).elim
      obtain ⟨rfl, rfl⟩ := hk
      congr 1
      refine ih p₁.2 p₂.2 ?_
      intro k
      have := h k
      rw [Metadata.get, Metadata.get] at this
      by_cases hk : k = k₁
      · subst hk
        have n₁ : Metadata.get m₁ k = none := get_none_iff.2 fun v hm => by
          have := p₁.1 _ hm; rw [keyLt_irrefl] at this; cases this
        have n₂ : Metadata.get m₂ k = none := get_none_iff.2 fun v hm => by
          have := p₂.1 _ hm; rw [keyLt_irrefl] at this; cases this
        rw [n₁, n₂]
      · rwa [if_neg hk, if_neg hk] at this

/-! ### a sequence of `set_value`s -/

theorem applyTags_cons (md : Metadata) (e : Str × Str) (tags : List (Str × Str)) :
    applyTags md (e :: tags) = applyTags (Metadata.set md e.1 e.2) tags := rfl

/-- a key no tag mentions keeps its entry -/
theorem get_applyTags_other (md : Metadata) (tags : List (Str × Str)) (k : Str) (h : ∀ v, (k, v) ∉ tags) :
    Metadata.get (applyTags md tags) k = Metadata.get md k := by
  induction tags generalizing md with
  | nil => rfl
  | cons e tags ih =>
    rw [applyTags_cons, ih _ (fun v hm => h v (List.mem_cons_of_mem _ hm))]
    refine get_set_other md e.1 e.2 k ?_
    intro hk; exact h e.2 (by rw [hk]; simp)

/-- later matches overwrite earlier ones; when all tags with this key carry the same value, that value is the entry -/
theorem get_applyTags_mem (md : Metadata) (tags : List (Str × Str)) (k v : Str) (hm : (k, v) ∈ tags)
    (hf : ∀ v', (k, v') ∈ tags → v' = v) : Metadata.get (applyTags md tags) k = some v := by
  induction tags generalizing md with
  | nil => cases hm
  | cons e tags ih =>
    rw [applyTags_cons]
    by_cases hin : ∃ v', (k, v') ∈ tags
    · obtain ⟨v', hv'⟩ := hin
      have : v' = v := hf v' (List.mem_cons_of_mem _ hv')
      subst this
      exact ih _ hv' (fun v'' h'' => hf v'' (List.mem_cons_of_mem _ h''))
    · have hnot : ∀ v', (k, v') ∉ tags := fun v' h' => hin ⟨v', h'⟩
      rw [get_applyTags_other _ tags k hnot]
      rcases List.mem_cons.1 hm with h | h
      · rw [← h]; exact get_set_same md k v
      · exact absurd h (hnot v)

end PgnTags

/-! ## the printed entries of a map -/
namespace PgnTags

theorem mem_of_mem_printed {md : Metadata} {e : Str × Str} (h : e ∈ printedEntries md) : e ∈ md := by
  unfold printedEntries at h
  rcases List.mem_append.1 h with h | h
  · obtain ⟨k, _, hk⟩ := List.mem_filterMap.1 h
    cases hg : Metadata.get md k with
    | none => rw [hg] at hk; cases hk
    | some v => rw [hg] at hk; cases hk; exact get_some_mem hg
  · exact (List.mem_filter.1 h).1

theorem mem_printed_of_mem {md : Metadata} (hs : Sorted md) {k v : Str} (h : (k, v) ∈ md) : (k, v) ∈ printedEntries md := by
  unfold printedEntries
  by_cases hp : k ∈ primaryKeys
  · refine List.mem_append.2 (Or.inl (List.mem_filterMap.2 ⟨k, hp, ?_⟩))
    rw [hs.get_of_mem h]; rfl
  · refine List.mem_append.2 (Or.inr (List.mem_filter.2 ⟨h, ?_⟩))
    simpa using hp

theorem EntriesOK.printed {U : UniClasses} {md : Metadata} (h : EntriesOK U md) : EntriesOK U (printedEntries md) :=
  fun kv hkv => h kv (mem_of_mem_printed hkv)

/-- `findTags_lines` in the form asked for: keys non-empty ASCII words over `[0-9A-Za-z_]`, values over the value class
(hence without `"`); a well-formed tag section followed by anything gives its entries first, in printed order — for
every instantiation of the non-ASCII classes -/
theorem findTags_tagsText_ascii (U : UniClasses) (md : Metadata) (R : Str)
    (hk : ∀ kv ∈ md, AsciiWord kv.1) (hv : ∀ kv ∈ md, ValOK U kv.2) :
    findTags U (tagsText md ++ R) = printedEntries md ++ findTags U R :=
  findTags_lines U _ R fun kv hkv =>
    ⟨(hk kv (mem_of_mem_printed hkv)).keyOK U, hv kv (mem_of_mem_printed hkv)⟩

theorem get_default_none (k : Str) (h : k ∉ primaryKeys) : Metadata.get Metadata.default k = none := by
  rw [default_eq]
  have hB : k ≠ "Black".toList := fun e => h (by rw [e]; decide)
  have hD : k ≠ "Date".toList := fun e => h (by rw [e]; decide)
  have hE : k ≠ "Event".toList := fun e => h (by rw [e]; decide)
  have hRe : k ≠ "Result".toList := fun e => h (by rw [e]; decide)
  have hRo : k ≠ "Round".toList := fun e => h (by rw [e]; decide)
  have hS : k ≠ "Site".toList := fun e => h (by rw [e]; decide)
  have hW : k ≠ "White".toList := fun e => h (by rw [e]; decide)
  rw [Metadata.get, if_neg hB, Metadata.get, if_neg hD, Metadata.get, if_neg hE, Metadata.get, if_neg hRe,
    Metadata.get, if_neg hRo, Metadata.get, if_neg hS, Metadata.get, if_neg hW]
  rfl

theorem resultKey_primary : resultKey ∈ primaryKeys := by decide

theorem HasPrimary.set {md : Metadata} (h : HasPrimary md) (k v : Str) : HasPrimary (Metadata.set md k v) := by
  intro k' hk'
  by_cases e : k' = k
  · subst e; exact ⟨v, get_set_same md k' v⟩
  · rw [get_set_other md k v k' e]; exact h k' hk'

theorem HasPrimary.applyTags {md : Metadata} (h : HasPrimary md) (tags : List (Str × Str)) : HasPrimary (applyTags md tags) := by
  induction tags generalizing md with
  | nil => exact h
  | cons e tags ih => exact ih (h.set e.1 e.2)

theorem default_hasPrimary : HasPrimary Metadata.default := by
  have h : ∀ k ∈ primaryKeys, (Metadata.get Metadata.default k).isSome = true := by decide
  intro k hk
  exact Option.isSome_iff_exists.1 (h k hk)

/-- **the tag phase gives the exported map back**: starting from `GameMetadata::default()` (whatever its `Result`),
setting every printed entry of a map that is sorted and has the primary keys yields that map -/
theorem applyTags_printed {md : Metadata} (hs : Sorted md) (hp : HasPrimary md) (x : Str) :
    applyTags (Metadata.set Metadata.default resultKey x) (printedEntries md) = md := by
  refine Sorted.ext ((default_sorted.set _ _).applyTags _) hs ?_
  intro k
  cases hg : Metadata.get md k with
  | some v =>
    refine get_applyTags_mem _ _ k v (mem_printed_of_mem hs (get_some_mem hg)) ?_
    intro v' hv'
    have := hs.get_of_mem (mem_of_mem_printed hv')
    rw [hg] at this; cases this; rfl
  | none =>
    have hnot : ∀ v, (k, v) ∉ printedEntries md := fun v hm => get_none_iff.1 hg v (mem_of_mem_printed hm)
    rw [get_applyTags_other _ _ k hnot]
    have hnp : k ∉ primaryKeys := by
      intro hk; obtain ⟨v, hv⟩ := hp k hk; rw [hg] at hv; cases hv
    rw [get_set_other _ _ _ _ (fun e => hnp (by rw [e]; exact resultKey_primary)), get_default_none k hnp]

end PgnTags

/-! ## a map with extra tags -/
namespace PgnTags

/-- writing the value a key already has changes nothing -/
theorem set_get_self {md : Metadata} (hs : Sorted md) {k v : Str} (h : Metadata.get md k = some v) :
    Metadata.set md k v = md := by
  refine Sorted.ext (hs.set k v) hs ?_
  intro k'
  by_cases e : k' = k
  · subst e; rw [get_set_same, h]
  · exact get_set_other md k v k' e

/-- `[Key "Value"]` without its line feed -/
def tagBody (k v : Str) : Str := '[' :: k ++ ' ' :: '"' :: v ++ ['"', ']']

theorem tagLine_body (k v : Str) : tagLine k v = tagBody k v ++ ['\n'] := by simp [tagLine, tagBody]

theorem KeyOK.plain {U : UniClasses} {k : Str} (h : KeyOK U k) : Plain k := by
  intro c hc
  have := (h.2 c hc).2
  have h1 : clsS U '\n' = true := rfl
  have h2 : clsS U '\r' = true := rfl
  refine ⟨?_, ?_⟩
  · intro e; rw [e, h1] at this; cases this
  · intro e; rw [e, h2] at this; cases this

theorem tagBody_plain {k v : Str} (hk : Plain k) (hv : Plain v) : Plain (tagBody k v) := by
  have e : tagBody k v = ['['] ++ (k ++ ([' ', '"'] ++ (v ++ ['"', ']']))) := by simp [tagBody]
  rw [e]
  exact Plain.append (by unfold Plain; decide) (Plain.append hk (Plain.append (by unfold Plain; decide)
    (Plain.append hv (by unfold Plain; decide))))

/-- tag lines whose keys and values hold no line break: all but the final line feed is calm, and starts with `[` -/
theorem lines_calm (es : List (Str × Str)) (hne : es ≠ []) (h : ∀ kv ∈ es, Plain kv.1 ∧ Plain kv.2) :
    ∃ X t, (es.flatMap fun kv => tagLine kv.1 kv.2) = X ++ ['\n'] ∧ calmEnd X = true ∧ X = '[' :: t := by
  induction es with
  | nil => exact absurd rfl hne
  | cons e es ih =>
    have hb : Plain (tagBody e.1 e.2) := tagBody_plain (h e (by simp)).1 (h e (by simp)).2
    by_cases hes : es = []
    · subst hes
      refine ⟨tagBody e.1 e.2, _, ?_, calmEnd_plain _ hb, rfl⟩
      simp [tagLine_body]
    · obtain ⟨X, t, e1, e2, rfl⟩ := ih hes (fun kv hkv => h kv (by simp [hkv]))
      refine ⟨tagBody e.1 e.2 ++ '\n' :: '[' :: t, _, ?_, ?_, rfl⟩
      · rw [List.flatMap_cons, e1, tagLine_body]; simp
      · exact calmEnd_append_nl _ _ hb (by simp [tagBody]) e2 ⟨_, _, rfl, by decide⟩

theorem HasPrimary.printed_ne_nil {md : Metadata} (hp : HasPrimary md) : printedEntries md ≠ [] := by
  obtain ⟨v, hv⟩ := hp "Event".toList (by decide)
  intro h
  have : ("Event".toList, v) ∈ printedEntries md := by
    unfold printedEntries primaryKeys
    rw [List.filterMap_cons_some (b := ("Event".toList, v)) (by rw [hv]; rfl)]
    simp
  rw [h] at this; cases this

end PgnTags

/-- the section split of an export with extra tags (no line break inside a value): tag block, moves section -/
theorem regexMovesSection_asPgnWith (U : UniClasses) (md : Metadata) (g : Game) (ht : C12.TagOK g)
    (hr : Metadata.get md resultKey = some g.result) (hp : HasPrimary md) (hok : EntriesOK U md)
    (hpl : ∀ kv ∈ md, Plain kv.2) :
    regexMovesSection (Game.asPgnWith md g) = some g.movesText := by
  obtain ⟨X, t, e1, e2, _⟩ := lines_calm (printedEntries md) hp.printed_ne_nil
    (fun kv hkv => ⟨(hok kv (mem_of_mem_printed hkv)).1.plain, hpl kv (mem_of_mem_printed hkv)⟩)
  obtain ⟨hM, hne⟩ := movesText_calm g ht
  have hs : Game.asPgnWith md g = X ++ '\n' :: '\n' :: g.movesText := by
    rw [asPgnWith_eq md g hr]; unfold tagsText; rw [e1]; simp
  unfold regexMovesSection splitSections
  rw [hs, splitFrom_tags_moves _ _ _ e2 hM hne]
  rfl

theorem ofPgnRegex_section (start : Game) (p q : Str) (h : regexMovesSection p = regexMovesSection q) :
    Game.ofPgnRegex K start p = Game.ofPgnRegex K start q := by
  unfold Game.ofPgnRegex; rw [h]

/-- **C15 with extra tags.**  The game as in `C15_roundtrip_regex`; its metadata map `md` any map that
* is a map a `Game` can have — keys strictly increasing (`Sorted`), the seven primary keys present, `Result` = `g.result` —
* and whose entries the import pattern can read back: keys non-empty over `[\w\d_]` without white space, values over
  `[\s\w\d:/\.\?,-]` (`EntriesOK`), values without line breaks (a blank line inside a value would be taken for the
  section separator, see the example below).
Then importing the export `asPgnWith md g` yields the game of `C15_roundtrip_regex` and the map `md` itself. -/
theorem C15_tags_custom (U : UniClasses) (b0 : Board) (hv : b0.Valid K) (hw : b0.stm = .white) (g : Game)
    (hg : PlayedFrom K (ofBoard b0) g) (hpp : ∀ m ∈ g.history.moves, m.promotesToPawn = false)
    (md : Metadata) (hs : Sorted md) (hp : HasPrimary md) (hr : Metadata.get md resultKey = some g.result)
    (hok : EntriesOK U md) (hpl : ∀ kv ∈ md, Plain kv.2) :
    ∃ g', Game.ofPgnRegex K (ofBoard b0) g.asPgn = .ok g' ∧ Agrees g' g ∧
      Game.ofPgnFull U K (ofBoard b0) (Game.asPgnWith md g) = .ok (g', md) := by
  obtain ⟨g', h0, ha⟩ := C15_roundtrip_regex K b0 hv hw g hg hpp
  obtain ⟨_, ht, _⟩ := played_export_facts K b0 hv hw g hg hpp
  refine ⟨g', h0, ha, ?_⟩
  have hsec : Game.ofPgnRegex K (ofBoard b0) (Game.asPgnWith md g) = .ok g' := by
    rw [ofPgnRegex_section K _ _ g.asPgn
      ((regexMovesSection_asPgnWith U md g ht hr hp hok hpl).trans (regexMovesSection_asPgn g ht).symm)]
    exact h0
  rw [ofPgnFull_eq, findTags_asPgnWith U md g ht hr hok.printed, applyTags_printed hs hp, hr, Option.getD_some,
    ofPgnRegex_withResult_of_ok K _ _ _ g' hsec ha.2.2.2.1]
  simp only []
  rw [ha.2.2.2.1, set_get_self hs hr]


/-! ## every reported pair comes from a match; what `from_pgn` returns -/
namespace PgnTags

theorem mem_findTagsFrom {U : UniClasses} {s : Str} {n : Nat} {e : Str × Str} (h : e ∈ findTagsFrom U n s) :
    ∃ s' rest, matchTagAt U s' = some (e.1, e.2, rest) := by
  induction s generalizing n with
  | nil => rw [findTagsFrom_nil] at h; cases h
  | cons c cs ih =>
    cases n with
    | succ n => exact ih h
    | zero =>
      rw [findTagsFrom_zero] at h
      cases hm : matchTagAt U (c :: cs) with
      | none => rw [hm] at h; exact ih h
      | some r =>
        obtain ⟨k, v, rest⟩ := r
        rw [hm] at h
        rcases List.mem_cons.1 h with rfl | h
        · exact ⟨_, _, hm⟩
        · exact ih h

/-- **no panic, and the shape of what is stored**: every pair `(cap[1], cap[2])` handed to `set_value` consists of two
participating groups; the key is white space followed by a non-empty word over `[\w\d_]` — never empty, possibly with
leading white space — and the value is over the value class, so it contains no `"` -/
theorem mem_findTags {U : UniClasses} {s : Str} {e : Str × Str} (h : e ∈ findTags U s) :
    (∃ sp w, e.1 = sp ++ w ∧ w ≠ [] ∧ (∀ c ∈ sp, clsS U c = true) ∧ ∀ c ∈ w, clsKey U c = true) ∧
      (∀ c ∈ e.2, clsVal U c = true) ∧ '"' ∉ e.2 := by
  obtain ⟨s', rest, hm⟩ := mem_findTagsFrom h
  obtain ⟨sp, w, _, _, e1, e2, e3, e4, _, _, e5, _, _⟩ := matchTagAt_shape U s' _ _ rest hm
  exact ⟨⟨sp, w, e1, e2, e3, e4⟩, e5, ValOK.no_quote e5⟩

end PgnTags

/-- **what `from_pgn` returns.**  Whenever the import succeeds, (1) the game is the one the replay alone yields, up to the
`Result` entry, which is the replay's own (some status change wrote it) or else the one the tags left; (2) the map is
sorted, has the seven primary keys — so `as_pgn` of an imported game cannot panic on its `unwrap`s — and its `Result`
entry is the game's `result` field. -/
theorem ofPgnFull_spec (U : UniClasses) (start : Game) (pgn : Str) (g' : Game) (md' : Metadata)
    (h : Game.ofPgnFull U K start pgn = .ok (g', md')) :
    (∃ g₀ x, Game.ofPgnRegex K start pgn = .ok g₀ ∧ SameBut x g₀ g') ∧
      Sorted md' ∧ HasPrimary md' ∧ Metadata.get md' resultKey = some g'.result := by
  rw [ofPgnFull_eq] at h
  generalize hx : (Metadata.get (applyTags (Metadata.set Metadata.default resultKey start.result) (findTags U pgn))
    resultKey).getD start.result = x at h
  have hs := ofPgnRegex_sameBut K x start pgn
  cases hh : Game.ofPgnRegex K (start.withResult x) pgn with
  | error e => rw [hh] at h; cases h
  | ok g1 =>
    rw [hh] at h hs
    simp only [Except.ok.injEq, Prod.mk.injEq] at h
    obtain ⟨rfl, rfl⟩ := h
    refine ⟨?_, ((default_sorted.set _ _).applyTags _).set _ _, ((default_hasPrimary.set _ _).applyTags _).set _ _,
      get_set_same _ _ _⟩
    cases h0 : Game.ofPgnRegex K start pgn with
    | error e => rw [h0] at hs; exact hs.elim
    | ok g₀ => rw [h0] at hs; exact ⟨g₀, x, rfl, hs⟩

/-- the imported `Result` tag is the exported one — also when no status change happens during the import (no moves yet,
open game, pending offer: `Result "?"`) -/
theorem C15_tags_result (U : UniClasses) (b0 : Board) (hv : b0.Valid K) (hw : b0.stm = .white) (g : Game)
    (hg : PlayedFrom K (ofBoard b0) g) (hpp : ∀ m ∈ g.history.moves, m.promotesToPawn = false) :
    ∃ g' md', Game.ofPgnFull U K (ofBoard b0) g.asPgn = .ok (g', md') ∧ Agrees g' g ∧
      Metadata.get md' resultKey = some g.result ∧ printedEntries md' = defaultTags ++ [(resultKey, g.result)] := by
  obtain ⟨g', _, ha, h⟩ := C15_tags_roundtrip K U b0 hv hw g hg hpp
  exact ⟨g', _, h, ha, get_default_result _, printed_default _⟩

/-- export ∘ import ∘ export = export: the imported game with the imported map prints the same text -/
theorem C15_tags_reexport (U : UniClasses) (b0 : Board) (hv : b0.Valid K) (hw : b0.stm = .white) (g : Game)
    (hg : PlayedFrom K (ofBoard b0) g) (hpp : ∀ m ∈ g.history.moves, m.promotesToPawn = false) :
    ∃ g' md', Game.ofPgnFull U K (ofBoard b0) g.asPgn = .ok (g', md') ∧ Game.asPgnWith md' g' = g.asPgn := by
  obtain ⟨g', _, ha, h⟩ := C15_tags_roundtrip K U b0 hv hw g hg hpp
  refine ⟨g', _, h, ?_⟩
  rw [← asPgnWith_default g]
  unfold Game.asPgnWith
  rw [ha.2.1]

/-! ## non-vacuity -/

/-- the export of a game with no moves yet -/
def initialExport : Str :=
  "[Event \"?\"]\n[Site \"?\"]\n[Date \"?\"]\n[Round \"?\"]\n[White \"Player 1\"]\n[Black \"Player 2\"]\n[Result \"?\"]\n\n ?".toList

/-- it is the tag section of the default map, an empty line, and the moves section `" ?"` of a game with no moves -/
example : tagsText Metadata.default ++ "\n ?".toList = initialExport := by decide +kernel

/-- the seven default pairs, in printed order — for every instantiation of the non-ASCII classes (by evaluation) -/
example (U : UniClasses) : findTags U initialExport =
    [("Event".toList, "?".toList), ("Site".toList, "?".toList), ("Date".toList, "?".toList), ("Round".toList, "?".toList),
     ("White".toList, "Player 1".toList), ("Black".toList, "Player 2".toList), ("Result".toList, "?".toList)] := rfl

example : findTags .none initialExport = printedEntries Metadata.default := by decide +kernel

/-- the tag phase on it gives `GameMetadata::default()` back -/
example : applyTags Metadata.default (findTags .none initialExport) = Metadata.default := by decide +kernel

/-- a finished game with an extra tag: map order (`Annotator` < `Black` < …) differs from printed order (primary keys
first); the tags of the export are the printed entries -/
example : findTags .none ("[Event \"?\"]\n[Site \"?\"]\n[Date \"?\"]\n[Round \"?\"]\n[White \"Player 1\"]\n[Black \"Player 2\"]\n" ++
      "[Result \"1-0\"]\n[Annotator \"N. N., 2024-01-31\"]\n\n1.e4 e5 2.Qh5 Ke7 3.Qxe5# 1-0").toList =
    printedEntries (Metadata.set (Metadata.set Metadata.default resultKey "1-0".toList)
      "Annotator".toList "N. N., 2024-01-31".toList) := by decide +kernel

/-- the hypotheses of `C15_tags_custom` on the map are satisfiable with an extra tag -/
example : let md := Metadata.set Metadata.default "Annotator".toList "N. N., 2024-01-31".toList
    Sorted md ∧ HasPrimary md ∧ EntriesOK .none md ∧ (∀ kv ∈ md, Plain kv.2) ∧ md.length = 8 := by
  refine ⟨default_sorted.set _ _, default_hasPrimary.set _ _, EntriesOK.of_ascii _ (by decide +kernel), ?_, by decide +kernel⟩
  unfold Plain; decide +kernel

/-! ### behaviour outside the exported shape (evaluations of the model) -/

/-- group 1 INCLUDES the white space before the key: `[ Event "x"]` sets the key `" Event"`, not `Event`; white space
(line breaks too) is allowed around key and value; `[b"x"]` (no space), a value with `"`, an empty key do not match -/
example : findTags .none "[ Event \"x\"] [  \n Key   \"a\nb\"  \n] [a \"\"] [b\"x\"] [c \"\"\"] [ \"x\"] [d  \"1-0\" ]".toList =
    [(" Event".toList, "x".toList), ("  \n Key".toList, "a\nb".toList), ("a".toList, []), ("d".toList, "1-0".toList)] := by
  decide +kernel

/-- tags are searched in the WHOLE text: one in the moves section overwrites the header's (later matches win) -/
example : applyTags Metadata.default (findTags .none "[Result \"1-0\"]\n\n1.e4 [Result \"0-1\"] e5".toList) =
    Metadata.set Metadata.default resultKey "0-1".toList := by decide +kernel

/-- the value class has no `*`, `'`, `(`, `+`, `#`, …: the standard `[Result "*"]` and `[Opening "Queen's Gambit"]` are
silently skipped -/
example : findTags .none "[Result \"*\"]\n[Opening \"Queen's Gambit\"]\n[Date \"1992.11.04\"]\n".toList =
    [("Date".toList, "1992.11.04".toList)] := by decide +kernel

/-- the non-ASCII part of the classes is the parameter: with `é` in `\w` the key `Événement`… here `clé` is read -/
example : findTags ⟨fun c => c == 'é', fun _ => false, fun _ => false⟩ "[clé \"x\"]".toList = [("clé".toList, "x".toList)] := by
  decide +kernel
example : findTags .none "[clé \"x\"]".toList = [] := by decide +kernel

/-- a value may contain line breaks (`\s` is in the value class); a blank line inside one is taken for the section
separator by the `(\r?\n){2,}` split, and the "moves section" is then the rest of the tag: the hypothesis
`Plain kv.2` of `C15_tags_custom` is needed -/
example : regexMovesSection "[A \"x\n\ny\"]\n\n1.e4 ?".toList = some "y\"]".toList := by decide +kernel

end Chess
