import Chess.Model.Text
import Chess.Lemmas.Split
import Chess.Props.C16
/-! # C10 — totality of the text functions

The model's text functions return `Except`, so they cannot panic by construction.  What remains to be said is
(a) every accepted coordinate-move text re-prints to a canonical text that parses back to the same move,
(b) the branch marked "unreachable" in `parseSquare` (Rust: `chars[1]` would panic) is unreachable,
(c) the counters of an accepted FEN fit `usize`. -/
namespace Chess.C10
open Chess

/-! ## (a) canonical re-print -/

/-- `PieceMove::new` rejects a promotion to pawn, so the parser never returns one -/
theorem parsePieceMove_promo_ne_pawn (s : Str) (m : Move) (h : parsePieceMove s = .ok m) :
    ∀ pt a d, m ≠ .piece pt a d (some .pawn) := by
  intro pt a d hm
  subst hm
  unfold parsePieceMove at h
  simp only [] at h
  split at h
  · cases h
  split at h
  · cases h
  split at h
  · split at h
    · split at h
      · cases h
      · split at h
        · cases h
        · rename_i promo hp hne
          injection h with h
          injection h with _ _ _ h4
          subst h4
          exact hne rfl
    · cases h
  · cases h

theorem parseMove_promo_ne_pawn (s : Str) (m : Move) (h : parseMove s = .ok m) :
    ∀ pt a d, m ≠ .piece pt a d (some .pawn) := by
  unfold parseMove at h
  split at h
  · cases h; intro _ _ _ hm; cases hm
  split at h
  · cases h; intro _ _ _ hm; cases hm
  exact parsePieceMove_promo_ne_pawn s m h

/-- **C10 (canonical form).**  Every accepted coordinate-move text re-prints to a text that parses back to the same move. -/
theorem C10_canon (s : Str) (m : Move) (h : parseMove s = .ok m) : parseMove (printMove m) = .ok m :=
  C16.roundtrip m (parseMove_promo_ne_pawn s m h)

/-- printing after parsing is idempotent: the canonical text is a fixed point -/
theorem C10_canon_idem (s : Str) (m : Move) (h : parseMove s = .ok m) :
    (parseMove (printMove m)).map printMove = .ok (printMove m) := by
  rw [C10_canon s m h]; rfl

example : parseMove "pe2e4".toList = .ok (.piece .pawn 12 28 none) ∧ printMove (.piece .pawn 12 28 none) = "e2e4".toList := by decide

/-! ## (b) the "unreachable" branch of `parseSquare` -/

/-- a single character of 2 bytes is never a file letter, so `parseSquare` fails at `File::from_str`
before it could index the missing second character -/
theorem parseSquare_branch_unreachable (c0 : Char) (h2 : byteLen [c0] = 2) : ∃ e, parseFile [c0] = .error e := by
  refine ⟨.invalidFile, ?_⟩
  unfold parseFile
  rw [h2]; rfl

/-- consequently: whenever `parseSquare` gets past the length test and the file test, a second character exists -/
theorem parseSquare_second_char (s : Str) (c0 : Char) (rest : Str) (hs : s = c0 :: rest) (hl : byteLen s = 2)
    (f : Fin 8) (hf : parseFile [c0] = .ok f) : rest ≠ [] := by
  intro hr
  subst hr; subst hs
  obtain ⟨e, he⟩ := parseSquare_branch_unreachable c0 hl
  rw [he] at hf; cases hf

/-- the other `[] => .error` branch is also dead: an empty text has byte length 0 ≠ 2 -/
theorem parseSquare_nil_branch_unreachable : byteLen [] ≠ 2 := by decide

/-! ## (c) FEN counters -/

theorem parseUsize_lt (s : Str) (v : Nat) (h : parseUsize s = some v) : v < 2 ^ 64 := by
  unfold parseUsize at h
  simp only [] at h
  repeat' split at h
  all_goals first | (cases h; done) | (injection h with h; subst h; assumption)

/-- **C10 (FEN counters).**  The half-move clock and move number of an accepted FEN are `usize` values. -/
theorem parseFen_fields (s : Str) (bb : Builder) (h : parseFen s = .ok bb) : bb.half < 2 ^ 64 ∧ bb.full < 2 ^ 64 := by
  unfold parseFen at h
  simp only [] at h
  repeat' split at h
  all_goals first
    | (cases h; done)
    | (injection h with h; subst h
       exact ⟨by apply parseUsize_lt; assumption, by apply parseUsize_lt; assumption⟩)

example : (parseFen "8/8/8/8/8/8/8/8 w - - 0 1".toList).isOk = true := by decide

end Chess.C10
