import Chess.Props.C17
/-! # C17 — the triangular index of `BetweenTable`

The Rust stores the between-sets of ordered pairs `a ≤ b` in a flat array of `64·65/2 = 2080` cells at index
`offset(a) + b − a` with `offset(a) = 64·a − (a−1)·a/2` (computed in `i64`; `(a−1)·a/2` is `0` for `a = 0` because `-1·0 = 0`),
`set`/`get` swap their arguments into order first.  Here: the index is in range and injective on ordered pairs (it enumerates
them in lexicographic order), so the table filled by the generator loop and read through `get` returns, for EVERY pair of squares,
the value the generator computed for that pair — i.e. `between a b` of the model, whose geometric meaning is `between_spec`. -/
namespace Chess.C17
open Chess

/-- cells of the flat table -/
def tableSize : Nat := 64 * 65 / 2

/-- position of the ordered pair `(a, b)`, `a ≤ b`, in lexicographic enumeration -/
def lexPos (a b : Nat) : Nat := (List.range a).foldl (fun acc i => acc + (64 - i)) 0 + (b - a)

theorem triIdx_eq_lexPos : ∀ a b : Sq, a.val ≤ b.val → triIdx a.val b.val = lexPos a.val b.val := by
  decide +kernel

theorem triIdx_lt : ∀ a b : Sq, a.val ≤ b.val → triIdx a.val b.val < tableSize := by
  decide +kernel

/-- successor structure: the index enumerates the ordered pairs consecutively, row after row -/
theorem triIdx_succ_col : ∀ a b : Sq, a.val ≤ b.val → (h : b.val + 1 < 64) →
    triIdx a.val (b.val + 1) = triIdx a.val b.val + 1 := by
  decide +kernel
theorem triIdx_succ_row : ∀ a : Sq, (h : a.val + 1 < 64) → triIdx (a.val + 1) (a.val + 1) = triIdx a.val 63 + 1 := by
  decide +kernel
theorem triIdx_zero : triIdx 0 0 = 0 := by decide +kernel
theorem triIdx_last : triIdx 63 63 = tableSize - 1 := by decide +kernel

/-- the index as a Boolean table check: pairwise different on different ordered pairs (2080 × 2080 / 2 comparisons would be
heavy; strict monotonicity in lexicographic order is checked instead: each pair's index is smaller than its successor's) -/
def pairLt (a b c d : Nat) : Bool := a < c || (a == c && b < d)

theorem triIdx_strictMono_row : ∀ a b c : Sq, a.val ≤ b.val → b.val < c.val → triIdx a.val b.val < triIdx a.val c.val := by
  decide +kernel

theorem triIdx_row_bound : ∀ a b : Sq, a.val ≤ b.val → (h : a.val + 1 < 64) →
    triIdx a.val b.val < triIdx (a.val + 1) (a.val + 1) := by
  decide +kernel

theorem triIdx_rowStart_mono : ∀ a c : Sq, a.val < c.val → triIdx a.val a.val < triIdx c.val c.val := by
  decide +kernel

/-- injectivity on ordered pairs -/
theorem triIdx_inj (a b c d : Sq) (hab : a.val ≤ b.val) (hcd : c.val ≤ d.val)
    (h : triIdx a.val b.val = triIdx c.val d.val) : a = c ∧ b = d := by
  have key : ∀ a b c d : Sq, a.val ≤ b.val → c.val ≤ d.val → a.val < c.val → triIdx a.val b.val < triIdx c.val d.val := by
    intro a b c d hab hcd hac
    have h1 : a.val + 1 < 64 := by have := c.isLt; omega
    have h2 := triIdx_row_bound a b hab h1
    -- row start of a+1 ≤ row start of c ≤ idx c d
    have h3 : triIdx (a.val + 1) (a.val + 1) ≤ triIdx c.val c.val := by
      by_cases e : a.val + 1 = c.val
      · rw [e]; exact Nat.le_refl _
      · have : a.val + 1 < c.val := by omega
        exact Nat.le_of_lt (triIdx_rowStart_mono ⟨a.val + 1, h1⟩ c this)
    have h4 : triIdx c.val c.val ≤ triIdx c.val d.val := by
      by_cases e : c.val = d.val
      · rw [← e]; exact Nat.le_refl _
      · exact Nat.le_of_lt (triIdx_strictMono_row c c d (Nat.le_refl _) (by omega))
    omega
  rcases Nat.lt_trichotomy a.val c.val with hac | hac | hac
  · have := key a b c d hab hcd hac; omega
  · have eac : a = c := Fin.ext hac
    subst eac
    refine ⟨rfl, ?_⟩
    rcases Nat.lt_trichotomy b.val d.val with hbd | hbd | hbd
    · have := triIdx_strictMono_row a b d hab hbd; omega
    · exact Fin.ext hbd
    · have := triIdx_strictMono_row a d b hcd hbd; omega
  · have := key c d a b hcd hab hac; omega

/-! ### the flat table: filled by the generator loop, read through `get` -/

/-- `BetweenTable::set` / `get` on a flat array modelled as a function from cell index to content -/
def tset (t : Nat → Option (Option BB)) (a b : Sq) (v : Option BB) : Nat → Option (Option BB) :=
  let (x, y) := if a.val > b.val then (b, a) else (a, b)
  fun i => if i = triIdx x.val y.val then some v else t i
def tget (t : Nat → Option (Option BB)) (a b : Sq) : Option (Option BB) :=
  let (x, y) := if a.val > b.val then (b, a) else (a, b)
  t (triIdx x.val y.val)

/-- `generate_between_masks`: for `a` in 0..64, for `b` in `a`..64: `set(a, b, gen a b)` -/
def fillTable : Nat → Option (Option BB) :=
  allSq.foldl (fun t a => (allSq.filter (fun b => a.val ≤ b.val)).foldl (fun t b => tset t a b (betweenGen a b)) t) (fun _ => none)

theorem tset_ordered (t) (a b : Sq) (h : a.val ≤ b.val) (v) (i : Nat) :
    tset t a b v i = if i = triIdx a.val b.val then some v else t i := by
  unfold tset
  have : ¬ a.val > b.val := by omega
  simp [this]

/-- inner loop: after processing the list `bs` of partners of `a`, cell of `(a, b)` with `b ∈ bs` holds `gen a b`; other
ordered pairs' cells are untouched -/
theorem inner_spec (a : Sq) (bs : List Sq) (hbs : ∀ b ∈ bs, a.val ≤ b.val) (t : Nat → Option (Option BB))
    (c d : Sq) (hcd : c.val ≤ d.val) :
    (bs.foldl (fun t b => tset t a b (betweenGen a b)) t) (triIdx c.val d.val) =
      if c = a ∧ d ∈ bs then some (betweenGen a d) else t (triIdx c.val d.val) := by
  induction bs generalizing t with
  | nil => simp
  | cons b bs ih =>
    have hb : a.val ≤ b.val := hbs b (List.mem_cons_self)
    have hrest : ∀ x ∈ bs, a.val ≤ x.val := fun x hx => hbs x (List.mem_cons_of_mem _ hx)
    rw [List.foldl_cons, ih hrest]
    by_cases h1 : c = a ∧ d ∈ bs
    · have : c = a ∧ d ∈ b :: bs := ⟨h1.1, List.mem_cons_of_mem _ h1.2⟩
      rw [if_pos h1, if_pos this]
    · rw [if_neg h1, tset_ordered t a b hb]
      by_cases h2 : triIdx c.val d.val = triIdx a.val b.val
      · obtain ⟨e1, e2⟩ := triIdx_inj c d a b hcd hb h2
        subst e1; subst e2
        simp [h2]
      · rw [if_neg h2]
        have : ¬ (c = a ∧ d ∈ b :: bs) := by
          rintro ⟨e1, e2⟩
          rcases List.mem_cons.1 e2 with e | e
          · subst e1; subst e; exact h2 rfl
          · exact h1 ⟨e1, e⟩
        rw [if_neg this]

theorem outer_spec (as : List Sq) (t : Nat → Option (Option BB)) (c d : Sq) (hcd : c.val ≤ d.val) :
    (as.foldl (fun t a => (allSq.filter (fun b => a.val ≤ b.val)).foldl (fun t b => tset t a b (betweenGen a b)) t) t)
        (triIdx c.val d.val) =
      if c ∈ as then some (betweenGen c d) else t (triIdx c.val d.val) := by
  induction as generalizing t with
  | nil => simp
  | cons a as ih =>
    rw [List.foldl_cons, ih]
    by_cases h1 : c ∈ as
    · rw [if_pos h1, if_pos (List.mem_cons_of_mem _ h1)]
    · rw [if_neg h1, inner_spec a _ (by intro b hb; simpa using (List.mem_filter.1 hb).2) t c d hcd]
      by_cases h2 : c = a
      · subst h2
        have hd : d ∈ allSq.filter (fun b => c.val ≤ b.val) := List.mem_filter.2 ⟨List.mem_finRange d, by simpa using hcd⟩
        simp [hd]
      · have : ¬ (c = a ∧ d ∈ allSq.filter (fun b => a.val ≤ b.val)) := fun h => h2 h.1
        rw [if_neg this]
        have : c ∉ a :: as := by
          intro hm; rcases List.mem_cons.1 hm with e | e
          · exact h2 e
          · exact h1 e
        rw [if_neg this]

/-- MAIN: reading the filled flat table through `get` returns, for every pair of squares in either order, exactly the model's
`between a b` (every cell that is read was written, exactly once, with the generator's value for that pair) -/
theorem between_table_get (a b : Sq) : tget fillTable a b = some (between a b) := by
  unfold tget fillTable
  rw [between_eq]
  by_cases h : a.val > b.val
  · have hle : b.val ≤ a.val := by omega
    have hn : ¬ a.val ≤ b.val := by omega
    simp only [h, if_true, hn, if_false]
    rw [outer_spec allSq _ b a hle]
    simp [allSq, List.mem_finRange]
  · have hle : a.val ≤ b.val := by omega
    simp only [h, if_false, hle, if_true]
    rw [outer_spec allSq _ a b hle]
    simp [allSq, List.mem_finRange]

end Chess.C17
