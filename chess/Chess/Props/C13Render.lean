import Chess.Model.Game
import Chess.Lemmas.Split
/-! # C13 — the history rendering is the standard move numbering

`History.render` produces space-terminated token groups.  The independent description `expectedTokens` is the standard
numbering of a move list: the move number and its dot are fused to White's move (`N.` ++ san, as this library prints
them), Black's move is a bare token, and a game that starts with Black to move opens with `1.` `...`. -/
namespace Chess.C13
open Chess

/-- the space-delimited non-empty words of a text -/
def tokens (t : Str) : List Str := (splitOn ' ' t).filter (· ≠ [])

/-- standard numbering from ply `ply` on (ply 0 = White's first move): White's moves carry the fused number -/
def numbered : Nat → List Str → List Str
  | _, [] => []
  | ply, w :: rest => (if ply % 2 = 0 then natStr (ply / 2 + 1) ++ '.' :: w else w) :: numbered (ply + 1) rest

/-- the expected token sequence of a rendered move list -/
def expectedTokens (blackStarting : Bool) (sans : List Str) : List Str :=
  if blackStarting then
    match sans with
    | [] => []
    | w :: rest => "1.".toList :: "...".toList :: w :: numbered 2 rest
  else numbered 0 sans

example : expectedTokens false ["e4".toList, "e5".toList, "Nf3".toList] = ["1.e4".toList, "e5".toList, "2.Nf3".toList] := by
  decide
example : expectedTokens true ["e5".toList, "Nf3".toList, "Nc6".toList] =
    ["1.".toList, "...".toList, "e5".toList, "2.Nf3".toList, "Nc6".toList] := by decide

/-! ### token algebra -/
theorem tokens_nil : tokens [] = [] := by decide

theorem tokens_word (w r : Str) (hw : ' ' ∉ w) (hne : w ≠ []) : tokens (w ++ ' ' :: r) = w :: tokens r := by
  unfold tokens
  rw [splitOn_append_sep _ _ _ hw, List.filter_cons_of_pos (by simpa using hne)]

/-! ### SAN texts are non-empty and contain no space -/
theorem printSquare_no_space : ∀ s : Sq, ' ' ∉ printSquare s := by decide
theorem fileChar_ne_space : ∀ s : Sq, fileChar s.fl ≠ ' ' := by decide
theorem rankChar_ne_space : ∀ s : Sq, rankChar s.rk ≠ ' ' := by decide
theorem letter_ne_space (t : PT) : t.letter ≠ ' ' := by cases t <;> decide

theorem sanText_no_space (m : Move) (p : MoveProps) : ' ' ∉ sanText m p := by
  have hchk : ' ' ∉ (if p.isMate then ['#'] else if p.isCheck then ['+'] else [] : Str) := by
    split
    · decide
    · split <;> decide
  cases m with
  | castle s =>
    cases s <;> simp only [sanText, List.mem_append, not_or] <;> exact ⟨by decide, hchk⟩
  | piece pt src dst promo =>
    simp only [sanText, List.mem_append, not_or]
    refine ⟨⟨⟨⟨⟨?_, ?_⟩, ?_⟩, ?_⟩, ?_⟩, hchk⟩
    · cases pt <;> decide
    · cases p.amb
      · simpa using (fileChar_ne_space src).symm
      · simpa using (rankChar_ne_space src).symm
      · exact printSquare_no_space src
      · simp
    · split <;> decide
    · exact printSquare_no_space dst
    · cases promo with
      | none => simp
      | some t => have := (letter_ne_space t).symm; simp [this]

theorem sanText_ne_nil (m : Move) (p : MoveProps) : sanText m p ≠ [] := by
  cases m with
  | castle s => cases s <;> simp [sanText]
  | piece pt src dst promo => simp [sanText, printSquare]

/-! ### the rendering -/
theorem natStr_dot_no_space (n : Nat) (w : Str) (hw : ' ' ∉ w) : ' ' ∉ natStr n ++ '.' :: w := by
  simp only [List.mem_append, List.mem_cons, not_or]
  exact ⟨not_mem_natStr n ' ' (by decide), by decide, hw⟩

/-- ply offset of a Black-first game -/
def b2n (b : Bool) : Nat := if b then 1 else 0

theorem go_nil_left (bs : Bool) (i : Nat) (ps : List MoveProps) : History.render.go bs i [] ps = [] := by
  unfold History.render.go; rfl
theorem go_nil_right (bs : Bool) (i : Nat) (ms : List Move) : History.render.go bs i ms [] = [] := by
  unfold History.render.go; cases ms <;> rfl
theorem go_cons (bs : Bool) (i : Nat) (m : Move) (ms : List Move) (p : MoveProps) (ps : List MoveProps) :
    History.render.go bs i (m :: ms) (p :: ps) = History.renderStep bs i m p ++ History.render.go bs (i + 1) ms ps := by
  rw [History.render.go]

/-- away from the special first group, the tokens of the rendering are the standard numbering by ply -/
theorem go_tokens (bs : Bool) (i : Nat) (ms : List Move) (ps : List MoveProps) (h0 : i ≠ 0 ∨ bs = false) :
    tokens (History.render.go bs i ms ps) = numbered (i + b2n bs) (List.zipWith sanText ms ps) := by
  induction ms generalizing i ps with
  | nil => rw [go_nil_left]; simp [tokens_nil, numbered]
  | cons m ms ih =>
    cases ps with
    | nil => rw [go_nil_right]; simp [tokens_nil, numbered]
    | cons p ps =>
      have hs := sanText_no_space m p
      have hne := sanText_ne_nil m p
      have ih' := ih (i + 1) ps (Or.inl (by omega))
      have e1 : i + 1 + b2n bs = i + b2n bs + 1 := by omega
      rw [go_cons, List.zipWith_cons_cons, numbered, ← e1, ← ih']
      have eb : (i + if bs = true then 1 else 0) = i + b2n bs := rfl
      unfold History.renderStep
      simp only [eb, beq_iff_eq]
      by_cases hp : (i + b2n bs) % 2 = 0
      · simp only [hp, if_true]
        have := tokens_word (natStr ((i + b2n bs) / 2 + 1) ++ '.' :: sanText m p)
          (History.render.go bs (i + 1) ms ps) (natStr_dot_no_space _ _ hs) (by simp)
        simpa using this
      · have hi : i ≠ 0 := by
          rcases h0 with h | h
          · exact h
          · subst h; intro e; subst e; exact hp (by decide)
        simp only [hp, hi, if_false]
        have := tokens_word (sanText m p) (History.render.go bs (i + 1) ms ps) hs hne
        simpa using this

/-- the special first group of a Black-first game: `1. ... san ` -/
theorem go_tokens_black_first (m : Move) (ms : List Move) (p : MoveProps) (ps : List MoveProps) :
    tokens (History.render.go true 0 (m :: ms) (p :: ps)) =
      "1.".toList :: "...".toList :: sanText m p :: numbered 2 (List.zipWith sanText ms ps) := by
  have hs := sanText_no_space m p
  have hne := sanText_ne_nil m p
  have ih := go_tokens true 1 ms ps (Or.inl (by decide))
  have e : (1 + b2n true) = 2 := rfl
  rw [e] at ih
  rw [go_cons, ← ih]
  have h1 : History.renderStep true 0 m p =
      "1.".toList ++ ' ' :: ("...".toList ++ ' ' :: (sanText m p ++ ' ' :: [])) := by
    unfold History.renderStep
    have : natStr ((0 + 1) / 2 + 1) = ['1'] := by decide
    simp [this]
  rw [h1]
  simp only [List.append_assoc, List.cons_append, List.nil_append]
  rw [tokens_word _ _ (by decide) (by decide), tokens_word _ _ (by decide) (by decide), tokens_word _ _ hs hne]

/-- which side moves first according to the first recorded position (as in `Display for GameHistory`) -/
def blackStarts (h : History) : Bool := match h.positions with | p :: _ => p.stm == .black | [] => false

/-- **C13 (history rendering).**  The non-empty space-delimited tokens of the rendered history are exactly the standard
numbering of the SAN texts of its moves.  (No hypothesis on the SAN texts is needed: `sanText_no_space` and
`sanText_ne_nil` hold for every move; equal lengths of `moves`/`props` are not needed either, both sides truncate alike.) -/
theorem C13_render_tokens (h : History) :
    (splitOn ' ' (History.render h)).filter (· ≠ []) =
      expectedTokens (blackStarts h) (List.zipWith sanText h.moves h.props) := by
  show tokens (History.render.go (blackStarts h) 0 h.moves h.props) = _
  unfold expectedTokens
  cases hb : blackStarts h with
  | false =>
    rw [go_tokens false 0 _ _ (Or.inr rfl)]
    rfl
  | true =>
    simp only [if_true]
    cases hm : h.moves with
    | nil => rw [go_nil_left]; rfl
    | cons m ms =>
      cases hp : h.props with
      | nil => rw [go_nil_right]; rfl
      | cons p ps => rw [go_tokens_black_first]; rfl

/-- the same statement for the filter used by `Game.asPgn` -/
theorem C13_render_tokens' (h : History) :
    (splitOn ' ' (History.render h)).filter (fun w => !w.isEmpty) =
      expectedTokens (blackStarts h) (List.zipWith sanText h.moves h.props) := by
  rw [← C13_render_tokens]
  congr 1; funext w; cases w <;> simp

/-- the empty history renders to the empty text -/
theorem C13_render_empty (ps : List Board) : History.render ⟨ps, [], []⟩ = [] := by
  unfold History.render
  exact go_nil_left _ _ _

/-! ### consequences: consecutive numbers, one token per move -/

/-- token count of the standard numbering: one token per move -/
theorem numbered_length (ply : Nat) (sans : List Str) : (numbered ply sans).length = sans.length := by
  induction sans generalizing ply with
  | nil => rfl
  | cons w rest ih => simp [numbered, ih]

/-- the `k`-th token of the standard numbering is the `k`-th SAN text, prefixed by the move number
`(ply+k)/2 + 1` and a dot exactly when ply `ply+k` is White's: numbers are consecutive -/
theorem numbered_getElem? (ply : Nat) (sans : List Str) (k : Nat) :
    (numbered ply sans)[k]? = sans[k]?.map fun w =>
      if (ply + k) % 2 = 0 then natStr ((ply + k) / 2 + 1) ++ '.' :: w else w := by
  induction sans generalizing ply k with
  | nil => simp [numbered]
  | cons w rest ih =>
    cases k with
    | zero => simp [numbered]
    | succ k =>
      have e : ply + 1 + k = ply + (k + 1) := by omega
      simp [numbered, ih, e]

/-- White-first game: token `k` is move `k`, numbered `k/2 + 1` when `k` is even -/
theorem C13_token_white_first (h : History) (hb : blackStarts h = false) (k : Nat) :
    ((splitOn ' ' (History.render h)).filter (· ≠ []))[k]? =
      (List.zipWith sanText h.moves h.props)[k]?.map fun w =>
        if k % 2 = 0 then natStr (k / 2 + 1) ++ '.' :: w else w := by
  rw [C13_render_tokens, hb]
  simp only [expectedTokens, Bool.false_eq_true, if_false]
  rw [numbered_getElem?]
  simp

/-- Black-first game: tokens `1.` `...`, then token `k+2` is move `k`, numbered `(k+1)/2 + 1` when `k` is odd -/
theorem C13_token_black_first (h : History) (hb : blackStarts h = true) (hne : List.zipWith sanText h.moves h.props ≠ [])
    (k : Nat) :
    let toks := (splitOn ' ' (History.render h)).filter (· ≠ [])
    toks[0]? = some "1.".toList ∧ toks[1]? = some "...".toList ∧
    toks[k + 2]? = (List.zipWith sanText h.moves h.props)[k]?.map fun w =>
        if (k + 1) % 2 = 0 then natStr ((k + 1) / 2 + 1) ++ '.' :: w else w := by
  intro toks
  have ht : toks = expectedTokens true (List.zipWith sanText h.moves h.props) := by
    rw [← hb]; exact C13_render_tokens h
  cases hz : List.zipWith sanText h.moves h.props with
  | nil => exact absurd hz hne
  | cons w rest =>
    rw [ht, hz]
    simp only [expectedTokens, if_true]
    refine ⟨rfl, rfl, ?_⟩
    cases k with
    | zero => simp
    | succ k =>
      have e : 2 + k = k + 1 + 1 := by omega
      simp [numbered_getElem?, e]

/-! ### `positionOnMove` -/
theorem positionOnMove_lt (h : History) (n : Nat) (hn : n < h.positions.length) :
    h.positionOnMove n = .ok h.positions[n] := by
  simp [History.positionOnMove, List.getElem?_eq_getElem hn]

theorem positionOnMove_ge (h : History) (n : Nat) (hn : h.positions.length ≤ n) :
    h.positionOnMove n = .error .wrongMoveNumber := by
  simp [History.positionOnMove, List.getElem?_eq_none hn]

end Chess.C13
