import Chess.Lemmas.GameReach
/-! # C13 — the game history (M1 level)

"The history holds the start position followed by one position per move, each obtained from its predecessor
by the recorded move, the last equal to the game's current position; indexing by ply returns those positions
and an error beyond the end; recorded per-move flags are what the rules give."

Proved for every game reachable from `Game.ofBoard` by accepted actions (`GameReach`).  The link from the
model values `Board.isCapture`, `Board.checks`, `Board.term` to the rules of chess is C05 / C04. -/
namespace Chess
open Chess.Game

variable (K : Keys)

/-- one recorded ply: `p'` is `p` after the legal move `m`, and `mp` is what `MovePropertiesOnBoard::new` computes -/
def History.StepOK (p p' : Board) (m : Move) (mp : MoveProps) : Prop :=
  p' = p.makeMoveUnchecked K m ∧ p.isLegalMove K m = true ∧ p.moveProps K m = .ok mp

/-- the shape of a history whose last position is `cur` -/
structure History.Chain (h : History) (cur : Board) : Prop where
  len_pos : h.positions.length = h.moves.length + 1
  len_props : h.props.length = h.moves.length
  last : h.positions.getLast? = some cur
  step : ∀ (i : Nat) (hi : i < h.moves.length),
    History.StepOK K (h.positions[i]'(by omega)) (h.positions[i + 1]'(by omega)) h.moves[i] (h.props[i]'(by omega))

theorem History.Chain.init (b : Board) : History.Chain K (History.fromPosition b) b where
  len_pos := rfl
  len_props := rfl
  last := rfl
  step := fun i hi => by simp [History.fromPosition] at hi

/-- pushing a legal move keeps the chain -/
theorem History.Chain.push {h : History} {cur nb : Board} {m : Move} {mp : MoveProps}
    (hc : History.Chain K h cur) (hm : cur.makeMove K m = .ok nb) (hp : cur.moveProps K m = .ok mp) :
    History.Chain K ⟨h.positions ++ [nb], h.moves ++ [m], h.props ++ [mp]⟩ nb := by
  obtain ⟨hl, hnb⟩ := Game.makeMove_ok K hm
  have hlen := hc.len_pos
  have hlen' := hc.len_props
  have hlast : h.positions[h.moves.length]'(by omega) = cur := by
    have := hc.last
    rw [List.getLast?_eq_getElem?, hlen, Nat.add_sub_cancel] at this
    rw [List.getElem?_eq_getElem (by omega)] at this
    exact Option.some.inj this
  refine ⟨by simp [hlen], by simp [hlen'], by simp, ?_⟩
  intro i hi
  simp only [List.length_append, List.length_singleton] at hi
  by_cases hlt : i < h.moves.length
  · have := hc.step i hlt
    simp only [List.getElem_append_left (h := hlt), List.getElem_append_left (h := (by omega : i < h.positions.length)),
      List.getElem_append_left (h := (by omega : i + 1 < h.positions.length)),
      List.getElem_append_left (h := (by omega : i < h.props.length))]
    exact this
  · have hi' : i = h.moves.length := by omega
    subst hi'
    have e1 : (h.positions ++ [nb])[h.moves.length]'(by simp; omega) = cur := by
      rw [List.getElem_append_left (h := (by omega : h.moves.length < h.positions.length))]; exact hlast
    have e2 : (h.positions ++ [nb])[h.moves.length + 1]'(by simp; omega) = nb := by
      rw [List.getElem_append_right (by omega)]; simp [hlen]
    have e3 : (h.moves ++ [m])[h.moves.length]'(by simp) = m := by
      rw [List.getElem_append_right (by omega)]; simp
    have e4 : (h.props ++ [mp])[h.moves.length]'(by simp; omega) = mp := by
      rw [List.getElem_append_right (by omega)]; simp [hlen']
    show History.StepOK K _ _ _ _
    rw [e1, e2, e3, e4]
    exact ⟨hnb, hl, hp⟩

/-- **C13 (chain).**  In every reachable game the history is the start position followed by one position per
move; each position is its predecessor after the recorded (legal) move; the recorded properties are those the
model computes for that move on that predecessor; the last position is the game's current position. -/
theorem C13_chain' (g : Game) (hr : GameReach K g) : History.Chain K g.history g.position := by
  induction hr with
  | init b => simp only [ofBoard_history, ofBoard_position]; exact History.Chain.init K b
  | @step g g' a _ ha ih =>
    rcases act_cases K g g' a ha with ⟨m, nb, mp, _, _, hm, hp, hpos, hh, _⟩ | ⟨_, hpos, hh, _⟩
    · rw [hpos, hh]; exact ih.push K hm hp
    · rw [hpos, hh]; exact ih

/-- **C13 (chain)**, clause by clause -/
theorem C13_chain (g : Game) (hr : GameReach K g) :
    g.history.positions.length = g.history.moves.length + 1 ∧
    g.history.props.length = g.history.moves.length ∧
    g.history.positions.getLast? = some g.position ∧
    ∀ (i : Nat) (hi : i < g.history.moves.length) (h1 : i < g.history.positions.length)
      (h2 : i + 1 < g.history.positions.length) (h3 : i < g.history.props.length),
      g.history.positions[i + 1] = g.history.positions[i].makeMoveUnchecked K g.history.moves[i] ∧
      g.history.positions[i].isLegalMove K g.history.moves[i] = true ∧
      g.history.positions[i].moveProps K g.history.moves[i] = .ok g.history.props[i] := by
  have h := C13_chain' K g hr
  exact ⟨h.len_pos, h.len_props, h.last, fun i hi _ _ _ => h.step i hi⟩

/-- the start position is never changed by an action: it stays the head of the history -/
theorem C13_start (g : Game) (hr : GameReach K g) :
    ∃ b, g.history.positions.head? = some b := by
  have h := (C13_chain' K g hr).len_pos
  cases hp : g.history.positions with
  | nil => rw [hp] at h; simp at h
  | cons b l => exact ⟨b, rfl⟩

/-- the positions of the history are those of replaying the recorded moves from the start position -/
theorem C13_replay (g : Game) (hr : GameReach K g) (i : Nat) (hi : i < g.history.positions.length)
    (h0 : 0 < g.history.positions.length) :
    g.history.positions[i] = (g.history.moves.take i).foldl (fun b m => b.makeMoveUnchecked K m) g.history.positions[0] := by
  have h := C13_chain' K g hr
  induction i with
  | zero => simp
  | succ i ih =>
    have hlen := h.len_pos
    have him : i < g.history.moves.length := by omega
    rw [List.take_succ_eq_append_getElem him, List.foldl_append, ← ih (by omega)]
    exact (h.step i him).1

/-! ## lookup by ply -/

/-- **C13 (lookup).**  `get_position_on_move n` returns exactly the `n`-th position of the history … -/
theorem C13_lookup (h : History) (n : Nat) (b : Board) :
    h.positionOnMove n = .ok b ↔ h.positions[n]? = some b := by
  unfold History.positionOnMove
  cases h.positions[n]? <;> simp

/-- … and the wrong-move-number error beyond the end (and only there) -/
theorem C13_lookup_error (h : History) (n : Nat) :
    h.positionOnMove n = .error .wrongMoveNumber ↔ n ≥ h.positions.length := by
  unfold History.positionOnMove
  cases hp : h.positions[n]? with
  | none => simp only [true_iff]; exact List.getElem?_eq_none_iff.1 hp
  | some b =>
    simp only [reduceCtorEq, false_iff]
    intro hge
    rw [List.getElem?_eq_none_iff.2 hge] at hp; cases hp

theorem C13_lookup_lt (h : History) (n : Nat) (hn : n < h.positions.length) :
    h.positionOnMove n = .ok h.positions[n] := by
  rw [C13_lookup, List.getElem?_eq_getElem hn]

/-- in a reachable game the plies `0 … number of moves` are exactly the valid indices, the last one gives
the current position -/
theorem C13_lookup_reach (g : Game) (hr : GameReach K g) (n : Nat) :
    (∃ b, g.history.positionOnMove n = .ok b) ↔ n ≤ g.history.moves.length := by
  have hlen := (C13_chain' K g hr).len_pos
  constructor
  · rintro ⟨b, hb⟩
    rw [C13_lookup] at hb
    have := (List.getElem?_eq_some_iff.1 hb).1
    omega
  · intro hn
    exact ⟨_, C13_lookup_lt _ n (by omega)⟩

theorem C13_lookup_last (g : Game) (hr : GameReach K g) :
    g.history.positionOnMove g.history.moves.length = .ok g.position := by
  have h := C13_chain' K g hr
  rw [C13_lookup]
  have := h.last
  rw [List.getLast?_eq_getElem?, h.len_pos, Nat.add_sub_cancel] at this
  exact this

/-! ## the recorded flags -/

/-- what `MovePropertiesOnBoard::new` records, read off its definition -/
theorem moveProps_flags (b : Board) (m : Move) (mp : MoveProps) (h : b.moveProps K m = .ok mp) :
    b.isLegalMove K m = true ∧
    mp.isCapture = b.isCapture m ∧
    mp.isCheck = decide (popcount (b.makeMoveUnchecked K m).checks > 0) ∧
    mp.isMate = ((b.makeMoveUnchecked K m).term && mp.isCheck) := by
  unfold Board.moveProps at h
  cases hm : b.makeMove K m with
  | error e => rw [hm] at h; cases h
  | ok after =>
    obtain ⟨hl, ha⟩ := Game.makeMove_ok K hm
    rw [hm] at h
    simp only at h
    split at h
    · cases h
    · simp only [Except.ok.injEq] at h
      subst h; subst ha
      exact ⟨hl, rfl, rfl, rfl⟩

/-- **C13 (flags).**  For every recorded ply `i`: the capture flag is `is_capture` of the move on the position
before it, the check flag says the position after it has a non-empty check mask, the mate flag says that
position is moreover terminal. -/
theorem C13_flags (g : Game) (hr : GameReach K g) (i : Nat) (hi : i < g.history.moves.length)
    (h1 : i < g.history.positions.length) (h2 : i + 1 < g.history.positions.length) (h3 : i < g.history.props.length) :
    g.history.props[i].isCapture = g.history.positions[i].isCapture g.history.moves[i] ∧
    g.history.props[i].isCheck = decide (popcount g.history.positions[i + 1].checks > 0) ∧
    g.history.props[i].isMate = (g.history.positions[i + 1].term && g.history.props[i].isCheck) := by
  obtain ⟨hs, _, hp⟩ := (C13_chain' K g hr).step i hi
  obtain ⟨_, hc, hk, hm⟩ := moveProps_flags K _ _ _ hp
  rw [hs]
  exact ⟨hc, hk, hm⟩

/-! ## non-vacuity: the chain of a one-move game -/
example (b nb : Board) (m : Move) (h : b.makeMove K m = .ok nb) (hs : (ofBoard b).status = .ongoing) :
    ∃ g', (ofBoard b).act K (.move m) = .ok g' ∧ GameReach K g' ∧ g'.history.positions = [b, nb] ∧ g'.history.moves = [m] := by
  have hl := (Game.makeMove_ok K h).1
  obtain ⟨g', hg'⟩ := (C12.ongoing_move K (ofBoard b) m hs).2 (by simpa using hl)
  refine ⟨g', hg', .step _ (.init b) hg', ?_, ?_⟩
  · rcases act_cases K _ g' _ hg' with ⟨m', nb', mp, ha, _, hm, _, _, hh, _⟩ | ⟨hne, _⟩
    · cases ha
      rw [ofBoard_position, h] at hm; cases hm
      rw [hh]; simp [History.fromPosition]
    · exact absurd rfl (hne m)
  · rcases act_cases K _ g' _ hg' with ⟨m', nb', mp, ha, _, hm, _, _, hh, _⟩ | ⟨hne, _⟩
    · cases ha; rw [hh]; simp [History.fromPosition]
    · exact absurd rfl (hne m)

end Chess
