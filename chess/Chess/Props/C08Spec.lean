import Chess.Spec.FenSpec
import Chess.Props.C08Board
/-! # C08 (standard) — the FEN text written is the STANDARD six-field FEN of the observable state

`FenSpec.read` (Chess/Spec/FenSpec.lean) is a strict reader of standard FEN written from the PGN
specification, independently of the model's printer and parser.  Here:
* `C08_standard`: for EVERY builder content and all clock values, the text `printFen bb` is accepted by the
  strict reader and means exactly the content of the builder;
* `C08_asFen_standard`: for every consistent board, `b.asFen` is the standard FEN of `b.absPos`;
* `C08_read_agrees_parse`: every standard FEN (clocks below 2^64) is accepted by the library's parser with
  the same meaning. -/
namespace Chess
open Chess.Fen Chess.FenSpec

/-- the record a builder stands for -/
def recordOf (bb : Builder) : FenRecord :=
  { placement := bb.pieces, stm := bb.stm,
    castleK := (bb.rights .white).hasK, castleQ := (bb.rights .white).hasQ,
    castlek := (bb.rights .black).hasK, castleq := (bb.rights .black).hasQ,
    ep := bb.ep, half := bb.half, full := bb.full }

/-- the record a specification position stands for -/
def recordOfPos (p : Spec.Pos) : FenRecord :=
  { placement := p.board, stm := p.stm,
    castleK := (p.rights .white).k, castleQ := (p.rights .white).q,
    castlek := (p.rights .black).k, castleq := (p.rights .black).q,
    ep := p.ep, half := p.half, full := p.full }

namespace C08Spec

/-! ## fields -/
theorem fields_eq_splitOn (sep : Char) (s : Str) : fields sep s = splitOn sep s := by
  induction s with
  | nil => rfl
  | cons c cs ih =>
    rw [fields, splitOn, ih]
    rcases h : splitOn sep cs with _ | ⟨p, ps⟩
    · exact absurd h (splitOn_ne_nil _ _)
    · by_cases hc : c = sep <;> simp [hc]

/-! ## one rank -/
theorem pieceOfChar_pieceChar : ∀ p : Piece, pieceOfChar (pieceChar p) = some p := by
  rintro ⟨t, c⟩; cases t <;> cases c <;> decide

theorem digit_facts : ∀ e : Fin 9, 1 ≤ e.val →
    pieceOfChar e.val.digitChar = none ∧ emptyRun e.val.digitChar = some e.val ∧ e.val.digitChar ≠ '/' := by
  decide

theorem readCells_piece (d : Bool) (p : Piece) (cs : Str) :
    readCells d (pieceChar p :: cs) = (readCells false cs).map (some p :: ·) := by
  rw [readCells]; simp only [pieceOfChar_pieceChar]

theorem readCells_digit (e : Nat) (h1 : 1 ≤ e) (h8 : e ≤ 8) (cs : Str) :
    readCells false (e.digitChar :: cs) = (readCells true cs).map (List.replicate e none ++ ·) := by
  obtain ⟨a, b, _⟩ := digit_facts ⟨e, by omega⟩ h1
  simp only at a b
  rw [readCells]; simp only [a, b]; rfl

/-- the content of file `i` of rank `r` -/
def cell (P : Sq → Option Piece) (r : Fin 8) (i : Nat) : Option Piece :=
  if h : i < 8 then P ⟨r.val * 8 + i, by omega⟩ else none

/-- the first `k` squares of rank `r` -/
def pre (P : Sq → Option Piece) (r : Fin 8) (k : Nat) : List (Option Piece) := (List.range k).map (cell P r)

theorem pre_succ (P : Sq → Option Piece) (r : Fin 8) (k : Nat) : pre P r (k + 1) = pre P r k ++ [cell P r k] := by
  simp [pre, List.range_succ]

/-- reader-side loop invariant of `printRank` after files `0..f-1` with pending run counter `acc.2`:
the text so far reads as the squares `L`, which together with the pending empties are the first `f`
squares of the rank; the text so far does not end in a digit (the reader continues with flag `false`) -/
structure CInv (P : Sq → Option Piece) (r : Fin 8) (f : Nat) (acc : Str × Nat) : Prop where
  e_le : acc.2 ≤ f
  noslash : '/' ∉ acc.1
  cells : ∃ L, L ++ List.replicate acc.2 none = pre P r f ∧
    ∀ rest, readCells false (acc.1 ++ rest) = (readCells false rest).map (L ++ ·)

theorem CInv.init {P r} : CInv P r 0 ([], 0) := by
  refine ⟨Nat.le_refl _, by simp, [], by simp [pre], fun rest => ?_⟩
  simp

theorem natStr_no_slash (n : Nat) : '/' ∉ natStr n := fun h => by
  have := natStr_isDigit n _ h; revert this; decide

theorem CInv.step {P r} (f : Fin 8) {acc} (h : CInv P r f.val acc) : CInv P r (f.val + 1) (pstep P r acc f) := by
  obtain ⟨s, e⟩ := acc
  obtain ⟨h1, h2, L, h3, h4⟩ := h
  simp only at h1 h2 h3 h4
  have hcell : cell P r f.val = P ⟨r.val * 8 + f.val, by omega⟩ := by simp [cell]
  unfold pstep
  cases hp : P ⟨r.val * 8 + f.val, by omega⟩ with
  | none =>
    simp only
    refine ⟨by omega, h2, L, ?_, h4⟩
    rw [pre_succ, hcell, hp, ← h3, List.replicate_succ', List.append_assoc]
  | some p =>
    simp only
    have hpc := (pieceChar_facts p).1
    have hpre : pre P r (f.val + 1) = L ++ List.replicate e none ++ [some p] := by
      rw [pre_succ, hcell, hp, ← h3]
    by_cases he : e = 0
    · subst he
      simp only [bne_self_eq_false, Bool.false_eq_true, if_false]
      refine ⟨by omega, ?_, pre P r (f.val + 1), by simp, fun rest => ?_⟩
      · simp only [List.mem_append, List.mem_singleton, not_or]; exact ⟨h2, fun h => hpc h.symm⟩
      · rw [List.append_assoc, h4, List.singleton_append, readCells_piece, Option.map_map, hpre]
        congr 1; funext x; simp
    · have hb : (e != 0) = true := by simp [he]
      rw [if_pos hb]
      refine ⟨by omega, ?_, pre P r (f.val + 1), by simp, fun rest => ?_⟩
      · simp only [List.mem_append, List.mem_singleton, not_or]
        exact ⟨⟨h2, natStr_no_slash e⟩, fun h => hpc h.symm⟩
      · rw [List.append_assoc, List.append_assoc, h4, natStr_digit e (by omega), List.singleton_append,
          List.singleton_append, readCells_digit e (by omega) (by omega), readCells_piece, Option.map_map,
          Option.map_map, hpre]
        congr 1; funext x; simp

theorem CInv.finish {P r acc} (h : CInv P r 8 acc) :
    '/' ∉ (if acc.2 != 0 then acc.1 ++ natStr acc.2 else acc.1) ∧
    readCells false (if acc.2 != 0 then acc.1 ++ natStr acc.2 else acc.1) = some (pre P r 8) := by
  obtain ⟨s, e⟩ := acc
  obtain ⟨h1, h2, L, h3, h4⟩ := h
  simp only at h1 h2 h3 h4 ⊢
  by_cases he : e = 0
  · subst he
    simp only [bne_self_eq_false, Bool.false_eq_true, if_false]
    refine ⟨h2, ?_⟩
    have := h4 []
    rw [List.append_nil] at this
    rw [this, ← h3]; simp [readCells]
  · have hb : (e != 0) = true := by simp [he]
    rw [if_pos hb]
    refine ⟨by simp only [List.mem_append, not_or]; exact ⟨h2, natStr_no_slash e⟩, ?_⟩
    rw [h4, natStr_digit e (by omega), readCells_digit e (by omega) (by omega), ← h3]
    simp [readCells]

/-- reading one printed rank gives exactly the eight squares of that rank; the text contains no `/` -/
theorem readCells_printRank (P : Sq → Option Piece) (r : Fin 8) :
    '/' ∉ printRank P r ∧ readCells false (printRank P r) = some (pre P r 8) := by
  rw [printRank_eq]
  apply CInv.finish
  rw [finRange8]
  simp only [List.foldl]
  exact ((((((((CInv.init).step 0).step 1).step 2).step 3).step 4).step 5).step 6).step 7

theorem readRank_printRank (P : Sq → Option Piece) (r : Fin 8) : readRank (printRank P r) = some (pre P r 8) := by
  unfold readRank
  rw [(readCells_printRank P r).2]
  simp [pre]

/-! ## the placement field -/
theorem fields_placement (P : Sq → Option Piece) : fields '/' (placement P) =
    [printRank P 7, printRank P 6, printRank P 5, printRank P 4, printRank P 3, printRank P 2, printRank P 1,
      printRank P 0] := by
  rw [fields_eq_splitOn, placement_eq,
    splitOn_append_sep _ _ _ (readCells_printRank P 7).1, splitOn_append_sep _ _ _ (readCells_printRank P 6).1,
    splitOn_append_sep _ _ _ (readCells_printRank P 5).1, splitOn_append_sep _ _ _ (readCells_printRank P 4).1,
    splitOn_append_sep _ _ _ (readCells_printRank P 3).1, splitOn_append_sep _ _ _ (readCells_printRank P 2).1,
    splitOn_append_sep _ _ _ (readCells_printRank P 1).1, splitOn_no_sep _ _ (readCells_printRank P 0).1]

theorem rows_getD (P : Sq → Option Piece) (r : Fin 8) :
    ([pre P 7 8, pre P 6 8, pre P 5 8, pre P 4 8, pre P 3 8, pre P 2 8, pre P 1 8, pre P 0 8] :
      List (List (Option Piece))).getD (7 - r.val) [] = pre P r 8 := by
  match r with
  | ⟨0, _⟩ => rfl | ⟨1, _⟩ => rfl | ⟨2, _⟩ => rfl | ⟨3, _⟩ => rfl
  | ⟨4, _⟩ => rfl | ⟨5, _⟩ => rfl | ⟨6, _⟩ => rfl | ⟨7, _⟩ => rfl

theorem pre_getD (P : Sq → Option Piece) (r : Fin 8) (i : Nat) (h : i < 8) :
    (pre P r 8).getD i none = P ⟨r.val * 8 + i, by omega⟩ := by
  simp [pre, List.getD_eq_getElem?_getD, cell, h]

theorem readPlacement_placement (P : Sq → Option Piece) : readPlacement (placement P) = some P := by
  unfold readPlacement
  rw [fields_placement]
  simp only [List.mapM_cons, List.mapM_nil, readRank_printRank, Option.pure_def, Option.bind_eq_bind,
    Option.bind_some, List.length_cons, List.length_nil]
  simp only [if_true]
  apply congrArg some
  funext sq
  have := rows_getD P ⟨sq.val / 8, by omega⟩
  simp only at this
  rw [this, pre_getD P _ _ (Nat.mod_lt _ (by decide))]
  apply congrArg P
  apply Fin.ext; simp only; omega

/-! ## the short fields -/
theorem readSide_stmText (c : Color) : readSide (stmText c) = some c := by cases c <;> rfl

theorem readCastling_castlesText (w b : CR) :
    readCastling (castlesText w b) = some (w.hasK, w.hasQ, b.hasK, b.hasQ) := by
  cases w <;> cases b <;> decide

theorem readEp_printSquare : ∀ s : Sq, readEp (printSquare s) = some (some s) := by decide

theorem readEp_epText (ep : Option Sq) : readEp (epText ep) = some ep := by
  cases ep with
  | none => rfl
  | some s => exact readEp_printSquare s

/-! ## decimal numbers -/
theorem digitVal_digitChar : ∀ d : Fin 10, digitVal d.val.digitChar = some d.val := by decide

theorem readDigits_append (acc : Nat) (a b : Str) :
    readDigits acc (a ++ b) = (readDigits acc a).bind (fun v => readDigits v b) := by
  induction a generalizing acc with
  | nil => rfl
  | cons c cs ih =>
    rw [List.cons_append, readDigits, readDigits]
    cases digitVal c with
    | none => rfl
    | some d => exact ih _

theorem readDigits_single (acc d : Nat) (h : d < 10) : readDigits acc [d.digitChar] = some (10 * acc + d) := by
  have := digitVal_digitChar ⟨d, h⟩
  simp only at this
  rw [readDigits, this]; rfl

theorem readDigits_toDigits (n : Nat) : readDigits 0 (Nat.toDigits 10 n) = some n := by
  induction n using Nat.strongRecOn with
  | _ n ih =>
    rw [Nat.toDigits_eq_if (by decide)]
    split
    · rw [readDigits_single _ _ (by omega)]; simp
    · rw [readDigits_append, ih (n / 10) (by omega), Option.bind_some, readDigits_single _ _ (by omega)]
      apply congrArg some; omega

/-- no superfluous leading zero -/
theorem toDigits_head_zero (n : Nat) (h : (Nat.toDigits 10 n).head? = some '0') : n = 0 := by
  induction n using Nat.strongRecOn with
  | _ n ih =>
    rw [Nat.toDigits_eq_if (by decide)] at h
    split at h
    · simpa using h
    · rw [List.head?_append] at h
      rcases hq : Nat.toDigits 10 (n / 10) with _ | ⟨x, xs⟩
      · exact absurd hq Nat.toDigits_ne_nil
      · rw [hq] at h
        have := ih (n / 10) (by omega) (by rw [hq]; simpa using h)
        omega

theorem readNumber_natStr (n : Nat) : readNumber (natStr n) = some n := by
  rw [natStr_eq]
  have hd := readDigits_toDigits n
  unfold readNumber
  rw [if_neg Nat.toDigits_ne_nil]
  by_cases h0 : Nat.toDigits 10 n = ['0']
  · rw [if_pos h0]
    rw [h0] at hd
    exact hd
  · rw [if_neg h0]
    by_cases h1 : (Nat.toDigits 10 n).head? = some '0'
    · have := toDigits_head_zero n h1
      subst this
      exact absurd (by simp) h0
    · rw [if_neg h1]; exact hd

/-! ## the input direction: what the strict reader accepts, the library's parser accepts with the same meaning -/

/-! ### characters -/
theorem pieceOfChar_some {c : Char} {p : Piece} (h : pieceOfChar c = some p) : c = pieceChar p := by
  unfold pieceOfChar at h
  split at h <;> first | (cases h; rfl) | cases h

theorem emptyRun_some {c : Char} {n : Nat} (h : emptyRun c = some n) : 1 ≤ n ∧ n ≤ 8 ∧ c = n.digitChar := by
  unfold emptyRun at h
  split at h <;> first | (cases h; decide) | cases h

theorem fileOfChar_some {c : Char} {x : Fin 8} (h : fileOfChar c = some x) : c = fileChar x.val := by
  unfold fileOfChar at h
  split at h <;> first | (cases h; rfl) | cases h

theorem rankOfChar_some {c : Char} {x : Fin 8} (h : rankOfChar c = some x) : c = rankChar x.val := by
  unfold rankOfChar at h
  split at h <;> first | (cases h; rfl) | cases h

theorem digitVal_some {c : Char} {d : Nat} (h : digitVal c = some d) :
    c.isDigit = true ∧ c.toNat - '0'.toNat = d := by
  unfold digitVal at h
  split at h <;> first | (cases h; decide) | cases h

/-! ### numbers -/
theorem readDigits_spec (t : Str) (acc v : Nat) (h : readDigits acc t = some v) :
    (∀ c ∈ t, c.isDigit = true) ∧ v = Nat.ofDigitChars 10 t acc := by
  induction t generalizing acc with
  | nil => rw [readDigits] at h; cases h; simp
  | cons c cs ih =>
    rw [readDigits] at h
    cases hd : digitVal c with
    | none => rw [hd] at h; cases h
    | some d =>
      rw [hd] at h
      obtain ⟨a, b⟩ := digitVal_some hd
      obtain ⟨i1, i2⟩ := ih _ h
      refine ⟨?_, ?_⟩
      · intro x hx
        rcases List.mem_cons.mp hx with e | e
        · rw [e]; exact a
        · exact i1 x e
      · rw [Nat.ofDigitChars_cons, b]; exact i2

theorem readNumber_parseUsize (t : Str) (n : Nat) (h : readNumber t = some n) (hn : n < 2 ^ 64) :
    parseUsize t = some n := by
  unfold readNumber at h
  by_cases h0 : t = []
  · rw [if_pos h0] at h; cases h
  · rw [if_neg h0] at h
    have key : readDigits 0 t = some n := by
      by_cases h1 : t = ['0']
      · rw [if_pos h1] at h; rw [h1]; cases h; rfl
      · rw [if_neg h1] at h
        by_cases h2 : t.head? = some '0'
        · rw [if_pos h2] at h; cases h
        · rw [if_neg h2] at h; exact h
    obtain ⟨a, b⟩ := readDigits_spec t 0 n key
    rw [parseUsize_digits t h0 a]
    simp only [← b, hn, if_true]

/-! ### side, castling, en passant -/
theorem readSide_agrees (t : Str) (c : Color) (h : readSide t = some c) :
    (if t = ['w'] ∨ t = ['W'] then some Color.white
      else if t = ['b'] ∨ t = ['B'] then some Color.black else none) = some c := by
  unfold readSide at h
  split at h
  · cases h; decide
  · cases h; decide
  · cases h

theorem eat_spec (c : Char) (s s' : Str) (b : Bool) (h : eat c s = (b, s')) :
    s = (if b then [c] else []) ++ s' := by
  unfold eat at h
  split at h
  · cases h; rfl
  · split at h
    · cases h; simp_all
    · cases h; rfl

/-- the seventeen castling fields -/
theorem readCastling_form (t : Str) (a b c d : Bool) (h : readCastling t = some (a, b, c, d)) :
    (t = ['-'] ∧ a = false ∧ b = false ∧ c = false ∧ d = false) ∨
    ((a || b || c || d) = true ∧ t = (if a then ['K'] else []) ++ ((if b then ['Q'] else []) ++
      ((if c then ['k'] else []) ++ (if d then ['q'] else [])))) := by
  unfold readCastling at h
  by_cases h0 : t = ['-']
  · rw [if_pos h0] at h
    simp only [Option.some.injEq, Prod.mk.injEq] at h
    obtain ⟨rfl, rfl, rfl, rfl⟩ := h
    exact Or.inl ⟨h0, rfl, rfl, rfl, rfl⟩
  · rw [if_neg h0] at h
    rcases h1 : eat 'K' t with ⟨wk, s1⟩
    rcases h2 : eat 'Q' s1 with ⟨wq, s2⟩
    rcases h3 : eat 'k' s2 with ⟨bk, s3⟩
    rcases h4 : eat 'q' s3 with ⟨bq, s4⟩
    simp only [h1, h2, h3, h4] at h
    split at h
    · rename_i hc
      simp only [Option.some.injEq, Prod.mk.injEq] at h
      obtain ⟨rfl, rfl, rfl, rfl⟩ := h
      refine Or.inr ⟨hc.2, ?_⟩
      have e1 := eat_spec _ _ _ _ h1
      have e2 := eat_spec _ _ _ _ h2
      have e3 := eat_spec _ _ _ _ h3
      have e4 := eat_spec _ _ _ _ h4
      rw [e1, e2, e3, e4, hc.1, List.append_nil]
    · cases h

theorem readCastling_agrees (t : Str) (a b c d : Bool) (h : readCastling t = some (a, b, c, d)) :
    (CR.ofBits (t.contains 'K') (t.contains 'Q')).hasK = a ∧ (CR.ofBits (t.contains 'K') (t.contains 'Q')).hasQ = b ∧
    (CR.ofBits (t.contains 'k') (t.contains 'q')).hasK = c ∧ (CR.ofBits (t.contains 'k') (t.contains 'q')).hasQ = d := by
  rcases readCastling_form t a b c d h with ⟨rfl, rfl, rfl, rfl, rfl⟩ | ⟨h1, rfl⟩
  · decide
  · revert h1
    cases a <;> cases b <;> cases c <;> cases d <;> decide

theorem square_text : ∀ x y : Fin 8, [fileChar x.val, rankChar y.val] = printSquare ⟨8 * y.val + x.val, by omega⟩ := by
  decide

theorem readEp_agrees (t : Str) (ep : Option Sq) (h : readEp t = some ep) :
    (∃ e, parseSquare t = .error e ∧ ep = none) ∨ (∃ s, parseSquare t = .ok s ∧ ep = some s) := by
  unfold readEp at h
  split at h
  · cases h; exact Or.inl ⟨.invalidSquare, by decide, rfl⟩
  · rename_i f r
    split at h
    · rename_i x y hx hy
      cases h
      rw [fileOfChar_some hx, rankOfChar_some hy, square_text, (ep_some_spec _).2]
      exact Or.inr ⟨_, rfl, rfl⟩
    · cases h
  · cases h

/-! ### joining the fields again -/
def joinSep (sep : Char) : List Str → Str
  | [] => []
  | [a] => a
  | a :: b :: l => a ++ sep :: joinSep sep (b :: l)

theorem joinSep_splitOn (sep : Char) (s : Str) : joinSep sep (splitOn sep s) = s := by
  induction s with
  | nil => rfl
  | cons c cs ih =>
    rw [splitOn]
    rcases h : splitOn sep cs with _ | ⟨p, ps⟩
    · exact absurd h (splitOn_ne_nil _ _)
    · rw [h] at ih
      simp only
      by_cases hc : c = sep
      · rw [if_pos hc, joinSep, ih, hc]; rfl
      · rw [if_neg hc]
        cases ps with
        | nil => rw [joinSep] at ih ⊢; rw [ih]
        | cons q qs => rw [joinSep] at ih ⊢; rw [← ih]; rfl

/-! ### one rank, read by the library's cursor -/
theorem getD_replicate_append (n i : Nat) (l : List (Option Piece)) :
    (List.replicate n none ++ l).getD i none = if i < n then none else l.getD (i - n) none := by
  simp only [List.getD_eq_getElem?_getD, List.getElem?_append, List.length_replicate, List.getElem?_replicate]
  split <;> simp_all

/-- the cursor stands in rank `c.rank` having consumed `k` squares of it; the squares from `k` on are still empty.
Reading the text `t` (which the strict reader reads as `cells`) fills exactly the squares `k ..` of the rank with `cells`. -/
theorem run_cells (t : Str) : ∀ (d : Bool) (cells : List (Option Piece)), readCells d t = some cells →
    ∀ (c : FenCursor) (k : Nat), k + cells.length ≤ 8 → (k < 8 → c.file.val = k) →
    (∀ sq : Sq, sq.val / 8 = c.rank.val → k ≤ sq.val % 8 → c.pieces sq = none) →
    ∃ c', run (some c) t = some c' ∧ c'.rank = c.rank ∧
      ∀ sq : Sq, c'.pieces sq =
        if sq.val / 8 = c.rank.val ∧ k ≤ sq.val % 8 then cells.getD (sq.val % 8 - k) none else c.pieces sq := by
  induction t with
  | nil =>
    intro d cells h c k _ _ hfresh
    rw [readCells] at h; cases h
    refine ⟨c, rfl, rfl, fun sq => ?_⟩
    split
    · rename_i hc; rw [hfresh sq hc.1 hc.2]; rfl
    · rfl
  | cons ch cs ih =>
    intro d cells h c k hlen hfile hfresh
    rw [readCells] at h
    cases hp : pieceOfChar ch with
    | some p =>
      rw [hp] at h
      simp only at h
      cases hr : readCells false cs with
      | none => rw [hr] at h; cases h
      | some cells' =>
        rw [hr] at h; cases h
        simp only [List.length_cons] at hlen
        have hk : c.file.val = k := hfile (by omega)
        obtain ⟨c1, k1, k2, k3, k4⟩ := fenStep_piece c p
        have hsq : ∀ sq : Sq, sq = (⟨c.rank.val * 8 + c.file.val, by omega⟩ : Sq) ↔
            (sq.val / 8 = c.rank.val ∧ sq.val % 8 = k) := by
          intro sq; constructor
          · intro e; rw [e]; simp only; omega
          · intro e; apply Fin.ext; simp only; omega
        obtain ⟨c', r1, r2, r3⟩ := ih false cells' hr c1 (k + 1) (by omega) (by intro _; rw [k4, hk]; omega)
          (by
            intro sq a b
            rw [k2, setFn_other _ _ _ _ (by intro e; have := (hsq sq).mp e; omega)]
            exact hfresh sq (by rw [← k3]; exact a) (by omega))
        refine ⟨c', ?_, r2.trans k3, fun sq => ?_⟩
        · rw [pieceOfChar_some hp, run_cons, k1, r1]
        · rw [r3 sq, k3, k2]
          by_cases h1 : sq.val / 8 = c.rank.val ∧ k + 1 ≤ sq.val % 8
          · have h2 : sq.val / 8 = c.rank.val ∧ k ≤ sq.val % 8 := ⟨h1.1, by omega⟩
            rw [if_pos h1, if_pos h2]
            have : sq.val % 8 - k = (sq.val % 8 - (k + 1)) + 1 := by omega
            rw [this, List.getD_cons_succ]
          · rw [if_neg h1]
            by_cases h3 : sq.val / 8 = c.rank.val ∧ sq.val % 8 = k
            · have h2 : sq.val / 8 = c.rank.val ∧ k ≤ sq.val % 8 := ⟨h3.1, by omega⟩
              rw [(hsq sq).mpr h3, setFn_same, if_pos ⟨by simp only; omega, by simp only; omega⟩]
              have : (c.rank.val * 8 + c.file.val) % 8 - k = 0 := by omega
              simp only [this, List.getD_cons_zero]
            · rw [setFn_other _ _ _ _ (by intro e; exact h3 ((hsq sq).mp e))]
              have h2 : ¬ (sq.val / 8 = c.rank.val ∧ k ≤ sq.val % 8) := by omega
              rw [if_neg h2]
    | none =>
      rw [hp] at h
      simp only at h
      cases he : emptyRun ch with
      | none => rw [he] at h; cases h
      | some n =>
        rw [he] at h
        simp only at h
        cases d with
        | true => cases h
        | false =>
          simp only [Bool.false_eq_true, if_false] at h
          cases hr : readCells true cs with
          | none => rw [hr] at h; cases h
          | some cells' =>
            rw [hr] at h; cases h
            obtain ⟨n1, n8, hch⟩ := emptyRun_some he
            simp only [List.length_append, List.length_replicate] at hlen
            have hk : c.file.val = k := hfile (by omega)
            obtain ⟨c1, k1, k2, k3, k4⟩ := fenStep_digit c n n1 n8
            obtain ⟨c', r1, r2, r3⟩ := ih true cells' hr c1 (k + n) (by omega)
              (by intro hh; rw [k4, hk, if_pos hh])
              (by
                intro sq a b
                rw [k2]
                exact hfresh sq (by rw [← k3]; exact a) (by omega))
            refine ⟨c', ?_, r2.trans k3, fun sq => ?_⟩
            · rw [hch, run_cons, k1, r1]
            · rw [r3 sq, k3, k2, getD_replicate_append]
              by_cases h1 : sq.val / 8 = c.rank.val ∧ k + n ≤ sq.val % 8
              · have h2 : sq.val / 8 = c.rank.val ∧ k ≤ sq.val % 8 := ⟨h1.1, by omega⟩
                rw [if_pos h1, if_pos h2, if_neg (by omega)]
                have : sq.val % 8 - k - n = sq.val % 8 - (k + n) := by omega
                rw [this]
              · rw [if_neg h1]
                by_cases h2 : sq.val / 8 = c.rank.val ∧ k ≤ sq.val % 8
                · rw [if_pos h2, if_pos (by omega)]
                  exact hfresh sq h2.1 h2.2
                · rw [if_neg h2]

/-- reader-side analogue of `printRank_spec`: a rank text accepted by the strict reader moves the library's
cursor from the start of the rank to its end, placing exactly the men the strict reader sees -/
theorem rank_spec (T : Sq → Option Piece) (r : Fin 8) (t : Str) (row : List (Option Piece))
    (hrow : readRank t = some row) (hT : ∀ sq : Sq, sq.val / 8 = r.val → T sq = row.getD (sq.val % 8) none)
    (c0 : FenCursor) (h : Start T r c0) : ∃ cur, run (some c0) t = some cur ∧ Done T r cur := by
  obtain ⟨h1, h2, h3⟩ := h
  unfold readRank at hrow
  cases hc : readCells false t with
  | none => rw [hc] at hrow; cases hrow
  | some cells =>
    rw [hc] at hrow
    simp only at hrow
    split at hrow
    · rename_i hl
      cases hrow
      obtain ⟨c', r1, r2, r3⟩ := run_cells t false row hc c0 0 (by omega) (fun _ => h2)
        (by intro sq a _; rw [h3 sq, if_neg (by rw [← h1]; omega)])
      refine ⟨c', r1, r2.trans h1, fun sq => ?_⟩
      rw [r3 sq, h1]
      by_cases e : sq.val / 8 = r.val
      · rw [if_pos ⟨e, Nat.zero_le _⟩, if_pos (by omega), hT sq e]; rfl
      · rw [if_neg (fun x => e x.1), h3 sq]
        by_cases e2 : r.val < sq.val / 8
        · rw [if_pos e2, if_pos (by omega)]
        · rw [if_neg e2, if_neg (by omega)]
    · cases hrow

theorem next_rank' {T : Sq → Option Piece} {r : Fin 8} {cur : FenCursor} (h : Done T r cur) (r' : Fin 8)
    (hr : r.val = r'.val + 1) (t : Str) (row : List (Option Piece)) (hrow : readRank t = some row)
    (hT : ∀ sq : Sq, sq.val / 8 = r'.val → T sq = row.getD (sq.val % 8) none) (rest : Str) :
    ∃ cur', run (some cur) ('/' :: (t ++ rest)) = run (some cur') rest ∧ Done T r' cur' := by
  obtain ⟨h1, h2⟩ := h
  obtain ⟨c0, a, b, c, d⟩ := fenStep_slash cur (by rw [h1]; omega)
  have hs : Start T r' c0 := by
    refine ⟨Fin.ext (by rw [c, h1]; omega), d, fun sq => ?_⟩
    rw [b, h2 sq]
    by_cases k : r.val ≤ sq.val / 8
    · have : r'.val < sq.val / 8 := by omega
      simp [k, this]
    · have : ¬ r'.val < sq.val / 8 := by omega
      simp [k, this]
  obtain ⟨cur', e, dn⟩ := rank_spec T r' t row hrow hT c0 hs
  exact ⟨cur', by rw [run_cons, a, run_append, e], dn⟩

/-! ### the placement field -/
theorem mapM_cons_some {α β} (f : α → Option β) (a : α) (l : List α) (rows : List β)
    (h : (a :: l).mapM f = some rows) : ∃ b bs, f a = some b ∧ l.mapM f = some bs ∧ rows = b :: bs := by
  rw [List.mapM_cons] at h
  cases hb : f a with
  | none => rw [hb] at h; cases h
  | some b =>
    cases hbs : l.mapM f with
    | none => rw [hb, hbs] at h; cases h
    | some bs =>
      rw [hb, hbs] at h
      cases h
      exact ⟨b, bs, rfl, rfl, rfl⟩

theorem mapM_length {α β} (f : α → Option β) (l : List α) (rows : List β) (h : l.mapM f = some rows) :
    rows.length = l.length := by
  induction l generalizing rows with
  | nil => rw [List.mapM_nil] at h; cases h; rfl
  | cons a l ih =>
    obtain ⟨b, bs, _, h2, rfl⟩ := mapM_cons_some f a l rows h
    simp [ih bs h2]

theorem len8 {α} (l : List α) (h : l.length = 8) : ∃ a b c d e f g i, l = [a, b, c, d, e, f, g, i] := by
  rcases l with _ | ⟨a, _ | ⟨b, _ | ⟨c, _ | ⟨d, _ | ⟨e, _ | ⟨f, _ | ⟨g, _ | ⟨i, _ | ⟨j, l⟩⟩⟩⟩⟩⟩⟩⟩⟩ <;>
    simp only [List.length_cons, List.length_nil] at h <;> first | omega | exact ⟨_, _, _, _, _, _, _, _, rfl⟩

theorem rowsT_getD (w7 w6 w5 w4 w3 w2 w1 w0 : List (Option Piece)) (r : Fin 8) :
    ([w7, w6, w5, w4, w3, w2, w1, w0] : List (List (Option Piece))).getD (7 - r.val) [] =
      ([w0, w1, w2, w3, w4, w5, w6, w7] : List (List (Option Piece))).getD r.val [] := by
  match r with
  | ⟨0, _⟩ => rfl | ⟨1, _⟩ => rfl | ⟨2, _⟩ => rfl | ⟨3, _⟩ => rfl
  | ⟨4, _⟩ => rfl | ⟨5, _⟩ => rfl | ⟨6, _⟩ => rfl | ⟨7, _⟩ => rfl

/-- a placement field accepted by the strict reader is accepted by the library's cursor, with the same meaning -/
theorem readPlacement_agrees (t : Str) (pl : Sq → Option Piece) (h : readPlacement t = some pl) :
    ∃ cur, run (some { pieces := fun _ => none, rank := 7, file := 0 }) t = some cur ∧ cur.pieces = pl := by
  unfold readPlacement at h
  cases hm : (fields '/' t).mapM readRank with
  | none => rw [hm] at h; cases h
  | some rows =>
    rw [hm] at h
    simp only at h
    split at h
    · rename_i hl
      cases h
      have hl' := mapM_length _ _ _ hm
      obtain ⟨t7, t6, t5, t4, t3, t2, t1, t0, ht⟩ := len8 (fields '/' t) (by omega)
      rw [ht] at hm
      obtain ⟨w7, ws7, g7, hm7, hrows7⟩ := mapM_cons_some _ _ _ _ hm
      obtain ⟨w6, ws6, g6, hm6, hrows6⟩ := mapM_cons_some _ _ _ _ hm7
      obtain ⟨w5, ws5, g5, hm5, hrows5⟩ := mapM_cons_some _ _ _ _ hm6
      obtain ⟨w4, ws4, g4, hm4, hrows4⟩ := mapM_cons_some _ _ _ _ hm5
      obtain ⟨w3, ws3, g3, hm3, hrows3⟩ := mapM_cons_some _ _ _ _ hm4
      obtain ⟨w2, ws2, g2, hm2, hrows2⟩ := mapM_cons_some _ _ _ _ hm3
      obtain ⟨w1, ws1, g1, hm1, hrows1⟩ := mapM_cons_some _ _ _ _ hm2
      obtain ⟨w0, ws0, g0, hm0, hrows0⟩ := mapM_cons_some _ _ _ _ hm1
      rw [List.mapM_nil] at hm0; cases hm0
      subst hrows0 hrows1 hrows2 hrows3 hrows4 hrows5 hrows6 hrows7
      -- the text is the eight rank texts joined by '/'
      have hjoin : t = t7 ++ ('/' :: (t6 ++ '/' :: (t5 ++ '/' :: (t4 ++ '/' :: (t3 ++ '/' :: (t2 ++ '/' :: (t1 ++ '/' :: (t0 ++ [])))))))) := by
        have := joinSep_splitOn '/' t
        rw [← fields_eq_splitOn, ht] at this
        rw [← this]; simp [joinSep]
      -- the placement the strict reader returns
      generalize hT : (fun sq : Sq => (([w7, w6, w5, w4, w3, w2, w1, w0] : List (List (Option Piece))).getD
        (7 - sq.val / 8) []).getD (sq.val % 8) none) = T
      have hTr : ∀ (r : Fin 8) (sq : Sq), sq.val / 8 = r.val →
          T sq = (([w0, w1, w2, w3, w4, w5, w6, w7] : List (List (Option Piece))).getD r.val []).getD (sq.val % 8) none := by
        intro r sq e
        rw [← hT]
        simp only
        rw [e, rowsT_getD]
      have hs : Start T 7 { pieces := fun _ => none, rank := 7, file := 0 } := by
        refine ⟨rfl, rfl, fun sq => ?_⟩
        have : ¬ (7 : Fin 8).val < sq.val / 8 := by have := sq.isLt; simp; omega
        simp [this]
      obtain ⟨c7, e7, d7⟩ := rank_spec T 7 t7 w7 g7 (hTr 7) _ hs
      obtain ⟨c6, e6, d6⟩ := next_rank' d7 6 rfl t6 w6 g6 (hTr 6)
        ('/' :: (t5 ++ '/' :: (t4 ++ '/' :: (t3 ++ '/' :: (t2 ++ '/' :: (t1 ++ '/' :: (t0 ++ [])))))))
      obtain ⟨c5, e5, d5⟩ := next_rank' d6 5 rfl t5 w5 g5 (hTr 5)
        ('/' :: (t4 ++ '/' :: (t3 ++ '/' :: (t2 ++ '/' :: (t1 ++ '/' :: (t0 ++ []))))))
      obtain ⟨c4, e4, d4⟩ := next_rank' d5 4 rfl t4 w4 g4 (hTr 4)
        ('/' :: (t3 ++ '/' :: (t2 ++ '/' :: (t1 ++ '/' :: (t0 ++ [])))))
      obtain ⟨c3, e3, d3⟩ := next_rank' d4 3 rfl t3 w3 g3 (hTr 3)
        ('/' :: (t2 ++ '/' :: (t1 ++ '/' :: (t0 ++ []))))
      obtain ⟨c2, e2, d2⟩ := next_rank' d3 2 rfl t2 w2 g2 (hTr 2)
        ('/' :: (t1 ++ '/' :: (t0 ++ [])))
      obtain ⟨c1, e1, d1⟩ := next_rank' d2 1 rfl t1 w1 g1 (hTr 1)
        ('/' :: (t0 ++ []))
      obtain ⟨c0, e0, d0⟩ := next_rank' d1 0 rfl t0 w0 g0 (hTr 0)
        ([])
      refine ⟨c0, ?_, ?_⟩
      · rw [hjoin, run_append, e7, e6, e5, e4, e3, e2, e1, e0, run_nil]
      · funext sq; rw [d0.2 sq]; simp
    · cases h

end C08Spec
open C08Spec

/-! ## MAIN -/

/-- MAIN: the text written for a builder is a standard FEN record (accepted by the strict, independent
reader `FenSpec.read`) and its meaning is exactly the content of the builder.  For every placement (legal
or not), every combination of rights, every en-passant square and ALL clock values. -/
theorem C08_standard (bb : Builder) : FenSpec.read (printFen bb) = some (recordOf bb) := by
  unfold FenSpec.read
  rw [fields_eq_splitOn, C08.split_printFen]
  simp only [readPlacement_placement, readSide_stmText, readCastling_castlesText, readEp_epText,
    readNumber_natStr]
  rfl

/-- MAIN (boards): `as_fen` of a consistent board is the standard FEN of its observable state: placement
`b.abs`, side to move, the four castling rights, en-passant square and both clocks. -/
theorem C08_asFen_standard (b : Board) (hc : b.Cons) : FenSpec.read b.asFen = some (recordOfPos b.absPos) := by
  unfold Board.asFen
  rw [C08_standard, ← toBuilder_toPos hc]
  rfl

/-- MAIN (input direction): every standard FEN record whose clocks fit a `usize` is accepted by the library's
parser, with the same meaning.  (The library's parser is laxer: it also accepts non-standard texts.) -/
theorem C08_read_agrees_parse (s : Str) (r : FenRecord) (h : FenSpec.read s = some r)
    (hb : r.half < 2 ^ 64 ∧ r.full < 2 ^ 64) : ∃ bb, parseFen s = .ok bb ∧ recordOf bb = r := by
  unfold FenSpec.read at h
  split at h
  · rename_i f1 f2 f3 f4 f5 f6 hf
    split at h
    · rename_i pl stm wk wq bk bq ep half full h1 h2 h3 h4 h5 h6
      cases h
      obtain ⟨cur, hrun, hP⟩ := readPlacement_agrees f1 pl h1
      have hstm := readSide_agrees f2 stm h2
      obtain ⟨a1, a2, a3, a4⟩ := readCastling_agrees f3 wk wq bk bq h3
      have hep := readEp_agrees f4 ep h4
      have hh := readNumber_parseUsize f5 half h5 hb.1
      have hfl := readNumber_parseUsize f6 full h6 hb.2
      unfold parseFen
      rw [← fields_eq_splitOn, hf]
      simp only [hh, hfl]
      unfold run at hrun
      simp only [hrun, hstm]
      rcases hep with ⟨e, hq, rfl⟩ | ⟨q, hq, rfl⟩
      · simp only [hq]
        refine ⟨_, rfl, ?_⟩
        simp only [recordOf, a1, a2, a3, a4, hP]
      · simp only [hq]
        refine ⟨_, rfl, ?_⟩
        simp only [recordOf, a1, a2, a3, a4, hP]
    · cases h
  · cases h

/-- re-printing what the library parsed from a standard FEN gives a standard FEN with the same meaning -/
theorem C08_standard_reprint (s : Str) (r : FenRecord) (h : FenSpec.read s = some r)
    (hb : r.half < 2 ^ 64 ∧ r.full < 2 ^ 64) :
    ∃ bb, parseFen s = .ok bb ∧ FenSpec.read (printFen bb) = some r := by
  obtain ⟨bb, h1, h2⟩ := C08_read_agrees_parse s r h hb
  exact ⟨bb, h1, by rw [C08_standard, h2]⟩

/-- the hypotheses are satisfiable: the text of the empty builder is standard, so the parser accepts it -/
example : ∃ bb, parseFen (printFen Builder.new) = .ok bb ∧ recordOf bb = recordOf Builder.new :=
  C08_read_agrees_parse _ _ (C08_standard _) (by decide)

end Chess
