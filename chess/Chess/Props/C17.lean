import Chess.Lemmas.Tables
import Chess.Spec.Rules
/-! # C17 — precomputed movement tables equal the geometric definitions on all squares

`dr`/`df` are the rank/file offsets from `a` to `b`.  The OR-accumulating generator loops are handled by a
general lemma (`mem_collect`); what remains is coordinate arithmetic over the finite domain `Fin 64 × Fin 64`
(× colour, × third square), discharged by the kernel (`decide +kernel`) — the whole domain, not a sample. -/
namespace Chess.C17
open Chess Chess.Spec

def dr (a b : Sq) : Int := b.rank - a.rank
def df (a b : Sq) : Int := b.file - a.file

/-- geometric definition of the eight directions -/
def onRay (i : Fin 8) (a b : Sq) : Bool :=
  match i with
  | 0 => df a b == 0 && decide (dr a b > 0)                                   -- up
  | 1 => df a b == 0 && decide (dr a b < 0)                                   -- down
  | 2 => dr a b == 0 && decide (df a b > 0)                                   -- right
  | 3 => dr a b == 0 && decide (df a b < 0)                                   -- left
  | 4 => dr a b == df a b && decide (dr a b > 0)                              -- up-right
  | 5 => dr a b == - df a b && decide (dr a b > 0)                            -- up-left
  | 6 => dr a b == - df a b && decide (dr a b < 0)                            -- down-right
  | 7 => dr a b == df a b && decide (dr a b < 0)                              -- down-left

theorem rays_spec : ∀ (i : Fin 8) (a b : Sq), mem b (ray a i) = onRay i a b := by
  simp only [mem_ray]; decide +kernel

theorem knight_spec : ∀ a b : Sq, mem b (knightT a) =
    (((dr a b).natAbs == 1 && (df a b).natAbs == 2) || ((dr a b).natAbs == 2 && (df a b).natAbs == 1)) := by
  simp only [knightT_eq, knightGen, mem_collect]; decide +kernel

theorem king_spec : ∀ a b : Sq, mem b (kingT a) = (a != b && decide ((dr a b).natAbs ≤ 1) && decide ((df a b).natAbs ≤ 1)) := by
  simp only [kingT_eq, kingGen, mem_xor, mem_collect, mem_bbOf]; decide +kernel

theorem rook_spec : ∀ a b : Sq, mem b (rookT a) = orthogonal a b := by
  simp only [rookT, mem_or, mem_ray]; decide +kernel
theorem bishop_spec : ∀ a b : Sq, mem b (bishopT a) = diagonal a b := by
  simp only [bishopT, mem_or, mem_ray]; decide +kernel
theorem queen_spec : ∀ a b : Sq, mem b (queenT a) = (orthogonal a b || diagonal a b) := by
  intro a b; simp only [queenT, mem_or, rook_spec, bishop_spec]

theorem pawn_push_spec : ∀ (c : Color) (a b : Sq), mem b (pawnPush c a) = (df a b == 0 && dr a b == fwd c) := by
  intro c; cases c <;> (simp only [pawnPush_eq]; decide +kernel)
theorem pawn_double_spec : ∀ (c : Color) (a b : Sq),
    mem b (pawnDouble c a) = (df a b == 0 && dr a b == 2 * fwd c && a.rank == pawnRank c) := by
  intro c; cases c <;> (simp only [pawnDouble_eq]; decide +kernel)
theorem pawn_capture_spec : ∀ (c : Color) (a b : Sq),
    mem b (pawnCap c a) = (dr a b == fwd c && (df a b).natAbs == 1) := by
  intro c; cases c <;> (simp only [pawnCap_eq, pawnCapGen, mem_collect]; decide +kernel)

/-- on a common rank, file or diagonal (or identical) -/
def aligned (a b : Sq) : Bool := a == b || orthogonal a b || diagonal a b

/-- the whole table in one Boolean: for every ordered pair, `None` exactly off a common line, otherwise exactly
the strictly-between squares -/
def betweenOk (a : Sq) : Bool := allSq.all fun b =>
  match between a b with
  | none => !aligned a b
  | some m => aligned a b && allSq.all fun c => mem c m == strictlyBetween a c b

theorem between_table_ok : ∀ a : Sq, betweenOk a = true := by
  simp only [betweenOk, between_eq]; decide +kernel

theorem between_none_iff (a b : Sq) : between a b = none ↔ aligned a b = false := by
  have h := between_table_ok a
  simp only [betweenOk, List.all_eq_true] at h
  have hb := h b (List.mem_finRange b)
  cases hm : between a b with
  | none => simp [hm] at hb; simp [hb]
  | some m => simp [hm] at hb; simp [hb.1]

theorem between_spec (a b : Sq) (m : BB) (h : between a b = some m) (c : Sq) :
    mem c m = strictlyBetween a c b := by
  have h0 := between_table_ok a
  simp only [betweenOk, List.all_eq_true] at h0
  have hb := h0 b (List.mem_finRange b)
  simp only [h, Bool.and_eq_true, List.all_eq_true, beq_iff_eq] at hb
  exact hb.2 c (List.mem_finRange c)

theorem between_symm : ∀ a b : Sq, between a b = between b a := by
  intro a b; simp only [between_eq]
  by_cases h1 : a.val ≤ b.val <;> by_cases h2 : b.val ≤ a.val <;> simp [h1, h2]
  · have : a = b := Fin.ext (by omega)
    subst this; rfl
  · omega

theorem between_identical : ∀ a : Sq, between a a = some 0#64 := by
  intro a; simp [between_eq, betweenGen]

/-- adjacent aligned squares have an empty between-set -/
theorem between_adjacent : ∀ a b : Sq, kingT a |>.getLsbD b.val → between a b = some 0#64 := by
  simp only [between_eq, kingT_eq]; decide +kernel

/-! non-vacuity: concrete entries -/
example : between 0 63 = some 0x0040201008040200#64 := by simp only [between_eq]; decide +kernel
example : between 0 10 = none := by simp only [between_eq]; decide +kernel

end Chess.C17
