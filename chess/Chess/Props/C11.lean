import Chess.Props.C13
import Chess.Props.C07
/-! # C11 — occurrence counting and the repetition rule (M1 level)

"The occurrence counter the game reports equals the true number of occurrences for every position of the
history; repetition is declared iff no board result applies and the current position has occurred at least
three times."

The game keys its counter by the 64-bit Zobrist hash.  What is proved unconditionally, for every reachable
game (`GameReach`):
* the counter is a well-formed map (pairwise distinct keys, keys = hashes of the history positions);
* the counter value at a hash is the number of history positions with that hash (`C11_counter_hash`);
* positions with the same repetition key (placement, side to move, castling rights, en-passant square) have
  the same hash (`C11_sameKey_hash`, from C07), so the counter never under-counts (`C11_counter_ge`);
* after a move, repetition is declared iff the board gives no result and the counter of the new position is ≥ 3.

The converse "same hash ⇒ same key" is FALSE in general (a 64-bit hash has collisions), therefore
"counter = true number of occurrences" is proved only under the hypothesis `hinj` that no two positions of
this game's history collide (`C11_counter_partial`, `C11_declared_occurrences_partial`). -/
namespace Chess
open Chess.Game

variable (K : Keys)

/-! ## the counter is a well-formed map and counts hashes -/

/-- invariant: the keys of the counter are pairwise distinct -/
theorem C11_counter_nodup (g : Game) (hr : GameReach K g) : (g.counter.map (·.1)).Nodup := by
  induction hr with
  | init b => rw [ofBoard_counter]; simp
  | @step g g' a _ ha ih =>
    rcases act_cases K g g' a ha with ⟨m, nb, mp, _, _, _, _, _, _, hc⟩ | ⟨_, _, _, hc⟩
    · rw [hc, counterIncrement_counter]; exact ckeys_cins_nodup _ _ _ ih
    · rw [hc]; exact ih

theorem C11_counter_pairwise (g : Game) (hr : GameReach K g) : g.counter.Pairwise (fun e e' => e.1 ≠ e'.1) := by
  have := C11_counter_nodup K g hr
  rw [List.Nodup, List.pairwise_map] at this
  exact this

/-- there is at most one entry per key, so the `find?`-lookup returns THE entry of a key -/
theorem C11_counter_entry (g : Game) (hr : GameReach K g) (e : BB × Nat) (he : e ∈ g.counter) :
    g.counterGet e.1 = e.2 := by
  have hp := C11_counter_pairwise K g hr
  rw [counterGet_eq]
  generalize g.counter = l at he hp
  induction l with
  | nil => cases he
  | cons x l ih =>
    rw [cget_cons]
    rw [List.pairwise_cons] at hp
    rcases List.mem_cons.1 he with rfl | hm
    · simp
    · have : (x.1 == e.1) = false := by simpa using hp.1 e hm
      rw [this]; exact ih hm hp.2

/-- **C11 (core).**  The counter at a hash value is the number of history positions with that hash
(the start position counted). -/
theorem C11_counter_hash (g : Game) (hr : GameReach K g) (h : BB) :
    g.counterGet h = (g.history.positions.filter (fun q => q.hash == h)).length := by
  induction hr with
  | init b =>
    rw [counterGet_eq, ofBoard_counter, ofBoard_history, cget_cons]
    simp only [History.fromPosition, List.filter_cons, List.filter_nil, cget_nil]
    by_cases hb : b.hash == h <;> simp [hb]
  | @step g g' a _ ha ih =>
    rcases act_cases K g g' a ha with ⟨m, nb, mp, _, _, _, _, _, hh, hc⟩ | ⟨_, _, hh, hc⟩
    · have e : g'.counterGet h = (({ g with position := nb } : Game).counterIncrement).counterGet h := by
        rw [counterGet_eq, counterGet_eq, hc]
      rw [e, counterIncrement_get, hh]
      show g.counterGet h + _ = _
      rw [ih, List.filter_append, List.length_append]
      simp only [List.filter_cons, List.filter_nil]
      by_cases hb : nb.hash == h <;> simp [hb]
    · rw [counterGet_eq, hc, hh, ← counterGet_eq]; exact ih

/-- what `get_position_counter` reports for any board -/
theorem C11_positionCounter (g : Game) (hr : GameReach K g) (p : Board) :
    g.positionCounter p = (g.history.positions.filter (fun q => q.hash == p.hash)).length :=
  C11_counter_hash K g hr p.hash

/-- the keys of the counter are exactly the hashes of the history positions -/
theorem C11_counter_keys (g : Game) (hr : GameReach K g) :
    ∀ h : BB, h ∈ g.counter.map (·.1) ↔ ∃ q ∈ g.history.positions, q.hash = h := by
  induction hr with
  | init b => intro h; rw [ofBoard_counter, ofBoard_history]; simp [History.fromPosition, eq_comm]
  | @step g g' a _ ha ih =>
    intro h
    rcases act_cases K g g' a ha with ⟨m, nb, mp, _, _, _, _, _, hh, hc⟩ | ⟨_, _, hh, hc⟩
    · rw [hc, counterIncrement_counter, hh]
      have := ckeys_cins g.counter nb.hash (cget g.counter nb.hash + 1)
      unfold ckeys at this
      show h ∈ List.map (·.1) (cins g.counter nb.hash _) ↔ _
      rw [this]
      simp only [List.mem_append, List.mem_singleton]
      by_cases hany : g.counter.any (·.1 == nb.hash) = true
      · rw [if_pos hany, ih]
        have hk : nb.hash ∈ g.counter.map (·.1) := (any_key_iff _ _).1 hany
        rw [ih] at hk
        constructor
        · rintro ⟨q, hq, e⟩; exact ⟨q, Or.inl hq, e⟩
        · rintro ⟨q, hq | hq, e⟩
          · exact ⟨q, hq, e⟩
          · subst hq; obtain ⟨q', hq', e'⟩ := hk; exact ⟨q', hq', e'.trans e⟩
      · rw [if_neg hany, List.mem_append, ih, List.mem_singleton]
        constructor
        · rintro (⟨q, hq, e⟩ | e)
          · exact ⟨q, Or.inl hq, e⟩
          · exact ⟨nb, Or.inr rfl, e.symm⟩
        · rintro ⟨q, hq | hq, e⟩
          · exact Or.inl ⟨q, hq, e⟩
          · subst hq; exact Or.inr e.symm
    · rw [hc, hh]; exact ih h

/-- every position of the history has been counted at least once; the current position in particular -/
theorem C11_counter_pos (g : Game) (hr : GameReach K g) (p : Board) (hp : p ∈ g.history.positions) :
    1 ≤ g.positionCounter p := by
  rw [C11_positionCounter K g hr]
  exact List.length_pos_of_mem (List.mem_filter.2 ⟨hp, by simp⟩)

theorem C11_current_mem (g : Game) (hr : GameReach K g) : g.position ∈ g.history.positions :=
  List.mem_of_getLast? (C13_chain' K g hr).last

/-! ## the repetition key and its relation to the hash -/

/-- the repetition key of two boards agrees: same placement, side to move, castling rights, en-passant square
(`Spec.sameKey` on the positions the boards stand for) -/
def sameKey (p q : Board) : Bool := Spec.sameKey p.absPos q.absPos

theorem sameKey_iff (p q : Board) :
    sameKey p q = true ↔ p.abs = q.abs ∧ p.stm = q.stm ∧ p.rights = q.rights ∧ p.ep = q.ep := by
  unfold sameKey Spec.sameKey Board.absPos
  simp only [Bool.and_eq_true, List.all_eq_true, beq_iff_eq]
  constructor
  · rintro ⟨⟨⟨⟨ha, hs⟩, hw⟩, hb⟩, he⟩
    refine ⟨funext fun s => ha s (by simp [allSq]), hs, ?_, he⟩
    funext c
    cases c
    · exact CR.toRights_inj hw
    · exact CR.toRights_inj hb
  · rintro ⟨ha, hs, hr, he⟩
    refine ⟨⟨⟨⟨fun s _ => by rw [ha], hs⟩, by rw [hr]⟩, by rw [hr]⟩, he⟩

theorem sameKey_refl (p : Board) : sameKey p p = true := (sameKey_iff p p).2 ⟨rfl, rfl, rfl, rfl⟩
theorem sameKey_symm (p q : Board) : sameKey p q = sameKey q p := by
  rw [Bool.eq_iff_iff, sameKey_iff, sameKey_iff]
  constructor <;> (rintro ⟨a, b, c, d⟩; exact ⟨a.symm, b.symm, c.symm, d.symm⟩)

/-- a board whose masks encode one placement and whose stored hash is the hash from scratch -/
def Board.HashGood (b : Board) : Prop := b.Cons ∧ b.hash = b.calcHash K

/-- invariant of histories: if the start board is good, every position of the history is good -/
theorem C11_history_good (g : Game) (hr : GameReach K g)
    (hstart : ∀ b, g.history.positions.head? = some b → Board.HashGood K b) :
    ∀ q ∈ g.history.positions, Board.HashGood K q := by
  intro q hq
  obtain ⟨i, hi, rfl⟩ := List.getElem_of_mem hq
  have h0 : 0 < g.history.positions.length := by omega
  have hs := hstart g.history.positions[0] (by rw [List.head?_eq_getElem?, List.getElem?_eq_getElem h0])
  rw [C13_replay K g hr i hi h0]
  exact C07_reachable K _ hs.1 hs.2 _

/-- the start position of a game is the board it was built from, and no action changes it -/
theorem C11_start_ofBoard (b : Board) : (ofBoard b).history.positions.head? = some b := by
  rw [ofBoard_history]; rfl

theorem C11_start_step (g g' : Game) (hr : GameReach K g) (a : Action) (ha : g.act K a = .ok g') :
    g'.history.positions.head? = g.history.positions.head? := by
  rcases act_cases K g g' a ha with ⟨m, nb, mp, _, _, _, _, _, hh, _⟩ | ⟨_, _, hh, _⟩
  · rw [hh]
    obtain ⟨b, hb⟩ := C13_start K g hr
    cases hp : g.history.positions with
    | nil => rw [hp] at hb; cases hb
    | cons x l => rfl
  · rw [hh]

/-- same repetition key ⇒ same hash, for good boards (C07 path independence) -/
theorem C11_sameKey_hash (p q : Board) (hp : Board.HashGood K p) (hq : Board.HashGood K q)
    (h : sameKey p q = true) : p.hash = q.hash :=
  C07_path_independent K p q hp.1 hq.1 hp.2 hq.2 ((sameKey_iff p q).1 h)

theorem filter_length_le_of_imp {α} (l : List α) (p q : α → Bool) (h : ∀ x ∈ l, p x = true → q x = true) :
    (l.filter p).length ≤ (l.filter q).length := by
  induction l with
  | nil => simp
  | cons x l ih =>
    have ih' := ih (fun y hy => h y (List.mem_cons_of_mem _ hy))
    have hx := h x List.mem_cons_self
    simp only [List.filter_cons]
    cases hpx : p x
    · cases hqx : q x <;> simp <;> omega
    · rw [hx hpx]; simp; exact ih'

/-- the counter never under-counts: it is at least the true number of occurrences -/
theorem C11_counter_ge (g : Game) (hr : GameReach K g)
    (hstart : ∀ b, g.history.positions.head? = some b → Board.HashGood K b)
    (p : Board) (hp : p ∈ g.history.positions) :
    (g.history.positions.filter (fun q => sameKey q p)).length ≤ g.positionCounter p := by
  rw [C11_positionCounter K g hr]
  have hg := C11_history_good K g hr hstart
  apply filter_length_le_of_imp
  intro q hq hsk
  simpa using C11_sameKey_hash K q p (hg q hq) (hg p hp) hsk

/-! ## counter = true number of occurrences (modulo hash collisions) -/

/- FULL statement (not provable, false for colliding positions):
   `∀ g, GameReach K g → (start good) → ∀ p ∈ g.history.positions,
      g.positionCounter p = (g.history.positions.filter (fun q => sameKey q p)).length`.
   Missing: "two history positions with the same 64-bit hash have the same repetition key".  The library
   (and the model) identify positions by hash alone, so a collision inside one game would over-count.
   That assumption is the explicit hypothesis `hinj`; everything else is proved. -/
/-- **C11 (counter), partial: assuming no hash collision among the positions of this game.** -/
theorem C11_counter_partial (g : Game) (hr : GameReach K g)
    (hstart : ∀ b, g.history.positions.head? = some b → Board.HashGood K b)
    (hinj : ∀ p q, p ∈ g.history.positions → q ∈ g.history.positions → p.hash = q.hash → sameKey p q = true)
    (p : Board) (hp : p ∈ g.history.positions) :
    g.positionCounter p = (g.history.positions.filter (fun q => sameKey q p)).length := by
  rw [C11_positionCounter K g hr]
  have hg := C11_history_good K g hr hstart
  congr 1
  apply List.filter_congr
  intro q hq
  rw [Bool.eq_iff_iff]
  constructor
  · intro h; exact hinj q p hq hp (by simpa using h)
  · intro h; simpa using C11_sameKey_hash K q p (hg q hq) (hg p hp) h

/-- the same for the current position: what the game reports for it is its number of occurrences -/
theorem C11_counter_current_partial (g : Game) (hr : GameReach K g)
    (hstart : ∀ b, g.history.positions.head? = some b → Board.HashGood K b)
    (hinj : ∀ p q, p ∈ g.history.positions → q ∈ g.history.positions → p.hash = q.hash → sameKey p q = true) :
    g.positionCounter g.position = (g.history.positions.filter (fun q => sameKey q g.position)).length :=
  C11_counter_partial K g hr hstart hinj _ (C11_current_mem K g hr)

/-- the same in the vocabulary of the specification (`Spec.occurrences` is
`(history g).countP (Spec.sameKey (posAfter g))`): the reported counter of the current position is the number
of specification positions of the history with the repetition key of the current one -/
theorem C11_counter_spec_partial (g : Game) (hr : GameReach K g)
    (hstart : ∀ b, g.history.positions.head? = some b → Board.HashGood K b)
    (hinj : ∀ p q, p ∈ g.history.positions → q ∈ g.history.positions → p.hash = q.hash → sameKey p q = true) :
    g.positionCounter g.position =
      (g.history.positions.map Board.absPos).countP (Spec.sameKey g.position.absPos) := by
  rw [C11_counter_current_partial K g hr hstart hinj, List.countP_map, List.countP_eq_length_filter]
  congr 1
  apply List.filter_congr
  intro q _
  exact sameKey_symm q g.position

/-- the hypotheses of `C11_counter_partial` are satisfiable: the initial game of any good board -/
example (b : Board) (hb : Board.HashGood K b) :
    (∀ b', (ofBoard b).history.positions.head? = some b' → Board.HashGood K b') ∧
    (∀ p q, p ∈ (ofBoard b).history.positions → q ∈ (ofBoard b).history.positions → p.hash = q.hash → sameKey p q = true) ∧
    (ofBoard b).positionCounter b = 1 := by
  refine ⟨?_, ?_, ?_⟩
  · intro b' h; rw [C11_start_ofBoard] at h; cases h; exact hb
  · intro p q hp hq _
    simp only [ofBoard_history, History.fromPosition, List.mem_singleton] at hp hq
    subst hp; subst hq; exact sameKey_refl _
  · rw [C11_positionCounter K _ (.init b)]; simp [History.fromPosition]

/-! ## when repetition is declared -/

/-- the status after an accepted move: the board result if there is one, otherwise repetition iff counter ≥ 3 -/
theorem C11_status_after_move (g g' : Game) (m : Move) (h : g.act K (.move m) = .ok g') :
    g.status = .ongoing ∧
    g'.status = (match g'.position.getStatus with
      | .checkmated c => .checkMated c
      | .theoreticalDraw => .theoreticalDraw
      | .stalemate => .stalemate
      | .fiftyMoves => .fiftyMoves
      | .ongoing => if g'.positionCounter g'.position ≥ 3 then .repetition else .ongoing) := by
  have hs : g.status = .ongoing := by
    rcases act_cases K g g' _ h with ⟨_, _, _, _, hs, _⟩ | ⟨hne, _⟩
    · exact hs
    · exact absurd rfl (hne m)
  exact ⟨hs, (C12.move_result K g g' m hs h).2.1⟩

/-- **C11 (declared).**  After an accepted move the game is declared drawn by repetition iff the board gives
no result (no mate, stalemate, insufficient material or fifty-move draw) and the counter of the new current
position is at least three. -/
theorem C11_declared (g g' : Game) (m : Move) (h : g.act K (.move m) = .ok g') :
    g'.status = .repetition ↔ g'.position.getStatus = .ongoing ∧ 3 ≤ g'.positionCounter g'.position := by
  rw [(C11_status_after_move K g g' m h).2]
  cases g'.position.getStatus <;> simp

/-- the other statuses after a move are the board results -/
theorem C11_not_declared (g g' : Game) (m : Move) (h : g.act K (.move m) = .ok g')
    (hn : g'.status ≠ .repetition) :
    g'.status = (match g'.position.getStatus with
      | .checkmated c => .checkMated c
      | .theoreticalDraw => .theoreticalDraw
      | .stalemate => .stalemate
      | .fiftyMoves => .fiftyMoves
      | .ongoing => .ongoing) := by
  have h2 := (C11_status_after_move K g g' m h).2
  rw [h2] at hn ⊢
  cases hg : g'.position.getStatus <;> simp only [hg] at hn ⊢
  by_cases hc : g'.positionCounter g'.position ≥ 3
  · simp [hc] at hn
  · simp [hc]

/-- repetition is never declared at construction (the counter is still empty when the status is computed) -/
theorem C11_initial_not_repetition (b : Board) : (ofBoard b).status ≠ .repetition := by
  rw [C12.initial_status]
  cases b.getStatus <;> simp

/-- non-move actions never declare repetition -/
theorem C11_nonmove_not_repetition (g g' : Game) (a : Action) (hne : ∀ m, a ≠ .move m) (h : g.act K a = .ok g') :
    g'.status ≠ .repetition := by
  unfold act at h
  cases a with
  | move m => exact absurd rfl (hne m)
  | offerDraw c => cases hs : g.status <;> simp [hs] at h <;> subst h <;> simp [updateStatus]
  | acceptDraw => cases hs : g.status <;> simp [hs] at h <;> subst h <;> simp [updateStatus]
  | declineDraw => cases hs : g.status <;> simp [hs] at h <;> subst h <;> simp [updateStatus]
  | resign c => cases hs : g.status <;> simp [hs] at h <;> subst h <;> simp [updateStatus]

/-- **C11 (declared), in terms of true occurrences — partial in the same respect as `C11_counter_partial`.** -/
theorem C11_declared_occurrences_partial (g g' : Game) (hr : GameReach K g) (m : Move)
    (h : g.act K (.move m) = .ok g')
    (hstart : ∀ b, g.history.positions.head? = some b → Board.HashGood K b)
    (hinj : ∀ p q, p ∈ g'.history.positions → q ∈ g'.history.positions → p.hash = q.hash → sameKey p q = true) :
    g'.status = .repetition ↔
      g'.position.getStatus = .ongoing ∧
      3 ≤ (g'.history.positions.filter (fun q => sameKey q g'.position)).length := by
  have hr' : GameReach K g' := .step _ hr h
  rw [C11_declared K g g' m h,
    C11_counter_current_partial K g' hr' (by rw [C11_start_step K g g' hr _ h]; exact hstart) hinj]

end Chess
