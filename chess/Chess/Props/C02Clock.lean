import Chess.Props.C02
import Chess.Props.C09
/-! # C02, the clocks at the machine-word boundary — the formal statement of known finding K1

Known finding **K1** (open; recorded in `/verif/known_findings.txt`): in the Rust source (`/repo/src/chess_boards.rs`) the
half-move clock `moves_since_capture_or_pawn_move` and the full-move number `move_number` are `usize` fields, and
`update_moves_since_capture` / `update_move_number` (called from `make_move_mut_unchecked`) increment them with an unchecked
`+= 1`.  At `usize::MAX` a release build wraps to `0`; a debug build panics.  The rules of chess (`Spec.apply`) count in the
natural numbers.

The model keeps both clocks as unbounded `Nat` (`Board.half`, `Board.full`), so `C02_successor`
(`(b.makeMoveUnchecked K m).absPos = Spec.apply b.absPos m`) is a theorem about the MATHEMATICAL clocks.  This file makes the
gap to the 64-bit machine precise:

* `Board.makeMoveUnchecked64` is what a release build computes on a 64-bit target: the model's result with both clocks reduced
  modulo `2^64` (no other field of the result depends on the word size);
* `C02_clocks_fit` / `C02_successor64`: while both clocks are below `usize::MAX = 2^64 - 1` the machine reading IS the model, so
  `C02_successor` transfers to it unchanged;
* `K1_exactly`: the machine reading differs from the model exactly when one of the (mathematical) successor clocks reaches `2^64`;
* `K1_half_witness`, `K1_full_witness`: the boundary is real — for every key table there are `Valid` boards with a legal move on
  which the machine reading gives clock `0` where the rules give `2^64`.  The positions are those of the repository's
  known-finding record, `4k3/8/8/8/8/8/8/R3K3 w - - 18446744073709551615 1` with `Ra1a2` and
  `4k3/8/8/8/8/8/8/R3K3 b - - 3 18446744073709551615` with `Ke8d8`; the same two inputs are replayed against the real code by
  `/verif/corpus/C02.ops` (where the run prints them as KNOWN-FINDING K1).

Nothing here repairs K1: it stays open.  The file states where the proved property stops applying to the compiled code. -/
namespace Chess
open Board
variable (K : Keys)

/-! ### the machine-word reading -/

/-- a natural number stored in a 64-bit `usize` with wrapping arithmetic -/
def wrap64 (n : Nat) : Nat := n % 2^64

/-- both clocks reduced to 64-bit words; every other field is unaffected by the word size -/
def Board.wrapClocks (b : Board) : Board := { b with half := wrap64 b.half, full := wrap64 b.full }

/-- What a RELEASE build of `make_move_mut_unchecked` computes on a 64-bit target: the model's result with the two `usize`
clocks wrapped modulo `2^64` (`usize::MAX + 1 = 0`).  Only `update_move_number` and `update_moves_since_capture` do arithmetic on
the clocks, each at most one `+= 1`, and nothing computed afterwards (castling rights, side to move, en-passant square, pins and
checks, terminal flag, hash) reads them, so every other field is the model's.  (A debug build panics instead of wrapping.) -/
def Board.makeMoveUnchecked64 (b : Board) (m : Move) : Board := (b.makeMoveUnchecked K m).wrapClocks

theorem wrap64_lt (n : Nat) : wrap64 n < 2^64 := Nat.mod_lt _ (by decide)
theorem wrap64_of_lt {n : Nat} (h : n < 2^64) : wrap64 n = n := Nat.mod_eq_of_lt h
theorem wrap64_eq_iff (n : Nat) : wrap64 n = n ↔ n < 2^64 :=
  ⟨fun e => e ▸ wrap64_lt n, wrap64_of_lt⟩
theorem wrap64_pow : wrap64 (2^64) = 0 := Nat.mod_self _

@[simp] theorem Board.wrapClocks_half (b : Board) : b.wrapClocks.half = wrap64 b.half := rfl
@[simp] theorem Board.wrapClocks_full (b : Board) : b.wrapClocks.full = wrap64 b.full := rfl

/-- wrapping changes nothing exactly when both clocks are below `2^64` -/
theorem Board.wrapClocks_eq_iff (b : Board) : b.wrapClocks = b ↔ (b.half < 2^64 ∧ b.full < 2^64) := by
  constructor
  · intro e
    exact ⟨(wrap64_eq_iff _).1 (congrArg Board.half e), (wrap64_eq_iff _).1 (congrArg Board.full e)⟩
  · rintro ⟨hh, hf⟩
    cases b
    simp only [Board.wrapClocks, wrap64_of_lt hh, wrap64_of_lt hf]

/-! ### one move advances each clock by at most one (any board, any move) -/

theorem makeMoveUnchecked_half_le (b : Board) (m : Move) : (b.makeMoveUnchecked K m).half ≤ b.half + 1 := by
  rw [makeMoveUnchecked_eq]
  rcases m with ⟨pt, src, dst, promo⟩ | s
  · rw [finish_half_piece, place_half]; split <;> omega
  · rw [finish_half_castle, place_half]; omega

theorem makeMoveUnchecked_full_le (b : Board) (m : Move) : (b.makeMoveUnchecked K m).full ≤ b.full + 1 := by
  rw [makeMoveUnchecked_eq, finish_full, place_full]; split <;> omega

/-! ### below the boundary the machine reading is the model -/

/-- no hypothesis on the board or the move is needed for this direction -/
theorem makeMoveUnchecked64_eq_of_lt (b : Board) (m : Move) (hh : b.half < 2^64 - 1) (hf : b.full < 2^64 - 1) :
    b.makeMoveUnchecked64 K m = b.makeMoveUnchecked K m := by
  have h1 := makeMoveUnchecked_half_le K b m
  have h2 := makeMoveUnchecked_full_le K b m
  exact (Board.wrapClocks_eq_iff _).2 ⟨by omega, by omega⟩

set_option linter.unusedVariables false in
/-- C02, clocks: with both clocks below `usize::MAX` the 64-bit reading of a move is the model's result.  (Stated under the
hypotheses of `C02_successor`; `makeMoveUnchecked64_eq_of_lt` shows that `hv` and `hm` are not needed for this step.) -/
theorem C02_clocks_fit (b : Board) (hv : b.Valid K) (m : Move) (hm : Spec.legal b.absPos m = true)
    (hh : b.half < 2^64 - 1) (hf : b.full < 2^64 - 1) :
    b.makeMoveUnchecked64 K m = b.makeMoveUnchecked K m :=
  makeMoveUnchecked64_eq_of_lt K b m hh hf

/-- C02 for the machine reading: below the boundary a legal move produces exactly the successor position the rules define -/
theorem C02_successor64 (b : Board) (hv : b.Valid K) (m : Move) (hm : Spec.legal b.absPos m = true)
    (hh : b.half < 2^64 - 1) (hf : b.full < 2^64 - 1) :
    (b.makeMoveUnchecked64 K m).absPos = Spec.apply b.absPos m := by
  rw [C02_clocks_fit K b hv m hm hh hf]; exact (C02_successor K b hv m hm).1

set_option linter.unusedVariables false in
/-- K1, exactly: the 64-bit reading differs from the model (hence, by `C02_successor`, from the rules: `K1_exactly_spec`) exactly
when one of the successor clocks reaches `2^64` -/
theorem K1_exactly (b : Board) (hv : b.Valid K) (m : Move) (hm : Spec.legal b.absPos m = true) :
    b.makeMoveUnchecked64 K m = b.makeMoveUnchecked K m ↔
      ((b.makeMoveUnchecked K m).half < 2^64 ∧ (b.makeMoveUnchecked K m).full < 2^64) :=
  Board.wrapClocks_eq_iff _

/-- the same in the vocabulary of the rules: the machine reading stands for the successor position of the rules exactly when
both successor clocks of the rules are below `2^64` -/
theorem K1_exactly_spec (b : Board) (hv : b.Valid K) (m : Move) (hm : Spec.legal b.absPos m = true) :
    (b.makeMoveUnchecked64 K m).absPos = Spec.apply b.absPos m ↔
      ((Spec.apply b.absPos m).half < 2^64 ∧ (Spec.apply b.absPos m).full < 2^64) := by
  have hs := (C02_successor K b hv m hm).1
  have eh : (b.makeMoveUnchecked K m).half = (Spec.apply b.absPos m).half := congrArg Spec.Pos.half hs
  have ef : (b.makeMoveUnchecked K m).full = (Spec.apply b.absPos m).full := congrArg Spec.Pos.full hs
  constructor
  · intro e
    have e1 : wrap64 (b.makeMoveUnchecked K m).half = (Spec.apply b.absPos m).half := congrArg Spec.Pos.half e
    have e2 : wrap64 (b.makeMoveUnchecked K m).full = (Spec.apply b.absPos m).full := congrArg Spec.Pos.full e
    rw [eh] at e1; rw [ef] at e2
    exact ⟨(wrap64_eq_iff _).1 e1, (wrap64_eq_iff _).1 e2⟩
  · rintro ⟨h1, h2⟩
    rw [(K1_exactly K b hv m hm).2 ⟨eh ▸ h1, ef ▸ h2⟩]; exact hs

/-! ### the boundary is real: the two inputs of the known-finding record -/

/-- `4k3/8/8/8/8/8/8/R3K3 <stm> - - <half> <full>`: white Ke1, Ra1; black Ke8; no castling rights -/
def K1.builder (stm : Color) (half full : Nat) : Builder :=
  { pieces := fun s =>
      if s = 4 then some ⟨.king, .white⟩ else if s = 0 then some ⟨.rook, .white⟩
      else if s = 60 then some ⟨.king, .black⟩ else none,
    stm := stm, rights := fun _ => .neither, ep := none, half := half, full := full }

/-- `4k3/8/8/8/8/8/8/R3K3 w - - 18446744073709551615 1` -/
def K1.halfBuilder : Builder := K1.builder .white (2^64 - 1) 1
/-- `4k3/8/8/8/8/8/8/R3K3 b - - 3 18446744073709551615` -/
def K1.fullBuilder : Builder := K1.builder .black 3 (2^64 - 1)

/-- the exponent notation above denotes the decimal text of the record -/
example : K1.halfBuilder.half = 18446744073709551615 ∧ K1.fullBuilder.full = 18446744073709551615 := by decide +kernel

theorem K1.halfBuilder_valid : Spec.ValidPos K1.halfBuilder.toPos = true := by decide +kernel
theorem K1.fullBuilder_valid : Spec.ValidPos K1.fullBuilder.toPos = true := by decide +kernel

/-- Ra1a2 is legal in the first position, and the rules put the half-move clock at `2^64` -/
theorem K1.half_spec :
    Spec.legal K1.halfBuilder.toPos (.piece .rook 0 8 none) = true ∧
    (Spec.apply K1.halfBuilder.toPos (.piece .rook 0 8 none)).half = 2^64 := by decide +kernel

/-- Ke8d8 is legal in the second position, and the rules put the full-move number at `2^64` -/
theorem K1.full_spec :
    Spec.legal K1.fullBuilder.toPos (.piece .king 60 59 none) = true ∧
    (Spec.apply K1.fullBuilder.toPos (.piece .king 60 59 none)).full = 2^64 := by decide +kernel

/-- K1, half-move clock: for every key table there is a `Valid` board with clock `usize::MAX` and a legal quiet move on which
the 64-bit reading gives clock `0` where the rules give `2^64` -/
theorem K1_half_witness : ∃ (b : Board) (m : Move), b.Valid K ∧ Spec.legal b.absPos m = true ∧ b.half = 2^64 - 1 ∧
    (b.makeMoveUnchecked64 K m).half = 0 ∧ (Spec.apply b.absPos m).half = 2^64 := by
  obtain ⟨b, hb⟩ := C09_complete K _ K1.halfBuilder_valid
  obtain ⟨hv, habs⟩ := C09_sound K _ b hb
  have hl : Spec.legal b.absPos (.piece .rook 0 8 none) = true := by rw [habs]; exact K1.half_spec.1
  have hs : (Spec.apply b.absPos (.piece .rook 0 8 none)).half = 2^64 := by rw [habs]; exact K1.half_spec.2
  refine ⟨b, .piece .rook 0 8 none, hv, hl, congrArg Spec.Pos.half habs, ?_, hs⟩
  have e : (b.makeMoveUnchecked K (.piece .rook 0 8 none)).half = 2^64 :=
    (congrArg Spec.Pos.half (C02_successor K b hv _ hl).1).trans hs
  show wrap64 (b.makeMoveUnchecked K (.piece .rook 0 8 none)).half = 0
  rw [e]; exact wrap64_pow

/-- K1, full-move number: likewise with Black to move and move number `usize::MAX` -/
theorem K1_full_witness : ∃ (b : Board) (m : Move), b.Valid K ∧ Spec.legal b.absPos m = true ∧ b.stm = .black ∧
    b.full = 2^64 - 1 ∧ (b.makeMoveUnchecked64 K m).full = 0 ∧ (Spec.apply b.absPos m).full = 2^64 := by
  obtain ⟨b, hb⟩ := C09_complete K _ K1.fullBuilder_valid
  obtain ⟨hv, habs⟩ := C09_sound K _ b hb
  have hl : Spec.legal b.absPos (.piece .king 60 59 none) = true := by rw [habs]; exact K1.full_spec.1
  have hs : (Spec.apply b.absPos (.piece .king 60 59 none)).full = 2^64 := by rw [habs]; exact K1.full_spec.2
  refine ⟨b, .piece .king 60 59 none, hv, hl, congrArg Spec.Pos.stm habs, congrArg Spec.Pos.full habs, ?_, hs⟩
  have e : (b.makeMoveUnchecked K (.piece .king 60 59 none)).full = 2^64 :=
    (congrArg Spec.Pos.full (C02_successor K b hv _ hl).1).trans hs
  show wrap64 (b.makeMoveUnchecked K (.piece .king 60 59 none)).full = 0
  rw [e]; exact wrap64_pow

/-- consequently the machine reading of these moves is NOT the successor position of the rules (so the hypotheses
`hh`, `hf` of `C02_successor64` cannot be dropped) -/
theorem K1_not_successor : ∃ (b : Board) (m : Move), b.Valid K ∧ Spec.legal b.absPos m = true ∧
    (b.makeMoveUnchecked64 K m).absPos ≠ Spec.apply b.absPos m := by
  obtain ⟨b, m, hv, hl, _, h0, hs⟩ := K1_half_witness K
  refine ⟨b, m, hv, hl, fun e => ?_⟩
  have : (b.makeMoveUnchecked64 K m).half = (Spec.apply b.absPos m).half := congrArg Spec.Pos.half e
  rw [h0, hs] at this
  exact absurd this (by decide)

end Chess
