import Chess.Lemmas.LegalJoin
/-! # C01 — generated legal moves are exactly the moves the rules of chess allow

`Spec.legal` (Spec/Rules.lean) is the declarative rule: movement geometry with empty intermediate squares, pawn pushes /
double pushes / captures / en passant, promotion piece present exactly on the last rank and one of N,B,R,Q, never onto an own man,
both castlings (right held, path empty, not out of / through / into check), and the mover's king not attacked afterwards.
The proof goes through: pseudo-legal masks = movement rules (`pieceMovesMask_spec`, incl. nearest-blocker truncation for all
2^64 occupancies), full evaluation = king safety after the move (`checkMaskAfter_spec`, `checks_spec`), soundness of the
check/pin shortcut (`pin_lemma`), independence of the promotion piece, castling (`castlingAvailable_spec`), list plumbing. -/
namespace Chess
open Board Spec
variable {K : Keys}

/-- the legal-move list holds exactly the rule-legal moves, and no move twice -/
theorem C01_legal (b : Board) (hv : b.Valid K) :
    (∀ m, m ∈ b.getLegalMoves K ↔ Spec.legal b.absPos m = true) ∧ (b.getLegalMoves K).Nodup :=
  ⟨hv.mem_getLegalMoves_iff, getLegalMoves_nodup K b⟩

/-- the separately queryable castling availability names exactly the castling moves of that list -/
theorem C01_castling (b : Board) (hv : b.Valid K) :
    ((b.castlingAvailable none).hasK = true ↔ Move.castle .king ∈ b.getLegalMoves K) ∧
    ((b.castlingAvailable none).hasQ = true ↔ Move.castle .queen ∈ b.getLegalMoves K) := by
  have h := castlingAvailable_spec hv
  constructor
  · rw [hv.mem_getLegalMoves_iff, h.1]; rfl
  · rw [hv.mem_getLegalMoves_iff, h.2]; rfl

/-- never a move that leaves or puts the mover's own king in check -/
theorem C01_king_safe (b : Board) (hv : b.Valid K) (m : Move) (hm : m ∈ b.getLegalMoves K) :
    Spec.inCheck (Spec.apply b.absPos m).board b.stm = false := by
  have hl := (hv.mem_getLegalMoves_iff m).1 hm
  have := validPos_apply_notInCheck b.absPos hv.pos m hl
  have e : (Spec.apply b.absPos m).stm.other = b.stm := by simp [Spec.apply, Board.absPos]
  rw [e] at this; exact this

end Chess
