import Chess.Model.Text
/-! C16, piece type `bishop`: every origin × destination × promotion by kernel evaluation (whole finite domain). -/
namespace Chess.C16
open Chess
theorem rt_bishop_0 : ∀ src dst : Sq, parseMove (printMove (.piece .bishop src dst (none))) = .ok (.piece .bishop src dst (none)) := by
  decide +kernel
theorem rt_bishop_1 : ∀ src dst : Sq, parseMove (printMove (.piece .bishop src dst (some .knight))) = .ok (.piece .bishop src dst (some .knight)) := by
  decide +kernel
theorem rt_bishop_2 : ∀ src dst : Sq, parseMove (printMove (.piece .bishop src dst (some .bishop))) = .ok (.piece .bishop src dst (some .bishop)) := by
  decide +kernel
theorem rt_bishop_3 : ∀ src dst : Sq, parseMove (printMove (.piece .bishop src dst (some .rook))) = .ok (.piece .bishop src dst (some .rook)) := by
  decide +kernel
theorem rt_bishop_4 : ∀ src dst : Sq, parseMove (printMove (.piece .bishop src dst (some .queen))) = .ok (.piece .bishop src dst (some .queen)) := by
  decide +kernel
theorem rt_bishop_5 : ∀ src dst : Sq, parseMove (printMove (.piece .bishop src dst (some .king))) = .ok (.piece .bishop src dst (some .king)) := by
  decide +kernel
end Chess.C16
