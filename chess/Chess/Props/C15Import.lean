import Chess.Lemmas.PgnRegex
import Chess.Props.C10Game
import Chess.Props.C13Rules
/-! # C15 — soundness of the PGN importer on ARBITRARY text

`C15_roundtrip_regex` is about the library's own exports.  This file is about `Game::from_pgn` (`Game.ofPgnRegex`) on EVERY
text `pgn : Str`: whenever the import succeeds, the game returned is a game of chess played by the rules whose move record, read
in standard algebraic notation, is exactly the list of move tokens the text holds.

Notions used (all existing): `Game.playMoves` (C15), `PlayedFrom` (C15: reachable from a given game by accepted actions),
`GameReach` / `GameOK` (reachable from `Game::from_board`; the latter from a `Valid` board with constructible moves),
`Ending` (C15).  New, local to this file:

* `TokenPlay K g toks ms g₁` — the token list `toks` is played from `g` by the move list `ms`, reaching `g₁`: one move per
  token, each move a member of the legal-move list of the position it is played on, accepted by `Game.act`, and the token IS
  the text the library prints for that move in that position (`sanText m mp`, `mp` = `moveProps` of that position);
* `ImportTail K g₁ res g` — what the tail of `from_pgn` does with the first result token `res`;
* `History.PlyOf`, `History.RulePly` — the same per ply of the history of the imported game, by index (model level / rule level);
* `SanLine` — the rule-level reading of a token list: a sequence of rule-legal moves from a position, the standard SAN
  (`Spec.san`) of each being the token, and no other rule-legal move of that position having that standard SAN.

MAIN (each in the general form — any start game, hypotheses `GameOK K start` / `boardStatus` only where needed — and for the
standard initial position `Board.ofBuilder K stdBuilder = .ok b0`, the formulation of `C10_ofPgn_no_panic`):

1. `C15_import_reach`, `C15_import_reach_ok`, `C15_import_reach_std`
2. `C15_import_tokens`, `C15_import_tokens_ofBoard`, `C15_import_tokens_std`; all tokens are consumed
   (`ms.length = (findMoves sec).length`); what happens after the game has ended by itself: `C15_import_finished_stops`,
   `C15_import_before_last`, `C15_import_early_end_fails`; every failure: `C15_import_failure` (loop), `C15_import_error`
3. `C15_import_token_unique`, `C15_import_complete`, `C15_import_moves_unique`, `C15_import_unique`, `C15_import_unique_ok`
4. `C15_import_result`, `C15_import_result_ok`, `C15_import_result_std`
5. `C15_import_rules`, `C15_import_rules_std`, `C15_import_sanLine`, `C15_import_sanLine_std`
6. non-vacuity: the last section (`C15_import_sample`: a non-export text imported from the standard start for EVERY key table).

Structure of the proofs: `ofPgnRegex_ok_iff` (success ⇔ section + loop + tail), `replaySan_tokenPlay` (soundness of the loop, any
game value), `TokenPlay.replay` (completeness of the loop from a `GameOK` game: C14 uniqueness), `C15Import.findResult_values`
(the result pattern reports one of its three words, so the fourth branch of the tail is dead).  Nothing is assumed; nothing is
partial. -/
namespace Chess
open Chess.Game Chess.C13 Chess.PgnRegex Board

variable (K : Keys)

/-! ## 0. the result pattern only ever reports one of its three words -/
namespace C15Import

theorem lit_some (pat s r : Str) (h : lit pat some s = some r) : s = pat ++ r := by
  induction pat generalizing s with
  | nil => simp only [lit, Option.some.injEq] at h; simpa using h
  | cons a as ih =>
    cases s with
    | nil => simp only [lit, one] at h; cases h
    | cons c cs =>
      simp only [lit, one] at h
      split at h
      · rename_i hc
        have hc' : c = a := by simpa using hc
        rw [ih cs h, hc']; rfl
      · cases h

theorem resultRe_some (s r : Str) (h : resultRe some s = some r) :
    s = ['1', '-', '0'] ++ r ∨ s = ['0', '-', '1'] ++ r ∨ s = ['1', '/', '2', '-', '1', '/', '2'] ++ r := by
  simp only [resultRe, alt] at h
  cases h1 : lit ['1', '-', '0'] some s with
  | some x => rw [h1] at h; cases h; exact Or.inl (lit_some _ _ _ h1)
  | none =>
    rw [h1] at h
    simp only at h
    cases h2 : lit ['0', '-', '1'] some s with
    | some x => rw [h2] at h; cases h; exact Or.inr (Or.inl (lit_some _ _ _ h2))
    | none => rw [h2] at h; exact Or.inr (Or.inr (lit_some _ _ _ h))

/-- every reported token is the match of the pattern at some place of the text -/
theorem mem_findAllFrom (re : Cont → Cont) (tok : Str) : ∀ (s : Str) (n : Nat), tok ∈ findAllFrom re n s →
    ∃ t rest, matchAt re t = some (tok, rest) := by
  intro s
  induction s with
  | nil => intro n h; rw [findAllFrom_nil] at h; cases h
  | cons c cs ih =>
    intro n h
    cases n with
    | succ n => rw [findAllFrom_succ] at h; exact ih n h
    | zero =>
      rw [findAllFrom_zero] at h
      cases hm : matchAt re (c :: cs) with
      | none => rw [hm] at h; exact ih 0 h
      | some tr =>
        obtain ⟨t', rest⟩ := tr
        rw [hm] at h
        rcases List.mem_cons.1 h with rfl | h
        · exact ⟨_, _, hm⟩
        · exact ih _ h

theorem take_prefix (p x : Str) : (p ++ x).take ((p ++ x).length - x.length) = p := by
  rw [List.length_append, Nat.add_sub_cancel]; exact List.take_left' rfl

/-- the three words -/
def resultWords : List Str := ["1-0".toList, "0-1".toList, "1/2-1/2".toList]

theorem mem_findResults (s r : Str) (h : r ∈ findResults s) : r ∈ resultWords := by
  obtain ⟨t, rest, hm⟩ := mem_findAllFrom resultRe r s 0 h
  unfold matchAt at hm
  cases hr : resultRe some t with
  | none => rw [hr] at hm; cases hm
  | some x =>
    rw [hr] at hm
    simp only [Option.some.injEq, Prod.mk.injEq] at hm
    obtain ⟨h1, rfl⟩ := hm
    rcases resultRe_some t x hr with e | e | e <;> subst e <;> subst h1 <;> rw [take_prefix] <;>
      simp [resultWords]

/-- **the result pattern**: `captures_iter(..).nth(0)` is `1-0`, `0-1`, `1/2-1/2`, or there is no match -/
theorem findResult_values (s r : Str) (h : findResult s = some r) :
    r = "1-0".toList ∨ r = "0-1".toList ∨ r = "1/2-1/2".toList := by
  have := mem_findResults s r (List.mem_of_mem_head? h)
  simpa [resultWords] using this

end C15Import

/-! ## 1. the replay loop, read as a relation -/

/-- `TokenPlay K g toks ms g₁`: the token list `toks` is played from `g` by the move list `ms`, reaching `g₁`.  One move per
token; the move is a member of the legal-move list of the position it is played on; the notation properties `mp` are those
of that position; the token IS the text printed for the move with them; `Game.act` accepted the move. -/
inductive TokenPlay : Game → List Str → List Move → Game → Prop
  | nil (g : Game) : TokenPlay g [] [] g
  | cons {g g' g₁ : Game} {tok : Str} {toks : List Str} {m : Move} {ms : List Move} (mp : MoveProps) :
      m ∈ g.position.getLegalMoves K → g.position.moveProps K m = .ok mp → sanText m mp = tok →
      g.act K (.move m) = .ok g' → TokenPlay g' toks ms g₁ → TokenPlay g (tok :: toks) (m :: ms) g₁

namespace C15Import

/-- the move selected for a token: a generated legal move, with notation properties, whose printed text is the token -/
theorem sanCands_last_spec (g : Game) (tok : Str) (m : Move) (h : (sanCands K g tok).getLast? = some m) :
    m ∈ g.position.getLegalMoves K ∧ ∃ mp, g.position.moveProps K m = .ok mp ∧ sanText m mp = tok := by
  have hm := List.mem_of_getLast? h
  unfold sanCands at hm
  rw [List.mem_filterMap] at hm
  obtain ⟨x, hx, hfx⟩ := hm
  split at hfx
  · rename_i mp hmp
    split at hfx
    · rename_i ht
      cases hfx
      exact ⟨hx, mp, hmp, ht⟩
    · cases hfx
  · cases hfx

/-- on a valid position the candidate list of the text of a generated legal move is that move alone -/
theorem sanCands_of_legal (g : Game) (hv : g.position.Valid K) (m : Move) (mp : MoveProps)
    (hm : m ∈ g.position.getLegalMoves K) (hp : g.position.moveProps K m = .ok mp) :
    sanCands K g (sanText m mp) = [m] := by
  unfold sanCands
  rw [filterMap_unique _ (g.position.getLegalMoves K) m m (getLegalMoves_nodup K _) hm]
  · rw [hp]; simp
  · intro x _ y hxy
    split at hxy
    · rename_i mp' hmp'
      split at hxy
      · rename_i ht
        exact C14_injective_valid K g.position hv x m mp' mp hmp' hp ht
      · cases hxy
    · cases hxy

end C15Import

variable {K}

theorem TokenPlay.length {g g₁ : Game} {toks : List Str} {ms : List Move} (h : TokenPlay K g toks ms g₁) :
    ms.length = toks.length := by
  induction h with
  | nil g => rfl
  | cons mp _ _ _ _ _ ih => simp [ih]

/-- the moves were accepted one after the other by `Game::make_move` -/
theorem TokenPlay.playMoves {g g₁ : Game} {toks : List Str} {ms : List Move} (h : TokenPlay K g toks ms g₁) :
    Game.playMoves K g ms = .ok g₁ := by
  induction h with
  | nil g => rfl
  | cons mp _ _ _ ha _ ih => rw [playMoves_cons, ha]; exact ih

theorem PlayedFrom.trans {g0 g g' : Game} (h1 : PlayedFrom K g0 g) (h2 : PlayedFrom K g g') : PlayedFrom K g0 g' := by
  induction h2 with
  | init => exact h1
  | step a _ ha ih => exact .step a ih ha

theorem playMoves_playedFrom {g g₁ : Game} {ms : List Move} (h : Game.playMoves K g ms = .ok g₁) : PlayedFrom K g g₁ := by
  induction ms generalizing g with
  | nil => cases h; exact .init
  | cons m ms ih =>
    obtain ⟨g', ha, h1⟩ := playMoves_cons_ok K h
    exact PlayedFrom.trans (.step _ .init ha) (ih h1)

theorem playMoves_ok_inv {g g₁ : Game} {ms : List Move} (h : Game.playMoves K g ms = .ok g₁)
    (hc : ∀ m ∈ ms, ∀ pt s d, m ≠ .piece pt s d (some .pawn)) (hok : GameOK K g) : GameOK K g₁ := by
  induction ms generalizing g with
  | nil => cases h; exact hok
  | cons m ms ih =>
    obtain ⟨g', ha, h1⟩ := playMoves_cons_ok K h
    exact ih h1 (fun x hx => hc x (List.mem_cons_of_mem _ hx)) (.step (.move m) hok (hc m List.mem_cons_self) ha)

/-- every played move is a generated one, hence constructible -/
theorem TokenPlay.constructible {g g₁ : Game} {toks : List Str} {ms : List Move} (h : TokenPlay K g toks ms g₁) :
    ∀ m ∈ ms, ∀ pt s d, m ≠ .piece pt s d (some .pawn) := by
  induction h with
  | nil g => intro m hm; cases hm
  | cons mp hm _ _ _ _ ih =>
    intro x hx
    rcases List.mem_cons.1 hx with rfl | hx
    · exact mem_getLegalMoves_constructible K _ _ hm
    · exact ih x hx

theorem TokenPlay.ok {g g₁ : Game} {toks : List Str} {ms : List Move} (h : TokenPlay K g toks ms g₁)
    (hok : GameOK K g) : GameOK K g₁ :=
  playMoves_ok_inv h.playMoves h.constructible hok

/-- the history of the game reached is the history of the game started from, extended by one position, one move and one
property record per token; the tokens are the printed texts of the new moves with the new records -/
theorem TokenPlay.history {g g₁ : Game} {toks : List Str} {ms : List Move} (h : TokenPlay K g toks ms g₁) :
    ∃ ps qs, ps.length = toks.length ∧ qs.length = toks.length ∧
      g₁.history.positions = g.history.positions ++ qs ∧ g₁.history.moves = g.history.moves ++ ms ∧
      g₁.history.props = g.history.props ++ ps ∧ List.zipWith sanText ms ps = toks := by
  induction h with
  | nil g => exact ⟨[], [], rfl, rfl, by simp, by simp, by simp, rfl⟩
  | @cons g g' g₁ tok toks m ms mp _ hp ht ha _ ih =>
    obtain ⟨ps, qs, l1, l2, e1, e2, e3, e4⟩ := ih
    rcases act_cases K g g' _ ha with ⟨m', nb, mp', hm', _, _, hmp, _, hh, _⟩ | ⟨hne, _⟩
    · cases hm'
      rw [hp] at hmp; cases hmp
      refine ⟨mp :: ps, nb :: qs, by simp [l1], by simp [l2], ?_, ?_, ?_, ?_⟩
      · rw [e1, hh]; simp
      · rw [e2, hh]; simp
      · rw [e3, hh]; simp
      · rw [List.zipWith_cons_cons, e4, ht]
    · exact absurd rfl (hne m)

/-- before every token the game is ongoing: only the LAST move of a successful replay can end the game -/
theorem TokenPlay.split {g g₁ : Game} (pre : List Str) {tok : Str} {rest : List Str} {ms : List Move}
    (h : TokenPlay K g (pre ++ tok :: rest) ms g₁) :
    ∃ ms₁ ms₂ g', ms = ms₁ ++ ms₂ ∧ TokenPlay K g pre ms₁ g' ∧ TokenPlay K g' (tok :: rest) ms₂ g₁ ∧
      g'.status = .ongoing := by
  induction pre generalizing g ms with
  | nil =>
    refine ⟨[], ms, g, rfl, .nil g, h, ?_⟩
    cases h with
    | cons mp _ _ _ ha _ => exact act_move_inv K ha
  | cons t pre ih =>
    cases h with
    | cons mp hm hp ht ha hrest =>
      obtain ⟨ms₁, ms₂, g'', e, h1, h2, hs⟩ := ih hrest
      exact ⟨_ :: ms₁, ms₂, g'', by rw [e]; rfl, .cons mp hm hp ht ha h1, h2, hs⟩

variable (K)

/-- **the loop of `from_pgn`, soundness** — for ANY game value and ANY token list: a successful replay is a `TokenPlay` -/
theorem replaySan_tokenPlay (toks : List Str) : ∀ (g g₁ : Game), replaySan K g toks = .ok g₁ →
    ∃ ms, TokenPlay K g toks ms g₁ := by
  induction toks with
  | nil => intro g g₁ h; cases h; exact ⟨[], .nil g⟩
  | cons tok rest ih =>
    intro g g₁ h
    rw [replaySan_cons] at h
    cases hc : (sanCands K g tok).getLast? with
    | none => rw [hc] at h; cases h
    | some m =>
      simp only [hc] at h
      cases ha : g.act K (.move m) with
      | error e => simp only [ha] at h; cases h
      | ok g' =>
        simp only [ha] at h
        obtain ⟨hm, mp, hp, ht⟩ := C15Import.sanCands_last_spec K g tok m hc
        obtain ⟨ms, hms⟩ := ih g' g₁ h
        exact ⟨m :: ms, .cons mp hm hp ht ha hms⟩

/-- **the loop of `from_pgn`, completeness** — from a game a caller can hold: ANY way of playing the tokens (legal moves whose
printed texts are the tokens) is what the loop computes -/
theorem TokenPlay.replay {g g₁ : Game} {toks : List Str} {ms : List Move} (h : TokenPlay K g toks ms g₁)
    (hok : GameOK K g) : replaySan K g toks = .ok g₁ := by
  induction h with
  | nil g => rfl
  | @cons g g' g₁ tok toks m ms mp hm hp ht ha _ ih =>
    subst ht
    rw [replaySan_step' K g g' hok.position_valid m mp hp hm _ ha]
    exact ih (.step (.move m) hok (mem_getLegalMoves_constructible K _ _ hm) ha)

theorem replaySan_ok_iff (g g₁ : Game) (hok : GameOK K g) (toks : List Str) :
    replaySan K g toks = .ok g₁ ↔ ∃ ms, TokenPlay K g toks ms g₁ :=
  ⟨replaySan_tokenPlay K toks g g₁, fun ⟨_, h⟩ => h.replay K hok⟩

/-- two ways of playing the same tokens from a game a caller can hold are the same -/
theorem TokenPlay.unique {g g₁ g₁' : Game} {toks : List Str} {ms ms' : List Move} (hok : GameOK K g)
    (h : TokenPlay K g toks ms g₁) (h' : TokenPlay K g toks ms' g₁') : ms = ms' ∧ g₁ = g₁' := by
  have e : g₁ = g₁' := by
    have := (h.replay K hok).symm.trans (h'.replay K hok)
    exact Except.ok.inj this
  subst e
  obtain ⟨_, _, _, _, _, e2, _, _⟩ := h.history
  obtain ⟨_, _, _, _, _, e2', _, _⟩ := h'.history
  exact ⟨List.append_cancel_left (e2.symm.trans e2'), rfl⟩

/-! ## 2. a game that has ended by itself accepts no further token -/

/-- **after the game is finished** (mate, stalemate, a draw by rule or by repetition — or any other final status) the next
token makes the loop fail, whatever the rest of the text: with `InvalidPGNString` when no legal move of the final position
prints to the token (always so after mate and stalemate: there is no legal move), with `GameIsAlreadyFinished` otherwise
(`make_move` refuses).  The loop never stops early with `Ok`. -/
theorem C15_import_finished_stops (g : Game) (hf : C12.finished g.status = true) (tok : Str) (rest : List Str) :
    replaySan K g (tok :: rest) =
      .error (match (sanCands K g tok).getLast? with | none => .invalidPgn | some _ => .gameFinished) := by
  rw [replaySan_cons]
  cases (sanCands K g tok).getLast? with
  | none => rfl
  | some m => simp only [C12.finished_rejects K g _ hf]

/-- **every failure of the loop**, from a game a caller can hold whose status is a board status: a prefix `pre` of the tokens
was played (a `TokenPlay`), reaching `g'`, and the next token `tok` either has no candidate among the legal moves of
`g'.position` (`InvalidPGNString`), or it has one but `g'` is finished (`GameIsAlreadyFinished`).  There is no third case: a
candidate offered to an ongoing game is always accepted. -/
theorem C15_import_failure (toks : List Str) : ∀ (g : Game), GameOK K g → boardStatus g.status = true → ∀ e,
    replaySan K g toks = .error e →
    ∃ pre tok rest ms g', toks = pre ++ tok :: rest ∧ TokenPlay K g pre ms g' ∧
      (((sanCands K g' tok).getLast? = none ∧ e = .invalidPgn) ∨
       (∃ m, (sanCands K g' tok).getLast? = some m ∧ C12.finished g'.status = true ∧ e = .gameFinished)) := by
  induction toks with
  | nil => intro g _ _ e h; cases h
  | cons tok rest ih =>
    intro g hok hb e h
    rw [replaySan_cons] at h
    cases hc : (sanCands K g tok).getLast? with
    | none => rw [hc] at h; cases h; exact ⟨[], tok, rest, [], g, rfl, .nil g, Or.inl ⟨hc, rfl⟩⟩
    | some m =>
      simp only [hc] at h
      obtain ⟨hmem, mp, hp, ht⟩ := C15Import.sanCands_last_spec K g tok m hc
      have hw := mem_getLegalMoves_constructible K _ m hmem
      cases ha : g.act K (.move m) with
      | ok g1 =>
        simp only [ha] at h
        obtain ⟨pre, tok', rest', ms, g', e1, hplay, hcase⟩ :=
          ih g1 (.step (.move m) hok hw ha) (act_move_boardStatus K g g1 m ha) e h
        exact ⟨tok :: pre, tok', rest', m :: ms, g', by rw [e1]; rfl, .cons mp hmem hp ht ha hplay, hcase⟩
      | error e' =>
        simp only [ha, Except.error.injEq] at h
        subst h
        refine ⟨[], tok, rest, [], g, rfl, .nil g, Or.inr ⟨m, hc, ?_⟩⟩
        rcases C10_act_error_origin K g _ _ ha with ⟨he, hf⟩ | ⟨_, hc' | hc' | hc' | ⟨m', hm', _, hl⟩⟩
        · exact ⟨hf, he⟩
        · exact absurd hc' (boardStatus_not_offered hb)
        · cases hc'
        · cases hc'
        · cases hm'
          have := (hok.position_valid.isLegalMove_iff m hw).2 hmem
          rw [hl] at this; cases this

/-! ## 3. the tail of `from_pgn` -/

/-- what the tail of `from_pgn` does to the replayed game `g₁`, given the first match `res` of the result pattern in the moves
section: nothing when the game is over; nothing when there is no result word; otherwise the loser resigns, or White offers a
draw and it is accepted -/
inductive ImportTail (g₁ : Game) : Option Str → Game → Prop
  | finished (res : Option Str) : g₁.status ≠ .ongoing → ImportTail g₁ res g₁
  | noResult : g₁.status = .ongoing → ImportTail g₁ none g₁
  | whiteWins (g : Game) : g₁.status = .ongoing → g₁.act K (.resign .black) = .ok g → ImportTail g₁ (some "1-0".toList) g
  | blackWins (g : Game) : g₁.status = .ongoing → g₁.act K (.resign .white) = .ok g → ImportTail g₁ (some "0-1".toList) g
  | drawn (g₂ g : Game) : g₁.status = .ongoing → g₁.act K (.offerDraw .white) = .ok g₂ → g₂.act K .acceptDraw = .ok g →
      ImportTail g₁ (some "1/2-1/2".toList) g

/-- `from_pgn` after the split, as a function of the token list and of the first result word only -/
def Game.importOf (start : Game) (toks : List Str) (res : Option Str) : Except Err Game :=
  match replaySan K start toks with
  | .error e => .error e
  | .ok g =>
    if g.status = .ongoing then
      match res with
      | some r =>
        if r = "1-0".toList then g.act K (.resign .black)
        else if r = "0-1".toList then g.act K (.resign .white)
        else if r = "1/2-1/2".toList then
          (match g.act K (.offerDraw .white) with | .ok g1 => g1.act K .acceptDraw | .error e => .error e)
        else .ok g
      | none => .ok g
    else .ok g

/-- the importer reads the text ONLY through the move tokens and the first result word of its second section -/
theorem ofPgnRegex_eq_importOf (start : Game) (pgn : Str) :
    Game.ofPgnRegex K start pgn =
      match regexMovesSection pgn with
      | none => .error .invalidPgn
      | some sec => Game.importOf K start (findMoves sec) (findResult sec) := by
  unfold Game.ofPgnRegex Game.importOf
  cases regexMovesSection pgn <;> rfl

theorem importOf_ok (start : Game) (toks : List Str) (res : Option Str)
    (hres : ∀ r, res = some r → r = "1-0".toList ∨ r = "0-1".toList ∨ r = "1/2-1/2".toList) (g : Game)
    (h : Game.importOf K start toks res = .ok g) :
    ∃ g₁, replaySan K start toks = .ok g₁ ∧ ImportTail K g₁ res g := by
  unfold Game.importOf at h
  cases hr : replaySan K start toks with
  | error e => rw [hr] at h; cases h
  | ok g₁ =>
    rw [hr] at h
    simp only at h
    refine ⟨g₁, rfl, ?_⟩
    by_cases hs : g₁.status = .ongoing
    · rw [if_pos hs] at h
      cases res with
      | none => cases h; exact .noResult hs
      | some r =>
        simp only at h
        rcases hres r rfl with rfl | rfl | rfl
        · rw [if_pos rfl] at h; exact .whiteWins g hs h
        · rw [if_neg (by decide), if_pos rfl] at h; exact .blackWins g hs h
        · rw [if_neg (by decide), if_neg (by decide), if_pos rfl] at h
          cases ha : g₁.act K (.offerDraw .white) with
          | error e => rw [ha] at h; cases h
          | ok g₂ => rw [ha] at h; exact .drawn g₂ g hs ha h
    · rw [if_neg hs] at h; cases h; exact .finished res hs

theorem ImportTail.importOf {start g₁ g : Game} {toks : List Str} {res : Option Str}
    (hr : replaySan K start toks = .ok g₁) (h : ImportTail K g₁ res g) : Game.importOf K start toks res = .ok g := by
  unfold Game.importOf
  rw [hr]
  simp only
  cases h with
  | finished res hs => rw [if_neg hs]
  | noResult hs => rw [if_pos hs]
  | whiteWins g hs ha => rw [if_pos hs]; show (if _ then _ else _) = _; rw [if_pos rfl]; exact ha
  | blackWins g hs ha =>
    rw [if_pos hs]; show (if _ then _ else _) = _; rw [if_neg (by decide), if_pos rfl]; exact ha
  | drawn g₂ g hs ha ha2 =>
    rw [if_pos hs]; show (if _ then _ else _) = _
    rw [if_neg (by decide), if_neg (by decide), if_pos rfl, ha]; exact ha2

/-- **`from_pgn` succeeds exactly when** the text has a second section, the loop plays all its move tokens, and the tail is
applied to the game reached -/
theorem ofPgnRegex_ok_iff (start : Game) (pgn : Str) (g : Game) :
    Game.ofPgnRegex K start pgn = .ok g ↔
      ∃ sec g₁, regexMovesSection pgn = some sec ∧ replaySan K start (findMoves sec) = .ok g₁ ∧
        ImportTail K g₁ (findResult sec) g := by
  rw [ofPgnRegex_eq_importOf]
  constructor
  · intro h
    cases hs : regexMovesSection pgn with
    | none => rw [hs] at h; cases h
    | some sec =>
      rw [hs] at h
      obtain ⟨g₁, hr, ht⟩ := importOf_ok K start _ _ (fun r hr => C15Import.findResult_values sec r hr) g h
      exact ⟨sec, g₁, rfl, hr, ht⟩
  · rintro ⟨sec, g₁, hs, hr, ht⟩
    rw [hs]
    exact ht.importOf K hr

variable {K}

/-- the tail changes neither position, history nor counter; the status is the one the result word dictates -/
theorem ImportTail.frame {g₁ g : Game} {res : Option Str} (h : ImportTail K g₁ res g) :
    g.position = g₁.position ∧ g.history = g₁.history ∧ g.counter = g₁.counter := by
  cases h with
  | finished res hs => exact ⟨rfl, rfl, rfl⟩
  | noResult hs => exact ⟨rfl, rfl, rfl⟩
  | whiteWins g hs ha => obtain ⟨_, rfl⟩ := act_resign_inv K ha; simp
  | blackWins g hs ha => obtain ⟨_, rfl⟩ := act_resign_inv K ha; simp
  | drawn g₂ g hs ha ha2 => obtain ⟨_, rfl⟩ := act_offer_inv K ha; obtain ⟨_, rfl⟩ := act_accept_inv K ha2; simp

/-- the tail is one of the concluding episodes of C15 (`Ending`): nothing, a resignation, an agreed draw -/
theorem ImportTail.ending {g₁ g : Game} {res : Option Str} (h : ImportTail K g₁ res g) : Ending K g₁ g := by
  cases h with
  | finished res hs => exact .none
  | noResult hs => exact .none
  | whiteWins g hs ha => exact .resign _ g ha
  | blackWins g hs ha => exact .resign _ g ha
  | drawn g₂ g hs ha ha2 => exact .agreed _ g₂ g ha ha2

theorem ImportTail.playedFrom {g₁ g : Game} {res : Option Str} (h : ImportTail K g₁ res g) : PlayedFrom K g₁ g := by
  cases h with
  | finished res hs => exact .init
  | noResult hs => exact .init
  | whiteWins g hs ha => exact .step _ .init ha
  | blackWins g hs ha => exact .step _ .init ha
  | drawn g₂ g hs ha ha2 => exact .step _ (.step _ .init ha) ha2

theorem ImportTail.ok {g₁ g : Game} {res : Option Str} (h : ImportTail K g₁ res g) (hok : GameOK K g₁) : GameOK K g := by
  cases h with
  | finished res hs => exact hok
  | noResult hs => exact hok
  | whiteWins g hs ha => exact .step (.resign .black) hok trivial ha
  | blackWins g hs ha => exact .step (.resign .white) hok trivial ha
  | drawn g₂ g hs ha ha2 => exact .step .acceptDraw (.step (.offerDraw .white) hok trivial ha) trivial ha2

/-- the tail in the three-way form of the task: `g` is `g₁`, or `g₁` after a resignation, or `g₁` after White's draw offer and
its acceptance -/
theorem ImportTail.cases3 {g₁ g : Game} {res : Option Str} (h : ImportTail K g₁ res g) :
    g = g₁ ∨ (∃ c, g₁.act K (.resign c) = .ok g) ∨
      ∃ g₂, g₁.act K (.offerDraw .white) = .ok g₂ ∧ g₂.act K .acceptDraw = .ok g := by
  cases h with
  | finished res hs => exact Or.inl rfl
  | noResult hs => exact Or.inl rfl
  | whiteWins g hs ha => exact Or.inr (Or.inl ⟨_, ha⟩)
  | blackWins g hs ha => exact Or.inr (Or.inl ⟨_, ha⟩)
  | drawn g₂ g hs ha ha2 => exact Or.inr (Or.inr ⟨g₂, ha, ha2⟩)

variable (K)

variable {K} in
/-- the tail as a table -/
theorem ImportTail.table {g₁ g : Game} {res : Option Str} (h : ImportTail K g₁ res g) :
    (g₁.status ≠ .ongoing → g = g₁) ∧
    (g₁.status = .ongoing →
      (res = none → g = g₁) ∧
      (res = some "1-0".toList → g = g₁.updateStatus (some (.resign .black)) ∧ g.status = .resigned .black) ∧
      (res = some "0-1".toList → g = g₁.updateStatus (some (.resign .white)) ∧ g.status = .resigned .white) ∧
      (res = some "1/2-1/2".toList →
        g = (g₁.updateStatus (some (.offerDraw .white))).updateStatus (some .acceptDraw) ∧ g.status = .drawAccepted)) := by
  constructor
  · intro hn
    cases h with
    | finished res _ => rfl
    | noResult hs' => rfl
    | whiteWins g hs' _ => exact absurd hs' hn
    | blackWins g hs' _ => exact absurd hs' hn
    | drawn g₂ g hs' _ _ => exact absurd hs' hn
  · intro hon
    cases h with
    | finished res hn => exact absurd hon hn
    | noResult _ => refine ⟨fun _ => rfl, ?_, ?_, ?_⟩ <;> (intro e; cases e)
    | whiteWins g _ ha =>
      obtain ⟨_, rfl⟩ := act_resign_inv K ha
      refine ⟨?_, fun _ => ⟨rfl, by simp⟩, ?_, ?_⟩
      · intro e; cases e
      · intro e; exact absurd (Option.some.inj e) (by decide)
      · intro e; exact absurd (Option.some.inj e) (by decide)
    | blackWins g _ ha =>
      obtain ⟨_, rfl⟩ := act_resign_inv K ha
      refine ⟨?_, ?_, fun _ => ⟨rfl, by simp⟩, ?_⟩
      · intro e; cases e
      · intro e; exact absurd (Option.some.inj e) (by decide)
      · intro e; exact absurd (Option.some.inj e) (by decide)
    | drawn g₂ g _ ha ha2 =>
      obtain ⟨_, rfl⟩ := act_offer_inv K ha
      obtain ⟨_, rfl⟩ := act_accept_inv K ha2
      refine ⟨?_, ?_, ?_, fun _ => ⟨rfl, by simp⟩⟩
      · intro e; cases e
      · intro e; exact absurd (Option.some.inj e) (by decide)
      · intro e; exact absurd (Option.some.inj e) (by decide)

/-! ## 4. the plies of the imported history, by index -/

/-- ply `n` of the history `h` was played on the token `tok`: `p` is the position before, `p'` the position after, `m` the
recorded move, `mp` the recorded notation properties; `m` is a generated legal move of `p`, `mp` are its properties on `p`, the
token is the text printed for `m` with them, `p'` is `p` after `m` -/
def History.PlyOf (h : History) (n : Nat) (tok : Str) : Prop :=
  ∃ p p' m mp, h.positions[n]? = some p ∧ h.positions[n + 1]? = some p' ∧ h.moves[n]? = some m ∧ h.props[n]? = some mp ∧
    m ∈ p.getLegalMoves K ∧ p.moveProps K m = .ok mp ∧ sanText m mp = tok ∧ p' = p.makeMoveUnchecked K m

/-- the same in rule terms: the recorded move is legal by the rules in the position before it, the position after it is the
rule-level successor, the token is the STANDARD SAN of the move in that position, and no other rule-legal move of that
position has that standard SAN -/
def History.RulePly (h : History) (n : Nat) (tok : Str) : Prop :=
  ∃ p p' m, h.positions[n]? = some p ∧ h.positions[n + 1]? = some p' ∧ h.moves[n]? = some m ∧
    Spec.legal p.absPos m = true ∧ p'.absPos = Spec.apply p.absPos m ∧ (Spec.san p.absPos m).toList = tok ∧
    ∀ m', Spec.legal p.absPos m' = true → (Spec.san p.absPos m').toList = tok → m' = m

variable {K}

theorem TokenPlay.plies {g g₁ : Game} {toks : List Str} {ms : List Move} (h : TokenPlay K g toks ms g₁)
    (hc : History.Chain K g.history g.position) :
    ∀ (i : Nat) (hi : i < toks.length), History.PlyOf K g₁.history (g.history.moves.length + i) toks[i] := by
  induction h with
  | nil g => intro i hi; cases hi
  | @cons g g' g₁ tok toks m ms mp hm hp ht ha hrest ih =>
    rcases act_cases K g g' _ ha with ⟨m', nb, mp', hm', _, hmk, hmp, hpos, hh, _⟩ | ⟨hne, _⟩
    · cases hm'
      rw [hp] at hmp; cases hmp
      have hc' : History.Chain K g'.history g'.position := by rw [hpos, hh]; exact hc.push K hmk hp
      obtain ⟨ps, qs, l1, l2, e1, e2, e3, e4⟩ := hrest.history
      have hlen := hc.len_pos
      have hlen' := hc.len_props
      have hlast : g.history.positions[g.history.moves.length]? = some g.position := by
        have := hc.last
        rw [List.getLast?_eq_getElem?, hlen, Nat.add_sub_cancel] at this
        exact this
      intro i hi
      cases i with
      | zero =>
        refine ⟨g.position, nb, m, mp, ?_, ?_, ?_, ?_, hm, hp, ht, (makeMove_ok K hmk).2⟩
        · rw [e1, hh]
          simp only [Nat.add_zero]
          rw [List.getElem?_append_left (by simp; omega), List.getElem?_append_left (by omega)]
          exact hlast
        · rw [e1, hh]
          simp only [Nat.add_zero]
          rw [List.getElem?_append_left (by simp; omega), List.getElem?_append_right (by omega)]
          simp [hlen]
        · rw [e2, hh]
          simp only [Nat.add_zero]
          rw [List.getElem?_append_left (by simp), List.getElem?_append_right (Nat.le_refl _)]
          simp
        · rw [e3, hh]
          simp only [Nat.add_zero]
          rw [List.getElem?_append_left (by simp; omega), List.getElem?_append_right (by omega)]
          simp [hlen']
      | succ i =>
        have hi' : i < toks.length := by simpa using hi
        have := ih hc' i hi'
        have e : g'.history.moves.length + i = g.history.moves.length + (i + 1) := by rw [hh]; simp; omega
        rw [e] at this
        simpa using this
    · exact absurd rfl (hne m)

variable (K)

/-- a ply played on a token, read by the rules (C02: successor, C03/C14: legality and standard SAN) -/
theorem History.PlyOf.rule {h : History} {n : Nat} {tok : Str} (hp : History.PlyOf K h n tok)
    (hv : ∀ q ∈ h.positions, q.Valid K) : History.RulePly h n tok := by
  obtain ⟨p, p', m, mp, e1, e2, e3, _, hm, hmp, ht, hp'⟩ := hp
  have hvp : p.Valid K := hv p (List.mem_of_getElem? e1)
  have hl : Spec.legal p.absPos m = true := (hvp.mem_getLegalMoves_iff m).1 hm
  have hsan := C14_refines_legal K p hvp m mp hm hmp
  refine ⟨p, p', m, e1, e2, e3, hl, ?_, ?_, ?_⟩
  · rw [hp']; exact (C02_successor K p hvp m hl).1
  · rw [← hsan, ht]
  · intro m' hl' ht'
    obtain ⟨q, hq, hsan'⟩ := C14_refines_all K p hvp m' ((hvp.mem_getLegalMoves_iff m').2 hl')
    exact C14_injective_valid K p hvp m' m q mp hq hmp (by rw [hsan', ht', ht])

/-- **the move chosen for a token is the only one**: on a valid position no other move that has notation properties at all
(that is: no other move accepted by the legality test) prints to the token -/
theorem History.PlyOf.unique {h : History} {n : Nat} {tok : Str} (hp : History.PlyOf K h n tok)
    (hv : ∀ q ∈ h.positions, q.Valid K) (p : Board) (m : Move) (e1 : h.positions[n]? = some p) (e3 : h.moves[n]? = some m)
    (m' : Move) (mp' : MoveProps) (hq : p.moveProps K m' = .ok mp') (ht' : sanText m' mp' = tok) : m' = m := by
  obtain ⟨p0, _, m0, mp, e1', _, e3', _, _, hmp, ht, _⟩ := hp
  rw [e1] at e1'; cases e1'
  rw [e3] at e3'; cases e3'
  exact C14_injective_valid K p (hv p (List.mem_of_getElem? e1)) m' m mp' mp hq hmp (by rw [ht', ht])

/-! ## 5. the rule-level reading of a token list -/

/-- `SanLine q toks ms qs`: read from the position `q` by the rules of chess and the standard notation, the token list `toks`
is the move list `ms`, leading through the positions `qs`: each move is rule-legal in the position it is played on, its
STANDARD SAN there is the token, no other rule-legal move of that position has that standard SAN, and the next position is
the rule-level successor -/
inductive SanLine : Spec.Pos → List Str → List Move → List Spec.Pos → Prop
  | nil (q : Spec.Pos) : SanLine q [] [] []
  | cons {q : Spec.Pos} {tok : Str} {toks : List Str} {m : Move} {ms : List Move} {qs : List Spec.Pos} :
      Spec.legal q m = true → (Spec.san q m).toList = tok →
      (∀ m', Spec.legal q m' = true → (Spec.san q m').toList = tok → m' = m) →
      SanLine (Spec.apply q m) toks ms qs → SanLine q (tok :: toks) (m :: ms) (Spec.apply q m :: qs)

/-- a token list has at most one reading -/
theorem SanLine.unique {q : Spec.Pos} {toks : List Str} {ms ms' : List Move} {qs qs' : List Spec.Pos}
    (h : SanLine q toks ms qs) (h' : SanLine q toks ms' qs') : ms = ms' ∧ qs = qs' := by
  induction h generalizing ms' qs' with
  | nil q => cases h'; exact ⟨rfl, rfl⟩
  | cons hl ht hu _ ih =>
    cases h' with
    | cons hl' ht' _ hrest' =>
      have e := hu _ hl' ht'
      subst e
      obtain ⟨e1, e2⟩ := ih hrest'
      rw [e1, e2]; exact ⟨rfl, rfl⟩

theorem SanLine.length {q : Spec.Pos} {toks : List Str} {ms : List Move} {qs : List Spec.Pos} (h : SanLine q toks ms qs) :
    ms.length = toks.length ∧ qs.length = toks.length := by
  induction h with
  | nil q => exact ⟨rfl, rfl⟩
  | cons _ _ _ _ ih => simp [ih.1, ih.2]

variable {K}

theorem TokenPlay.sanLine {g g₁ : Game} {toks : List Str} {ms : List Move} (h : TokenPlay K g toks ms g₁)
    (hok : GameOK K g) :
    ∃ qs, g₁.history.positions = g.history.positions ++ qs ∧ SanLine g.position.absPos toks ms (qs.map Board.absPos) := by
  induction h with
  | nil g => exact ⟨[], by simp, .nil _⟩
  | @cons g g' g₁ tok toks m ms mp hm hp ht ha hrest ih =>
    have hv := hok.position_valid
    have hw := mem_getLegalMoves_constructible K _ _ hm
    obtain ⟨qs, e1, hline⟩ := ih (.step (.move m) hok hw ha)
    rcases act_cases K g g' _ ha with ⟨m', nb, mp', hm', _, hmk, _, hpos, hh, _⟩ | ⟨hne, _⟩
    · cases hm'
      have hl : Spec.legal g.position.absPos m = true := (hv.mem_getLegalMoves_iff m).1 hm
      have hsucc : g'.position.absPos = Spec.apply g.position.absPos m := by
        rw [hpos, (makeMove_ok K hmk).2]; exact (C02_successor K _ hv m hl).1
      have hsan := C14_refines_legal K _ hv m mp hm hp
      refine ⟨nb :: qs, by rw [e1, hh]; simp, ?_⟩
      rw [List.map_cons, ← hpos, hsucc]
      rw [hsucc] at hline
      refine .cons hl (by rw [← hsan, ht]) ?_ hline
      intro m' hl' ht'
      obtain ⟨q, hq, hsan'⟩ := C14_refines_all K _ hv m' ((hv.mem_getLegalMoves_iff m').2 hl')
      exact C14_injective_valid K _ hv m' m q mp hq hp (by rw [hsan', ht', ht])
    · exact absurd rfl (hne m)

variable (K)

/-! ## 6. MAIN: the importer on arbitrary text -/

/-- the standard initial game: its history is the bare start board -/
theorem stdGame_history (b0 : Board) : (ofBoard b0).history.moves = [] ∧ (ofBoard b0).history.positions = [b0] ∧
    (ofBoard b0).history.props = [] := by
  simp [History.fromPosition]

/-! ### 1. reachability -/

/-- **C15 (import, reachability) — any start game, EVERY text.**  If `from_pgn` returns `Ok(g)` then there is a move list `ms`
such that `Game::make_move` accepts the moves of `ms` one after the other from `start` (`Game.playMoves`), reaching `g₁`, and
`g` is `g₁` followed by at most the result actions of the tail: nothing, `Resign(c)`, or `OfferDraw(White)` then `AcceptDraw`
(also in the form `Ending` of C15).  So `g` is reachable from `start` by accepted actions (`PlayedFrom`). -/
theorem C15_import_reach (start : Game) (pgn : Str) (g : Game) (h : Game.ofPgnRegex K start pgn = .ok g) :
    ∃ ms g₁, Game.playMoves K start ms = .ok g₁ ∧
      (g = g₁ ∨ (∃ c, g₁.act K (.resign c) = .ok g) ∨
        ∃ g₂, g₁.act K (.offerDraw .white) = .ok g₂ ∧ g₂.act K .acceptDraw = .ok g) ∧
      Ending K g₁ g ∧ PlayedFrom K start g := by
  obtain ⟨sec, g₁, _, hr, ht⟩ := (ofPgnRegex_ok_iff K start pgn g).1 h
  obtain ⟨ms, hp⟩ := replaySan_tokenPlay K _ start g₁ hr
  exact ⟨ms, g₁, hp.playMoves, ht.cases3, ht.ending, (playMoves_playedFrom hp.playMoves).trans ht.playedFrom⟩

/-- … from a game a caller can hold (`GameOK`: built by `Game::from_board` on a valid board, followed by accepted
constructible actions) the imported game is again such a game; in particular it is `GameReach` -/
theorem C15_import_reach_ok (start : Game) (hok : GameOK K start) (pgn : Str) (g : Game)
    (h : Game.ofPgnRegex K start pgn = .ok g) : GameOK K g ∧ GameReach K g := by
  obtain ⟨sec, g₁, _, hr, ht⟩ := (ofPgnRegex_ok_iff K start pgn g).1 h
  have := ht.ok (replaySan_ok_inv K _ start g₁ hok hr)
  exact ⟨this, this.reach⟩

/-- **C15 (import, reachability) — `Game::from_pgn`, the standard initial position, EVERY text.** -/
theorem C15_import_reach_std (b0 : Board) (h0 : Board.ofBuilder K stdBuilder = .ok b0) (pgn : Str) (g : Game)
    (h : Game.ofPgnRegex K (ofBoard b0) pgn = .ok g) :
    (∃ ms g₁, Game.playMoves K (ofBoard b0) ms = .ok g₁ ∧
      (g = g₁ ∨ (∃ c, g₁.act K (.resign c) = .ok g) ∨
        ∃ g₂, g₁.act K (.offerDraw .white) = .ok g₂ ∧ g₂.act K .acceptDraw = .ok g)) ∧
    PlayedFrom K (ofBoard b0) g ∧ GameReach K g ∧ GameOK K g := by
  obtain ⟨ms, g₁, h1, h2, _, h4⟩ := C15_import_reach K _ pgn g h
  obtain ⟨h5, h6⟩ := C15_import_reach_ok K _ (stdGame_ok K b0 h0) pgn g h
  exact ⟨⟨ms, g₁, h1, h2⟩, h4, h6, h5⟩

/-! ### 2. one move per token, the token is the SAN text of the move -/

/-- **C15 (import, tokens) — any reachable start game, EVERY text.**  If `from_pgn` returns `Ok(g)`: the text has a moves
section `sec`; the move tokens `findMoves sec` are played by a move list `ms` (a `TokenPlay`: each move is a generated legal
move of the position before it, accepted by `make_move`, and the token EQUALS its printed SAN text there), reaching `g₁`; `g`
is `g₁` after the tail.  ALL tokens are consumed: `ms.length = (findMoves sec).length`; the imported history is the history
of `start` extended by exactly these moves; and ply `start.history.moves.length + i` of the imported history was played on
token `i` (`History.PlyOf`). -/
theorem C15_import_tokens (start : Game) (hr0 : GameReach K start) (pgn : Str) (g : Game)
    (h : Game.ofPgnRegex K start pgn = .ok g) :
    ∃ sec ms g₁, regexMovesSection pgn = some sec ∧
      TokenPlay K start (findMoves sec) ms g₁ ∧ ImportTail K g₁ (findResult sec) g ∧
      ms.length = (findMoves sec).length ∧
      g.history.moves = start.history.moves ++ ms ∧
      g.history.positions.length = start.history.positions.length + (findMoves sec).length ∧
      ∀ (i : Nat) (hi : i < (findMoves sec).length),
        History.PlyOf K g.history (start.history.moves.length + i) (findMoves sec)[i] := by
  obtain ⟨sec, g₁, hs, hr, ht⟩ := (ofPgnRegex_ok_iff K start pgn g).1 h
  obtain ⟨ms, hp⟩ := replaySan_tokenPlay K _ start g₁ hr
  obtain ⟨ps, qs, _, l2, e1, e2, _, _⟩ := hp.history
  refine ⟨sec, ms, g₁, hs, hp, ht, hp.length, ?_, ?_, ?_⟩
  · rw [ht.frame.2.1, e2]
  · rw [ht.frame.2.1, e1, List.length_append, l2]
  · intro i hi
    rw [ht.frame.2.1]
    exact hp.plies (C13_chain' K start hr0) i hi

/-- **C15 (import, tokens) — `Game::from_board(b0)` then the import, EVERY board, EVERY text.**  The recorded moves of the
imported game are in one-to-one correspondence with the move tokens of the text: as many moves as tokens, the history starts at
`b0`, and for every `i` the `i`-th recorded move is a generated legal move of the `i`-th recorded position, the `i`-th recorded
notation properties are its properties there, the `i`-th token IS the SAN text printed for it with them, and the `(i+1)`-th
recorded position is the `i`-th after that move. -/
theorem C15_import_tokens_ofBoard (b0 : Board) (pgn : Str) (g : Game)
    (h : Game.ofPgnRegex K (ofBoard b0) pgn = .ok g) :
    ∃ sec, regexMovesSection pgn = some sec ∧
      g.history.moves.length = (findMoves sec).length ∧
      g.history.positions.length = (findMoves sec).length + 1 ∧
      g.history.positions[0]? = some b0 ∧
      ∀ (i : Nat) (hi : i < (findMoves sec).length), History.PlyOf K g.history i (findMoves sec)[i] := by
  obtain ⟨sec, ms, g₁, hs, hp, ht, hl, e2, e1, hply⟩ := C15_import_tokens K _ (.init b0) pgn g h
  obtain ⟨m0, p0, _⟩ := stdGame_history b0
  refine ⟨sec, hs, ?_, ?_, ?_, ?_⟩
  · rw [e2, m0, List.nil_append, hl]
  · rw [e1, p0]; simp; omega
  · obtain ⟨_, qs, _, _, e1', _⟩ := hp.history
    rw [ht.frame.2.1, e1', p0]; rfl
  · intro i hi
    have := hply i hi
    rw [m0] at this
    simpa using this

/-- **C15 (import, tokens) — `Game::from_pgn`, the standard initial position, EVERY text.** -/
theorem C15_import_tokens_std (b0 : Board) (_h0 : Board.ofBuilder K stdBuilder = .ok b0) (pgn : Str) (g : Game)
    (h : Game.ofPgnRegex K (ofBoard b0) pgn = .ok g) :
    ∃ sec, regexMovesSection pgn = some sec ∧
      g.history.moves.length = (findMoves sec).length ∧
      g.history.positions.length = (findMoves sec).length + 1 ∧
      g.history.positions[0]? = some b0 ∧
      ∀ (i : Nat) (hi : i < (findMoves sec).length), History.PlyOf K g.history i (findMoves sec)[i] :=
  C15_import_tokens_ofBoard K b0 pgn g h

/-- the loop is a fold over the token list -/
theorem replaySan_append (pre suf : List Str) : ∀ g : Game,
    replaySan K g (pre ++ suf) =
      match replaySan K g pre with
      | .error e => .error e
      | .ok g' => replaySan K g' suf := by
  induction pre with
  | nil => intro g; rfl
  | cons t pre ih =>
    intro g
    rw [List.cons_append, replaySan_cons, replaySan_cons]
    cases (sanCands K g t).getLast? with
    | none => rfl
    | some m =>
      simp only
      cases g.act K (.move m) with
      | error e => rfl
      | ok g2 => exact ih g2

/-- a token is only ever accepted by an ongoing game -/
theorem replaySan_cons_ok_ongoing (g g₁ : Game) (tok : Str) (rest : List Str)
    (h : replaySan K g (tok :: rest) = .ok g₁) : g.status = .ongoing := by
  rw [replaySan_cons] at h
  cases hc : (sanCands K g tok).getLast? with
  | none => rw [hc] at h; cases h
  | some m =>
    simp only [hc] at h
    cases ha : g.act K (.move m) with
    | error e => simp only [ha] at h; cases h
    | ok g2 => exact act_move_inv K ha

/-- **before the last token the game is ongoing**: in a successful import every proper prefix `pre` of the token list is
replayed to an ONGOING game — the game can end by itself (mate, stalemate, a draw by rule or repetition) on the LAST token only.
Were it to end earlier, the next token would make the import fail (`C15_import_finished_stops`); the loop never stops early
with `Ok`, so on success ALL tokens were consumed. -/
theorem C15_import_before_last (start : Game) (pgn : Str) (g : Game) (h : Game.ofPgnRegex K start pgn = .ok g)
    (sec : Str) (hs : regexMovesSection pgn = some sec) (pre : List Str) (tok : Str) (rest : List Str)
    (e : findMoves sec = pre ++ tok :: rest) :
    ∃ g', replaySan K start pre = .ok g' ∧ g'.status = .ongoing := by
  obtain ⟨sec', g₁, hs', hr, _⟩ := (ofPgnRegex_ok_iff K start pgn g).1 h
  rw [hs] at hs'; cases hs'
  rw [e, replaySan_append] at hr
  cases hp : replaySan K start pre with
  | error e' => rw [hp] at hr; cases hr
  | ok g' =>
    rw [hp] at hr
    exact ⟨g', rfl, replaySan_cons_ok_ongoing K g' g₁ tok rest hr⟩

/-- **an import whose moves end the game early fails**: if a proper prefix `pre` of the token list is replayed to a finished
game, the import returns the error of `C15_import_finished_stops` for the next token — `InvalidPGNString` or
`GameIsAlreadyFinished` — whatever follows -/
theorem C15_import_early_end_fails (start : Game) (pgn : Str) (sec : Str) (hs : regexMovesSection pgn = some sec)
    (pre : List Str) (tok : Str) (rest : List Str) (e : findMoves sec = pre ++ tok :: rest)
    (g' : Game) (hp : replaySan K start pre = .ok g') (hf : C12.finished g'.status = true) :
    Game.ofPgnRegex K start pgn =
      .error (match (sanCands K g' tok).getLast? with | none => .invalidPgn | some _ => .gameFinished) := by
  rw [ofPgnRegex_eq_importOf, hs]
  show Game.importOf K start (findMoves sec) (findResult sec) = _
  unfold Game.importOf
  rw [e, replaySan_append, hp]
  simp only
  rw [C15_import_finished_stops K g' hf tok rest]

/-- the tail never fails: whatever the replayed game and the result word -/
theorem importTail_total (g₁ : Game) (res : Option Str)
    (hres : ∀ r, res = some r → r = "1-0".toList ∨ r = "0-1".toList ∨ r = "1/2-1/2".toList) :
    ∃ g, ImportTail K g₁ res g := by
  by_cases hs : g₁.status = .ongoing
  · cases res with
    | none => exact ⟨g₁, .noResult hs⟩
    | some r =>
      rcases hres r rfl with rfl | rfl | rfl
      · exact ⟨_, .whiteWins _ hs (act_resign_eq K g₁ .black hs)⟩
      · exact ⟨_, .blackWins _ hs (act_resign_eq K g₁ .white hs)⟩
      · exact ⟨_, .drawn _ _ hs (act_offer_eq K g₁ .white hs) (act_accept_eq K _ .white (by simp))⟩
  · exact ⟨g₁, .finished res hs⟩

/-- **C15 (import, every failure) — from a game a caller can hold whose status is a board status, EVERY text.**  `from_pgn`
returns `Err` in exactly these situations: the text has no second section (`InvalidPGNString`); or a prefix `pre` of the move
tokens was played, reaching `g'`, and the next token `tok` has no candidate among the legal moves of `g'.position`
(`InvalidPGNString`), or has one although `g'` is finished — the game had ended by itself, by a board result or by repetition
(`GameIsAlreadyFinished`).  The tail never fails. -/
theorem C15_import_error (start : Game) (hok : GameOK K start) (hb : boardStatus start.status = true) (pgn : Str) (e : Err)
    (h : Game.ofPgnRegex K start pgn = .error e) :
    (regexMovesSection pgn = none ∧ e = .invalidPgn) ∨
    ∃ sec pre tok rest ms g', regexMovesSection pgn = some sec ∧ findMoves sec = pre ++ tok :: rest ∧
      TokenPlay K start pre ms g' ∧
      (((sanCands K g' tok).getLast? = none ∧ e = .invalidPgn) ∨
       (∃ m, (sanCands K g' tok).getLast? = some m ∧ C12.finished g'.status = true ∧ e = .gameFinished)) := by
  rw [ofPgnRegex_eq_importOf] at h
  cases hs : regexMovesSection pgn with
  | none => rw [hs] at h; cases h; exact Or.inl ⟨rfl, rfl⟩
  | some sec =>
    rw [hs] at h
    replace h : Game.importOf K start (findMoves sec) (findResult sec) = .error e := h
    right
    cases hr : replaySan K start (findMoves sec) with
    | error e' =>
      have : Game.importOf K start (findMoves sec) (findResult sec) = .error e' := by unfold Game.importOf; rw [hr]
      rw [this] at h; cases h
      obtain ⟨pre, tok, rest, ms, g', e1, hp, hcase⟩ := C15_import_failure K _ start hok hb e hr
      exact ⟨sec, pre, tok, rest, ms, g', rfl, e1, hp, hcase⟩
    | ok g₁ =>
      obtain ⟨g, ht⟩ := importTail_total K g₁ (findResult sec) (fun r hr => C15Import.findResult_values sec r hr)
      rw [ht.importOf K hr] at h; cases h

/-! ### 3. uniqueness: the import is deterministic in the chess sense -/

/-- **C15 (import, the move of a token is the only one).**  In a game imported from a game a caller can hold, take ply
`start.history.moves.length + i` (the ply of token `i`), `p` the position before it and `m` the recorded move.  Then `m` is
the ONLY move that the position `p` gives notation properties to (equivalently: that its legality test accepts) and whose
printed SAN text is the token (`C14_injective_valid`). -/
theorem C15_import_token_unique (start : Game) (hok : GameOK K start) (pgn : Str) (g : Game)
    (h : Game.ofPgnRegex K start pgn = .ok g) (sec : Str) (hs : regexMovesSection pgn = some sec)
    (i : Nat) (hi : i < (findMoves sec).length) (p : Board) (m : Move)
    (e1 : g.history.positions[start.history.moves.length + i]? = some p)
    (e3 : g.history.moves[start.history.moves.length + i]? = some m)
    (m' : Move) (mp' : MoveProps) (hq : p.moveProps K m' = .ok mp') (ht' : sanText m' mp' = (findMoves sec)[i]) : m' = m := by
  obtain ⟨sec', ms, g₁, hs', _, _, _, _, _, hply⟩ := C15_import_tokens K start hok.reach pgn g h
  rw [hs] at hs'; cases hs'
  exact (hply i hi).unique K (history_valid K (C15_import_reach_ok K start hok pgn g h).1) p m e1 e3 m' mp' hq ht'

/-- **C15 (import, completeness).**  From a game a caller can hold: if the move tokens of the text CAN be played at all — by
any move list `ms` of generated legal moves whose printed SAN texts are the tokens (`TokenPlay`) — then the import succeeds,
with exactly these moves; `g` is the game reached followed by the tail. -/
theorem C15_import_complete (start : Game) (hok : GameOK K start) (pgn sec : Str) (hs : regexMovesSection pgn = some sec)
    (ms : List Move) (g₁ g : Game) (hp : TokenPlay K start (findMoves sec) ms g₁)
    (ht : ImportTail K g₁ (findResult sec) g) : Game.ofPgnRegex K start pgn = .ok g :=
  (ofPgnRegex_ok_iff K start pgn g).2 ⟨sec, g₁, hs, hp.replay K hok, ht⟩

/-- … and every such way of playing the tokens is the imported one: same moves, same game before the tail -/
theorem C15_import_moves_unique (start : Game) (hok : GameOK K start) (pgn : Str) (g : Game)
    (h : Game.ofPgnRegex K start pgn = .ok g) (sec : Str) (hs : regexMovesSection pgn = some sec)
    (ms' : List Move) (g₁' : Game) (hp' : TokenPlay K start (findMoves sec) ms' g₁') :
    g.history.moves = start.history.moves ++ ms' ∧ g.history = g₁'.history ∧ g.position = g₁'.position ∧
      g.counter = g₁'.counter ∧ ImportTail K g₁' (findResult sec) g := by
  obtain ⟨sec', ms, g₁, hs', hp, ht, _, e2, _, _⟩ := C15_import_tokens K start hok.reach pgn g h
  rw [hs] at hs'; cases hs'
  obtain ⟨rfl, rfl⟩ := TokenPlay.unique K hok hp hp'
  exact ⟨e2, ht.frame.2.1, ht.frame.1, ht.frame.2.2, ht⟩

/-- **C15 (import, determinism).**  The importer reads a text only through the move tokens and the first result word of its
moves section: two texts that agree on these give the same outcome — the same error, or the same game (moves, positions,
notation properties, counter, status, result tag). -/
theorem C15_import_unique (start : Game) (pgn pgn' sec sec' : Str) (hs : regexMovesSection pgn = some sec)
    (hs' : regexMovesSection pgn' = some sec') (htok : findMoves sec = findMoves sec')
    (hres : findResult sec = findResult sec') : Game.ofPgnRegex K start pgn = Game.ofPgnRegex K start pgn' := by
  rw [ofPgnRegex_eq_importOf, ofPgnRegex_eq_importOf, hs, hs']
  show Game.importOf K start (findMoves sec) (findResult sec) = Game.importOf K start (findMoves sec') (findResult sec')
  rw [htok, hres]

theorem C15_import_unique_ok (start : Game) (pgn pgn' sec sec' : Str) (hs : regexMovesSection pgn = some sec)
    (hs' : regexMovesSection pgn' = some sec') (htok : findMoves sec = findMoves sec')
    (hres : findResult sec = findResult sec') (g g' : Game) (h : Game.ofPgnRegex K start pgn = .ok g)
    (h' : Game.ofPgnRegex K start pgn' = .ok g') :
    g = g' ∧ g.history.moves = g'.history.moves ∧ g.history.positions = g'.history.positions ∧ g.status = g'.status := by
  have e := C15_import_unique K start pgn pgn' sec sec' hs hs' htok hres
  rw [h, h'] at e
  cases e
  exact ⟨rfl, rfl, rfl, rfl⟩

/-! ### 4. the final status -/

/-- **C15 (import, result) — any start game, EVERY text.**  Let `g₁` be the game the move tokens are replayed to.  The tail
changes neither position, history nor counter.  If `g₁` is not ongoing (the moves ended the game: mate, stalemate, draw by rule
or by repetition) the result word is IGNORED: `g = g₁`.  If `g₁` is ongoing: no result word → `g = g₁` (ongoing); `1-0` →
Black resigned; `0-1` → White resigned; `1/2-1/2` → draw by agreement.  The first match of the result pattern is one of the
three words, so the list is exhaustive. -/
theorem C15_import_result (start : Game) (pgn : Str) (g : Game) (h : Game.ofPgnRegex K start pgn = .ok g) :
    ∃ sec g₁, regexMovesSection pgn = some sec ∧ replaySan K start (findMoves sec) = .ok g₁ ∧
      g.position = g₁.position ∧ g.history = g₁.history ∧ g.counter = g₁.counter ∧
      (g₁.status ≠ .ongoing → g = g₁) ∧
      (g₁.status = .ongoing →
        (findResult sec = none → g = g₁) ∧
        (findResult sec = some "1-0".toList →
          g = g₁.updateStatus (some (.resign .black)) ∧ g.status = .resigned .black) ∧
        (findResult sec = some "0-1".toList →
          g = g₁.updateStatus (some (.resign .white)) ∧ g.status = .resigned .white) ∧
        (findResult sec = some "1/2-1/2".toList →
          g = (g₁.updateStatus (some (.offerDraw .white))).updateStatus (some .acceptDraw) ∧ g.status = .drawAccepted)) ∧
      (findResult sec = none ∨ findResult sec = some "1-0".toList ∨ findResult sec = some "0-1".toList ∨
        findResult sec = some "1/2-1/2".toList) := by
  obtain ⟨sec, g₁, hs, hr, ht⟩ := (ofPgnRegex_ok_iff K start pgn g).1 h
  refine ⟨sec, g₁, hs, hr, ht.frame.1, ht.frame.2.1, ht.frame.2.2, ht.table.1, ht.table.2, ?_⟩
  · cases hres : findResult sec with
    | none => exact Or.inl rfl
    | some r =>
      rcases C15Import.findResult_values sec r hres with rfl | rfl | rfl
      · exact Or.inr (Or.inl rfl)
      · exact Or.inr (Or.inr (Or.inl rfl))
      · exact Or.inr (Or.inr (Or.inr rfl))

/-- **C15 (import, result) — from a game a caller can hold whose status is a board status** (in particular
`Game::from_pgn`: the standard initial game).  The status of the imported game, as a table; the result tag follows the status
(`C12.result_tag`); when the moves ended the game the status is a board result or repetition. -/
theorem C15_import_result_ok (start : Game) (hok : GameOK K start) (hb : boardStatus start.status = true) (pgn : Str)
    (g : Game) (h : Game.ofPgnRegex K start pgn = .ok g) :
    ∃ sec g₁, regexMovesSection pgn = some sec ∧ replaySan K start (findMoves sec) = .ok g₁ ∧
      boardStatus g₁.status = true ∧ g.result = resultTagOf g.status ∧
      g.status =
        (if g₁.status = .ongoing then
          (match findResult sec with
           | none => .ongoing
           | some r => if r = "1-0".toList then .resigned .black else if r = "0-1".toList then .resigned .white
                       else .drawAccepted)
         else g₁.status) := by
  obtain ⟨sec, g₁, hs, hr, _, _, _, hfin, hon, hex⟩ := C15_import_result K start pgn g h
  obtain ⟨ms, hp⟩ := replaySan_tokenPlay K _ start g₁ hr
  refine ⟨sec, g₁, hs, hr, (playMoves_inv K hp.playMoves).1 hb,
    C12.result_tag K g (C15_import_reach_ok K start hok pgn g h).2.toC12, ?_⟩
  by_cases hs1 : g₁.status = .ongoing
  · rw [if_pos hs1]
    obtain ⟨c0, c1, c2, c3⟩ := hon hs1
    rcases hex with e | e | e | e
    · rw [e, c0 e, hs1]
    · rw [e, (c1 e).2]; rfl
    · rw [e, (c2 e).2]; rfl
    · rw [e, (c3 e).2]; rfl
  · rw [if_neg hs1, hfin hs1]

theorem C15_import_result_std (b0 : Board) (h0 : Board.ofBuilder K stdBuilder = .ok b0) (pgn : Str)
    (g : Game) (h : Game.ofPgnRegex K (ofBoard b0) pgn = .ok g) :
    ∃ sec g₁, regexMovesSection pgn = some sec ∧ replaySan K (ofBoard b0) (findMoves sec) = .ok g₁ ∧
      boardStatus g₁.status = true ∧ g.result = resultTagOf g.status ∧
      g.status =
        (if g₁.status = .ongoing then
          (match findResult sec with
           | none => .ongoing
           | some r => if r = "1-0".toList then .resigned .black else if r = "0-1".toList then .resigned .white
                       else .drawAccepted)
         else g₁.status) :=
  C15_import_result_ok K _ (stdGame_ok K b0 h0) (ofBoard_boardStatus b0) pgn g h

/-! ### 5. in rule terms -/

/-- **C15 (import, rules) — from a game a caller can hold, EVERY text.**  For every token `i` of the moves section, at ply
`start.history.moves.length + i` of the imported history: the recorded move is legal BY THE RULES (`Spec.legal`) in the
recorded position before it, the recorded position after it is the rule-level successor (`Spec.apply`), the token is the
STANDARD SAN (`Spec.san`) of the move in that position, and no other rule-legal move of that position has that standard SAN. -/
theorem C15_import_rules (start : Game) (hok : GameOK K start) (pgn : Str) (g : Game)
    (h : Game.ofPgnRegex K start pgn = .ok g) :
    ∃ sec, regexMovesSection pgn = some sec ∧
      g.history.moves.length = start.history.moves.length + (findMoves sec).length ∧
      g.history.positions.length = g.history.moves.length + 1 ∧
      ∀ (i : Nat) (hi : i < (findMoves sec).length),
        History.RulePly g.history (start.history.moves.length + i) (findMoves sec)[i] := by
  obtain ⟨sec, ms, g₁, hs, _, _, hl, e2, _, hply⟩ := C15_import_tokens K start hok.reach pgn g h
  obtain ⟨hokg, hrg⟩ := C15_import_reach_ok K start hok pgn g h
  refine ⟨sec, hs, by rw [e2, List.length_append, hl], (C13_chain' K g hrg).len_pos, ?_⟩
  intro i hi
  exact (hply i hi).rule K (history_valid K hokg)

/-- **C15 (import, rules) — `Game::from_pgn`, the standard initial position, EVERY text.**  The imported history starts at the
standard initial position of the rules, has one move per token, and every ply `i` is the rule-level step described by token
`i` read as standard SAN. -/
theorem C15_import_rules_std (b0 : Board) (h0 : Board.ofBuilder K stdBuilder = .ok b0) (pgn : Str) (g : Game)
    (h : Game.ofPgnRegex K (ofBoard b0) pgn = .ok g) :
    ∃ sec, regexMovesSection pgn = some sec ∧
      g.history.moves.length = (findMoves sec).length ∧
      g.history.positions.length = (findMoves sec).length + 1 ∧
      g.history.positions[0]?.map Board.absPos = some stdBuilder.toPos ∧
      ∀ (i : Nat) (hi : i < (findMoves sec).length), History.RulePly g.history i (findMoves sec)[i] := by
  obtain ⟨sec, hs, l1, l2, hrule⟩ := C15_import_rules K _ (stdGame_ok K b0 h0) pgn g h
  obtain ⟨sec', hs', _, _, e0, _⟩ := C15_import_tokens_ofBoard K b0 pgn g h
  rw [hs] at hs'; cases hs'
  obtain ⟨m0, _, _⟩ := stdGame_history b0
  rw [m0] at l1 hrule
  refine ⟨sec, hs, by simpa using l1, by rw [l2, l1]; simp, ?_, ?_⟩
  · rw [e0, Option.map_some, (stdBoard_facts K b0 h0).2.2]
  · intro i hi
    simpa using hrule i hi

/-- **C15 (import, rules, index-free) — from a game a caller can hold, EVERY text.**  The new part of the imported history is
the READING of the token list by the rules and the standard notation (`SanLine`) from the position `start` stands on; by
`SanLine.unique` it is the only one. -/
theorem C15_import_sanLine (start : Game) (hok : GameOK K start) (pgn : Str) (g : Game)
    (h : Game.ofPgnRegex K start pgn = .ok g) :
    ∃ sec ms qs, regexMovesSection pgn = some sec ∧ g.history.moves = start.history.moves ++ ms ∧
      g.history.positions = start.history.positions ++ qs ∧
      SanLine start.position.absPos (findMoves sec) ms (qs.map Board.absPos) := by
  obtain ⟨sec, ms, g₁, hs, hp, ht, _, e2, _, _⟩ := C15_import_tokens K start hok.reach pgn g h
  obtain ⟨qs, e1, hline⟩ := hp.sanLine hok
  exact ⟨sec, ms, qs, hs, e2, by rw [ht.frame.2.1, e1], hline⟩

/-- **C15 (import, rules, index-free) — `Game::from_pgn`.**  The recorded moves of the imported game ARE the reading of the
token list from the standard initial position of the rules, and the recorded positions are `b0` followed by boards standing
for the positions of that reading. -/
theorem C15_import_sanLine_std (b0 : Board) (h0 : Board.ofBuilder K stdBuilder = .ok b0) (pgn : Str) (g : Game)
    (h : Game.ofPgnRegex K (ofBoard b0) pgn = .ok g) :
    ∃ sec qs, regexMovesSection pgn = some sec ∧ g.history.positions = b0 :: qs ∧
      SanLine stdBuilder.toPos (findMoves sec) g.history.moves (qs.map Board.absPos) := by
  obtain ⟨sec, ms, qs, hs, e2, e1, hline⟩ := C15_import_sanLine K _ (stdGame_ok K b0 h0) pgn g h
  obtain ⟨m0, p0, _⟩ := stdGame_history b0
  rw [m0, List.nil_append] at e2
  rw [p0] at e1
  rw [ofBoard_position, (stdBoard_facts K b0 h0).2.2] at hline
  exact ⟨sec, qs, hs, e1, by rw [e2]; exact hline⟩

/-! ## 7. non-vacuity

A text that is NOT an export of the library is imported successfully from the standard initial position, for EVERY key table;
the hypotheses of all the theorems above hold for it, and their conclusions are the expected concrete facts. -/
section nonvacuity
open C15Import

/-- not an export: a single tag, three line breaks, no space after the move number, runs of spaces, a trailing line break -/
def C15Import.sampleText : Str := "[Event \"x\"]\n\n\n 1.e4   1-0\n".toList
/-- its moves section -/
def C15Import.sampleSection : Str := " 1.e4   1-0\n".toList

theorem C15Import.sampleText_section : regexMovesSection sampleText = some sampleSection := by decide +kernel
theorem C15Import.sampleSection_moves : findMoves sampleSection = ["e4".toList] := by decide +kernel
theorem C15Import.sampleSection_result : findResult sampleSection = some "1-0".toList := by decide +kernel

/-- `1. e4` -/
abbrev C15Import.e4 : Move := .piece .pawn 12 28 none

theorem C15Import.std_e4_spec_legal (b0 : Board) (h0 : Board.ofBuilder K stdBuilder = .ok b0) : Spec.legal b0.absPos e4 = true := by
  rw [(stdBoard_facts K b0 h0).2.2]; decide +kernel

/-- the text the library prints for `1. e4` in the standard initial position is `e4` -/
theorem C15Import.std_e4_sanText (b0 : Board) (h0 : Board.ofBuilder K stdBuilder = .ok b0) (mp : MoveProps)
    (hmp : b0.moveProps K e4 = .ok mp) : sanText e4 mp = "e4".toList := by
  obtain ⟨hv, _, habs⟩ := stdBoard_facts K b0 h0
  obtain ⟨_, hc, hm, hx, ha⟩ := moveProps_inv K b0 _ mp hmp
  have hs := suffix_toList K b0 hv _ (std_e4_spec_legal K b0 h0) mp hc hm
  have hsuf : (Spec.suffix b0.absPos e4).toList = [] := by rw [habs]; decide +kernel
  have hcap : mp.isCapture = false := by rw [hx, hv.cons.isCapture, habs]; decide +kernel
  have hamb : mp.amb = .neither := by rw [ha]; rfl
  rw [sanText_piece, ← hs, hsuf, hcap, hamb]; decide

/-- after `1. e4` the game is ongoing -/
theorem C15Import.std_e4_game (b0 : Board) (h0 : Board.ofBuilder K stdBuilder = .ok b0) :
    ∃ g₁, (ofBoard b0).act K (.move e4) = .ok g₁ ∧ g₁.status = .ongoing := by
  obtain ⟨hv, _, habs⟩ := stdBoard_facts K b0 h0
  have hs := stdGame_ongoing K b0 h0
  have hleg := std_e4_spec_legal K b0 h0
  obtain ⟨g₁, hg⟩ := (C12.ongoing_move K (ofBoard b0) e4 hs).2 (by simpa using std_e4_legal K b0 h0)
  refine ⟨g₁, hg, ?_⟩
  obtain ⟨hmk, _, _, hpos⟩ := C12.move_result K _ g₁ _ hs hg
  rw [ofBoard_position] at hmk
  have hp : g₁.position = b0.makeMoveUnchecked K e4 := (makeMove_ok K hmk).2
  have hv' : g₁.position.Valid K := by rw [hp]; exact C06_step (K := K) b0 hv e4 hleg
  have hst : g₁.position.getStatus = .ongoing := by
    have h4 := C04_status g₁.position hv'
    have : Spec.status g₁.position.absPos = .ongoing := by
      rw [hp, (C02_successor K b0 hv e4 hleg).1, habs]; decide +kernel
    rw [this] at h4
    cases hgs : g₁.position.getStatus <;> rw [hgs] at h4 <;> first | rfl | cases h4
  have hcnt : g₁.positionCounter g₁.position < 3 := by
    rw [C11_positionCounter K g₁ (.step _ (.init b0) hg)]
    refine Nat.lt_of_le_of_lt (List.length_filter_le _ _) ?_
    rw [hpos]; simp [History.fromPosition]
  rw [(C11_status_after_move K _ g₁ _ hg).2, hst]
  simp only
  rw [if_neg (by omega)]

/-- **the sample text is imported, for every key table**: one move `1. e4`, Black resigned, tag `1-0` -/
theorem C15_import_sample (b0 : Board) (h0 : Board.ofBuilder K stdBuilder = .ok b0) :
    ∃ g, Game.ofPgnRegex K (ofBoard b0) sampleText = .ok g ∧ g.history.moves = [e4] ∧ g.status = .resigned .black ∧
      g.result = "1-0".toList := by
  obtain ⟨hv, _, _⟩ := stdBoard_facts K b0 h0
  have hmem : e4 ∈ b0.getLegalMoves K := (hv.mem_getLegalMoves_iff _).2 (std_e4_spec_legal K b0 h0)
  obtain ⟨mp, hmp⟩ := C12.moveProps_ok K b0 e4 (std_e4_legal K b0 h0)
  obtain ⟨g₁, hg, hs1⟩ := std_e4_game K b0 h0
  have hplay : TokenPlay K (ofBoard b0) (findMoves sampleSection) [e4] g₁ := by
    rw [sampleSection_moves]
    exact .cons mp (by simpa using hmem) (by simpa using hmp) (std_e4_sanText K b0 h0 mp hmp) hg (.nil g₁)
  have htail : ImportTail K g₁ (findResult sampleSection) (g₁.updateStatus (some (.resign .black))) := by
    rw [sampleSection_result]
    exact .whiteWins _ hs1 (act_resign_eq K g₁ .black hs1)
  have himp := C15_import_complete K _ (stdGame_ok K b0 h0) sampleText sampleSection sampleText_section [e4] g₁ _ hplay htail
  refine ⟨_, himp, ?_, by simp, ?_⟩
  · rw [updateStatus_history, (C12.move_result K _ g₁ _ (stdGame_ongoing K b0 h0) hg).2.2.1]
    simp [History.fromPosition]
  · rw [C12.result_tag K _ (C15_import_reach_ok K _ (stdGame_ok K b0 h0) _ _ himp).2.toC12]
    simp only [updateStatus_status_resign]
    rfl

/-- the hypothesis `Game.ofPgnRegex K (ofBoard b0) pgn = .ok g` of the main theorems is satisfiable on a non-export, and the
rule-level conclusion is the expected one: the imported record is the reading of `["e4"]` from the initial position -/
example (b0 : Board) (h0 : Board.ofBuilder K stdBuilder = .ok b0) :
    ∃ g qs, Game.ofPgnRegex K (ofBoard b0) sampleText = .ok g ∧ g.history.positions = b0 :: qs ∧
      SanLine stdBuilder.toPos ["e4".toList] [e4] (qs.map Board.absPos) := by
  obtain ⟨g, hg, hm, _, _⟩ := C15_import_sample K b0 h0
  obtain ⟨sec, qs, hs, e1, hline⟩ := C15_import_sanLine_std K b0 h0 sampleText g hg
  rw [sampleText_section] at hs; cases hs
  rw [sampleSection_moves, hm] at hline
  exact ⟨g, qs, hg, e1, hline⟩

/-- … and it exists for every key table -/
example : ∃ b0 g, Board.ofBuilder K stdBuilder = .ok b0 ∧ Game.ofPgnRegex K (ofBoard b0) sampleText = .ok g ∧
    g.status = .resigned .black := by
  obtain ⟨b0, h0⟩ := stdBoard_exists K
  obtain ⟨g, hg, _, hs, _⟩ := C15_import_sample K b0 h0
  exact ⟨b0, g, h0, hg, hs⟩

/-- a text without a second section is rejected before anything else (`InvalidPGNString`), from any game -/
example (start : Game) : Game.ofPgnRegex K start "1. e4 e5 1-0".toList = .error .invalidPgn := by
  have h : regexMovesSection "1. e4 e5 1-0".toList = none := by decide +kernel
  rw [ofPgnRegex_eq_importOf, h]

/-- a text whose second section holds no move token and no result word is imported as the start game itself -/
example (start : Game) : Game.ofPgnRegex K start "[x]\r\n\r\n{nothing here}".toList = .ok start := by
  have h : regexMovesSection "[x]\r\n\r\n{nothing here}".toList = some "{nothing here}".toList := by decide +kernel
  have h1 : findMoves "{nothing here}".toList = [] := by decide +kernel
  have h2 : findResult "{nothing here}".toList = none := by decide +kernel
  rw [ofPgnRegex_eq_importOf, h]
  show Game.importOf K start (findMoves "{nothing here}".toList) (findResult "{nothing here}".toList) = _
  rw [h1, h2]
  unfold Game.importOf
  simp only [replaySan]
  split <;> rfl

/-- a second token after the game is over makes the import fail: `C15_import_finished_stops` applies to every finished game -/
example (g : Game) (hs : g.status = .checkMated .black) (tok : Str) (rest : List Str) :
    ∃ e, replaySan K g (tok :: rest) = .error e ∧ (e = .invalidPgn ∨ e = .gameFinished) := by
  rw [C15_import_finished_stops K g (by rw [hs]; rfl) tok rest]
  cases (sanCands K g tok).getLast? with
  | none => exact ⟨_, rfl, Or.inl rfl⟩
  | some m => exact ⟨_, rfl, Or.inr rfl⟩

/-- the result word is ignored once the moves have ended the game: a replay that ends in mate is returned as it is, even
under the word `0-1` -/
example (start g₁ : Game) (toks : List Str) (hr : replaySan K start toks = .ok g₁) (hs : g₁.status = .checkMated .black) :
    Game.importOf K start toks (some "0-1".toList) = .ok g₁ :=
  (ImportTail.finished (some "0-1".toList) (by rw [hs]; exact GStatus.noConfusion)).importOf K hr

end nonvacuity

end Chess
