import Chess.Lemmas.LegalJoin
import Chess.Props.C02
/-! # C03 — the legality test and move application accept exactly the generated legal moves

"Every representable move value": `BoardMove`'s constructor rejects promotion to a pawn, so move values whose promotion field is
`some .pawn` do not exist in the Rust (hypothesis `hw`); every other value of the finite type `Move` is covered. -/
namespace Chess
open Board Spec
variable {K : Keys}

/-- the legality test answers true iff the move is in the legal-move list -/
theorem C03_iff (b : Board) (hv : b.Valid K) (m : Move) (hw : ∀ pt s d, m ≠ .piece pt s d (some .pawn)) :
    b.isLegalMove K m = true ↔ m ∈ b.getLegalMoves K := hv.isLegalMove_iff m hw

/-- applying succeeds iff legal; the checked form returns exactly the unchecked successor; a rejected move yields the
illegal-move error (and, the model being functional, no new position) -/
theorem C03_apply (b : Board) (hv : b.Valid K) (m : Move) (hw : ∀ pt s d, m ≠ .piece pt s d (some .pawn)) :
    (m ∈ b.getLegalMoves K → b.makeMove K m = .ok (b.makeMoveUnchecked K m)) ∧
    (m ∉ b.getLegalMoves K → b.makeMove K m = .error .illegalMove) := by
  constructor
  · intro h
    have := (C03_iff b hv m hw).2 h
    simp [Board.makeMove, this]
  · intro h
    have : b.isLegalMove K m = false := by
      cases hl : b.isLegalMove K m with
      | false => rfl
      | true => exact absurd ((C03_iff b hv m hw).1 hl) h
    simp [Board.makeMove, this]

/-- in rule terms -/
theorem C03_rules (b : Board) (hv : b.Valid K) (m : Move) (hw : ∀ pt s d, m ≠ .piece pt s d (some .pawn)) :
    b.isLegalMove K m = Spec.legal b.absPos m := by
  cases hl : Spec.legal b.absPos m with
  | true => exact (C03_iff b hv m hw).2 ((hv.mem_getLegalMoves_iff m).2 hl)
  | false =>
    cases hi : b.isLegalMove K m with
    | false => rfl
    | true =>
      have := (hv.mem_getLegalMoves_iff m).1 ((C03_iff b hv m hw).1 hi)
      rw [hl] at this; exact Bool.noConfusion this

end Chess
