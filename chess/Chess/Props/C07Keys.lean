import Chess.Gen.ZobristKeys
/-! C07 (key table part): all 785 published keys are non-zero and pairwise distinct.
`Gen/ZobristKeys.lean` is regenerated from the running implementation whenever its dump differs from the
committed table, and these two kernel checks are re-run on the new table. -/
namespace Chess.C07

def allN (p : Nat → Bool) : Nat → Bool
  | 0 => true
  | n + 1 => p n && allN p n

theorem allN_spec (p : Nat → Bool) : ∀ n, allN p n = true → ∀ i, i < n → p i = true
  | 0, _, i, hi => by omega
  | n + 1, h, i, hi => by
    simp only [allN, Bool.and_eq_true] at h
    rcases Nat.lt_succ_iff_lt_or_eq.1 hi with h' | h'
    · exact allN_spec p n h.2 i h'
    · subst h'; exact h.1

/-- the table predicate: keys non-zero and pairwise distinct -/
def KeysGood (k : Nat → Nat) : Prop := (∀ i, i < 785 → k i ≠ 0) ∧ (∀ i j, j < i → i < 785 → k i ≠ k j)

set_option maxRecDepth 100000 in
theorem keys_nonzero : allN (fun k => !(Nat.beq (Gen.zkey k) 0)) 785 = true := by decide +kernel
set_option maxRecDepth 100000 in
theorem keys_distinct : allN (fun i => allN (fun j => !(Nat.beq (Gen.zkey i) (Gen.zkey j))) i) 785 = true := by decide +kernel

theorem keys_good : KeysGood Gen.zkey := by
  constructor
  · intro i hi h
    have := allN_spec _ 785 keys_nonzero i hi
    simp [h] at this
  · intro i j hji hi h
    have h1 := allN_spec _ 785 keys_distinct i hi
    have h2 := allN_spec _ i h1 j hji
    rw [h] at h2
    simp at h2

end Chess.C07
