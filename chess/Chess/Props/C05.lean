import Chess.Lemmas.ChecksSpec
import Chess.Lemmas.Valid
/-! # C05 — the check mask and the pin mask are exact

For every board a caller can hold (`Board.Valid`), with `p := b.absPos` the specification position it stands for:
* `b.checks` is exactly the set of enemy men attacking the king of the side to move (`Spec.checkers p`);
* `b.pinned` is exactly the set of own men standing alone between their king and an enemy rook, bishop or queen
  attacking along that line (`Spec.pinnedSet p`).

The board-generic statements (any target square, any board whose masks encode a placement — all 2^64 occupancies) are
`checks_spec`, `isUnderAttack_spec`, `pinned_spec` in `Lemmas/ChecksSpec.lean`; here they are instantiated at the king
square, which `kingSq_spec` identifies with the specification's king square. -/
namespace Chess.C05
open Chess Board

/-- under validity the model's king square is the specification's -/
theorem kingSq_valid {K : Keys} {b : Board} (hv : b.Valid K) (c : Color) :
    Spec.kingSq? b.abs c = some (b.kingSq c) := by
  obtain ⟨k, hk⟩ := validPos_kingSq? (p := b.absPos) hv.pos c
  have hk' : Spec.kingSq? b.abs c = some k := hk
  rw [hk', kingSq_spec hv.cons c k hk']

theorem C05_checks {K : Keys} {b : Board} (hv : b.Valid K) (x : Sq) :
    mem x b.checks = true ↔ x ∈ Spec.checkers b.absPos := by
  have hk : Spec.kingSq? b.absPos.board b.absPos.stm = some (b.kingSq b.stm) := kingSq_valid hv b.stm
  simp only [Spec.checkers, hk, List.mem_filter]
  rw [hv.checks_eq, checks_spec hv.cons]
  exact ⟨fun h => ⟨List.mem_finRange x, h⟩, fun h => h.2⟩

theorem C05_pins {K : Keys} {b : Board} (hv : b.Valid K) (s : Sq) :
    mem s b.pinned = true ↔ s ∈ Spec.pinnedSet b.absPos := by
  have hk : Spec.kingSq? b.absPos.board b.absPos.stm = some (b.kingSq b.stm) := kingSq_valid hv b.stm
  simp only [Spec.pinnedSet, hk, List.mem_filter]
  rw [hv.pinned_eq, pinned_spec hv.cons]
  simp only [Bool.and_eq_true, List.any_eq_true, List.all_eq_true, Bool.or_eq_true, Bool.not_eq_true',
    beq_iff_eq, Option.isNone_iff_eq_none]
  constructor
  · rintro ⟨hown, a, hen, hline, hsb, hall⟩
    refine ⟨List.mem_finRange s, hown, a, List.mem_finRange a, ⟨⟨⟨hen, hline⟩, hsb⟩, fun c _ => ?_⟩⟩
    cases hc : Spec.strictlyBetween a c (b.kingSq b.stm) with
    | false => exact Or.inl (Or.inl rfl)
    | true =>
      rcases hall c hc with e | e
      · exact Or.inl (Or.inr e)
      · exact Or.inr e
  · rintro ⟨_, hown, a, _, ⟨⟨⟨hen, hline⟩, hsb⟩, hall⟩⟩
    refine ⟨hown, a, hen, hline, hsb, fun c hc => ?_⟩
    rcases hall c (List.mem_finRange c) with (e | e) | e
    · rw [hc] at e; exact Bool.noConfusion e
    · exact Or.inl e
    · exact Or.inr e

/-- corollary: the check mask is non-blank exactly when the side to move is in check -/
theorem C05_inCheck {K : Keys} {b : Board} (hv : b.Valid K) :
    (!isBlank b.checks) = Spec.inCheck b.absPos.board b.absPos.stm := by
  have hk : Spec.kingSq? b.absPos.board b.absPos.stm = some (b.kingSq b.stm) := kingSq_valid hv b.stm
  simp only [Spec.inCheck, hk]
  rw [hv.checks_eq]
  exact isUnderAttack_spec hv.cons (b.kingSq b.stm)

/-! non-vacuity of the representation hypothesis: the empty board encodes the empty placement -/
example : Rep Board.new (fun _ => none) := ⟨fun _ _ => by simp [Board.new], fun _ _ => by simp [Board.new], fun _ => by simp [Board.new]⟩

end Chess.C05
