import Chess.Lemmas.LegalJoin
import Chess.Lemmas.Construct
import Chess.Props.C06
import Chess.Props.C09
import Chess.Model.Text
/-! # C10 (panic freedom) — the constructor path `ChessBoard::try_from(&BoardBuilder)` reaches no Rust panic point

The model functions are total, so "never panics" is stated through MIRROR PREDICATES: one Boolean per Rust function on
the path, following the control flow of the model function (= of the Rust function), that is `true` exactly when the
evaluation reaches an `unwrap()`/`to_square()` whose precondition fails:

* (a) `get_king_square(c)` = `to_square()` of `king ∩ colour c` on a blank mask     — `(b.kingSq? c).isNone`
* (b) `BETWEEN.get(sq, attacker).unwrap()` in `get_pins_and_checks`                — `(between sq a).isNone`
* (b') `BETWEEN.get(square, s).unwrap()` in `truncate_rays` (`get_piece_moves_mask`) — `(between sq s).isNone`
* (c) `PieceType::from_index(sum).unwrap()` in `get_piece_type_on`                 — `Board.panicsTypeOn`
      (reached from `clear_square` through `get_piece_on`, hence from `put_piece` on an occupied square, from
      `move_piece`, from `clear_square_if_en_passant_capture`; and from `calculate_position_hash`)
* (d) `get_piece_color_on(source).unwrap()` in `move_piece`                          — `(b.getPieceColorOn src).isNone`
* (e) `destination.down()/up().unwrap()` in `clear_square_if_en_passant_capture`    — `(epVictim c dst).isNone`
* (f) `get_piece_type_on(sq).unwrap()`, `get_piece_color_on(sq).unwrap()` in `calculate_position_hash`

MAIN: `C10_ofBuilder_no_panic : panicsOfBuilder K bb = false` for EVERY builder content, `C10_ofFen_no_panic` for every
input string, and `C10_makeMove_no_panic` for every move offered to a `Valid` board.

Not covered here (not data dependent or outside this path): `Square::new(i).unwrap()` for `i < 64`, `PieceType::from_index(i)`
for `i < 6`, `PieceMove::new(.., None).unwrap()` (fails only for a promotion piece), `Rank::from_index((s+d)/2)`, and the
arithmetic overflow of the two move counters (`+= 1`, debug builds only; defect K1). -/
namespace Chess
open Board Spec Construct Chess.C17

/-! ## 1. mirror predicates -/
namespace Board
variable (K : Keys)

/-- (b) `get_pins_and_checks(sq)`: some attacker of the loop has no `BETWEEN` entry -/
def panicsPinsAndChecks (b : Board) (sq : Sq) : Bool :=
  (toList (b.attackersOf sq)).any fun a => (between sq a).isNone

/-- (a)+(b) `update_pins_and_checks`: `get_king_square(side_to_move)`, then `get_pins_and_checks` -/
def panicsUpdatePinsAndChecks (b : Board) : Bool :=
  (b.kingSq? b.stm).isNone || b.panicsPinsAndChecks (b.kingSq b.stm)

/-- (c) `clear_square`: `get_piece_on` → `get_piece_type_on` -/
def panicsClearSquare (b : Board) (s : Sq) : Bool := b.panicsTypeOn s

/-- `put_piece`: `clear_square` is called only on an occupied square -/
def panicsPutPiece (b : Board) (s : Sq) : Bool := !b.isEmptySq s && b.panicsClearSquare s

/-- (d)+(c) `move_piece`: the colour of the man on the source square is unwrapped, the source is cleared, the man is put -/
def panicsMovePiece (b : Board) (src dst : Sq) : Bool :=
  (b.getPieceColorOn src).isNone || b.panicsClearSquare src || (b.clearSquare K src).panicsPutPiece dst

/-- (e)+(c) `clear_square_if_en_passant_capture` -/
def panicsClearIfEp (b : Board) (pt : PT) (dst : Sq) : Bool :=
  b.isEpMove pt dst &&
    (match epVictim b.stm dst with
     | none => true
     | some v => b.panicsClearSquare v)

/-- `get_check_mask_after_piece_move` = `move_piece`, `clear_square_if_en_passant_capture`, `update_pins_and_checks` -/
def panicsCheckMaskAfter (b : Board) (pt : PT) (src dst : Sq) (promo : Option PT) : Bool :=
  b.panicsMovePiece K src dst ||
  (b.movePiece K pt src dst promo).panicsClearIfEp pt dst ||
  ((b.movePiece K pt src dst promo).clearIfEp K pt dst).panicsUpdatePinsAndChecks

/-- (b') one ray of `truncate_rays`: the nearest blocker has no `BETWEEN` entry -/
def panicsRaySeg (b : Board) (sq : Sq) (i : Fin 8) : Bool :=
  match (if i = 0 ∨ i = 2 ∨ i = 4 ∨ i = 5 then lowest (ray sq i &&& b.combined) else highest (ray sq i &&& b.combined)) with
  | none => false
  | some s => (between sq s).isNone

/-- `get_piece_moves_mask` -/
def panicsPieceMovesMask (b : Board) (pt : PT) (sq : Sq) : Bool :=
  match pt with
  | .bishop => bishopDirs.any (b.panicsRaySeg sq)
  | .rook => rookDirs.any (b.panicsRaySeg sq)
  | .queen => queenDirs.any (b.panicsRaySeg sq)
  | _ => false

/-- `update_terminal_status`: the same three nested loops as `Board.hasEscape`.  (Upper bound: the Rust loops stop at
the first escape found; here EVERY iteration is required not to panic.) -/
def panicsHasEscape (b : Board) : Bool :=
  PT.all.any fun pt =>
    (toList (b.colors b.stm &&& b.pieces pt)).any fun sq =>
      b.panicsPieceMovesMask pt sq ||
      (toList (b.pieceMovesMask pt sq)).any fun d => b.panicsCheckMaskAfter K pt sq d none

/-- (f) `calculate_position_hash`: both queries are unwrapped for every member of the occupancy mask -/
def panicsCalcHash (b : Board) : Bool :=
  (toList b.combined).any fun sq =>
    b.panicsTypeOn sq || (b.getPieceTypeOn sq).isNone || (b.getPieceColorOn sq).isNone

/-- `validate`: the if-chain of `Board.validate` (see `Construct.validate_eq`); the panic points are the
`update_pins_and_checks` of the clone with the side to move flipped, and the two `get_king_square` of the rights clause.
Each is reached only when all earlier clauses pass. -/
def panicsValidate (b : Board) : Bool :=
  if !isBlank (b.colors .white &&& b.colors .black) then false else
  if typeOverlap b then false else
  if unionPieces b != b.combined then false else
  if popcount (b.pieces .king &&& b.colors .white) != 1 then false else
  if popcount (b.pieces .king &&& b.colors .black) != 1 then false else
  if (flipped b).panicsUpdatePinsAndChecks then true else
  if popcount (flipped b).updatePinsAndChecks.checks > 0 then false else
  if epBad b then false else
  if (b.kingSq? .white).isNone then true else
  if rightsBad b .white then false else
  (b.kingSq? .black).isNone

/-- the placement loop of `try_from`: `put_piece` for every occupied square of the builder, in order -/
def panicsPutLoop (pcs : Sq → Option Piece) : List Sq → Board → Bool
  | [], _ => false
  | sq :: l, b =>
    (match pcs sq with | some _ => b.panicsPutPiece sq | none => false) ||
    panicsPutLoop pcs l (putStep K pcs b sq)

/-- `TryFrom<&BoardBuilder> for ChessBoard`, in the order of `Board.ofBuilder` (stages `b0 … b3` of `Construct`):
placement loop; the two king-count tests return an error before anything else is evaluated; setters (no panic point);
`update_pins_and_checks`; `calculate_position_hash`; `validate`; and, only when validation passes,
`update_terminal_status`. -/
def panicsOfBuilder (bb : Builder) : Bool :=
  panicsPutLoop K bb.pieces allSq Board.new ||
  (if popcount ((b0 K bb).pieces .king &&& (b0 K bb).colors .white) != 1 then false else
   if popcount ((b0 K bb).pieces .king &&& (b0 K bb).colors .black) != 1 then false else
   ({ b1 K bb with full := bb.full, half := bb.half } : Board).panicsUpdatePinsAndChecks ||
   (b2 K bb).panicsCalcHash ||
   (b3 K bb).panicsValidate ||
   (match (b3 K bb).validate with
    | none => (b3 K bb).panicsHasEscape K
    | some _ => false))

end Board

/-! ## 2. the leaf predicates -/

theorem aligned_of_tables {sq a : Sq} (h : mem a (bishopT sq) = true ∨ mem a (rookT sq) = true) : aligned sq a = true := by
  rcases h with h | h
  · rw [bishop_spec] at h; simp [aligned, h]
  · rw [rook_spec] at h; simp [aligned, h]

theorem between_isNone_of_aligned {sq a : Sq} (h : aligned sq a = true) : (between sq a).isNone = false := by
  cases hb : between sq a with
  | none => rw [between_none_iff, h] at hb; exact Bool.noConfusion hb
  | some m => rfl

/-- (b) for EVERY board and target square: the attackers selected by the loop are on a line with the target -/
theorem no_panic_pinsAndChecks (b : Board) (sq : Sq) : b.panicsPinsAndChecks sq = false := by
  unfold Board.panicsPinsAndChecks
  rw [List.any_eq_false]
  intro a ha
  rw [mem_toList] at ha
  simp only [Board.attackersOf, mem_and, mem_or, Bool.and_eq_true, Bool.or_eq_true] at ha
  have hal : aligned sq a = true := aligned_of_tables (by
    rcases ha.2 with h | h
    · exact Or.inl h.1
    · exact Or.inr h.1)
  rw [between_isNone_of_aligned hal]; simp

/-- (a)+(b): `update_pins_and_checks` is safe as soon as the side to move has a king -/
theorem no_panic_updatePinsAndChecks (b : Board) (hk : (b.kingSq? b.stm).isSome = true) :
    b.panicsUpdatePinsAndChecks = false := by
  unfold Board.panicsUpdatePinsAndChecks
  rw [no_panic_pinsAndChecks]
  cases h : b.kingSq? b.stm with
  | none => rw [h] at hk; exact Bool.noConfusion hk
  | some k => rfl

/-- a mask with exactly one member has a lowest member -/
theorem kingSq?_isSome_of_popcount (b : Board) (c : Color) (h : popcount (b.pieces .king &&& b.colors c) = 1) :
    (b.kingSq? c).isSome = true := by
  unfold Board.kingSq?
  cases hl : lowest (b.pieces .king &&& b.colors c) with
  | some k => rfl
  | none =>
    rw [lowest_none] at hl
    rw [hl] at h
    have := (popcount_zero (0#64)).2 rfl
    omega

/-- (c) under `Rep` -/
theorem Rep.panicsTypeOn {b : Board} {f} (h : Rep b f) (s : Sq) : b.panicsTypeOn s = false := by
  unfold Board.panicsTypeOn
  rw [h.isEmptySq]
  cases hp : f s with
  | none => rfl
  | some p =>
    rw [h.typeIdxSum s p hp]
    cases p.pt <;> rfl

theorem Rep.panicsClearSquare {b : Board} {f} (h : Rep b f) (s : Sq) : b.panicsClearSquare s = false := h.panicsTypeOn s
theorem Rep.panicsPutPiece {b : Board} {f} (h : Rep b f) (s : Sq) : b.panicsPutPiece s = false := by
  unfold Board.panicsPutPiece; rw [h.panicsClearSquare]; simp

/-- (b') for EVERY board: the blocker found on a ray is on a line with the origin -/
theorem no_panic_raySeg (b : Board) (sq : Sq) (i : Fin 8) : b.panicsRaySeg sq i = false := by
  unfold Board.panicsRaySeg
  split
  · rfl
  · next s hs =>
    have hm : mem s (ray sq i &&& b.combined) = true := by
      split at hs
      · exact ((lowest_some _ s).1 hs).1
      · exact ((highest_some _ s).1 hs).1
    rw [mem_and, Bool.and_eq_true, rays_spec] at hm
    exact between_isNone_of_aligned (PseudoGeo.onRay_aligned i sq s hm.1)

theorem no_panic_pieceMovesMask (b : Board) (pt : PT) (sq : Sq) : b.panicsPieceMovesMask pt sq = false := by
  unfold Board.panicsPieceMovesMask
  cases pt <;> simp only [List.any_eq_false, no_panic_raySeg] <;> simp

/-! ## 3. `get_check_mask_after_piece_move` -/
section
variable (K : Keys)

theorem Rep.panicsMovePiece {b : Board} {f} (h : Rep b f) (src dst : Sq) (q : Piece) (hsrc : f src = some q) :
    b.panicsMovePiece K src dst = false := by
  unfold Board.panicsMovePiece
  rw [h.getPieceColorOn, hsrc, h.panicsClearSquare, (h.clearSquare K src).panicsPutPiece]
  rfl

theorem Rep.panicsClearIfEp {b : Board} {f} (h : Rep b f) (pt : PT) (dst : Sq)
    (hvict : b.isEpMove pt dst = true → (Board.epVictim b.stm dst).isSome = true) :
    b.panicsClearIfEp pt dst = false := by
  unfold Board.panicsClearIfEp
  cases hep : b.isEpMove pt dst with
  | false => rfl
  | true =>
    have := hvict hep
    cases hv : Board.epVictim b.stm dst with
    | none => rw [hv] at this; exact Bool.noConfusion this
    | some v => exact h.panicsClearSquare v

/-- the tentative move of an own man is evaluated without panic when the en-passant victim square exists and the mover
still has a king afterwards -/
theorem no_panic_checkMaskAfter {b : Board} {f} (h : Rep b f) (pt : PT) (src dst : Sq) (promo : Option PT)
    (hsrc : f src = some ⟨pt, b.stm⟩) (p : Spec.Pos) (hb : p.board = f) (hs : p.stm = b.stm) (he : p.ep = b.ep)
    (hvict : b.isEpMove pt dst = true → (Board.epVictim b.stm dst).isSome = true)
    (k : Sq) (hk : Spec.kingSq? (Spec.applyBoard p (.piece pt src dst promo)) b.stm = some k) :
    b.panicsCheckMaskAfter K pt src dst promo = false := by
  unfold Board.panicsCheckMaskAfter
  have h1 := h.movePiece K pt src dst promo _ hsrc
  have hr := h.afterPieceMove K pt src dst promo hsrc p hb hs he
  rw [h.panicsMovePiece K src dst _ hsrc,
    h1.panicsClearIfEp pt dst (by rw [movePiece_isEpMove, movePiece_stm]; exact hvict),
    no_panic_updatePinsAndChecks _ (by rw [clearIfEp_stm, movePiece_stm, kingSq?_spec hr, hk]; rfl)]
  rfl

end

/-! ## 4. `update_terminal_status` on a consistent board standing for a valid position -/
section
variable (K : Keys)

theorem king_of_pos {b : Board} (hc : b.Cons) (hp : Spec.ValidPos b.absPos = true) :
    b.abs (b.kingSq b.stm) = some ⟨.king, b.stm⟩ ∧ ∀ s, b.abs s = some ⟨.king, b.stm⟩ → s = b.kingSq b.stm := by
  obtain ⟨k, hk, hkk, hu⟩ := king_unique b.abs b.stm (validPos_count b.absPos hp b.stm)
  have : b.kingSq b.stm = k := kingSq_spec hc b.stm k hk
  rw [this]; exact ⟨hkk, hu⟩

theorem ep_empty_of_pos {b : Board} (hp : Spec.ValidPos b.absPos = true) : ∀ e, b.ep = some e → b.abs e = none := by
  intro e he
  obtain ⟨_, _, _, _, _, hep⟩ := validPos_parts b.absPos hp
  exact ((epOk_iff b.absPos).1 hep e he).2.1

/-- `Board.Valid.king_after` from the two clauses of `Valid` it needs -/
theorem king_after_of_pos {b : Board} (hc : b.Cons) (hp : Spec.ValidPos b.absPos = true)
    (pt : PT) (src dst : Sq) (promo : Option PT)
    (hd : pseudoDest b.absPos pt src dst = true) (hpr : promo ≠ some .king) (hkp : pt = .king → promo = none) :
    Spec.kingSq? (applyBoard b.absPos (.piece pt src dst promo)) b.stm =
      some (if pt = .king then dst else b.kingSq b.stm) := by
  obtain ⟨hk0, hu⟩ := king_of_pos hc hp
  obtain ⟨_, _, _, _, _, hep⟩ := validPos_parts b.absPos hp
  refine Chess.king_after b.absPos (b.kingSq b.stm) hk0 hu pt src dst promo (pseudoDest_src hd)
    (pseudoDest_dst_not_own hd) hpr hkp ?_
  intro v hpawn hepd hv'
  have hvic : victim? b.absPos pt dst = some v := by
    unfold victim?; simp [hpawn, hepd, hv']
  have := victim?_pawn hep hvic
  rw [this]
  intro e
  injection e with e
  injection e with e1 e2
  cases e1

/-- (e): the en-passant square of a valid position lies on rank 6 / 3, so the square behind it exists -/
theorem epVictim_isSome_of_pos {b : Board} (hp : Spec.ValidPos b.absPos = true) (pt : PT) (dst : Sq)
    (h : b.isEpMove pt dst = true) : (Board.epVictim b.stm dst).isSome = true := by
  rw [isEpMove_eq, Bool.and_eq_true, beq_iff_eq, beq_iff_eq] at h
  obtain ⟨_, _, _, _, _, hep⟩ := validPos_parts b.absPos hp
  obtain ⟨s, hs, _⟩ := ((epOk_iff b.absPos).1 hep dst h.2).2.2.1
  rw [epVictim_eq]
  have e : b.absPos.stm = b.stm := rfl
  rw [fwd_other, ← Int.sub_eq_add_neg, e] at hs
  rw [hs]; rfl

/-- every tentative move evaluated for a pseudo-legal destination of an own man -/
theorem no_panic_checkMaskAfter_of_pos {b : Board} (hc : b.Cons) (hp : Spec.ValidPos b.absPos = true)
    (pt : PT) (src dst : Sq) (promo : Option PT)
    (hsrc : mem src (b.colors b.stm &&& b.pieces pt) = true) (hdst : mem dst (b.pieceMovesMask pt src) = true)
    (hpr : promo ≠ some .king) (hkp : pt = .king → promo = none) :
    b.panicsCheckMaskAfter K pt src dst promo = false := by
  have hs := (srcMem_iff hc pt src).1 hsrc
  have hd : pseudoDest b.absPos pt src dst = true := by
    rw [← pieceMovesMask_absPos hc (ep_empty_of_pos hp) pt src dst hs]; exact hdst
  exact no_panic_checkMaskAfter K hc pt src dst promo hs b.absPos rfl rfl rfl
    (epVictim_isSome_of_pos hp pt dst) _ (king_after_of_pos hc hp pt src dst promo hd hpr hkp)

/-- `update_terminal_status` -/
theorem no_panic_hasEscape {b : Board} (hc : b.Cons) (hp : Spec.ValidPos b.absPos = true) :
    b.panicsHasEscape K = false := by
  unfold Board.panicsHasEscape
  rw [List.any_eq_false]
  intro pt _
  rw [Bool.not_eq_true, List.any_eq_false]
  intro sq hsq
  rw [mem_toList] at hsq
  rw [no_panic_pieceMovesMask, Bool.false_or, Bool.not_eq_true, List.any_eq_false]
  intro d hd
  rw [mem_toList] at hd
  rw [no_panic_checkMaskAfter_of_pos K hc hp pt sq d none hsq hd (by simp) (fun _ => rfl)]
  simp

end

/-! ## 5. `validate`, the placement loop, the hash, and the constructor -/
section
variable (K : Keys)

/-- `validate` reaches no panic point on ANY board: the king-count clauses guard every `get_king_square` -/
theorem no_panic_validate (b : Board) : b.panicsValidate = false := by
  unfold Board.panicsValidate
  split
  · rfl
  split
  · rfl
  split
  · rfl
  split
  · rfl
  next hw =>
  split
  · rfl
  next hb =>
  have hw' : popcount (b.pieces .king &&& b.colors .white) = 1 := by simpa using hw
  have hb' : popcount (b.pieces .king &&& b.colors .black) = 1 := by simpa using hb
  have hk : ∀ c, (b.kingSq? c).isSome = true := fun c => by
    cases c
    · exact kingSq?_isSome_of_popcount b _ hw'
    · exact kingSq?_isSome_of_popcount b _ hb'
  have hf : (flipped b).panicsUpdatePinsAndChecks = false :=
    no_panic_updatePinsAndChecks _ (hk b.stm.other)
  have hnone : ∀ c, (b.kingSq? c).isNone = false := fun c => by
    have := hk c
    cases h : b.kingSq? c with
    | none => rw [h] at this; exact Bool.noConfusion this
    | some k => rfl
  rw [hf, hnone .white, hnone .black]
  simp

theorem no_panic_putLoop (pcs : Sq → Option Piece) (l : List Sq) : ∀ (b : Board) (f : Sq → Option Piece), Rep b f →
    Board.panicsPutLoop K pcs l b = false := by
  induction l with
  | nil => intro b f _; rfl
  | cons sq l ih =>
    intro b f h
    unfold Board.panicsPutLoop
    have hstep : ∃ g, Rep (putStep K pcs b sq) g := by
      unfold putStep
      cases pcs sq with
      | none => exact ⟨f, h⟩
      | some p => exact ⟨_, h.putPiece K p sq⟩
    obtain ⟨g, hg⟩ := hstep
    rw [ih _ g hg, h.panicsPutPiece]
    cases pcs sq <;> rfl

theorem Rep.panicsCalcHash {b : Board} {f} (h : Rep b f) : b.panicsCalcHash = false := by
  unfold Board.panicsCalcHash
  rw [List.any_eq_false]
  intro sq hsq
  rw [mem_toList, h.cmb] at hsq
  rw [h.panicsTypeOn, h.getPieceTypeOn, h.getPieceColorOn]
  cases hf : f sq with
  | none => rw [hf] at hsq; exact Bool.noConfusion hsq
  | some p => simp

theorem b2_rep (bb : Builder) : Rep (b2 K bb) bb.pieces :=
  let h := b3_rep K bb
  ⟨h.pcs, h.cls, h.cmb⟩

/-- **C10 (constructor).**  `ChessBoard::try_from(&BoardBuilder)` reaches no panic point, for EVERY builder content
and every key table. -/
theorem C10_ofBuilder_no_panic (bb : Builder) : Board.panicsOfBuilder K bb = false := by
  unfold Board.panicsOfBuilder
  rw [no_panic_putLoop K bb.pieces allSq Board.new _ C07.new_rep, Bool.false_or]
  split
  · rfl
  next hw =>
  split
  · rfl
  next hb =>
  have hw' : popcount ((b0 K bb).pieces .king &&& (b0 K bb).colors .white) = 1 := by simpa using hw
  have hb' : popcount ((b0 K bb).pieces .king &&& (b0 K bb).colors .black) = 1 := by simpa using hb
  -- the setters do not touch the masks
  have hk : (({ b1 K bb with full := bb.full, half := bb.half } : Board).kingSq?
      ({ b1 K bb with full := bb.full, half := bb.half } : Board).stm).isSome = true := by
    have hm := b1_masks K bb
    have e : ∀ c, ({ b1 K bb with full := bb.full, half := bb.half } : Board).kingSq? c = (b0 K bb).kingSq? c := by
      intro c; unfold Board.kingSq?; show lowest ((b1 K bb).pieces .king &&& (b1 K bb).colors c) = _
      rw [hm.1, hm.2.1]
    rw [e]
    generalize ({ b1 K bb with full := bb.full, half := bb.half } : Board).stm = c
    cases c
    · exact kingSq?_isSome_of_popcount _ _ hw'
    · exact kingSq?_isSome_of_popcount _ _ hb'
  rw [no_panic_updatePinsAndChecks _ hk, (b2_rep K bb).panicsCalcHash, no_panic_validate]
  simp only [Bool.false_or]
  cases hval : (b3 K bb).validate with
  | some e => rfl
  | none =>
    have hr := b3_rep K bb
    have hp : Spec.ValidPos (b3 K bb).absPos = true := by
      rw [b3_absPos, ← b3_pos K bb]; exact (validate_none_iff hr).1 hval
    exact no_panic_hasEscape K hr.cons hp

end

/-! ## 6. the text entry point -/
section
variable (K : Keys)

/-- `ChessBoard::from_str` / `from_fen`: the parser (`BoardBuilder::from_str`, no `unwrap`; its only indexing is guarded, see
`C10.parseSquare_branch_unreachable`) followed by the constructor -/
def Board.panicsOfFen (s : Str) : Bool :=
  match parseFen s with
  | .ok bb => Board.panicsOfBuilder K bb
  | .error _ => false

/-- **C10 (FEN).**  For every input string, building a board from a FEN text reaches no panic point: it returns a value or
an error (`Board.ofFen` is total). -/
theorem C10_ofFen_no_panic (s : Str) :
    (match parseFen s with | .ok bb => Board.panicsOfBuilder K bb | .error _ => false) = false := by
  cases parseFen s with
  | error e => rfl
  | ok bb => exact C10_ofBuilder_no_panic K bb

theorem C10_ofFen_no_panic' (s : Str) : Board.panicsOfFen K s = false := C10_ofFen_no_panic K s

/-- … and the result is a value or an error -/
theorem C10_ofFen_total (s : Str) : (∃ b, Board.ofFen K s = .ok b) ∨ (∃ e, Board.ofFen K s = .error e) := by
  cases h : Board.ofFen K s with
  | ok b => exact Or.inl ⟨b, rfl⟩
  | error e => exact Or.inr ⟨e, rfl⟩

/-- `BoardBuilder::setup` followed by the conversion -/
theorem C10_setup_no_panic (pl : List (Sq × Piece)) (stm : Color) (wr br : CR) (ep : Option Sq) (half full : Nat) :
    Board.panicsOfBuilder K (Board.setupBuilder pl stm wr br ep half full) = false := C10_ofBuilder_no_panic K _

end

/-! ## 7. the move path: `is_legal_move`, `make_move_mut_unchecked`, `make_move` -/
namespace Board
variable (K : Keys)

/-- `castling_is_available_on_board`: `is_under_attack` = `get_pins_and_checks` on the two transit squares of each wing
(both are evaluated: `&` does not short-circuit) -/
def panicsCastlingAvailable (b : Board) (checkMask : Option BB) : Bool :=
  if !isBlank (checkMask.getD b.checks) then false else
  (if (b.rights b.stm).hasK then b.panicsPinsAndChecks (homeSq b.stm 5) || b.panicsPinsAndChecks (homeSq b.stm 6) else false) ||
  (if (b.rights b.stm).hasQ then b.panicsPinsAndChecks (homeSq b.stm 3) || b.panicsPinsAndChecks (homeSq b.stm 2) else false)

/-- `is_legal_move`, the if-chain of `Board.isLegalMove` -/
def panicsIsLegalMove (b : Board) : Move → Bool
  | .piece pt src dst promo =>
    if b.term then false else
    if isBlank (b.pieces pt &&& b.colors b.stm &&& bbOf src) then false else
    if b.panicsPieceMovesMask pt src then true else
    if isBlank (b.pieceMovesMask pt src &&& bbOf dst) then false else
    if (promo.isSome != (pt == .pawn && dst.rk == promoRank b.stm)) || promo == some .king then false else
    if b.needsFullCheck b.checks pt src dst then b.panicsCheckMaskAfter K pt src dst promo else false
  | .castle _ => if b.term then false else b.panicsCastlingAvailable none

/-- placement stage of `make_move_mut_unchecked` (`Board.place`) -/
def panicsPlace (b : Board) : Move → Bool
  | .piece pt src dst promo => b.panicsMovePiece K src dst || (b.movePiece K pt src dst promo).panicsClearIfEp pt dst
  | .castle .king =>
    b.panicsMovePiece K (homeSq b.stm 4) (homeSq b.stm 6) ||
    (b.movePiece K .king (homeSq b.stm 4) (homeSq b.stm 6) none).panicsMovePiece K (homeSq b.stm 7) (homeSq b.stm 5)
  | .castle .queen =>
    b.panicsMovePiece K (homeSq b.stm 4) (homeSq b.stm 2) ||
    (b.movePiece K .king (homeSq b.stm 4) (homeSq b.stm 2) none).panicsMovePiece K (homeSq b.stm 0) (homeSq b.stm 3)

/-- the bookkeeping stage up to (not including) `update_pins_and_checks`: counters, rights, side, en-passant square
(no panic point apart from the counter overflow, which is outside this property) -/
def finishPre (b1 : Board) (m : Move) (isCap : Bool) : Board :=
  ((((b1.updateMoveNumber.updateMovesSinceCapture m isCap).updateCastlingRights K m).setSideToMove K b1.stm.other
    ).updateEnPassant K m)

/-- `make_move_mut_unchecked` = placement, bookkeeping, `update_pins_and_checks`, `update_terminal_status` -/
def panicsMakeMoveUnchecked (b : Board) (m : Move) : Bool :=
  b.panicsPlace K m ||
  ((b.place K m).finishPre K m (b.isCapture m)).panicsUpdatePinsAndChecks ||
  (((b.place K m).finishPre K m (b.isCapture m)).updatePinsAndChecks).panicsHasEscape K

/-- `make_move` / `make_move_mut`: the legality test, then (only for a legal move) the unchecked form -/
def panicsMakeMove (b : Board) (m : Move) : Bool :=
  b.panicsIsLegalMove K m || (if b.isLegalMove K m then b.panicsMakeMoveUnchecked K m else false)

end Board

section
variable (K : Keys)

theorem finish_eq_finishPre (b1 : Board) (m : Move) (ic : Bool) :
    b1.finish K m ic = ((b1.finishPre K m ic).updatePinsAndChecks).updateTerminalStatus K := rfl

theorem no_panic_castlingAvailable (b : Board) (cm : Option BB) : b.panicsCastlingAvailable cm = false := by
  unfold Board.panicsCastlingAvailable
  simp only [no_panic_pinsAndChecks, Bool.or_self, ite_self]

/-- `is_legal_move` reaches no panic point for ANY move value offered to a consistent board standing for a valid position -/
theorem no_panic_isLegalMove {b : Board} (hc : b.Cons) (hp : Spec.ValidPos b.absPos = true) (m : Move) :
    b.panicsIsLegalMove K m = false := by
  cases m with
  | castle s =>
    simp only [Board.panicsIsLegalMove]
    rw [no_panic_castlingAvailable]; simp
  | piece pt src dst promo =>
    simp only [Board.panicsIsLegalMove]
    split
    · rfl
    split
    · rfl
    next hsrc =>
    rw [no_panic_pieceMovesMask]
    simp only [Bool.false_eq_true, if_false]
    split
    · rfl
    next hdst =>
    split
    · rfl
    next hpromo =>
    split
    · have hs : mem src (b.colors b.stm &&& b.pieces pt) = true := by
        have : isBlank (b.pieces pt &&& b.colors b.stm &&& bbOf src) = false := by simpa using hsrc
        rw [isBlank_and_bbOf] at this
        simp only [mem_and] at this ⊢
        cases h1 : mem src (b.pieces pt) <;> cases h2 : mem src (b.colors b.stm) <;> simp_all
      have hd : mem dst (b.pieceMovesMask pt src) = true := by
        have : isBlank (b.pieceMovesMask pt src &&& bbOf dst) = false := by simpa using hdst
        rw [isBlank_and_bbOf] at this
        simpa using this
      have hpr : ((promo.isSome != (pt == .pawn && dst.rk == promoRank b.stm)) || promo == some .king) = false := by
        simpa using hpromo
      rw [Bool.or_eq_false_iff] at hpr
      refine no_panic_checkMaskAfter_of_pos K hc hp pt src dst promo hs hd ?_ ?_
      · intro e; rw [e] at hpr; simp at hpr
      · intro e
        have h1 := hpr.1
        rw [e] at h1
        cases promo with
        | none => rfl
        | some q => simp at h1
    · rfl

/-- the tail of `make_move_mut_unchecked`, given that its result is `Valid` -/
theorem no_panic_tail (bq : Board) (hv : ((bq.updatePinsAndChecks).updateTerminalStatus K).Valid K) :
    bq.panicsUpdatePinsAndChecks = false ∧ (bq.updatePinsAndChecks).panicsHasEscape K = false := by
  constructor
  · exact no_panic_updatePinsAndChecks bq (C06_kings hv bq.stm).2.2
  · have hc : Rep (bq.updatePinsAndChecks) ((bq.updatePinsAndChecks).updateTerminalStatus K).abs :=
      ⟨hv.cons.pcs, hv.cons.cls, hv.cons.cmb⟩
    exact no_panic_hasEscape K hc.cons hv.pos

theorem no_panic_place {b : Board} (hc : b.Cons) (hp : Spec.ValidPos b.absPos = true) (m : Move)
    (hm : moverOnSource b.absPos m = true) : b.panicsPlace K m = false := by
  have h : Rep b b.abs := hc
  rcases m with ⟨pt, src, dst, promo⟩ | (_ | _)
  · obtain ⟨q, hq, _⟩ := (isColor_iff _ _ _).1 hm
    have R1 := Rep.movePiece K h pt src dst promo q hq
    simp only [Board.panicsPlace]
    rw [h.panicsMovePiece K src dst q hq, R1.panicsClearIfEp pt dst (by
      rw [movePiece_isEpMove, movePiece_stm]; exact epVictim_isSome_of_pos hp pt dst)]
    rfl
  · simp only [moverOnSource, Bool.and_eq_true, isColor_iff] at hm
    obtain ⟨⟨qk, hk, _⟩, ⟨qr, hr, _⟩⟩ := hm
    have hk : b.abs (Board.homeSq b.stm 4) = some qk := hk
    have hr : b.abs (Board.homeSq b.stm 7) = some qr := hr
    have d1 : Board.homeSq b.stm 7 ≠ Board.homeSq b.stm 4 := fun e => by have := homeSq_inj _ _ _ _ _ e; omega
    have d2 : Board.homeSq b.stm 7 ≠ Board.homeSq b.stm 6 := fun e => by have := homeSq_inj _ _ _ _ _ e; omega
    have R1 := Rep.movePiece K h .king (Board.homeSq b.stm 4) (Board.homeSq b.stm 6) none qk hk
    simp only [Board.panicsPlace]
    rw [h.panicsMovePiece K _ _ qk hk,
      R1.panicsMovePiece K (Board.homeSq b.stm 7) (Board.homeSq b.stm 5) qr (by simp [Spec.upd, d1, d2]; exact hr)]
    rfl
  · simp only [moverOnSource, Bool.and_eq_true, isColor_iff] at hm
    obtain ⟨⟨qk, hk, _⟩, ⟨qr, hr, _⟩⟩ := hm
    have hk : b.abs (Board.homeSq b.stm 4) = some qk := hk
    have hr : b.abs (Board.homeSq b.stm 0) = some qr := hr
    have d1 : Board.homeSq b.stm 0 ≠ Board.homeSq b.stm 4 := fun e => by have := homeSq_inj _ _ _ _ _ e; omega
    have d2 : Board.homeSq b.stm 0 ≠ Board.homeSq b.stm 2 := fun e => by have := homeSq_inj _ _ _ _ _ e; omega
    have R1 := Rep.movePiece K h .king (Board.homeSq b.stm 4) (Board.homeSq b.stm 2) none qk hk
    simp only [Board.panicsPlace]
    rw [h.panicsMovePiece K _ _ qk hk,
      R1.panicsMovePiece K (Board.homeSq b.stm 0) (Board.homeSq b.stm 3) qr (by simp [Spec.upd, d1, d2]; exact hr)]
    rfl

/-- **C10 (unchecked move).**  `make_move_mut_unchecked` reaches no panic point for a LEGAL move of a valid board -/
theorem C10_makeMoveUnchecked_no_panic (b : Board) (hv : b.Valid K) (m : Move) (hm : Spec.legal b.absPos m = true) :
    b.panicsMakeMoveUnchecked K m = false := by
  have hv' : (b.makeMoveUnchecked K m).Valid K := C06_step b hv m hm
  rw [makeMoveUnchecked_eq, finish_eq_finishPre] at hv'
  obtain ⟨h1, h2⟩ := no_panic_tail K _ hv'
  unfold Board.panicsMakeMoveUnchecked
  rw [no_panic_place K hv.cons hv.pos m (legal_moverOnSource _ _ hm), h1, h2]
  rfl

/-- **C10 (move).**  `make_move` / `make_move_mut` reach no panic point for ANY constructible move value offered to a valid
board (`PieceMove::new` rejects a promotion to a pawn): the result is a value or the error `IllegalMoveDetected`. -/
theorem C10_makeMove_no_panic (b : Board) (hv : b.Valid K) (m : Move) (hw : ∀ pt s d, m ≠ .piece pt s d (some .pawn)) :
    b.panicsMakeMove K m = false := by
  unfold Board.panicsMakeMove
  rw [no_panic_isLegalMove K hv.cons hv.pos m, Bool.false_or]
  split
  · next hl =>
    exact C10_makeMoveUnchecked_no_panic K b hv m
      ((hv.mem_getLegalMoves_iff m).1 ((hv.isLegalMove_iff m hw).1 hl))
  · rfl

end

/-! ## 8. non-vacuity

The mirror predicates do fire on boards outside the constructor path, and the hypotheses of the move theorems are satisfiable. -/

/-- (a) fires on a board without kings: `update_pins_and_checks` before the king-count test would panic (the defect the
repaired constructor order removes) -/
example : Board.new.panicsUpdatePinsAndChecks = true := by decide +kernel
/-- (d) fires for a move from an empty square -/
example (K : Keys) : Board.new.panicsMovePiece K 12 28 = true := by
  have h : (Board.new.getPieceColorOn 12).isNone = true := by decide +kernel
  unfold Board.panicsMovePiece; rw [h]; rfl
/-- (e) fires for an "en-passant square" on the first rank with White to move -/
example : ({ Board.new with ep := some 3 } : Board).panicsClearIfEp .pawn 3 = true := by decide +kernel
/-- (b) the table has `None` entries: the proof of `no_panic_pinsAndChecks` needs the alignment of the attackers -/
example : (between 0 10).isNone = true := by simp only [between_eq]; decide +kernel

/-- a `Valid` board exists for every key table, so `C10_makeMove_no_panic` is not vacuous -/
example (K : Keys) : ∃ b : Board, b.Valid K ∧ ∀ m : Move, (∀ pt s d, m ≠ .piece pt s d (some .pawn)) →
    b.panicsMakeMove K m = false := by
  obtain ⟨b, hb⟩ := C09_complete K _ C09.sample_valid
  exact ⟨b, (C09_sound K _ b hb).1, fun m hw => C10_makeMove_no_panic K b (C09_sound K _ b hb).1 m hw⟩

end Chess
