import Chess.Props.C10Panic
import Chess.Props.C12Refine
import Chess.Props.C15
import Chess.Model.PgnRegex
/-! # C10 (panic freedom) — the GAME layer: `Game::make_move`, `GameHistory::push`, `MovePropertiesOnBoard::new`,
`ChessBoard::get_legal_moves`, `get_status`, and the PGN importer `Game::from_pgn`

Same technique as `Chess/Props/C10Panic.lean`: the model functions are total, so "never panics" is stated through Boolean
MIRROR PREDICATES that follow the control flow of the Rust function (as transcribed by the model function) and are `true`
exactly when the evaluation reaches an `unwrap()` / `unreachable!()` whose precondition fails.

Data-dependent panic points of this layer (Rust file : function):

* (g) `game_history.rs : get_last_position` — `self.positions.last().unwrap()` on an empty history
* (h) `game_history.rs : push` — `MovePropertiesOnBoard::new(&board_move, &self.get_last_position()).unwrap()`: `Err` when the
      move is not legal in the LAST POSITION OF THE HISTORY (the model's `Game.act` evaluates `moveProps` on `g.position`; the
      mirror predicate `History.panicsPush` looks at `positions.getLast?`, and `C10_last_position` is the invariant that
      makes the two agree on reachable games)
* (i) `games.rs : from_pgn` loop — `MovePropertiesOnBoard::new(&m, &pos).unwrap()` for EVERY `m` of `get_legal_moves()`
* (j) `games.rs : from_pgn` tail — `make_move(&Resign(..)).unwrap()`, `make_move(&OfferDraw(White)).unwrap()
      .make_move(&AcceptDraw).unwrap()`, executed only when the status is `Ongoing`
* (k) inside `MovePropertiesOnBoard::new`: `board.make_move` (`Board.panicsMakeMove`), `get_move_ambiguity_type` →
      `is_legal_move` (`Board.panicsIsLegalMove`) and `get_legal_moves` (`Board.panicsGetLegalMoves`: `get_piece_moves_mask`,
      `get_check_mask_after_piece_move` behind the shortcut condition, `castling_is_available_on_board`).
      `PieceMove::new(pt, from, to, promo)` returns `Err(InvalidPromotionPiece)` exactly when `promo == Some(Pawn)` (no
      other test — equal squares are accepted); `get_legal_moves` calls it with `None` and, through `mv!`, with
      knight/bishop/rook/queen only, so that `unwrap` is not data dependent.
* (l) `chess_boards.rs : is_theoretical_draw_on_board` — the two `unreachable!()` arms (`Board.panicsTheoreticalDraw`),
      reached from `get_status` on a non-terminal board, hence from `update_game_status(None | Some(MakeMove))`.

Out of scope (not data dependent): `Regex::new(..).expect` on constant patterns, `cap[0]`/`cap[1]`/`cap[2]`/`x.get(0).unwrap()`
on groups that always participate, `Square::new(i)` for constant-range `i`, the counter overflow `+ 1` (defect K1).

MAIN: `C10_getLegalMoves_no_panic`, `C10_moveProps_no_panic`, `C10_act_no_panic`, `C10_replaySan_no_panic`,
`C10_ofPgn_no_panic` (for EVERY input text), `C10_ofPgn_total`, `C10_ofPgn_errors`. -/
namespace Chess
open Chess.Game

/-- an `Except` value is the error alternative (the mirror of `.unwrap()` on a `Result`) -/
def failed {α : Type} : Except Err α → Bool
  | .error _ => true
  | .ok _ => false

@[simp] theorem failed_ok {α : Type} (a : α) : failed (.ok a : Except Err α) = false := rfl
@[simp] theorem failed_error {α : Type} (e : Err) : failed (.error e : Except Err α) = true := rfl

/-! ## 1. mirror predicates -/
namespace Board
variable (K : Keys)

/-- `get_legal_moves`: for every own man `get_piece_moves_mask`; for every pseudo-legal destination, behind the shortcut
condition, `get_check_mask_after_piece_move`; finally `castling_is_available_on_board(Some(check_mask))`.
(`PieceMove::new(.., None).unwrap()` and the four `mv!(Pawn, s, d, Knight|Bishop|Rook|Queen)` cannot fail.) -/
def panicsGetLegalMoves (b : Board) : Bool :=
  (PT.all.any fun pt =>
    (toList (b.colors b.stm &&& b.pieces pt)).any fun sq =>
      b.panicsPieceMovesMask pt sq ||
      (toList (b.pieceMovesMask pt sq)).any fun d =>
        b.needsFullCheck b.checks pt sq d && b.panicsCheckMaskAfter K pt sq d none) ||
  b.panicsCastlingAvailable (some b.checks)

/-- `get_move_ambiguity_type`: `is_legal_move`; an illegal move returns `Err` (no panic here); pawn and king moves return
early; every other piece type evaluates `get_legal_moves` -/
def panicsMoveAmbiguity (b : Board) (pt : PT) (src dst : Sq) (promo : Option PT) : Bool :=
  b.panicsIsLegalMove K (.piece pt src dst promo) ||
  (if !b.isLegalMove K (.piece pt src dst promo) then false else
   if pt == .pawn then false else
   if pt == .king then false else b.panicsGetLegalMoves K)

/-- `MovePropertiesOnBoard::new`: `board.make_move(m)?` (an `Err` is RETURNED — the `unwrap` belongs to the callers), the
flags (no panic point), then `get_move_ambiguity_type` for a non-king piece move -/
def panicsMoveProps (b : Board) (m : Move) : Bool :=
  b.panicsMakeMove K m ||
  (match b.makeMove K m with
   | .error _ => false
   | .ok _ =>
     match m with
     | .piece .king _ _ _ => false
     | .piece pt src dst promo => b.panicsMoveAmbiguity K pt src dst promo
     | .castle _ => false)

/-- `get_status`: `is_theoretical_draw_on_board` is evaluated only on a non-terminal board -/
def panicsGetStatus (b : Board) : Bool := if b.term then false else b.panicsTheoreticalDraw

end Board

namespace History
variable (K : Keys)

/-- `GameHistory::push(board_move, new_position)`: (g) `positions.last().unwrap()`, then (h)
`MovePropertiesOnBoard::new(&board_move, &last).unwrap()` — evaluated on the LAST HISTORY POSITION -/
def panicsPush (h : History) (m : Move) : Bool :=
  match h.positions.getLast? with
  | none => true
  | some last => last.panicsMoveProps K m || failed (last.moveProps K m)

end History

namespace Game
variable (K : Keys)

/-- `update_game_status(last_action)`: `get_status` of the current position for `None | Some(MakeMove(_))` only -/
def panicsUpdateStatus (g : Game) (last : Option Action) : Bool :=
  match last with
  | none | some (.move _) => g.position.panicsGetStatus
  | _ => false

/-- `Game::from_board` / `Game::default`: `update_game_status(None)` (`position_counter_increment` has no panic point
apart from the `+ 1` overflow) -/
def panicsOfBoard (b : Board) : Bool := b.panicsGetStatus

/-- `Game::make_move(action)`, in the Rust order: status dispatch; for a move `make_move_mut` on the position, then (only
when it succeeded) `position_counter_increment`, `history.push(m, new_position)`; for every accepted action
`update_game_status(Some(action))` on the updated game -/
def panicsAct (g : Game) (a : Action) : Bool :=
  match g.status with
  | .ongoing =>
    match a with
    | .move m =>
      g.position.panicsMakeMove K m ||
      (match g.position.makeMove K m with
       | .error _ => false
       | .ok nb => g.history.panicsPush K m || panicsUpdateStatus ({ g with position := nb } : Game) (some a))
    | .acceptDraw | .declineDraw => false
    | _ => panicsUpdateStatus g (some a)
  | .drawOffered _ =>
    match a with
    | .move _ | .offerDraw _ => false
    | _ => panicsUpdateStatus g (some a)
  | _ => false

/-- the candidates of one token in the SAN map of `from_pgn` (the `filterMap` of `Game.replaySan`) -/
def sanCands (g : Game) (tok : Str) : List Move :=
  (g.position.getLegalMoves K).filterMap fun m =>
    match g.position.moveProps K m with
    | .ok mp => if sanText m mp = tok then some m else none
    | .error _ => none

/-- the loop of `from_pgn`, one round per token: `get_legal_moves()`; (i) `MovePropertiesOnBoard::new(&m, &pos).unwrap()`
for EVERY legal move; a missing key returns `Err(InvalidPGNString)`; `game.make_move(..)?` returns its error -/
def panicsReplaySan (g : Game) : List Str → Bool
  | [] => false
  | tok :: rest =>
    g.position.panicsGetLegalMoves K ||
    ((g.position.getLegalMoves K).any fun m => g.position.panicsMoveProps K m || failed (g.position.moveProps K m)) ||
    (match (sanCands K g tok).getLast? with
     | none => false
     | some m =>
       g.panicsAct K (.move m) ||
       (match g.act K (.move m) with
        | .error _ => false
        | .ok g' => panicsReplaySan g' rest))

/-- (j) the tail of `from_pgn`, executed when the status is `Ongoing`: every `make_move` result is unwrapped -/
def panicsPgnTail (g : Game) (res : Option Str) : Bool :=
  match res with
  | some r =>
    if r = "1-0".toList then g.panicsAct K (.resign .black) || failed (g.act K (.resign .black))
    else if r = "0-1".toList then g.panicsAct K (.resign .white) || failed (g.act K (.resign .white))
    else if r = "1/2-1/2".toList then
      g.panicsAct K (.offerDraw .white) ||
      (match g.act K (.offerDraw .white) with
       | .error _ => true
       | .ok g1 => g1.panicsAct K .acceptDraw || failed (g1.act K .acceptDraw))
    else false
  | none => false

/-- `Game::from_pgn` after `Game::default()`, in the order of `Game.ofPgnRegex`: the split (a missing moves section returns
`Err`), the replay loop, and — only when the loop returned `Ok` and the status is `Ongoing` — the tail -/
def panicsOfPgnRegex (start : Game) (pgn : Str) : Bool :=
  match PgnRegex.regexMovesSection pgn with
  | none => false
  | some ms =>
    panicsReplaySan K start (PgnRegex.findMoves ms) ||
    (match replaySan K start (PgnRegex.findMoves ms) with
     | .error _ => false
     | .ok g => if g.status = .ongoing then panicsPgnTail K g (PgnRegex.findResult ms) else false)

/-- the whole of `Game::from_pgn`: `Game::default()` = `from_board(ChessBoard::default())`, then the above -/
def panicsFromPgn (b0 : Board) (pgn : Str) : Bool :=
  panicsOfBoard b0 || panicsOfPgnRegex K (Game.ofBoard b0) pgn

end Game

/-! ## 2. the board level -/
section
variable (K : Keys)

/-- the moves `get_legal_moves` generates are constructible (for EVERY board): no promotion to a pawn -/
theorem mem_getLegalMoves_constructible (b : Board) (m : Move) (h : m ∈ b.getLegalMoves K) :
    ∀ pt s d, m ≠ .piece pt s d (some .pawn) := by
  intro pt s d e
  subst e
  rw [mem_getLegalMoves_piece] at h
  exact (promoShape_facts h.2.2.2).2.1 rfl

/-- **C10 (`get_legal_moves`).**  No panic point is reached on a valid board. -/
theorem C10_getLegalMoves_no_panic (b : Board) (hv : b.Valid K) : b.panicsGetLegalMoves K = false := by
  unfold Board.panicsGetLegalMoves
  rw [no_panic_castlingAvailable, Bool.or_false, List.any_eq_false]
  intro pt _
  rw [Bool.not_eq_true, List.any_eq_false]
  intro sq hsq
  rw [mem_toList] at hsq
  rw [no_panic_pieceMovesMask, Bool.false_or, Bool.not_eq_true, List.any_eq_false]
  intro d hd
  rw [mem_toList] at hd
  rw [no_panic_checkMaskAfter_of_pos K hv.cons hv.pos pt sq d none hsq hd (by simp) (fun _ => rfl)]
  simp

theorem no_panic_moveAmbiguity (b : Board) (hv : b.Valid K) (pt : PT) (src dst : Sq) (promo : Option PT) :
    b.panicsMoveAmbiguity K pt src dst promo = false := by
  unfold Board.panicsMoveAmbiguity
  rw [no_panic_isLegalMove K hv.cons hv.pos, C10_getLegalMoves_no_panic K b hv]
  simp

/-- **C10 (`MovePropertiesOnBoard::new`).**  No panic point is reached for any constructible move value offered to a valid
board (the function returns `Ok` or `Err(IllegalMoveDetected)`). -/
theorem C10_moveProps_no_panic (b : Board) (hv : b.Valid K) (m : Move) (hw : ∀ pt s d, m ≠ .piece pt s d (some .pawn)) :
    b.panicsMoveProps K m = false := by
  unfold Board.panicsMoveProps
  rw [C10_makeMove_no_panic K b hv m hw, Bool.false_or]
  cases b.makeMove K m with
  | error e => rfl
  | ok nb =>
    cases m with
    | castle s => rfl
    | piece pt src dst promo =>
      cases pt <;> first | rfl | exact no_panic_moveAmbiguity K b hv _ src dst promo

/-- `get_status` on a valid board: both sides have a king, so the `unreachable!()` arms are dead -/
theorem C10_getStatus_no_panic (b : Board) (hv : b.Valid K) : b.panicsGetStatus = false := by
  unfold Board.panicsGetStatus
  split
  · rfl
  · exact panicsTheoreticalDraw_false hv.cons (validPos_kings hv.pos).1 (validPos_kings hv.pos).2

/-- every `unwrap` of `MovePropertiesOnBoard::new` applied to a GENERATED move succeeds -/
theorem moveProps_ok_of_mem (b : Board) (hv : b.Valid K) (m : Move) (hm : m ∈ b.getLegalMoves K) :
    failed (b.moveProps K m) = false := by
  have hl : b.isLegalMove K m = true :=
    (hv.isLegalMove_iff m (mem_getLegalMoves_constructible K b m hm)).2 hm
  obtain ⟨mp, hmp⟩ := C12.moveProps_ok K b m hl
  rw [hmp]; rfl

end

/-! ## 3. one action -/
section
variable (K : Keys)

/-- the invariant behind (g) and (h): in every reachable game the last position of the history IS the current position,
so `GameHistory::push` evaluates the move on the board it has just been made on (`C13_chain'`) -/
theorem C10_last_position (g : Game) (hr : GameReach K g) : g.history.positions.getLast? = some g.position :=
  (C13_chain' K g hr).last

/-- a non-move action reaches no panic point in ANY game value -/
theorem panicsAct_nonmove (g : Game) (a : Action) (hne : ∀ m, a ≠ .move m) : g.panicsAct K a = false := by
  unfold Game.panicsAct
  cases a with
  | move m => exact absurd rfl (hne m)
  | _ => cases g.status <;> rfl

/-- `history.push` after an accepted move of a reachable game -/
theorem no_panic_push (g : Game) (hok : GameOK K g) (m : Move) (hw : ∀ pt s d, m ≠ .piece pt s d (some .pawn))
    (nb : Board) (hm : g.position.makeMove K m = .ok nb) : g.history.panicsPush K m = false := by
  unfold History.panicsPush
  rw [C10_last_position K g hok.reach]
  obtain ⟨mp, hmp⟩ := C12.moveProps_ok K g.position m (makeMove_ok K hm).1
  simp only [C10_moveProps_no_panic K g.position hok.position_valid m hw, hmp, failed_ok, Bool.or_false]

/-- **C10 (`Game::make_move`).**  No panic point is reached for any constructible action offered to a game a caller can
hold: the call returns `Ok` or `Err(IllegalActionDetected | GameIsAlreadyFinished)`. -/
theorem C10_act_no_panic (g : Game) (hok : GameOK K g) (a : Action) (hc : Action.Constructible a) :
    g.panicsAct K a = false := by
  cases a with
  | move m =>
    have hv := hok.position_valid
    have hw : ∀ pt s d, m ≠ .piece pt s d (some .pawn) := hc
    unfold Game.panicsAct
    cases g.status with
    | ongoing =>
      simp only [C10_makeMove_no_panic K g.position hv m hw, Bool.false_or]
      cases hm : g.position.makeMove K m with
      | error e => rfl
      | ok nb =>
        have hnb : nb.Valid K := C06_step_checked _ _ hv m hw hm
        simp only [no_panic_push K g hok m hw nb hm, Game.panicsUpdateStatus, C10_getStatus_no_panic K nb hnb,
          Bool.or_false]
    | _ => rfl
  | offerDraw c => exact panicsAct_nonmove K g _ (by simp)
  | acceptDraw => exact panicsAct_nonmove K g _ (by simp)
  | declineDraw => exact panicsAct_nonmove K g _ (by simp)
  | resign c => exact panicsAct_nonmove K g _ (by simp)

/-- `Game::from_board` on a valid board -/
theorem C10_ofBoard_no_panic (b : Board) (hv : b.Valid K) : Game.panicsOfBoard b = false :=
  C10_getStatus_no_panic K b hv

/-- The branch of `Game.act` that stands for the `unwrap()` in `GameHistory::push` is unreachable — in ANY game value the
model evaluates `moveProps` on the board the move has just been accepted on. -/
theorem C10_act_unwrap_branch_unreachable (g : Game) (m : Move) (nb : Board)
    (hm : g.position.makeMove K m = .ok nb) : ∃ mp, g.position.moveProps K m = .ok mp :=
  C12.moveProps_ok K g.position m (makeMove_ok K hm).1

/-- where an error of `Game.act` comes from: the finished-game test, the protocol table, or the legality test of the move
— never the branch standing for the `unwrap` (there the move is legal) -/
theorem C10_act_error_origin (g : Game) (a : Action) (e : Err) (h : g.act K a = .error e) :
    (e = .gameFinished ∧ C12.finished g.status = true) ∨
    (e = .illegalAction ∧ ((∃ c, g.status = .drawOffered c) ∨ a = .acceptDraw ∨ a = .declineDraw ∨
      ∃ m, a = .move m ∧ g.status = .ongoing ∧ g.position.isLegalMove K m = false)) := by
  cases hs : g.status with
  | ongoing =>
    cases a with
    | move m =>
      by_cases hl : g.position.isLegalMove K m = true
      · obtain ⟨g', hg'⟩ := (C12.ongoing_move K g m hs).2 hl
        rw [hg'] at h; cases h
      · have hl' : g.position.isLegalMove K m = false := Bool.eq_false_iff.2 hl
        rw [C12.ongoing_illegal_move K g m hs hl'] at h
        cases h
        exact Or.inr ⟨rfl, Or.inr (Or.inr (Or.inr ⟨m, rfl, rfl, hl'⟩))⟩
    | offerDraw c => obtain ⟨g', hg', _⟩ := C12.ongoing_offer K g c hs; rw [hg'] at h; cases h
    | resign c => obtain ⟨g', hg', _⟩ := C12.ongoing_resign K g c hs; rw [hg'] at h; cases h
    | acceptDraw => rw [(C12.ongoing_accept_decline K g hs).1] at h; cases h; exact Or.inr ⟨rfl, by simp⟩
    | declineDraw => rw [(C12.ongoing_accept_decline K g hs).2] at h; cases h; exact Or.inr ⟨rfl, by simp⟩
  | drawOffered c =>
    rcases act_err_kind K g a e h with he | he
    · exact Or.inr ⟨he, Or.inl ⟨c, rfl⟩⟩
    · subst he
      exfalso
      unfold Game.act at h
      simp only [hs] at h
      split at h <;> cases h
  | _ =>
    rw [C12.finished_rejects K g a (by rw [hs]; rfl)] at h
    cases h
    exact Or.inl ⟨rfl, rfl⟩

end

/-! ## 4. the replay loop of `from_pgn` -/
section
variable (K : Keys)

theorem replaySan_cons (g : Game) (tok : Str) (rest : List Str) :
    replaySan K g (tok :: rest) =
      match (sanCands K g tok).getLast? with
      | none => .error .invalidPgn
      | some m =>
        match g.act K (.move m) with
        | .error e => .error e
        | .ok g' => replaySan K g' rest := by
  rw [replaySan]; rfl

/-- the move selected for a token is a member of the legal-move list -/
theorem sanCands_mem (g : Game) (tok : Str) (m : Move) (h : (sanCands K g tok).getLast? = some m) :
    m ∈ g.position.getLegalMoves K := by
  have hm := List.mem_of_getLast? h
  unfold sanCands at hm
  rw [List.mem_filterMap] at hm
  obtain ⟨x, hx, hfx⟩ := hm
  split at hfx
  · split at hfx
    · cases hfx; exact hx
    · cases hfx
  · cases hfx

/-- the invariant of the loop: every game the loop holds is one a caller can hold -/
theorem replaySan_ok_inv (toks : List Str) : ∀ (g g' : Game), GameOK K g → replaySan K g toks = .ok g' → GameOK K g' := by
  induction toks with
  | nil => intro g g' hok h; cases h; exact hok
  | cons tok rest ih =>
    intro g g' hok h
    rw [replaySan_cons] at h
    cases hc : (sanCands K g tok).getLast? with
    | none => rw [hc] at h; cases h
    | some m =>
      simp only [hc] at h
      cases ha : g.act K (.move m) with
      | error e => simp only [ha] at h; cases h
      | ok g1 =>
        simp only [ha] at h
        exact ih g1 g' (.step (.move m) hok
          (mem_getLegalMoves_constructible K _ m (sanCands_mem K g tok m hc)) ha) h

/-- **C10 (the loop of `from_pgn`).**  From any game a caller can hold, for EVERY list of tokens, no panic point is reached:
the legal-move list and the SAN properties of every legal move are computed without panic, every `unwrap` of
`MovePropertiesOnBoard::new` on a generated move succeeds, and `make_move` of the selected move reaches no panic point. -/
theorem C10_replaySan_no_panic (toks : List Str) : ∀ (g : Game), GameOK K g → Game.panicsReplaySan K g toks = false := by
  induction toks with
  | nil => intro g _; rfl
  | cons tok rest ih =>
    intro g hok
    have hv := hok.position_valid
    have hall : ((g.position.getLegalMoves K).any fun m =>
        g.position.panicsMoveProps K m || failed (g.position.moveProps K m)) = false := by
      rw [List.any_eq_false]
      intro m hm
      rw [C10_moveProps_no_panic K _ hv m (mem_getLegalMoves_constructible K _ m hm), moveProps_ok_of_mem K _ hv m hm]
      simp
    unfold Game.panicsReplaySan
    rw [C10_getLegalMoves_no_panic K _ hv, hall]
    simp only [Bool.false_or]
    cases hc : (sanCands K g tok).getLast? with
    | none => rfl
    | some m =>
      have hw := mem_getLegalMoves_constructible K _ m (sanCands_mem K g tok m hc)
      simp only [C10_act_no_panic K g hok (.move m) hw, Bool.false_or]
      cases ha : g.act K (.move m) with
      | error e => rfl
      | ok g1 => exact ih g1 (.step (.move m) hok hw ha)

end

/-! ## 5. `Game::from_pgn` -/
section
variable (K : Keys)

/-- (j) the tail: in an ongoing game every unwrapped `make_move` returns `Ok` -/
theorem no_panic_pgnTail (g : Game) (hs : g.status = .ongoing) (res : Option Str) : Game.panicsPgnTail K g res = false := by
  unfold Game.panicsPgnTail
  cases res with
  | none => rfl
  | some r =>
    obtain ⟨gb, hgb, _⟩ := C12.ongoing_resign K g .black hs
    obtain ⟨gw, hgw, _⟩ := C12.ongoing_resign K g .white hs
    obtain ⟨g1, hg1, hs1, _⟩ := C12.ongoing_offer K g .white hs
    obtain ⟨g2, hg2, _⟩ := C12.pending_accept K g1 .white hs1
    simp only [panicsAct_nonmove K g (.resign .black) (by simp), panicsAct_nonmove K g (.resign .white) (by simp),
      panicsAct_nonmove K g (.offerDraw .white) (by simp), panicsAct_nonmove K g1 .acceptDraw (by simp),
      hgb, hgw, hg1, hg2, failed_ok, Bool.or_false, ite_self]

/-- **C10 (`from_pgn`, any start game a caller can hold).**  For EVERY input text no panic point is reached. -/
theorem C10_ofPgn_no_panic_of_ok (start : Game) (hok : GameOK K start) (s : Str) :
    Game.panicsOfPgnRegex K start s = false := by
  unfold Game.panicsOfPgnRegex
  cases PgnRegex.regexMovesSection s with
  | none => rfl
  | some ms =>
    simp only [C10_replaySan_no_panic K _ start hok, Bool.false_or]
    cases hr : replaySan K start (PgnRegex.findMoves ms) with
    | error e => rfl
    | ok g =>
      simp only
      split
      · next hs => exact no_panic_pgnTail K g hs _
      · rfl

/-- the standard initial game is one a caller can hold -/
theorem stdGame_ok (b0 : Board) (h0 : Board.ofBuilder K stdBuilder = .ok b0) : GameOK K (Game.ofBoard b0) :=
  .init b0 (stdBoard_facts K b0 h0).1

/-- **C10 (`Game::from_pgn`).**  For EVERY input text `s`, importing it from the standard initial position (`Game::default()`)
reaches no panic point. -/
theorem C10_ofPgn_no_panic (b0 : Board) (h0 : Board.ofBuilder K stdBuilder = .ok b0) (s : Str) :
    Game.panicsOfPgnRegex K (Game.ofBoard b0) s = false :=
  C10_ofPgn_no_panic_of_ok K _ (stdGame_ok K b0 h0) s

/-- … including the construction of the initial game itself, from ANY valid start board -/
theorem C10_fromPgn_no_panic_of_valid (b0 : Board) (hv : b0.Valid K) (s : Str) : Game.panicsFromPgn K b0 s = false := by
  unfold Game.panicsFromPgn
  rw [C10_ofBoard_no_panic K b0 hv, C10_ofPgn_no_panic_of_ok K _ (.init b0 hv) s]
  rfl

theorem C10_fromPgn_no_panic (b0 : Board) (h0 : Board.ofBuilder K stdBuilder = .ok b0) (s : Str) :
    Game.panicsFromPgn K b0 s = false :=
  C10_fromPgn_no_panic_of_valid K b0 (stdBoard_facts K b0 h0).1 s

/-! ### the result is a value or an error, and the error never stands for the `unwrap` of `history.push` -/

/-- errors of the loop: a token without candidate (`InvalidPGNString`) or a move offered after the game ended
(`GameIsAlreadyFinished`) — never `IllegalActionDetected`, the only code the `unwrap` branch of `Game.act` produces -/
theorem replaySan_errors (toks : List Str) : ∀ (g : Game), GameOK K g → boardStatus g.status = true → ∀ e,
    replaySan K g toks = .error e → e = .invalidPgn ∨ e = .gameFinished := by
  induction toks with
  | nil => intro g _ _ e h; cases h
  | cons tok rest ih =>
    intro g hok hb e h
    rw [replaySan_cons] at h
    cases hc : (sanCands K g tok).getLast? with
    | none => rw [hc] at h; cases h; exact Or.inl rfl
    | some m =>
      simp only [hc] at h
      have hmem := sanCands_mem K g tok m hc
      have hw := mem_getLegalMoves_constructible K _ m hmem
      cases ha : g.act K (.move m) with
      | ok g1 =>
        simp only [ha] at h
        exact ih g1 (.step (.move m) hok hw ha) (act_move_boardStatus K g g1 m ha) e h
      | error e' =>
        simp only [ha, Except.error.injEq] at h
        subst h
        rcases C10_act_error_origin K g _ _ ha with ⟨he, _⟩ | ⟨_, hc' | hc' | hc' | ⟨m', hm', _, hl⟩⟩
        · exact Or.inr he
        · exact absurd hc' (boardStatus_not_offered hb)
        · cases hc'
        · cases hc'
        · cases hm'
          have := (hok.position_valid.isLegalMove_iff m hw).2 hmem
          rw [hl] at this; cases this

/-- **C10 (`from_pgn`, totality and error kinds).**  For EVERY input text the import from the standard initial position
returns a game or one of the two errors `InvalidPGNString`, `GameIsAlreadyFinished`.  `Game.act`'s branch standing for
the `unwrap` in `GameHistory::push` answers `illegalAction`, so it is never the source of the error. -/
theorem C10_ofPgn_errors_of_ok (start : Game) (hok : GameOK K start) (hb : boardStatus start.status = true) (s : Str)
    (e : Err) (h : Game.ofPgnRegex K start s = .error e) : e = .invalidPgn ∨ e = .gameFinished := by
  unfold Game.ofPgnRegex at h
  cases hm : PgnRegex.regexMovesSection s with
  | none => rw [hm] at h; cases h; exact Or.inl rfl
  | some ms =>
    rw [hm] at h
    simp only at h
    cases hr : replaySan K start (PgnRegex.findMoves ms) with
    | error e' => rw [hr] at h; cases h; exact replaySan_errors K _ start hok hb e hr
    | ok g =>
      rw [hr] at h
      simp only at h
      exfalso
      split at h
      · next hs =>
        obtain ⟨gb, hgb, _⟩ := C12.ongoing_resign K g .black hs
        obtain ⟨gw, hgw, _⟩ := C12.ongoing_resign K g .white hs
        obtain ⟨g1, hg1, hs1, _⟩ := C12.ongoing_offer K g .white hs
        obtain ⟨g2, hg2, _⟩ := C12.pending_accept K g1 .white hs1
        split at h
        · split at h
          · rw [hgb] at h; cases h
          · split at h
            · rw [hgw] at h; cases h
            · split at h
              · rw [hg1] at h; simp only [hg2] at h; cases h
              · cases h
        · cases h
      · cases h

theorem C10_ofPgn_errors (b0 : Board) (h0 : Board.ofBuilder K stdBuilder = .ok b0) (s : Str) (e : Err)
    (h : Game.ofPgnRegex K (Game.ofBoard b0) s = .error e) : e = .invalidPgn ∨ e = .gameFinished :=
  C10_ofPgn_errors_of_ok K _ (stdGame_ok K b0 h0) (ofBoard_boardStatus b0) s e h

/-- **C10 (`from_pgn`).**  `Ok(game)` — a game a caller can hold — or `Err(InvalidPGNString | GameIsAlreadyFinished)`. -/
theorem C10_ofPgn_total (b0 : Board) (h0 : Board.ofBuilder K stdBuilder = .ok b0) (s : Str) :
    (∃ g, Game.ofPgnRegex K (Game.ofBoard b0) s = .ok g) ∨
    (∃ e, Game.ofPgnRegex K (Game.ofBoard b0) s = .error e ∧ (e = .invalidPgn ∨ e = .gameFinished)) := by
  cases h : Game.ofPgnRegex K (Game.ofBoard b0) s with
  | ok g => exact Or.inl ⟨g, rfl⟩
  | error e => exact Or.inr ⟨e, rfl, C10_ofPgn_errors K b0 h0 s e h⟩

end

/-! ## 6. `Game::default()` as the Rust builds it: `ChessBoard::from_str(<start FEN>).unwrap()` -/
section
variable (K : Keys)

/-- the text `ChessBoard::default()` parses -/
def defaultFen : Str := "rnbqkbnr/pppppppp/8/8/8/8/PPPPPPPP/RNBQKBNR w KQkq - 0 1".toList

/-- the start FEN is accepted by the parser and describes a valid position (evaluation of the parser on one constant text) -/
theorem defaultFen_valid :
    (match parseFen defaultFen with | .ok bb => Spec.ValidPos bb.toPos | .error _ => false) = true := by decide +kernel

/-- the `unwrap()` of `ChessBoard::default()` succeeds, for every key table, and the board is `Valid` -/
theorem C10_default_board : ∃ b0, Board.ofFen K defaultFen = .ok b0 ∧ b0.Valid K := by
  have h := defaultFen_valid
  unfold Board.ofFen
  cases hp : parseFen defaultFen with
  | error e => rw [hp] at h; cases h
  | ok bb =>
    rw [hp] at h
    obtain ⟨b0, hb0⟩ := C09_complete K bb h
    exact ⟨b0, hb0, (C09_sound K bb b0 hb0).1⟩

/-- **C10 (`Game::from_pgn`, end to end).**  `ChessBoard::default()` yields a board (its construction reaches no panic point:
`C10_ofFen_no_panic`), and for EVERY input text the import from it reaches no panic point and returns a game or one of the
errors `InvalidPGNString`, `GameIsAlreadyFinished`. -/
theorem C10_fromPgn_default :
    Board.panicsOfFen K defaultFen = false ∧
    ∃ b0, Board.ofFen K defaultFen = .ok b0 ∧ ∀ s : Str,
      Game.panicsFromPgn K b0 s = false ∧
      ((∃ g, Game.ofPgnRegex K (Game.ofBoard b0) s = .ok g) ∨
       (∃ e, Game.ofPgnRegex K (Game.ofBoard b0) s = .error e ∧ (e = .invalidPgn ∨ e = .gameFinished))) := by
  refine ⟨C10_ofFen_no_panic' K defaultFen, ?_⟩
  obtain ⟨b0, hb0, hv⟩ := C10_default_board K
  refine ⟨b0, hb0, fun s => ⟨C10_fromPgn_no_panic_of_valid K b0 hv s, ?_⟩⟩
  cases h : Game.ofPgnRegex K (Game.ofBoard b0) s with
  | ok g => exact Or.inl ⟨g, rfl⟩
  | error e =>
    exact Or.inr ⟨e, rfl, C10_ofPgn_errors_of_ok K _ (.init b0 hv) (ofBoard_boardStatus b0) s e h⟩

end

/-! ## 7. non-vacuity

The new mirror predicates DO fire on game / board values outside the reachable ones, and the hypotheses of the theorems are
satisfiable. -/
section
variable (K : Keys)

theorem std_e4_legal (b0 : Board) (h0 : Board.ofBuilder K stdBuilder = .ok b0) :
    b0.isLegalMove K (.piece .pawn 12 28 none) = true := by
  obtain ⟨hv, _, habs⟩ := stdBoard_facts K b0 h0
  have hleg : Spec.legal b0.absPos (.piece .pawn 12 28 none) = true := by rw [habs]; decide +kernel
  exact (hv.isLegalMove_iff _ (by intro _ _ _ e; cases e)).2 ((hv.mem_getLegalMoves_iff _).2 hleg)

theorem new_e4_illegal : Board.new.isLegalMove K (.piece .pawn 12 28 none) = false := by
  have h1 : Board.new.term = false := rfl
  have h2 : isBlank (Board.new.pieces .pawn &&& Board.new.colors Board.new.stm &&& bbOf 12) = true := by decide +kernel
  unfold Board.isLegalMove
  simp only [h1, h2, if_true, Bool.false_eq_true, if_false]

/-- (g) fires, for every key table: the standard initial game with its history emptied — `1. e4` is accepted by the position,
then `positions.last().unwrap()` panics -/
example (b0 : Board) (h0 : Board.ofBuilder K stdBuilder = .ok b0) :
    ({ Game.ofBoard b0 with history := ⟨[], [], []⟩ } : Game).panicsAct K (.move (.piece .pawn 12 28 none)) = true := by
  unfold Game.panicsAct
  simp only [stdGame_ongoing K b0 h0, ofBoard_position, Board.makeMove, std_e4_legal K b0 h0, if_true,
    History.panicsPush, List.getLast?_nil, Bool.true_or, Bool.or_true]

/-- (h) fires, for every key table: the last history position (an empty board) differs from the current position (the
standard one); `1. e4` is legal on the latter, illegal on the former, and `MovePropertiesOnBoard::new(..).unwrap()` panics.
This is exactly the situation `C10_last_position` excludes for reachable games. -/
example (b0 : Board) (h0 : Board.ofBuilder K stdBuilder = .ok b0) :
    ({ Game.ofBoard b0 with history := History.fromPosition Board.new } : Game).panicsAct K
      (.move (.piece .pawn 12 28 none)) = true := by
  have hmp : failed (Board.new.moveProps K (.piece .pawn 12 28 none)) = true := by
    simp only [Board.moveProps, Board.makeMove, new_e4_illegal K, Bool.false_eq_true, if_false, failed_error]
  unfold Game.panicsAct
  simp only [stdGame_ongoing K b0 h0, ofBoard_position, Board.makeMove, std_e4_legal K b0 h0, if_true,
    History.panicsPush, History.fromPosition, List.getLast?_singleton, hmp, Bool.true_or, Bool.or_true]

/-- … while on the genuine standard game the same action reaches no panic point (the hypotheses of `C10_act_no_panic` hold) -/
example (b0 : Board) (h0 : Board.ofBuilder K stdBuilder = .ok b0) :
    (Game.ofBoard b0).panicsAct K (.move (.piece .pawn 12 28 none)) = false :=
  C10_act_no_panic K _ (stdGame_ok K b0 h0) _ (by intro _ _ _ e; cases e)

/-- the standard initial board exists for every key table, so `C10_ofPgn_no_panic` is not vacuous -/
example : ∃ b0, Board.ofBuilder K stdBuilder = .ok b0 ∧ ∀ s : Str, Game.panicsOfPgnRegex K (Game.ofBoard b0) s = false := by
  obtain ⟨b0, h0⟩ := stdBoard_exists K
  exact ⟨b0, h0, C10_ofPgn_no_panic K b0 h0⟩

end

/-- a concrete key table (all keys zero) for the closed evaluations below -/
def zeroKeys : Keys := ⟨fun _ _ _ => 0#64, fun _ _ => 0#64, fun _ => 0#64, 0#64⟩

/-- a board value no constructor returns: one white pawn on e2, no kings, and a non-empty check mask -/
def lonePawn : Board :=
  { Board.new with pieces := fun t => if t = .pawn then bbOf 12 else 0#64,
                   colors := fun c => if c = .white then bbOf 12 else 0#64,
                   combined := bbOf 12, checks := bbOf 12 }
/-- the same with an empty check mask and no castling rights -/
def lonePawnQuiet : Board := { lonePawn with checks := 0#64, rights := fun _ => .neither }
/-- a game value standing on it -/
def lonePawnGame : Game := ⟨lonePawn, History.fromPosition lonePawn, [], .ongoing, []⟩

/-- `get_legal_moves` panics on the king-less board "in check": the filter runs `get_check_mask_after_piece_move`, whose
`get_king_square` has no king to find … -/
example : lonePawn.panicsGetLegalMoves zeroKeys = true := by decide +kernel
/-- … and does not when the shortcut skips the full evaluation (the predicate follows the shortcut condition) -/
example : lonePawnQuiet.panicsGetLegalMoves zeroKeys = false := by decide +kernel
/-- `MovePropertiesOnBoard::new` panics there: `e3` passes `is_legal_move`, then `make_move` runs `update_pins_and_checks`
for a side without king -/
example : lonePawnQuiet.panicsMoveProps zeroKeys (.piece .pawn 12 20 none) = true := by decide +kernel
/-- (l) `get_status` on the empty board reaches `unreachable!()` -/
example : Board.new.panicsGetStatus = true := by decide +kernel
/-- the loop of `from_pgn` panics on the first token, whatever it is -/
example (tok : Str) (rest : List Str) : Game.panicsReplaySan zeroKeys lonePawnGame (tok :: rest) = true := by
  have h : lonePawnGame.position.panicsGetLegalMoves zeroKeys = true := by decide +kernel
  unfold Game.panicsReplaySan; rw [h]; rfl
/-- … and so does the importer on a text with a moves section holding one token -/
example : Game.panicsOfPgnRegex zeroKeys lonePawnGame ['\n', '\n', 'e', '4'] = true := by decide +kernel
/-- … but not on a text without moves section (`Err(InvalidPGNString)` before anything else) -/
example : Game.panicsOfPgnRegex zeroKeys lonePawnGame ['e', '4'] = false := by decide +kernel

end Chess
