import Chess.Props.C13
import Chess.Props.C12Refine
import Chess.Props.C14Refine
/-! # C13 in rule terms

`C13_flags` states the recorded per-move flags against the model's check mask and terminal flag of the successor.  For a game
that started from a `Valid` board (every game the API can construct: C09) these are exactly what the rules give for that move
(`Spec.isCapture`, `Spec.givesCheck`, `Spec.givesMate` on the rule-level position), every recorded position is the rule-level
successor of its predecessor, and each rendered move token is the declarative standard SAN of its move. -/
namespace Chess
open Board Spec
variable (K : Keys)

theorem C13_rules (g : Game) (hok : GameOK K g) (i : Nat) (hi : i < g.history.moves.length)
    (h1 : i < g.history.positions.length) (h2 : i + 1 < g.history.positions.length) (h3 : i < g.history.props.length) :
    -- the move was legal and the next position is its rule-level successor
    Spec.legal g.history.positions[i].absPos g.history.moves[i] = true ∧
    g.history.positions[i + 1].absPos = Spec.apply g.history.positions[i].absPos g.history.moves[i] ∧
    -- flags = what the rules give
    g.history.props[i].isCapture = Spec.isCapture g.history.positions[i].absPos g.history.moves[i] ∧
    g.history.props[i].isCheck = Spec.givesCheck g.history.positions[i].absPos g.history.moves[i] ∧
    g.history.props[i].isMate = Spec.givesMate g.history.positions[i].absPos g.history.moves[i] ∧
    -- the rendered token of this move is its standard SAN
    sanText g.history.moves[i] g.history.props[i] = (Spec.san g.history.positions[i].absPos g.history.moves[i]).toList := by
  have hr := hok.reach
  obtain ⟨_, _, _, hstep⟩ := C13_chain K g hr
  obtain ⟨hnext, _hleg, hprops⟩ := hstep i hi h1 h2 h3
  have hvi : g.history.positions[i].Valid K := history_valid K hok _ (List.getElem_mem h1)
  have hw := hok.moves_constructible K g.history.moves[i] (List.getElem_mem hi)
  have hl := moveProps_spec_legal K _ hvi _ _ hw hprops
  have hsucc := C02_successor K _ hvi _ hl
  have hv' := C06_step (K := K) _ hvi _ hl
  obtain ⟨hcap, hchk, hmate⟩ := C13_flags K g hr i hi h1 h2 h3
  have habs : g.history.positions[i + 1].absPos = Spec.apply g.history.positions[i].absPos g.history.moves[i] := by
    rw [hnext]; exact hsucc.1
  have hv'' : g.history.positions[i + 1].Valid K := by rw [hnext]; exact hv'
  have hinc := C05.C05_inCheck hv''
  have hterm := C04_terminal_spec (K := K) _ hv''
  have hck : g.history.props[i].isCheck = Spec.givesCheck g.history.positions[i].absPos g.history.moves[i] := by
    rw [hchk, decide_popcount_pos, hinc, habs]; rfl
  refine ⟨hl, habs, ?_, hck, ?_, C14_refines K _ hvi _ _ hw hprops⟩
  · rw [hcap]; exact Board.Cons.isCapture hvi.cons _
  · rw [hmate, hterm, hck, habs]
    simp only [Spec.givesCheck, Spec.givesMate, Bool.and_comm]

end Chess
