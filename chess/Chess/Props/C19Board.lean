import Chess.Props.C19
import Chess.Props.C01
import Chess.Props.C02
import Chess.Props.C04
import Chess.Props.C05
import Chess.Props.C09
/-! # C19 at the level of the bitboard model

`Props/C19.lean` proves the symmetry of the rules (`Spec.*`) under the colour flip `flipV` and, without castling rights, under
the file mirror `flipH`.  Because the model refines the rules (C01, C02, C04, C05), every pair of valid boards standing for a
position and its mirror image has mirrored legal moves, check and pin masks, status and successors. -/
namespace Chess
open Board Spec
variable {K : Keys}

section flipV
variable {b b' : Board} (hv : b.Valid K) (hv' : b'.Valid K) (h : b'.absPos = flipV b.absPos)
include hv hv' h

theorem C19_board_legal (m : Move) : flipVm m ∈ b'.getLegalMoves K ↔ m ∈ b.getLegalMoves K := by
  rw [hv'.mem_getLegalMoves_iff, hv.mem_getLegalMoves_iff, h, C19_legal_valid b.absPos hv.pos]

theorem C19_board_checks (x : Sq) : mem (flipSq x) b'.checks = true ↔ mem x b.checks = true := by
  rw [C05.C05_checks hv', C05.C05_checks hv, h]
  exact C19_checkers b.absPos (ValidPos.kingUniq hv.pos _) x

theorem C19_board_pins (x : Sq) : mem (flipSq x) b'.pinned = true ↔ mem x b.pinned = true := by
  rw [C05.C05_pins hv', C05.C05_pins hv, h]
  exact C19_pinned b.absPos (ValidPos.kingUniq hv.pos _) x

theorem C19_board_status : statusToSpec b'.getStatus = flipStatus (statusToSpec b.getStatus) := by
  rw [C04_status b' hv', C04_status b hv, h]
  exact C19_status b.absPos (ValidPos.kingUniq hv.pos _)

/-- successors of mirrored legal moves are mirror images (the move number aside: it is incremented after Black's moves, so it
cannot commute with a colour swap) -/
theorem C19_board_successor (m : Move) (hm : m ∈ b.getLegalMoves K) :
    (b'.makeMoveUnchecked K (flipVm m)).absPos =
      { flipV (b.makeMoveUnchecked K m).absPos with full := if b.stm = .white then b.full + 1 else b.full } := by
  have hl := (hv.mem_getLegalMoves_iff m).1 hm
  have hl' : Spec.legal b'.absPos (flipVm m) = true := by rw [h, C19_legal_valid b.absPos hv.pos]; exact hl
  rw [(C02_successor K b' hv' (flipVm m) hl').1, (C02_successor K b hv m hl).1, h]
  exact C19_apply b.absPos m
end flipV

section flipH
variable {b b' : Board} (hv : b.Valid K) (hv' : b'.Valid K) (h : b'.absPos = flipH b.absPos)
  (hr : ∀ c, b.rights c = .neither)
include hv hv' h hr

theorem noRights_abs : ∀ c, b.absPos.rights c = ⟨false, false⟩ := by
  intro c; show (b.rights c).toRights = _; rw [hr c]; rfl

theorem C19_board_mirror_legal (m : Move) : flipHm m ∈ b'.getLegalMoves K ↔ m ∈ b.getLegalMoves K := by
  rw [hv'.mem_getLegalMoves_iff, hv.mem_getLegalMoves_iff, h,
    C19_mirror_legal b.absPos (ValidPos.kingUniq hv.pos _) (noRights_abs hv hv' h hr)]

theorem C19_board_mirror_checks (x : Sq) : mem (mirSq x) b'.checks = true ↔ mem x b.checks = true := by
  rw [C05.C05_checks hv', C05.C05_checks hv, h]
  exact C19_mirror_checkers b.absPos (ValidPos.kingUniq hv.pos _) x

theorem C19_board_mirror_pins (x : Sq) : mem (mirSq x) b'.pinned = true ↔ mem x b.pinned = true := by
  rw [C05.C05_pins hv', C05.C05_pins hv, h]
  exact C19_mirror_pinned b.absPos (ValidPos.kingUniq hv.pos _) x

theorem C19_board_mirror_status : statusToSpec b'.getStatus = statusToSpec b.getStatus := by
  rw [C04_status b' hv', C04_status b hv, h]
  exact C19_mirror_status b.absPos (ValidPos.kingUniq hv.pos _) (noRights_abs hv hv' h hr)

theorem C19_board_mirror_successor (m : Move) (hm : m ∈ b.getLegalMoves K) :
    (b'.makeMoveUnchecked K (flipHm m)).absPos = flipH (b.makeMoveUnchecked K m).absPos := by
  have hl := (hv.mem_getLegalMoves_iff m).1 hm
  have hnr := noRights_abs hv hv' h hr
  have hl' : Spec.legal b'.absPos (flipHm m) = true := by
    rw [h, C19_mirror_legal b.absPos (ValidPos.kingUniq hv.pos _) hnr]; exact hl
  rw [(C02_successor K b' hv' (flipHm m) hl').1, (C02_successor K b hv m hl).1, h]
  exact C19_mirror_apply_legal b.absPos hnr m hl
end flipH

/-- non-vacuity: every valid board has a valid mirror image (so the hypotheses of the `C19_board_*` theorems are satisfiable
for every reachable position) -/
theorem C19_board_exists (b : Board) (hv : b.Valid K) : ∃ b' : Board, b'.Valid K ∧ b'.absPos = flipV b.absPos := by
  let bb : Builder := { pieces := (flipV b.absPos).board, stm := b.stm.other, rights := fun c => b.rights c.other,
                        ep := b.ep.map flipSq, half := b.half, full := b.full }
  have hbb : bb.toPos = flipV b.absPos := rfl
  have hvp : Spec.ValidPos bb.toPos = true := by rw [hbb, C19_validPos]; exact hv.pos
  obtain ⟨b', hb'⟩ := C09_complete K bb hvp
  obtain ⟨hv', habs⟩ := C09_sound K bb b' hb'
  exact ⟨b', hv', by rw [habs, hbb]⟩

end Chess
