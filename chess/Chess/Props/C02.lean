import Chess.Lemmas.MakeMove
/-! C02: making a legal move produces exactly the successor position the rules define.

`Board.makeMoveUnchecked` (mirror of `make_move_mut_unchecked`) against `Spec.apply`, through the abstraction
`Board.absPos`.  Clocks are `Nat` in the model (the `u8`/`u16` overflow boundary is a recorded known finding). -/
namespace Chess
open Board
variable (K : Keys)

/-! ### the specification side, in the vocabulary of the model -/

theorem lossK (s a b : Sq) :
    (if s = a then CR.kingSide else if s = b then .queenSide else .neither).hasK = (s == a) := by
  split
  · rename_i h; simp [h, CR.hasK]
  · rename_i h; split <;> simp [h, CR.hasK]

theorem lossQ (s a b : Sq) (hab : a ≠ b) :
    (if s = a then CR.kingSide else if s = b then .queenSide else .neither).hasQ = (s == b) := by
  split
  · rename_i h; subst h; simp [CR.hasQ, hab]
  · rename_i h; split
    · rename_i h2; simp [h2, CR.hasQ]
    · rename_i h2; simp [h2, CR.hasQ]

theorem home70 (c : Color) : homeSq c 7 ≠ homeSq c 0 := fun e => by
  have := homeSq_inj _ _ _ _ _ e; omega

theorem dropRights_tt (r : Spec.Rights) : Spec.dropRights r true true = ⟨false, false⟩ := by
  simp [Spec.dropRights]
theorem dropRights_ff (r : Spec.Rights) : Spec.dropRights r false false = r := by
  cases r; simp [Spec.dropRights]

/-- rights of the mover after a move, as the specification defines them -/
theorem apply_rights_own (p : Spec.Pos) (m : Move) :
    (Spec.apply p m).rights p.stm =
      Spec.dropRights (p.rights p.stm) (ownLoss p.stm m).hasK (ownLoss p.stm m).hasQ := by
  have h70 := home70 p.stm
  rw [homeSq_eq, homeSq_eq] at h70
  rcases m with ⟨pt, src, dst, promo⟩ | s
  · cases pt <;> simp only [Spec.apply, ownLoss, if_true, homeSq_eq] <;>
      (try simp only [lossK, lossQ _ _ _ h70]) <;>
      (try simp only [CR.hasK, CR.hasQ, dropRights_tt, dropRights_ff])
  · simp only [Spec.apply, ownLoss, if_true, CR.hasK, CR.hasQ, dropRights_tt]

/-- rights of the opponent after a move, as the specification defines them -/
theorem apply_rights_opp (p : Spec.Pos) (m : Move) :
    (Spec.apply p m).rights p.stm.other =
      Spec.dropRights (p.rights p.stm.other) (oppLoss p.stm.other m).hasK (oppLoss p.stm.other m).hasQ := by
  have hne : ¬ p.stm.other = p.stm := Color.other_ne p.stm
  have h70 := home70 p.stm.other
  rw [homeSq_eq, homeSq_eq] at h70
  rcases m with ⟨pt, src, dst, promo⟩ | s
  · simp only [Spec.apply, oppLoss, if_neg hne, homeSq_eq]
    simp only [lossK, lossQ _ _ _ h70]
  · simp only [Spec.apply, oppLoss, if_neg hne, CR.hasK, CR.hasQ, dropRights_ff]

theorem apply_ep (p : Spec.Pos) (m : Move) : (Spec.apply p m).ep = epAfter m := by
  rcases m with ⟨pt, src, dst, promo⟩ | s
  · cases pt
    · rw [epAfter_pawn]; rfl
    all_goals (rw [epAfter_not_pawn _ _ _ _ (by decide)]; rfl)
  · rfl

/-! ### legality gives what the placement stage needs -/
theorem legal_moverOnSource (p : Spec.Pos) (m : Move) (hm : Spec.legal p m = true) : moverOnSource p m = true := by
  rcases m with ⟨pt, src, dst, promo⟩ | (_ | _)
  · simp only [Spec.legal, Spec.pseudo, Bool.and_eq_true, beq_iff_eq] at hm
    simp only [moverOnSource, isColor_iff]
    exact ⟨_, hm.1.1.1, rfl⟩
  · simp only [Spec.legal, Spec.castleOk, Bool.and_eq_true, beq_iff_eq] at hm
    simp only [moverOnSource, Bool.and_eq_true, isColor_iff, homeSq_eq]
    exact ⟨⟨_, hm.1.1.1.1.2, rfl⟩, ⟨_, hm.1.1.1.2.1.1, rfl⟩⟩
  · simp only [Spec.legal, Spec.castleOk, Bool.and_eq_true, beq_iff_eq] at hm
    simp only [moverOnSource, Bool.and_eq_true, isColor_iff, homeSq_eq]
    exact ⟨⟨_, hm.1.1.1.1.2, rfl⟩, ⟨_, hm.1.1.1.2.1.1.1, rfl⟩⟩

/-! ### the successor position -/

/-- General form: mask consistency and "the squares the move lifts men from hold men of the mover's colour"
are all that is needed (no legality, no `ValidPos`). -/
theorem C02_successor_of_source (b : Board) (hc : b.Cons) (m : Move) (hm : moverOnSource b.absPos m = true) :
    (b.makeMoveUnchecked K m).absPos = Spec.apply b.absPos m ∧ (b.makeMoveUnchecked K m).Cons := by
  rw [makeMoveUnchecked_eq]
  have R := (hc.place K m hm).finish K m (b.isCapture m)
  refine ⟨?_, R.cons⟩
  apply Spec.Pos.ext'
  · exact R.abs_eq
  · show (Board.finish K (b.place K m) m (b.isCapture m)).stm = b.stm.other
    rw [finish_stm, place_stm]
  · funext x
    show ((Board.finish K (b.place K m) m (b.isCapture m)).rights x).toRights = (Spec.apply b.absPos m).rights x
    rw [finish_rights, place_stm, place_rights]
    by_cases hx : x = b.stm
    · subst hx
      rw [setFn_same, CR.toRights_sub]
      exact (apply_rights_own b.absPos m).symm
    · have hx' := Color.eq_other_of_ne hx
      subst hx'
      rw [setFn_other _ _ _ _ hx, setFn_same, CR.toRights_sub]
      exact (apply_rights_opp b.absPos m).symm
  · show (Board.finish K (b.place K m) m (b.isCapture m)).ep = _
    rw [finish_ep, apply_ep]
  · show (Board.finish K (b.place K m) m (b.isCapture m)).half = _
    rcases m with ⟨pt, src, dst, promo⟩ | s
    · rw [finish_half_piece, place_half, hc.isCapture]; rfl
    · rw [finish_half_castle, place_half]; rfl
  · show (Board.finish K (b.place K m) m (b.isCapture m)).full = _
    rw [finish_full, place_stm, place_full]; rfl

/-- C02 MAIN: a legal move produces exactly the successor position the rules define, and the masks stay consistent. -/
theorem C02_successor (K : Keys) (b : Board) (hv : b.Valid K) (m : Move) (hm : Spec.legal b.absPos m = true) :
    (b.makeMoveUnchecked K m).absPos = Spec.apply b.absPos m ∧ (b.makeMoveUnchecked K m).Cons :=
  C02_successor_of_source K b hv.cons m (legal_moverOnSource _ _ hm)

/-- the non-mutating, checked form returns exactly the value the unchecked form computes (the argument is a value) -/
theorem C02_pure (K : Keys) (b b' : Board) (m : Move) (h : Board.makeMove K b m = .ok b') :
    b' = b.makeMoveUnchecked K m := by
  unfold Board.makeMove at h
  split at h
  · injection h with h; exact h.symm
  · cases h

/-- the checked form succeeds exactly on the moves `is_legal_move` accepts -/
theorem C02_pure_iff (K : Keys) (b b' : Board) (m : Move) :
    Board.makeMove K b m = .ok b' ↔ (b.isLegalMove K m = true ∧ b' = b.makeMoveUnchecked K m) := by
  unfold Board.makeMove
  constructor
  · intro h; split at h
    · rename_i hl; injection h with h; exact ⟨hl, h.symm⟩
    · cases h
  · rintro ⟨hl, rfl⟩; rw [if_pos hl]

/-- the checked form, when it succeeds on a move the rules allow, yields the successor position -/
theorem C02_makeMove (K : Keys) (b b' : Board) (hv : b.Valid K) (m : Move) (hm : Spec.legal b.absPos m = true)
    (h : Board.makeMove K b m = .ok b') : b'.absPos = Spec.apply b.absPos m ∧ b'.Cons := by
  rw [C02_pure K b b' m h]; exact C02_successor K b hv m hm

/-! ### sequences of moves -/

/-- every move of the list is legal in the position reached by its predecessors -/
def LegalSeq : Spec.Pos → List Move → Prop
  | _, [] => True
  | p, m :: ms => Spec.legal p m = true ∧ LegalSeq (Spec.apply p m) ms

/-- Folding legal moves commutes with the abstraction.  Only mask consistency of the starting board is needed,
because `C02_successor_of_source` re-establishes it at every step. -/
theorem C02_sequence (K : Keys) (ms : List Move) : ∀ (b : Board), b.Cons → LegalSeq b.absPos ms →
    (ms.foldl (fun b m => b.makeMoveUnchecked K m) b).absPos = ms.foldl Spec.apply b.absPos ∧
    (ms.foldl (fun b m => b.makeMoveUnchecked K m) b).Cons := by
  induction ms with
  | nil => intro b hc _; exact ⟨rfl, hc⟩
  | cons m ms ih =>
    intro b hc hl
    obtain ⟨h1, h2⟩ := C02_successor_of_source K b hc m (legal_moverOnSource _ _ hl.1)
    have := ih (b.makeMoveUnchecked K m) h2 (by rw [h1]; exact hl.2)
    simp only [List.foldl_cons]
    rw [h1] at this
    exact this

/-! ### the hypotheses are satisfiable -/
section NonVacuity
theorem Rep.new : Rep Board.new (fun _ => none) :=
  ⟨fun _ _ => by simp [Board.new], fun _ _ => by simp [Board.new], fun _ => by simp [Board.new]⟩

/-- white Ke1, pawn e2; black Ke8; White to move -/
private def demo (K : Keys) : Board :=
  ((Board.new.putPiece K ⟨.king, .white⟩ 4).putPiece K ⟨.pawn, .white⟩ 12).putPiece K ⟨.king, .black⟩ 60
private def demoF : Sq → Option Piece :=
  Spec.upd (Spec.upd (Spec.upd (fun _ => none) 4 (some ⟨.king, .white⟩)) 12 (some ⟨.pawn, .white⟩)) 60 (some ⟨.king, .black⟩)
private theorem demo_rep (K : Keys) : Rep (demo K) demoF :=
  ((Rep.new.putPiece K _ _).putPiece K _ _).putPiece K _ _

/-- a mask-consistent board and a move legal on it (the double push e2–e4) exist, for every key table -/
example (K : Keys) : ∃ (b : Board) (m : Move), b.Cons ∧ Spec.legal b.absPos m = true := by
  refine ⟨demo K, .piece .pawn 12 28 none, (demo_rep K).cons, ?_⟩
  have e : (demo K).absPos = ⟨demoF, .white, fun _ => ⟨true, true⟩, none, 0, 1⟩ := by
    apply Spec.Pos.ext'
    · exact (demo_rep K).abs_eq
    · simp [demo, Board.absPos, Board.new]
    · funext c; simp [demo, Board.absPos, Board.new, CR.toRights, CR.hasK, CR.hasQ]
    · simp [demo, Board.absPos, Board.new]
    · simp [demo, Board.absPos, Board.new]
    · simp [demo, Board.absPos, Board.new]
  rw [e]
  decide +kernel
end NonVacuity

end Chess
