import Chess.Model.Game
import Chess.Lemmas.Split
import Chess.Lemmas.Rep
/-! # C20 — text renderings show exactly the value rendered

Independent readers of the rendered texts (`gridCell`, `boardLine`, `boardCell`) are defined here; the theorems
say that reading a rendering back yields the value that was rendered. -/
namespace Chess.C20
open Chess

/-! ## (a) bitboard grid -/

/-- independent reader of a grid text: character `2*col` of line `row` (lines split at '\n') -/
def gridCell (text : Str) (row col : Nat) : Option Char :=
  match (splitOn '\n' text)[row]? with
  | some line => line[2 * col]?
  | none => none

/-- one grid row of `showBB` -/
def bbRow (x : BB) (r : Fin 8) : Str :=
  (List.finRange 8).flatMap fun (f : Fin 8) =>
    if mem ⟨r.val * 8 + f.val, by omega⟩ x then ['X', ' '] else ['.', ' ']

theorem showBB_eq (x : BB) :
    showBB x = ([7, 6, 5, 4, 3, 2, 1, 0] : List (Fin 8)).flatMap (fun r => bbRow x r ++ ['\n']) ++ [] := by
  simp [showBB, bbRow]

theorem newline_not_mem_bbRow (x : BB) (r : Fin 8) : '\n' ∉ bbRow x r := by
  unfold bbRow
  simp only [List.mem_flatMap, not_exists, not_and]
  intro f _
  split <;> decide

theorem showBB_lines (x : BB) :
    splitOn '\n' (showBB x) = ([7, 6, 5, 4, 3, 2, 1, 0] : List (Fin 8)).map (bbRow x) ++ [[]] := by
  rw [showBB_eq, splitOn_flatMap_terminated _ _ _ _ (fun r _ => newline_not_mem_bbRow x r)]
  rfl

/-- character `2*j` of a concatenation of two-character groups -/
theorem pairs_getElem? {α} (xs : List α) (g : α → Char) (c : Char) (j : Nat) :
    (xs.flatMap fun a => [g a, c])[2 * j]? = xs[j]?.map g := by
  induction xs generalizing j with
  | nil => simp
  | cons a xs ih =>
    cases j with
    | zero => simp
    | succ j =>
      have : 2 * (j + 1) = 2 * j + 1 + 1 := by omega
      simp only [List.flatMap_cons, this, List.cons_append, List.nil_append, List.getElem?_cons_succ, ih]

theorem bbRow_getElem? (x : BB) (r f : Fin 8) :
    (bbRow x r)[2 * f.val]? = some (if mem ⟨r.val * 8 + f.val, by omega⟩ x then 'X' else '.') := by
  have e : bbRow x r = (List.finRange 8).flatMap fun (f : Fin 8) =>
      [(if mem ⟨r.val * 8 + f.val, by omega⟩ x then 'X' else '.'), ' '] := by
    unfold bbRow
    congr 1; funext f; split <;> rfl
  rw [e, pairs_getElem? (List.finRange 8) (fun (f : Fin 8) => if mem ⟨r.val * 8 + f.val, by omega⟩ x then 'X' else '.')]
  simp

theorem ranks_getElem? : ∀ r : Fin 8, ([7, 6, 5, 4, 3, 2, 1, 0] : List (Fin 8))[r.val]? = some ⟨7 - r.val, by omega⟩ := by
  decide

/-- **C20 (bitboard grid).**  In the text of `showBB x`, the character at line `r`, column `2f` is `X` exactly when the
square on rank `7 - r` (8th rank on top) and file `f` (a-file left) is a member of `x`, and `.` otherwise.  General in `x`. -/
theorem C20_bitboard (x : BB) (r f : Fin 8) :
    gridCell (showBB x) r.val f.val =
      some (if mem ⟨(7 - r.val) * 8 + f.val, by omega⟩ x then 'X' else '.') := by
  unfold gridCell
  rw [showBB_lines, List.getElem?_append_left (by simp), List.getElem?_map, ranks_getElem? r]
  simp only [Option.map_some]
  exact bbRow_getElem? x ⟨7 - r.val, by omega⟩ f

/-- the grid has exactly eight lines (plus the empty piece after the last newline) and each is 16 characters wide -/
theorem C20_bitboard_shape (x : BB) :
    (splitOn '\n' (showBB x)).length = 9 ∧ ∀ r : Fin 8, ((splitOn '\n' (showBB x))[r.val]?).map List.length = some 16 := by
  rw [showBB_lines]
  refine ⟨by simp, fun r => ?_⟩
  rw [List.getElem?_append_left (by simp), List.getElem?_map, ranks_getElem? r]
  simp only [Option.map_some, bbRow, List.length_flatMap]
  have : ∀ (g : Fin 8 → Bool), (List.map (fun f => (if g f = true then ['X', ' '] else ['.', ' ']).length) (List.finRange 8)).sum = 16 := by
    intro g
    have : (fun f => (if g f = true then ['X', ' '] else ['.', ' ']).length) = fun _ => 2 := by
      funext f; split <;> rfl
    rw [this]; rfl
  exact congrArg some (this _)

example : gridCell (showBB (bbOf 0)) 7 0 = some 'X' := by decide

/-! ## (b) game status -/

theorem Color.name_injective (c d : Color) (h : c.name = d.name) : c = d := by
  cases c <;> cases d <;> first | rfl | exact absurd h (by decide)

/-- **C20 (status).**  The texts for a decided game name the winner, which is the opponent of the mated / resigning side. -/
theorem C20_status_winner (c : Color) :
    (GStatus.checkMated c).show = c.other.name ++ " won by checkmate".toList ∧
    (GStatus.resigned c).show = c.other.name ++ " won by resignation".toList ∧
    c.other.name ≠ c.name := by
  refine ⟨rfl, rfl, fun h => Color.other_ne c (Color.name_injective _ _ h)⟩

/-- `w` occurs in `s` as a contiguous block -/
def occursIn (w : Str) : Str → Bool
  | [] => w.isPrefixOf []
  | c :: cs => w.isPrefixOf (c :: cs) || occursIn w cs

/-- the winner's name starts the text, and the loser's name occurs nowhere in it -/
theorem C20_status_no_loser (c : Color) :
    occursIn c.name (GStatus.checkMated c).show = false ∧ occursIn c.name (GStatus.resigned c).show = false ∧
    c.other.name.isPrefixOf (GStatus.checkMated c).show = true ∧ c.other.name.isPrefixOf (GStatus.resigned c).show = true := by
  cases c <;> decide

/-- the status text determines the status (`GStatus.show` is injective) -/
theorem C20_status_injective (s t : GStatus) : s.show = t.show → s = t := by
  rcases s with _ | (_|_) | (_|_) | (_|_) | _ | _ | _ | _ | _ <;>
  rcases t with _ | (_|_) | (_|_) | (_|_) | _ | _ | _ | _ | _ <;> decide

/-! ## (c) board rendering -/

/-- independent reader: line `k` of a text (lines split at '\n') -/
def boardLine (text : Str) (k : Nat) : Option Str := (splitOn '\n' text)[k]?
/-- independent reader: the 3 characters of cell (row `i` from the top, column `j` from the left); rank rows are lines
2..9, a row line is `label, 2 blanks, '║'` (4 characters), then 3 characters per cell.  Counted in characters. -/
def boardCell (text : Str) (i j : Nat) : Option Str :=
  (boardLine text (2 + i)).map fun line => (line.drop (4 + 3 * j)).take 3
/-- independent reader: the rank label of row `i` (first character of its line) -/
def rankLabel (text : Str) (i : Nat) : Option Char := (boardLine text (2 + i)).bind (·[0]?)

/-- what a cell must show: blank, or the FEN letter of the man (upper case White, lower case Black) between blanks -/
def cellOf : Option Piece → Str
  | none => [' ', ' ', ' ']
  | some p => [' ', pieceChar p, ' ']

/-- the castling-rights letters in the header -/
def rightsText (w b : CR) : Str :=
  (if w.hasK then ['K'] else []) ++ (if w.hasQ then ['Q'] else []) ++
  (if b.hasK then ['k'] else []) ++ (if b.hasQ then ['q'] else [])

example : cellOf (some ⟨.knight, .white⟩) = " N ".toList ∧ cellOf (some ⟨.queen, .black⟩) = " q ".toList := by decide

/-- the text the model puts into one cell -/
def cellText (b : Board) (sq : Sq) : Str :=
  if b.isEmptySq sq then "   ".toList
  else match b.getPieceTypeOn sq, b.getPieceColorOn sq with
    | some t, some c => [' ', (match c with | .white => t.letter.toUpper | .black => t.letter.toLower), ' ']
    | _, _ => "   ".toList

def headerLine (b : Board) : Str :=
  "   ".toList ++ b.stm.name ++ "  ".toList ++ ((b.rights .white).show.map Char.toUpper) ++ (b.rights .black).show
def topBorder : Str := "   ╔════════════════════════╗".toList
def bottomBorder : Str := "   ╚════════════════════════╝".toList
def rowLine (b : Board) (files : List (Fin 8)) (r : Fin 8) : Str :=
  natStr (r.val + 1) ++ "  ║".toList ++ (files.flatMap fun f => cellText b ⟨r.val * 8 + f.val, by omega⟩) ++ "║".toList

theorem renderPlain_eq (b : Board) (ranks files : List (Fin 8)) (footer : Str) :
    b.renderPlain ranks files footer =
      headerLine b ++ '\n' :: (topBorder ++ '\n' ::
        (ranks.flatMap (fun r => rowLine b files r ++ ['\n']) ++ (bottomBorder ++ '\n' :: (footer ++ '\n' :: [])))) := by
  have t1 : "║\n".toList = "║".toList ++ ['\n'] := by decide
  unfold Board.renderPlain rowLine headerLine topBorder bottomBorder cellText
  rw [t1]
  simp only [List.append_assoc, List.cons_append, List.nil_append]
  -- the two sides now differ only in the names of the compiled `match` auxiliaries
  repeat (first | rfl | (congr 1) | (funext x))

theorem letter_case_ne_newline (t : PT) (c : Color) :
    (match c with | .white => t.letter.toUpper | .black => t.letter.toLower) ≠ '\n' := by
  cases t <;> cases c <;> decide

theorem cellText_length (b : Board) (sq : Sq) : (cellText b sq).length = 3 := by
  unfold cellText; split
  · rfl
  · split <;> rfl

theorem newline_not_mem_cellText (b : Board) (sq : Sq) : '\n' ∉ cellText b sq := by
  unfold cellText; split
  · decide
  · split
    · rename_i t c _ _
      have := (letter_case_ne_newline t c).symm
      simp [this]
    · decide

theorem newline_not_mem_rowLine (b : Board) (files : List (Fin 8)) (r : Fin 8) : '\n' ∉ rowLine b files r := by
  unfold rowLine
  simp only [List.mem_append, List.mem_flatMap, not_or, not_exists, not_and]
  exact ⟨⟨⟨not_mem_natStr _ _ (by decide), by decide⟩, fun f _ => newline_not_mem_cellText b _⟩, by decide⟩

theorem newline_not_mem_headerLine (b : Board) : '\n' ∉ headerLine b := by
  unfold headerLine
  simp only [List.mem_append, not_or]
  refine ⟨⟨⟨⟨by decide, ?_⟩, by decide⟩, ?_⟩, ?_⟩
  · cases b.stm <;> decide
  · cases b.rights .white <;> decide
  · cases b.rights .black <;> decide

/-- the lines of a rendered board -/
theorem renderPlain_lines (b : Board) (ranks files : List (Fin 8)) (footer : Str) (hf : '\n' ∉ footer) :
    splitOn '\n' (b.renderPlain ranks files footer) =
      headerLine b :: topBorder :: (ranks.map (rowLine b files) ++ [bottomBorder, footer, []]) := by
  rw [renderPlain_eq, splitOn_append_sep _ _ _ (newline_not_mem_headerLine b),
    splitOn_append_sep _ _ _ (by decide : '\n' ∉ topBorder),
    splitOn_flatMap_terminated _ _ _ _ (fun r _ => newline_not_mem_rowLine b files r),
    splitOn_append_sep _ _ _ (by decide : '\n' ∉ bottomBorder), splitOn_append_sep _ _ _ hf]
  rfl

theorem rowLine_eq (b : Board) (files : List (Fin 8)) (r : Fin 8) :
    rowLine b files r = Nat.digitChar (r.val + 1) :: ' ' :: ' ' :: '║' ::
      ((files.flatMap fun f => cellText b ⟨r.val * 8 + f.val, by omega⟩) ++ ['║']) := by
  unfold rowLine
  rw [natStr_lt_ten _ (by omega)]
  rfl

/-- reading a cell of any `renderPlain` text: it is the model's cell text of square (`ranks[i]`, `files[j]`) -/
theorem boardCell_renderPlain (b : Board) (ranks files : List (Fin 8)) (footer : Str) (hf : '\n' ∉ footer)
    (i j : Nat) (r f : Fin 8) (hr : ranks[i]? = some r) (hfl : files[j]? = some f) :
    boardCell (b.renderPlain ranks files footer) i j = some (cellText b ⟨r.val * 8 + f.val, by omega⟩) := by
  have hi : i < ranks.length := by
    rcases Nat.lt_or_ge i ranks.length with h | h
    · exact h
    · rw [List.getElem?_eq_none h] at hr; cases hr
  unfold boardCell boardLine
  rw [renderPlain_lines _ _ _ _ hf]
  have e : 2 + i = i + 1 + 1 := by omega
  rw [e, List.getElem?_cons_succ, List.getElem?_cons_succ, List.getElem?_append_left (by simpa using hi),
    List.getElem?_map, hr]
  simp only [Option.map_some]
  rw [rowLine_eq]
  have d4 : ∀ (a b c d : Char) (l : Str), List.drop 4 (a :: b :: c :: d :: l) = l := fun _ _ _ _ _ => rfl
  rw [← List.drop_drop, d4]
  rw [flatMap_drop_take 3 files _ (fun a _ => cellText_length b _), hfl]

theorem rankLabel_renderPlain (b : Board) (ranks files : List (Fin 8)) (footer : Str) (hf : '\n' ∉ footer)
    (i : Nat) (r : Fin 8) (hr : ranks[i]? = some r) :
    rankLabel (b.renderPlain ranks files footer) i = some (Nat.digitChar (r.val + 1)) := by
  have hi : i < ranks.length := by
    rcases Nat.lt_or_ge i ranks.length with h | h
    · exact h
    · rw [List.getElem?_eq_none h] at hr; cases hr
  unfold rankLabel boardLine
  rw [renderPlain_lines _ _ _ _ hf]
  have e : 2 + i = i + 1 + 1 := by omega
  rw [e, List.getElem?_cons_succ, List.getElem?_cons_succ, List.getElem?_append_left (by simpa using hi),
    List.getElem?_map, hr]
  simp [rowLine_eq]

/-- with the masks encoding the placement `f`, the model's cell text is `cellOf` of the man on the square -/
theorem cellText_of_rep (b : Board) (f : Sq → Option Piece) (h : Rep b f) (sq : Sq) : cellText b sq = cellOf (f sq) := by
  unfold cellText
  rw [h.isEmptySq, h.getPieceTypeOn, h.getPieceColorOn]
  cases hp : f sq with
  | none => rfl
  | some p =>
    obtain ⟨t, c⟩ := p
    cases c <;> cases t <;> rfl

theorem files_getElem? : ∀ j : Fin 8, ([0, 1, 2, 3, 4, 5, 6, 7] : List (Fin 8))[j.val]? = some j := by decide
theorem rev_getElem? : ∀ j : Fin 8, ([7, 6, 5, 4, 3, 2, 1, 0] : List (Fin 8))[j.val]? = some ⟨7 - j.val, by omega⟩ := by decide

def legendStraight : Str := "     a  b  c  d  e  f  g  h".toList
def legendFlipped : Str := "     h  g  f  e  d  c  b  a".toList

/-- the representation hypothesis is satisfiable (empty board), and every board of interest has one: `Rep b b.abs`
follows from any `Rep b f` by `Rep.abs_eq` -/
example : Rep Board.new (fun _ => none) := ⟨fun _ _ => by simp [Board.new], fun _ _ => by simp [Board.new], fun _ => by simp [Board.new]⟩

/-- **C20 (board, cells).**  In `renderStraight`, row `i` (from the top), column `j` (from the left) shows the man on the
square of rank `7 - i`, file `j`: its FEN letter between blanks, or three blanks when the square is empty. -/
theorem C20_board_cell (b : Board) (f : Sq → Option Piece) (h : Rep b f) (i j : Fin 8) :
    boardCell b.renderStraight i.val j.val = some (cellOf (f ⟨(7 - i.val) * 8 + j.val, by omega⟩)) := by
  unfold Board.renderStraight
  rw [boardCell_renderPlain b _ _ _ (by decide) i.val j.val ⟨7 - i.val, by omega⟩ j (rev_getElem? i) (files_getElem? j),
    cellText_of_rep b f h]

/-- **C20 (board, rank labels).**  Row `i` of `renderStraight` is labelled with the digit `8 - i`. -/
theorem C20_board_label (b : Board) (i : Fin 8) :
    rankLabel b.renderStraight i.val = some (Nat.digitChar (8 - i.val)) := by
  unfold Board.renderStraight
  rw [rankLabel_renderPlain b _ _ _ (by decide) i.val ⟨7 - i.val, by omega⟩ (rev_getElem? i)]
  have : 7 - i.val + 1 = 8 - i.val := by omega
  show some (Nat.digitChar (7 - i.val + 1)) = _
  rw [this]

theorem rights_text (w k : CR) : (w.show.map Char.toUpper) ++ k.show = rightsText w k := by
  cases w <;> cases k <;> decide

/-- **C20 (board, frame).**  Line 0 names the side to move and the castling rights, lines 1 and 10 are the borders,
line 11 is the file legend `a..h`, and there are exactly 12 lines (plus the empty piece after the last newline). -/
theorem C20_board_frame (b : Board) :
    boardLine b.renderStraight 0 =
      some ("   ".toList ++ b.stm.name ++ "  ".toList ++ rightsText (b.rights .white) (b.rights .black)) ∧
    boardLine b.renderStraight 1 = some topBorder ∧
    boardLine b.renderStraight 10 = some bottomBorder ∧
    boardLine b.renderStraight 11 = some legendStraight ∧
    (splitOn '\n' b.renderStraight).length = 13 := by
  unfold Board.renderStraight boardLine
  rw [renderPlain_lines _ _ _ _ (by decide)]
  refine ⟨?_, rfl, rfl, rfl, rfl⟩
  simp only [List.getElem?_cons_zero, headerLine, List.append_assoc, rights_text]

/-- the same frame facts for the flipped board: legend `h..a` -/
theorem C20_flipped_frame (b : Board) :
    boardLine b.renderFlipped 0 = boardLine b.renderStraight 0 ∧
    boardLine b.renderFlipped 1 = some topBorder ∧
    boardLine b.renderFlipped 10 = some bottomBorder ∧
    boardLine b.renderFlipped 11 = some legendFlipped ∧
    (splitOn '\n' b.renderFlipped).length = 13 := by
  unfold Board.renderFlipped Board.renderStraight boardLine
  rw [renderPlain_lines _ _ _ _ (by decide), renderPlain_lines _ _ _ _ (by decide)]
  exact ⟨rfl, rfl, rfl, rfl, rfl⟩

/-- the legends: under the middle character of column `j` (offset `5 + 3j`) stands the file letter of file `j`
(straight) resp. `7 - j` (flipped); everything else in the legend is blank -/
theorem C20_legend : ∀ j : Fin 8,
    legendStraight[5 + 3 * j.val]? = some (fileChar j.val) ∧ legendFlipped[5 + 3 * j.val]? = some (fileChar (7 - j.val)) := by
  decide
theorem C20_legend_blank :
    legendStraight.filter (· ≠ ' ') = (List.finRange 8).map (fun j => fileChar j.val) ∧
    legendFlipped.filter (· ≠ ' ') = (List.finRange 8).map (fun j => fileChar (7 - j.val)) := by
  decide

/-- **C20 (flipped board).**  `renderFlipped` is `renderStraight` rotated by 180°: cell `(i, j)` of the flipped text is
cell `(7 - i, 7 - j)` of the straight text, and the rank labels run the other way (row `i` is labelled `i + 1`).
Holds for every board (no representation hypothesis needed). -/
theorem C20_flipped (b : Board) (i j : Fin 8) :
    boardCell b.renderFlipped i.val j.val = boardCell b.renderStraight (7 - i.val) (7 - j.val) ∧
    rankLabel b.renderFlipped i.val = rankLabel b.renderStraight (7 - i.val) ∧
    rankLabel b.renderFlipped i.val = some (Nat.digitChar (i.val + 1)) := by
  have hi : ([7, 6, 5, 4, 3, 2, 1, 0] : List (Fin 8))[7 - i.val]? = some i := by
    have := rev_getElem? ⟨7 - i.val, by omega⟩
    simp only at this
    rw [this]; congr 1; apply Fin.ext; simp only; omega
  have hj : ([0, 1, 2, 3, 4, 5, 6, 7] : List (Fin 8))[7 - j.val]? = some ⟨7 - j.val, by omega⟩ :=
    files_getElem? ⟨7 - j.val, by omega⟩
  unfold Board.renderFlipped Board.renderStraight
  rw [boardCell_renderPlain b _ _ _ (by decide) i.val j.val i ⟨7 - j.val, by omega⟩ (files_getElem? i) (rev_getElem? j),
    boardCell_renderPlain b _ _ _ (by decide) (7 - i.val) (7 - j.val) i ⟨7 - j.val, by omega⟩ hi hj,
    rankLabel_renderPlain b _ _ _ (by decide) i.val i (files_getElem? i),
    rankLabel_renderPlain b _ _ _ (by decide) (7 - i.val) i hi]
  exact ⟨rfl, rfl, rfl⟩

/-- flipped board, absolute form: row `i`, column `j` shows the man on rank `i`, file `7 - j` -/
theorem C20_flipped_cell (b : Board) (f : Sq → Option Piece) (h : Rep b f) (i j : Fin 8) :
    boardCell b.renderFlipped i.val j.val = some (cellOf (f ⟨i.val * 8 + (7 - j.val), by omega⟩)) := by
  have := (C20_flipped b i j).1
  rw [this]
  have := C20_board_cell b f h ⟨7 - i.val, by omega⟩ ⟨7 - j.val, by omega⟩
  simp only at this
  rw [this]
  congr 3; apply Fin.ext; simp only; omega

end Chess.C20
