import Chess.Model.Text
/-! C16, piece type `pawn`: every origin × destination × promotion by kernel evaluation (whole finite domain). -/
namespace Chess.C16
open Chess
theorem rt_pawn_0 : ∀ src dst : Sq, parseMove (printMove (.piece .pawn src dst (none))) = .ok (.piece .pawn src dst (none)) := by
  decide +kernel
theorem rt_pawn_1 : ∀ src dst : Sq, parseMove (printMove (.piece .pawn src dst (some .knight))) = .ok (.piece .pawn src dst (some .knight)) := by
  decide +kernel
theorem rt_pawn_2 : ∀ src dst : Sq, parseMove (printMove (.piece .pawn src dst (some .bishop))) = .ok (.piece .pawn src dst (some .bishop)) := by
  decide +kernel
theorem rt_pawn_3 : ∀ src dst : Sq, parseMove (printMove (.piece .pawn src dst (some .rook))) = .ok (.piece .pawn src dst (some .rook)) := by
  decide +kernel
theorem rt_pawn_4 : ∀ src dst : Sq, parseMove (printMove (.piece .pawn src dst (some .queen))) = .ok (.piece .pawn src dst (some .queen)) := by
  decide +kernel
theorem rt_pawn_5 : ∀ src dst : Sq, parseMove (printMove (.piece .pawn src dst (some .king))) = .ok (.piece .pawn src dst (some .king)) := by
  decide +kernel
end Chess.C16
