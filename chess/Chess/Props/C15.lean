import Chess.Lemmas.Pgn
import Chess.Props.C14
import Chess.Props.C06
import Chess.Props.C13
import Chess.Props.C11
import Chess.Lemmas.Status
import Chess.Lemmas.SpecInv
/-! # C15 — PGN export followed by import is the identity on played games (M1 level)

Property text: "for every game played from the standard initial position, whether it has no moves yet, is in progress,
or was finished by checkmate, stalemate, any draw or a resignation, importing the exported PGN reproduces the same
sequence of moves and positions, the same status (a merely pending draw offer excepted) and the same result tag".

The statements are about the moves section `Game.movesText g` of `Game.asPgn g` (`asPgn_eq`: the export is the tag
lines, an empty line and that section) and the model importer `Game.ofPgnMoves`.

* `replaySan_step`, `replaySan_chain` — replaying the SAN texts recorded along a played move list gives the same game
  (C14 injectivity + `getLegalMoves_nodup`: the candidate list of each token is exactly the played move);
* `scanMoves_movesText`, `scanResult_movesText` — the scanner recovers the SAN list and the result word (White-first);
* `C15_roundtrip_played` — explicit form: `playMoves` then at most one concluding non-move episode (`Ending`);
* `played_normal_form` — every game reachable by accepted actions (`PlayedFrom`) has that shape;
* `C15_roundtrip` (MAIN), `C15_roundtrip_moves` (clause form), `C15_roundtrip_exact` (no pending offer ⇒ the import *is*
  the exported game), `C15_roundtrip_open/_board_result/_resigned/_agreed/_pending`, `C15_standard`.

Hypotheses: start position `Valid`, White to move (the Black-first `1. ...` opening is not covered), and no recorded
move promotes to a pawn — `Board.isLegalMove` accepts such a move value although `getLegalMoves` never generates it
(`BoardMove`'s constructor rejects it in the Rust), and its text `e8=P` is not in the importer's SAN map. -/
namespace Chess
open Chess.Game Chess.C13 Board

variable (K : Keys)

/-! ## the exported text -/

/-- the tag lines of the export -/
def Game.pgnTags (g : Game) : Str :=
  (defaultTags ++ [("Result".toList, g.result)]).foldl
    (fun acc kv => acc ++ ['['] ++ kv.1 ++ " \"".toList ++ kv.2 ++ "\"]\n".toList) []

/-- the moves section of the export: the wrapped move text, a space, the result -/
def Game.movesText (g : Game) : Str :=
  joinWith ['\n'] (wrapWords 85 ((splitOn ' ' g.history.render).filter (fun w => !w.isEmpty))) ++ [' '] ++ g.result

/-- the export is the tag lines, an empty line, the moves section -/
theorem asPgn_eq (g : Game) : g.asPgn = g.pgnTags ++ ['\n'] ++ g.movesText := by
  simp only [Game.asPgn, Game.pgnTags, Game.movesText, List.append_assoc]

/-! ## replay -/

/-- play a list of moves -/
def Game.playMoves (g : Game) : List Move → Except Err Game
  | [] => .ok g
  | m :: ms => match g.act K (.move m) with | .error e => .error e | .ok g' => Game.playMoves g' ms

theorem filterMap_unique {α β} (f : α → Option β) (l : List α) (a : α) (b : β) (hn : l.Nodup) (ha : a ∈ l)
    (hfa : f a = some b) (hu : ∀ x ∈ l, ∀ y, f x = some y → x = a) : l.filterMap f = [b] := by
  induction l with
  | nil => cases ha
  | cons x l ih =>
    rw [List.nodup_cons] at hn
    by_cases hxa : x = a
    · subst hxa
      rw [List.filterMap_cons_some hfa]
      congr 1
      rw [List.filterMap_eq_nil_iff]
      intro y hy
      cases hfy : f y with
      | none => rfl
      | some z => exact absurd (hu y (by simp [hy]) z hfy ▸ hy) hn.1
    · have hal : a ∈ l := by
        rcases List.mem_cons.1 ha with h | h
        · exact absurd h.symm hxa
        · exact h
      have hfx : f x = none := by
        cases hfx : f x with
        | none => rfl
        | some z => exact absurd (hu x (by simp) z hfx) hxa
      rw [List.filterMap_cons_none hfx]
      exact ih hn.2 hal (fun y hy => hu y (by simp [hy]))

/-- one replay step: on a valid position the SAN text of a generated legal move selects exactly that move -/
theorem replaySan_step (g : Game) (hv : g.position.Valid K) (m : Move) (p : MoveProps)
    (hp : g.position.moveProps K m = .ok p) (hm : m ∈ g.position.getLegalMoves K) (rest : List Str) :
    replaySan K g (sanText m p :: rest) =
      match g.act K (.move m) with
      | .error e => .error e
      | .ok g' => replaySan K g' rest := by
  rw [replaySan]
  rw [filterMap_unique _ (g.position.getLegalMoves K) m m (getLegalMoves_nodup K _) hm]
  · rfl
  · rw [hp]; simp
  · intro x _ y hxy
    split at hxy
    · rename_i mp hmp
      split at hxy
      · rename_i ht
        exact C14_injective_valid K g.position hv x m mp p hmp hp ht
      · cases hxy
    · cases hxy

theorem replaySan_step' (g g' : Game) (hv : g.position.Valid K) (m : Move) (p : MoveProps)
    (hp : g.position.moveProps K m = .ok p) (hm : m ∈ g.position.getLegalMoves K) (rest : List Str)
    (ha : g.act K (.move m) = .ok g') :
    replaySan K g (sanText m p :: rest) = replaySan K g' rest := by
  rw [replaySan_step K g hv m p hp hm, ha]

theorem not_pawnPromo {m : Move} (h : m.promotesToPawn = false) : ∀ pt s d, m ≠ .piece pt s d (some .pawn) := by
  intro pt s d e; subst e; cases h

/-- statuses a move (or the construction) can produce -/
def boardStatus : GStatus → Bool
  | .drawOffered _ | .resigned _ | .drawAccepted => false
  | _ => true

theorem boardStatus_not_offered {s : GStatus} (h : boardStatus s = true) : ¬ ∃ c, s = .drawOffered c := by
  rintro ⟨c, rfl⟩; cases h

theorem act_move_boardStatus (g g' : Game) (m : Move) (h : g.act K (.move m) = .ok g') : boardStatus g'.status = true := by
  rw [(C11_status_after_move K g g' m h).2]
  cases g'.position.getStatus <;> try rfl
  dsimp only
  split <;> rfl

theorem ofBoard_boardStatus (b : Board) : boardStatus (ofBoard b).status = true := by
  rw [C12.initial_status]; cases b.getStatus <;> rfl

theorem playMoves_nil (g : Game) : Game.playMoves K g [] = .ok g := rfl
theorem playMoves_cons (g : Game) (m : Move) (ms : List Move) :
    Game.playMoves K g (m :: ms) =
      match g.act K (.move m) with | .error e => .error e | .ok g' => Game.playMoves K g' ms := rfl

theorem playMoves_cons_ok {g gEnd : Game} {m : Move} {ms : List Move} (h : Game.playMoves K g (m :: ms) = .ok gEnd) :
    ∃ g1, g.act K (.move m) = .ok g1 ∧ Game.playMoves K g1 ms = .ok gEnd := by
  rw [playMoves_cons] at h
  cases ha : g.act K (.move m) with
  | error e => rw [ha] at h; cases h
  | ok g1 => rw [ha] at h; exact ⟨g1, rfl, h⟩

theorem playMoves_append (g : Game) (ms ns : List Move) :
    Game.playMoves K g (ms ++ ns) =
      match Game.playMoves K g ms with | .error e => .error e | .ok g' => Game.playMoves K g' ns := by
  induction ms generalizing g with
  | nil => rfl
  | cons m ms ih =>
    rw [List.cons_append, playMoves_cons, playMoves_cons]
    cases g.act K (.move m) with
    | error e => rfl
    | ok g1 => exact ih g1

/-- what a successful `playMoves` preserves -/
theorem playMoves_inv {g gEnd : Game} {ms : List Move} (h : Game.playMoves K g ms = .ok gEnd) :
    (boardStatus g.status = true → boardStatus gEnd.status = true) ∧ (C12.TagOK g → C12.TagOK gEnd) ∧
    (GameReach K g → GameReach K gEnd) := by
  induction ms generalizing g with
  | nil => cases h; exact ⟨id, id, id⟩
  | cons m ms ih =>
    obtain ⟨g1, ha, h1⟩ := playMoves_cons_ok K h
    obtain ⟨i1, i2, i3⟩ := ih h1
    exact ⟨fun _ => i1 (act_move_boardStatus K g g1 m ha), fun t => i2 (C12.act_tag K g g1 _ t ha),
      fun r => i3 (.step _ r ha)⟩

/-- **replay**: the SAN texts recorded along a played move list replay to the same game.  `ps` are the recorded
notation properties (the new part of `gEnd.history.props`). -/
theorem replaySan_chain (ms : List Move) : ∀ (g gEnd : Game), g.position.Valid K →
    (∀ m ∈ ms, m.promotesToPawn = false) → Game.playMoves K g ms = .ok gEnd →
    ∃ ps qs, ps.length = ms.length ∧ gEnd.history.moves = g.history.moves ++ ms ∧
      gEnd.history.props = g.history.props ++ ps ∧ gEnd.history.positions = g.history.positions ++ qs ∧
      gEnd.position.Valid K ∧ replaySan K g (List.zipWith sanText ms ps) = .ok gEnd := by
  induction ms with
  | nil =>
    intro g gEnd hv _ h
    cases h
    exact ⟨[], [], rfl, by simp, by simp, by simp, hv, rfl⟩
  | cons m ms ih =>
    intro g gEnd hv hpp h
    obtain ⟨g1, ha, h1⟩ := playMoves_cons_ok K h
    have hw := not_pawnPromo (hpp m (by simp))
    rcases act_cases K g g1 _ ha with ⟨m', nb, mp, hm', _, hmk, hmp, hpos, hh, _⟩ | ⟨hne, _⟩
    · cases hm'
      have hv1 : g1.position.Valid K := by rw [hpos]; exact C06_step_checked g.position nb hv m hw hmk
      have hmem : m ∈ g.position.getLegalMoves K := (hv.isLegalMove_iff m hw).1 (Game.makeMove_ok K hmk).1
      obtain ⟨ps, qs, hl, e1, e2, e3, hvE, hr⟩ := ih g1 gEnd hv1 (fun x hx => hpp x (by simp [hx])) h1
      refine ⟨mp :: ps, nb :: qs, by simp [hl], ?_, ?_, ?_, hvE, ?_⟩
      · rw [e1, hh]; simp
      · rw [e2, hh]; simp
      · rw [e3, hh]; simp
      · rw [List.zipWith_cons_cons, replaySan_step' K g g1 hv m mp hmp hmem _ ha]; exact hr
    · exact absurd rfl (hne m)

/-! ## non-move actions, explicitly -/

theorem act_offer_inv {g g' : Game} {c : Color} (h : g.act K (.offerDraw c) = .ok g') :
    g.status = .ongoing ∧ g' = g.updateStatus (some (.offerDraw c)) := by
  unfold act at h
  cases hs : g.status <;> simp only [hs] at h <;> first | (injection h with h; exact ⟨rfl, h.symm⟩) | cases h

theorem act_accept_inv {g g' : Game} (h : g.act K .acceptDraw = .ok g') :
    (∃ c, g.status = .drawOffered c) ∧ g' = g.updateStatus (some .acceptDraw) := by
  unfold act at h
  cases hs : g.status <;> simp only [hs] at h <;> first | (injection h with h; exact ⟨⟨_, rfl⟩, h.symm⟩) | cases h

theorem act_decline_inv {g g' : Game} (h : g.act K .declineDraw = .ok g') :
    (∃ c, g.status = .drawOffered c) ∧ g' = g.updateStatus (some .declineDraw) := by
  unfold act at h
  cases hs : g.status <;> simp only [hs] at h <;> first | (injection h with h; exact ⟨⟨_, rfl⟩, h.symm⟩) | cases h

theorem act_resign_inv {g g' : Game} {d : Color} (h : g.act K (.resign d) = .ok g') :
    (g.status = .ongoing ∨ ∃ c, g.status = .drawOffered c) ∧ g' = g.updateStatus (some (.resign d)) := by
  unfold act at h
  cases hs : g.status <;> simp only [hs] at h <;>
    first | (injection h with h; exact ⟨Or.inl rfl, h.symm⟩) | (injection h with h; exact ⟨Or.inr ⟨_, rfl⟩, h.symm⟩) | cases h

theorem act_move_inv {g g' : Game} {m : Move} (h : g.act K (.move m) = .ok g') : g.status = .ongoing :=
  (C11_status_after_move K g g' m h).1

theorem act_offer_eq (g : Game) (c : Color) (hs : g.status = .ongoing) :
    g.act K (.offerDraw c) = .ok (g.updateStatus (some (.offerDraw c))) := by
  unfold act; simp only [hs]
theorem act_resign_eq (g : Game) (d : Color) (hs : g.status = .ongoing) :
    g.act K (.resign d) = .ok (g.updateStatus (some (.resign d))) := by
  unfold act; simp only [hs]
theorem act_accept_eq (g : Game) (c : Color) (hs : g.status = .drawOffered c) :
    g.act K .acceptDraw = .ok (g.updateStatus (some .acceptDraw)) := by
  unfold act; simp only [hs]

@[simp] theorem updateStatus_status_offer (g : Game) (c : Color) :
    (g.updateStatus (some (.offerDraw c))).status = .drawOffered c := by simp [updateStatus]
@[simp] theorem updateStatus_status_resign (g : Game) (c : Color) :
    (g.updateStatus (some (.resign c))).status = .resigned c := by simp [updateStatus]
@[simp] theorem updateStatus_status_accept (g : Game) :
    (g.updateStatus (some .acceptDraw)).status = .drawAccepted := by simp [updateStatus]
@[simp] theorem updateStatus_status_decline (g : Game) :
    (g.updateStatus (some .declineDraw)).status = .ongoing := by simp [updateStatus]

theorem updateStatus_result (g : Game) (l : Option Action) (h : C12.TagOK g) :
    (g.updateStatus l).result = resultTagOf (g.updateStatus l).status := C12.updateStatus_tag g l h

/-- a game is determined by its five fields -/
theorem Game.ext' {g h : Game} (e1 : g.position = h.position) (e2 : g.history = h.history) (e3 : g.counter = h.counter)
    (e4 : g.status = h.status) (e5 : g.result = h.result) : g = h := by
  cases g; cases h; simp_all

/-- an offer followed by its refusal leaves the game as it was -/
theorem offer_decline_id (g : Game) (c : Color) (hs : g.status = .ongoing) (ht : C12.TagOK g) :
    (g.updateStatus (some (.offerDraw c))).updateStatus (some .declineDraw) = g := by
  apply Game.ext'
  · simp
  · simp
  · simp
  · simp [hs]
  · rw [updateStatus_result _ _ (C12.updateStatus_tag _ _ ht), updateStatus_status_decline, ht, hs]

/-! ## the scanner on the export of a played game -/

theorem zipWith_sanWord (ms : List Move) (ps : List MoveProps) : ∀ s ∈ List.zipWith sanText ms ps, SanWord s := by
  induction ms generalizing ps with
  | nil => intro s hs; simp at hs
  | cons m ms ih =>
    cases ps with
    | nil => intro s hs; simp at hs
    | cons p ps =>
      intro s hs
      rw [List.zipWith_cons_cons, List.mem_cons] at hs
      rcases hs with rfl | hs
      · exact sanText_sanWord m p
      · exact ih ps s hs

theorem resultTag_word (s : GStatus) : IsWord (resultTagOf s) ∧ isResultWord (resultTagOf s) = true := by
  have := C12.tag_values s
  simp only [List.mem_cons, List.not_mem_nil, or_false] at this
  rcases this with h | h | h | h <;> rw [h] <;> exact ⟨⟨by decide, by decide, by decide⟩, by decide⟩

/-- the moves section of a White-first game, as words -/
theorem movesText_eq (g : Game) (hb : blackStarts g.history = false) :
    g.movesText = joinWith ['\n'] (wrapWords 85 (numbered 0 (List.zipWith sanText g.history.moves g.history.props))) ++
      [' '] ++ g.result := by
  unfold Game.movesText
  rw [C13_render_tokens', hb]; rfl

/-- **token cleaning on an export**: the scanner finds exactly the SAN texts of the recorded moves -/
theorem scanMoves_movesText (g : Game) (hb : blackStarts g.history = false) (ht : C12.TagOK g) :
    scanMoves g.movesText = List.zipWith sanText g.history.moves g.history.props := by
  rw [movesText_eq g hb, ht]
  exact scanMoves_section 85 _ (zipWith_sanWord _ _) _ (resultTag_word _).1 (resultTag_word _).2

theorem scanResult_movesText (g : Game) (hb : blackStarts g.history = false) (ht : C12.TagOK g) :
    scanResult g.movesText =
      if g.result = "1-0".toList ∨ g.result = "0-1".toList ∨ g.result = "1/2-1/2".toList then some g.result else none := by
  rw [movesText_eq g hb]
  refine scanResult_section 85 _ (zipWith_sanWord _ _) _ ?_
  rw [ht]; exact (resultTag_word _).1

theorem scanResult_undecided (g : Game) (hb : blackStarts g.history = false) (ht : C12.TagOK g)
    (hs : g.status = .ongoing ∨ ∃ c, g.status = .drawOffered c) : scanResult g.movesText = none := by
  rw [scanResult_movesText g hb ht, ht]
  have e : resultTagOf g.status = "?".toList := by rcases hs with h | ⟨c, h⟩ <;> rw [h] <;> rfl
  rw [e]; decide

theorem scanResult_decided (g : Game) (hb : blackStarts g.history = false) (ht : C12.TagOK g) (r : Str)
    (hr : g.result = r) (hmem : r = "1-0".toList ∨ r = "0-1".toList ∨ r = "1/2-1/2".toList) :
    scanResult g.movesText = some r := by
  rw [scanResult_movesText g hb ht, hr, if_pos hmem]

/-! ## the round trip -/

/-- `g` is `g1` (a game as its last move left it) followed by at most one concluding non-move episode:
nothing, a pending draw offer, a resignation, an accepted draw offer, or a resignation while an offer is pending -/
inductive Ending (g1 : Game) : Game → Prop
  | none : Ending g1 g1
  | offer (c : Color) (g : Game) : g1.act K (.offerDraw c) = .ok g → Ending g1 g
  | resign (d : Color) (g : Game) : g1.act K (.resign d) = .ok g → Ending g1 g
  | agreed (c : Color) (g2 g : Game) : g1.act K (.offerDraw c) = .ok g2 → g2.act K .acceptDraw = .ok g → Ending g1 g
  | offerResign (c d : Color) (g2 g : Game) :
      g1.act K (.offerDraw c) = .ok g2 → g2.act K (.resign d) = .ok g → Ending g1 g

/-- the imported game `g'` reproduces `g`: same current position, same history (moves, positions, recorded
properties), same occurrence counter, same result tag, same status — a merely pending draw offer excepted -/
def importedStatus : GStatus → GStatus
  | .drawOffered _ => .ongoing
  | s => s

def Agrees (g' g : Game) : Prop :=
  g'.position = g.position ∧ g'.history = g.history ∧ g'.counter = g.counter ∧ g'.result = g.result ∧
  g'.status = importedStatus g.status

theorem importedStatus_of_not_offered {s : GStatus} (h : ∀ c, s ≠ .drawOffered c) : importedStatus s = s := by
  cases s <;> first | rfl | exact absurd rfl (h _)

theorem Agrees.refl (g : Game) (h : ∀ c, g.status ≠ .drawOffered c) : Agrees g g :=
  ⟨rfl, rfl, rfl, rfl, (importedStatus_of_not_offered h).symm⟩

/-- the status clause in the words of the property: equal, a merely pending offer excepted -/
theorem Agrees.status {g' g : Game} (h : Agrees g' g) :
    g'.status = g.status ∨ ∃ c, g.status = .drawOffered c ∧ g'.status = .ongoing := by
  have := h.2.2.2.2
  cases hs : g.status <;> rw [hs] at this <;> first | exact Or.inl this | exact Or.inr ⟨_, rfl, this⟩

/-- without a pending offer the two games are equal -/
theorem Agrees.eq {g' g : Game} (h : Agrees g' g) (hn : ∀ c, g.status ≠ .drawOffered c) : g' = g :=
  Game.ext' h.1 h.2.1 h.2.2.1 (h.2.2.2.2.trans (importedStatus_of_not_offered hn)) h.2.2.2.1

theorem resign_tag (d : Color) :
    (d = .white ∧ resultTagOf (.resigned d) = "0-1".toList) ∨ (d = .black ∧ resultTagOf (.resigned d) = "1-0".toList) := by
  cases d
  · exact Or.inl ⟨rfl, rfl⟩
  · exact Or.inr ⟨rfl, rfl⟩

/-- the importer's result handling on a game whose last move left it ongoing, result word `0-1` / `1-0`:
it resigns for the loser -/
theorem ofPgnMoves_resigned (g0 g1 g : Game) (d : Color)
    (hrep : replaySan K g0 (scanMoves g.movesText) = .ok g1) (hs : g1.status = .ongoing)
    (hb : blackStarts g.history = false) (ht : C12.TagOK g) (hst : g.status = .resigned d) :
    ofPgnMoves K g0 g.movesText = g1.act K (.resign d) := by
  unfold Game.ofPgnMoves
  rw [hrep]
  simp only [hs, if_true]
  have hres : g.result = resultTagOf (.resigned d) := by rw [ht, hst]
  rcases resign_tag d with ⟨rfl, e⟩ | ⟨rfl, e⟩
  · rw [scanResult_decided g hb ht _ (hres.trans e) (Or.inr (Or.inl rfl))]
    simp only []
    rw [if_neg (by decide), if_pos trivial]
  · rw [scanResult_decided g hb ht _ (hres.trans e) (Or.inl rfl)]
    simp only []
    rw [if_pos trivial]

/-- no result word (`?`): the replayed game is the import -/
theorem ofPgnMoves_undecided (g0 g1 g : Game)
    (hrep : replaySan K g0 (scanMoves g.movesText) = .ok g1)
    (hb : blackStarts g.history = false) (ht : C12.TagOK g)
    (hst : g.status = .ongoing ∨ ∃ c, g.status = .drawOffered c) :
    ofPgnMoves K g0 g.movesText = .ok g1 := by
  unfold Game.ofPgnMoves
  rw [hrep, scanResult_undecided g hb ht hst]
  simp only []
  split <;> rfl

/-- the moves already decided the game: the result word is not consulted -/
theorem ofPgnMoves_finished (g0 g1 : Game) (t : Str)
    (hrep : replaySan K g0 (scanMoves t) = .ok g1) (hs : g1.status ≠ .ongoing) :
    ofPgnMoves K g0 t = .ok g1 := by
  unfold Game.ofPgnMoves
  rw [hrep]
  simp only []
  rw [if_neg hs]

/-- result word `1/2-1/2` after moves that left the game ongoing: the importer offers and accepts a draw -/
theorem ofPgnMoves_agreed (g0 g1 g : Game)
    (hrep : replaySan K g0 (scanMoves g.movesText) = .ok g1) (hs : g1.status = .ongoing)
    (hb : blackStarts g.history = false) (ht : C12.TagOK g) (hst : g.status = .drawAccepted) :
    ofPgnMoves K g0 g.movesText =
      .ok ((g1.updateStatus (some (.offerDraw .white))).updateStatus (some .acceptDraw)) := by
  unfold Game.ofPgnMoves
  rw [hrep]
  simp only [hs, if_true]
  have hres : g.result = "1/2-1/2".toList := by rw [ht, hst]; rfl
  rw [scanResult_decided g hb ht _ hres (Or.inr (Or.inr rfl))]
  simp only []
  rw [if_neg (by decide), if_neg (by decide), act_offer_eq K g1 .white hs]
  simp only []
  rw [act_accept_eq K _ .white (by simp)]

/-- **C15, explicit form.**  Start from any valid White-to-move position (`g0 = Game.ofBoard b0`, or more generally a game
whose history is the bare start position), play the move list `ms` (none of them the unconstructible "promotion to a
pawn"), reaching `g1`, then conclude with at most one non-move episode (`Ending`), reaching `g`.  Importing the exported
moves section of `g` into `g0` succeeds and gives a game that agrees with `g` in position, history (moves, positions,
properties), counter, result tag and status, except that a pending draw offer is imported as an ongoing game. -/
theorem C15_roundtrip_played (g0 g1 g : Game) (b0 : Board) (hv0 : g0.position.Valid K)
    (hh0 : g0.history = History.fromPosition b0) (hw : b0.stm = .white)
    (ht0 : C12.TagOK g0) (hb0 : boardStatus g0.status = true)
    (ms : List Move) (hpp : ∀ m ∈ ms, m.promotesToPawn = false)
    (hplay : Game.playMoves K g0 ms = .ok g1) (he : Ending K g1 g) :
    ∃ g', ofPgnMoves K g0 g.movesText = .ok g' ∧ Agrees g' g := by
  obtain ⟨ps, qs, _, e1, e2, e3, _, hr⟩ := replaySan_chain K ms g0 g1 hv0 hpp hplay
  obtain ⟨ib, it, _⟩ := playMoves_inv K hplay
  have ht1 := it ht0
  have hb1 := ib hb0
  rw [hh0] at e1 e2 e3
  simp only [History.fromPosition, List.nil_append, List.singleton_append] at e1 e2 e3
  have hbs : blackStarts g1.history = false := by
    unfold blackStarts; rw [e3]; simp [hw]
  -- every ending keeps the history and the tag invariant, so the scanner finds the SAN list of `ms`
  have hrep : ∀ g : Game, g.history = g1.history → C12.TagOK g →
      replaySan K g0 (scanMoves g.movesText) = .ok g1 := by
    intro g hh ht
    rw [scanMoves_movesText g (by rw [hh]; exact hbs) ht, hh, e1, e2]; exact hr
  cases he with
  | none =>
    refine ⟨g1, ?_, Agrees.refl _ (fun c e => boardStatus_not_offered hb1 ⟨c, e⟩)⟩
    by_cases hs : g1.status = .ongoing
    · exact ofPgnMoves_undecided K g0 g1 g1 (hrep g1 rfl ht1) hbs ht1 (Or.inl hs)
    · exact ofPgnMoves_finished K g0 g1 _ (hrep g1 rfl ht1) hs
  | offer c _ ha =>
    obtain ⟨hs, rfl⟩ := act_offer_inv K ha
    have htg := C12.updateStatus_tag g1 (some (.offerDraw c)) ht1
    refine ⟨g1, ofPgnMoves_undecided K g0 g1 _ (hrep _ (by simp) htg) (by simpa using hbs) htg
      (Or.inr ⟨c, by simp⟩), by simp, by simp, by simp, ?_, by simp [importedStatus, hs]⟩
    rw [htg, ht1, hs]; simp only [updateStatus_status_offer]; rfl
  | resign d _ ha =>
    obtain ⟨_, rfl⟩ := act_resign_inv K ha
    have hs : g1.status = .ongoing := by
      cases h : g1.status <;> first | rfl | (rw [h] at hb1; first | cases hb1 | skip)
      all_goals (have := C12.finished_rejects K g1 (.resign d) (by rw [h]; rfl); rw [this] at ha; cases ha)
    have htg := C12.updateStatus_tag g1 (some (.resign d)) ht1
    refine ⟨_, ?_, Agrees.refl _ (by simp)⟩
    rw [ofPgnMoves_resigned K g0 g1 _ d (hrep _ (by simp) htg) hs (by simpa using hbs) htg (by simp)]
    exact ha
  | agreed c g2 _ ha ha2 =>
    obtain ⟨hs, rfl⟩ := act_offer_inv K ha
    obtain ⟨_, rfl⟩ := act_accept_inv K ha2
    have htg := C12.updateStatus_tag _ (some .acceptDraw) (C12.updateStatus_tag g1 (some (.offerDraw c)) ht1)
    refine ⟨_, ofPgnMoves_agreed K g0 g1 _ (hrep _ (by simp) htg) hs (by simpa using hbs) htg (by simp),
      by simp, by simp, by simp, ?_, by simp [importedStatus]⟩
    rw [htg, updateStatus_result _ _ (C12.updateStatus_tag g1 (some (.offerDraw .white)) ht1)]
    simp
  | offerResign c d g2 _ ha ha2 =>
    obtain ⟨hs, rfl⟩ := act_offer_inv K ha
    obtain ⟨_, rfl⟩ := act_resign_inv K ha2
    have htg := C12.updateStatus_tag _ (some (.resign d)) (C12.updateStatus_tag g1 (some (.offerDraw c)) ht1)
    refine ⟨g1.updateStatus (some (.resign d)), ?_, by simp, by simp, by simp, ?_, by simp [importedStatus]⟩
    · rw [ofPgnMoves_resigned K g0 g1 _ d (hrep _ (by simp) htg) hs (by simpa using hbs) htg (by simp)]
      exact act_resign_eq K g1 d hs
    · rw [htg, updateStatus_result _ _ ht1]; simp

/-! ## every game a caller can hold has that shape -/

/-- the games obtainable from `g0` by accepted actions (any interleaving of moves, offers, refusals, …) -/
inductive PlayedFrom (g0 : Game) : Game → Prop
  | init : PlayedFrom g0 g0
  | step {g g' : Game} (a : Action) : PlayedFrom g0 g → g.act K a = .ok g' → PlayedFrom g0 g'

theorem PlayedFrom.reach {b : Board} {g : Game} (h : PlayedFrom K (ofBoard b) g) : GameReach K g := by
  induction h with
  | init => exact .init b
  | step a _ ha ih => exact .step a ih ha

theorem GameReach.playedFrom {g : Game} (h : GameReach K g) : ∃ b, PlayedFrom K (ofBoard b) g := by
  induction h with
  | init b => exact ⟨b, .init⟩
  | step a _ ha ih => obtain ⟨b, hb⟩ := ih; exact ⟨b, .step a hb ha⟩

theorem playMoves_moves {g gEnd : Game} {ms : List Move} (h : Game.playMoves K g ms = .ok gEnd) :
    gEnd.history.moves = g.history.moves ++ ms := by
  induction ms generalizing g with
  | nil => cases h; simp
  | cons m ms ih =>
    obtain ⟨g1, ha, h1⟩ := playMoves_cons_ok K h
    rw [ih h1, (C12.move_result K g g1 m (act_move_inv K ha) ha).2.2.1]; simp

theorem Ending.history {g1 g : Game} (h : Ending K g1 g) : g.history = g1.history := by
  cases h with
  | none => rfl
  | offer c _ ha => obtain ⟨_, rfl⟩ := act_offer_inv K ha; simp
  | resign d _ ha => obtain ⟨_, rfl⟩ := act_resign_inv K ha; simp
  | agreed c g2 _ ha ha2 => obtain ⟨_, rfl⟩ := act_offer_inv K ha; obtain ⟨_, rfl⟩ := act_accept_inv K ha2; simp
  | offerResign c d g2 _ ha ha2 => obtain ⟨_, rfl⟩ := act_offer_inv K ha; obtain ⟨_, rfl⟩ := act_resign_inv K ha2; simp

/-- **normal form**: whatever the interleaving of actions, a reachable game is its move list played out, followed by
at most one concluding non-move episode (refused offers leave no trace) -/
theorem played_normal_form (g0 : Game) (ht0 : C12.TagOK g0) (hb0 : boardStatus g0.status = true) {g : Game}
    (h : PlayedFrom K g0 g) : ∃ ms g1, Game.playMoves K g0 ms = .ok g1 ∧ Ending K g1 g := by
  induction h with
  | init => exact ⟨[], g0, rfl, .none⟩
  | @step g g' a _ ha ih =>
    obtain ⟨ms, g1, hplay, he⟩ := ih
    obtain ⟨ib, it, _⟩ := playMoves_inv K hplay
    have ht1 := it ht0
    have hb1 := ib hb0
    cases he with
    | none =>
      cases a with
      | move m =>
        refine ⟨ms ++ [m], g', ?_, .none⟩
        rw [playMoves_append, hplay]
        show Game.playMoves K g (m :: []) = _
        rw [playMoves_cons, ha]; rfl
      | offerDraw c => exact ⟨ms, g, hplay, .offer c g' ha⟩
      | resign d => exact ⟨ms, g, hplay, .resign d g' ha⟩
      | acceptDraw => exact absurd (act_accept_inv K ha).1 (boardStatus_not_offered hb1)
      | declineDraw => exact absurd (act_decline_inv K ha).1 (boardStatus_not_offered hb1)
    | offer c _ ha0 =>
      obtain ⟨hs, rfl⟩ := act_offer_inv K ha0
      cases a with
      | move m => have := act_move_inv K ha; simp at this
      | offerDraw c' => have := (act_offer_inv K ha).1; simp at this
      | resign d => exact ⟨ms, g1, hplay, .offerResign c d _ g' ha0 ha⟩
      | acceptDraw => exact ⟨ms, g1, hplay, .agreed c _ g' ha0 ha⟩
      | declineDraw =>
        obtain ⟨_, rfl⟩ := act_decline_inv K ha
        rw [offer_decline_id g1 c hs ht1]
        exact ⟨ms, g1, hplay, .none⟩
    | resign d _ ha0 =>
      obtain ⟨_, rfl⟩ := act_resign_inv K ha0
      rw [C12.finished_rejects K _ a (by simp [C12.finished])] at ha; cases ha
    | agreed c g2 _ ha0 ha2 =>
      obtain ⟨_, rfl⟩ := act_accept_inv K ha2
      rw [C12.finished_rejects K _ a (by simp [C12.finished])] at ha; cases ha
    | offerResign c d g2 _ ha0 ha2 =>
      obtain ⟨_, rfl⟩ := act_resign_inv K ha2
      rw [C12.finished_rejects K _ a (by simp [C12.finished])] at ha; cases ha

/-! ## C15 -/

/-- **C15 (PGN round trip), main statement.**  Let `b0` be a valid position with White to move (in particular the
standard initial position, see `C15_standard`) and `g` any game obtained from `Game.ofBoard b0` by accepted actions —
no moves yet, in progress, finished by checkmate, stalemate, insufficient material, the fifty-move rule, repetition,
agreement or resignation, with or without refused draw offers on the way.  Assume no recorded move is the
unconstructible "promotion to a pawn" (`PieceMove::new` rejects it).  Then importing the moves section of the export
of `g` succeeds, and the imported game `Agrees` with `g`: same current position, same history (moves, positions,
notation properties), same occurrence counter, same result tag, and the same status — except that a merely pending
draw offer is imported as an ongoing game. -/
theorem C15_roundtrip (b0 : Board) (hv : b0.Valid K) (hw : b0.stm = .white) (g : Game)
    (hg : PlayedFrom K (ofBoard b0) g) (hpp : ∀ m ∈ g.history.moves, m.promotesToPawn = false) :
    ∃ g', ofPgnMoves K (ofBoard b0) g.movesText = .ok g' ∧ Agrees g' g := by
  have ht0 : C12.TagOK (ofBoard b0) := C12.result_tag K _ (.init b0)
  have hb0 := ofBoard_boardStatus b0
  obtain ⟨ms, g1, hplay, he⟩ := played_normal_form K _ ht0 hb0 hg
  have hms : g.history.moves = ms := by
    rw [he.history, playMoves_moves K hplay]; simp [History.fromPosition]
  exact C15_roundtrip_played K (ofBoard b0) g1 g b0 (by simpa using hv)
    (ofBoard_history b0) hw ht0 hb0 ms (by rw [← hms]; exact hpp) hplay he

/-- the same, clause by clause, in the words of the property -/
theorem C15_roundtrip_moves (b0 : Board) (hv : b0.Valid K) (hw : b0.stm = .white) (g : Game)
    (hg : PlayedFrom K (ofBoard b0) g) (hpp : ∀ m ∈ g.history.moves, m.promotesToPawn = false) :
    ∃ g', ofPgnMoves K (ofBoard b0) g.movesText = .ok g' ∧
      g'.history.moves = g.history.moves ∧ g'.history.positions = g.history.positions ∧ g'.result = g.result ∧
      (g'.status = g.status ∨ ∃ c, g.status = .drawOffered c ∧ g'.status = .ongoing) := by
  obtain ⟨g', h0, ha⟩ := C15_roundtrip K b0 hv hw g hg hpp
  exact ⟨g', h0, by rw [ha.2.1], by rw [ha.2.1], ha.2.2.2.1, ha.status⟩

/-! ### per ending class -/

/-- when no draw offer is pending — no moves yet, in progress, or finished in any way — the imported game is
*equal* to the exported one -/
theorem C15_roundtrip_exact (b0 : Board) (hv : b0.Valid K) (hw : b0.stm = .white) (g : Game)
    (hg : PlayedFrom K (ofBoard b0) g) (hpp : ∀ m ∈ g.history.moves, m.promotesToPawn = false)
    (hn : ∀ c, g.status ≠ .drawOffered c) :
    ofPgnMoves K (ofBoard b0) g.movesText = .ok g := by
  obtain ⟨g', h0, ha⟩ := C15_roundtrip K b0 hv hw g hg hpp
  rw [h0, ha.eq hn]

/-- in progress (possibly no moves yet), no offer pending -/
theorem C15_roundtrip_open (b0 : Board) (hv : b0.Valid K) (hw : b0.stm = .white) (g : Game)
    (hg : PlayedFrom K (ofBoard b0) g) (hpp : ∀ m ∈ g.history.moves, m.promotesToPawn = false)
    (hs : g.status = .ongoing) : ofPgnMoves K (ofBoard b0) g.movesText = .ok g :=
  C15_roundtrip_exact K b0 hv hw g hg hpp (by intro c; rw [hs]; exact GStatus.noConfusion)

/-- finished on the board: checkmate, stalemate, insufficient material, fifty-move rule, repetition -/
theorem C15_roundtrip_board_result (b0 : Board) (hv : b0.Valid K) (hw : b0.stm = .white) (g : Game)
    (hg : PlayedFrom K (ofBoard b0) g) (hpp : ∀ m ∈ g.history.moves, m.promotesToPawn = false)
    (hs : (∃ c, g.status = .checkMated c) ∨ g.status = .stalemate ∨ g.status = .theoreticalDraw ∨
      g.status = .fiftyMoves ∨ g.status = .repetition) : ofPgnMoves K (ofBoard b0) g.movesText = .ok g :=
  C15_roundtrip_exact K b0 hv hw g hg hpp (by
    intro c e; rw [e] at hs
    rcases hs with ⟨_, h⟩ | h | h | h | h <;> cases h)

/-- finished by resignation (also a resignation while a draw offer was pending) -/
theorem C15_roundtrip_resigned (b0 : Board) (hv : b0.Valid K) (hw : b0.stm = .white) (g : Game)
    (hg : PlayedFrom K (ofBoard b0) g) (hpp : ∀ m ∈ g.history.moves, m.promotesToPawn = false)
    (d : Color) (hs : g.status = .resigned d) : ofPgnMoves K (ofBoard b0) g.movesText = .ok g :=
  C15_roundtrip_exact K b0 hv hw g hg hpp (by intro c; rw [hs]; exact GStatus.noConfusion)

/-- finished by agreement -/
theorem C15_roundtrip_agreed (b0 : Board) (hv : b0.Valid K) (hw : b0.stm = .white) (g : Game)
    (hg : PlayedFrom K (ofBoard b0) g) (hpp : ∀ m ∈ g.history.moves, m.promotesToPawn = false)
    (hs : g.status = .drawAccepted) : ofPgnMoves K (ofBoard b0) g.movesText = .ok g :=
  C15_roundtrip_exact K b0 hv hw g hg hpp (by intro c; rw [hs]; exact GStatus.noConfusion)

/-- a draw offer is pending: the import is the game as it was before the offer — ongoing, and making the same offer
in it gives the exported game back -/
theorem C15_roundtrip_pending (b0 : Board) (hv : b0.Valid K) (hw : b0.stm = .white) (g : Game)
    (hg : PlayedFrom K (ofBoard b0) g) (hpp : ∀ m ∈ g.history.moves, m.promotesToPawn = false)
    (c : Color) (hs : g.status = .drawOffered c) :
    ∃ g', ofPgnMoves K (ofBoard b0) g.movesText = .ok g' ∧ g'.status = .ongoing ∧ g'.act K (.offerDraw c) = .ok g := by
  obtain ⟨g', h0, h1, h2, h3, h4, h5⟩ := C15_roundtrip K b0 hv hw g hg hpp
  have hs' : g'.status = .ongoing := by rw [h5, hs]; rfl
  have ht : C12.TagOK g := C12.result_tag K g (hg.reach K).toC12
  have ht' : C12.TagOK g' := by unfold C12.TagOK; rw [h4, hs', ht, hs]; rfl
  refine ⟨g', h0, hs', ?_⟩
  rw [act_offer_eq K g' c hs']
  apply congrArg
  apply Game.ext'
  · simpa using h1
  · simpa using h2
  · simpa using h3
  · simp [hs]
  · rw [updateStatus_result _ _ ht', ht, hs]; simp

/-! ## the standard initial position -/

/-- the standard initial position as builder input -/
def stdBuilder : Builder :=
  { pieces := startBoard, stm := .white, rights := fun _ => .both, ep := none, half := 0, full := 1 }

theorem stdBuilder_valid : Spec.ValidPos stdBuilder.toPos = true := by decide +kernel

/-- the standard initial position is constructible (for every key table), valid, White to move -/
theorem stdBoard_exists : ∃ b0, Board.ofBuilder K stdBuilder = .ok b0 := C09_complete K _ stdBuilder_valid

theorem stdBoard_facts (b0 : Board) (h0 : Board.ofBuilder K stdBuilder = .ok b0) :
    b0.Valid K ∧ b0.stm = .white ∧ b0.absPos = stdBuilder.toPos := by
  obtain ⟨hv, habs⟩ := C09_sound K _ b0 h0
  exact ⟨hv, congrArg Spec.Pos.stm habs, habs⟩

/-- **C15 for the standard initial position**: every game played from it round-trips through PGN export/import -/
theorem C15_standard (b0 : Board) (h0 : Board.ofBuilder K stdBuilder = .ok b0) (g : Game)
    (hg : PlayedFrom K (ofBoard b0) g) (hpp : ∀ m ∈ g.history.moves, m.promotesToPawn = false) :
    ∃ g', ofPgnMoves K (ofBoard b0) g.movesText = .ok g' ∧ Agrees g' g :=
  C15_roundtrip K b0 (stdBoard_facts K b0 h0).1 (stdBoard_facts K b0 h0).2.1 g hg hpp

/-! ### non-vacuity -/

/-- the game with no moves yet: export `" ?"`-terminated empty move text, import gives the game back -/
example (b0 : Board) (h0 : Board.ofBuilder K stdBuilder = .ok b0) :
    ofPgnMoves K (ofBoard b0) (ofBoard b0).movesText = .ok (ofBoard b0) :=
  C15_roundtrip_exact K b0 (stdBoard_facts K b0 h0).1 (stdBoard_facts K b0 h0).2.1 _ .init
    (by simp [History.fromPosition]) (fun c e => boardStatus_not_offered (ofBoard_boardStatus b0) ⟨c, e⟩)

/-- the standard initial game is ongoing -/
theorem stdGame_ongoing (b0 : Board) (h0 : Board.ofBuilder K stdBuilder = .ok b0) : (ofBoard b0).status = .ongoing := by
  obtain ⟨hv, _, habs⟩ := stdBoard_facts K b0 h0
  have hleg : Spec.legal b0.absPos (.piece .pawn 12 28 none) = true := by rw [habs]; decide +kernel
  have hterm : b0.term = false := by
    cases h : b0.term with
    | false => rfl
    | true => have := hv.term_iff.1 h (.piece .pawn 12 28 none); rw [hleg] at this; cases this
  obtain ⟨hkw, hkb⟩ := validPos_kings hv.pos
  have hdraw : b0.isTheoreticalDraw = false := by
    rw [isTheoreticalDraw_spec hv.cons hkw hkb]
    show (Spec.cannotMate b0.absPos.board .white && Spec.cannotMate b0.absPos.board .black) = false
    rw [habs]; decide +kernel
  have hhalf : b0.half = 0 := congrArg Spec.Pos.half habs
  rw [C12.initial_status]
  unfold Board.getStatus
  simp [hterm, hdraw, hhalf]

/-- 1. e4 from the standard initial position is a played game satisfying every hypothesis of the theorem -/
example (b0 : Board) (h0 : Board.ofBuilder K stdBuilder = .ok b0) :
    ∃ g, PlayedFrom K (ofBoard b0) g ∧ g.history.moves = [.piece .pawn 12 28 none] ∧
      (∀ m ∈ g.history.moves, m.promotesToPawn = false) ∧
      ∃ g', ofPgnMoves K (ofBoard b0) g.movesText = .ok g' ∧ Agrees g' g := by
  obtain ⟨hv, hw, habs⟩ := stdBoard_facts K b0 h0
  have hleg : Spec.legal b0.absPos (.piece .pawn 12 28 none) = true := by rw [habs]; decide +kernel
  have hil : b0.isLegalMove K (.piece .pawn 12 28 none) = true :=
    (hv.isLegalMove_iff _ (by intro _ _ _ e; cases e)).2 ((hv.mem_getLegalMoves_iff _).2 hleg)
  have hs := stdGame_ongoing K b0 h0
  obtain ⟨g, hg⟩ := (C12.ongoing_move K (ofBoard b0) _ hs).2 (by simpa using hil)
  have hm : g.history.moves = [.piece .pawn 12 28 none] := by
    rw [(C12.move_result K _ g _ hs hg).2.2.1]; simp [History.fromPosition]
  have hpp : ∀ m ∈ g.history.moves, m.promotesToPawn = false := by
    rw [hm]; intro m h; simp only [List.mem_singleton] at h; subst h; rfl
  exact ⟨g, .step _ .init hg, hm, hpp, C15_standard K b0 h0 g (.step _ .init hg) hpp⟩

end Chess
