import Chess.Props.C16_pawn
import Chess.Props.C16_knight
import Chess.Props.C16_bishop
import Chess.Props.C16_rook
import Chess.Props.C16_queen
import Chess.Props.C16_king
/-! # C16 — coordinate move text round-trips for every representable move

The move universe is a finite type (6 × 64 × 64 × 6 + 2 values; a promotion to pawn is not representable:
`PieceMove::new` rejects it).  Each (piece type, promotion) slice of 4096 values is evaluated completely by the
kernel in `C16_<piece>.lean`; this file assembles the statement for the whole type. -/
namespace Chess.C16
open Chess

theorem roundtrip (m : Move) (hw : ∀ pt s d, m ≠ .piece pt s d (some .pawn)) : parseMove (printMove m) = .ok m :=
  match m, hw with
  | .castle .king, _ => by decide
  | .castle .queen, _ => by decide
  | .piece pt src dst (some .pawn), hw => absurd rfl (hw pt src dst)
  | .piece .pawn src dst (none), _ => rt_pawn_0 src dst
  | .piece .pawn src dst (some .knight), _ => rt_pawn_1 src dst
  | .piece .pawn src dst (some .bishop), _ => rt_pawn_2 src dst
  | .piece .pawn src dst (some .rook), _ => rt_pawn_3 src dst
  | .piece .pawn src dst (some .queen), _ => rt_pawn_4 src dst
  | .piece .pawn src dst (some .king), _ => rt_pawn_5 src dst
  | .piece .knight src dst (none), _ => rt_knight_0 src dst
  | .piece .knight src dst (some .knight), _ => rt_knight_1 src dst
  | .piece .knight src dst (some .bishop), _ => rt_knight_2 src dst
  | .piece .knight src dst (some .rook), _ => rt_knight_3 src dst
  | .piece .knight src dst (some .queen), _ => rt_knight_4 src dst
  | .piece .knight src dst (some .king), _ => rt_knight_5 src dst
  | .piece .bishop src dst (none), _ => rt_bishop_0 src dst
  | .piece .bishop src dst (some .knight), _ => rt_bishop_1 src dst
  | .piece .bishop src dst (some .bishop), _ => rt_bishop_2 src dst
  | .piece .bishop src dst (some .rook), _ => rt_bishop_3 src dst
  | .piece .bishop src dst (some .queen), _ => rt_bishop_4 src dst
  | .piece .bishop src dst (some .king), _ => rt_bishop_5 src dst
  | .piece .rook src dst (none), _ => rt_rook_0 src dst
  | .piece .rook src dst (some .knight), _ => rt_rook_1 src dst
  | .piece .rook src dst (some .bishop), _ => rt_rook_2 src dst
  | .piece .rook src dst (some .rook), _ => rt_rook_3 src dst
  | .piece .rook src dst (some .queen), _ => rt_rook_4 src dst
  | .piece .rook src dst (some .king), _ => rt_rook_5 src dst
  | .piece .queen src dst (none), _ => rt_queen_0 src dst
  | .piece .queen src dst (some .knight), _ => rt_queen_1 src dst
  | .piece .queen src dst (some .bishop), _ => rt_queen_2 src dst
  | .piece .queen src dst (some .rook), _ => rt_queen_3 src dst
  | .piece .queen src dst (some .queen), _ => rt_queen_4 src dst
  | .piece .queen src dst (some .king), _ => rt_queen_5 src dst
  | .piece .king src dst (none), _ => rt_king_0 src dst
  | .piece .king src dst (some .knight), _ => rt_king_1 src dst
  | .piece .king src dst (some .bishop), _ => rt_king_2 src dst
  | .piece .king src dst (some .rook), _ => rt_king_3 src dst
  | .piece .king src dst (some .queen), _ => rt_king_4 src dst
  | .piece .king src dst (some .king), _ => rt_king_5 src dst

/-- the printer is injective on representable moves (distinct moves have distinct texts) -/
theorem print_injective (m₁ m₂ : Move) (h₁ : ∀ pt s d, m₁ ≠ .piece pt s d (some .pawn))
    (h₂ : ∀ pt s d, m₂ ≠ .piece pt s d (some .pawn)) (h : printMove m₁ = printMove m₂) : m₁ = m₂ := by
  have e1 := roundtrip m₁ h₁
  have e2 := roundtrip m₂ h₂
  rw [h, e2] at e1
  exact (Except.ok.inj e1).symm

example : parseMove "e7e8=Q".toList = .ok (.piece .pawn 52 60 (some .queen)) := by decide

end Chess.C16
