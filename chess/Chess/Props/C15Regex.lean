import Chess.Lemmas.PgnRegex
import Chess.Props.C15
/-! # C15 — the `regex` tokenizers of `Game::from_pgn` on exported text (shrinking the assumption `ScanOK`)

`Chess/Model/PgnRegex.lean` implements the three regex uses of `from_pgn` for their fixed patterns, as an explicit
backtracking (leftmost-first) matcher: `splitSections` / `regexMovesSection` for `(\r?\n){2,}`, `matchMoveAt` / `findMoves`
for the move pattern, `findResults` / `findResult` for `(1-0)|(0-1)|(1/2-1/2)`, and `Game.ofPgnRegex` = `from_pgn` with
them.  This file proves that on exports they do what the hand-written scanner of the model (`scanMoves`, `scanResult`)
does, so that `C15_roundtrip` holds for the regex importer applied to the *whole* export:

* `pieceAlt_shape` — for every SAN shape `letter? (file|rank|file rank)? x? file rank` the first successful path of
  `[nNbBrRqQkK]*[a-h]*[1-8]*x*[a-h][1-8]` in backtracking order consumes the whole shape (`b` being both a piece letter
  of the pattern and a file is covered); `moveRe_sanText`, `findMoves_sanText` — a SAN text is matched entirely from its
  first character, provided it does not promote to a pawn or a king (`Move.sanPromoOK`; `e8=K` is cut to `e8`);
* `moveRe_digits_dot`, `findMoves_resultTag` — move numbers `N.`, `...` and result words hold no move token;
* 1. `findMoves_movesText_gen` (either side first), `findMoves_movesText`, `findMoves_eq_scanMoves`,
     `findMoves_movesText_played` (played games: no hypothesis on promotions to a king);
* 3. `findResult_movesText_gen`, `findResult_movesText`;
* 2. `splitSections_asPgn`, `regexMovesSection_asPgn` — holds for every game with a consistent tag, zero moves included;
* 4. `ofPgnRegex_export`, `C15_roundtrip_regex` (MAIN), `C15_roundtrip_regex_exact`, `C15_standard_regex`.

What remains assumed of the `regex` crate is only that it implements leftmost-first semantics for these three patterns
(the model matcher was compared with a Perl-style engine on 6000 random and export-like inputs: identical tokens). -/
namespace Chess
open Chess.Game Chess.C13 Chess.PgnRegex Board

/-! ## character classes of the SAN alphabet -/

/-- `N B R Q K` as seen by the move pattern -/
def IsLetterCh (l : Char) : Prop := clsPiece l = true ∧ clsFile l = false ∧ clsRank l = false ∧ clsX l = false
/-- a file letter (`b` is also in the piece class of the pattern) -/
def IsFileCh (f : Char) : Prop := clsFile f = true ∧ clsRank f = false ∧ clsX f = false
def IsRankCh (r : Char) : Prop := clsRank r = true ∧ clsPiece r = false ∧ clsFile r = false ∧ clsX r = false
/-- the text after the destination square: nothing, or a character outside the four classes -/
def StopA (t : Str) : Prop :=
  t = [] ∨ ∃ c t', t = c :: t' ∧ clsPiece c = false ∧ clsFile c = false ∧ clsRank c = false ∧ clsX c = false

theorem fileChar_cls : ∀ f : Fin 8, IsFileCh (fileChar f.val) := by unfold IsFileCh; decide
theorem rankChar_cls : ∀ r : Fin 8, IsRankCh (rankChar r.val) := by unfold IsRankCh; decide
theorem x_cls : clsPiece 'x' = false ∧ clsFile 'x' = false ∧ clsRank 'x' = false ∧ clsX 'x' = true := by decide

theorem sanL_cls (pt : PT) : sanL pt = [] ∨ ∃ l, IsLetterCh l ∧ sanL pt = [l] := by
  cases pt
  · exact Or.inl rfl
  all_goals exact Or.inr ⟨_, by unfold IsLetterCh; decide, rfl⟩

theorem sanD_cls (a : Amb) (s : Sq) :
    sanD a s = [] ∨ (∃ f, IsFileCh f ∧ sanD a s = [f]) ∨ (∃ r, IsRankCh r ∧ sanD a s = [r]) ∨
      ∃ f r, IsFileCh f ∧ IsRankCh r ∧ sanD a s = [f, r] := by
  have hf := fileChar_cls ⟨s.fl, s.fl_lt⟩
  have hr := rankChar_cls ⟨s.rk, s.rk_lt⟩
  cases a
  · exact Or.inr (Or.inl ⟨_, hf, rfl⟩)
  · exact Or.inr (Or.inr (Or.inl ⟨_, hr, rfl⟩))
  · exact Or.inr (Or.inr (Or.inr ⟨_, _, hf, hr, rfl⟩))
  · exact Or.inl rfl

/-- **the greedy groups never over-consume**: on `letter? disamb x? file rank` followed by a character outside the classes,
the first successful path of `[nNbBrRqQkK]*[a-h]*[1-8]*x*[a-h][1-8]` in backtracking order consumes all of it -/
theorem pieceAlt_shape (k : Cont) (v L D X : Str) (f r : Char) (t : Str)
    (hL : L = [] ∨ ∃ l, IsLetterCh l ∧ L = [l])
    (hD : D = [] ∨ (∃ f', IsFileCh f' ∧ D = [f']) ∨ (∃ r', IsRankCh r' ∧ D = [r']) ∨
      ∃ f' r', IsFileCh f' ∧ IsRankCh r' ∧ D = [f', r'])
    (hX : X = [] ∨ X = ['x']) (hf : IsFileCh f) (hr : IsRankCh r) (ht : StopA t) (hk : k t = some v) :
    pieceAlt k (L ++ D ++ X ++ f :: r :: t) = some v := by
  obtain ⟨f1, f2, f3⟩ := hf
  obtain ⟨r1, r2, r3, r4⟩ := hr
  have ⟨x1, x2, x3, x4⟩ := x_cls
  rcases hL with rfl | ⟨l, ⟨l1, l2, l3, l4⟩, rfl⟩ <;>
  rcases hD with rfl | ⟨f', ⟨g1, g2, g3⟩, rfl⟩ | ⟨r', ⟨s1, s2, s3, s4⟩, rfl⟩ | ⟨f', r', ⟨g1, g2, g3⟩, ⟨s1, s2, s3, s4⟩, rfl⟩ <;>
  rcases hX with rfl | rfl <;>
  rcases ht with rfl | ⟨c, t', rfl, c1, c2, c3, c4⟩ <;>
  cases hb : clsPiece f <;> (try cases hb' : clsPiece f') <;>
  simp [pieceAlt, star, one, *]

/-! ## a SAN word is matched entirely, from its first character -/

/-- the promotion piece is one the move pattern knows (`=[nNbBrRqQ]`): not a pawn (never constructible) and not a king
(never generated) -/
def Move.sanPromoOK : Move → Bool
  | .piece _ _ _ (some .pawn) => false
  | .piece _ _ _ (some .king) => false
  | _ => true

theorem suffix_promo_chk (promo : Option PT) (hp : promo ≠ some .pawn) (hk : promo ≠ some .king) (p : MoveProps) :
    suffixRe some (sanP promo ++ sanC p) = some [] ∧ StopA (sanP promo ++ sanC p) := by
  rcases sanChk_cases p.isMate p.isCheck with h | h | h <;> rw [sanC, h] <;>
  rcases promo with _ | (_ | _ | _ | _ | _ | _) <;>
  first
    | exact absurd rfl hp
    | exact absurd rfl hk
    | exact ⟨by decide, Or.inl rfl⟩
    | exact ⟨by decide, Or.inr ⟨_, _, rfl, by decide⟩⟩

/-- the move pattern, started at the first character of the SAN text of a piece move, matches all of it -/
theorem moveRe_piece (pt : PT) (src dst : Sq) (promo : Option PT) (p : MoveProps)
    (hp : promo ≠ some .pawn) (hk : promo ≠ some .king) :
    moveRe some (sanText (.piece pt src dst promo) p) = some [] := by
  obtain ⟨hs, hstop⟩ := suffix_promo_chk promo hp hk p
  have h := pieceAlt_shape (suffixRe some) [] (sanL pt) (sanD p.amb src) (sanX p.isCapture)
    (fileChar dst.fl) (rankChar dst.rk) (sanP promo ++ sanC p) (sanL_cls pt) (sanD_cls _ _)
    (by cases p.isCapture <;> simp [sanX]) (fileChar_cls ⟨dst.fl, dst.fl_lt⟩) (rankChar_cls ⟨dst.rk, dst.rk_lt⟩) hstop hs
  rw [sanText_piece]
  unfold moveRe alt
  simp only [printSquare, List.append_assoc, List.cons_append, List.nil_append] at h ⊢
  rw [h]

theorem moveRe_castle (s : Side) (p : MoveProps) : moveRe some (sanText (.castle s) p) = some [] := by
  rw [sanText_castle]
  rcases sanChk_cases p.isMate p.isCheck with h | h | h <;> rw [sanC, h] <;> cases s <;> rfl

theorem moveRe_sanText (m : Move) (p : MoveProps) (hm : m.sanPromoOK = true) : moveRe some (sanText m p) = some [] := by
  cases m with
  | castle s => exact moveRe_castle s p
  | piece pt src dst promo =>
    refine moveRe_piece pt src dst promo p ?_ ?_ <;> rintro rfl <;> cases hm

/-- **a SAN word is one token** -/
theorem findMoves_sanText (m : Move) (p : MoveProps) (hm : m.sanPromoOK = true) : findMoves (sanText m p) = [sanText m p] :=
  findAll_whole moveRe _ (sanText_sanWord m p).ne_nil (moveRe_sanText m p hm)

example : findMoves "Ng4f6+".toList = ["Ng4f6+".toList] := by decide +kernel
example : findMoves "exd8=Q#".toList = ["exd8=Q#".toList] := by decide +kernel
example : findMoves "O-O-O+".toList = ["O-O-O+".toList] := by decide +kernel
example : findMoves "18.b8=N".toList = ["b8=N".toList] := by decide +kernel
/-- a promotion to a king would be cut by the pattern: the hypothesis `sanPromoOK` is needed -/
example : findMoves "e8=K".toList = ["e8".toList] := by decide +kernel

/-! ## move numbers, dots and result words contain no move token -/

theorem beq_false_of_toNat_ne {a b : Char} (h : a.toNat ≠ b.toNat) : (a == b) = false := by
  rw [beq_eq_false_iff_ne]; rintro rfl; exact h rfl

theorem digit_range (d : Char) (h : d.isDigit = true) : 48 ≤ d.toNat ∧ d.toNat ≤ 57 := by
  simp only [Char.isDigit, Bool.and_eq_true, decide_eq_true_eq] at h
  have h1 : (48 : UInt32).toNat ≤ d.val.toNat := UInt32.le_iff_toNat_le.1 h.1
  have h2 : d.val.toNat ≤ (57 : UInt32).toNat := UInt32.le_iff_toNat_le.1 h.2
  exact ⟨h1, h2⟩

/-- a digit or a dot is outside the piece, file and capture classes, and is no `O` -/
theorem digit_cls (d : Char) (h : d.isDigit = true ∨ d = '.') :
    clsPiece d = false ∧ clsFile d = false ∧ clsX d = false ∧ (d == 'O') = false := by
  have hr : d.toNat ≤ 57 := by
    rcases h with h | rfl
    · exact (digit_range d h).2
    · decide
  refine ⟨?_, ?_, ?_, ?_⟩
  · simp only [clsPiece, Bool.or_eq_false_iff]
    refine ⟨⟨⟨⟨⟨⟨⟨⟨⟨?_, ?_⟩, ?_⟩, ?_⟩, ?_⟩, ?_⟩, ?_⟩, ?_⟩, ?_⟩, ?_⟩ <;>
      exact beq_false_of_toNat_ne (fun e => by rw [e] at hr; revert hr; decide)
  · simp only [clsFile, Bool.and_eq_false_iff, decide_eq_false_iff_not]
    left; show ¬ (97 ≤ d.toNat); omega
  · exact beq_false_of_toNat_ne (fun e => by rw [e] at hr; revert hr; decide)
  · exact beq_false_of_toNat_ne (fun e => by rw [e] at hr; revert hr; decide)

/-- `[1-8]*x*[a-h][1-8]` fails on digits followed by a dot -/
theorem rank_digits_dot (k : Cont) (ds t : Str) (hd : ∀ c ∈ ds, c.isDigit = true) :
    star clsRank (star clsX (one clsFile (one clsRank k))) (ds ++ '.' :: t) = none := by
  have tail : ∀ (d : Char) (rest : Str), (d.isDigit = true ∨ d = '.') →
      star clsX (one clsFile (one clsRank k)) (d :: rest) = none := by
    intro d rest h
    obtain ⟨_, h2, h3, _⟩ := digit_cls d h
    rw [star, if_neg (by simp [h3]), one, if_neg (by simp [h2])]
  induction ds with
  | nil =>
    rw [List.nil_append, star, if_neg (by decide)]
    exact tail _ _ (Or.inr rfl)
  | cons d ds ih =>
    have hdd := hd d (by simp)
    rw [List.cons_append, star, ih (fun c hc => hd c (by simp [hc]))]
    rw [tail d _ (Or.inl hdd)]
    split <;> rfl

/-- no move token starts inside a move number `N.` -/
theorem moveRe_digits_dot (ds t : Str) (hd : ∀ c ∈ ds, c.isDigit = true) : moveRe some (ds ++ '.' :: t) = none := by
  have key : ∀ (d : Char) (rest : Str), (d.isDigit = true ∨ d = '.') →
      star clsRank (star clsX (one clsFile (one clsRank (suffixRe some)))) (d :: rest) = none →
      moveRe some (d :: rest) = none := by
    intro d rest h hr
    obtain ⟨h1, h2, _, h4⟩ := digit_cls d h
    unfold moveRe alt pieceAlt castleAlt
    rw [star, if_neg (by simp [h1]), star, if_neg (by simp [h2]), hr]
    simp only [lit, one, h4]
    simp
  cases ds with
  | nil => exact key _ _ (Or.inr rfl) (rank_digits_dot _ [] t (by simp))
  | cons d ds => exact key _ _ (Or.inl (hd d (by simp))) (rank_digits_dot _ (d :: ds) t hd)

theorem findMoves_digits_dot (ds t : Str) (hd : ∀ c ∈ ds, c.isDigit = true) : findMoves (ds ++ '.' :: t) = findMoves t := by
  unfold findMoves
  induction ds with
  | nil => exact findAll_cons_none _ _ _ (matchAt_none (moveRe_digits_dot [] t (by simp)))
  | cons d ds ih =>
    have h := findAll_cons_none moveRe d (ds ++ '.' :: t) (matchAt_none (moveRe_digits_dot (d :: ds) t hd))
    rw [List.cons_append, h]
    exact ih (fun c hc => hd c (by simp [hc]))

/-- a numbered SAN word `N.san` holds exactly the token `san` -/
theorem findMoves_numbered_word (n : Nat) (m : Move) (p : MoveProps) (hm : m.sanPromoOK = true) :
    findMoves (natStr n ++ '.' :: sanText m p) = [sanText m p] := by
  rw [findMoves_digits_dot _ _ (fun c hc => natStr_isDigit n c hc), findMoves_sanText m p hm]

theorem findMoves_append_space (a b : Str) : findMoves (a ++ ' ' :: b) = findMoves a ++ findMoves b :=
  findAll_append_sep (fun r => moveRe_local inert_space r) rfl a b
theorem findMoves_append_nl (a b : Str) : findMoves (a ++ '\n' :: b) = findMoves a ++ findMoves b :=
  findAll_append_sep (fun r => moveRe_local inert_nl r) rfl a b

theorem findMoves_resultTag (s : GStatus) : findMoves (resultTagOf s) = [] := by
  have := C12.tag_values s
  simp only [List.mem_cons, List.not_mem_nil, or_false] at this
  rcases this with h | h | h | h <;> rw [h] <;> decide +kernel

/-! ## 1. the move tokens of an exported moves section -/

/-- what the tokenizer needs of a SAN word: alone or behind a move number it is exactly one token -/
def MoveTok (s : Str) : Prop := findMoves s = [s] ∧ ∀ n, findMoves (natStr n ++ '.' :: s) = [s]

theorem sanText_moveTok (m : Move) (p : MoveProps) (hm : m.sanPromoOK = true) : MoveTok (sanText m p) :=
  ⟨findMoves_sanText m p hm, fun n => findMoves_numbered_word n m p hm⟩

theorem zipWith_moveTok (ms : List Move) (ps : List MoveProps) (hm : ∀ m ∈ ms, m.sanPromoOK = true) :
    ∀ s ∈ List.zipWith sanText ms ps, MoveTok s := by
  induction ms generalizing ps with
  | nil => intro s hs; simp at hs
  | cons m ms ih =>
    cases ps with
    | nil => intro s hs; simp at hs
    | cons p ps =>
      intro s hs
      rw [List.zipWith_cons_cons, List.mem_cons] at hs
      rcases hs with rfl | hs
      · exact sanText_moveTok m p (hm m (by simp))
      · exact ih ps (fun x hx => hm x (by simp [hx])) s hs

theorem numbered_flatMap_findMoves (ply : Nat) (sans : List Str) (hs : ∀ s ∈ sans, MoveTok s) :
    (numbered ply sans).flatMap findMoves = sans := by
  induction sans generalizing ply with
  | nil => rfl
  | cons s rest ih =>
    have h1 := hs s (by simp)
    rw [numbered, List.flatMap_cons, ih (ply + 1) (fun y hy => hs y (by simp [hy]))]
    split
    · rw [h1.2]; rfl
    · rw [h1.1]; rfl

theorem expectedTokens_flatMap_findMoves (bs : Bool) (sans : List Str) (hs : ∀ s ∈ sans, MoveTok s) :
    (expectedTokens bs sans).flatMap findMoves = sans := by
  unfold expectedTokens
  cases bs with
  | false => exact numbered_flatMap_findMoves 0 sans hs
  | true =>
    cases sans with
    | nil => rfl
    | cons w rest =>
      simp only [if_true, List.flatMap_cons]
      rw [numbered_flatMap_findMoves 2 rest (fun y hy => hs y (by simp [hy])), (hs w (by simp)).1]
      have e1 : findMoves "1.".toList = [] := by decide +kernel
      have e2 : findMoves "...".toList = [] := by decide +kernel
      rw [e1, e2]; rfl

/-- the moves section of any game (White or Black to move first), as wrapped tokens -/
theorem movesText_tokens (g : Game) :
    g.movesText = joinWith ['\n'] (wrapWords 85 (expectedTokens (blackStarts g.history)
      (List.zipWith sanText g.history.moves g.history.props))) ++ ' ' :: g.result := by
  unfold Game.movesText
  rw [C13_render_tokens', List.append_assoc]; rfl

/-- **1. the regex tokenizer on an export.**  On the moves section of the export of a game whose result tag is consistent
(`TagOK`) and whose recorded moves promote, if at all, to N/B/R/Q (`sanPromoOK`; automatic for played games, see
`playMoves_sanPromoOK`), all non-overlapping leftmost-first matches of the move pattern are exactly the SAN texts of the
recorded moves, in order.  No hypothesis on who moves first: the `1.` `...` opening of a Black-first game holds no token. -/
theorem findMoves_movesText_gen (g : Game) (ht : C12.TagOK g) (hm : ∀ m ∈ g.history.moves, m.sanPromoOK = true) :
    findMoves g.movesText = List.zipWith sanText g.history.moves g.history.props := by
  rw [movesText_tokens, findMoves_append_space, ht, findMoves_resultTag, List.append_nil,
    additive_wrap findMoves rfl findMoves_append_space findMoves_append_nl,
    expectedTokens_flatMap_findMoves _ _ (zipWith_moveTok _ _ hm)]

/-- in the form asked for (White moves first) -/
theorem findMoves_movesText (g : Game) (hb : blackStarts g.history = false) (ht : C12.TagOK g)
    (hm : ∀ m ∈ g.history.moves, m.sanPromoOK = true) :
    findMoves g.movesText = List.zipWith sanText g.history.moves g.history.props :=
  let _ := hb
  findMoves_movesText_gen g ht hm

/-- the regex tokenizer and the model scanner agree on exports -/
theorem findMoves_eq_scanMoves (g : Game) (hb : blackStarts g.history = false) (ht : C12.TagOK g)
    (hm : ∀ m ∈ g.history.moves, m.sanPromoOK = true) : findMoves g.movesText = scanMoves g.movesText := by
  rw [findMoves_movesText_gen g ht hm, scanMoves_movesText g hb ht]

/-! ## 3. the result token -/

/-- a literal cannot match a text that lacks one of its characters -/
theorem lit_none_of_not_mem (pat : Str) (k : Cont) (a : Char) (ha : a ∈ pat) (s : Str) (hs : a ∉ s) : lit pat k s = none := by
  induction pat generalizing s with
  | nil => cases ha
  | cons b pat ih =>
    rw [lit]
    cases s with
    | nil => rfl
    | cons c s =>
      rw [one]
      by_cases hc : (c == b) = true
      · rw [if_pos hc]
        have hcb : c = b := by simpa using hc
        have hab : a ≠ b := fun e => hs (by simp [e, hcb])
        rcases List.mem_cons.1 ha with h | h
        · exact absurd h hab
        · exact ih h s (fun h' => hs (by simp [h']))
      · rw [if_neg hc]

/-- every alternative of the result pattern contains a `-` -/
theorem resultRe_no_dash (s : Str) (hs : '-' ∉ s) : resultRe some s = none := by
  unfold resultRe alt
  rw [lit_none_of_not_mem _ _ '-' (by decide) s hs, lit_none_of_not_mem _ _ '-' (by decide) s hs,
    lit_none_of_not_mem _ _ '-' (by decide) s hs]

theorem findResults_no_dash (s : Str) (hs : '-' ∉ s) : findResults s = [] := by
  unfold findResults
  induction s with
  | nil => rfl
  | cons c cs ih =>
    rw [findAll_cons_none _ _ _ (matchAt_none (resultRe_no_dash _ hs))]
    exact ih (fun h => hs (by simp [h]))

/-- the second character of every alternative is `-` or `/` -/
theorem resultRe_second (a b : Char) (t : Str) (h1 : b ≠ '-') (h2 : b ≠ '/') : resultRe some (a :: b :: t) = none := by
  simp [resultRe, alt, lit, one, h1, h2]

theorem resultRe_dot (t : Str) : resultRe some ('.' :: t) = none := by
  simp [resultRe, alt, lit, one]

theorem findResults_digits_dot (ds t : Str) (hd : ∀ c ∈ ds, c.isDigit = true) :
    findResults (ds ++ '.' :: t) = findResults t := by
  unfold findResults
  induction ds with
  | nil => exact findAll_cons_none _ _ _ (matchAt_none (resultRe_dot t))
  | cons d ds ih =>
    have hnone : resultRe some (d :: (ds ++ '.' :: t)) = none := by
      cases ds with
      | nil => exact resultRe_second _ _ _ (by decide) (by decide)
      | cons e ds =>
        have he : e.isDigit = true := hd e (by simp)
        exact resultRe_second _ _ _ (by rintro rfl; revert he; decide) (by rintro rfl; revert he; decide)
    have h := findAll_cons_none resultRe d (ds ++ '.' :: t) (matchAt_none hnone)
    rw [List.cons_append, h]
    exact ih (fun c hc => hd c (by simp [hc]))

theorem sanPiece_no_dash (pt : PT) (src dst : Sq) (promo : Option PT) (p : MoveProps) :
    '-' ∉ sanText (.piece pt src dst promo) p := by
  have hfs := (fc src).2.2.2.2.2.2.2; have hrs := (rc src).2.2.2.2.2.2.2
  have hfd := (fc dst).2.2.2.2.2.2.2; have hrd := (rc dst).2.2.2.2.2.2.2
  have hl : ∀ t : PT, t.letter ≠ '-' := fun t => (letter_facts t).2.2.2.2.2.2.2
  rw [sanText_piece]
  simp only [List.mem_append, not_or]
  refine ⟨⟨⟨⟨⟨?_, ?_⟩, ?_⟩, ?_⟩, ?_⟩, ?_⟩
  · cases pt <;> simp [sanL] <;> exact (hl _).symm
  · cases p.amb <;> simp [sanD, printSquare] <;> first | exact hfs.symm | exact hrs.symm | exact ⟨hfs.symm, hrs.symm⟩
  · cases p.isCapture <;> simp [sanX]
  · simp [printSquare]; exact ⟨hfd.symm, hrd.symm⟩
  · cases promo <;> simp [sanP]; exact (hl _).symm
  · rcases sanChk_cases p.isMate p.isCheck with h | h | h <;> rw [sanC, h] <;> simp

/-- a SAN word holds no result token (`O-O` has a `-`, but between two `O`) -/
theorem findResults_sanText (m : Move) (p : MoveProps) : findResults (sanText m p) = [] := by
  cases m with
  | piece pt src dst promo => exact findResults_no_dash _ (sanPiece_no_dash pt src dst promo p)
  | castle s =>
    rw [sanText_castle]
    rcases sanChk_cases p.isMate p.isCheck with h | h | h <;> rw [sanC, h] <;> cases s <;> decide +kernel

def NoResTok (s : Str) : Prop := findResults s = [] ∧ ∀ n, findResults (natStr n ++ '.' :: s) = []

theorem zipWith_noResTok (ms : List Move) (ps : List MoveProps) : ∀ s ∈ List.zipWith sanText ms ps, NoResTok s := by
  induction ms generalizing ps with
  | nil => intro s hs; simp at hs
  | cons m ms ih =>
    cases ps with
    | nil => intro s hs; simp at hs
    | cons p ps =>
      intro s hs
      rw [List.zipWith_cons_cons, List.mem_cons] at hs
      rcases hs with rfl | hs
      · exact ⟨findResults_sanText m p, fun n => by
          rw [findResults_digits_dot _ _ (fun c hc => natStr_isDigit n c hc), findResults_sanText]⟩
      · exact ih ps s hs

theorem numbered_flatMap_findResults (ply : Nat) (sans : List Str) (hs : ∀ s ∈ sans, NoResTok s) :
    (numbered ply sans).flatMap findResults = [] := by
  induction sans generalizing ply with
  | nil => rfl
  | cons s rest ih =>
    have h1 := hs s (by simp)
    rw [numbered, List.flatMap_cons, ih (ply + 1) (fun y hy => hs y (by simp [hy]))]
    split
    · rw [h1.2]; rfl
    · rw [h1.1]; rfl

theorem expectedTokens_flatMap_findResults (bs : Bool) (sans : List Str) (hs : ∀ s ∈ sans, NoResTok s) :
    (expectedTokens bs sans).flatMap findResults = [] := by
  unfold expectedTokens
  cases bs with
  | false => exact numbered_flatMap_findResults 0 sans hs
  | true =>
    cases sans with
    | nil => rfl
    | cons w rest =>
      simp only [if_true, List.flatMap_cons]
      rw [numbered_flatMap_findResults 2 rest (fun y hy => hs y (by simp [hy])), (hs w (by simp)).1]
      have e1 : findResults "1.".toList = [] := by decide +kernel
      have e2 : findResults "...".toList = [] := by decide +kernel
      rw [e1, e2]; rfl

theorem findResults_append_space (a b : Str) : findResults (a ++ ' ' :: b) = findResults a ++ findResults b :=
  findAll_append_sep (fun r => resultRe_local (by unfold InertResult; decide) r) rfl a b
theorem findResults_append_nl (a b : Str) : findResults (a ++ '\n' :: b) = findResults a ++ findResults b :=
  findAll_append_sep (fun r => resultRe_local (by unfold InertResult; decide) r) rfl a b

/-- the result tokens of an exported moves section: the final word when it is a result, nothing for `?` -/
theorem findResults_movesText (g : Game) : findResults g.movesText = findResults g.result := by
  rw [movesText_tokens, findResults_append_space,
    additive_wrap findResults rfl findResults_append_space findResults_append_nl,
    expectedTokens_flatMap_findResults _ _ (zipWith_noResTok _ _), List.nil_append]

theorem findResult_tag (s : GStatus) :
    findResult (resultTagOf s) =
      if resultTagOf s = "1-0".toList ∨ resultTagOf s = "0-1".toList ∨ resultTagOf s = "1/2-1/2".toList
      then some (resultTagOf s) else none := by
  have := C12.tag_values s
  simp only [List.mem_cons, List.not_mem_nil, or_false] at this
  rcases this with h | h | h | h <;> rw [h] <;> decide +kernel

/-- explicit value, for either side to move first -/
theorem findResult_movesText_gen (g : Game) (ht : C12.TagOK g) :
    findResult g.movesText =
      if g.result = "1-0".toList ∨ g.result = "0-1".toList ∨ g.result = "1/2-1/2".toList then some g.result else none := by
  unfold findResult
  rw [findResults_movesText g, ht]
  exact findResult_tag g.status

/-- **3. the result token**: the first match of `(1-0)|(0-1)|(1/2-1/2)` in an exported moves section is what the model
scanner finds -/
theorem findResult_movesText (g : Game) (hb : blackStarts g.history = false) (ht : C12.TagOK g) :
    findResult g.movesText = scanResult g.movesText := by
  rw [findResult_movesText_gen g ht, scanResult_movesText g hb ht]

/-! ## 2. the moves section of an export -/

/-- the section separator `(\r?\n){2,}` cannot start at a character that is no line-break character -/
theorem breaksRe_head (fuel : Nat) (c : Char) (t : Str) (h1 : c ≠ '\n') (h2 : c ≠ '\r') : breaksRe fuel some (c :: t) = none := by
  simp [breaksRe, lineBreakRe, opt, one, h1, h2]

/-- a single line break is no separator -/
theorem breaksRe_single (fuel : Nat) (c : Char) (t : Str) (h1 : c ≠ '\n') (h2 : c ≠ '\r') :
    breaksRe fuel some ('\n' :: c :: t) = none := by
  simp [breaksRe, lineBreakRe, opt, one, h1, h2]

theorem breaksRe_single_end (fuel : Nat) : breaksRe fuel some ['\n'] = none := by
  simp [breaksRe, lineBreakRe, opt, one]

/-- an empty line followed by text: the separator is exactly the two line breaks -/
theorem breaksRe_double (fuel : Nat) (c : Char) (t : Str) (h1 : c ≠ '\n') (h2 : c ≠ '\r') :
    breaksRe fuel some ('\n' :: '\n' :: c :: t) = some (c :: t) := by
  cases fuel with
  | zero => simp [breaksRe, lineBreakRe, opt, one, starM]
  | succ n => simp [breaksRe, lineBreakRe, opt, one, starM, h1, h2]

/-- no carriage return, no two consecutive line feeds, no line feed at the end -/
def calmEnd : Str → Bool
  | [] => true
  | [c] => c != '\r' && c != '\n'
  | c :: d :: t => c != '\r' && !(c == '\n' && d == '\n') && calmEnd (d :: t)

theorem calmEnd_head {c : Char} {t : Str} (h : calmEnd (c :: t) = true) : c ≠ '\r' := by
  cases t with
  | nil => simp [calmEnd] at h; exact h.1
  | cons d t => simp [calmEnd] at h; exact h.1.1

theorem calmEnd_tail {c : Char} {t : Str} (h : calmEnd (c :: t) = true) : calmEnd t = true := by
  cases t with
  | nil => rfl
  | cons d t => simp [calmEnd] at h; exact h.2

/-- no separator starts inside calm text, whatever follows it -/
theorem breaksRe_calm (fuel : Nat) (a : Char) (T R : Str) (h : calmEnd (a :: T) = true) :
    breaksRe fuel some ((a :: T) ++ R) = none := by
  have ha := calmEnd_head h
  cases T with
  | nil =>
    simp [calmEnd] at h
    exact breaksRe_head fuel a _ h.2 h.1
  | cons b T =>
    have hb := calmEnd_head (calmEnd_tail h)
    by_cases hn : a = '\n'
    · subst hn
      simp [calmEnd] at h
      exact breaksRe_single fuel b _ h.1 hb
    · exact breaksRe_head fuel a _ hn ha

theorem splitFrom_zero (fuel : Nat) (c : Char) (cs : Str) :
    splitFrom fuel 0 (c :: cs) =
      match matchAt (breaksRe fuel) (c :: cs) with
      | some (tok, _) => [] :: splitFrom fuel (tok.length - 1) cs
      | none =>
        match splitFrom fuel 0 cs with
        | p :: ps => (c :: p) :: ps
        | [] => [[c]] := rfl

/-- calm text stays in one piece -/
theorem splitFrom_calm (fuel : Nat) (T R p : Str) (ps : List Str) (h : calmEnd T = true)
    (hR : splitFrom fuel 0 R = p :: ps) : splitFrom fuel 0 (T ++ R) = (T ++ p) :: ps := by
  induction T with
  | nil => exact hR
  | cons a T ih =>
    rw [List.cons_append, splitFrom_zero]
    have hn := breaksRe_calm fuel a T R h
    rw [List.cons_append] at hn
    rw [matchAt_none hn, ih (calmEnd_tail h)]
    rfl

/-- tag lines, an empty line, calm moves text: the second section is the moves text -/
theorem splitFrom_tags_moves (fuel : Nat) (T M : Str) (hT : calmEnd T = true) (hM : calmEnd M = true)
    (hne : ∃ c M', M = c :: M' ∧ c ≠ '\n') :
    splitFrom fuel 0 (T ++ '\n' :: '\n' :: M) = [T, M] := by
  obtain ⟨c, M', rfl, hc⟩ := hne
  have hr := calmEnd_head hM
  have h1 : splitFrom fuel 0 (c :: M') = [c :: M'] := by
    have := splitFrom_calm fuel (c :: M') [] [] [] hM rfl
    simpa using this
  have h2 : splitFrom fuel 0 ('\n' :: '\n' :: c :: M') = [[], c :: M'] := by
    rw [splitFrom_zero]
    have hm : matchAt (breaksRe fuel) ('\n' :: '\n' :: c :: M') = some (['\n', '\n'], c :: M') := by
      unfold matchAt
      rw [breaksRe_double fuel c M' hc hr]
      simp
    rw [hm]
    show [] :: splitFrom fuel 1 ('\n' :: c :: M') = _
    show [] :: splitFrom fuel 0 (c :: M') = _
    rw [h1]
  have := splitFrom_calm fuel T _ _ _ hT h2
  simpa using this

/-! ### the export is calm -/

/-- no line-break character -/
def Plain (l : Str) : Prop := ∀ c ∈ l, c ≠ '\n' ∧ c ≠ '\r'

theorem calmEnd_plain (l : Str) (h : Plain l) : calmEnd l = true := by
  induction l with
  | nil => rfl
  | cons c l ih =>
    have hc := h c (by simp)
    have hl : Plain l := fun x hx => h x (by simp [hx])
    cases l with
    | nil => simp [calmEnd, hc]
    | cons d l => simp [calmEnd, hc, ih hl]

theorem calmEnd_append_nl (l x : Str) (hl : Plain l) (hne : l ≠ []) (hx : calmEnd x = true)
    (hh : ∃ c x', x = c :: x' ∧ c ≠ '\n') : calmEnd (l ++ '\n' :: x) = true := by
  obtain ⟨c, x', rfl, hc⟩ := hh
  induction l with
  | nil => exact absurd rfl hne
  | cons a l ih =>
    have ha := hl a (by simp)
    have hl' : Plain l := fun y hy => hl y (by simp [hy])
    cases l with
    | nil => simp [calmEnd, ha, hc, hx]
    | cons b l =>
      have := ih hl' (by simp)
      simp only [List.cons_append] at this ⊢
      simp [calmEnd, ha, this]

theorem Plain.append {a b : Str} (ha : Plain a) (hb : Plain b) : Plain (a ++ b) := by
  intro c hc
  rcases List.mem_append.1 hc with h | h
  · exact ha c h
  · exact hb c h

theorem wrap_go_lines (w : Nat) (ws : List Str) (hw : ∀ x ∈ ws, Plain x ∧ x ≠ []) (cur : Str) (hc : Plain cur) :
    ∀ l ∈ wrapWords.go w cur ws, Plain l ∧ l ≠ [] := by
  induction ws generalizing cur with
  | nil =>
    rw [wrapWords_go_nil]
    intro l hl
    by_cases he : cur.isEmpty = true
    · rw [if_pos he] at hl; cases hl
    · rw [if_neg he] at hl
      simp only [List.mem_singleton] at hl
      subst hl
      exact ⟨hc, by simpa using he⟩
  | cons x xs ih =>
    have hx := hw x (by simp)
    have hxs : ∀ y ∈ xs, Plain y ∧ y ≠ [] := fun y hy => hw y (by simp [hy])
    rw [wrapWords_go_cons]
    by_cases h1 : cur.isEmpty = true
    · rw [if_pos h1]; exact ih hxs x hx.1
    · rw [if_neg h1]
      by_cases h2 : cur.length + 1 + x.length ≤ w
      · rw [if_pos h2]
        exact ih hxs _ ((hc.append (by intro c hc'; simp at hc'; subst hc'; decide)).append hx.1)
      · rw [if_neg h2]
        intro l hl
        rcases List.mem_cons.1 hl with rfl | hl
        · exact ⟨hc, by simpa using h1⟩
        · exact ih hxs x hx.1 l hl

/-- lines joined by single line feeds, a space, a result word: calm, and not starting with a line feed -/
theorem calmEnd_joined (lines : List Str) (hl : ∀ l ∈ lines, Plain l ∧ l ≠ []) (res : Str) (hres : Plain res) :
    calmEnd (joinWith ['\n'] lines ++ ' ' :: res) = true ∧
      ∃ c x', joinWith ['\n'] lines ++ ' ' :: res = c :: x' ∧ c ≠ '\n' := by
  have hsp : Plain (' ' :: res) := by
    intro c hc
    rcases List.mem_cons.1 hc with rfl | h
    · decide
    · exact hres c h
  induction lines with
  | nil => exact ⟨calmEnd_plain _ hsp, ' ', res, rfl, by decide⟩
  | cons l ls ih =>
    obtain ⟨hp, hne⟩ := hl l (by simp)
    obtain ⟨a, l', rfl⟩ := List.exists_cons_of_ne_nil hne
    have ha := hp a (by simp)
    rw [joinWith_cons]
    by_cases hls : ls = []
    · rw [if_pos hls]
      exact ⟨calmEnd_plain _ (hp.append hsp), a, _, rfl, ha.1⟩
    · rw [if_neg hls]
      obtain ⟨i1, i2⟩ := ih (fun y hy => hl y (by simp [hy]))
      refine ⟨?_, a, _, rfl, ha.1⟩
      have := calmEnd_append_nl (a :: l') _ hp (by simp) i1 i2
      simpa [List.append_assoc] using this

theorem sanText_plain (m : Move) (p : MoveProps) : Plain (sanText m p) := fun c hc =>
  ⟨fun e => (sanText_sanWord m p).not_mem '\n' (by decide) (e ▸ hc),
   fun e => (sanText_sanWord m p).not_mem '\r' (by decide) (e ▸ hc)⟩

theorem natStr_dot_plain (n : Nat) (w : Str) (hw : Plain w) : Plain (natStr n ++ '.' :: w) := by
  intro c hc
  rcases List.mem_append.1 hc with h | h
  · have := natStr_isDigit n c h
    exact ⟨by rintro rfl; revert this; decide, by rintro rfl; revert this; decide⟩
  · rcases List.mem_cons.1 h with rfl | h
    · decide
    · exact hw c h

theorem numbered_plain (ply : Nat) (sans : List Str) (hs : ∀ s ∈ sans, Plain s ∧ s ≠ []) :
    ∀ x ∈ numbered ply sans, Plain x ∧ x ≠ [] := by
  induction sans generalizing ply with
  | nil => intro x hx; simp [numbered] at hx
  | cons s rest ih =>
    have h1 := hs s (by simp)
    intro x hx
    rw [numbered, List.mem_cons] at hx
    rcases hx with rfl | hx
    · split
      · exact ⟨natStr_dot_plain _ _ h1.1, by simp⟩
      · exact h1
    · exact ih (ply + 1) (fun y hy => hs y (by simp [hy])) x hx

theorem expectedTokens_plain (bs : Bool) (sans : List Str) (hs : ∀ s ∈ sans, Plain s ∧ s ≠ []) :
    ∀ x ∈ expectedTokens bs sans, Plain x ∧ x ≠ [] := by
  unfold expectedTokens
  cases bs with
  | false => exact numbered_plain 0 sans hs
  | true =>
    cases sans with
    | nil => intro x hx; simp at hx
    | cons w rest =>
      intro x hx
      simp only [if_true, List.mem_cons] at hx
      rcases hx with rfl | rfl | rfl | hx
      · exact ⟨by unfold Plain; decide, by decide⟩
      · exact ⟨by unfold Plain; decide, by decide⟩
      · exact hs _ (by simp)
      · exact numbered_plain 2 rest (fun y hy => hs y (by simp [hy])) x hx

theorem zipWith_plain (ms : List Move) (ps : List MoveProps) : ∀ s ∈ List.zipWith sanText ms ps, Plain s ∧ s ≠ [] := by
  intro s hs
  obtain ⟨i, hi, rfl⟩ := List.mem_iff_getElem.1 hs
  rw [List.getElem_zipWith]
  exact ⟨sanText_plain _ _, (sanText_sanWord _ _).ne_nil⟩

theorem resultTag_plain (s : GStatus) : Plain (resultTagOf s) := by
  have := C12.tag_values s
  simp only [List.mem_cons, List.not_mem_nil, or_false] at this
  rcases this with h | h | h | h <;> rw [h] <;> unfold Plain <;> decide

/-- the moves section of an export is calm and does not start with a line feed -/
theorem movesText_calm (g : Game) (ht : C12.TagOK g) :
    calmEnd g.movesText = true ∧ ∃ c x', g.movesText = c :: x' ∧ c ≠ '\n' := by
  rw [movesText_tokens]
  refine calmEnd_joined _ ?_ _ (by rw [ht]; exact resultTag_plain _)
  unfold wrapWords
  exact wrap_go_lines 85 _ (expectedTokens_plain _ _ (zipWith_plain _ _)) [] (by intro c hc; cases hc)

/-- the tag lines, as a function of the result tag -/
def pgnTagsOf (res : Str) : Str :=
  (defaultTags ++ [("Result".toList, res)]).foldl
    (fun acc kv => acc ++ ['['] ++ kv.1 ++ " \"".toList ++ kv.2 ++ "\"]\n".toList) []

theorem pgnTags_eq (g : Game) : g.pgnTags = pgnTagsOf g.result := rfl

/-- the tag block ends with a line feed; before it, single line feeds only -/
theorem pgnTagsOf_calm (s : GStatus) :
    pgnTagsOf (resultTagOf s) = (pgnTagsOf (resultTagOf s)).dropLast ++ ['\n'] ∧
      calmEnd (pgnTagsOf (resultTagOf s)).dropLast = true := by
  have := C12.tag_values s
  simp only [List.mem_cons, List.not_mem_nil, or_false] at this
  rcases this with h | h | h | h <;> rw [h] <;> decide +kernel

/-- **2. the moves section found by `(\r?\n){2,}`-splitting.**  For every game with a consistent result tag — no moves
yet included: the section is then `" ?"` — the second piece of the split of the export is exactly its moves text (the
first piece is the tag block without its final line feed; there are no other pieces). -/
theorem splitSections_asPgn (g : Game) (ht : C12.TagOK g) :
    splitSections g.asPgn = [g.pgnTags.dropLast, g.movesText] := by
  obtain ⟨e, hT⟩ := pgnTagsOf_calm g.status
  obtain ⟨hM, hne⟩ := movesText_calm g ht
  rw [← ht, ← pgnTags_eq] at e hT
  have hs : g.asPgn = g.pgnTags.dropLast ++ '\n' :: '\n' :: g.movesText := by
    rw [asPgn_eq]
    conv => lhs; rw [e]
    simp [List.append_assoc]
  unfold splitSections
  rw [hs]
  exact splitFrom_tags_moves _ _ _ hT hM hne

theorem regexMovesSection_asPgn (g : Game) (ht : C12.TagOK g) : regexMovesSection g.asPgn = some g.movesText := by
  unfold regexMovesSection
  rw [splitSections_asPgn g ht]; rfl

example : regexMovesSection "[Result \"1-0\"]\n\n1.e4 e5 2.Nf3\nNc6 1-0".toList = some "1.e4 e5 2.Nf3\nNc6 1-0".toList := by
  decide +kernel
/-- no blank line: no moves section (`from_pgn` answers `InvalidPGNString`) -/
example : regexMovesSection "[Result \"1-0\"]\n1.e4 e5 1-0".toList = none := by decide +kernel
example : findResult "1.e4 e5 2.Nf3\nNc6 1/2-1/2".toList = some "1/2-1/2".toList := by decide +kernel
example : findMoves "1. ... e5 2.Nbd2 O-O ?".toList = ["e5".toList, "Nbd2".toList, "O-O".toList] := by decide +kernel

/-! ## 4. the round trip through the regex importer -/

variable (K : Keys)

/-- a generated legal move promotes, if at all, to N/B/R/Q -/
theorem sanPromoOK_of_legal (b : Board) (m : Move) (h : m ∈ b.getLegalMoves K) : m.sanPromoOK = true := by
  cases m with
  | castle s => rfl
  | piece pt src dst promo =>
    obtain ⟨hk, hp, _⟩ := promoShape_facts ((mem_getLegalMoves_piece K b pt src dst promo).1 h).2.2.2
    rcases promo with _ | (_ | _ | _ | _ | _ | _) <;> first | rfl | exact absurd rfl hk | exact absurd rfl hp

/-- along a played move list from a valid position, no move promotes to a king (promotion to a pawn is excluded by
hypothesis, as in `C15_roundtrip`: that move value passes `isLegalMove` but cannot be constructed) -/
theorem playMoves_sanPromoOK (ms : List Move) : ∀ (g gEnd : Game), g.position.Valid K →
    (∀ m ∈ ms, m.promotesToPawn = false) → Game.playMoves K g ms = .ok gEnd → ∀ m ∈ ms, m.sanPromoOK = true := by
  induction ms with
  | nil => intro _ _ _ _ _ m hm; cases hm
  | cons m ms ih =>
    intro g gEnd hv hpp h
    obtain ⟨g1, ha, h1⟩ := playMoves_cons_ok K h
    have hw := not_pawnPromo (hpp m (by simp))
    rcases act_cases K g g1 _ ha with ⟨m', nb, mp, hm', _, hmk, _, hpos, _, _⟩ | ⟨hne, _⟩
    · cases hm'
      have hv1 : g1.position.Valid K := by rw [hpos]; exact C06_step_checked g.position nb hv m hw hmk
      have hmem : m ∈ g.position.getLegalMoves K := (hv.isLegalMove_iff m hw).1 (Game.makeMove_ok K hmk).1
      intro x hx
      rcases List.mem_cons.1 hx with rfl | hx
      · exact sanPromoOK_of_legal K _ _ hmem
      · exact ih g1 gEnd hv1 (fun y hy => hpp y (by simp [hy])) h1 x hx
    · exact absurd rfl (hne m)

/-- on the export of a game (White first, consistent tag, promotions to N/B/R/Q only) the regex importer and the model
importer are the same function of the start game -/
theorem ofPgnRegex_export (start g : Game) (hb : blackStarts g.history = false) (ht : C12.TagOK g)
    (hm : ∀ m ∈ g.history.moves, m.sanPromoOK = true) :
    Game.ofPgnRegex K start g.asPgn = Game.ofPgnMoves K start g.movesText := by
  unfold Game.ofPgnRegex Game.ofPgnMoves
  simp only [regexMovesSection_asPgn g ht]
  rw [findMoves_eq_scanMoves g hb ht hm, findResult_movesText_gen g ht, scanResult_movesText g hb ht]
  cases replaySan K start (scanMoves g.movesText) with
  | error e => rfl
  | ok g1 =>
    simp only []
    by_cases hs : g1.status = .ongoing
    · rw [if_pos hs, if_pos hs]
      by_cases hc : g.result = "1-0".toList ∨ g.result = "0-1".toList ∨ g.result = "1/2-1/2".toList
      · rw [if_pos hc]
        simp only []
        rcases hc with h | h | h <;> rw [h]
        · rw [if_pos rfl, if_pos rfl]
        · rw [if_neg (by decide), if_pos rfl, if_neg (by decide), if_pos rfl]
        · rw [if_neg (by decide), if_neg (by decide), if_pos rfl, if_neg (by decide), if_neg (by decide)]
          cases g1.act K (.offerDraw .white) <;> rfl
      · rw [if_neg hc]
    · rw [if_neg hs, if_neg hs]

/-- what a played game provides: White first, consistent tag, promotions to N/B/R/Q only -/
theorem played_export_facts (b0 : Board) (hv : b0.Valid K) (hw : b0.stm = .white) (g : Game)
    (hg : PlayedFrom K (ofBoard b0) g) (hpp : ∀ m ∈ g.history.moves, m.promotesToPawn = false) :
    blackStarts g.history = false ∧ C12.TagOK g ∧ ∀ m ∈ g.history.moves, m.sanPromoOK = true := by
  have ht : C12.TagOK g := C12.result_tag K g (hg.reach K).toC12
  have ht0 : C12.TagOK (ofBoard b0) := C12.result_tag K _ (.init b0)
  obtain ⟨ms, g1, hplay, he⟩ := played_normal_form K _ ht0 (ofBoard_boardStatus b0) hg
  have hms : g.history.moves = ms := by
    rw [he.history, playMoves_moves K hplay]; simp [History.fromPosition]
  have hv0 : (ofBoard b0).position.Valid K := by simpa using hv
  have hpp' : ∀ m ∈ ms, m.promotesToPawn = false := by rw [← hms]; exact hpp
  obtain ⟨_, qs, _, _, _, e3, _, _⟩ := replaySan_chain K ms (ofBoard b0) g1 hv0 hpp' hplay
  refine ⟨?_, ht, ?_⟩
  · rw [he.history]; unfold blackStarts; rw [e3]; simp [History.fromPosition, hw]
  · rw [hms]; exact playMoves_sanPromoOK K ms _ _ hv0 hpp' hplay

/-- 1. for played games: the regex tokenizer yields exactly the SAN list, with no hypothesis about promotions to a king
(legal moves never have one) -/
theorem findMoves_movesText_played (b0 : Board) (hv : b0.Valid K) (hw : b0.stm = .white) (g : Game)
    (hg : PlayedFrom K (ofBoard b0) g) (hpp : ∀ m ∈ g.history.moves, m.promotesToPawn = false) :
    findMoves g.movesText = List.zipWith sanText g.history.moves g.history.props := by
  obtain ⟨_, ht, hm⟩ := played_export_facts K b0 hv hw g hg hpp
  exact findMoves_movesText_gen g ht hm

/-- **C15 with the regex tokenizers (MAIN).**  Under the hypotheses of `C15_roundtrip` — `b0` valid with White to move,
`g` obtained from `Game.ofBoard b0` by accepted actions, no recorded move the unconstructible "promotion to a pawn" —
importing the *whole export* `g.asPgn` with `Game.ofPgnRegex` (sections by `(\r?\n){2,}`, move tokens and result token
by the leftmost-first matches of the two patterns of `from_pgn`) succeeds, and the imported game agrees with `g`:
same position, history, counter, result tag, and status (a merely pending draw offer is imported as ongoing). -/
theorem C15_roundtrip_regex (b0 : Board) (hv : b0.Valid K) (hw : b0.stm = .white) (g : Game)
    (hg : PlayedFrom K (ofBoard b0) g) (hpp : ∀ m ∈ g.history.moves, m.promotesToPawn = false) :
    ∃ g', Game.ofPgnRegex K (ofBoard b0) g.asPgn = .ok g' ∧ Agrees g' g := by
  obtain ⟨hb, ht, hm⟩ := played_export_facts K b0 hv hw g hg hpp
  rw [ofPgnRegex_export K (ofBoard b0) g hb ht hm]
  exact C15_roundtrip K b0 hv hw g hg hpp

/-- without a pending draw offer the import of the export *is* the exported game -/
theorem C15_roundtrip_regex_exact (b0 : Board) (hv : b0.Valid K) (hw : b0.stm = .white) (g : Game)
    (hg : PlayedFrom K (ofBoard b0) g) (hpp : ∀ m ∈ g.history.moves, m.promotesToPawn = false)
    (hn : ∀ c, g.status ≠ .drawOffered c) : Game.ofPgnRegex K (ofBoard b0) g.asPgn = .ok g := by
  obtain ⟨g', h0, ha⟩ := C15_roundtrip_regex K b0 hv hw g hg hpp
  rw [h0, ha.eq hn]

/-- every game played from the standard initial position round-trips through export and regex import -/
theorem C15_standard_regex (b0 : Board) (h0 : Board.ofBuilder K stdBuilder = .ok b0) (g : Game)
    (hg : PlayedFrom K (ofBoard b0) g) (hpp : ∀ m ∈ g.history.moves, m.promotesToPawn = false) :
    ∃ g', Game.ofPgnRegex K (ofBoard b0) g.asPgn = .ok g' ∧ Agrees g' g :=
  C15_roundtrip_regex K b0 (stdBoard_facts K b0 h0).1 (stdBoard_facts K b0 h0).2.1 g hg hpp

/-- non-vacuity: the game with no moves yet (export: tag block, empty line, `" ?"`) -/
example (b0 : Board) (h0 : Board.ofBuilder K stdBuilder = .ok b0) :
    Game.ofPgnRegex K (ofBoard b0) (ofBoard b0).asPgn = .ok (ofBoard b0) :=
  C15_roundtrip_regex_exact K b0 (stdBoard_facts K b0 h0).1 (stdBoard_facts K b0 h0).2.1 _ .init
    (by simp [History.fromPosition]) (fun c e => boardStatus_not_offered (ofBoard_boardStatus b0) ⟨c, e⟩)

/-- non-vacuity: 1. e4 from the standard initial position satisfies every hypothesis; its export (`1.e4 ?` after the tag
block) is imported back to the same game by the regex importer -/
example (b0 : Board) (h0 : Board.ofBuilder K stdBuilder = .ok b0) :
    ∃ g, PlayedFrom K (ofBoard b0) g ∧ g.history.moves = [.piece .pawn 12 28 none] ∧
      Game.ofPgnRegex K (ofBoard b0) g.asPgn = .ok g := by
  obtain ⟨hv, hw, habs⟩ := stdBoard_facts K b0 h0
  have hleg : Spec.legal b0.absPos (.piece .pawn 12 28 none) = true := by rw [habs]; decide +kernel
  have hil : b0.isLegalMove K (.piece .pawn 12 28 none) = true :=
    (hv.isLegalMove_iff _ (by intro _ _ _ e; cases e)).2 ((hv.mem_getLegalMoves_iff _).2 hleg)
  have hs := stdGame_ongoing K b0 h0
  obtain ⟨g, hg⟩ := (C12.ongoing_move K (ofBoard b0) _ hs).2 (by simpa using hil)
  have hm : g.history.moves = [.piece .pawn 12 28 none] := by
    rw [(C12.move_result K _ g _ hs hg).2.2.1]; simp [History.fromPosition]
  have hpp : ∀ m ∈ g.history.moves, m.promotesToPawn = false := by
    rw [hm]; intro m h; simp only [List.mem_singleton] at h; subst h; rfl
  exact ⟨g, .step _ .init hg, hm, C15_roundtrip_regex_exact K b0 hv hw g (.step _ .init hg) hpp
    (fun c e => boardStatus_not_offered (act_move_boardStatus K _ g _ hg) ⟨c, e⟩)⟩

end Chess
