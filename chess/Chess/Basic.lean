/-! Shared vocabulary of the specification (M0) and the model (M1). No Mathlib. -/
namespace Chess

inductive Color | white | black deriving DecidableEq, Repr, Inhabited
inductive PT | pawn | knight | bishop | rook | queen | king deriving DecidableEq, Repr, Inhabited
structure Piece where (pt : PT) (c : Color) deriving DecidableEq, Repr, Inhabited

def Color.other : Color → Color | .white => .black | .black => .white
@[simp] theorem Color.other_other (c : Color) : c.other.other = c := by cases c <;> rfl
theorem Color.other_ne (c : Color) : c.other ≠ c := by cases c <;> decide

/-- index of a colour / piece type, in the Rust declaration order -/
def Color.idx : Color → Nat | .white => 0 | .black => 1
def PT.idx : PT → Nat | .pawn => 0 | .knight => 1 | .bishop => 2 | .rook => 3 | .queen => 4 | .king => 5
def PT.all : List PT := [.pawn, .knight, .bishop, .rook, .queen, .king]
def PT.ofIdx? : Nat → Option PT
  | 0 => some .pawn | 1 => some .knight | 2 => some .bishop | 3 => some .rook | 4 => some .queen | 5 => some .king
  | _ => none
def Color.ofIdx? : Nat → Option Color | 0 => some .white | 1 => some .black | _ => none

/-- `Square(u8)`: index = 8·rank + file -/
abbrev Sq := Fin 64
def allSq : List Sq := List.finRange 64
def Sq.rk (s : Sq) : Nat := s.val / 8
def Sq.fl (s : Sq) : Nat := s.val % 8
def Sq.rank (s : Sq) : Int := (s.val / 8 : Nat)
def Sq.file (s : Sq) : Int := (s.val % 8 : Nat)
/-- `Square::from_rank_file` for in-range coordinates -/
def sqOf (r f : Nat) (hr : r < 8 := by decide) (hf : f < 8 := by decide) : Sq := ⟨r * 8 + f, by omega⟩
def mkSq? (r f : Int) : Option Sq :=
  if h : 0 ≤ r ∧ r < 8 ∧ 0 ≤ f ∧ f < 8 then some ⟨(r.toNat * 8 + f.toNat), by omega⟩ else none

inductive Side | king | queen deriving DecidableEq, Repr, Inhabited

inductive Move
  | piece (pt : PT) (src dst : Sq) (promo : Option PT)
  | castle (s : Side)
  deriving DecidableEq, Repr, Inhabited

end Chess
