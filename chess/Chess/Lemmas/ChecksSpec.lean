import Chess.Lemmas.ChecksGeo
/-! C05 core: for ARBITRARY boards that encode a placement (`Rep b f`), the two masks computed by
`get_pins_and_checks` are exactly the declarative check set / pin set of `Spec`.
Set reasoning on top of the finite table facts of `Props/C17.lean`; no enumeration over boards. -/
namespace Chess
open Board Chess.C17

/-! ### the between-mask of an aligned pair, read from the attacker's side -/

theorem aligned_of_orthogonal {a b : Sq} (h : Spec.orthogonal a b = true) : aligned b a = true := by
  rw [orthogonal_symm] at h; simp [aligned, h]
theorem aligned_of_diagonal {a b : Sq} (h : Spec.diagonal a b = true) : aligned b a = true := by
  rw [diagonal_symm] at h; simp [aligned, h]

/-- for an attacker `a` aligned with `k`, the occupied part of `BETWEEN[k][a]` is the set of occupied squares strictly
between `a` and `k` -/
theorem mem_betweenOcc {b : Board} {f : Sq → Option Piece} (h : Rep b f) {k a : Sq} (hal : aligned k a = true) (c : Sq) :
    mem c (b.betweenOcc k a) = ((f c).isSome && Spec.strictlyBetween a c k) := by
  cases hm : between k a with
  | none => rw [between_none_iff] at hm; rw [hm] at hal; exact Bool.noConfusion hal
  | some m =>
    have hm' : between a k = some m := by rw [between_symm]; exact hm
    simp only [betweenOcc, hm, Option.getD_some, mem_and, h.cmb, between_spec a k m hm' c]

theorem betweenOcc_zero_iff {b : Board} {f : Sq → Option Piece} (h : Rep b f) {k a : Sq} (hal : aligned k a = true) :
    b.betweenOcc k a = 0#64 ↔ Spec.clearBetween f a k = true := by
  rw [eq_zero_iff]
  simp only [mem_betweenOcc h hal, Spec.clearBetween, List.all_eq_true]
  constructor
  · intro hz c _
    have := hz c
    cases hs : Spec.strictlyBetween a c k <;> cases hf : f c <;> simp_all
  · intro hc c
    have := hc c (List.mem_finRange c)
    cases hs : Spec.strictlyBetween a c k <;> cases hf : f c <;> simp_all

/-- slider step: a line condition that implies alignment, together with an empty between-mask -/
theorem slider_step {b : Board} {f : Sq → Option Piece} (h : Rep b f) {k a : Sq} (L : Bool)
    (hL : L = true → aligned k a = true) :
    (L = true ∧ b.betweenOcc k a = 0#64) ↔ (L && Spec.clearBetween f a k) = true := by
  cases L with
  | false => simp
  | true => simp [betweenOcc_zero_iff h (hL rfl)]

theorem pt_beq (s t : PT) : (s == t) = decide (s = t) := by cases s <;> cases t <;> rfl

/-! ### I1: the check mask -/

theorem checks_spec {b : Board} {f : Sq → Option Piece} (h : Rep b f) (k x : Sq) :
    mem x (b.pinsAndChecks k).2 = (Spec.isColor f b.stm.other x && Spec.attacks f x k) := by
  rw [Bool.eq_iff_iff, checks_iff]
  simp only [attackersOf, nonSliderChecks, mem_and, mem_or, h.pcs, h.cls, Spec.isColor, Spec.attacks,
    rook_spec, bishop_spec, knight_spec, king_spec, pawnAttT_spec]
  rcases hp : f x with _ | ⟨pt, c⟩
  · simp
  · by_cases hc : c = b.stm.other
    · subst hc
      cases pt <;> simp only [pt_beq, reduceCtorEq, decide_false, beq_self_eq_true, Bool.true_and, Bool.and_true,
        Bool.and_false, Bool.false_or, Bool.or_false, Bool.false_eq_true, false_and, false_or, or_false, Bool.or_true]
      · exact Iff.rfl
      · rw [knightGeo_symm k x]; exact Iff.rfl
      · rw [diagonal_symm k x]; exact slider_step h _ aligned_of_diagonal
      · rw [orthogonal_symm k x]; exact slider_step h _ aligned_of_orthogonal
      · rw [orthogonal_symm k x, diagonal_symm k x, Bool.or_comm]
        refine slider_step h _ (fun hL => ?_)
        rcases Bool.or_eq_true_iff.1 hL with h1 | h1
        · exact aligned_of_orthogonal h1
        · exact aligned_of_diagonal h1
      · rw [kingGeo_symm k x]; exact Iff.rfl
    · cases pt <;> simp [hc]

/-! ### I2: `is_under_attack` -/

theorem ne_zero_iff (m : BB) : m ≠ 0#64 ↔ ∃ s : Sq, mem s m = true := by
  rw [Ne, eq_zero_iff]
  constructor
  · intro hn
    apply Classical.byContradiction
    intro hex
    apply hn
    intro s
    cases hs : mem s m with
    | false => rfl
    | true => exact absurd ⟨s, hs⟩ hex
  · rintro ⟨s, hs⟩ hall
    rw [hall s] at hs; exact Bool.noConfusion hs

theorem isUnderAttack_spec {b : Board} {f : Sq → Option Piece} (h : Rep b f) (k : Sq) :
    b.isUnderAttack k = Spec.attackedBy f b.stm.other k := by
  rw [Bool.eq_iff_iff]
  simp only [isUnderAttack, Bool.not_eq_true', Spec.attackedBy, List.any_eq_true]
  rw [← Bool.not_eq_true, isBlank_iff, ← Ne, ne_zero_iff]
  constructor
  · rintro ⟨x, hx⟩
    rw [checks_spec h] at hx
    exact ⟨x, List.mem_finRange x, hx⟩
  · rintro ⟨x, _, hx⟩
    exact ⟨x, by rw [checks_spec h]; exact hx⟩

/-! ### the king square -/

theorem kingSq?_spec {b : Board} {f : Sq → Option Piece} (h : Rep b f) (c : Color) :
    b.kingSq? c = Spec.kingSq? f c := by
  unfold Board.kingSq? lowest Spec.kingSq?
  congr 1
  funext s
  simp only [mem_and, h.pcs, h.cls]
  rcases hp : f s with _ | ⟨pt, c'⟩
  · rfl
  · rw [Bool.eq_iff_iff]
    simp only [Bool.and_eq_true, beq_iff_eq, Option.some.injEq, Piece.mk.injEq]

theorem kingSq_spec {b : Board} {f : Sq → Option Piece} (h : Rep b f) (c : Color) (k : Sq)
    (hk : Spec.kingSq? f c = some k) : b.kingSq c = k := by
  simp [Board.kingSq, kingSq?_spec h, hk]

/-- a position with exactly one king of colour `c` (as `ValidPos` demands) has a king square -/
theorem kingSq?_isSome_of_count {f : Sq → Option Piece} {c : Color}
    (h : Spec.countPiece f ⟨.king, c⟩ = 1) : ∃ k, Spec.kingSq? f c = some k := by
  unfold Spec.countPiece at h
  have hpos : 0 < allSq.countP (fun s => f s == some ⟨.king, c⟩) := by omega
  rw [List.countP_pos_iff] at hpos
  obtain ⟨s, hs, hps⟩ := hpos
  cases hf : Spec.kingSq? f c with
  | some k => exact ⟨k, rfl⟩
  | none =>
    unfold Spec.kingSq? at hf
    rw [List.find?_eq_none] at hf
    exact absurd hps (hf s hs)

theorem validPos_kingSq? {p : Spec.Pos} (hv : Spec.ValidPos p = true) (c : Color) :
    ∃ k, Spec.kingSq? p.board c = some k := by
  simp only [Spec.ValidPos, Bool.and_eq_true, beq_iff_eq] at hv
  cases c
  · exact kingSq?_isSome_of_count hv.1.1.1.1.1
  · exact kingSq?_isSome_of_count hv.1.1.1.1.2

/-! ### I3: the pin mask -/

theorem aligned_of_sliderLine {f : Sq → Option Piece} {a k : Sq} (h : Spec.sliderLine f a k = true) :
    aligned k a = true := by
  unfold Spec.sliderLine at h
  rcases hp : f a with _ | ⟨pt, c⟩
  · rw [hp] at h; exact Bool.noConfusion h
  · rw [hp] at h
    cases pt <;> simp only [Bool.false_eq_true, Bool.or_eq_true] at h
    · exact aligned_of_diagonal h
    · exact aligned_of_orthogonal h
    · rcases h with h | h
      · exact aligned_of_orthogonal h
      · exact aligned_of_diagonal h

/-- the candidate attackers of the loop: enemy rooks, bishops and queens on a line through `k` -/
theorem attackersOf_spec {b : Board} {f : Sq → Option Piece} (h : Rep b f) (k a : Sq) :
    mem a (b.attackersOf k) = (Spec.isColor f b.stm.other a && Spec.sliderLine f a k) := by
  simp only [attackersOf, mem_and, mem_or, h.pcs, h.cls, Spec.isColor, Spec.sliderLine, rook_spec, bishop_spec,
    orthogonal_symm k a, diagonal_symm k a]
  rcases hp : f a with _ | ⟨pt, c⟩
  · simp
  · cases pt <;> simp [pt_beq, Bool.or_comm]

theorem pinned_spec {b : Board} {f : Sq → Option Piece} (h : Rep b f) (k s : Sq) :
    mem s (b.pinsAndChecks k).1 = true ↔
      (Spec.isColor f b.stm s = true ∧ ∃ a, Spec.isColor f b.stm.other a = true ∧ Spec.sliderLine f a k = true ∧
        Spec.strictlyBetween a s k = true ∧ ∀ c, Spec.strictlyBetween a c k = true → c = s ∨ f c = none) := by
  rw [pinned_iff]
  have hcol : mem s (b.colors b.stm) = Spec.isColor f b.stm s := by rw [h.cls]; rfl
  rw [hcol]
  apply and_congr_right
  intro hown
  have hsome : (f s).isSome = true := by
    unfold Spec.isColor at hown
    cases hf : f s with
    | none => rw [hf] at hown; exact Bool.noConfusion hown
    | some q => rfl
  apply exists_congr
  intro a
  rw [attackersOf_spec h, Bool.and_eq_true, and_assoc]
  apply and_congr_right; intro _
  apply and_congr_right; intro hline
  have hal := aligned_of_sliderLine hline
  rw [popcount_one]
  simp only [mem_betweenOcc h hal, Bool.and_eq_true]
  constructor
  · rintro ⟨⟨s', _, huniq⟩, _, hsb⟩
    have hs' : s = s' := huniq s ⟨hsome, hsb⟩
    subst hs'
    refine ⟨hsb, fun c hc => ?_⟩
    cases hf : f c with
    | none => exact Or.inr rfl
    | some q => exact Or.inl (huniq c ⟨by rw [hf]; rfl, hc⟩)
  · rintro ⟨hsb, hall⟩
    refine ⟨⟨s, ⟨hsome, hsb⟩, fun t ht => ?_⟩, hsome, hsb⟩
    rcases hall t ht.2 with e | e
    · exact e
    · rw [e] at ht; exact absurd ht.1 (by simp)

end Chess
