import Chess.Lemmas.FlipGeo
import Chess.Lemmas.LegalMoves
/-! Generic invariance of the declarative rules under a board symmetry `S : Sym` (property C19). -/
namespace Chess
open Spec

namespace Sym
variable (S : Sym)

/-- transformed placement -/
def bd (bd : Sq → Option Piece) : Sq → Option Piece := fun s => (bd (S.σ s)).map (mapPiece S.κ)
/-- transformed position -/
def pos (p : Pos) : Pos :=
  { board := S.bd p.board, stm := S.κ p.stm, rights := fun c => p.rights (S.κ c), ep := p.ep.map S.σ,
    half := p.half, full := p.full }
/-- transformed move (the castling side is kept) -/
def mv : Move → Move
  | .piece pt src dst promo => .piece pt (S.σ src) (S.σ dst) promo
  | .castle s => .castle s

theorem σ_inj {a b : Sq} : S.σ a = S.σ b ↔ a = b :=
  ⟨fun h => by rw [← S.σσ a, h, S.σσ], fun h => h ▸ rfl⟩
theorem σ_eq_iff {a b : Sq} : S.σ a = b ↔ a = S.σ b :=
  ⟨fun h => by rw [← h, S.σσ], fun h => by rw [h, S.σσ]⟩
theorem κ_inj {a b : Color} : S.κ a = S.κ b ↔ a = b :=
  ⟨fun h => by rw [← S.κκ a, h, S.κκ], fun h => h ▸ rfl⟩
theorem κ_eq_iff {a b : Color} : S.κ a = b ↔ a = S.κ b :=
  ⟨fun h => by rw [← h, S.κκ], fun h => by rw [h, S.κκ]⟩
theorem σ_beq (a b : Sq) : (S.σ a == S.σ b) = (a == b) := by
  rw [Bool.eq_iff_iff]; simp [S.σ_inj]
theorem σ_bne (a b : Sq) : (S.σ a != S.σ b) = (a != b) := by
  simp only [bne, S.σ_beq]
theorem κ_beq (a b : Color) : (S.κ a == S.κ b) = (a == b) := by
  rw [Bool.eq_iff_iff]; simp [S.κ_inj]
theorem κ_bne (a b : Color) : (S.κ a != S.κ b) = (a != b) := by
  simp only [bne, S.κ_beq]
theorem mv_mv (m : Move) : S.mv (S.mv m) = m := by
  cases m <;> simp [mv, S.σσ]

theorem mapPiece_inj {q r : Piece} : mapPiece S.κ q = mapPiece S.κ r ↔ q = r := by
  cases q; cases r; simp [mapPiece, S.κ_inj]
theorem mapPiece_mapPiece (q : Piece) : mapPiece S.κ (mapPiece S.κ q) = q := by
  cases q; simp [mapPiece, S.κκ]

theorem all_σ (f : Sq → Bool) : allSq.all (fun a => f (S.σ a)) = allSq.all f := by
  rw [Bool.eq_iff_iff]
  simp only [List.all_eq_true, allSq, List.mem_finRange, forall_const]
  exact ⟨fun h a => by simpa [S.σσ] using h (S.σ a), fun h a => h _⟩
theorem any_σ (f : Sq → Bool) : allSq.any (fun a => f (S.σ a)) = allSq.any f := by
  rw [Bool.eq_iff_iff]
  simp only [List.any_eq_true, allSq, List.mem_finRange, true_and]
  exact ⟨fun ⟨a, h⟩ => ⟨_, h⟩, fun ⟨a, h⟩ => ⟨S.σ a, by simpa [S.σσ] using h⟩⟩

theorem bd_σ (b : Sq → Option Piece) (s : Sq) : S.bd b (S.σ s) = (b s).map (mapPiece S.κ) := by
  simp [bd, S.σσ]
theorem bd_bd (b : Sq → Option Piece) : S.bd (S.bd b) = b := by
  funext s; simp only [bd, S.σσ]; cases b s <;> simp [S.mapPiece_mapPiece]
theorem pos_pos (p : Pos) : S.pos (S.pos p) = p := by
  cases p with | mk b stm r ep h f =>
  simp only [pos, S.bd_bd, S.κκ]
  congr 1
  cases ep <;> simp [S.σσ]

/-- value of the transformed board against a transformed piece -/
theorem map_beq_some (o : Option Piece) (pt : PT) (c : Color) :
    (o.map (mapPiece S.κ) == some ⟨pt, S.κ c⟩) = (o == some ⟨pt, c⟩) := by
  rw [Bool.eq_iff_iff]
  cases o with
  | none => simp
  | some q => cases q; simp [mapPiece, S.κ_inj]
theorem bd_eq_some_iff (b : Sq → Option Piece) (s : Sq) (pt : PT) (c : Color) :
    S.bd b s = some ⟨pt, S.κ c⟩ ↔ b (S.σ s) = some ⟨pt, c⟩ := by
  have := S.map_beq_some (b (S.σ s)) pt c
  rw [Bool.eq_iff_iff] at this
  simpa [bd] using this

theorem clearBetween_sym (b : Sq → Option Piece) (a t : Sq) :
    clearBetween (S.bd b) (S.σ a) (S.σ t) = clearBetween b a t := by
  unfold clearBetween
  rw [← S.all_σ]
  congr 1; funext c
  rw [S.sb, S.bd_σ]; simp

theorem attacks_sym (b : Sq → Option Piece) (a t : Sq) :
    attacks (S.bd b) (S.σ a) (S.σ t) = attacks b a t := by
  unfold attacks
  rw [S.bd_σ]
  cases b a with
  | none => rfl
  | some q =>
    obtain ⟨pt, c⟩ := q
    cases pt <;>
      simp only [Option.map, mapPiece, S.dr_abs, S.df_abs, S.orth, S.diag, S.clearBetween_sym, S.dr_fwd, S.σ_bne]

theorem isColor_sym (b : Sq → Option Piece) (c : Color) (s : Sq) :
    isColor (S.bd b) (S.κ c) (S.σ s) = isColor b c s := by
  unfold isColor; rw [S.bd_σ]
  cases b s <;> simp [mapPiece, S.κ_beq]

theorem attackedBy_sym (b : Sq → Option Piece) (c : Color) (t : Sq) :
    attackedBy (S.bd b) (S.κ c) (S.σ t) = attackedBy b c t := by
  unfold attackedBy
  rw [← S.any_σ]
  congr 1; funext a
  rw [S.attacks_sym]
  congr 1
  exact S.isColor_sym b c a

/-! ### kings -/
/-- at most one king of colour `c` -/
def KingUniq (b : Sq → Option Piece) (c : Color) : Prop :=
  ∀ s s', b s = some ⟨.king, c⟩ → b s' = some ⟨.king, c⟩ → s = s'

theorem kingSq?_some {b : Sq → Option Piece} {c : Color} {k : Sq} (h : kingSq? b c = some k) :
    b k = some ⟨.king, c⟩ := by
  have := List.find?_some h
  simpa using this
theorem kingSq?_none {b : Sq → Option Piece} {c : Color} (h : kingSq? b c = none) (s : Sq) :
    b s ≠ some ⟨.king, c⟩ := by
  unfold kingSq? at h
  rw [List.find?_eq_none] at h
  simpa using h s (by simp [allSq])
theorem kingSq?_eq_of_uniq {b : Sq → Option Piece} {c : Color} (hu : KingUniq b c) {k : Sq}
    (hk : b k = some ⟨.king, c⟩) : kingSq? b c = some k := by
  cases h : kingSq? b c with
  | none => exact absurd hk (kingSq?_none h k)
  | some k' => rw [hu k' k (kingSq?_some h) hk]

theorem KingUniq_sym {b : Sq → Option Piece} {c : Color} (hu : KingUniq b c) : KingUniq (S.bd b) (S.κ c) := by
  intro s s' h h'
  rw [S.bd_eq_some_iff] at h h'
  exact S.σ_inj.mp (hu _ _ h h')

theorem kingSq?_sym {b : Sq → Option Piece} {c : Color} (hu : KingUniq b c) :
    kingSq? (S.bd b) (S.κ c) = (kingSq? b c).map S.σ := by
  cases h : kingSq? b c with
  | none =>
    cases h' : kingSq? (S.bd b) (S.κ c) with
    | none => rfl
    | some k' =>
      have := kingSq?_some h'
      rw [S.bd_eq_some_iff] at this
      exact absurd this (kingSq?_none h _)
  | some k =>
    apply kingSq?_eq_of_uniq (S.KingUniq_sym hu)
    rw [S.bd_eq_some_iff, S.σσ]; exact kingSq?_some h

theorem inCheck_sym {b : Sq → Option Piece} {c : Color} (hu : KingUniq b c) :
    inCheck (S.bd b) (S.κ c) = inCheck b c := by
  unfold inCheck
  rw [S.kingSq?_sym hu]
  cases kingSq? b c with
  | none => rfl
  | some k => simp only [Option.map]; rw [← S.κ_other, S.attackedBy_sym]

/-! ### successor placement -/
theorem upd_sym (b : Sq → Option Piece) (s : Sq) (v : Option Piece) :
    S.bd (upd b s v) = upd (S.bd b) (S.σ s) (v.map (mapPiece S.κ)) := by
  funext x
  simp only [bd, upd, S.σ_eq_iff]
  split <;> rfl

theorem ep_beq (e : Option Sq) (d : Sq) : (e.map S.σ == some (S.σ d)) = (e == some d) := by
  rw [Bool.eq_iff_iff]; cases e <;> simp [S.σ_inj]

theorem applyBoard_piece_sym (p : Pos) (pt : PT) (src dst : Sq) (promo : Option PT) :
    applyBoard (S.pos p) (.piece pt (S.σ src) (S.σ dst) promo) = S.bd (applyBoard p (.piece pt src dst promo)) := by
  simp only [applyBoard, pos, S.ep_beq, S.mk_back]
  split
  · cases mkSq? (dst.rank - fwd p.stm) dst.file <;> simp [S.upd_sym, mapPiece]
  · simp [S.upd_sym, mapPiece]

theorem pseudo_sym (p : Pos) (pt : PT) (src dst : Sq) (promo : Option PT) :
    pseudo (S.pos p) pt (S.σ src) (S.σ dst) promo = pseudo p pt src dst promo := by
  unfold pseudo
  simp only [pos, S.bd_σ, S.map_beq_some, S.ep_beq, S.df_zero, S.dr_fwd, S.dr_fwd2, S.df_abs, S.pawnRk, S.lastRk,
    S.mk_fwd, S.attacks_sym, Option.isNone_map, Option.isSome_map]
  congr 1
  · congr 1
    cases p.board dst <;> simp [mapPiece, S.κ_bne]
  · cases pt <;> try rfl
    simp only []
    cases mkSq? (src.rank + fwd p.stm) src.file <;> simp [S.bd_σ]

theorem upd_none_some {b : Sq → Option Piece} {v s : Sq} {x : Piece} (h : upd b v none s = some x) :
    b s = some x := by
  unfold upd at h; split at h
  · cases h
  · exact h

theorem applyBoard_piece_king {p : Pos} {pt : PT} {src dst : Sq} {promo : Option PT} {s : Sq} {c : Color}
    (h : applyBoard p (.piece pt src dst promo) s = some ⟨.king, c⟩) :
    (s = dst ∧ promo.getD pt = .king ∧ c = p.stm) ∨ (s ≠ dst ∧ s ≠ src ∧ p.board s = some ⟨.king, c⟩) := by
  have h1 : upd (upd p.board src none) dst (some ⟨promo.getD pt, p.stm⟩) s = some ⟨.king, c⟩ := by
    simp only [applyBoard] at h
    by_cases hc : (pt == .pawn && p.ep == some dst) = true
    · rw [if_pos hc] at h
      cases hm : mkSq? (dst.rank - fwd p.stm) dst.file with
      | none => simpa only [hm] using h
      | some v => simp only [hm] at h; exact upd_none_some h
    · rw [if_neg hc] at h; exact h
  unfold upd at h1
  by_cases hd : s = dst
  · rw [if_pos hd] at h1
    simp only [Option.some.injEq, Piece.mk.injEq] at h1
    exact Or.inl ⟨hd, h1.1, h1.2.symm⟩
  · rw [if_neg hd] at h1
    by_cases hs : s = src
    · rw [if_pos hs] at h1; cases h1
    · rw [if_neg hs] at h1; exact Or.inr ⟨hd, hs, h1⟩

theorem applyBoard_piece_uniq {p : Pos} {pt : PT} {src dst : Sq} {promo : Option PT}
    (hu : KingUniq p.board p.stm) (hp : pseudo p pt src dst promo = true) :
    KingUniq (applyBoard p (.piece pt src dst promo)) p.stm := by
  intro s s' h h'
  have key : ∀ x, promo.getD pt = .king → x ≠ src → p.board x = some ⟨.king, p.stm⟩ → False := by
    intro x hk hx hb
    have := LM.pseudo_moved_king hp hk
    subst this
    exact hx (hu _ _ hb (LM.pseudo_src hp))
  rcases applyBoard_piece_king h with ⟨h1, h2, -⟩ | ⟨h1, h2, h3⟩ <;>
  rcases applyBoard_piece_king h' with ⟨h1', h2', -⟩ | ⟨h1', h2', h3'⟩
  · rw [h1, h1']
  · exact (key _ h2 h2' h3').elim
  · exact (key _ h2' h2 h3).elim
  · exact hu _ _ h3 h3'

/-- legality of piece moves is invariant (needs: at most one king of the side to move) -/
theorem legal_piece_sym (p : Pos) (hu : KingUniq p.board p.stm) (pt : PT) (src dst : Sq) (promo : Option PT) :
    legal (S.pos p) (.piece pt (S.σ src) (S.σ dst) promo) = legal p (.piece pt src dst promo) := by
  simp only [legal]
  rw [S.pseudo_sym, S.applyBoard_piece_sym]
  cases hp : pseudo p pt src dst promo with
  | false => rfl
  | true =>
    show (true && !inCheck (S.bd _) (S.κ p.stm)) = _
    rw [S.inCheck_sym (applyBoard_piece_uniq hu hp)]

/-! ### check and pin sets -/
theorem mem_checkers_sym (p : Pos) (hu : KingUniq p.board p.stm) (x : Sq) :
    S.σ x ∈ checkers (S.pos p) ↔ x ∈ checkers p := by
  unfold checkers
  show S.σ x ∈ (match kingSq? (S.bd p.board) (S.κ p.stm) with | some k => _ | none => _) ↔ _
  rw [S.kingSq?_sym hu]
  cases kingSq? p.board p.stm with
  | none => simp
  | some k =>
    simp only [Option.map, List.mem_filter, allSq, List.mem_finRange, true_and, pos]
    rw [← S.κ_other, S.isColor_sym, S.attacks_sym]

theorem sliderLine_sym (b : Sq → Option Piece) (a k : Sq) :
    sliderLine (S.bd b) (S.σ a) (S.σ k) = sliderLine b a k := by
  unfold sliderLine
  rw [S.bd_σ]
  cases b a with
  | none => rfl
  | some q =>
    obtain ⟨pt, c⟩ := q
    cases pt <;> simp only [Option.map, mapPiece, S.orth, S.diag]

theorem mem_pinnedSet_sym (p : Pos) (hu : KingUniq p.board p.stm) (x : Sq) :
    S.σ x ∈ pinnedSet (S.pos p) ↔ x ∈ pinnedSet p := by
  unfold pinnedSet
  show S.σ x ∈ (match kingSq? (S.bd p.board) (S.κ p.stm) with | some k => _ | none => _) ↔ _
  rw [S.kingSq?_sym hu]
  cases kingSq? p.board p.stm with
  | none => simp
  | some k =>
    simp only [Option.map, List.mem_filter, allSq, List.mem_finRange, true_and, pos]
    rw [S.isColor_sym]
    rw [show (List.finRange 64) = allSq from rfl, ← S.any_σ]
    apply Iff.of_eq; congr 2
    congr 1; funext a
    rw [← S.κ_other, S.isColor_sym, S.sliderLine_sym, S.sb, ← S.all_σ]
    congr 2; funext c
    rw [S.sb, S.σ_beq, S.bd_σ]; simp

/-! ### material -/
theorem map_σ_perm : (allSq.map S.σ).Perm allSq := by
  rw [List.perm_ext_iff_of_nodup]
  · intro a; simp only [List.mem_map, allSq, List.mem_finRange, true_and, iff_true]
    exact ⟨S.σ a, S.σσ a⟩
  · exact List.Pairwise.map _ (fun a b h h' => h (S.σ_inj.mp h')) (List.nodup_finRange 64)
  · exact List.nodup_finRange 64

/-- the contribution of one square to `menOf` -/
def manOf (b : Sq → Option Piece) (c : Color) (s : Sq) : Option Piece :=
  match b s with | some q => if q.c == c then some q else none | none => none
theorem menOf_eq (b : Sq → Option Piece) (c : Color) : menOf b c = allSq.filterMap (manOf b c) := rfl
theorem menOf_sym (b : Sq → Option Piece) (c : Color) :
    (menOf (S.bd b) (S.κ c)).Perm ((menOf b c).map (mapPiece S.κ)) := by
  rw [menOf_eq, menOf_eq]
  have h1 : allSq.filterMap (manOf (S.bd b) (S.κ c))
      = ((allSq.map S.σ).filterMap (manOf b c)).map (mapPiece S.κ) := by
    rw [List.filterMap_map, List.map_filterMap]
    congr 1; funext s
    simp only [manOf, bd, Function.comp]
    cases b (S.σ s) with
    | none => rfl
    | some q =>
      simp only [Option.map, mapPiece, S.κ_beq]
      split <;> rfl
  rw [h1]
  exact (S.map_σ_perm.filterMap _).map _

/-- the list form of `cannotMate` -/
def cannotMateL : List Piece → Bool
  | [] => true
  | [q] => q.pt == .bishop || q.pt == .knight
  | _ => false
theorem cannotMate_eq (b : Sq → Option Piece) (c : Color) :
    cannotMate b c = cannotMateL ((menOf b c).filter (fun q => q.pt != .king)) := by
  unfold cannotMate
  generalize (menOf b c).filter _ = l
  match l with
  | [] => rfl
  | [q] => rfl
  | _ :: _ :: _ => rfl
theorem cannotMateL_perm {l l' : List Piece} (h : l.Perm l') : cannotMateL l = cannotMateL l' := by
  match l, h with
  | [], h => rw [← h.nil_eq]
  | [q], h => rw [List.singleton_perm.mp h]
  | a :: b :: l, h =>
    match l', h with
    | [], h => exact absurd h.length_eq (by simp)
    | [q], h => exact absurd h.length_eq (by simp)
    | _ :: _ :: _, _ => rfl
theorem cannotMateL_map (l : List Piece) :
    cannotMateL (((l.map (mapPiece S.κ))).filter (fun q => q.pt != .king)) = cannotMateL (l.filter (fun q => q.pt != .king)) := by
  rw [List.filter_map]
  have : ((fun q : Piece => q.pt != .king) ∘ mapPiece S.κ) = (fun q : Piece => q.pt != .king) := rfl
  rw [this]
  generalize l.filter _ = l'
  match l' with
  | [] => rfl
  | [q] => rfl
  | _ :: _ :: _ => rfl

theorem cannotMate_sym (b : Sq → Option Piece) (c : Color) :
    cannotMate (S.bd b) (S.κ c) = cannotMate b c := by
  rw [cannotMate_eq, cannotMate_eq, cannotMateL_perm ((S.menOf_sym b c).filter _), S.cannotMateL_map]

theorem both_κ (f : Color → Bool) : (f (S.κ .white) && f (S.κ .black)) = (f .white && f .black) := by
  cases h : S.κ .white <;> cases h' : S.κ .black
  · exact absurd (S.κ_inj.mp (h.trans h'.symm)) (by decide)
  · rfl
  · exact Bool.and_comm _ _
  · exact absurd (S.κ_inj.mp (h.trans h'.symm)) (by decide)

end Sym

/-- castling corner / home-rank square, as written inside `Spec.apply`, `castleOk`, `applyBoard` -/
def csq (c : Color) (f : Nat) : Sq := ⟨((homeRank c).toNat * 8 + f) % 64, Nat.mod_lt _ (by decide)⟩

theorem Pos.ext' {p q : Pos} (h1 : p.board = q.board) (h2 : p.stm = q.stm) (h3 : p.rights = q.rights)
    (h4 : p.ep = q.ep) (h5 : p.half = q.half) (h6 : p.full = q.full) : p = q := by
  cases p; cases q; simp_all

/-- own castling rights after a move (as in `Spec.apply`) -/
def ownR (p : Pos) : Move → Rights
  | .castle _ => ⟨false, false⟩
  | .piece .king _ _ _ => ⟨false, false⟩
  | .piece .rook src _ _ => dropRights (p.rights p.stm) (src == csq p.stm 7) (src == csq p.stm 0)
  | _ => p.rights p.stm
/-- opponent's castling rights after a move (as in `Spec.apply`) -/
def oppR (p : Pos) : Move → Rights
  | .piece _ _ dst _ => dropRights (p.rights p.stm.other) (dst == csq p.stm.other 7) (dst == csq p.stm.other 0)
  | _ => p.rights p.stm.other
def epAfterF : Move → Option Sq
  | .piece .pawn src dst _ => if (dst.rank - src.rank).natAbs == 2 then mkSq? ((src.rank + dst.rank) / 2) dst.file else none
  | _ => none
def resetAfter (p : Pos) : Move → Bool
  | .piece pt src dst promo => pt == .pawn || isCapture p (.piece pt src dst promo)
  | _ => false

theorem apply_board_f (p : Pos) (m : Move) : (apply p m).board = applyBoard p m := rfl
theorem apply_stm_f (p : Pos) (m : Move) : (apply p m).stm = p.stm.other := rfl
theorem apply_rights (p : Pos) (m : Move) :
    (apply p m).rights = fun x => if x = p.stm then ownR p m else oppR p m := by
  cases m with
  | castle s => rfl
  | piece pt src dst promo => cases pt <;> rfl
theorem apply_ep_f (p : Pos) (m : Move) : (apply p m).ep = epAfterF m := by
  cases m with
  | castle s => rfl
  | piece pt src dst promo => cases pt <;> rfl
theorem apply_half (p : Pos) (m : Move) : (apply p m).half = if resetAfter p m then 0 else p.half + 1 := by
  cases m <;> rfl
theorem apply_full (p : Pos) (m : Move) : (apply p m).full = if p.stm = .black then p.full + 1 else p.full := rfl

namespace Sym
variable (S : Sym)

theorem isCapture_sym (p : Pos) (pt : PT) (src dst : Sq) (promo : Option PT) :
    isCapture (S.pos p) (.piece pt (S.σ src) (S.σ dst) promo) = isCapture p (.piece pt src dst promo) := by
  simp only [isCapture, pos, S.bd_σ, S.ep_beq]
  congr 1
  cases p.board dst <;> simp [mapPiece, S.κ_bne]

theorem epAfter_sym (m : Move) : epAfterF (S.mv m) = (epAfterF m).map S.σ := by
  cases m with
  | castle s => rfl
  | piece pt src dst promo =>
    cases pt <;> try rfl
    simp only [mv, epAfterF, S.dr_abs]
    by_cases h : ((dst.rank - src.rank).natAbs == 2) = true
    · rw [if_pos h, if_pos h]; exact S.mk_mid _ _ (by simpa using h)
    · rw [if_neg h, if_neg h]; rfl

theorem resetAfter_sym (p : Pos) (m : Move) : resetAfter (S.pos p) (S.mv m) = resetAfter p m := by
  cases m with
  | castle s => rfl
  | piece pt src dst promo => simp only [mv, resetAfter, S.isCapture_sym]

/-- The rights after the move commute with the symmetry as soon as the corner tests do
(true for the rank mirror; vacuous when there are no rights). -/
theorem apply_rights_sym (p : Pos) (m : Move)
    (hd : ∀ (c : Color) (s : Sq),
      dropRights (p.rights c) (S.σ s == csq (S.κ c) 7) (S.σ s == csq (S.κ c) 0) =
      dropRights (p.rights c) (s == csq c 7) (s == csq c 0)) :
    (apply (S.pos p) (S.mv m)).rights = fun c => (apply p m).rights (S.κ c) := by
  rw [apply_rights, apply_rights]
  funext x
  have e1 : (S.pos p).rights (S.pos p).stm = p.rights p.stm := by simp [pos, S.κκ]
  have e2 : (S.pos p).rights (S.pos p).stm.other = p.rights p.stm.other := by simp [pos, ← S.κ_other, S.κκ]
  have hx : (x = (S.pos p).stm) = (S.κ x = p.stm) := by
    simp only [pos]; exact propext ⟨fun h => by rw [h, S.κκ], fun h => by rw [← h, S.κκ]⟩
  simp only [hx]
  have ho : ownR (S.pos p) (S.mv m) = ownR p m := by
    cases m with
    | castle s => rfl
    | piece pt src dst promo =>
      cases pt <;> simp only [mv, ownR, e1]
      exact hd _ _
  have hp : oppR (S.pos p) (S.mv m) = oppR p m := by
    cases m with
    | castle s => simp only [mv, oppR, e2]
    | piece pt src dst promo =>
      simp only [mv, oppR, e2]
      have := hd p.stm.other dst
      rw [S.κ_other] at this
      exact this
  rw [ho, hp]

/-- all fields of the successor except `board` (castling), `rights` and `full` -/
theorem apply_sym_stm (p : Pos) (m : Move) : (apply (S.pos p) (S.mv m)).stm = S.κ (apply p m).stm := by
  simp only [apply_stm_f, pos, S.κ_other]
theorem apply_sym_ep (p : Pos) (m : Move) : (apply (S.pos p) (S.mv m)).ep = (apply p m).ep.map S.σ := by
  simp only [apply_ep_f, S.epAfter_sym]
theorem apply_sym_half (p : Pos) (m : Move) : (apply (S.pos p) (S.mv m)).half = (apply p m).half := by
  simp only [apply_half, S.resetAfter_sym]; rfl
theorem apply_sym_board_piece (p : Pos) (pt : PT) (src dst : Sq) (promo : Option PT) :
    (apply (S.pos p) (S.mv (.piece pt src dst promo))).board = S.bd (apply p (.piece pt src dst promo)).board := by
  simp only [apply_board_f, mv, S.applyBoard_piece_sym]

/-! ### status -/
/-- image of a status: the mated colour is transformed -/
def mapStatus : Status → Status
  | .checkmated c => .checkmated (S.κ c)
  | s => s

theorem legalMoves_isEmpty_sym (p : Pos) (hl : ∀ m, legal (S.pos p) (S.mv m) = legal p m) :
    (legalMoves (S.pos p)).isEmpty = (legalMoves p).isEmpty := by
  rw [Bool.eq_iff_iff, legalMoves_isEmpty_iff, legalMoves_isEmpty_iff]
  constructor
  · intro h m; rw [← hl]; exact h _
  · intro h m; rw [← S.mv_mv m, hl]; exact h _

theorem status_sym (p : Pos) (hu : KingUniq p.board p.stm) (hl : ∀ m, legal (S.pos p) (S.mv m) = legal p m) :
    status (S.pos p) = S.mapStatus (status p) := by
  unfold status
  rw [S.legalMoves_isEmpty_sym p hl]
  have h1 : inCheck (S.pos p).board (S.pos p).stm = inCheck p.board p.stm := S.inCheck_sym hu
  have h2 : (cannotMate (S.pos p).board .white && cannotMate (S.pos p).board .black) =
      (cannotMate p.board .white && cannotMate p.board .black) := by
    rw [← S.both_κ (cannotMate (S.pos p).board)]
    simp only [pos, S.cannotMate_sym]
  have h3 : (S.pos p).half = p.half := rfl
  rw [h1, h2, h3]
  cases (legalMoves p).isEmpty <;> cases inCheck p.board p.stm <;>
    cases (cannotMate p.board .white && cannotMate p.board .black) <;>
    by_cases h : p.half ≥ 100 <;> simp [h, mapStatus, pos]

end Sym
/-! ### validity ingredients -/
namespace Sym
variable (S : Sym)
theorem countPiece_sym (b : Sq → Option Piece) (pt : PT) (c : Color) :
    countPiece (S.bd b) ⟨pt, S.κ c⟩ = countPiece b ⟨pt, c⟩ := by
  unfold countPiece
  rw [← S.map_σ_perm.countP_eq, List.countP_map]
  congr 1; funext s
  simp only [Function.comp, bd, S.σσ]
  rw [S.map_beq_some]

theorem epOk_sym (p : Pos)
    (hrk : ∀ (s : Sq) (c : Color), ((S.σ s).rank == (if S.κ c == .white then 5 else 2)) = (s.rank == (if c == .white then 5 else 2))) :
    epOk (S.pos p) = epOk p := by
  unfold epOk
  cases he : p.ep with
  | none => simp [pos, he]
  | some e =>
    simp only [pos, he, Option.map_some, hrk, ← S.κ_other, S.mk_fwd, S.mk_back, S.bd_σ, Option.isNone_map]
    congr 1
    · congr 1
      cases mkSq? (e.rank + fwd p.stm.other) e.file with
      | none => rfl
      | some v => simp only [Option.map_some, S.bd_σ, S.map_beq_some]
    · cases mkSq? (e.rank - fwd p.stm.other) e.file with
      | none => rfl
      | some v => simp only [Option.map_some, S.bd_σ, Option.isNone_map]
end Sym

end Chess
