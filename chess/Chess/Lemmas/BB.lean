import Chess.Model.BB
/-! Set reasoning on bitboards: membership lemmas, extensionality, lowest/highest member,
the iterator specification (for ALL 2^64 bitboards) and population count facts. Core Lean only. -/
namespace Chess

@[simp] theorem mem_and (s : Sq) (a b : BB) : mem s (a &&& b) = (mem s a && mem s b) := by simp [mem]
@[simp] theorem mem_or (s : Sq) (a b : BB) : mem s (a ||| b) = (mem s a || mem s b) := by simp [mem]
@[simp] theorem mem_xor (s : Sq) (a b : BB) : mem s (a ^^^ b) = (mem s a ^^ mem s b) := by simp [mem]
@[simp] theorem mem_not (s : Sq) (a : BB) : mem s (~~~a) = !mem s a := by simp [mem, s.isLt]
@[simp] theorem mem_zero (s : Sq) : mem s (0#64) = false := by simp [mem]
@[simp] theorem mem_bbOf (s t : Sq) : mem s (bbOf t) = decide (s = t) := by
  simp only [mem, bbOf, BitVec.getLsbD_shiftLeft, BitVec.getLsbD_one]
  have := s.isLt; have := t.isLt
  by_cases h : s = t
  · subst h; simp [*]
  · have : s.val ≠ t.val := fun e => h (Fin.ext e)
    simp only [h, decide_false]
    by_cases h2 : s.val < t.val
    · simp [h2]
    · simp [h2]; omega

theorem bb_ext {a b : BB} (h : ∀ s : Sq, mem s a = mem s b) : a = b := by
  apply BitVec.eq_of_getLsbD_eq
  intro i hi
  exact h ⟨i, hi⟩

theorem eq_zero_iff (b : BB) : b = 0#64 ↔ ∀ s : Sq, mem s b = false := by
  constructor
  · intro h s; subst h; simp
  · intro h; apply bb_ext; intro s; simp [h s]

theorem find?_sorted {α} [LT α] (l : List α) (p : α → Bool) (s : α)
    (hs : l.Pairwise (· < ·)) (hirr : ∀ a : α, ¬ a < a) (hasym : ∀ a b : α, a < b → ¬ b < a) :
    l.find? p = some s ↔ (s ∈ l ∧ p s = true ∧ ∀ t ∈ l, t < s → p t = false) := by
  induction l with
  | nil => simp
  | cons x xs ih =>
    rw [List.pairwise_cons] at hs
    obtain ⟨hx, hxs⟩ := hs
    by_cases hp : p x = true
    · simp only [List.find?_cons_of_pos hp, Option.some.injEq, List.mem_cons]
      constructor
      · rintro rfl
        refine ⟨Or.inl rfl, hp, ?_⟩
        intro t ht hlt
        rcases ht with rfl | ht
        · exact absurd hlt (hirr _)
        · exact absurd hlt (hasym _ _ (hx t ht))
      · rintro ⟨hmem, hps, hall⟩
        rcases hmem with rfl | hmem
        · rfl
        · have := hall x (Or.inl rfl) (hx s hmem)
          simp [hp] at this
    · have hp' : p x = false := by simpa using hp
      simp only [List.find?_cons_of_neg (by simpa using hp'), List.mem_cons, ih hxs]
      constructor
      · rintro ⟨hmem, hps, hall⟩
        refine ⟨Or.inr hmem, hps, ?_⟩
        intro t ht hlt
        rcases ht with rfl | ht
        · exact hp'
        · exact hall t ht hlt
      · rintro ⟨hmem, hps, hall⟩
        rcases hmem with rfl | hmem
        · simp [hp'] at hps
        · exact ⟨hmem, hps, fun t ht hlt => hall t (Or.inr ht) hlt⟩

theorem lowest_none (b : BB) : lowest b = none ↔ b = 0#64 := by
  rw [eq_zero_iff]
  simp only [lowest, List.find?_eq_none]
  constructor
  · intro h s; have := h s (List.mem_finRange s); simpa using this
  · intro h s _; simp [h s]

theorem lowest_some (b : BB) (s : Sq) : lowest b = some s ↔ (mem s b = true ∧ ∀ t : Sq, t < s → mem t b = false) := by
  unfold lowest allSq
  rw [find?_sorted _ _ _ (List.pairwise_lt_finRange 64) (fun a => Nat.lt_irrefl _) (fun a b h => Nat.lt_asymm h)]
  constructor
  · rintro ⟨_, h1, h2⟩; exact ⟨h1, fun t ht => h2 t (List.mem_finRange t) ht⟩
  · rintro ⟨h1, h2⟩; exact ⟨List.mem_finRange s, h1, fun t _ ht => h2 t ht⟩

/-- generalisation: popping from `b` with enough fuel lists the members of `b` in `l` order,
    where `l` is a sorted suffix of the squares containing all members of `b`. -/
theorem toListAux_spec (l : List Sq) (hl : l.Pairwise (· < ·)) :
    ∀ (n : Nat) (b : BB), l.length ≤ n → (∀ s, mem s b = true → s ∈ l) →
      toListAux n b = l.filter (mem · b) := by
  induction l with
  | nil =>
    intro n b _ hb
    have hz : b = 0#64 := (eq_zero_iff b).2 (fun s => by
      cases h : mem s b with
      | false => rfl
      | true => exact absurd (hb s h) (by simp))
    subst hz
    cases n <;> simp [toListAux, (lowest_none _).2 rfl]
  | cons x xs ih =>
    intro n b hn hb
    rw [List.pairwise_cons] at hl
    obtain ⟨hx, hxs⟩ := hl
    cases n with
    | zero => simp at hn
    | succ n =>
      have hn' : xs.length ≤ n := by simpa using hn
      by_cases hxb : mem x b = true
      · -- x is the lowest member
        have hlow : lowest b = some x := by
          rw [lowest_some]
          refine ⟨hxb, fun t ht => ?_⟩
          cases h : mem t b with
          | false => rfl
          | true =>
            rcases List.mem_cons.1 (hb t h) with rfl | hmem
            · exact absurd ht (Nat.lt_irrefl _)
            · exact absurd ht (Nat.lt_asymm (hx t hmem))
        simp only [toListAux, hlow, List.filter_cons, hxb, if_true]
        congr 1
        have hnotin : x ∉ xs := fun hm => absurd (hx x hm) (Nat.lt_irrefl _)
        rw [ih hxs n (b ^^^ bbOf x) hn' ?_]
        · apply List.filter_congr
          intro t ht
          have : t ≠ x := fun e => hnotin (e ▸ ht)
          simp [this]
        · intro s hs
          have hsx : s ≠ x := by
            rintro rfl; simp [hxb] at hs
          have hsb : mem s b = true := by simpa [hsx] using hs
          rcases List.mem_cons.1 (hb s hsb) with rfl | h
          · exact absurd rfl hsx
          · exact h
      · have hxb' : mem x b = false := by simpa using hxb
        simp only [List.filter_cons, hxb', Bool.false_eq_true, if_false]
        -- toListAux (n+1) b = toListAux n b when ... need monotonicity in fuel; instead apply ih at n+1
        exact ih hxs (n+1) b (Nat.le_succ_of_le hn') (fun s hs => by
          rcases List.mem_cons.1 (hb s hs) with rfl | h
          · simp [hxb'] at hs
          · exact h)

theorem toList_spec (b : BB) : toList b = allSq.filter (mem · b) := by
  unfold toList
  exact toListAux_spec allSq (List.pairwise_lt_finRange 64) 64 b (by simp [allSq]) (fun s _ => List.mem_finRange s)


theorem mem_toList (b : BB) (s : Sq) : s ∈ toList b ↔ mem s b = true := by
  simp [toList_spec, allSq, List.mem_finRange]

theorem popcount_zero (b : BB) : popcount b = 0 ↔ b = 0#64 := by
  unfold popcount
  rw [List.length_eq_zero_iff, eq_zero_iff]
  constructor
  · intro h s
    cases hm : mem s b with
    | false => rfl
    | true => have := (mem_toList b s).2 hm; simp [h] at this
  · intro h
    rw [toList_spec]; simp [h]

theorem toList_nodup (b : BB) : (toList b).Nodup := by
  rw [toList_spec]; exact (List.nodup_finRange 64).filter _

theorem popcount_one (b : BB) : popcount b = 1 ↔ ∃ s, mem s b = true ∧ ∀ t, mem t b = true → t = s := by
  unfold popcount
  constructor
  · intro h
    match hl : toList b, h with
    | [s], _ =>
      refine ⟨s, (mem_toList b s).1 (by simp [hl]), fun t ht => ?_⟩
      have := (mem_toList b t).2 ht
      simpa [hl] using this
  · rintro ⟨s, hs, huniq⟩
    have hnd := toList_nodup b
    match hl : toList b with
    | [] => have := (mem_toList b s).2 hs; simp [hl] at this
    | [_] => rfl
    | x :: y :: r =>
      have hx : x = s := huniq x ((mem_toList b x).1 (by simp [hl]))
      have hy : y = s := huniq y ((mem_toList b y).1 (by simp [hl]))
      rw [hl] at hnd
      simp [hx, hy] at hnd


end Chess
