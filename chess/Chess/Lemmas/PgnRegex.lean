import Chess.Model.PgnRegex
import Chess.Lemmas.Pgn
/-! Generic facts about the backtracking matcher of `Chess/Model/PgnRegex.lean`:

* locality — a character that no piece of a pattern accepts cuts the text: matching before it does not depend on what
  follows (`LocalC`, `moveRe_local`, `resultRe_local`), hence `findAll` distributes over such a character
  (`findAll_append_sep`);
* a function that distributes over spaces and newlines sees the wrapped text as the list of its words (`additive_wrap`). -/
namespace Chess
namespace PgnRegex
open Chess.Game

/-! ### locality -/

/-- the continuation `k` does not look beyond the character `c` (it can neither consume it nor depend on what follows) -/
def LocalC (c : Char) (r : Str) (k : Cont) : Prop := ∀ w, k (w ++ c :: r) = (k w).map (· ++ c :: r)

theorem local_some (c : Char) (r : Str) : LocalC c r some := fun _ => rfl

theorem local_star {c : Char} {r : Str} {p : Char → Bool} {k : Cont} (hp : p c = false) (hk : LocalC c r k) :
    LocalC c r (star p k) := by
  intro w
  induction w with
  | nil =>
    show star p k (c :: r) = (star p k []).map _
    rw [star, star, if_neg (by simp [hp])]
    exact hk []
  | cons a w ih =>
    rw [List.cons_append, star, star]
    by_cases ha : p a = true
    · rw [if_pos ha, if_pos ha, ih]
      cases h : star p k w with
      | some x => rfl
      | none => exact hk (a :: w)
    · rw [if_neg ha, if_neg ha]; exact hk (a :: w)

theorem local_one {c : Char} {r : Str} {p : Char → Bool} {k : Cont} (hp : p c = false) (hk : LocalC c r k) :
    LocalC c r (one p k) := by
  intro w
  cases w with
  | nil =>
    show one p k (c :: r) = (one p k []).map _
    rw [one, one, if_neg (by simp [hp])]; rfl
  | cons a w =>
    rw [List.cons_append, one, one]
    by_cases ha : p a = true
    · rw [if_pos ha, if_pos ha]; exact hk w
    · rw [if_neg ha, if_neg ha]; rfl

theorem local_lit {c : Char} {r : Str} (s : Str) {k : Cont} (hs : c ∉ s) (hk : LocalC c r k) :
    LocalC c r (lit s k) := by
  induction s with
  | nil => exact hk
  | cons a s ih =>
    rw [lit]
    refine local_one ?_ (ih (fun h => hs (by simp [h])))
    have : c ≠ a := fun e => hs (by simp [e])
    simpa using this

theorem local_opt {c : Char} {r : Str} {m : Cont → Cont} {k : Cont} (hm : LocalC c r (m k)) (hk : LocalC c r k) :
    LocalC c r (opt m k) := by
  intro w
  unfold opt
  rw [hm w, hk w]
  cases m k w <;> rfl

theorem local_alt {c : Char} {r : Str} {m₁ m₂ : Cont → Cont} {k : Cont} (h₁ : LocalC c r (m₁ k)) (h₂ : LocalC c r (m₂ k)) :
    LocalC c r (alt m₁ m₂ k) := by
  intro w
  unfold alt
  rw [h₁ w, h₂ w]
  cases m₁ k w <;> rfl

theorem local_starM {c : Char} {r : Str} {m : Cont → Cont} {k : Cont} (hm : ∀ k', LocalC c r k' → LocalC c r (m k'))
    (hk : LocalC c r k) (fuel : Nat) : LocalC c r (starM m k fuel) := by
  induction fuel with
  | zero => exact hk
  | succ n ih =>
    intro w
    rw [starM]
    show (match m (starM m k n) (w ++ c :: r) with | some r => some r | none => k (w ++ c :: r)) = _
    rw [hm _ ih w, hk w]
    show _ = Option.map _ (match m (starM m k n) w with | some r => some r | none => k w)
    cases m (starM m k n) w <;> rfl

/-- no piece of the move pattern accepts the character -/
def InertMove (c : Char) : Prop :=
  clsPiece c = false ∧ clsFile c = false ∧ clsRank c = false ∧ clsX c = false ∧ clsPromo c = false ∧
  c ∉ ['O', '-', '=', '+', '#']

theorem inert_space : InertMove ' ' := by unfold InertMove; decide
theorem inert_nl : InertMove '\n' := by unfold InertMove; decide

theorem suffixRe_local {c : Char} {r : Str} (h : InertMove c) {k : Cont} (hk : LocalC c r k) : LocalC c r (suffixRe k) := by
  obtain ⟨_, _, _, _, h5, h6⟩ := h
  simp only [List.mem_cons, List.not_mem_nil, or_false, not_or] at h6
  unfold suffixRe
  have e1 : LocalC c r (opt (one (· == '#')) k) := local_opt (local_one (by simpa using h6.2.2.2.2) hk) hk
  have e2 : LocalC c r (opt (one (· == '+')) (opt (one (· == '#')) k)) :=
    local_opt (local_one (by simpa using h6.2.2.2.1) e1) e1
  exact local_opt (local_one (by simpa using h6.2.2.1) (local_one h5 e2)) e2

theorem moveRe_local {c : Char} (h : InertMove c) (r : Str) : LocalC c r (moveRe some) := by
  have hs := suffixRe_local (r := r) h (local_some c r)
  obtain ⟨h1, h2, h3, h4, _, h6⟩ := h
  unfold moveRe
  refine local_alt ?_ ?_
  · exact local_star h1 (local_star h2 (local_star h3 (local_star h4 (local_one h2 (local_one h3 hs)))))
  · unfold castleAlt
    have a1 : c ∉ ['O', '-', 'O'] := by
      intro hm; apply h6
      simp only [List.mem_cons, List.not_mem_nil, or_false] at hm
      rcases hm with rfl | rfl | rfl <;> decide
    have a2 : c ∉ ['-', 'O'] := by
      intro hm; apply h6
      simp only [List.mem_cons, List.not_mem_nil, or_false] at hm
      rcases hm with rfl | rfl <;> decide
    exact local_lit _ a1 (local_opt (local_lit _ a2 hs) hs)

/-- no piece of the result pattern accepts the character -/
def InertResult (c : Char) : Prop := c ∉ ['1', '-', '0', '/', '2']

theorem resultRe_local {c : Char} (h : InertResult c) (r : Str) : LocalC c r (resultRe some) := by
  unfold InertResult at h
  simp only [List.mem_cons, List.not_mem_nil, or_false, not_or] at h
  unfold resultRe
  refine local_alt (local_lit _ ?_ (local_some c r)) (local_alt (local_lit _ ?_ (local_some c r)) (local_lit _ ?_ (local_some c r)))
  all_goals simp only [List.mem_cons, List.not_mem_nil, or_false, not_or]; simp [h]

/-! ### searching -/

theorem matchAt_local {re : Cont → Cont} {c : Char} {r : Str} (h : LocalC c r (re some)) (w : Str) :
    matchAt re (w ++ c :: r) = (matchAt re w).map fun tr => (tr.1, tr.2 ++ c :: r) := by
  unfold matchAt
  rw [h w]
  cases re some w with
  | none => rfl
  | some rest =>
    simp only [Option.map_some, List.length_append, List.length_cons]
    rw [show w.length + (r.length + 1) - (rest.length + (r.length + 1)) = w.length - rest.length by omega,
      List.take_append_of_le_length (by omega)]

/-- the token is a prefix of the text -/
theorem matchAt_tok_length {re : Cont → Cont} {s tok rest : Str} (h : matchAt re s = some (tok, rest)) : tok.length ≤ s.length := by
  unfold matchAt at h
  cases hr : re some s with
  | none => rw [hr] at h; cases h
  | some x =>
    rw [hr] at h
    simp only [Option.some.injEq, Prod.mk.injEq] at h
    rw [← h.1, List.length_take]; omega

theorem findAllFrom_nil (re : Cont → Cont) (n : Nat) : findAllFrom re n [] = [] := by
  cases n <;> rfl

theorem findAllFrom_succ (re : Cont → Cont) (n : Nat) (c : Char) (cs : Str) :
    findAllFrom re (n + 1) (c :: cs) = findAllFrom re n cs := rfl

theorem findAllFrom_zero (re : Cont → Cont) (c : Char) (cs : Str) :
    findAllFrom re 0 (c :: cs) =
      match matchAt re (c :: cs) with
      | some (tok, _) => tok :: findAllFrom re (tok.length - 1) cs
      | none => findAllFrom re 0 cs := rfl

/-- skipping the whole text -/
theorem findAllFrom_skip_all (re : Cont → Cont) (s : Str) (n : Nat) (h : s.length ≤ n) : findAllFrom re n s = [] := by
  induction s generalizing n with
  | nil => exact findAllFrom_nil re n
  | cons c cs ih =>
    cases n with
    | zero => simp at h
    | succ n => rw [findAllFrom_succ]; exact ih n (by simpa using h)

/-- where no match starts, the search moves on -/
theorem findAll_cons_none (re : Cont → Cont) (c : Char) (cs : Str) (h : matchAt re (c :: cs) = none) :
    findAll re (c :: cs) = findAll re cs := by
  unfold findAll; rw [findAllFrom_zero, h]

theorem matchAt_none {re : Cont → Cont} {s : Str} (h : re some s = none) : matchAt re s = none := by
  unfold matchAt; rw [h]

theorem matchAt_all {re : Cont → Cont} {s : Str} (h : re some s = some []) : matchAt re s = some (s, []) := by
  unfold matchAt; rw [h]; simp

/-- a text that matches as a whole is its only token -/
theorem findAll_whole (re : Cont → Cont) (s : Str) (hne : s ≠ []) (h : re some s = some []) : findAll re s = [s] := by
  cases s with
  | nil => exact absurd rfl hne
  | cons c cs =>
    unfold findAll
    rw [findAllFrom_zero, matchAt_all h]
    simp only [List.length_cons, Nat.add_sub_cancel]
    rw [findAllFrom_skip_all re cs _ (Nat.le_refl _)]

/-- the search distributes over a character that the pattern cannot touch -/
theorem findAllFrom_append_sep {re : Cont → Cont} {c : Char} (hloc : ∀ r, LocalC c r (re some)) (hne : re some [] = none)
    (w r : Str) (n : Nat) (hn : n ≤ w.length) :
    findAllFrom re n (w ++ c :: r) = findAllFrom re n w ++ findAllFrom re 0 r := by
  induction w generalizing n with
  | nil =>
    have : n = 0 := by simpa using hn
    subst this
    rw [List.nil_append, findAllFrom_zero, findAllFrom_nil, List.nil_append]
    have h0 := matchAt_local (hloc r) []
    rw [List.nil_append, matchAt_none hne] at h0
    rw [h0]; rfl
  | cons a w ih =>
    rw [List.cons_append]
    cases n with
    | succ n => rw [findAllFrom_succ, findAllFrom_succ]; exact ih n (by simpa using hn)
    | zero =>
      rw [findAllFrom_zero, findAllFrom_zero]
      have hm := matchAt_local (hloc r) (a :: w)
      rw [List.cons_append] at hm
      rw [hm]
      cases h : matchAt re (a :: w) with
      | none => exact ih 0 (Nat.zero_le _)
      | some tr =>
        obtain ⟨tok, rest⟩ := tr
        have hl := matchAt_tok_length h
        simp only [Option.map_some, List.cons_append]
        rw [ih (tok.length - 1) (by simp at hl; omega)]

theorem findAll_append_sep {re : Cont → Cont} {c : Char} (hloc : ∀ r, LocalC c r (re some)) (hne : re some [] = none)
    (w r : Str) : findAll re (w ++ c :: r) = findAll re w ++ findAll re r :=
  findAllFrom_append_sep hloc hne w r 0 (Nat.zero_le _)

theorem findAll_nil (re : Cont → Cont) : findAll re [] = [] := rfl

/-! ### wrapped text, seen by a function that distributes over spaces and newlines -/

theorem additive_wrap_go {α} (F : Str → List α) (h0 : F [] = [])
    (hsp : ∀ a b, F (a ++ ' ' :: b) = F a ++ F b) (hnl : ∀ a b, F (a ++ '\n' :: b) = F a ++ F b)
    (w : Nat) (ws : List Str) (cur : Str) :
    F (joinWith ['\n'] (wrapWords.go w cur ws)) = F cur ++ ws.flatMap F := by
  induction ws generalizing cur with
  | nil =>
    rw [wrapWords_go_nil]
    cases cur with
    | nil => simp [joinWith, h0]
    | cons c cs => simp [joinWith]
  | cons x xs ih =>
    rw [wrapWords_go_cons, List.flatMap_cons]
    by_cases h1 : cur.isEmpty = true
    · rw [if_pos h1, ih]
      have : cur = [] := by simpa using h1
      subst this; simp [h0]
    · rw [if_neg h1]
      by_cases h2 : cur.length + 1 + x.length ≤ w
      · rw [if_pos h2, ih, List.append_assoc, List.singleton_append, hsp, List.append_assoc]
      · rw [if_neg h2, joinWith_cons]
        by_cases h3 : wrapWords.go w x xs = []
        · have e := ih x
          rw [h3] at e
          rw [if_pos h3]
          simp only [joinWith, h0] at e
          rw [← e, List.append_nil]
        · rw [if_neg h3, List.append_assoc, List.singleton_append, hnl, ih]

/-- for every width, `F` of the wrapped text is `F` word by word -/
theorem additive_wrap {α} (F : Str → List α) (h0 : F [] = [])
    (hsp : ∀ a b, F (a ++ ' ' :: b) = F a ++ F b) (hnl : ∀ a b, F (a ++ '\n' :: b) = F a ++ F b)
    (w : Nat) (ws : List Str) : F (joinWith ['\n'] (wrapWords w ws)) = ws.flatMap F := by
  unfold wrapWords
  rw [additive_wrap_go F h0 hsp hnl, h0, List.nil_append]

end PgnRegex
end Chess
