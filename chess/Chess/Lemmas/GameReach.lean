import Chess.Props.C12
/-! Reachable games and the frame lemmas of the `Game` operations (what `updateStatus`, `counterIncrement`,
`ofBoard` and `act` do to the position, the history and the occurrence counter).  Used by C11 and C13. -/
namespace Chess
open Chess.Game

/-- the games a caller can hold: `Game::from_board` followed by accepted actions -/
inductive GameReach (K : Keys) : Game → Prop
  | init (b : Board) : GameReach K (Game.ofBoard b)
  | step {g g' : Game} (a : Action) : GameReach K g → g.act K a = .ok g' → GameReach K g'

theorem GameReach.ofC12 {K : Keys} {g : Game} (h : C12.Reach K g) : GameReach K g := by
  induction h with
  | init b => exact .init b
  | step g g' a _ ha ih => exact .step a ih ha

theorem GameReach.toC12 {K : Keys} {g : Game} (h : GameReach K g) : C12.Reach K g := by
  induction h with
  | init b => exact .init b
  | step a _ ha ih => exact .step _ _ a ih ha

namespace Game
variable (K : Keys)

/-! ### frames -/
@[simp] theorem updateStatus_position (g : Game) (l : Option Action) : (g.updateStatus l).position = g.position := by
  unfold updateStatus; exact C12.setStatus_position _ _
@[simp] theorem updateStatus_history (g : Game) (l : Option Action) : (g.updateStatus l).history = g.history := by
  unfold updateStatus; exact C12.setStatus_history _ _
@[simp] theorem updateStatus_counter (g : Game) (l : Option Action) : (g.updateStatus l).counter = g.counter := by
  unfold updateStatus; exact C12.setStatus_counter _ _
@[simp] theorem counterIncrement_position (g : Game) : g.counterIncrement.position = g.position := rfl
@[simp] theorem counterIncrement_history (g : Game) : g.counterIncrement.history = g.history := rfl
@[simp] theorem counterIncrement_status (g : Game) : g.counterIncrement.status = g.status := rfl

/-! ### the occurrence counter as an association list -/

/-- lookup in the association list -/
def cget (l : List (BB × Nat)) (h : BB) : Nat := match l.find? (·.1 == h) with | some e => e.2 | none => 0
/-- `BTreeMap::insert` of `(k, n)` -/
def cins (l : List (BB × Nat)) (k : BB) (n : Nat) : List (BB × Nat) :=
  if l.any (·.1 == k) then l.map (fun e => if e.1 == k then (k, n) else e) else l ++ [(k, n)]

theorem counterGet_eq (g : Game) (h : BB) : g.counterGet h = cget g.counter h := rfl
theorem counterIncrement_counter (g : Game) :
    g.counterIncrement.counter = cins g.counter g.position.hash (cget g.counter g.position.hash + 1) := rfl

@[simp] theorem cget_nil (h : BB) : cget [] h = 0 := rfl
theorem cget_cons (e : BB × Nat) (l : List (BB × Nat)) (h : BB) :
    cget (e :: l) h = if e.1 == h then e.2 else cget l h := by
  unfold cget; rw [List.find?_cons]; by_cases he : e.1 == h <;> simp [he]

theorem cget_map (l : List (BB × Nat)) (k : BB) (n : Nat) (h : BB) :
    cget (l.map (fun e => if e.1 == k then (k, n) else e)) h =
      if k == h then (if l.any (·.1 == k) then n else 0) else cget l h := by
  induction l with
  | nil => simp
  | cons e l ih =>
    rw [List.map_cons, cget_cons, ih, cget_cons, List.any_cons]
    by_cases hek : e.1 = k
    · subst hek
      by_cases hkh : e.1 = h
      · simp [hkh]
      · simp [hkh]
    · have hek' : (e.1 == k) = false := by simpa using hek
      by_cases hkh : k = h
      · subst hkh; simp only [hek', Bool.false_or]; simp [hek]
      · simp only [hek', Bool.false_or]; simp [hkh]

theorem cget_append_of_not_any (l : List (BB × Nat)) (k : BB) (n : Nat) (h : BB) (hn : l.any (·.1 == k) = false) :
    cget (l ++ [(k, n)]) h = if k == h then n else cget l h := by
  induction l with
  | nil => simp [cget_cons]
  | cons e l ih =>
    rw [List.any_cons, Bool.or_eq_false_iff] at hn
    rw [List.cons_append, cget_cons, ih hn.2, cget_cons]
    by_cases hkh : k == h
    · have hkh' : k = h := by simpa using hkh
      have : (e.1 == h) = false := by rw [← hkh']; exact hn.1
      simp [hkh, this]
    · simp [hkh]

theorem cget_of_not_any (l : List (BB × Nat)) (k : BB) (hn : l.any (·.1 == k) = false) : cget l k = 0 := by
  induction l with
  | nil => rfl
  | cons e l ih =>
    rw [List.any_cons, Bool.or_eq_false_iff] at hn
    rw [cget_cons, ih hn.2]; simp [hn.1]

/-- lookup after insert -/
theorem cget_cins (l : List (BB × Nat)) (k : BB) (n : Nat) (h : BB) :
    cget (cins l k n) h = if k == h then n else cget l h := by
  unfold cins
  by_cases ha : l.any (·.1 == k) = true
  · rw [if_pos ha, cget_map, ha]; simp
  · have ha' : l.any (·.1 == k) = false := Bool.eq_false_iff.2 ha
    rw [if_neg ha, cget_append_of_not_any _ _ _ _ ha']

/-- the keys of the association list -/
def ckeys (l : List (BB × Nat)) : List BB := l.map (·.1)

theorem ckeys_cins (l : List (BB × Nat)) (k : BB) (n : Nat) :
    ckeys (cins l k n) = if l.any (·.1 == k) then ckeys l else ckeys l ++ [k] := by
  unfold cins ckeys
  by_cases ha : l.any (·.1 == k) = true
  · rw [if_pos ha, if_pos ha, List.map_map]
    apply List.map_congr_left
    intro e _
    by_cases he : e.1 == k
    · have : e.1 = k := by simpa using he
      simp [this]
    · have : e.1 ≠ k := by simpa using he
      simp [this]
  · rw [if_neg ha, if_neg ha]; simp

theorem any_key_iff (l : List (BB × Nat)) (k : BB) : l.any (·.1 == k) = true ↔ k ∈ ckeys l := by
  unfold ckeys
  simp only [List.any_eq_true, List.mem_map, beq_iff_eq]

theorem ckeys_cins_nodup (l : List (BB × Nat)) (k : BB) (n : Nat) (h : (ckeys l).Nodup) : (ckeys (cins l k n)).Nodup := by
  rw [ckeys_cins]
  by_cases ha : l.any (·.1 == k) = true
  · rw [if_pos ha]; exact h
  · rw [if_neg ha]
    have : k ∉ ckeys l := fun hk => ha ((any_key_iff l k).2 hk)
    rw [List.nodup_append]
    refine ⟨h, by simp, ?_⟩
    intro a ha' b hb
    simp only [List.mem_singleton] at hb
    subst hb
    intro hab; subst hab; exact this ha'

/-- the effect of `position_counter_increment` on every lookup -/
theorem counterIncrement_get (g : Game) (h : BB) :
    g.counterIncrement.counterGet h = g.counterGet h + (if g.position.hash == h then 1 else 0) := by
  rw [counterGet_eq, counterIncrement_counter, cget_cins, counterGet_eq]
  by_cases hk : g.position.hash == h
  · have : g.position.hash = h := by simpa using hk
    simp [this]
  · simp [hk]

/-! ### the initial game -/
@[simp] theorem ofBoard_position (b : Board) : (ofBoard b).position = b := by simp [ofBoard]
@[simp] theorem ofBoard_history (b : Board) : (ofBoard b).history = History.fromPosition b := by simp [ofBoard]
theorem ofBoard_counter (b : Board) : (ofBoard b).counter = [(b.hash, 1)] := by
  simp [ofBoard, counterIncrement_counter, cins]

/-! ### the two kinds of accepted action -/

/-- An accepted action is either a legal move — the position becomes the moved board, the history gains
one position, one move and one property record, the counter is incremented at the new position — or a
non-move, which changes neither position, history nor counter. -/
theorem act_cases (g g' : Game) (a : Action) (h : g.act K a = .ok g') :
    (∃ m nb mp, a = .move m ∧ g.status = .ongoing ∧ g.position.makeMove K m = .ok nb ∧
        g.position.moveProps K m = .ok mp ∧ g'.position = nb ∧
        g'.history = ⟨g.history.positions ++ [nb], g.history.moves ++ [m], g.history.props ++ [mp]⟩ ∧
        g'.counter = ({ g with position := nb } : Game).counterIncrement.counter) ∨
    ((∀ m, a ≠ .move m) ∧ g'.position = g.position ∧ g'.history = g.history ∧ g'.counter = g.counter) := by
  unfold act at h
  split at h
  · rename_i hs
    split at h
    · rename_i m
      split at h
      · rename_i nb hnb
        split at h
        · cases h
        · rename_i mp hmp
          simp only [Except.ok.injEq] at h; subst h
          left
          refine ⟨m, nb, mp, rfl, hs, hnb, hmp, ?_, ?_, ?_⟩ <;> simp
      · cases h
    · cases h
    · cases h
    · simp only [Except.ok.injEq] at h; subst h
      right
      refine ⟨?_, by simp, by simp, by simp⟩
      intro m hm; subst hm; simp_all
  · split at h
    · cases h
    · cases h
    · simp only [Except.ok.injEq] at h; subst h
      right
      refine ⟨?_, by simp, by simp, by simp⟩
      intro m hm; subst hm; simp_all
  · cases h

theorem makeMove_ok {b nb : Board} {m : Move} (h : b.makeMove K m = .ok nb) :
    b.isLegalMove K m = true ∧ nb = b.makeMoveUnchecked K m := by
  unfold Board.makeMove at h
  split at h
  · rename_i hl; cases h; exact ⟨hl, rfl⟩
  · cases h

end Game
end Chess
