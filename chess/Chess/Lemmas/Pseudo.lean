import Chess.Lemmas.Rep
import Chess.Lemmas.Valid
import Chess.Props.C17
import Chess.Lemmas.PseudoGeo
/-! # Pseudo-legal destination masks (`get_piece_moves_mask`) equal the movement rules (part of C01)

Set reasoning over arbitrary occupancies (all 2^64 bitboards) on top of finite table facts.
* `pseudoDest`, `promoOk`, `pseudo_eq` : `Spec.pseudo` = destination rule ∧ promotion rule
* `highest_none`, `highest_some`       : duals of `lowest_none/some`
* `raySeg_spec`                        : a truncated ray = ray squares up to and including the nearest blocker
* `truncateRays_spec`                  : XOR accumulation of pairwise disjoint rays is their union
* `pieceMovesMask_spec`                : MAIN, for every piece type -/
namespace Chess
open Chess.Spec Chess.C17 Chess.PseudoGeo

/-! ## 1. the promotion-free part of `Spec.pseudo` -/
namespace Spec

/-- `Spec.pseudo` without the promotion conjuncts: own man of type `pt` on `src`, `dst` not own, movement geometry -/
def pseudoDest (p : Pos) (pt : PT) (src dst : Sq) : Bool :=
  p.board src == some ⟨pt, p.stm⟩ &&
  (match p.board dst with | some q => q.c != p.stm | none => true) &&
  (match pt with
   | .pawn =>
      let dr := dst.rank - src.rank; let df := dst.file - src.file
      let f := fwd p.stm
      ((df == 0 && dr == f && (p.board dst).isNone) ||
       (df == 0 && dr == 2 * f && src.rank == pawnRank p.stm && (p.board dst).isNone &&
          (match mkSq? (src.rank + f) src.file with | some m => (p.board m).isNone | none => false)) ||
       (df.natAbs == 1 && dr == f && ((p.board dst).isSome || p.ep == some dst)))
   | _ => attacks p.board src dst)

/-- the promotion conjunct of `Spec.pseudo` -/
def promoOk (p : Pos) (pt : PT) (dst : Sq) (promo : Option PT) : Bool :=
  match pt with
  | .pawn =>
      if dst.rank == lastRank p.stm then promo == some .knight || promo == some .bishop || promo == some .rook || promo == some .queen
      else promo == none
  | _ => promo == none

theorem pseudo_eq (p : Pos) (pt : PT) (src dst : Sq) (promo : Option PT) :
    pseudo p pt src dst promo = (pseudoDest p pt src dst && promoOk p pt dst promo) := by
  cases pt <;> simp only [pseudo, pseudoDest, promoOk, Bool.and_assoc] <;> rfl

end Spec

/-! ## 2a. `highest` -/

theorem find?_sorted_rel {α} (r : α → α → Prop) (l : List α) (p : α → Bool) (s : α)
    (hs : l.Pairwise r) (hirr : ∀ a : α, ¬ r a a) (hasym : ∀ a b : α, r a b → ¬ r b a) :
    l.find? p = some s ↔ (s ∈ l ∧ p s = true ∧ ∀ t ∈ l, r t s → p t = false) := by
  induction l with
  | nil => simp
  | cons x xs ih =>
    rw [List.pairwise_cons] at hs
    obtain ⟨hx, hxs⟩ := hs
    by_cases hp : p x = true
    · simp only [List.find?_cons_of_pos hp, Option.some.injEq, List.mem_cons]
      constructor
      · rintro rfl
        refine ⟨Or.inl rfl, hp, ?_⟩
        intro t ht hlt
        rcases ht with rfl | ht
        · exact absurd hlt (hirr _)
        · exact absurd hlt (hasym _ _ (hx t ht))
      · rintro ⟨hmem, hps, hall⟩
        rcases hmem with rfl | hmem
        · rfl
        · have := hall x (Or.inl rfl) (hx s hmem)
          simp [hp] at this
    · have hp' : p x = false := by simpa using hp
      simp only [List.find?_cons_of_neg (by simpa using hp'), List.mem_cons, ih hxs]
      constructor
      · rintro ⟨hmem, hps, hall⟩
        refine ⟨Or.inr hmem, hps, ?_⟩
        intro t ht hlt
        rcases ht with rfl | ht
        · exact hp'
        · exact hall t ht hlt
      · rintro ⟨hmem, hps, hall⟩
        rcases hmem with rfl | hmem
        · simp [hp'] at hps
        · exact ⟨hmem, hps, fun t ht hlt => hall t (Or.inr ht) hlt⟩

theorem highest_none (b : BB) : highest b = none ↔ b = 0#64 := by
  rw [eq_zero_iff]
  simp only [highest, List.find?_eq_none, List.mem_reverse]
  constructor
  · intro h s; have := h s (List.mem_finRange s); simpa using this
  · intro h s _; simp [h s]

theorem highest_some (b : BB) (s : Sq) : highest b = some s ↔ (mem s b = true ∧ ∀ t : Sq, s < t → mem t b = false) := by
  unfold highest allSq
  have hp : (List.finRange 64).reverse.Pairwise (fun a b : Sq => b < a) := by
    rw [List.pairwise_reverse]; exact List.pairwise_lt_finRange 64
  rw [find?_sorted_rel (fun a b : Sq => b < a) _ _ _ hp (fun a => Nat.lt_irrefl _) (fun a b h => Nat.lt_asymm h)]
  simp only [List.mem_reverse]
  constructor
  · rintro ⟨_, h1, h2⟩; exact ⟨h1, fun t ht => h2 t (List.mem_finRange t) ht⟩
  · rintro ⟨h1, h2⟩; exact ⟨List.mem_finRange s, h1, fun t _ ht => h2 t ht⟩


/-! ## 2b. one truncated ray -/

theorem clearBetween_iff (f : Sq → Option Piece) (a t : Sq) :
    clearBetween f a t = true ↔ ∀ c, strictlyBetween a c t = true → f c = none := by
  simp only [clearBetween, List.all_eq_true, allSq, List.mem_finRange, true_implies, Bool.or_eq_true,
    Bool.not_eq_true', Option.isNone_iff_eq_none]
  constructor
  · intro h c hc
    rcases h c with h | h
    · rw [hc] at h; exact Bool.noConfusion h
    · exact h
  · intro h c
    cases hc : strictlyBetween a c t
    · exact Or.inl rfl
    · exact Or.inr (h c hc)

/-- the last step of `raySeg`, as a function of the blocker found -/
def segOf (sq : Sq) (i : Fin 8) : Option Sq → BB
  | none => ray sq i
  | some s => (between sq s).getD 0#64 ^^^ bbOf s

theorem raySeg_eq_segOf (b : Board) (sq : Sq) (i : Fin 8) :
    b.raySeg sq i = segOf sq i (if i = 0 ∨ i = 2 ∨ i = 4 ∨ i = 5 then lowest (ray sq i &&& b.combined)
                                else highest (ray sq i &&& b.combined)) := by
  simp only [Board.raySeg, segOf]; split <;> simp_all

/-- the nearest-blocker argument, generic in the index order (`<` for increasing rays with `lowest`,
`>` for decreasing rays with `highest`) -/
theorem seg_generic (lt : Sq → Sq → Prop) [DecidableRel lt]
    (hirr : ∀ a, ¬ lt a a) (htri : ∀ a b, a ≠ b → lt a b ∨ lt b a) (htrans : ∀ a b c, lt a b → lt b c → lt a c)
    (occ : BB) (sq : Sq) (i : Fin 8)
    (hgeo : ∀ t, onRay i sq t = true → ∀ u, strictlyBetween sq u t = (onRay i sq u && decide (lt u t)))
    (blocker : Option Sq)
    (hnone : blocker = none → ray sq i &&& occ = 0#64)
    (hsome : ∀ s, blocker = some s → mem s (ray sq i &&& occ) = true ∧ ∀ u, lt u s → mem u (ray sq i &&& occ) = false)
    (t : Sq) :
    mem t (segOf sq i blocker) = true ↔
      (onRay i sq t = true ∧ ∀ u, strictlyBetween sq u t = true → mem u occ = false) := by
  cases hb : blocker with
  | none =>
    have hz := hnone hb
    rw [eq_zero_iff] at hz
    simp only [segOf, rays_spec]
    constructor
    · intro ht
      refine ⟨ht, fun u hu => ?_⟩
      rw [hgeo t ht u] at hu
      simp only [Bool.and_eq_true] at hu
      have := hz u
      simp only [mem_and, rays_spec, hu.1, Bool.true_and] at this
      exact this
    · exact fun h => h.1
  | some s =>
    obtain ⟨hs, hlow⟩ := hsome s hb
    simp only [mem_and, rays_spec, Bool.and_eq_true] at hs
    obtain ⟨hsR, hsO⟩ := hs
    have hal := onRay_aligned i sq s hsR
    obtain ⟨m, hm⟩ : ∃ m, between sq s = some m := by
      cases h : between sq s with
      | none => rw [between_none_iff] at h; rw [hal] at h; exact Bool.noConfusion h
      | some m => exact ⟨m, rfl⟩
    simp only [segOf, hm, Option.getD_some, mem_xor, between_spec sq s m hm, mem_bbOf]
    have hemp : ∀ u, onRay i sq u = true → lt u s → mem u occ = false := by
      intro u hu hlt
      have := hlow u hlt
      simp only [mem_and, rays_spec, hu, Bool.true_and] at this
      exact this
    by_cases hts : t = s
    · subst hts
      have hself : strictlyBetween sq t t = false := by
        rw [hgeo t hsR t]; simp [hirr]
      simp only [hself, decide_true, Bool.false_xor, true_iff]
      refine ⟨hsR, fun u hu => ?_⟩
      rw [hgeo t hsR u] at hu
      simp only [Bool.and_eq_true, decide_eq_true_eq] at hu
      exact hemp u hu.1 hu.2
    · simp only [hts, decide_false, Bool.xor_false]
      constructor
      · intro hbt
        rw [hgeo s hsR t] at hbt
        simp only [Bool.and_eq_true, decide_eq_true_eq] at hbt
        refine ⟨hbt.1, fun u hu => ?_⟩
        rw [hgeo t hbt.1 u] at hu
        simp only [Bool.and_eq_true, decide_eq_true_eq] at hu
        exact hemp u hu.1 (htrans _ _ _ hu.2 hbt.2)
      · rintro ⟨htR, hclr⟩
        rw [hgeo s hsR t]
        simp only [htR, Bool.true_and, decide_eq_true_eq]
        rcases htri t s hts with h | h
        · exact h
        · exfalso
          have hst : strictlyBetween sq s t = true := by
            rw [hgeo t htR s]; simp [hsR, h]
          have := hclr s hst
          rw [hsO] at this; exact Bool.noConfusion this

/-- one truncated ray, in terms of the occupancy mask only -/
theorem raySeg_iff (b : Board) (sq : Sq) (i : Fin 8) (t : Sq) :
    mem t (b.raySeg sq i) = true ↔
      (onRay i sq t = true ∧ ∀ u, strictlyBetween sq u t = true → mem u b.combined = false) := by
  by_cases hi : (i = 0 ∨ i = 2 ∨ i = 4 ∨ i = 5)
  · rw [raySeg_eq_segOf, if_pos hi]
    exact seg_generic (fun a b : Sq => a < b) (fun a => Nat.lt_irrefl _)
      (fun a b hab => by have : a.val ≠ b.val := fun e => hab (Fin.ext e); show a.val < b.val ∨ b.val < a.val; omega)
      (fun a b c h1 h2 => Nat.lt_trans h1 h2) b.combined sq i
      (fun t ht u => between_inc i hi sq t ht u) _
      (fun h => (lowest_none _).1 h) (fun s h => (lowest_some _ s).1 h) t
  · rw [raySeg_eq_segOf, if_neg hi]
    have hd : i = 1 ∨ i = 3 ∨ i = 6 ∨ i = 7 := by
      rcases inc_or_dec i with h | h
      · exact absurd h hi
      · exact h
    exact seg_generic (fun a b : Sq => b < a) (fun a => Nat.lt_irrefl _)
      (fun a b hab => by have : a.val ≠ b.val := fun e => hab (Fin.ext e); show b.val < a.val ∨ a.val < b.val; omega)
      (fun a b c h1 h2 => Nat.lt_trans h2 h1) b.combined sq i
      (fun t ht u => between_dec i hd sq t ht u) _
      (fun h => (highest_none _).1 h) (fun s h => (highest_some _ s).1 h) t

/-- **Nearest-blocker lemma**: the truncated ray holds exactly the ray squares all of whose strictly-between squares
are empty, i.e. the ray up to and including the nearest occupied square. -/
theorem raySeg_spec {b : Board} {f : Sq → Option Piece} (h : Rep b f) (sq : Sq) (i : Fin 8) (t : Sq) :
    mem t (b.raySeg sq i) = (onRay i sq t && clearBetween f sq t) := by
  rw [Bool.eq_iff_iff, raySeg_iff, Bool.and_eq_true, clearBetween_iff]
  constructor
  · rintro ⟨h1, h2⟩
    refine ⟨h1, fun c hc => ?_⟩
    have := h2 c hc
    rw [h.cmb] at this
    cases hf : f c with
    | none => rfl
    | some p => rw [hf] at this; exact Bool.noConfusion this
  · rintro ⟨h1, h2⟩
    refine ⟨h1, fun c hc => ?_⟩
    rw [h.cmb, h2 c hc]; rfl

/-! ## 3. `truncateRays`: XOR over pairwise disjoint rays is a union -/

theorem foldl_xor_disjoint (S : Fin 8 → BB) (t : Sq)
    (hdis : ∀ i j, mem t (S i) = true → mem t (S j) = true → i = j)
    (l : List (Fin 8)) (hl : l.Nodup) (acc : BB) :
    mem t (l.foldl (fun acc i => acc ^^^ S i) acc) = (mem t acc ^^ l.any (fun i => mem t (S i))) := by
  induction l generalizing acc with
  | nil => simp
  | cons x xs ih =>
    rw [List.nodup_cons] at hl
    simp only [List.foldl_cons, ih hl.2, mem_xor, List.any_cons]
    cases hx : mem t (S x) with
    | false => simp
    | true =>
      have : xs.any (fun i => mem t (S i)) = false := by
        rw [List.any_eq_false]
        intro j hj hjt
        have := hdis x j hx hjt
        subst this; exact hl.1 hj
      simp [this]

theorem raySeg_disjoint (b : Board) (sq t : Sq) (i j : Fin 8)
    (hi : mem t (b.raySeg sq i) = true) (hj : mem t (b.raySeg sq j) = true) : i = j :=
  onRay_disjoint i sq t ((raySeg_iff b sq i t).1 hi).1 j ((raySeg_iff b sq j t).1 hj).1

theorem truncateRays_spec (b : Board) (dirs : List (Fin 8)) (hd : dirs.Nodup) (sq t : Sq) :
    mem t (b.truncateRays dirs sq) = (dirs.any (fun i => mem t (b.raySeg sq i)) && !mem t (b.colors b.stm)) := by
  simp only [Board.truncateRays, mem_and, mem_not]
  rw [foldl_xor_disjoint (fun i => b.raySeg sq i) t (fun i j => raySeg_disjoint b sq t i j) dirs hd]
  simp

theorem rookDirs_nodup : Board.rookDirs.Nodup := by decide
theorem bishopDirs_nodup : Board.bishopDirs.Nodup := by decide
theorem queenDirs_nodup : Board.queenDirs.Nodup := by decide

theorem truncateRays_rook (b : Board) (sq t : Sq) : mem t (b.truncateRays Board.rookDirs sq) =
    (Board.rookDirs.any (fun i => mem t (b.raySeg sq i)) && !mem t (b.colors b.stm)) :=
  truncateRays_spec b _ rookDirs_nodup sq t
theorem truncateRays_bishop (b : Board) (sq t : Sq) : mem t (b.truncateRays Board.bishopDirs sq) =
    (Board.bishopDirs.any (fun i => mem t (b.raySeg sq i)) && !mem t (b.colors b.stm)) :=
  truncateRays_spec b _ bishopDirs_nodup sq t
theorem truncateRays_queen (b : Board) (sq t : Sq) : mem t (b.truncateRays Board.queenDirs sq) =
    (Board.queenDirs.any (fun i => mem t (b.raySeg sq i)) && !mem t (b.colors b.stm)) :=
  truncateRays_spec b _ queenDirs_nodup sq t


/-! ## 4. `get_piece_moves_mask` -/

theorem notOwn_eq {b : Board} {f : Sq → Option Piece} (h : Rep b f) (dst : Sq) :
    (match f dst with | some q => q.c != b.stm | none => true) = !mem dst (b.colors b.stm) := by
  rw [h.cls]; cases f dst <;> rfl

/-- the square one step ahead of a pawn exists and is empty -/
def stepEmpty (f : Sq → Option Piece) (c : Color) (src : Sq) : Bool :=
  match mkSq? (src.rank + fwd c) src.file with | some m => (f m).isNone | none => false

/-- with the mover's own man of type `pt` on `src`, `pseudoDest` is "not own" ∧ geometry -/
theorem pseudoDest_of_src {b : Board} {f : Sq → Option Piece} (h : Rep b f) (pt : PT) (src dst : Sq)
    (hsrc : f src = some ⟨pt, b.stm⟩) (r : Color → Rights) (n m : Nat) :
    pseudoDest { board := f, stm := b.stm, rights := r, ep := b.ep, half := n, full := m } pt src dst =
      (!mem dst (b.colors b.stm) &&
        (match pt with
         | .pawn =>
            ((dst.file - src.file == 0 && dst.rank - src.rank == fwd b.stm && (f dst).isNone) ||
             (dst.file - src.file == 0 && dst.rank - src.rank == 2 * fwd b.stm && src.rank == pawnRank b.stm && (f dst).isNone &&
                stepEmpty f b.stm src) ||
             ((dst.file - src.file).natAbs == 1 && dst.rank - src.rank == fwd b.stm && ((f dst).isSome || b.ep == some dst)))
         | _ => attacks f src dst)) := by
  simp only [pseudoDest, hsrc, beq_self_eq_true, Bool.true_and, notOwn_eq h]
  cases pt <;> rfl

theorem knightMask_spec {b : Board} {f : Sq → Option Piece} (h : Rep b f) (src dst : Sq)
    (hsrc : f src = some ⟨.knight, b.stm⟩) (r : Color → Rights) (n m : Nat) :
    mem dst (b.pieceMovesMask .knight src) =
      pseudoDest { board := f, stm := b.stm, rights := r, ep := b.ep, half := n, full := m } .knight src dst := by
  rw [pseudoDest_of_src h _ _ _ hsrc]
  simp only [Board.pieceMovesMask, mem_and, mem_not, knight_spec, attacks, hsrc, C17.dr, C17.df]
  rw [Bool.and_comm]

theorem kingMask_spec {b : Board} {f : Sq → Option Piece} (h : Rep b f) (src dst : Sq)
    (hsrc : f src = some ⟨.king, b.stm⟩) (r : Color → Rights) (n m : Nat) :
    mem dst (b.pieceMovesMask .king src) =
      pseudoDest { board := f, stm := b.stm, rights := r, ep := b.ep, half := n, full := m } .king src dst := by
  rw [pseudoDest_of_src h _ _ _ hsrc]
  simp only [Board.pieceMovesMask, mem_and, mem_not, king_spec, attacks, hsrc, C17.dr, C17.df]
  rw [Bool.and_comm]
  rfl

/-! sliders -/
theorem sliderMask_aux {b : Board} {f : Sq → Option Piece} (h : Rep b f) (dirs : List (Fin 8)) (hd : dirs.Nodup) (src dst : Sq) :
    mem dst (b.truncateRays dirs src) =
      (!mem dst (b.colors b.stm) && (dirs.any (fun i => onRay i src dst) && clearBetween f src dst)) := by
  rw [truncateRays_spec b dirs hd, Bool.and_comm]
  congr 1
  simp only [raySeg_spec h]
  induction dirs with
  | nil => simp
  | cons x xs ih =>
    rw [List.nodup_cons] at hd
    simp only [List.any_cons, ih hd.2]
    cases onRay x src dst <;> cases clearBetween f src dst <;> simp


theorem rookMask_spec {b : Board} {f : Sq → Option Piece} (h : Rep b f) (src dst : Sq)
    (hsrc : f src = some ⟨.rook, b.stm⟩) (r : Color → Rights) (n m : Nat) :
    mem dst (b.pieceMovesMask .rook src) =
      pseudoDest { board := f, stm := b.stm, rights := r, ep := b.ep, half := n, full := m } .rook src dst := by
  rw [pseudoDest_of_src h _ _ _ hsrc]
  simp only [Board.pieceMovesMask, sliderMask_aux h _ rookDirs_nodup, attacks, hsrc, orthogonal_iff]
  simp only [Board.rookDirs, List.any_cons, List.any_nil, Bool.or_false, Bool.or_assoc]

theorem bishopMask_spec {b : Board} {f : Sq → Option Piece} (h : Rep b f) (src dst : Sq)
    (hsrc : f src = some ⟨.bishop, b.stm⟩) (r : Color → Rights) (n m : Nat) :
    mem dst (b.pieceMovesMask .bishop src) =
      pseudoDest { board := f, stm := b.stm, rights := r, ep := b.ep, half := n, full := m } .bishop src dst := by
  rw [pseudoDest_of_src h _ _ _ hsrc]
  simp only [Board.pieceMovesMask, sliderMask_aux h _ bishopDirs_nodup, attacks, hsrc, diagonal_iff]
  simp only [Board.bishopDirs, List.any_cons, List.any_nil, Bool.or_false, Bool.or_assoc]

theorem queenMask_spec {b : Board} {f : Sq → Option Piece} (h : Rep b f) (src dst : Sq)
    (hsrc : f src = some ⟨.queen, b.stm⟩) (r : Color → Rights) (n m : Nat) :
    mem dst (b.pieceMovesMask .queen src) =
      pseudoDest { board := f, stm := b.stm, rights := r, ep := b.ep, half := n, full := m } .queen src dst := by
  rw [pseudoDest_of_src h _ _ _ hsrc]
  simp only [Board.pieceMovesMask, sliderMask_aux h _ queenDirs_nodup, attacks, hsrc, orthogonal_iff, diagonal_iff]
  simp only [Board.queenDirs, List.any_cons, List.any_nil, Bool.or_false, Bool.or_assoc]

/-! pawns -/
/-- the en-passant target as a mask -/
def epBB (e : Option Sq) : BB := match e with | some e => bbOf e | none => 0#64

theorem mem_epBB (e : Option Sq) (dst : Sq) : mem dst (epBB e) = (e == some dst) := by
  cases e with
  | none => simp [epBB]
  | some e =>
    simp only [epBB, mem_bbOf]
    by_cases h : dst = e
    · subst h; simp
    · have : e ≠ dst := fun x => h x.symm
      simp [h, this]

theorem pawnMask_eq (b : Board) (src : Sq) : b.pieceMovesMask .pawn src =
    ((pawnPush b.stm src &&& ~~~b.combined) |||
     (if isBlank (pawnPush b.stm src &&& ~~~b.combined) then 0#64 else pawnDouble b.stm src &&& ~~~b.combined) |||
     (pawnCap b.stm src &&& (b.colors b.stm.other ||| epBB b.ep))) := rfl

theorem single_blank {b : Board} {f : Sq → Option Piece} (h : Rep b f) (src : Sq) :
    isBlank (pawnPush b.stm src &&& ~~~b.combined) = !stepEmpty f b.stm src := by
  have hmem : ∀ s, mem s (pawnPush b.stm src &&& ~~~b.combined) =
      ((mkSq? (src.rank + fwd b.stm) src.file == some s) && (f s).isNone) := by
    intro s
    simp only [mem_and, mem_not, pawn_push_spec, push_mkSq, h.cmb]
    cases f s <;> rfl
  unfold stepEmpty
  cases hm : mkSq? (src.rank + fwd b.stm) src.file with
  | none =>
    simp only [Bool.not_false, isBlank_iff, eq_zero_iff]
    intro s; rw [hmem, hm]; rfl
  | some m =>
    simp only
    cases hfm : f m with
    | some p =>
      simp only [Option.isNone_some, Bool.not_false, isBlank_iff, eq_zero_iff]
      intro s; rw [hmem, hm]
      by_cases hs : m = s
      · subst hs; simp [hfm]
      · simp [hs]
    | none =>
      simp only [Option.isNone_none, Bool.not_true]
      cases hb : isBlank (pawnPush b.stm src &&& ~~~b.combined) with
      | false => rfl
      | true =>
        rw [isBlank_iff, eq_zero_iff] at hb
        have := hb m
        rw [hmem, hm, hfm] at this
        simp at this

theorem color_beq_other (c d : Color) : (c == d.other) = !(c == d) := by cases c <;> cases d <;> rfl

theorem pawnMask_spec {b : Board} {f : Sq → Option Piece} (h : Rep b f) (hep : ∀ e, b.ep = some e → f e = none)
    (src dst : Sq) (hsrc : f src = some ⟨.pawn, b.stm⟩) (r : Color → Rights) (n m : Nat) :
    mem dst (b.pieceMovesMask .pawn src) =
      pseudoDest { board := f, stm := b.stm, rights := r, ep := b.ep, half := n, full := m } .pawn src dst := by
  rw [pseudoDest_of_src h _ _ _ hsrc, pawnMask_eq, single_blank h]
  have hdbl : mem dst (if (!stepEmpty f b.stm src) = true then 0#64 else pawnDouble b.stm src &&& ~~~b.combined)
      = (stepEmpty f b.stm src &&
          (dst.file - src.file == 0 && dst.rank - src.rank == 2 * fwd b.stm && src.rank == pawnRank b.stm) && (f dst).isNone) := by
    cases stepEmpty f b.stm src
    · simp
    · simp only [Bool.not_true, Bool.false_eq_true, if_false, mem_and, mem_not, pawn_double_spec, h.cmb, C17.dr, C17.df,
        Bool.true_and]
      cases f dst <;> rfl
  simp only [mem_or, mem_and, mem_not, hdbl, mem_epBB, pawn_push_spec, pawn_capture_spec, h.cmb, h.cls, C17.dr, C17.df]
  generalize stepEmpty f b.stm src = M
  generalize (dst.file - src.file == 0) = A
  generalize (dst.rank - src.rank == fwd b.stm) = B
  generalize (dst.rank - src.rank == 2 * fwd b.stm) = C
  generalize (src.rank == pawnRank b.stm) = D
  generalize ((dst.file - src.file).natAbs == 1) = E
  cases hfd : f dst with
  | none =>
    generalize (b.ep == some dst) = P
    cases M <;> cases A <;> cases B <;> cases C <;> cases D <;> cases E <;> cases P <;> rfl
  | some q =>
    simp only [color_beq_other]
    cases hQ : (q.c == b.stm) with
    | false =>
      generalize (b.ep == some dst) = P
      cases M <;> cases A <;> cases B <;> cases C <;> cases D <;> cases E <;> cases P <;> rfl
    | true =>
      have hP : (b.ep == some dst) = false := by
        cases he : b.ep with
        | none => rfl
        | some e =>
          have := hep e he
          by_cases hed : e = dst
          · subst hed; rw [hfd] at this; cases this
          · simp [hed]
      rw [hP]
      cases M <;> cases A <;> cases B <;> cases C <;> cases D <;> cases E <;> rfl

/-- **MAIN (C01, destination part)**: on a board whose masks encode the placement `f` (and whose en-passant target, if any,
is an empty square), for the mover's man of type `pt` on `src`, the mask of `get_piece_moves_mask` contains exactly the
destinations allowed by the movement rules of chess (`Spec.pseudoDest`; promotions are handled by `Spec.promoOk`). -/
theorem pieceMovesMask_spec {b : Board} {f : Sq → Option Piece} (h : Rep b f) (hep : ∀ e, b.ep = some e → f e = none)
    (pt : PT) (src dst : Sq) (hsrc : f src = some ⟨pt, b.stm⟩) (r : Color → Rights) (n m : Nat) :
    mem dst (b.pieceMovesMask pt src) =
      pseudoDest { board := f, stm := b.stm, rights := r, ep := b.ep, half := n, full := m } pt src dst := by
  cases pt with
  | pawn => exact pawnMask_spec h hep src dst hsrc r n m
  | knight => exact knightMask_spec h src dst hsrc r n m
  | bishop => exact bishopMask_spec h src dst hsrc r n m
  | rook => exact rookMask_spec h src dst hsrc r n m
  | queen => exact queenMask_spec h src dst hsrc r n m
  | king => exact kingMask_spec h src dst hsrc r n m

/-- the same for the specification position a consistent board stands for -/
theorem pieceMovesMask_absPos {b : Board} (hc : b.Cons) (hep : ∀ e, b.ep = some e → b.abs e = none)
    (pt : PT) (src dst : Sq) (hsrc : b.abs src = some ⟨pt, b.stm⟩) :
    mem dst (b.pieceMovesMask pt src) = pseudoDest b.absPos pt src dst :=
  pieceMovesMask_spec hc hep pt src dst hsrc _ _ _

/-- together with `pseudo_eq`: a move of the mover's man on `src` is pseudo-legal in the specification iff its
destination is in the mask and its promotion field is right -/
theorem pseudo_iff_mask {b : Board} (hc : b.Cons) (hep : ∀ e, b.ep = some e → b.abs e = none)
    (pt : PT) (src dst : Sq) (promo : Option PT) (hsrc : b.abs src = some ⟨pt, b.stm⟩) :
    pseudo b.absPos pt src dst promo = (mem dst (b.pieceMovesMask pt src) && promoOk b.absPos pt dst promo) := by
  rw [pseudo_eq, pieceMovesMask_absPos hc hep pt src dst hsrc]

/-! non-vacuity: the hypotheses of `pieceMovesMask_spec` are satisfiable (a lone white rook on a1, white to move) -/
theorem rep_new : Rep Board.new (fun _ => none) := by
  constructor <;> intros <;> simp [Board.new]

example (K : Keys) : ∃ (b : Board) (f : Sq → Option Piece), Rep b f ∧ (∀ e, b.ep = some e → f e = none) ∧
    f 0 = some ⟨.rook, b.stm⟩ :=
  ⟨Board.new.putPiece K ⟨.rook, .white⟩ 0, _, rep_new.putPiece K ⟨.rook, .white⟩ 0,
    by intro e he; simp [Board.new] at he, by simp [Spec.upd, Board.new]⟩

end Chess
