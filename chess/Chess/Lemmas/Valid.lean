import Chess.Lemmas.Rep
/-! The abstraction from a model board (M1) to a specification position (M0), and the validity predicate
every theorem about `ChessBoard` values is stated under.  A `ChessBoard` can only be obtained from a
validating constructor or from a legal move, so `Valid` is what a caller can hold (C06, C09). -/
namespace Chess
open Board

def CR.toRights (r : CR) : Spec.Rights := ⟨r.hasK, r.hasQ⟩

/-- the specification position a board stands for -/
def Board.absPos (b : Board) : Spec.Pos :=
  { board := b.abs, stm := b.stm, rights := fun c => (b.rights c).toRights, ep := b.ep, half := b.half, full := b.full }

/-- mask consistency: the 6 + 2 + 1 masks encode one placement -/
def Board.Cons (b : Board) : Prop := Rep b b.abs

theorem Rep.cons {b : Board} {f} (h : Rep b f) : b.Cons := by
  unfold Board.Cons; rw [h.abs_eq]; exact h

/-- what holds of every `ChessBoard` value a caller can hold -/
structure Board.Valid (K : Keys) (b : Board) : Prop where
  cons : b.Cons
  pos : Spec.ValidPos b.absPos = true
  pinned_eq : b.pinned = (b.pinsAndChecks (b.kingSq b.stm)).1
  checks_eq : b.checks = (b.pinsAndChecks (b.kingSq b.stm)).2
  term_eq : b.term = !b.hasEscape K
  hash_eq : b.hash = b.calcHash K

end Chess
