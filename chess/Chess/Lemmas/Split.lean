import Chess.Model.Text
/-! General facts about `splitOn`, `natStr` and list indexing used by the text properties (C20, C13, C10). -/
namespace Chess

theorem splitOn_ne_nil (sep : Char) (s : Str) : splitOn sep s ≠ [] := by
  induction s with
  | nil => simp [splitOn]
  | cons c cs ih =>
    unfold splitOn
    cases h : splitOn sep cs with
    | nil => exact absurd h ih
    | cons p ps => by_cases e : c = sep <;> simp [e]

theorem splitOn_sep_cons (sep : Char) (r : Str) : splitOn sep (sep :: r) = [] :: splitOn sep r := by
  rw [splitOn]
  cases h : splitOn sep r with
  | nil => exact absurd h (splitOn_ne_nil sep r)
  | cons p ps => simp

/-- a separator-free prefix followed by the separator is exactly the first piece -/
theorem splitOn_append_sep (sep : Char) (l r : Str) (hl : sep ∉ l) :
    splitOn sep (l ++ sep :: r) = l :: splitOn sep r := by
  induction l with
  | nil => exact splitOn_sep_cons sep r
  | cons c l ih =>
    have hc : c ≠ sep := fun e => hl (by simp [e])
    have hl' : sep ∉ l := fun e => hl (by simp [e])
    rw [List.cons_append, splitOn, ih hl']
    simp [hc]

/-- a separator-free text is a single piece -/
theorem splitOn_no_sep (sep : Char) (l : Str) (hl : sep ∉ l) : splitOn sep l = [l] := by
  induction l with
  | nil => simp [splitOn]
  | cons c l ih =>
    have hc : c ≠ sep := fun e => hl (by simp [e])
    have hl' : sep ∉ l := fun e => hl (by simp [e])
    rw [splitOn, ih hl']
    simp [hc]

/-- lines terminated by the separator: splitting recovers them (plus the empty tail piece) -/
theorem splitOn_flatMap_terminated {α} (sep : Char) (xs : List α) (row : α → Str) (rest : Str)
    (h : ∀ a ∈ xs, sep ∉ row a) :
    splitOn sep (xs.flatMap (fun a => row a ++ [sep]) ++ rest) = xs.map row ++ splitOn sep rest := by
  induction xs with
  | nil => simp
  | cons a xs ih =>
    have h1 : sep ∉ row a := h a (by simp)
    have h2 : ∀ b ∈ xs, sep ∉ row b := fun b hb => h b (by simp [hb])
    simp only [List.flatMap_cons, List.append_assoc, List.map_cons, List.cons_append]
    rw [splitOn_append_sep sep _ _ h1, List.nil_append, ih h2]

/-! ### `natStr` -/
theorem natStr_eq (n : Nat) : natStr n = Nat.toDigits 10 n := by
  simp [natStr, Nat.toList_repr]

theorem natStr_isDigit (n : Nat) (c : Char) (h : c ∈ natStr n) : c.isDigit = true := by
  rw [natStr_eq] at h
  exact Nat.isDigit_of_mem_toDigits (by decide) (by decide) h

theorem natStr_ne_nil (n : Nat) : natStr n ≠ [] := by
  rw [natStr_eq]; exact Nat.toDigits_ne_nil

theorem natStr_lt_ten (n : Nat) (h : n < 10) : natStr n = [Nat.digitChar n] := by
  rw [natStr_eq, Nat.toDigits_of_lt_base h]

theorem not_mem_natStr (n : Nat) (c : Char) (hc : c.isDigit = false) : c ∉ natStr n := by
  intro h; rw [natStr_isDigit n c h] at hc; exact absurd hc (by decide)

/-! ### fixed-width groups -/
/-- indexing into a concatenation of width-`w` groups -/
theorem flatMap_drop_take {α β} (w : Nat) (xs : List α) (g : α → List β) (hg : ∀ a ∈ xs, (g a).length = w)
    (j : Nat) (rest : List β) :
    ((xs.flatMap g ++ rest).drop (w * j)).take w = match xs[j]? with
      | some a => g a
      | none => (rest.drop (w * (j - xs.length))).take w := by
  induction xs generalizing j with
  | nil => simp
  | cons a xs ih =>
    have h1 : (g a).length = w := hg a (by simp)
    have h2 : ∀ b ∈ xs, (g b).length = w := fun b hb => hg b (by simp [hb])
    cases j with
    | zero =>
      simp only [Nat.mul_zero, List.drop_zero, List.flatMap_cons, List.append_assoc, List.getElem?_cons_zero]
      rw [List.take_append_of_le_length (by omega), List.take_of_length_le (by omega)]
    | succ j =>
      simp only [List.flatMap_cons, List.append_assoc, List.getElem?_cons_succ, List.length_cons]
      have : w * (j + 1) = (g a).length + w * j := by rw [h1, Nat.mul_succ]; omega
      rw [this, ← List.drop_drop, List.drop_left, ih h2]
      have e : j + 1 - (xs.length + 1) = j - xs.length := by omega
      rw [e]

end Chess
