import Chess.Lemmas.Valid
import Chess.Model.Zobrist
/-! Zobrist hashing: XOR folds, the normal form `normHash` of a position hash (XOR of per-feature keys),
`calcHash` (from scratch) = normal form = `Keys.specHash`, and preservation of `hash = calcHash` by every
mutating primitive of the board.  Everything is for an ARBITRARY key table `K`. -/
namespace Chess
open Board

/-! ### XOR folds -/
section XorFold
variable {α : Type}

theorem foldl_xor_init (g : α → BB) (l : List α) (a : BB) :
    l.foldl (fun h s => h ^^^ g s) a = a ^^^ l.foldl (fun h s => h ^^^ g s) 0#64 := by
  induction l generalizing a with
  | nil => simp
  | cons x xs ih =>
    simp only [List.foldl_cons]
    rw [ih (a ^^^ g x), ih (0#64 ^^^ g x)]
    simp [BitVec.xor_assoc]

theorem foldl_xor_cons (g : α → BB) (x : α) (l : List α) :
    (x :: l).foldl (fun h s => h ^^^ g s) 0#64 = g x ^^^ l.foldl (fun h s => h ^^^ g s) 0#64 := by
  simp only [List.foldl_cons]
  rw [foldl_xor_init]; simp

theorem foldl_xor_congr (g g' : α → BB) (l : List α) (h : ∀ x ∈ l, g' x = g x) (a : BB) :
    l.foldl (fun h s => h ^^^ g' s) a = l.foldl (fun h s => h ^^^ g s) a := by
  induction l generalizing a with
  | nil => rfl
  | cons x xs ih =>
    simp only [List.foldl_cons]
    rw [h x (by simp)]
    exact ih (fun y hy => h y (by simp [hy])) _

/-- XOR-folds of two functions that differ at one point of a duplicate-free list -/
theorem foldl_xor_update (g g' : α → BB) (s : α) (l : List α) (hnd : l.Nodup) (hs : s ∈ l)
    (h : ∀ x, x ≠ s → g' x = g x) :
    l.foldl (fun h s => h ^^^ g' s) 0#64 = l.foldl (fun h s => h ^^^ g s) 0#64 ^^^ g s ^^^ g' s := by
  induction l with
  | nil => simp at hs
  | cons x xs ih =>
    rw [foldl_xor_cons, foldl_xor_cons]
    rw [List.nodup_cons] at hnd
    by_cases hx : x = s
    · subst hx
      rw [foldl_xor_congr g g' xs (fun y hy => h y (fun e => hnd.1 (e ▸ hy)))]
      grind
    · have hs' : s ∈ xs := by
        rcases List.mem_cons.1 hs with e | e
        · exact absurd e.symm hx
        · exact e
      rw [ih hnd.2 hs', h x hx]
      grind

theorem foldl_congr_fn {β : Type} {F G : β → α → β} (h : ∀ x a, F x a = G x a) (a : β) (l : List α) :
    l.foldl F a = l.foldl G a := by
  have : F = G := funext fun x => funext (h x)
  rw [this]

/-- folding over the filtered list = folding over the whole list when dropped elements contribute `0` -/
theorem foldl_xor_filter (g : α → BB) (p : α → Bool) (l : List α) (hz : ∀ x ∈ l, p x = false → g x = 0#64) (a : BB) :
    (l.filter p).foldl (fun h s => h ^^^ g s) a = l.foldl (fun h s => h ^^^ g s) a := by
  induction l generalizing a with
  | nil => rfl
  | cons x xs ih =>
    have ih' := fun a => ih (fun y hy => hz y (by simp [hy])) a
    cases hp : p x with
    | true => simp only [List.filter_cons, hp, if_true, List.foldl_cons]; exact ih' _
    | false =>
      simp only [List.filter_cons, hp, Bool.false_eq_true, if_false, List.foldl_cons]
      rw [hz x (by simp) hp]; simp only [BitVec.xor_zero]; exact ih' _

end XorFold

/-! ### the normal form of a position hash -/
variable (K : Keys)

/-- key of the side to move -/
def Keys.stmKey (K : Keys) (c : Color) : BB := if c = .black then K.black else 0#64
/-- key of the en-passant square (depends on its FILE only) -/
def Keys.epKey (K : Keys) (e : Option Sq) : BB := match e with | some s => K.ep (epFile s) | none => 0#64

/-- XOR of the piece keys of a placement -/
def placeHash (f : Sq → Option Piece) : BB := allSq.foldl (fun h s => h ^^^ K.occ (f s) s) 0#64

/-- XOR of all per-feature keys -/
def normHash (f : Sq → Option Piece) (c : Color) (r : Color → CR) (e : Option Sq) : BB :=
  placeHash K f ^^^ K.stmKey c ^^^ K.castle .white (r .white) ^^^ K.castle .black (r .black) ^^^ K.epKey e

/-- the point-update law of `placeHash` -/
theorem placeHash_upd (f : Sq → Option Piece) (s : Sq) (v : Option Piece) :
    placeHash K (Spec.upd f s v) = placeHash K f ^^^ K.occ (f s) s ^^^ K.occ v s := by
  unfold placeHash
  have := foldl_xor_update (fun x => K.occ (f x) x) (fun x => K.occ (Spec.upd f s v x) x) s allSq
    (List.nodup_finRange 64) (List.mem_finRange s) (fun x hx => by simp [Spec.upd, hx])
  simpa [Spec.upd] using this

theorem normHash_upd (f : Sq → Option Piece) (s : Sq) (v : Option Piece) (c r e) :
    normHash K (Spec.upd f s v) c r e = normHash K f c r e ^^^ K.occ (f s) s ^^^ K.occ v s := by
  unfold normHash; rw [placeHash_upd]; grind

theorem CR.ofBits_has (r : CR) : CR.ofBits r.hasK r.hasQ = r := by cases r <;> rfl

/-- the specification hash is the normal form -/
theorem specHash_eq_normHash (p : Spec.Pos) :
    K.specHash p = normHash K p.board p.stm (fun c => CR.ofBits (p.rights c).k (p.rights c).q) p.ep := by
  unfold Keys.specHash normHash placeHash Keys.stmKey Keys.epKey
  rw [foldl_congr_fn (G := fun h s => h ^^^ K.occ (p.board s) s)
    (fun h s => by cases p.board s <;> simp [Keys.occ])]
  cases p.ep <;> by_cases hc : p.stm = .black <;> simp [hc]

/-- `calculate_position_hash` on a board whose masks encode `f` -/
theorem Rep.calcHash {b : Board} {f} (h : Rep b f) : b.calcHash K = normHash K f b.stm b.rights b.ep := by
  unfold Board.calcHash normHash placeHash
  simp only []
  rw [foldl_congr_fn (G := fun x sq => x ^^^ K.occ (f sq) sq)]
  rotate_left
  · intro x sq; rw [h.getPieceTypeOn, h.getPieceColorOn]; cases f sq <;> simp [Keys.occ]
  rw [toList_spec, foldl_xor_filter _ _ _ (fun x _ hx => by
    rw [h.cmb] at hx; cases hf : f x <;> simp_all [Keys.occ]), foldl_xor_init]
  cases b.ep <;> simp only [Keys.stmKey, Keys.epKey] <;> grind

/-- 1. the from-scratch hash is the XOR of the per-feature keys of the abstract position -/
theorem calcHash_spec {b : Board} (hc : b.Cons) : b.calcHash K = K.specHash b.absPos := by
  rw [Rep.calcHash K hc, specHash_eq_normHash]
  simp [Board.absPos, CR.toRights, CR.ofBits_has]

/-! ### the invariant `hash = calcHash` -/

/-- masks encode `f` and the stored hash is the XOR of the feature keys -/
structure Inv (b : Board) (f : Sq → Option Piece) : Prop where
  rep : Rep b f
  hash : b.hash = normHash K f b.stm b.rights b.ep

/-- the stored hash agrees with the from-scratch hash (on a mask-consistent board) -/
def Board.HashOk (b : Board) : Prop := b.Cons ∧ b.hash = b.calcHash K

theorem Inv.hashOk {b : Board} {f} (h : Inv K b f) : b.HashOk K :=
  ⟨h.rep.cons, by rw [h.rep.calcHash K]; exact h.hash⟩

theorem Board.HashOk.inv {b : Board} (h : b.HashOk K) : Inv K b b.abs :=
  ⟨h.1, by rw [h.2]; exact Rep.calcHash K h.1⟩

theorem hashOk_iff (b : Board) : b.HashOk K ↔ ∃ f, Inv K b f :=
  ⟨fun h => ⟨_, Board.HashOk.inv K h⟩, fun ⟨_, h⟩ => h.hashOk K⟩

/-- a stage that touches neither the masks nor stm/rights/ep/hash keeps the invariant -/
theorem Inv.frame {b b' : Board} {f} (h : Inv K b f) (hp : b'.pieces = b.pieces) (hcl : b'.colors = b.colors)
    (hcm : b'.combined = b.combined) (hs : b'.stm = b.stm) (hr : b'.rights = b.rights) (he : b'.ep = b.ep)
    (hh : b'.hash = b.hash) : Inv K b' f :=
  ⟨⟨by rw [hp]; exact h.rep.pcs, by rw [hcl]; exact h.rep.cls, by rw [hcm]; exact h.rep.cmb⟩,
   by rw [hh, hs, hr, he]; exact h.hash⟩

theorem Inv.clearSquare {b : Board} {f} (h : Inv K b f) (s : Sq) : Inv K (b.clearSquare K s) (Spec.upd f s none) := by
  refine ⟨h.rep.clearSquare K s, ?_⟩
  rw [h.rep.clearSquare_hash K s, normHash_upd, h.hash]
  simp [Keys.occ]

theorem Inv.putPiece {b : Board} {f} (h : Inv K b f) (p : Piece) (s : Sq) :
    Inv K (b.putPiece K p s) (Spec.upd f s (some p)) := by
  refine ⟨h.rep.putPiece K p s, ?_⟩
  rw [h.rep.putPiece_hash K p s, normHash_upd, h.hash]
  simp [Keys.occ]

theorem Inv.setSideToMove {b : Board} {f} (h : Inv K b f) (c : Color) : Inv K (b.setSideToMove K c) f := by
  unfold Board.setSideToMove
  by_cases hc : c = b.stm
  · simpa [hc] using h
  · simp only [ne_eq, hc, not_false_eq_true, if_true]
    refine ⟨⟨h.rep.pcs, h.rep.cls, h.rep.cmb⟩, ?_⟩
    show b.hash ^^^ K.black = normHash K f c b.rights b.ep
    rw [h.hash]; unfold normHash Keys.stmKey
    revert hc; cases c <;> cases b.stm <;> simp <;> grind

theorem setFn_rights_self (r : Color → CR) (c : Color) : setFn r c (r c) = r := by
  funext x; by_cases hx : x = c <;> simp [setFn, hx]

theorem Inv.setCastlingRights {b : Board} {f} (h : Inv K b f) (c : Color) (r : CR) :
    Inv K (b.setCastlingRights K c r) f := by
  unfold Board.setCastlingRights
  by_cases hr : b.rights c = r
  · subst hr
    simp only [ne_eq, not_true_eq_false, if_false, setFn_rights_self]
    exact h
  · simp only [ne_eq, hr, not_false_eq_true, if_true]
    refine ⟨⟨h.rep.pcs, h.rep.cls, h.rep.cmb⟩, ?_⟩
    show b.hash ^^^ K.castle c (b.rights c) ^^^ K.castle c r = normHash K f b.stm (setFn b.rights c r) b.ep
    rw [h.hash]; unfold normHash
    cases c <;> simp [setFn] <;> grind

theorem Inv.setEnPassant {b : Board} {f} (h : Inv K b f) (e : Option Sq) : Inv K (b.setEnPassant K e) f := by
  unfold Board.setEnPassant
  refine ⟨⟨h.rep.pcs, h.rep.cls, h.rep.cmb⟩, ?_⟩
  show (match e with | some s => (match b.ep with | some s => b.hash ^^^ K.ep (epFile s) | none => b.hash) ^^^ K.ep (epFile s)
                     | none => (match b.ep with | some s => b.hash ^^^ K.ep (epFile s) | none => b.hash))
      = normHash K f b.stm b.rights e
  rw [h.hash]; unfold normHash Keys.epKey
  cases e <;> cases b.ep <;> simp <;> grind

theorem Inv.updateMoveNumber {b : Board} {f} (h : Inv K b f) : Inv K b.updateMoveNumber f := by
  unfold Board.updateMoveNumber; split
  · exact h.frame K rfl rfl rfl rfl rfl rfl rfl
  · exact h

theorem Inv.updateMovesSinceCapture {b : Board} {f} (h : Inv K b f) (m : Move) (c : Bool) :
    Inv K (b.updateMovesSinceCapture m c) f := by
  unfold Board.updateMovesSinceCapture
  split
  · split <;> exact h.frame K rfl rfl rfl rfl rfl rfl rfl
  · exact h.frame K rfl rfl rfl rfl rfl rfl rfl

theorem Inv.updatePinsAndChecks {b : Board} {f} (h : Inv K b f) : Inv K b.updatePinsAndChecks f :=
  h.frame K rfl rfl rfl rfl rfl rfl rfl

theorem Inv.updateTerminalStatus {b : Board} {f} (h : Inv K b f) : Inv K (b.updateTerminalStatus K) f :=
  h.frame K rfl rfl rfl rfl rfl rfl rfl

theorem Inv.movePiece {b : Board} {f} (h : Inv K b f) (pt : PT) (src dst : Sq) (promo : Option PT) :
    ∃ f', Inv K (b.movePiece K pt src dst promo) f' := by
  unfold Board.movePiece
  split
  · exact ⟨f, h⟩
  · exact ⟨_, (h.clearSquare K src).putPiece K _ dst⟩

theorem Inv.clearIfEp {b : Board} {f} (h : Inv K b f) (pt : PT) (dst : Sq) :
    ∃ f', Inv K (b.clearIfEp K pt dst) f' := by
  unfold Board.clearIfEp
  split
  · split
    · exact ⟨_, h.clearSquare K _⟩
    · exact ⟨f, h⟩
  · exact ⟨f, h⟩

theorem Inv.iteSetCR {b : Board} {f} (h : Inv K b f) (p : Prop) [Decidable p] (c : Color) (r : CR) :
    Inv K (if p then b.setCastlingRights K c r else b) f := by
  split
  · exact h.setCastlingRights K c r
  · exact h

theorem Inv.updateCastlingRights {b : Board} {f} (h : Inv K b f) (m : Move) :
    Inv K (b.updateCastlingRights K m) f := by
  unfold Board.updateCastlingRights
  cases m with
  | piece pt src dst promo => exact (h.iteSetCR K _ _ _).iteSetCR K _ _ _
  | castle s => exact h.iteSetCR K _ _ _

theorem Inv.updateEnPassant {b : Board} {f} (h : Inv K b f) (m : Move) : Inv K (b.updateEnPassant K m) f := by
  unfold Board.updateEnPassant
  cases m with
  | piece pt src dst promo => simp only []; split <;> split <;> exact h.setEnPassant K _
  | castle s => exact h.setEnPassant K _

/-- the board after the placement stage of `make_move_mut_unchecked` -/
theorem Inv.makeMoveUnchecked {b : Board} {f} (h : Inv K b f) (m : Move) :
    ∃ f', Inv K (b.makeMoveUnchecked K m) f' := by
  unfold Board.makeMoveUnchecked
  have h1 : ∃ f', Inv K (match m with
    | .piece pt src dst promo => (b.movePiece K pt src dst promo).clearIfEp K pt dst
    | .castle .king =>
      ((b.movePiece K .king (homeSq b.stm 4) (homeSq b.stm 6) none).movePiece K .rook (homeSq b.stm 7) (homeSq b.stm 5) none)
    | .castle .queen =>
      ((b.movePiece K .king (homeSq b.stm 4) (homeSq b.stm 2) none).movePiece K .rook (homeSq b.stm 0) (homeSq b.stm 3) none)) f' := by
    split
    · obtain ⟨f1, h1⟩ := h.movePiece K _ _ _ _
      exact h1.clearIfEp K _ _
    · obtain ⟨f1, h1⟩ := h.movePiece K .king (homeSq b.stm 4) (homeSq b.stm 6) none
      exact h1.movePiece K _ _ _ _
    · obtain ⟨f1, h1⟩ := h.movePiece K .king (homeSq b.stm 4) (homeSq b.stm 2) none
      exact h1.movePiece K _ _ _ _
  obtain ⟨f', h1⟩ := h1
  exact ⟨f', ((((((h1.updateMoveNumber K).updateMovesSinceCapture K m _).updateCastlingRights K m).setSideToMove K _
    ).updateEnPassant K m).updatePinsAndChecks K).updateTerminalStatus K⟩

end Chess
