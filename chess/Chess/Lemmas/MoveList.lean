import Chess.Model.Board
import Chess.Lemmas.BB

/-! List plumbing for property C01: membership in, and duplicate-freeness of, the generated legal move list.
Pure model-level reasoning: everything here holds for every `b : Board` (no validity hypothesis). -/
namespace Chess

/-- promotion field allowed by the generator: pawns reaching the promotion rank carry N/B/R/Q, everything else `none` -/
def promoShape (stm : Color) (pt : PT) (dst : Sq) (promo : Option PT) : Bool :=
  if pt == .pawn && dst.rk == Board.promoRank stm then
    (promo == some .knight || promo == some .bishop || promo == some .rook || promo == some .queen)
  else promo == none

/-- the filter of `movesFrom` (the shortcut): full evaluation only when needed -/
def Board.passes (K : Keys) (b : Board) (pt : PT) (src dst : Sq) : Bool :=
  if b.needsFullCheck b.checks pt src dst then isBlank (b.checkMaskAfter K pt src dst none) else true

/-! ### generic list lemmas (core only) -/

/-- a `flatMap` over a duplicate-free list is duplicate-free when every block is and a `key` recovers the block index -/
theorem nodup_flatMap_of_key {α β : Type} (l : List α) (f : α → List β) (key : β → α)
    (hl : l.Nodup) (hf : ∀ a ∈ l, (f a).Nodup) (hk : ∀ a ∈ l, ∀ x ∈ f a, key x = a) :
    (l.flatMap f).Nodup := by
  induction l with
  | nil => simp
  | cons a l ih =>
    rw [List.flatMap_cons, List.nodup_append]
    rw [List.nodup_cons] at hl
    refine ⟨hf a (by simp), ih hl.2 (fun a' h => hf a' (by simp [h])) (fun a' h => hk a' (by simp [h])), ?_⟩
    intro x hx y hy hxy
    rw [List.mem_flatMap] at hy
    obtain ⟨a', ha', hy⟩ := hy
    have h1 := hk a (by simp) x hx
    have h2 := hk a' (by simp [ha']) y hy
    rw [hxy, h2] at h1
    exact hl.1 (h1 ▸ ha')

/-- `map` with a left inverse on the list keeps duplicate-freeness -/
theorem nodup_map_of_key {α β : Type} (l : List α) (f : α → β) (key : β → α)
    (hl : l.Nodup) (hk : ∀ a ∈ l, key (f a) = a) : (l.map f).Nodup := by
  induction l with
  | nil => simp
  | cons a l ih =>
    rw [List.map_cons, List.nodup_cons]
    rw [List.nodup_cons] at hl
    refine ⟨?_, ih hl.2 (fun a' h => hk a' (by simp [h]))⟩
    intro hmem
    rw [List.mem_map] at hmem
    obtain ⟨a', ha', he⟩ := hmem
    have h1 := hk a (by simp)
    have h2 := hk a' (by simp [ha'])
    rw [he, h1] at h2
    exact hl.1 (h2 ▸ ha')

theorem PT.all_nodup : PT.all.Nodup := by decide
theorem PT.mem_all (pt : PT) : pt ∈ PT.all := by cases pt <;> decide

/-! ### keys of a move -/
def Move.ptKey : Move → PT | .piece pt _ _ _ => pt | .castle _ => .pawn
def Move.srcKey : Move → Sq | .piece _ s _ _ => s | .castle _ => 0
def Move.dstKey : Move → Sq | .piece _ _ d _ => d | .castle _ => 0

/-! ### `movesFrom` -/

/-- the filtered destination list of `movesFrom` -/
def Board.dests (K : Keys) (b : Board) (pt : PT) (sq : Sq) : List Sq :=
  (toList (b.pieceMovesMask pt sq)).filter fun d => b.passes K pt sq d

theorem Board.mem_dests (K) (b : Board) (pt : PT) (sq d : Sq) :
    d ∈ b.dests K pt sq ↔ mem d (b.pieceMovesMask pt sq) = true ∧ b.passes K pt sq d = true := by
  simp [Board.dests, List.mem_filter, mem_toList]

theorem Board.dests_nodup (K) (b : Board) (pt : PT) (sq : Sq) : (b.dests K pt sq).Nodup :=
  (toList_nodup _).filter _

/-- the moves generated for one pawn destination -/
def Board.pawnBlock (b : Board) (sq d : Sq) : List Move :=
  if d.rk == Board.promoRank b.stm then
    [.piece .pawn sq d (some .knight), .piece .pawn sq d (some .bishop),
     .piece .pawn sq d (some .rook), .piece .pawn sq d (some .queen)]
  else [.piece .pawn sq d none]

theorem Board.movesFrom_pawn (K) (b : Board) (sq : Sq) :
    b.movesFrom K .pawn sq = (b.dests K .pawn sq).flatMap (b.pawnBlock sq) := rfl

theorem Board.movesFrom_nonpawn (K) (b : Board) (pt : PT) (sq : Sq) (h : pt ≠ .pawn) :
    b.movesFrom K pt sq = (b.dests K pt sq).map fun d => .piece pt sq d none := by
  have : (pt == PT.pawn) = false := by simpa using h
  simp only [Board.movesFrom, this]
  rfl

theorem Board.mem_pawnBlock (b : Board) (sq d : Sq) (m : Move) :
    m ∈ b.pawnBlock sq d ↔ ∃ promo, m = .piece .pawn sq d promo ∧ promoShape b.stm .pawn d promo = true := by
  unfold Board.pawnBlock promoShape
  by_cases hr : (d.rk == Board.promoRank b.stm) = true
  · simp only [hr, if_true, beq_self_eq_true, Bool.and_self]
    constructor
    · intro h
      simp only [List.mem_cons, List.mem_nil_iff, or_false] at h
      rcases h with h | h | h | h <;> exact ⟨_, h, by decide⟩
    · rintro ⟨promo, rfl, hp⟩
      simp only [Bool.or_eq_true, beq_iff_eq] at hp
      rcases hp with ((hp | hp) | hp) | hp <;> subst hp <;> simp
  · have hr' : (d.rk == Board.promoRank b.stm) = false := by simpa using hr
    simp only [hr', beq_self_eq_true, Bool.and_false, Bool.false_eq_true, if_false]
    constructor
    · intro h
      simp only [List.mem_cons, List.mem_nil_iff, or_false] at h
      exact ⟨none, h, by decide⟩
    · rintro ⟨promo, rfl, hp⟩
      simp only [beq_iff_eq] at hp
      subst hp; simp

theorem Board.pawnBlock_nodup (b : Board) (sq d : Sq) : (b.pawnBlock sq d).Nodup := by
  unfold Board.pawnBlock
  split <;> simp

theorem mem_movesFrom (K) (b : Board) (pt : PT) (sq : Sq) (m : Move) :
    m ∈ b.movesFrom K pt sq ↔ ∃ dst promo, m = .piece pt sq dst promo ∧ mem dst (b.pieceMovesMask pt sq) = true ∧
        b.passes K pt sq dst = true ∧ promoShape b.stm pt dst promo = true := by
  by_cases hp : pt = .pawn
  · subst hp
    rw [Board.movesFrom_pawn, List.mem_flatMap]
    constructor
    · rintro ⟨d, hd, hm⟩
      rw [Board.mem_dests] at hd
      rw [Board.mem_pawnBlock] at hm
      obtain ⟨promo, rfl, hs⟩ := hm
      exact ⟨d, promo, rfl, hd.1, hd.2, hs⟩
    · rintro ⟨d, promo, rfl, h1, h2, h3⟩
      exact ⟨d, (Board.mem_dests K b _ _ _).2 ⟨h1, h2⟩, (Board.mem_pawnBlock b _ _ _).2 ⟨promo, rfl, h3⟩⟩
  · rw [Board.movesFrom_nonpawn K b pt sq hp, List.mem_map]
    have hpf : (pt == PT.pawn) = false := by simpa using hp
    constructor
    · rintro ⟨d, hd, rfl⟩
      rw [Board.mem_dests] at hd
      exact ⟨d, none, rfl, hd.1, hd.2, by simp [promoShape, hpf]⟩
    · rintro ⟨d, promo, rfl, h1, h2, h3⟩
      simp only [promoShape, hpf, Bool.false_and, Bool.false_eq_true, if_false, beq_iff_eq] at h3
      subst h3
      exact ⟨d, (Board.mem_dests K b _ _ _).2 ⟨h1, h2⟩, rfl⟩

theorem movesFrom_nodup (K) (b : Board) (pt : PT) (sq : Sq) : (b.movesFrom K pt sq).Nodup := by
  by_cases hp : pt = .pawn
  · subst hp
    rw [Board.movesFrom_pawn]
    refine nodup_flatMap_of_key _ _ Move.dstKey (Board.dests_nodup K b _ _) (fun d _ => Board.pawnBlock_nodup b sq d) ?_
    intro d _ x hx
    rw [Board.mem_pawnBlock] at hx
    obtain ⟨promo, rfl, _⟩ := hx
    rfl
  · rw [Board.movesFrom_nonpawn K b pt sq hp]
    exact nodup_map_of_key _ _ Move.dstKey (Board.dests_nodup K b _ _) (fun _ _ => rfl)

/-! ### `getLegalMoves` -/

/-- the piece-move part of `getLegalMoves` -/
def Board.pieceMoves (K : Keys) (b : Board) : List Move :=
  PT.all.flatMap fun pt => (toList (b.colors b.stm &&& b.pieces pt)).flatMap fun sq => b.movesFrom K pt sq

/-- the castling tail of `getLegalMoves` -/
def castleMoves : CR → List Move
  | .queenSide => [.castle .queen]
  | .kingSide => [.castle .king]
  | .both => [.castle .king, .castle .queen]
  | .neither => []

theorem Board.getLegalMoves_eq (K) (b : Board) :
    b.getLegalMoves K = b.pieceMoves K ++ castleMoves (b.castlingAvailable (some b.checks)) := by
  unfold Board.getLegalMoves Board.pieceMoves
  cases b.castlingAvailable (some b.checks) <;> rfl

theorem Board.mem_pieceMoves (K) (b : Board) (m : Move) :
    m ∈ b.pieceMoves K ↔ ∃ pt src dst promo, m = .piece pt src dst promo ∧
      mem src (b.colors b.stm &&& b.pieces pt) = true ∧ mem dst (b.pieceMovesMask pt src) = true ∧
      b.passes K pt src dst = true ∧ promoShape b.stm pt dst promo = true := by
  unfold Board.pieceMoves
  simp only [List.mem_flatMap, mem_toList, mem_movesFrom]
  constructor
  · rintro ⟨pt, _, src, hs, dst, promo, rfl, h⟩
    exact ⟨pt, src, dst, promo, rfl, hs, h⟩
  · rintro ⟨pt, src, dst, promo, rfl, hs, h⟩
    exact ⟨pt, PT.mem_all pt, src, hs, dst, promo, rfl, h⟩

theorem mem_castleMoves_king (cr : CR) : Move.castle .king ∈ castleMoves cr ↔ cr.hasK = true := by
  cases cr <;> simp [castleMoves, CR.hasK]

theorem mem_castleMoves_queen (cr : CR) : Move.castle .queen ∈ castleMoves cr ↔ cr.hasQ = true := by
  cases cr <;> simp [castleMoves, CR.hasQ]

theorem not_piece_mem_castleMoves (cr : CR) (pt : PT) (src dst : Sq) (promo : Option PT) :
    Move.piece pt src dst promo ∉ castleMoves cr := by
  cases cr <;> simp [castleMoves]

theorem castleMoves_nodup (cr : CR) : (castleMoves cr).Nodup := by
  cases cr <;> simp [castleMoves]

theorem mem_getLegalMoves_piece (K) (b : Board) (pt : PT) (src dst : Sq) (promo : Option PT) :
    Move.piece pt src dst promo ∈ b.getLegalMoves K ↔
      mem src (b.colors b.stm &&& b.pieces pt) = true ∧ mem dst (b.pieceMovesMask pt src) = true ∧
        b.passes K pt src dst = true ∧ promoShape b.stm pt dst promo = true := by
  rw [Board.getLegalMoves_eq, List.mem_append, Board.mem_pieceMoves]
  constructor
  · rintro (⟨pt', src', dst', promo', he, h⟩ | h)
    · cases he; exact h
    · exact absurd h (not_piece_mem_castleMoves _ _ _ _ _)
  · intro h
    exact Or.inl ⟨pt, src, dst, promo, rfl, h⟩

theorem mem_getLegalMoves_castleK (K) (b : Board) :
    Move.castle .king ∈ b.getLegalMoves K ↔ (b.castlingAvailable (some b.checks)).hasK = true := by
  rw [Board.getLegalMoves_eq, List.mem_append, Board.mem_pieceMoves, mem_castleMoves_king]
  constructor
  · rintro (⟨_, _, _, _, he, _⟩ | h)
    · cases he
    · exact h
  · exact Or.inr

theorem mem_getLegalMoves_castleQ (K) (b : Board) :
    Move.castle .queen ∈ b.getLegalMoves K ↔ (b.castlingAvailable (some b.checks)).hasQ = true := by
  rw [Board.getLegalMoves_eq, List.mem_append, Board.mem_pieceMoves, mem_castleMoves_queen]
  constructor
  · rintro (⟨_, _, _, _, he, _⟩ | h)
    · cases he
    · exact h
  · exact Or.inr

theorem mem_getLegalMoves (K) (b : Board) (m : Move) :
    m ∈ b.getLegalMoves K ↔
      match m with
      | .piece pt src dst promo => mem src (b.colors b.stm &&& b.pieces pt) = true ∧ mem dst (b.pieceMovesMask pt src) = true ∧
          b.passes K pt src dst = true ∧ promoShape b.stm pt dst promo = true
      | .castle .king => (b.castlingAvailable (some b.checks)).hasK = true
      | .castle .queen => (b.castlingAvailable (some b.checks)).hasQ = true := by
  match m with
  | .piece pt src dst promo => exact mem_getLegalMoves_piece K b pt src dst promo
  | .castle .king => exact mem_getLegalMoves_castleK K b
  | .castle .queen => exact mem_getLegalMoves_castleQ K b

theorem Board.pieceMoves_nodup (K) (b : Board) : (b.pieceMoves K).Nodup := by
  unfold Board.pieceMoves
  refine nodup_flatMap_of_key _ _ Move.ptKey PT.all_nodup ?_ ?_
  · intro pt _
    refine nodup_flatMap_of_key _ _ Move.srcKey (toList_nodup _) (fun sq _ => movesFrom_nodup K b pt sq) ?_
    intro sq _ x hx
    rw [mem_movesFrom] at hx
    obtain ⟨dst, promo, rfl, _⟩ := hx
    rfl
  · intro pt _ x hx
    rw [List.mem_flatMap] at hx
    obtain ⟨sq, _, hx⟩ := hx
    rw [mem_movesFrom] at hx
    obtain ⟨dst, promo, rfl, _⟩ := hx
    rfl

theorem getLegalMoves_nodup (K) (b : Board) : (b.getLegalMoves K).Nodup := by
  rw [Board.getLegalMoves_eq, List.nodup_append]
  refine ⟨Board.pieceMoves_nodup K b, castleMoves_nodup _, ?_⟩
  intro x hx y hy hxy
  rw [Board.mem_pieceMoves] at hx
  obtain ⟨pt, src, dst, promo, rfl, _⟩ := hx
  subst hxy
  exact not_piece_mem_castleMoves _ _ _ _ _ hy

/-- every generated move with a promotion field is a pawn move to the promotion rank (corollary of the shape) -/
theorem promoShape_none_iff (stm : Color) (pt : PT) (dst : Sq) :
    promoShape stm pt dst none = true ↔ ¬ (pt = .pawn ∧ dst.rk = Board.promoRank stm) := by
  unfold promoShape
  by_cases h : (pt == .pawn && dst.rk == Board.promoRank stm) = true
  · simp only [h, if_true]
    simp only [Bool.and_eq_true, beq_iff_eq] at h
    simp [h]
  · have h' : (pt == .pawn && dst.rk == Board.promoRank stm) = false := by simpa using h
    simp only [h', Bool.false_eq_true, if_false]
    simp only [Bool.and_eq_true, beq_iff_eq] at h
    simp [h]

end Chess
