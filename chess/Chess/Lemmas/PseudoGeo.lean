import Chess.Props.C17
/-! Finite geometric facts about rays / strictly-between / pawn pushes used by `Chess/Lemmas/Pseudo.lean`;
each is a statement over the whole finite domain, checked by the kernel (split per direction to keep each check short). -/
namespace Chess.PseudoGeo
open Chess Chess.Spec Chess.C17

/-- index-increasing directions: up, right, up-right, up-left -/
def Inc (i : Fin 8) : Prop := i = 0 ∨ i = 2 ∨ i = 4 ∨ i = 5
instance (i : Fin 8) : Decidable (Inc i) := by unfold Inc; infer_instance

theorem inc_or_dec : ∀ i : Fin 8, Inc i ∨ (i = 1 ∨ i = 3 ∨ i = 6 ∨ i = 7) := by decide

/-! on an index-increasing ray, the squares strictly between the origin and a ray square `t` are the ray squares below `t` -/
theorem between_inc0 : ∀ (a t : Sq), onRay 0 a t = true → ∀ u : Sq, strictlyBetween a u t = (onRay 0 a u && decide (u < t)) := by decide +kernel
theorem between_inc2 : ∀ (a t : Sq), onRay 2 a t = true → ∀ u : Sq, strictlyBetween a u t = (onRay 2 a u && decide (u < t)) := by decide +kernel
theorem between_inc4 : ∀ (a t : Sq), onRay 4 a t = true → ∀ u : Sq, strictlyBetween a u t = (onRay 4 a u && decide (u < t)) := by decide +kernel
theorem between_inc5 : ∀ (a t : Sq), onRay 5 a t = true → ∀ u : Sq, strictlyBetween a u t = (onRay 5 a u && decide (u < t)) := by decide +kernel
/-! dually on an index-decreasing ray -/
theorem between_dec1 : ∀ (a t : Sq), onRay 1 a t = true → ∀ u : Sq, strictlyBetween a u t = (onRay 1 a u && decide (t < u)) := by decide +kernel
theorem between_dec3 : ∀ (a t : Sq), onRay 3 a t = true → ∀ u : Sq, strictlyBetween a u t = (onRay 3 a u && decide (t < u)) := by decide +kernel
theorem between_dec6 : ∀ (a t : Sq), onRay 6 a t = true → ∀ u : Sq, strictlyBetween a u t = (onRay 6 a u && decide (t < u)) := by decide +kernel
theorem between_dec7 : ∀ (a t : Sq), onRay 7 a t = true → ∀ u : Sq, strictlyBetween a u t = (onRay 7 a u && decide (t < u)) := by decide +kernel

theorem between_inc (i : Fin 8) (hi : Inc i) (a t : Sq) (h : onRay i a t = true) (u : Sq) :
    strictlyBetween a u t = (onRay i a u && decide (u < t)) := by
  rcases hi with rfl | rfl | rfl | rfl
  · exact between_inc0 a t h u
  · exact between_inc2 a t h u
  · exact between_inc4 a t h u
  · exact between_inc5 a t h u

theorem between_dec (i : Fin 8) (hi : i = 1 ∨ i = 3 ∨ i = 6 ∨ i = 7) (a t : Sq) (h : onRay i a t = true) (u : Sq) :
    strictlyBetween a u t = (onRay i a u && decide (t < u)) := by
  rcases hi with rfl | rfl | rfl | rfl
  · exact between_dec1 a t h u
  · exact between_dec3 a t h u
  · exact between_dec6 a t h u
  · exact between_dec7 a t h u

/-- ray squares are aligned with the origin (so the between-table has an entry) -/
theorem onRay_aligned : ∀ (i : Fin 8) (a t : Sq), onRay i a t = true → aligned a t = true := by decide +kernel

/-- the eight rays of a square are pairwise disjoint -/
theorem onRay_disjoint : ∀ (i : Fin 8) (a t : Sq), onRay i a t = true → ∀ j : Fin 8, onRay j a t = true → i = j := by decide +kernel

/-- rook / bishop directions cover exactly the orthogonal / diagonal squares -/
theorem orthogonal_iff : ∀ a t : Sq, orthogonal a t = (onRay 0 a t || onRay 1 a t || onRay 2 a t || onRay 3 a t) := by decide +kernel
theorem diagonal_iff : ∀ a t : Sq, diagonal a t = (onRay 4 a t || onRay 5 a t || onRay 6 a t || onRay 7 a t) := by decide +kernel

/-- the single-push table entry is the square one step forward (if on the board) -/
theorem push_mkSq : ∀ (c : Color) (a m : Sq), (df a m == 0 && dr a m == fwd c) = (mkSq? (a.rank + fwd c) a.file == some m) := by
  intro c; cases c <;> decide +kernel

end Chess.PseudoGeo
