import Chess.Lemmas.BB
import Chess.Model.Board
import Chess.Spec.Rules
namespace Chess
open Board

theorem isBlank_iff (b : BB) : isBlank b = true ↔ b = 0#64 := by simp [isBlank]
theorem isBlank_and_bbOf (m : BB) (s : Sq) : isBlank (m &&& bbOf s) = !mem s m := by
  cases h : mem s m
  · simp only [Bool.not_false, isBlank_iff, eq_zero_iff]
    intro t; simp only [mem_and, mem_bbOf]
    by_cases e : t = s
    · subst e; simp [h]
    · simp [e]
  · simp only [Bool.not_true]
    cases h2 : isBlank (m &&& bbOf s)
    · rfl
    · rw [isBlank_iff, eq_zero_iff] at h2
      have := h2 s; simp [h] at this

/-- the masks of `b` encode the placement `f` -/
structure Rep (b : Board) (f : Sq → Option Piece) : Prop where
  pcs : ∀ t s, mem s (b.pieces t) = (match f s with | some p => p.pt == t | none => false)
  cls : ∀ c s, mem s (b.colors c) = (match f s with | some p => p.c == c | none => false)
  cmb : ∀ s, mem s b.combined = (f s).isSome

end Chess
namespace Chess
open Board
variable (K : Keys)

theorem Rep.isEmptySq {b : Board} {f} (h : Rep b f) (s : Sq) : b.isEmptySq s = (f s).isNone := by
  simp only [Board.isEmptySq, isBlank_and_bbOf, h.cmb]; cases f s <;> rfl

theorem Rep.typeIdxSum {b : Board} {f} (h : Rep b f) (s : Sq) (p : Piece) (hp : f s = some p) :
    b.typeIdxSum s = p.pt.idx := by
  simp only [Board.typeIdxSum, isBlank_and_bbOf, h.pcs, hp, List.foldl_cons, List.foldl_nil]
  obtain ⟨t, c⟩ := p
  cases t <;> simp [PT.idx]

theorem Rep.getPieceTypeOn {b : Board} {f} (h : Rep b f) (s : Sq) : b.getPieceTypeOn s = (f s).map (·.pt) := by
  unfold Board.getPieceTypeOn
  rw [h.isEmptySq]
  cases hp : f s with
  | none => simp
  | some p =>
    simp only [Option.isNone_some, Bool.false_eq_true, if_false, h.typeIdxSum s p hp, Option.map_some]
    cases p.pt <;> rfl

theorem Rep.getPieceColorOn {b : Board} {f} (h : Rep b f) (s : Sq) : b.getPieceColorOn s = (f s).map (·.c) := by
  unfold Board.getPieceColorOn
  rw [h.isEmptySq, isBlank_and_bbOf, h.cls]
  cases hp : f s with
  | none => simp
  | some p => obtain ⟨t, c⟩ := p; cases c <;> simp

theorem Rep.getPieceOn {b : Board} {f} (h : Rep b f) (s : Sq) : b.getPieceOn s = f s := by
  unfold Board.getPieceOn
  rw [h.getPieceTypeOn, isBlank_and_bbOf, h.cls]
  cases hp : f s with
  | none => simp
  | some p => obtain ⟨t, c⟩ := p; cases c <;> simp

/-- the placement a board encodes -/
def Board.abs (b : Board) : Sq → Option Piece := fun s => b.getPieceOn s

theorem Rep.abs_eq {b : Board} {f} (h : Rep b f) : b.abs = f := funext fun s => h.getPieceOn s

theorem Rep.clearSquare {b : Board} {f} (h : Rep b f) (s : Sq) : Rep (b.clearSquare K s) (Spec.upd f s none) := by
  unfold Board.clearSquare
  rw [h.getPieceOn]
  cases hp : f s with
  | none =>
    have : Spec.upd f s none = f := by funext x; simp only [Spec.upd]; split <;> simp_all
    simpa [this] using h
  | some p =>
    constructor
    · intro t x
      simp only [Spec.upd, setFn]
      by_cases hx : x = s
      · subst hx; have := h.pcs t x; rw [hp] at this
        by_cases ht : t = p.pt
        · subst ht; simp
        · have ht' : p.pt ≠ t := fun e => ht e.symm
          simp [ht, this, ht']
      · by_cases ht : t = p.pt <;> simp [hx, ht, h.pcs]
    · intro c x
      simp only [Spec.upd, setFn]
      by_cases hx : x = s
      · subst hx; have := h.cls c x; rw [hp] at this
        by_cases hc : c = p.c
        · subst hc; simp
        · have hc' : p.c ≠ c := fun e => hc e.symm
          simp [hc, this, hc']
      · by_cases hc : c = p.c <;> simp [hx, hc, h.cls]
    · intro x
      simp only [Spec.upd, mem_and, mem_not, mem_bbOf, h.cmb]
      by_cases hx : x = s <;> simp [hx]
end Chess

namespace Chess
open Board
variable (K : Keys)

theorem Rep.putPiece_empty {b : Board} {f} (h : Rep b f) (p : Piece) (s : Sq) (he : f s = none) :
    Rep ({ b with combined := b.combined ^^^ bbOf s,
                  pieces := setFn b.pieces p.pt (b.pieces p.pt ^^^ bbOf s),
                  colors := setFn b.colors p.c (b.colors p.c ^^^ bbOf s),
                  hash := b.hash ^^^ K.piece p.c p.pt s } : Board) (Spec.upd f s (some p)) := by
  constructor
  · intro t x
    simp only [Spec.upd, setFn]
    by_cases hx : x = s
    · subst hx
      have := h.pcs t x; rw [he] at this
      by_cases ht : t = p.pt
      · subst ht; simp [this]
      · have ht' : p.pt ≠ t := fun e => ht e.symm
        simp [ht, this, ht']
    · by_cases ht : t = p.pt <;> simp [hx, ht, h.pcs]
  · intro c x
    simp only [Spec.upd, setFn]
    by_cases hx : x = s
    · subst hx
      have := h.cls c x; rw [he] at this
      by_cases hc : c = p.c
      · subst hc; simp [this]
      · have hc' : p.c ≠ c := fun e => hc e.symm
        simp [hc, this, hc']
    · by_cases hc : c = p.c <;> simp [hx, hc, h.cls]
  · intro x
    simp only [Spec.upd, mem_xor, mem_bbOf, h.cmb]
    by_cases hx : x = s
    · subst hx; simp [he]
    · simp [hx]

theorem Rep.putPiece {b : Board} {f} (h : Rep b f) (p : Piece) (s : Sq) :
    Rep (b.putPiece K p s) (Spec.upd f s (some p)) := by
  unfold Board.putPiece
  rw [h.isEmptySq]
  cases he : f s with
  | none =>
    simp only [Option.isNone_none, Bool.not_true, Bool.false_eq_true, if_false]
    exact h.putPiece_empty K p s he
  | some q =>
    simp only [Option.isNone_some, Bool.not_false, if_true]
    have h1 := h.clearSquare K s
    have := h1.putPiece_empty K p s (by simp [Spec.upd])
    have e : Spec.upd (Spec.upd f s none) s (some p) = Spec.upd f s (some p) := by
      funext x; simp only [Spec.upd]; split <;> rfl
    rw [e] at this
    exact this

/-! frame facts: the placement primitives touch only masks and hash -/
@[simp] theorem clearSquare_stm (b : Board) (s : Sq) : (b.clearSquare K s).stm = b.stm := by
  unfold Board.clearSquare; split <;> rfl
@[simp] theorem clearSquare_rights (b : Board) (s : Sq) : (b.clearSquare K s).rights = b.rights := by
  unfold Board.clearSquare; split <;> rfl
@[simp] theorem clearSquare_ep (b : Board) (s : Sq) : (b.clearSquare K s).ep = b.ep := by
  unfold Board.clearSquare; split <;> rfl
@[simp] theorem clearSquare_half (b : Board) (s : Sq) : (b.clearSquare K s).half = b.half := by
  unfold Board.clearSquare; split <;> rfl
@[simp] theorem clearSquare_full (b : Board) (s : Sq) : (b.clearSquare K s).full = b.full := by
  unfold Board.clearSquare; split <;> rfl
@[simp] theorem putPiece_stm (b : Board) (p : Piece) (s : Sq) : (b.putPiece K p s).stm = b.stm := by
  unfold Board.putPiece; split <;> simp
@[simp] theorem putPiece_rights (b : Board) (p : Piece) (s : Sq) : (b.putPiece K p s).rights = b.rights := by
  unfold Board.putPiece; split <;> simp
@[simp] theorem putPiece_ep (b : Board) (p : Piece) (s : Sq) : (b.putPiece K p s).ep = b.ep := by
  unfold Board.putPiece; split <;> simp
@[simp] theorem putPiece_half (b : Board) (p : Piece) (s : Sq) : (b.putPiece K p s).half = b.half := by
  unfold Board.putPiece; split <;> simp
@[simp] theorem putPiece_full (b : Board) (p : Piece) (s : Sq) : (b.putPiece K p s).full = b.full := by
  unfold Board.putPiece; split <;> simp

/-- key of the man (if any) on a square -/
def Keys.occ (K : Keys) (v : Option Piece) (s : Sq) : BB := match v with | some p => K.piece p.c p.pt s | none => 0#64

theorem Rep.clearSquare_hash {b : Board} {f} (h : Rep b f) (s : Sq) :
    (b.clearSquare K s).hash = b.hash ^^^ K.occ (f s) s := by
  unfold Board.clearSquare
  rw [h.getPieceOn]
  cases f s <;> simp [Keys.occ]

theorem Rep.putPiece_hash {b : Board} {f} (h : Rep b f) (p : Piece) (s : Sq) :
    (b.putPiece K p s).hash = b.hash ^^^ K.occ (f s) s ^^^ K.piece p.c p.pt s := by
  unfold Board.putPiece
  rw [h.isEmptySq]
  cases he : f s with
  | none => simp [Keys.occ]
  | some q => simp [h.clearSquare_hash K s, he]

end Chess
