import Chess.Props.C13Render
import Chess.Props.C12
import Chess.Lemmas.San
/-! Text lemmas for the PGN round trip (C15): line wrapping only regroups words, the scanner recovers the SAN list
and the result word of an exported moves section. -/
namespace Chess
open Chess.C13

/-! ### general `splitOn` facts -/

/-- splitting distributes over a separator -/
theorem splitOn_append_sep_gen (sep : Char) (a b : Str) :
    splitOn sep (a ++ sep :: b) = splitOn sep a ++ splitOn sep b := by
  induction a with
  | nil => rw [List.nil_append, splitOn_sep_cons]; rfl
  | cons c a ih =>
    rw [List.cons_append, splitOn, ih, splitOn]
    cases h : splitOn sep a with
    | nil => exact absurd h (splitOn_ne_nil sep a)
    | cons p ps => by_cases e : c = sep <;> simp [e]

/-- newline → space, as in the scanner -/
def nl2sp (t : Str) : Str := t.map fun c => if c = '\n' then ' ' else c

/-- the whitespace-separated non-empty words of a text (space and newline are the whitespace) -/
def wordsOf (t : Str) : List Str := (splitOn ' ' (nl2sp t)).filter (fun w => !w.isEmpty)

theorem wordsOf_nil : wordsOf [] = [] := by decide

theorem wordsOf_append_space (a b : Str) : wordsOf (a ++ ' ' :: b) = wordsOf a ++ wordsOf b := by
  unfold wordsOf nl2sp
  rw [List.map_append, List.map_cons]
  simp only [show (' ' : Char) ≠ '\n' by decide, if_false]
  rw [splitOn_append_sep_gen, List.filter_append]

theorem wordsOf_append_nl (a b : Str) : wordsOf (a ++ '\n' :: b) = wordsOf a ++ wordsOf b := by
  unfold wordsOf nl2sp
  rw [List.map_append, List.map_cons]
  simp only [if_true]
  rw [splitOn_append_sep_gen, List.filter_append]

/-- a word: non-empty, without space or newline -/
def IsWord (w : Str) : Prop := w ≠ [] ∧ ' ' ∉ w ∧ '\n' ∉ w

theorem nl2sp_of_no_nl (w : Str) (h : '\n' ∉ w) : nl2sp w = w := by
  unfold nl2sp
  induction w with
  | nil => rfl
  | cons c w ih =>
    have hc : c ≠ '\n' := fun e => h (by simp [e])
    rw [List.map_cons, ih (fun e => h (by simp [e]))]; simp [hc]

theorem wordsOf_word (w : Str) (h : IsWord w) : wordsOf w = [w] := by
  unfold wordsOf
  rw [nl2sp_of_no_nl w h.2.2, splitOn_no_sep _ _ h.2.1]
  have : w.isEmpty = false := by cases w <;> simp_all [IsWord]
  simp [this]

/-! ### 1. wrapping is harmless -/
open Chess.Game

theorem joinWith_cons (sep x : Str) (xs : List Str) :
    joinWith sep (x :: xs) = if xs = [] then x else x ++ sep ++ joinWith sep xs := by
  cases xs <;> simp [joinWith]

theorem wordsOf_joinWith_cons (x : Str) (xs : List Str) :
    wordsOf (joinWith ['\n'] (x :: xs)) = wordsOf x ++ wordsOf (joinWith ['\n'] xs) := by
  rw [joinWith_cons]
  by_cases h : xs = []
  · subst h; simp [joinWith, wordsOf_nil]
  · rw [if_neg h, List.append_assoc, List.singleton_append, wordsOf_append_nl]

theorem wrapWords_go_nil (w : Nat) (cur : Str) :
    wrapWords.go w cur [] = if cur.isEmpty then [] else [cur] := by
  rw [wrapWords.go]
theorem wrapWords_go_cons (w : Nat) (cur x : Str) (xs : List Str) :
    wrapWords.go w cur (x :: xs) =
      if cur.isEmpty then wrapWords.go w x xs
      else if cur.length + 1 + x.length ≤ w then wrapWords.go w (cur ++ [' '] ++ x) xs
      else cur :: wrapWords.go w x xs := by
  rw [wrapWords.go]

/-- the wrapping loop only regroups: the words of the joined lines are the words of the pending line followed by the
remaining words -/
theorem wordsOf_wrap_go (w : Nat) (ws : List Str) (hw : ∀ x ∈ ws, IsWord x) (cur : Str) :
    wordsOf (joinWith ['\n'] (wrapWords.go w cur ws)) = wordsOf cur ++ ws := by
  induction ws generalizing cur with
  | nil =>
    rw [wrapWords_go_nil]
    cases cur with
    | nil => simp [joinWith, wordsOf_nil]
    | cons c cs => simp [joinWith]
  | cons x xs ih =>
    have hx : IsWord x := hw x (by simp)
    have hxs : ∀ y ∈ xs, IsWord y := fun y hy => hw y (by simp [hy])
    rw [wrapWords_go_cons]
    by_cases h1 : cur.isEmpty = true
    · rw [if_pos h1, ih hxs, wordsOf_word x hx]
      have : cur = [] := by simpa using h1
      subst this; simp [wordsOf_nil]
    · rw [if_neg h1]
      by_cases h2 : cur.length + 1 + x.length ≤ w
      · rw [if_pos h2, ih hxs, List.append_assoc, List.singleton_append, wordsOf_append_space, wordsOf_word x hx]
        simp
      · rw [if_neg h2, wordsOf_joinWith_cons, ih hxs, wordsOf_word x hx]
        simp

/-- **wrapping is harmless**: the words of the wrapped text are the words that were wrapped, for every width -/
theorem wordsOf_wrapWords (w : Nat) (ws : List Str) (hw : ∀ x ∈ ws, IsWord x) :
    wordsOf (joinWith ['\n'] (wrapWords w ws)) = ws := by
  unfold wrapWords
  rw [wordsOf_wrap_go w ws hw, wordsOf_nil]; rfl

/-! ### 2. the characters of SAN texts -/

/-- the characters a SAN text can contain -/
def okCh (c : Char) : Bool := c.isAlphanum || c == '=' || c == '+' || c == '#' || c == '-'

theorem fileChar_ok : ∀ f : Fin 8, okCh (fileChar f.val) = true ∧ (fileChar f.val).isAlpha = true := by decide
theorem rankChar_ok : ∀ f : Fin 8, okCh (rankChar f.val) = true := by decide
theorem letter_ok (t : PT) : okCh t.letter = true := by cases t <;> decide

theorem printSquare_ok (s : Sq) : ∀ c ∈ printSquare s, okCh c = true := by
  intro c hc
  simp only [printSquare, List.mem_cons, List.not_mem_nil, or_false] at hc
  rcases hc with rfl | rfl
  · exact (fileChar_ok ⟨s.fl, s.fl_lt⟩).1
  · exact rankChar_ok ⟨s.rk, s.rk_lt⟩

theorem sanL_ok (pt : PT) : ∀ c ∈ sanL pt, okCh c = true := by
  intro c hc; cases pt <;> simp [sanL] at hc <;> subst hc <;> decide
theorem sanD_ok (a : Amb) (s : Sq) : ∀ c ∈ sanD a s, okCh c = true := by
  intro c hc
  cases a
  · simp only [sanD, List.mem_singleton] at hc; subst hc; exact (fileChar_ok ⟨s.fl, s.fl_lt⟩).1
  · simp only [sanD, List.mem_singleton] at hc; subst hc; exact rankChar_ok ⟨s.rk, s.rk_lt⟩
  · exact printSquare_ok s c hc
  · simp [sanD] at hc
theorem sanX_ok (x : Bool) : ∀ c ∈ sanX x, okCh c = true := by
  intro c hc; cases x <;> simp [sanX] at hc; subst hc; decide
theorem sanP_ok (pr : Option PT) : ∀ c ∈ sanP pr, okCh c = true := by
  intro c hc
  cases pr with
  | none => simp [sanP] at hc
  | some t =>
    simp only [sanP, List.mem_cons, List.not_mem_nil, or_false] at hc
    rcases hc with rfl | rfl
    · decide
    · exact letter_ok t
theorem sanC_ok (p : MoveProps) : ∀ c ∈ sanC p, okCh c = true := by
  intro c hc
  rcases sanChk_cases p.isMate p.isCheck with h | h | h <;> rw [sanC, h] at hc <;> simp at hc <;> subst hc <;> decide
theorem castleStr_ok (s : Side) : ∀ c ∈ castleStr s, okCh c = true := by
  cases s <;> decide

/-- every character of a SAN text is a letter, a digit or one of `= + # -` -/
theorem sanText_ok (m : Move) (p : MoveProps) : ∀ c ∈ sanText m p, okCh c = true := by
  intro c hc
  cases m with
  | castle s =>
    rw [sanText_castle, List.mem_append] at hc
    rcases hc with h | h
    · exact castleStr_ok s c h
    · exact sanC_ok p c h
  | piece pt src dst promo =>
    rw [sanText_piece] at hc
    simp only [List.mem_append] at hc
    rcases hc with ((((h | h) | h) | h) | h) | h
    · exact sanL_ok _ c h
    · exact sanD_ok _ _ c h
    · exact sanX_ok _ c h
    · exact printSquare_ok _ c h
    · exact sanP_ok _ c h
    · exact sanC_ok _ c h

/-- a SAN text contains a letter (the destination file, or the `O` of castling) -/
theorem sanText_has_alpha (m : Move) (p : MoveProps) : (sanText m p).any Char.isAlpha = true := by
  rw [List.any_eq_true]
  cases m with
  | castle s =>
    refine ⟨'O', ?_, by decide⟩
    rw [sanText_castle]; cases s <;> simp [castleStr]
  | piece pt src dst promo =>
    refine ⟨fileChar dst.fl, ?_, (fileChar_ok ⟨dst.fl, dst.fl_lt⟩).2⟩
    rw [sanText_piece]; simp [printSquare]

/-- what the scanner needs of a SAN word -/
structure SanWord (w : Str) : Prop where
  ok : ∀ c ∈ w, okCh c = true
  alpha : w.any Char.isAlpha = true

theorem sanText_sanWord (m : Move) (p : MoveProps) : SanWord (sanText m p) := ⟨sanText_ok m p, sanText_has_alpha m p⟩

theorem SanWord.ne_nil {w : Str} (h : SanWord w) : w ≠ [] := by
  rintro rfl; have := h.alpha; simp at this
theorem SanWord.not_mem {w : Str} (h : SanWord w) (c : Char) (hc : okCh c = false) : c ∉ w := by
  intro hm; rw [h.ok c hm] at hc; cases hc
theorem SanWord.isWord {w : Str} (h : SanWord w) : IsWord w :=
  ⟨h.ne_nil, h.not_mem ' ' (by decide), h.not_mem '\n' (by decide)⟩

theorem isResultWord_no_alpha (w : Str) (h : isResultWord w = true) : w.any Char.isAlpha = false := by
  unfold isResultWord at h
  simp only [Bool.or_eq_true, decide_eq_true_eq] at h
  rcases h with (((h | h) | h) | h) | h <;> subst h <;> decide

theorem SanWord.not_result {w : Str} (h : SanWord w) : isResultWord w = false := by
  cases hr : isResultWord w with
  | false => rfl
  | true => have := isResultWord_no_alpha w hr; rw [h.alpha] at this; cases this

theorem SanWord.ne_dots {w : Str} (h : SanWord w) : w ≠ "...".toList := by
  rintro rfl; have := h.alpha; revert this; decide

/-- a numbered SAN word `N.san` is not a result word either -/
theorem numbered_not_result (n : Nat) {w : Str} (h : SanWord w) : isResultWord (natStr n ++ '.' :: w) = false := by
  cases hr : isResultWord (natStr n ++ '.' :: w) with
  | false => rfl
  | true =>
    have := isResultWord_no_alpha _ hr
    rw [List.any_append, List.any_cons, h.alpha] at this; simp at this

theorem dropWhile_digits (ds rest : Str) (hd : ∀ c ∈ ds, c.isDigit = true) :
    (ds ++ rest).dropWhile Char.isDigit = rest.dropWhile Char.isDigit := by
  induction ds with
  | nil => rfl
  | cons d ds ih =>
    rw [List.cons_append, List.dropWhile_cons, if_pos (hd d (by simp))]
    exact ih (fun c hc => hd c (by simp [hc]))

/-- the move-number prefix is stripped -/
theorem stripNumber_numbered (n : Nat) (w : Str) : stripNumber (natStr n ++ '.' :: w) = w := by
  unfold stripNumber
  have h1 : (natStr n ++ '.' :: w).dropWhile Char.isDigit = '.' :: w := by
    rw [dropWhile_digits _ _ (fun c hc => natStr_isDigit n c hc), List.dropWhile_cons, if_neg (by decide)]
  have h2 : (natStr n ++ '.' :: w).head?.any Char.isDigit = true := by
    cases hn : natStr n with
    | nil => exact absurd hn (natStr_ne_nil n)
    | cons d ds =>
      have : d.isDigit = true := natStr_isDigit n d (by rw [hn]; simp)
      simp [this]
  simp only [h1, h2, if_true]

theorem mem_of_mem_dropWhile {α} (p : α → Bool) (l : List α) (a : α) (h : a ∈ l.dropWhile p) : a ∈ l :=
  (List.dropWhile_sublist p).subset h

/-- a bare SAN word is left alone -/
theorem stripNumber_sanWord {w : Str} (h : SanWord w) : stripNumber w = w := by
  have hdot : '.' ∉ w := h.not_mem '.' (by decide)
  unfold stripNumber
  simp only []
  split
  · rename_i r heq
    have hc : '.' ∈ w := mem_of_mem_dropWhile _ _ _ (by rw [heq]; simp)
    exact absurd hc hdot
  · rfl

/-! ### 3. the scanner on an exported moves section -/

theorem scanMoves_eq (t : Str) :
    scanMoves t = (((wordsOf t).filter (fun w => !isResultWord w)).map stripNumber).filter
      (fun w => !w.isEmpty && w != "...".toList) := rfl
theorem scanResult_eq (t : Str) :
    scanResult t = (wordsOf t).find? (fun w => w = "1-0".toList || w = "0-1".toList || w = "1/2-1/2".toList) := rfl

theorem numbered_sanWord (ply : Nat) (sans : List Str) (hs : ∀ s ∈ sans, SanWord s) :
    ∀ x ∈ numbered ply sans, IsWord x ∧ isResultWord x = false := by
  induction sans generalizing ply with
  | nil => intro x hx; simp [numbered] at hx
  | cons s rest ih =>
    have h1 : SanWord s := hs s (by simp)
    intro x hx
    rw [numbered, List.mem_cons] at hx
    rcases hx with rfl | hx
    · split
      · refine ⟨⟨by simp, ?_, ?_⟩, numbered_not_result _ h1⟩
        · exact natStr_dot_no_space _ _ h1.isWord.2.1
        · simp only [List.mem_append, List.mem_cons, not_or]
          exact ⟨not_mem_natStr _ _ (by decide), by decide, h1.isWord.2.2⟩
      · exact ⟨h1.isWord, h1.not_result⟩
    · exact ih (ply + 1) (fun y hy => hs y (by simp [hy])) x hx

theorem numbered_strip (ply : Nat) (sans : List Str) (hs : ∀ s ∈ sans, SanWord s) :
    (numbered ply sans).map stripNumber = sans := by
  induction sans generalizing ply with
  | nil => rfl
  | cons s rest ih =>
    have h1 : SanWord s := hs s (by simp)
    rw [numbered, List.map_cons, ih (ply + 1) (fun y hy => hs y (by simp [hy]))]
    split
    · rw [stripNumber_numbered]
    · rw [stripNumber_sanWord h1]

/-- the words of an exported moves section: the numbered SAN words, then the result word -/
theorem wordsOf_section (w : Nat) (sans : List Str) (hs : ∀ s ∈ sans, SanWord s) (res : Str) (hres : IsWord res) :
    wordsOf (joinWith ['\n'] (wrapWords w (numbered 0 sans)) ++ [' '] ++ res) = numbered 0 sans ++ [res] := by
  rw [List.append_assoc, List.singleton_append, wordsOf_append_space,
    wordsOf_wrapWords w _ (fun x hx => (numbered_sanWord 0 sans hs x hx).1), wordsOf_word res hres]

/-- **token cleaning**: scanning the wrapped, numbered move text followed by a result word gives back the SAN list -/
theorem scanMoves_section (w : Nat) (sans : List Str) (hs : ∀ s ∈ sans, SanWord s) (res : Str) (hres : IsWord res)
    (hr : isResultWord res = true) :
    scanMoves (joinWith ['\n'] (wrapWords w (numbered 0 sans)) ++ [' '] ++ res) = sans := by
  rw [scanMoves_eq, wordsOf_section w sans hs res hres, List.filter_append]
  have h1 : (numbered 0 sans).filter (fun w => !isResultWord w) = numbered 0 sans :=
    List.filter_eq_self.2 (fun x hx => by simp [(numbered_sanWord 0 sans hs x hx).2])
  have h2 : [res].filter (fun w => !isResultWord w) = [] := by simp [hr]
  rw [h1, h2, List.append_nil, numbered_strip 0 sans hs]
  apply List.filter_eq_self.2
  intro x hx
  have hx' := hs x hx
  have e1 : x.isEmpty = false := by have := hx'.ne_nil; cases x <;> simp_all
  have e2 : (x != "...".toList) = true := bne_iff_ne.2 hx'.ne_dots
  rw [e1, e2]; rfl

/-- the result word found by the scanner: the final word if it is a decisive or drawn result, none for `?` -/
theorem scanResult_section (w : Nat) (sans : List Str) (hs : ∀ s ∈ sans, SanWord s) (res : Str) (hres : IsWord res) :
    scanResult (joinWith ['\n'] (wrapWords w (numbered 0 sans)) ++ [' '] ++ res) =
      if res = "1-0".toList ∨ res = "0-1".toList ∨ res = "1/2-1/2".toList then some res else none := by
  rw [scanResult_eq, wordsOf_section w sans hs res hres, List.find?_append]
  have h1 : (numbered 0 sans).find? (fun w => w = "1-0".toList || w = "0-1".toList || w = "1/2-1/2".toList) = none := by
    rw [List.find?_eq_none]
    intro x hx hh
    have hnr := (numbered_sanWord 0 sans hs x hx).2
    unfold isResultWord at hnr
    simp only [Bool.or_eq_true, decide_eq_true_eq] at hh
    simp only [Bool.or_eq_false_iff, decide_eq_false_iff_not] at hnr
    rcases hh with (h | h) | h
    · exact hnr.1.1.1.1 h
    · exact hnr.1.1.1.2 h
    · exact hnr.1.1.2 h
  rw [h1, Option.none_or]
  by_cases hc : res = "1-0".toList ∨ res = "0-1".toList ∨ res = "1/2-1/2".toList
  · rw [if_pos hc, List.find?_cons_of_pos]
    simp only [Bool.or_eq_true, decide_eq_true_eq]
    rcases hc with h | h | h
    · exact Or.inl (Or.inl h)
    · exact Or.inl (Or.inr h)
    · exact Or.inr h
  · rw [if_neg hc, List.find?_cons_of_neg, List.find?_nil]
    simp only [not_or] at hc
    simp only [Bool.or_eq_true, decide_eq_true_eq]
    rintro ((h | h) | h)
    · exact hc.1 h
    · exact hc.2.1 h
    · exact hc.2.2 h

end Chess
