import Chess.Lemmas.MoveList
import Chess.Lemmas.Castling
import Chess.Lemmas.Pseudo
import Chess.Lemmas.SpecInv
/-! Joining the parts: for a `Valid` board, the filter of the move generator (with its shortcut) is
"own king not attacked after the move", independent of the promotion piece. -/
namespace Chess
open Board Spec
variable {K : Keys}

theorem srcMem_iff {b : Board} (hc : b.Cons) (pt : PT) (src : Sq) :
    mem src (b.colors b.stm &&& b.pieces pt) = true ↔ b.abs src = some ⟨pt, b.stm⟩ := by
  have h : Rep b b.abs := hc
  rw [mem_and, h.cls, h.pcs]
  cases hf : b.abs src with
  | none => simp
  | some q =>
    obtain ⟨t, c⟩ := q
    simp only [Bool.and_eq_true, beq_iff_eq, Option.some.injEq, Piece.mk.injEq]
    exact ⟨fun ⟨a, b⟩ => ⟨b, a⟩, fun ⟨a, b⟩ => ⟨b, a⟩⟩

theorem Board.Valid.ep_empty {b : Board} (hv : b.Valid K) : ∀ e, b.ep = some e → b.abs e = none := by
  intro e he
  obtain ⟨_, _, _, _, _, hep⟩ := validPos_parts b.absPos hv.pos
  exact ((epOk_iff b.absPos).1 hep e he).2.1

/-- facts about the mover's king in a valid position -/
theorem Board.Valid.king {b : Board} (hv : b.Valid K) :
    b.abs (b.kingSq b.stm) = some ⟨.king, b.stm⟩ ∧ ∀ s, b.abs s = some ⟨.king, b.stm⟩ → s = b.kingSq b.stm := by
  obtain ⟨k, hk, hkk, hu⟩ := king_unique b.abs b.stm (validPos_count b.absPos hv.pos b.stm)
  have : b.kingSq b.stm = k := kingSq_spec hv.cons b.stm k hk
  rw [this]; exact ⟨hkk, hu⟩

theorem pseudoDest_dst_not_own {p : Pos} {pt : PT} {src dst : Sq} (h : pseudoDest p pt src dst = true) :
    isColor p.board p.stm dst = false := by
  unfold pseudoDest at h
  simp only [Bool.and_eq_true] at h
  obtain ⟨⟨_, h2⟩, _⟩ := h
  unfold isColor
  cases hd : p.board dst with
  | none => rfl
  | some q =>
    rw [hd] at h2
    simp only [bne_iff_ne, ne_eq] at h2
    simpa using h2

theorem pseudoDest_src {p : Pos} {pt : PT} {src dst : Sq} (h : pseudoDest p pt src dst = true) :
    p.board src = some ⟨pt, p.stm⟩ := by
  unfold pseudoDest at h
  simp only [Bool.and_eq_true, beq_iff_eq] at h
  exact h.1.1

end Chess

namespace Chess
open Board Spec
variable {K : Keys}

/-- where the mover's king is after a pseudo-legal piece move of a valid position -/
theorem Board.Valid.king_after {b : Board} (hv : b.Valid K) (pt : PT) (src dst : Sq) (promo : Option PT)
    (hd : pseudoDest b.absPos pt src dst = true) (hpr : promo ≠ some .king) (hkp : pt = .king → promo = none) :
    Spec.kingSq? (applyBoard b.absPos (.piece pt src dst promo)) b.stm =
      some (if pt = .king then dst else b.kingSq b.stm) := by
  obtain ⟨hk0, hu⟩ := hv.king
  obtain ⟨_, _, _, _, _, hep⟩ := validPos_parts b.absPos hv.pos
  refine Chess.king_after b.absPos (b.kingSq b.stm) hk0 hu pt src dst promo (pseudoDest_src hd)
    (pseudoDest_dst_not_own hd) hpr hkp ?_
  intro v hpawn hepd hv'
  have hvic : victim? b.absPos pt dst = some v := by
    unfold victim?; simp [hpawn, hepd, hv']
  have := victim?_pawn hep hvic
  rw [this]
  intro e
  injection e with e
  injection e with e1 e2
  cases e1

/-- full evaluation of a tentative move = the mover's king is not attacked afterwards -/
theorem Board.Valid.fullEval {b : Board} (hv : b.Valid K) (pt : PT) (src dst : Sq) (promo : Option PT)
    (hd : pseudoDest b.absPos pt src dst = true) (hpr : promo ≠ some .king) (hkp : pt = .king → promo = none) :
    isBlank (b.checkMaskAfter K pt src dst promo) = !inCheck (applyBoard b.absPos (.piece pt src dst promo)) b.stm := by
  have := checkMaskAfter_spec K hv.cons pt src dst promo (pseudoDest_src hd) b.absPos rfl rfl rfl _
    (hv.king_after pt src dst promo hd hpr hkp)
  exact this

end Chess

namespace Chess
open Board Spec
variable {K : Keys}

/-- the two placements after a pawn move differ at most in the TYPE of the own man on `dst` -/
theorem applyBoard_promo_pointwise (p : Pos) (src dst : Sq) (promo : Option PT) (x : Sq) :
    (applyBoard p (.piece .pawn src dst promo) x = applyBoard p (.piece .pawn src dst none) x) ∨
    (∃ t, applyBoard p (.piece .pawn src dst promo) x = some ⟨t, p.stm⟩ ∧
          ∃ t', applyBoard p (.piece .pawn src dst none) x = some ⟨t', p.stm⟩) := by
  rw [applyBoard_piece, applyBoard_piece]
  by_cases hv : victim? p .pawn dst = some x
  · left; simp [hv]
  · simp only [hv, if_false]
    by_cases hx : x = dst
    · right; simp [hx]
    · left; simp [hx]

theorem inCheck_promo_indep {b : Board} (hv : b.Valid K) (src dst : Sq) (promo : Option PT)
    (hd : pseudoDest b.absPos .pawn src dst = true) (hpr : promo ≠ some .king) :
    inCheck (applyBoard b.absPos (.piece .pawn src dst promo)) b.stm =
      inCheck (applyBoard b.absPos (.piece .pawn src dst none)) b.stm := by
  have h1 := hv.king_after .pawn src dst promo hd hpr (by intro h; cases h)
  have h2 := hv.king_after .pawn src dst none hd (by simp) (by intro h; cases h)
  simp only [show (PT.pawn = PT.king) = False from by simp, if_false] at h1 h2
  unfold inCheck
  rw [h1, h2]
  apply attackedBy_congr
  intro a
  have hstm : b.absPos.stm = b.stm := rfl
  rcases applyBoard_promo_pointwise b.absPos src dst promo a with he | ⟨t, ht, t', ht'⟩
  · have hc : isColor (applyBoard b.absPos (.piece .pawn src dst promo)) b.stm.other a =
        isColor (applyBoard b.absPos (.piece .pawn src dst none)) b.stm.other a := by
      unfold isColor; rw [he]
    rw [hc]
    congr 1
    apply attacks_congr' _ _ _ _ he
    intro x _
    rcases applyBoard_promo_pointwise b.absPos src dst promo x with hx | ⟨u, hu, u', hu'⟩
    · rw [hx]
    · rw [hu, hu']; rfl
  · have c1 : isColor (applyBoard b.absPos (.piece .pawn src dst promo)) b.stm.other a = false := by
      unfold isColor; rw [ht, hstm]; cases b.stm <;> rfl
    have c2 : isColor (applyBoard b.absPos (.piece .pawn src dst none)) b.stm.other a = false := by
      unfold isColor; rw [ht', hstm]; cases b.stm <;> rfl
    rw [c1, c2]; rfl

end Chess

namespace Chess
open Board Spec
variable {K : Keys}

theorem needsFullCheck_false {b : Board} {pt : PT} {src dst : Sq} (h : b.needsFullCheck b.checks pt src dst = false) :
    isBlank b.checks = true ∧ pt ≠ .king ∧ b.isEpMove pt dst = false ∧ mem src b.pinned = false := by
  unfold Board.needsFullCheck at h
  simp only [Bool.or_eq_false_iff, Bool.not_eq_false', beq_eq_false_iff_ne, ne_eq] at h
  obtain ⟨⟨⟨h1, h2⟩, h3⟩, h4⟩ := h
  refine ⟨h1, h2, h3, ?_⟩
  rw [BitVec.and_comm, isBlank_and_bbOf] at h4
  simpa using h4

theorem clearIfEp_of_not_ep (K : Keys) (b : Board) (pt : PT) (dst : Sq) (h : b.isEpMove pt dst = false) :
    b.clearIfEp K pt dst = b := by
  unfold Board.clearIfEp; simp [h]

theorem movePiece_isEpMove (K : Keys) (b : Board) (pt : PT) (src dst : Sq) (promo : Option PT) (pt' : PT) (d : Sq) :
    (b.movePiece K pt src dst promo).isEpMove pt' d = b.isEpMove pt' d := by
  unfold Board.isEpMove; rw [movePiece_ep]

/-- the shortcut of `get_legal_moves` / `is_legal_move` is sound: not in check, not the king, not en passant, source not
pinned ⇒ full evaluation would find the king safe -/
theorem Board.Valid.shortcut {b : Board} (hv : b.Valid K) (pt : PT) (src dst : Sq)
    (hd : pseudoDest b.absPos pt src dst = true) (hn : b.needsFullCheck b.checks pt src dst = false) :
    isBlank (b.checkMaskAfter K pt src dst none) = true := by
  obtain ⟨hchk, hpk, hnep, hpin⟩ := needsFullCheck_false hn
  have hc : Rep b b.abs := hv.cons
  have hsrc : b.abs src = some ⟨pt, b.stm⟩ := pseudoDest_src hd
  have hdst : isColor b.abs b.stm dst = false := pseudoDest_dst_not_own hd
  -- the board after the move
  have hr' := hc.movePiece K pt src dst none _ hsrc
  simp only [Option.getD_none] at hr'
  have hk' := hv.king_after pt src dst none hd (by simp) (fun _ => rfl)
  simp only [hpk, if_false] at hk'
  have hr'' := hc.afterPieceMove K pt src dst none hsrc b.absPos rfl rfl rfl
  have hce : (b.movePiece K pt src dst none).clearIfEp K pt dst = b.movePiece K pt src dst none :=
    clearIfEp_of_not_ep K _ pt dst (by rw [movePiece_isEpMove]; exact hnep)
  unfold Board.checkMaskAfter
  rw [hce] at hr'' ⊢
  unfold Board.updatePinsAndChecks
  simp only [movePiece_stm]
  rw [kingSq_spec hr'' b.stm _ hk', isBlank_iff]
  apply pin_lemma b (b.movePiece K pt src dst none) (b.kingSq b.stm) src dst (movePiece_stm K b pt src dst none)
  · rw [hc.cls, hsrc]; simp
  · intro x hx
    rw [hc.cls] at hx ⊢
    cases hf : b.abs x with
    | none => rfl
    | some q =>
      rw [hf] at hx
      simp only [beq_iff_eq] at hx ⊢
      rw [hx]; cases b.stm <;> rfl
  · intro t x hxs hxd
    rw [hr'.pcs, hc.pcs]; simp [Spec.upd, hxs, hxd]
  · intro x
    rw [hr'.cls, hc.cls]
    simp only [Spec.upd]
    by_cases hxd : x = dst
    · subst hxd; simp; cases b.stm <;> decide
    · by_cases hxs : x = src
      · subst hxs; simp [hxd, hsrc]; cases b.stm <;> decide
      · simp [hxd, hxs]
  · intro x
    rw [hr'.cmb, hc.cmb]
    simp only [Spec.upd]
    by_cases hxd : x = dst
    · subst hxd; simp
    · by_cases hxs : x = src
      · subst hxs; simp [hxd]
      · simp [hxd, hxs]
  · rw [← hv.checks_eq]; exact (isBlank_iff _).1 hchk
  · rw [← hv.pinned_eq]; exact hpin

end Chess

namespace Chess
open Board Spec
variable {K : Keys}

theorem lastRank_eq_promoRank (c : Color) (dst : Sq) : (dst.rank == lastRank c) = (dst.rk == Board.promoRank c) := by
  revert dst; cases c <;> decide +kernel

theorem promoOk_eq_promoShape (b : Board) (pt : PT) (dst : Sq) (promo : Option PT) :
    promoOk b.absPos pt dst promo = promoShape b.stm pt dst promo := by
  unfold promoOk promoShape
  have hs : b.absPos.stm = b.stm := rfl
  cases pt <;> simp [hs, lastRank_eq_promoRank]

theorem promoShape_facts {c : Color} {pt : PT} {dst : Sq} {promo : Option PT} (h : promoShape c pt dst promo = true) :
    promo ≠ some .king ∧ promo ≠ some .pawn ∧ (pt ≠ .pawn → promo = none) := by
  unfold promoShape at h
  split at h
  · rename_i hc
    simp only [Bool.and_eq_true, beq_iff_eq] at hc
    simp only [Bool.or_eq_true, beq_iff_eq] at h
    refine ⟨?_, ?_, fun hp => absurd hc.1 hp⟩ <;> rcases h with ((h | h) | h) | h <;> rw [h] <;> simp
  · simp only [beq_iff_eq] at h
    subst h
    simp

/-- the generator's filter (shortcut included) decides exactly "own king not attacked after the move",
whatever promotion piece the generated move carries -/
theorem Board.Valid.passes_spec {b : Board} (hv : b.Valid K) (pt : PT) (src dst : Sq) (promo : Option PT)
    (hd : pseudoDest b.absPos pt src dst = true) (hps : promoShape b.stm pt dst promo = true) :
    b.passes K pt src dst = !inCheck (applyBoard b.absPos (.piece pt src dst promo)) b.stm := by
  obtain ⟨hpk, _, hnp⟩ := promoShape_facts hps
  have hnone : inCheck (applyBoard b.absPos (.piece pt src dst promo)) b.stm =
      inCheck (applyBoard b.absPos (.piece pt src dst none)) b.stm := by
    by_cases hp : pt = .pawn
    · subst hp; exact inCheck_promo_indep hv src dst promo hd hpk
    · rw [hnp hp]
  rw [hnone]
  have hfull := hv.fullEval pt src dst none hd (by simp) (fun _ => rfl)
  unfold Board.passes
  by_cases hn : b.needsFullCheck b.checks pt src dst = true
  · rw [if_pos hn]; exact hfull
  · have hn' : b.needsFullCheck b.checks pt src dst = false := by simpa using hn
    rw [if_neg hn, ← hfull, hv.shortcut pt src dst hd hn']

end Chess

namespace Chess
open Board Spec
variable {K : Keys}

/-- C01, membership: the generated list holds exactly the rule-legal moves -/
theorem Board.Valid.mem_getLegalMoves_iff {b : Board} (hv : b.Valid K) (m : Move) :
    m ∈ b.getLegalMoves K ↔ Spec.legal b.absPos m = true := by
  cases m with
  | castle s =>
    have hs := castlingAvailable_spec_checks hv
    cases s
    · rw [mem_getLegalMoves_castleK, hs.1]; rfl
    · rw [mem_getLegalMoves_castleQ, hs.2]; rfl
  | piece pt src dst promo =>
    rw [mem_getLegalMoves_piece, srcMem_iff hv.cons]
    simp only [Spec.legal, Bool.and_eq_true]
    constructor
    · rintro ⟨hsrc, hdm, hpass, hps⟩
      have hpm := pseudo_iff_mask hv.cons hv.ep_empty pt src dst promo hsrc
      have hd : pseudoDest b.absPos pt src dst = true := by
        rw [← pieceMovesMask_absPos hv.cons hv.ep_empty pt src dst hsrc]; exact hdm
      refine ⟨?_, ?_⟩
      · rw [hpm, hdm, promoOk_eq_promoShape, hps]; rfl
      · rw [hv.passes_spec pt src dst promo hd hps] at hpass
        exact hpass
    · rintro ⟨hps, hsafe⟩
      have hsrc : b.abs src = some ⟨pt, b.stm⟩ := by
        rw [pseudo_eq] at hps
        simp only [Bool.and_eq_true] at hps
        exact pseudoDest_src hps.1
      have hpm := pseudo_iff_mask hv.cons hv.ep_empty pt src dst promo hsrc
      rw [hpm] at hps
      simp only [Bool.and_eq_true] at hps
      obtain ⟨hdm, hpo⟩ := hps
      rw [promoOk_eq_promoShape] at hpo
      have hd : pseudoDest b.absPos pt src dst = true := by
        rw [← pieceMovesMask_absPos hv.cons hv.ep_empty pt src dst hsrc]; exact hdm
      refine ⟨hsrc, hdm, ?_, hpo⟩
      rw [hv.passes_spec pt src dst promo hd hpo]
      exact hsafe

end Chess

namespace Chess
open Board Spec
variable {K : Keys}

theorem hasEscape_iff (b : Board) : b.hasEscape K = true ↔
    ∃ pt sq d, mem sq (b.colors b.stm &&& b.pieces pt) = true ∧ mem d (b.pieceMovesMask pt sq) = true ∧
      isBlank (b.checkMaskAfter K pt sq d none) = true := by
  unfold Board.hasEscape
  simp only [List.any_eq_true, mem_toList]
  constructor
  · rintro ⟨pt, _, sq, hsq, d, hd, hb⟩; exact ⟨pt, sq, d, hsq, hd, hb⟩
  · rintro ⟨pt, sq, d, hsq, hd, hb⟩; exact ⟨pt, PT.mem_all pt, sq, hsq, d, hd, hb⟩

/-- the promotion field the generator would attach -/
def genPromo (c : Color) (pt : PT) (dst : Sq) : Option PT :=
  if pt == .pawn && dst.rk == Board.promoRank c then some .queen else none

theorem promoShape_genPromo (c : Color) (pt : PT) (dst : Sq) : promoShape c pt dst (genPromo c pt dst) = true := by
  unfold promoShape genPromo
  by_cases h : (pt == .pawn && dst.rk == Board.promoRank c) = true <;> simp [h]

/-- full evaluation with no promotion piece = the filter of the generator, on pseudo-legal moves -/
theorem Board.Valid.fullEval_none_eq_passes {b : Board} (hv : b.Valid K) (pt : PT) (src dst : Sq)
    (hd : pseudoDest b.absPos pt src dst = true) :
    isBlank (b.checkMaskAfter K pt src dst none) = b.passes K pt src dst := by
  unfold Board.passes
  by_cases hn : b.needsFullCheck b.checks pt src dst = true
  · rw [if_pos hn]
  · have hn' : b.needsFullCheck b.checks pt src dst = false := by simpa using hn
    rw [if_neg hn, hv.shortcut pt src dst hd hn']

/-- the terminal-status search finds an escape iff some piece move is legal -/
theorem Board.Valid.hasEscape_spec {b : Board} (hv : b.Valid K) :
    b.hasEscape K = true ↔ ∃ pt src dst promo, Spec.legal b.absPos (.piece pt src dst promo) = true := by
  rw [hasEscape_iff]
  constructor
  · rintro ⟨pt, sq, d, hsq, hdm, hb⟩
    have hsrc := (srcMem_iff hv.cons pt sq).1 hsq
    have hd : pseudoDest b.absPos pt sq d = true := by
      rw [← pieceMovesMask_absPos hv.cons hv.ep_empty pt sq d hsrc]; exact hdm
    refine ⟨pt, sq, d, genPromo b.stm pt d, ?_⟩
    rw [← hv.mem_getLegalMoves_iff, mem_getLegalMoves_piece]
    refine ⟨hsq, hdm, ?_, promoShape_genPromo _ _ _⟩
    rw [← hv.fullEval_none_eq_passes pt sq d hd]; exact hb
  · rintro ⟨pt, src, dst, promo, hl⟩
    rw [← hv.mem_getLegalMoves_iff, mem_getLegalMoves_piece] at hl
    obtain ⟨hsq, hdm, hpass, _⟩ := hl
    have hsrc := (srcMem_iff hv.cons pt src).1 hsq
    have hd : pseudoDest b.absPos pt src dst = true := by
      rw [← pieceMovesMask_absPos hv.cons hv.ep_empty pt src dst hsrc]; exact hdm
    exact ⟨pt, src, dst, hsq, hdm, by rw [hv.fullEval_none_eq_passes pt src dst hd]; exact hpass⟩

/-- C04, terminal flag: set exactly when the side to move has no legal move (castling included) -/
theorem Board.Valid.term_iff {b : Board} (hv : b.Valid K) :
    b.term = true ↔ ∀ m, Spec.legal b.absPos m = false := by
  rw [hv.term_eq]
  constructor
  · intro ht m
    have hne : ¬ b.hasEscape K = true := by simpa using ht
    rw [hv.hasEscape_spec] at hne
    cases hm : Spec.legal b.absPos m with
    | false => rfl
    | true =>
      exfalso
      cases m with
      | piece pt src dst promo => exact hne ⟨pt, src, dst, promo, hm⟩
      | castle s => exact hne ⟨_, _, _, _, castle_implies_king_step hv s hm⟩
  · intro h
    have : ¬ b.hasEscape K = true := by
      rw [hv.hasEscape_spec]
      rintro ⟨pt, src, dst, promo, hl⟩
      rw [h] at hl; exact Bool.noConfusion hl
    simpa using this

end Chess

namespace Chess
open Board Spec
variable {K : Keys}

theorem isLegalMove_piece_iff (b : Board) (pt : PT) (src dst : Sq) (promo : Option PT) :
    b.isLegalMove K (.piece pt src dst promo) = true ↔
      (b.term = false ∧ mem src (b.colors b.stm &&& b.pieces pt) = true ∧ mem dst (b.pieceMovesMask pt src) = true ∧
       promo.isSome = (pt == .pawn && dst.rk == Board.promoRank b.stm) ∧ promo ≠ some .king ∧
       (b.needsFullCheck b.checks pt src dst = true → isBlank (b.checkMaskAfter K pt src dst promo) = true)) := by
  simp only [Board.isLegalMove]
  have e1 : isBlank (b.pieces pt &&& b.colors b.stm &&& bbOf src) = !mem src (b.colors b.stm &&& b.pieces pt) := by
    rw [isBlank_and_bbOf, BitVec.and_comm]
  rw [e1, isBlank_and_bbOf]
  by_cases ht : b.term = true
  · simp [ht]
  · have ht' : b.term = false := by simpa using ht
    simp only [ht', Bool.false_eq_true, if_false, true_and]
    by_cases hs : mem src (b.colors b.stm &&& b.pieces pt) = true
    · simp only [hs, Bool.not_true, Bool.false_eq_true, if_false, true_and]
      by_cases hd : mem dst (b.pieceMovesMask pt src) = true
      · simp only [hd, Bool.not_true, Bool.false_eq_true, if_false, true_and]
        by_cases hp : promo.isSome = (pt == .pawn && dst.rk == Board.promoRank b.stm)
        · by_cases hk : promo = some .king
          · simp [hp, hk]
          · have hk' : (promo == some .king) = false := by simpa using hk
            simp only [hp, bne_self_eq_false, hk', Bool.or_self, Bool.false_eq_true, if_false, true_and, ne_eq, hk,
              not_false_eq_true]
            by_cases hn : b.needsFullCheck b.checks pt src dst = true <;> simp [hn]
        · have : (promo.isSome != (pt == .pawn && dst.rk == Board.promoRank b.stm)) = true := by
            simpa using hp
          simp [this, hp]
      · simp [hd]
    · simp [hs]

theorem promoShape_of_legalCond {c : Color} {pt : PT} {dst : Sq} {promo : Option PT}
    (h1 : promo.isSome = (pt == .pawn && dst.rk == Board.promoRank c)) (h2 : promo ≠ some .king)
    (h3 : promo ≠ some .pawn) : promoShape c pt dst promo = true := by
  unfold promoShape
  by_cases hc : (pt == .pawn && dst.rk == Board.promoRank c) = true
  · rw [hc] at h1
    rw [if_pos hc]
    cases promo with
    | none => simp at h1
    | some t => cases t <;> simp_all
  · have hc' : (pt == .pawn && dst.rk == Board.promoRank c) = false := by simpa using hc
    rw [hc'] at h1
    rw [if_neg hc]
    cases promo with
    | none => rfl
    | some t => simp at h1

theorem legalCond_of_promoShape {c : Color} {pt : PT} {dst : Sq} {promo : Option PT}
    (h : promoShape c pt dst promo = true) :
    promo.isSome = (pt == .pawn && dst.rk == Board.promoRank c) := by
  unfold promoShape at h
  by_cases hc : (pt == .pawn && dst.rk == Board.promoRank c) = true
  · rw [if_pos hc] at h
    rw [hc]
    cases promo with
    | none => simp at h
    | some t => rfl
  · have hc' : (pt == .pawn && dst.rk == Board.promoRank c) = false := by simpa using hc
    rw [if_neg hc] at h
    rw [hc']
    simp only [beq_iff_eq] at h
    rw [h]; rfl

/-- C03: the legality test answers true exactly for the moves of the legal-move list
(for every representable move value: the move constructor rejects promotion to a pawn) -/
theorem Board.Valid.isLegalMove_iff {b : Board} (hv : b.Valid K) (m : Move)
    (hw : ∀ pt s d, m ≠ .piece pt s d (some .pawn)) :
    b.isLegalMove K m = true ↔ m ∈ b.getLegalMoves K := by
  cases m with
  | castle s =>
    have hs := castlingAvailable_spec hv
    have hs' := castlingAvailable_spec_checks hv
    have hterm := hv.term_iff
    cases s
    · rw [mem_getLegalMoves_castleK, hs'.1]
      unfold Board.isLegalMove
      by_cases ht : b.term = true
      · simp only [ht, if_true, Bool.false_eq_true, false_iff]
        have := hterm.1 ht (.castle .king)
        simp only [Spec.legal] at this
        rw [this]; exact Bool.false_ne_true
      · simp only [ht, Bool.false_eq_true, if_false, hs.1]
    · rw [mem_getLegalMoves_castleQ, hs'.2]
      unfold Board.isLegalMove
      by_cases ht : b.term = true
      · simp only [ht, if_true, Bool.false_eq_true, false_iff]
        have := hterm.1 ht (.castle .queen)
        simp only [Spec.legal] at this
        rw [this]; exact Bool.false_ne_true
      · simp only [ht, Bool.false_eq_true, if_false, hs.2]
  | piece pt src dst promo =>
    have hnp : promo ≠ some .pawn := fun e => hw pt src dst (by rw [e])
    rw [isLegalMove_piece_iff, mem_getLegalMoves_piece]
    constructor
    · rintro ⟨_, hsq, hdm, hp1, hp2, hfull⟩
      have hps := promoShape_of_legalCond hp1 hp2 hnp
      refine ⟨hsq, hdm, ?_, hps⟩
      have hsrc := (srcMem_iff hv.cons pt src).1 hsq
      have hd : pseudoDest b.absPos pt src dst = true := by
        rw [← pieceMovesMask_absPos hv.cons hv.ep_empty pt src dst hsrc]; exact hdm
      obtain ⟨hpk, _, hnpn⟩ := promoShape_facts hps
      by_cases hn : b.needsFullCheck b.checks pt src dst = true
      · have h1 := hfull hn
        rw [hv.fullEval pt src dst promo hd hpk (fun e => hnpn (by rw [e]; decide))] at h1
        rw [hv.passes_spec pt src dst promo hd hps]; exact h1
      · unfold Board.passes; rw [if_neg hn]
    · rintro ⟨hsq, hdm, hpass, hps⟩
      have hsrc := (srcMem_iff hv.cons pt src).1 hsq
      have hd : pseudoDest b.absPos pt src dst = true := by
        rw [← pieceMovesMask_absPos hv.cons hv.ep_empty pt src dst hsrc]; exact hdm
      obtain ⟨hpk, _, hnpn⟩ := promoShape_facts hps
      have hmem : Move.piece pt src dst promo ∈ b.getLegalMoves K :=
        (mem_getLegalMoves_piece K b pt src dst promo).2 ⟨hsq, hdm, hpass, hps⟩
      have hleg := (hv.mem_getLegalMoves_iff _).1 hmem
      have hterm : b.term = false := by
        cases ht : b.term with
        | false => rfl
        | true => have := hv.term_iff.1 ht (.piece pt src dst promo); rw [this] at hleg; exact Bool.noConfusion hleg
      refine ⟨hterm, hsq, hdm, legalCond_of_promoShape hps, hpk, fun _ => ?_⟩
      rw [hv.fullEval pt src dst promo hd hpk (fun e => hnpn (by rw [e]; decide))]
      rw [hv.passes_spec pt src dst promo hd hps] at hpass; exact hpass

end Chess
