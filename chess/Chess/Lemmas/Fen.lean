import Chess.Model.Text
/-! Lemmas for C08: field splitting, decimal numbers, the placement-field parser against `printRank`. -/
namespace Chess.Fen
open Chess

/-! ## splitting -/
theorem splitOn_ne_nil (sep : Char) (s : Str) : splitOn sep s ≠ [] := by
  induction s with
  | nil => simp [splitOn]
  | cons c cs ih =>
    unfold splitOn
    split
    · simp
    · split <;> simp

theorem splitOn_no_sep (sep : Char) (a : Str) (h : sep ∉ a) : splitOn sep a = [a] := by
  induction a with
  | nil => simp [splitOn]
  | cons c cs ih =>
    have hc : c ≠ sep := fun e => h (by simp [e])
    have hcs : sep ∉ cs := fun e => h (by simp [e])
    unfold splitOn
    rw [ih hcs]; simp [hc]

theorem splitOn_append_sep (sep : Char) (a b : Str) (h : sep ∉ a) :
    splitOn sep (a ++ sep :: b) = a :: splitOn sep b := by
  induction a with
  | nil =>
    show splitOn sep (sep :: b) = _
    rcases hb : splitOn sep b with _ | ⟨p, ps⟩
    · exact absurd hb (splitOn_ne_nil _ _)
    · rw [splitOn, hb]; simp
  | cons c cs ih =>
    have hc : c ≠ sep := fun e => h (by simp [e])
    have hcs : sep ∉ cs := fun e => h (by simp [e])
    show splitOn sep (c :: (cs ++ sep :: b)) = _
    rw [splitOn, ih hcs]; simp [hc]

/-! ## decimal numbers -/
theorem natStr_eq (n : Nat) : natStr n = Nat.toDigits 10 n := by simp [natStr]

theorem natStr_isDigit (n : Nat) : ∀ c ∈ natStr n, c.isDigit = true := by
  intro c hc; rw [natStr_eq] at hc
  exact Nat.isDigit_of_mem_toDigits (by decide) (by decide) hc

theorem natStr_ne_nil (n : Nat) : natStr n ≠ [] := by rw [natStr_eq]; exact Nat.toDigits_ne_nil

theorem natStr_no_space (n : Nat) : ' ' ∉ natStr n := fun h => by
  have := natStr_isDigit n _ h; revert this; decide

theorem foldl_eq_ofDigitChars (l : List Char) (i : Nat) :
    l.foldl (fun n c => n * 10 + (c.toNat - '0'.toNat)) i = Nat.ofDigitChars 10 l i := by
  induction l generalizing i with
  | nil => simp [Nat.ofDigitChars]
  | cons c cs ih => simp only [List.foldl_cons, Nat.ofDigitChars_cons, ih, Nat.mul_comm]

def stripPlus : Str → Str | '+' :: r => r | r => r

theorem stripPlus_digits (ds : Str) (hd : ∀ c ∈ ds, c.isDigit = true) : stripPlus ds = ds := by
  unfold stripPlus
  split
  · exact absurd (hd '+' (by simp)) (by decide)
  · rfl

theorem parseUsize_eq (s : Str) : parseUsize s =
    (if (stripPlus s).isEmpty then none else
      if (stripPlus s).all Char.isDigit then
        if (stripPlus s).foldl (fun n c => n * 10 + (c.toNat - '0'.toNat)) 0 < 2 ^ 64
        then some ((stripPlus s).foldl (fun n c => n * 10 + (c.toNat - '0'.toNat)) 0) else none
      else none) := rfl

theorem parseUsize_digits (ds : Str) (hne : ds ≠ []) (hd : ∀ c ∈ ds, c.isDigit = true) :
    parseUsize ds = (let v := Nat.ofDigitChars 10 ds 0; if v < 2 ^ 64 then some v else none) := by
  have h4 := stripPlus_digits ds hd
  have h5 : ds.isEmpty = false := by
    cases ds with
    | nil => exact absurd rfl hne
    | cons => rfl
  have h6 : ds.all Char.isDigit = true := by simpa [List.all_eq_true] using hd
  rw [parseUsize_eq]
  simp only [h4, h5, h6, foldl_eq_ofDigitChars]
  simp

theorem parseUsize_natStr (n : Nat) (h : n < 2 ^ 64) : parseUsize (natStr n) = some n := by
  rw [parseUsize_digits _ (natStr_ne_nil n) (natStr_isDigit n), natStr_eq]
  simp [h]

theorem natStr_digit (e : Nat) (h : e < 10) : natStr e = [e.digitChar] := by
  rw [natStr_eq]; exact Nat.toDigits_of_lt_base h
/-! ## the placement parser -/
def run (st : Option FenCursor) (s : Str) : Option FenCursor :=
  s.foldl (fun (st : Option FenCursor) c => st.bind (fenStep · c)) st

theorem run_append (st : Option FenCursor) (a b : Str) : run st (a ++ b) = run (run st a) b := by
  simp [run, List.foldl_append]
@[simp] theorem run_nil (st : Option FenCursor) : run st [] = st := rfl
theorem run_cons (c : FenCursor) (x : Char) (xs : Str) : run (some c) (x :: xs) = run (fenStep c x) xs := rfl

theorem pieceChar_facts : ∀ p : Piece, pieceChar p ≠ '/' ∧ ¬('1' ≤ pieceChar p ∧ pieceChar p ≤ '8') ∧
    pieceChar p ∈ ['r', 'R', 'n', 'N', 'b', 'B', 'q', 'Q', 'k', 'K', 'p', 'P'] ∧
    (if (pieceChar p).isUpper then Color.white else Color.black) = p.c ∧
    parsePieceType [pieceChar p] = .ok p.pt ∧ pieceChar p ≠ ' ' := by
  rintro ⟨t, c⟩; cases t <;> cases c <;> decide

theorem fenStep_piece (cur : FenCursor) (p : Piece) :
    ∃ cur', fenStep cur (pieceChar p) = some cur' ∧
      cur'.pieces = setFn cur.pieces ⟨cur.rank.val * 8 + cur.file.val, by omega⟩ (some p) ∧
      cur'.rank = cur.rank ∧ cur'.file.val = min (cur.file.val + 1) 7 := by
  obtain ⟨h1, h2, h3, h4, h5, _⟩ := pieceChar_facts p
  unfold fenStep
  rw [if_neg h1, if_neg h2, if_pos h3]
  simp only [h4, h5]
  split
  · refine ⟨_, rfl, rfl, rfl, ?_⟩; simp; omega
  · refine ⟨_, rfl, rfl, rfl, ?_⟩; simp; omega

theorem digitChar_facts : ∀ e : Fin 9, 1 ≤ e.val →
    e.val.digitChar ≠ '/' ∧ ('1' ≤ e.val.digitChar ∧ e.val.digitChar ≤ '8') ∧
    e.val.digitChar.toNat - '0'.toNat = e.val ∧ e.val.digitChar ≠ ' ' := by decide

theorem fenStep_digit (cur : FenCursor) (e : Nat) (he1 : 1 ≤ e) (he8 : e ≤ 8) :
    ∃ cur', fenStep cur e.digitChar = some cur' ∧ cur'.pieces = cur.pieces ∧ cur'.rank = cur.rank ∧
      cur'.file.val = if cur.file.val + e < 8 then cur.file.val + e else cur.file.val := by
  obtain ⟨h1, h2, h3, _⟩ := digitChar_facts ⟨e, by omega⟩ he1
  simp only at h1 h2 h3
  unfold fenStep
  rw [if_neg h1, if_pos h2]
  simp only [h3]
  split
  · exact ⟨_, rfl, rfl, rfl, rfl⟩
  · exact ⟨_, rfl, rfl, rfl, rfl⟩

theorem fenStep_slash (cur : FenCursor) (h : cur.rank.val ≠ 0) :
    ∃ cur', fenStep cur '/' = some cur' ∧ cur'.pieces = cur.pieces ∧ cur'.rank.val = cur.rank.val - 1 ∧
      cur'.file.val = 0 := by
  unfold fenStep
  simp [h]

/-! ## one rank of the placement field -/
/-- the printer's per-file step (the local `step` of `printRank`) -/
def pstep (P : Sq → Option Piece) (r : Fin 8) (acc : Str × Nat) (f : Fin 8) : Str × Nat :=
  match P ⟨r.val * 8 + f.val, by omega⟩ with
  | some p => ((if acc.2 != 0 then acc.1 ++ natStr acc.2 else acc.1) ++ [pieceChar p], 0)
  | none => (acc.1, acc.2 + 1)

theorem printRank_eq (P : Sq → Option Piece) (r : Fin 8) :
    printRank P r = (if ((List.finRange 8).foldl (pstep P r) ([], 0)).2 != 0
      then ((List.finRange 8).foldl (pstep P r) ([], 0)).1 ++ natStr ((List.finRange 8).foldl (pstep P r) ([], 0)).2
      else ((List.finRange 8).foldl (pstep P r) ([], 0)).1) := rfl

/-- the cursor stands at the start of rank `r`, having placed exactly the men of the ranks above -/
def Start (P : Sq → Option Piece) (r : Fin 8) (c0 : FenCursor) : Prop :=
  c0.rank = r ∧ c0.file.val = 0 ∧ ∀ sq : Sq, c0.pieces sq = if r.val < sq.val / 8 then P sq else none

/-- the cursor is still in rank `r`, having placed exactly the men of rank `r` and above -/
def Done (P : Sq → Option Piece) (r : Fin 8) (cur : FenCursor) : Prop :=
  cur.rank = r ∧ ∀ sq : Sq, cur.pieces sq = if r.val ≤ sq.val / 8 then P sq else none

/-- loop invariant of `printRank` after files `0..f-1`, with pending run counter `acc.2` -/
structure RInv (P : Sq → Option Piece) (r : Fin 8) (c0 : FenCursor) (f : Nat) (acc : Str × Nat) : Prop where
  e_le : acc.2 ≤ f
  nosp : ' ' ∉ acc.1
  empties : ∀ sq : Sq, sq.val / 8 = r.val → f - acc.2 ≤ sq.val % 8 → sq.val % 8 < f → P sq = none
  parsed : ∃ cur, run (some c0) acc.1 = some cur ∧ cur.rank = r ∧ cur.file.val = min (f - acc.2) 7 ∧
    ∀ sq : Sq, cur.pieces sq =
      if r.val < sq.val / 8 ∨ (sq.val / 8 = r.val ∧ sq.val % 8 < f - acc.2) then P sq else none

theorem RInv.init {P r c0} (h : Start P r c0) : RInv P r c0 0 ([], 0) := by
  obtain ⟨h1, h2, h3⟩ := h
  refine ⟨Nat.le_refl _, by simp, fun sq _ _ h => absurd h (by omega), c0, rfl, h1, by simpa using h2, ?_⟩
  intro sq; rw [h3]; simp

theorem RInv.step {P r c0} (f : Fin 8) {acc} (h : RInv P r c0 f.val acc) :
    RInv P r c0 (f.val + 1) (pstep P r acc f) := by
  obtain ⟨s, e⟩ := acc
  obtain ⟨h1, h2, h3, cur, h4, h5, h6, h7⟩ := h
  simp only at h1 h2 h3 h4 h6 h7
  unfold pstep
  cases hp : P ⟨r.val * 8 + f.val, by omega⟩ with
  | none =>
    simp only
    refine ⟨by omega, h2, ?_, cur, h4, h5, by omega, ?_⟩
    · intro sq a b c
      by_cases hf : sq.val % 8 < f.val
      · exact h3 sq a (by omega) hf
      · have : sq = ⟨r.val * 8 + f.val, by omega⟩ := Fin.ext (by simp; omega)
        rw [this, hp]
    · intro sq; rw [h7 sq]
      have : f.val + 1 - (e + 1) = f.val - e := by omega
      rw [this]
  | some p =>
    simp only
    have hpc := (pieceChar_facts p).2.2.2.2.2
    -- the cursor after the pending run of empties
    have hrun : ∃ cur1, run (some c0) (if (e != 0) = true then s ++ natStr e else s) = some cur1 ∧
        cur1.pieces = cur.pieces ∧ cur1.rank = r ∧ cur1.file.val = f.val := by
      by_cases he : e = 0
      · subst he; simp only [bne_self_eq_false, Bool.false_eq_true, if_false]
        exact ⟨cur, h4, rfl, h5, by omega⟩
      · have : (e != 0) = true := by simp [he]
        rw [if_pos this, run_append, h4, natStr_digit e (by omega), run_cons, run_nil]
        obtain ⟨c1, a, b, c, d⟩ := fenStep_digit cur e (by omega) (by omega)
        refine ⟨c1, a, b, c.trans h5, ?_⟩
        rw [d, h6]; have := f.isLt; split <;> omega
    obtain ⟨cur1, g1, g2, g3, g4⟩ := hrun
    obtain ⟨cur2, k1, k2, k3, k4⟩ := fenStep_piece cur1 p
    refine ⟨by omega, ?_, fun sq _ a b => absurd b (by omega), cur2, ?_, k3.trans g3, by omega, ?_⟩
    · simp only [List.mem_append, List.mem_singleton, not_or]
      refine ⟨?_, fun h => hpc h.symm⟩
      split
      · simp only [List.mem_append, not_or]; exact ⟨h2, natStr_no_space e⟩
      · exact h2
    · rw [run_append, g1, run_cons, run_nil, k1]
    · intro sq
      rw [k2]
      by_cases hsq : sq = ⟨r.val * 8 + f.val, by omega⟩
      · have e1 : (⟨cur1.rank.val * 8 + cur1.file.val, by omega⟩ : Sq) = sq := by
          rw [hsq]; apply Fin.ext; simp [g3, g4]
        rw [e1, setFn_same, hsq, hp]
        have : (r.val * 8 + f.val) / 8 = r.val ∧ (r.val * 8 + f.val) % 8 = f.val := by omega
        simp [this]
      · have e1 : sq ≠ (⟨cur1.rank.val * 8 + cur1.file.val, by omega⟩ : Sq) := by
          intro h; apply hsq; rw [h]; apply Fin.ext; simp [g3, g4]
        rw [setFn_other _ _ _ _ e1, g2, h7 sq]
        have hne : ¬ (sq.val / 8 = r.val ∧ sq.val % 8 = f.val) := by
          intro ⟨a, b⟩; apply hsq; apply Fin.ext; simp; omega
        by_cases c1 : r.val < sq.val / 8
        · simp [c1]
        · by_cases c2 : sq.val / 8 = r.val
          · by_cases c3 : sq.val % 8 < f.val - e
            · have : sq.val % 8 < f.val + 1 := by omega
              simp [c2, c3, this]
            · by_cases c4 : sq.val % 8 < f.val
              · have := h3 sq c2 (by omega) c4
                simp [this]
              · have : ¬ sq.val % 8 < f.val + 1 := by omega
                simp [c2, c3, this]
          · simp [c1, c2]

theorem RInv.finish {P r c0 acc} (h : RInv P r c0 8 acc) :
    ' ' ∉ (if acc.2 != 0 then acc.1 ++ natStr acc.2 else acc.1) ∧
    ∃ cur, run (some c0) (if acc.2 != 0 then acc.1 ++ natStr acc.2 else acc.1) = some cur ∧ Done P r cur := by
  obtain ⟨s, e⟩ := acc
  obtain ⟨h1, h2, h3, cur, h4, h5, h6, h7⟩ := h
  simp only at h1 h2 h3 h4 h6 h7 ⊢
  have hP : ∀ sq : Sq, cur.pieces sq = if r.val ≤ sq.val / 8 then P sq else none := by
    intro sq; rw [h7 sq]
    by_cases c1 : r.val < sq.val / 8
    · have : r.val ≤ sq.val / 8 := by omega
      simp [c1, this]
    · by_cases c2 : sq.val / 8 = r.val
      · by_cases c3 : sq.val % 8 < 8 - e
        · simp [c2, c3]
        · have := h3 sq c2 (by omega) (by omega)
          simp [this]
      · have : ¬ r.val ≤ sq.val / 8 := by omega
        simp [c1, c2, this]
  by_cases he : e = 0
  · subst he; simp only [bne_self_eq_false, Bool.false_eq_true, if_false]
    exact ⟨h2, cur, h4, h5, hP⟩
  · have : (e != 0) = true := by simp [he]
    rw [if_pos this]
    refine ⟨by simp only [List.mem_append, not_or]; exact ⟨h2, natStr_no_space e⟩, ?_⟩
    rw [run_append, h4, natStr_digit e (by omega), run_cons, run_nil]
    obtain ⟨c1, a, b, c, _⟩ := fenStep_digit cur e (by omega) (by omega)
    exact ⟨c1, a, c.trans h5, by rw [b]; exact hP⟩

theorem finRange8 : List.finRange 8 = [0, 1, 2, 3, 4, 5, 6, 7] := by decide

theorem printRank_spec (P : Sq → Option Piece) (r : Fin 8) (c0 : FenCursor) (h : Start P r c0) :
    ' ' ∉ printRank P r ∧ ∃ cur, run (some c0) (printRank P r) = some cur ∧ Done P r cur := by
  rw [printRank_eq]
  apply RInv.finish
  rw [finRange8]
  simp only [List.foldl]
  exact ((((((((RInv.init h).step 0).step 1).step 2).step 3).step 4).step 5).step 6).step 7

/-- the placement field of `printFen` -/
def placement (P : Sq → Option Piece) : Str :=
  ([7, 6, 5, 4, 3, 2, 1, 0] : List (Fin 8)).foldl
    (fun acc r => (if r.val != 7 then acc ++ ['/'] else acc) ++ printRank P r) []

theorem placement_eq (P : Sq → Option Piece) : placement P =
    printRank P 7 ++ '/' :: (printRank P 6 ++ '/' :: (printRank P 5 ++ '/' :: (printRank P 4 ++ '/' ::
      (printRank P 3 ++ '/' :: (printRank P 2 ++ '/' :: (printRank P 1 ++ '/' :: printRank P 0)))))) := by
  simp +decide [placement]

theorem next_rank {P : Sq → Option Piece} {r : Fin 8} {cur : FenCursor} (h : Done P r cur) (r' : Fin 8)
    (hr : r.val = r'.val + 1) (rest : Str) :
    ' ' ∉ printRank P r' ∧
    ∃ cur', run (some cur) ('/' :: (printRank P r' ++ rest)) = run (some cur') rest ∧ Done P r' cur' := by
  obtain ⟨h1, h2⟩ := h
  obtain ⟨c0, a, b, c, d⟩ := fenStep_slash cur (by rw [h1]; omega)
  have hs : Start P r' c0 := by
    refine ⟨Fin.ext (by rw [c, h1]; omega), d, fun sq => ?_⟩
    rw [b, h2 sq]
    by_cases k : r.val ≤ sq.val / 8
    · have : r'.val < sq.val / 8 := by omega
      simp [k, this]
    · have : ¬ r'.val < sq.val / 8 := by omega
      simp [k, this]
  obtain ⟨n, cur', e, dn⟩ := printRank_spec P r' c0 hs
  exact ⟨n, cur', by rw [run_cons, a, run_append, e], dn⟩

theorem placement_spec (P : Sq → Option Piece) :
    ' ' ∉ placement P ∧
    ∃ cur, run (some { pieces := fun _ => none, rank := 7, file := 0 }) (placement P) = some cur ∧
      cur.pieces = P := by
  have hs : Start P 7 { pieces := fun _ => none, rank := 7, file := 0 } := by
    refine ⟨rfl, rfl, fun sq => ?_⟩
    have : ¬ (7 : Fin 8).val < sq.val / 8 := by have := sq.isLt; simp; omega
    simp [this]
  obtain ⟨n7, c7, e7, d7⟩ := printRank_spec P 7 _ hs
  rw [placement_eq]
  obtain ⟨n6, c6, e6, d6⟩ := next_rank d7 6 rfl ('/' :: (printRank P 5 ++ '/' :: (printRank P 4 ++ '/' ::
      (printRank P 3 ++ '/' :: (printRank P 2 ++ '/' :: (printRank P 1 ++ '/' :: printRank P 0))))))
  obtain ⟨n5, c5, e5, d5⟩ := next_rank d6 5 rfl ('/' :: (printRank P 4 ++ '/' ::
      (printRank P 3 ++ '/' :: (printRank P 2 ++ '/' :: (printRank P 1 ++ '/' :: printRank P 0)))))
  obtain ⟨n4, c4, e4, d4⟩ := next_rank d5 4 rfl ('/' ::
      (printRank P 3 ++ '/' :: (printRank P 2 ++ '/' :: (printRank P 1 ++ '/' :: printRank P 0))))
  obtain ⟨n3, c3, e3, d3⟩ := next_rank d4 3 rfl ('/' :: (printRank P 2 ++ '/' :: (printRank P 1 ++ '/' :: printRank P 0)))
  obtain ⟨n2, c2, e2, d2⟩ := next_rank d3 2 rfl ('/' :: (printRank P 1 ++ '/' :: printRank P 0))
  obtain ⟨n1, c1, e1, d1⟩ := next_rank d2 1 rfl ('/' :: printRank P 0)
  obtain ⟨n0, c0, e0, d0⟩ := next_rank d1 0 rfl []
  refine ⟨?_, c0, ?_, ?_⟩
  · simp only [List.mem_append, List.mem_cons, not_or]
    have : ' ' ≠ '/' := by decide
    exact ⟨n7, this, n6, this, n5, this, n4, this, n3, this, n2, this, n1, this, n0⟩
  · rw [List.append_nil] at e0
    rw [run_append, e7, e6, e5, e4, e3, e2, e1, e0, run_nil]
  · funext sq; rw [d0.2 sq]; simp

/-! ## the other fields -/
def stmText (c : Color) : Str := [match c with | .white => 'w' | .black => 'b']
def castlesText (w b : CR) : Str :=
  if w = .neither ∧ b = .neither then ['-'] else (w.show.map Char.toUpper) ++ b.show
def epText (ep : Option Sq) : Str := match ep with | some s => printSquare s | none => ['-']

theorem castles_spec (w b : CR) :
    ' ' ∉ castlesText w b ∧ CR.ofBits ((castlesText w b).contains 'K') ((castlesText w b).contains 'Q') = w ∧
      CR.ofBits ((castlesText w b).contains 'k') ((castlesText w b).contains 'q') = b := by
  cases w <;> cases b <;> decide

theorem ep_some_spec : ∀ s : Sq, ' ' ∉ printSquare s ∧ parseSquare (printSquare s) = .ok s := by decide

theorem ep_spec (ep : Option Sq) :
    ' ' ∉ epText ep ∧ (match parseSquare (epText ep) with | .ok s => some s | .error _ => none) = ep := by
  cases ep with
  | none => decide
  | some s => simp only [epText, (ep_some_spec s).2]; exact ⟨(ep_some_spec s).1, trivial⟩

theorem stm_spec (c : Color) :
    ' ' ∉ stmText c ∧ (if stmText c = ['w'] ∨ stmText c = ['W'] then some Color.white
      else if stmText c = ['b'] ∨ stmText c = ['B'] then some Color.black else none) = some c := by
  cases c <;> decide

theorem printFen_eq (bb : Builder) : printFen bb =
    placement bb.pieces ++ [' '] ++ stmText bb.stm ++ [' '] ++ castlesText (bb.rights .white) (bb.rights .black) ++
      [' '] ++ epText bb.ep ++ [' '] ++ natStr bb.half ++ [' '] ++ natStr bb.full := rfl
end Chess.Fen
