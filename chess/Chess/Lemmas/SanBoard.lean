import Chess.Lemmas.San
import Chess.Lemmas.Rep
import Chess.Lemmas.ChecksSpec
import Chess.Lemmas.Valid
import Chess.Props.C17
/-! # SAN: board-level facts (for C14)

* `rivals`, `ambKind`, `stdAmb`: the disambiguation choice of `get_move_ambiguity_type`, named;
* `moveProps_inv`: what a successful `moveProps` returns;
* `legal_piece_inv`: what `isLegalMove` demands of a piece move;
* `pawn_unique`: two own pawns on one file never reach the same square (the double push needs the single-push square
  empty), `king_unique_of_valid`: one own king. -/
namespace Chess
open Board
namespace Board
variable (K : Keys)

/-- the rival origins counted by `get_move_ambiguity_type`: origins of *legal* moves of the same piece type to the
same destination from another square -/
def rivals (b : Board) (pt : PT) (src dst : Sq) : List Sq :=
  (b.getLegalMoves K).filterMap fun m =>
    match m with
    | .piece pt' s' d' _ => if pt' == pt && d' == dst && s' != src then some s' else none
    | .castle _ => none

/-- none when unneeded, else origin file, else origin rank, else both -/
def ambKind (rivals : List Sq) (src : Sq) : Amb :=
  if !rivals.isEmpty then
    if rivals.all (fun s => s.fl != src.fl) then .extraFile
    else if rivals.all (fun s => s.rk != src.rk) then .extraRank
    else .extraSquare
  else .neither

/-- the disambiguation kind of a move in standard form -/
def stdAmb (b : Board) : Move → Amb
  | .castle _ => .neither
  | .piece pt src dst _ =>
    if pt == .pawn then (if src.fl != dst.fl then .extraFile else .neither)
    else if pt == .king then .neither
    else ambKind (b.rivals K pt src dst) src

theorem mem_rivals (b : Board) (pt : PT) (src dst s : Sq) :
    s ∈ b.rivals K pt src dst ↔ s ≠ src ∧ ∃ pr, Move.piece pt s dst pr ∈ b.getLegalMoves K := by
  unfold rivals
  rw [List.mem_filterMap]
  constructor
  · rintro ⟨m, hm, h⟩
    cases m with
    | castle sd => simp at h
    | piece pt' s' d' pr =>
      simp only [Option.ite_none_right_eq_some, Bool.and_eq_true, beq_iff_eq, bne_iff_ne, ne_eq, Option.some.injEq] at h
      obtain ⟨⟨⟨rfl, rfl⟩, hne⟩, rfl⟩ := h
      exact ⟨hne, pr, hm⟩
  · rintro ⟨hne, pr, hm⟩
    exact ⟨_, hm, by simp [hne]⟩

theorem ambKind_ok (r : List Sq) (src : Sq) : (Except.ok (ambKind r src) : Except Err Amb) =
    if !r.isEmpty then
      if r.all (fun s => s.fl != src.fl) then .ok .extraFile
      else if r.all (fun s => s.rk != src.rk) then .ok .extraRank
      else .ok .extraSquare
    else .ok .neither := by
  unfold ambKind
  repeat' split
  all_goals first | rfl | contradiction

theorem moveAmbiguity_legal (b : Board) (pt : PT) (src dst : Sq) (promo : Option PT)
    (hl : b.isLegalMove K (.piece pt src dst promo) = true) :
    b.moveAmbiguity K pt src dst promo = .ok (b.stdAmb K (.piece pt src dst promo)) := by
  unfold moveAmbiguity stdAmb
  simp only [hl, Bool.not_true, Bool.false_eq_true, if_false]
  by_cases hp : (pt == PT.pawn) = true
  · simp only [hp, if_true]; split <;> rfl
  · simp only [hp, Bool.false_eq_true, if_false]
    by_cases hk : (pt == PT.king) = true
    · simp only [hk, if_true]
    · simp only [hk, Bool.false_eq_true, if_false]
      exact (ambKind_ok (b.rivals K pt src dst) src).symm

/-- what a successful `MovePropertiesOnBoard::new` returns -/
theorem moveProps_inv (b : Board) (m : Move) (p : MoveProps) (h : b.moveProps K m = .ok p) :
    b.isLegalMove K m = true ∧
    p.isCheck = decide (popcount (b.makeMoveUnchecked K m).checks > 0) ∧
    p.isMate = ((b.makeMoveUnchecked K m).term && decide (popcount (b.makeMoveUnchecked K m).checks > 0)) ∧
    p.isCapture = b.isCapture m ∧
    p.amb = b.stdAmb K m := by
  unfold moveProps makeMove at h
  cases hl : b.isLegalMove K m
  · simp [hl] at h
  · simp only [hl, if_true] at h
    refine ⟨rfl, ?_⟩
    cases m with
    | castle sd =>
      simp only [Except.ok.injEq] at h
      subst h; exact ⟨rfl, rfl, rfl, rfl⟩
    | piece pt src dst promo =>
      have ha := moveAmbiguity_legal K b pt src dst promo hl
      cases pt
      case king =>
        simp only [Except.ok.injEq] at h
        subst h; exact ⟨rfl, rfl, rfl, rfl⟩
      all_goals
        simp only [ha, Except.ok.injEq] at h
        subst h; exact ⟨rfl, rfl, rfl, rfl⟩

/-- what the legality test demands of a piece move (the parts used for notation) -/
theorem legal_piece_inv (b : Board) (pt : PT) (src dst : Sq) (promo : Option PT)
    (h : b.isLegalMove K (.piece pt src dst promo) = true) :
    mem src (b.pieces pt) = true ∧ mem src (b.colors b.stm) = true ∧ mem dst (b.pieceMovesMask pt src) = true ∧
    promo.isSome = (pt == .pawn && dst.rk == promoRank b.stm) := by
  unfold isLegalMove at h
  simp only [isBlank_and_bbOf, mem_and] at h
  by_cases h1 : b.term = true
  · simp [h1] at h
  · simp only [h1, Bool.false_eq_true, if_false] at h
    by_cases h2 : (!(mem src (b.pieces pt) && mem src (b.colors b.stm))) = true
    · simp [h2] at h
    · simp only [h2, Bool.false_eq_true, if_false] at h
      by_cases h3 : (!mem dst (b.pieceMovesMask pt src)) = true
      · simp [h3] at h
      · simp only [h3, Bool.false_eq_true, if_false] at h
        by_cases h4 : ((promo.isSome != (pt == PT.pawn && dst.rk == promoRank b.stm)) || promo == some PT.king) = true
        · simp [h4] at h
        · simp only [Bool.not_eq_true', Bool.not_eq_false, Bool.and_eq_true] at h2 h3
          simp only [Bool.or_eq_true, not_or, bne_iff_ne, ne_eq, Decidable.not_not] at h4
          exact ⟨h2.1, h2.2, h3, h4.1⟩

/-- a legal move of a piece other than a pawn carries no promotion -/
theorem legal_nonpawn_promo (b : Board) (pt : PT) (src dst : Sq) (promo : Option PT) (hp : pt ≠ .pawn)
    (h : b.isLegalMove K (.piece pt src dst promo) = true) : promo = none := by
  have := (legal_piece_inv K b pt src dst promo h).2.2.2
  cases promo with
  | none => rfl
  | some t => cases pt <;> simp_all

end Board

/-! ### geometry of pawn moves -/
open C17 in
theorem mem_pawnMask (b : Board) (s d : Sq) (h : mem d (b.pieceMovesMask .pawn s) = true) :
    (df s d = 0 ∧ dr s d = Spec.fwd b.stm) ∨
    (df s d = 0 ∧ dr s d = 2 * Spec.fwd b.stm ∧ ∃ t, df s t = 0 ∧ dr s t = Spec.fwd b.stm ∧ mem t b.combined = false) ∨
    (dr s d = Spec.fwd b.stm ∧ (df s d).natAbs = 1) := by
  simp only [pieceMovesMask, mem_or, mem_and, mem_not, Bool.or_eq_true, Bool.and_eq_true] at h
  rcases h with (h | h) | h
  · left
    have := h.1; rw [pawn_push_spec] at this
    simpa using this
  · right; left
    by_cases hb : isBlank (pawnPush b.stm s &&& ~~~b.combined) = true
    · simp [hb] at h
    · simp only [hb, Bool.false_eq_true, if_false, mem_and, mem_not, Bool.and_eq_true] at h
      have h1 := h.1; rw [pawn_double_spec] at h1
      simp only [Bool.and_eq_true, beq_iff_eq] at h1
      rw [isBlank_iff, ← Ne, ne_zero_iff] at hb
      obtain ⟨t, ht⟩ := hb
      simp only [mem_and, mem_not, Bool.and_eq_true, pawn_push_spec, beq_iff_eq, Bool.not_eq_true'] at ht
      exact ⟨h1.1.1, h1.1.2, t, ht.1.1, ht.1.2, ht.2⟩
  · right; right
    have := h.1; rw [pawn_capture_spec] at this
    simpa using this

theorem Sq.ext_rank_file {s t : Sq} (hr : s.rank = t.rank) (hf : s.file = t.file) : s = t := by
  unfold Sq.rank at hr; unfold Sq.file at hf; apply Fin.ext; omega

open C17 in
/-- two own men on one file cannot both be pawns reaching the same square: the double push needs the square in
front of the pawn empty -/
theorem pawn_unique (b : Board) (hocc : ∀ s, mem s (b.colors b.stm) = true → mem s b.combined = true)
    (s₁ s₂ d : Sq) (hf : s₁.fl = s₂.fl)
    (ho₁ : mem s₁ (b.colors b.stm) = true) (ho₂ : mem s₂ (b.colors b.stm) = true)
    (h₁ : mem d (b.pieceMovesMask .pawn s₁) = true) (h₂ : mem d (b.pieceMovesMask .pawn s₂) = true) : s₁ = s₂ := by
  have hfile : s₁.file = s₂.file := by unfold Sq.file; unfold Sq.fl at hf; omega
  have g₁ := mem_pawnMask b s₁ d h₁
  have g₂ := mem_pawnMask b s₂ d h₂
  have hfw : Spec.fwd b.stm = 1 ∨ Spec.fwd b.stm = -1 := by cases b.stm <;> simp [Spec.fwd]
  simp only [df, dr] at g₁ g₂
  -- the single-push square of the double pusher is the other pawn's square, which is occupied
  have key : ∀ (a c : Sq), a.file = c.file → mem c (b.colors b.stm) = true → d.rank - c.rank = Spec.fwd b.stm →
      d.rank - a.rank = 2 * Spec.fwd b.stm →
      (∃ t : Sq, t.file - a.file = 0 ∧ t.rank - a.rank = Spec.fwd b.stm ∧ mem t b.combined = false) → False := by
    intro a c hac hc h1 h2 ⟨t, ht1, ht2, ht3⟩
    have : t = c := Sq.ext_rank_file (by omega) (by omega)
    subst this
    rw [hocc _ hc] at ht3; cases ht3
  rcases g₁ with ⟨a1, a2⟩ | ⟨a1, a2, a3⟩ | ⟨a1, a2⟩ <;> rcases g₂ with ⟨c1, c2⟩ | ⟨c1, c2, c3⟩ | ⟨c1, c2⟩
  · exact Sq.ext_rank_file (by omega) hfile
  · exact (key s₂ s₁ hfile.symm ho₁ a2 c2 c3).elim
  · omega
  · exact (key s₁ s₂ hfile ho₂ c2 a2 a3).elim
  · exact Sq.ext_rank_file (by omega) hfile
  · omega
  · omega
  · omega
  · exact Sq.ext_rank_file (by omega) hfile

/-! ### consequences of validity -/
theorem countP_le_one_unique {α} (p : α → Bool) : ∀ (l : List α), l.Nodup → l.countP p ≤ 1 →
    ∀ a b, a ∈ l → b ∈ l → p a = true → p b = true → a = b := by
  intro l
  induction l with
  | nil => intro _ _ a b ha; cases ha
  | cons x xs ih =>
    intro hn hc a b ha hb pa pb
    rw [List.nodup_cons] at hn
    rw [List.countP_cons] at hc
    have hzero : ∀ y, y ∈ xs → p y = true → p x = true → False := by
      intro y hy py px
      have : 0 < xs.countP p := List.countP_pos_iff.mpr ⟨y, hy, py⟩
      simp only [px, if_true] at hc; omega
    rcases List.mem_cons.mp ha with rfl | ha' <;> rcases List.mem_cons.mp hb with rfl | hb'
    · rfl
    · exact (hzero _ hb' pb pa).elim
    · exact (hzero _ ha' pa pb).elim
    · exact ih hn.2 (by split at hc <;> omega) a b ha' hb' pa pb

/-- a valid board has exactly one king of the side to move -/
theorem king_unique_of_valid {K : Keys} {b : Board} (hv : b.Valid K) (s₁ s₂ : Sq)
    (h₁ : mem s₁ (b.pieces .king) = true ∧ mem s₁ (b.colors b.stm) = true)
    (h₂ : mem s₂ (b.pieces .king) = true ∧ mem s₂ (b.colors b.stm) = true) : s₁ = s₂ := by
  have hr : Rep b b.abs := hv.cons
  have hpos := hv.pos
  simp only [Spec.ValidPos, Bool.and_eq_true, beq_iff_eq] at hpos
  have hcount : Spec.countPiece b.abs ⟨.king, b.stm⟩ = 1 := by
    have h1 := hpos.1.1.1.1.1; have h2 := hpos.1.1.1.1.2
    simp only [Board.absPos] at h1 h2
    cases b.stm <;> assumption
  have conv : ∀ s, mem s (b.pieces .king) = true ∧ mem s (b.colors b.stm) = true → (b.abs s == some ⟨.king, b.stm⟩) = true := by
    intro s ⟨hk, hc⟩
    rw [hr.pcs] at hk; rw [hr.cls] at hc
    rcases hp : b.abs s with _ | ⟨pt, c⟩
    · rw [hp] at hk; cases hk
    · rw [hp] at hk hc
      simp only [beq_iff_eq] at hk hc
      simp [hk, hc]
  unfold Spec.countPiece at hcount
  exact countP_le_one_unique _ allSq (List.nodup_finRange 64) (Nat.le_of_eq hcount) s₁ s₂ (List.mem_finRange _) (List.mem_finRange _)
    (conv _ h₁) (conv _ h₂)

/-- on a consistent board the men of the side to move are in the occupancy mask -/
theorem own_occ_of_cons {b : Board} (hc : b.Cons) (s : Sq) (h : mem s (b.colors b.stm) = true) : mem s b.combined = true := by
  have hr : Rep b b.abs := hc
  rw [hr.cls] at h; rw [hr.cmb]
  cases hp : b.abs s with
  | none => rw [hp] at h; cases h
  | some p => rfl

end Chess
