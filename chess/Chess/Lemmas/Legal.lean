import Chess.Lemmas.ChecksSpec
import Chess.Props.C05
import Chess.Lemmas.MakeMove
/-! Legality at the model level related to the specification: placement after a tentative move,
full king-safety evaluation = "own king not attacked afterwards", soundness of the shortcut. -/
namespace Chess
open Board
variable (K : Keys)

theorem epVictim_eq (c : Color) (dst : Sq) : Board.epVictim c dst = mkSq? (dst.rank - Spec.fwd c) dst.file := by
  cases c <;> rfl

/-- the board after the placement part of a piece move stands for `Spec.applyBoard` -/
theorem Rep.afterPieceMove {b : Board} {f} (h : Rep b f) (pt : PT) (src dst : Sq) (promo : Option PT)
    (hsrc : f src = some ⟨pt, b.stm⟩) (p : Spec.Pos) (hb : p.board = f) (hs : p.stm = b.stm) (he : p.ep = b.ep) :
    Rep ((b.movePiece K pt src dst promo).clearIfEp K pt dst) (Spec.applyBoard p (.piece pt src dst promo)) := by
  have h1 := h.movePiece K pt src dst promo _ hsrc
  unfold Board.clearIfEp
  simp only [isEpMove_eq, movePiece_ep, movePiece_stm, Spec.applyBoard, hb, hs, he, epVictim_eq]
  split
  · cases hv : mkSq? (dst.rank - Spec.fwd b.stm) dst.file with
    | some v => exact h1.clearSquare K v
    | none => exact h1
  · exact h1

end Chess

namespace Chess
open Board
variable (K : Keys)

theorem attackedBy_eq_any (f : Sq → Option Piece) (c : Color) (t : Sq) :
    Spec.attackedBy f c t = allSq.any fun a => Spec.isColor f c a && Spec.attacks f a t := rfl

theorem isBlank_eq_false_iff (x : BB) : isBlank x = false ↔ ∃ s, mem s x = true := by
  constructor
  · intro h
    apply Classical.byContradiction
    intro hn
    have : x = 0#64 := (eq_zero_iff x).2 (fun s => by
      cases hs : mem s x with
      | false => rfl
      | true => exact absurd ⟨s, hs⟩ hn)
    rw [(isBlank_iff x).2 this] at h; exact Bool.noConfusion h
  · rintro ⟨s, hs⟩
    cases hb : isBlank x with
    | false => rfl
    | true => rw [isBlank_iff] at hb; subst hb; simp at hs

/-- the check mask for target `k` is blank iff no man of the other side attacks `k` -/
theorem checks_blank_spec {b : Board} {f} (h : Rep b f) (k : Sq) :
    isBlank (b.pinsAndChecks k).2 = !Spec.attackedBy f b.stm.other k := by
  rw [attackedBy_eq_any]
  cases ha : (allSq.any fun a => Spec.isColor f b.stm.other a && Spec.attacks f a k) with
  | false =>
    simp only [Bool.not_false, isBlank_iff, eq_zero_iff]
    intro x
    rw [checks_spec h]
    rw [List.any_eq_false] at ha
    have := ha x (List.mem_finRange x)
    simpa using this
  | true =>
    simp only [Bool.not_true, isBlank_eq_false_iff]
    rw [List.any_eq_true] at ha
    obtain ⟨x, _, hx⟩ := ha
    exact ⟨x, by rw [checks_spec h]; exact hx⟩

/-- full evaluation of a tentative piece move = the mover's king is not attacked afterwards -/
theorem checkMaskAfter_spec {b : Board} {f} (h : Rep b f) (pt : PT) (src dst : Sq) (promo : Option PT)
    (hsrc : f src = some ⟨pt, b.stm⟩) (p : Spec.Pos) (hb : p.board = f) (hs : p.stm = b.stm) (he : p.ep = b.ep)
    (k : Sq) (hk : Spec.kingSq? (Spec.applyBoard p (.piece pt src dst promo)) b.stm = some k) :
    isBlank (b.checkMaskAfter K pt src dst promo) = !Spec.inCheck (Spec.applyBoard p (.piece pt src dst promo)) p.stm := by
  have hr := h.afterPieceMove K pt src dst promo hsrc p hb hs he
  unfold Board.checkMaskAfter Board.updatePinsAndChecks
  simp only [clearIfEp_stm, movePiece_stm]
  rw [kingSq_spec hr b.stm k hk]
  have := checks_blank_spec hr k
  simp only [clearIfEp_stm, movePiece_stm] at this
  rw [this, Spec.inCheck, hs, hk]

end Chess

namespace Chess
open Board

theorem countP_one_unique {α} (l : List α) (p : α → Bool) (h : l.countP p = 1) (hnd : l.Nodup)
    (x y : α) (hx : x ∈ l) (hy : y ∈ l) (px : p x = true) (py : p y = true) : x = y := by
  induction l with
  | nil => simp at hx
  | cons a t ih =>
    rw [List.nodup_cons] at hnd
    by_cases pa : p a = true
    · rw [List.countP_cons_of_pos pa] at h
      have h0 : t.countP p = 0 := by omega
      rw [List.countP_eq_zero] at h0
      have hxa : x = a := by
        rcases List.mem_cons.1 hx with e | e
        · exact e
        · exact absurd px (h0 x e)
      have hya : y = a := by
        rcases List.mem_cons.1 hy with e | e
        · exact e
        · exact absurd py (h0 y e)
      rw [hxa, hya]
    · rw [List.countP_cons_of_neg pa] at h
      have hxt : x ∈ t := by
        rcases List.mem_cons.1 hx with e | e
        · subst e; exact absurd px pa
        · exact e
      have hyt : y ∈ t := by
        rcases List.mem_cons.1 hy with e | e
        · subst e; exact absurd py pa
        · exact e
      exact ih h hnd.2 hxt hyt

/-- exactly one king of colour `c`: it is the one `kingSq?` finds, and it is the only one -/
theorem king_unique (f : Sq → Option Piece) (c : Color) (h : Spec.countPiece f ⟨.king, c⟩ = 1) :
    ∃ k, Spec.kingSq? f c = some k ∧ f k = some ⟨.king, c⟩ ∧ ∀ s, f s = some ⟨.king, c⟩ → s = k := by
  unfold Spec.countPiece at h
  have hpos : 0 < allSq.countP (fun s => f s == some ⟨.king, c⟩) := by omega
  rw [List.countP_pos_iff] at hpos
  obtain ⟨k0, _, hk0⟩ := hpos
  cases hf : Spec.kingSq? f c with
  | none =>
    unfold Spec.kingSq? at hf
    rw [List.find?_eq_none] at hf
    exact absurd hk0 (hf k0 (List.mem_finRange k0))
  | some k =>
    have hk := List.find?_some (by unfold Spec.kingSq? at hf; exact hf)
    refine ⟨k, rfl, by simpa using hk, ?_⟩
    intro s hs
    exact countP_one_unique allSq _ h (List.nodup_finRange 64) s k (List.mem_finRange s) (List.mem_finRange k)
      (by simp [hs]) hk

theorem kingSq?_congr (f g : Sq → Option Piece) (c : Color)
    (h : ∀ s, (f s = some ⟨.king, c⟩) ↔ (g s = some ⟨.king, c⟩)) : Spec.kingSq? f c = Spec.kingSq? g c := by
  unfold Spec.kingSq?
  congr 1
  funext s
  have := h s
  by_cases hf : f s = some ⟨.king, c⟩
  · have hg := this.1 hf; simp [hf, hg]
  · have hg : ¬ g s = some ⟨.king, c⟩ := fun e => hf (this.2 e)
    have e1 : (f s == some ⟨.king, c⟩) = false := by simpa using hf
    have e2 : (g s == some ⟨.king, c⟩) = false := by simpa using hg
    rw [e1, e2]

/-- if `k` is the only square holding the `c` king, `kingSq?` finds it -/
theorem kingSq?_of_unique (f : Sq → Option Piece) (c : Color) (k : Sq) (hk : f k = some ⟨.king, c⟩)
    (hu : ∀ s, f s = some ⟨.king, c⟩ → s = k) : Spec.kingSq? f c = some k := by
  cases hf : Spec.kingSq? f c with
  | none =>
    unfold Spec.kingSq? at hf
    rw [List.find?_eq_none] at hf
    have := hf k (List.mem_finRange k)
    rw [hk] at this
    exact absurd (by simp) this
  | some k' =>
    have := List.find?_some (by unfold Spec.kingSq? at hf; exact hf)
    have : k' = k := hu k' (by simpa using this)
    rw [this]

end Chess

namespace Chess
open Board

/-- pointwise form of the placement after a piece move -/
theorem applyBoard_piece_apply (p : Spec.Pos) (pt : PT) (src dst : Sq) (promo : Option PT) (s : Sq) :
    Spec.applyBoard p (.piece pt src dst promo) s =
      (if (pt == .pawn && p.ep == some dst) = true ∧ mkSq? (dst.rank - Spec.fwd p.stm) dst.file = some s then none
       else Spec.upd (Spec.upd p.board src none) dst (some ⟨promo.getD pt, p.stm⟩) s) := by
  unfold Spec.applyBoard
  simp only
  by_cases hep : (pt == .pawn && p.ep == some dst) = true
  · simp only [hep, if_true, true_and]
    cases hv : mkSq? (dst.rank - Spec.fwd p.stm) dst.file with
    | none => simp
    | some v =>
      simp only [Spec.upd, Option.some.injEq]
      by_cases hsv : s = v
      · subst hsv; simp
      · have : ¬ v = s := fun e => hsv e.symm
        simp [hsv, this]
  · simp [hep]

/-- where the mover's king stands after a piece move -/
theorem king_after (p : Spec.Pos) (k0 : Sq) (hk0 : p.board k0 = some ⟨.king, p.stm⟩)
    (hu : ∀ s, p.board s = some ⟨.king, p.stm⟩ → s = k0)
    (pt : PT) (src dst : Sq) (promo : Option PT) (hsrc : p.board src = some ⟨pt, p.stm⟩)
    (hdst : Spec.isColor p.board p.stm dst = false)
    (hpromo : promo ≠ some .king) (hkp : pt = .king → promo = none)
    (hvict : ∀ v, pt = .pawn → p.ep = some dst → mkSq? (dst.rank - Spec.fwd p.stm) dst.file = some v →
        p.board v ≠ some ⟨.king, p.stm⟩) :
    Spec.kingSq? (Spec.applyBoard p (.piece pt src dst promo)) p.stm = some (if pt = .king then dst else k0) := by
  have hdk : dst ≠ k0 := by
    rintro rfl; simp [Spec.isColor, hk0] at hdst
  -- the placement before the possible victim removal
  have key : ∀ s, Spec.upd (Spec.upd p.board src none) dst (some ⟨promo.getD pt, p.stm⟩) s = some ⟨.king, p.stm⟩ ↔
      s = (if pt = .king then dst else k0) := by
    intro s
    simp only [Spec.upd]
    by_cases hsd : s = dst
    · subst hsd
      simp only [if_true, Option.some.injEq, Piece.mk.injEq, and_true]
      by_cases hpk : pt = .king
      · simp [hpk, hkp hpk]
      · simp only [hpk, if_false]
        constructor
        · intro h
          cases promo with
          | none => exact absurd h hpk
          | some q => simp only [Option.getD_some] at h; subst h; exact absurd rfl hpromo
        · intro h; exact absurd h hdk
    · simp only [hsd, if_false]
      by_cases hss : s = src
      · subst hss
        simp only [if_true, reduceCtorEq, false_iff]
        by_cases hpk : pt = .king
        · simp only [hpk, if_true]; exact hsd
        · simp only [hpk, if_false]
          intro e; subst e; rw [hk0] at hsrc
          simp only [Option.some.injEq, Piece.mk.injEq, and_true] at hsrc
          exact hpk hsrc.symm
      · simp only [hss, if_false]
        by_cases hpk : pt = .king
        · simp only [hpk, if_true]
          constructor
          · intro h
            have e1 := hu s h
            have e2 := hu src (by rw [hsrc, hpk])
            exact absurd (e1.trans e2.symm) hss
          · intro h; exact absurd h hsd
        · simp only [hpk, if_false]
          exact ⟨hu s, fun e => e ▸ hk0⟩
  apply kingSq?_of_unique
  · rw [applyBoard_piece_apply]
    by_cases hc : (pt == .pawn && p.ep == some dst) = true ∧
        mkSq? (dst.rank - Spec.fwd p.stm) dst.file = some (if pt = .king then dst else k0)
    · obtain ⟨hep, hv⟩ := hc
      rw [Bool.and_eq_true] at hep
      have hp1 : pt = .pawn := by simpa using hep.1
      have hp2 : p.ep = some dst := by simpa using hep.2
      have hpk : pt ≠ .king := by rw [hp1]; decide
      simp only [hpk, if_false] at hv
      exact absurd hk0 (hvict k0 hp1 hp2 hv)
    · rw [if_neg hc]; exact (key _).2 rfl
  · intro s hs
    rw [applyBoard_piece_apply] at hs
    by_cases hc : (pt == .pawn && p.ep == some dst) = true ∧ mkSq? (dst.rank - Spec.fwd p.stm) dst.file = some s
    · rw [if_pos hc] at hs; exact absurd hs (by simp)
    · rw [if_neg hc] at hs; exact (key s).1 hs

end Chess
