import Chess.Spec.Rules
/-! Spec-level heart of C06: `ValidPos` is preserved by every legal move of the declarative rules.
No bitboards; only `Chess/Spec/Rules.lean`. -/
namespace Chess
open Spec

/-! ### squares -/

theorem mkSq?_some {r f : Int} {s : Sq} (h : mkSq? r f = some s) : s.rank = r ∧ s.file = f := by
  unfold mkSq? at h
  split at h
  · injection h with h; subst h
    simp only [Sq.rank, Sq.file]
    omega
  · cases h

theorem mkSq?_of {r f : Int} {s : Sq} (hr : s.rank = r) (hf : s.file = f) : mkSq? r f = some s := by
  unfold mkSq?
  simp only [Sq.rank, Sq.file] at hr hf
  have hs := s.isLt
  rw [dif_pos (by omega)]
  congr 1
  apply Fin.ext
  simp only
  omega

theorem mkSq?_eq_some_iff {r f : Int} {s : Sq} : mkSq? r f = some s ↔ s.rank = r ∧ s.file = f :=
  ⟨mkSq?_some, fun h => mkSq?_of h.1 h.2⟩

theorem sq_ext {a b : Sq} (hr : a.rank = b.rank) (hf : a.file = b.file) : a = b := by
  simp only [Sq.rank, Sq.file] at hr hf
  apply Fin.ext
  omega

theorem rank_range (s : Sq) : 0 ≤ s.rank ∧ s.rank < 8 := by
  simp only [Sq.rank]; have := s.isLt; omega

theorem file_range (s : Sq) : 0 ≤ s.file ∧ s.file < 8 := by
  simp only [Sq.file]; have := s.isLt; omega

theorem fwd_cases (c : Color) : fwd c = 1 ∨ fwd c = -1 := by cases c <;> simp [fwd]
theorem fwd_other (c : Color) : fwd c.other = - fwd c := by cases c <;> simp [fwd, Color.other]

/-- home-rank square of colour `c` on file `f` (the `sq`/`corner` of the rules) -/
def hsqS (c : Color) (f : Nat) : Sq := ⟨((homeRank c).toNat * 8 + f) % 64, Nat.mod_lt _ (by decide)⟩

theorem hsq_rank (c : Color) (f : Nat) (hf : f < 8) : (hsqS c f).rank = homeRank c := by
  cases c <;> simp only [hsqS, homeRank, Sq.rank] <;> omega

theorem hsq_file (c : Color) (f : Nat) (hf : f < 8) : (hsqS c f).file = f := by
  cases c <;> simp only [hsqS, homeRank, Sq.file] <;> omega

theorem hsq_inj {c : Color} {f g : Nat} (hf : f < 8) (hg : g < 8) (h : hsqS c f = hsqS c g) : f = g := by
  have := hsq_file c f hf
  rw [h, hsq_file c g hg] at this
  omega

/-! ### counting kings -/

theorem countP_eq_one_iff {α} (q : α → Bool) : ∀ (l : List α), l.Nodup →
    (l.countP q = 1 ↔ ∃ k, k ∈ l ∧ q k = true ∧ ∀ s, s ∈ l → q s = true → s = k)
  | [], _ => by simp
  | a :: l, hn => by
    have hn' := List.nodup_cons.mp hn
    have ih := countP_eq_one_iff q l hn'.2
    by_cases ha : q a = true
    · rw [List.countP_cons_of_pos ha]
      constructor
      · intro h
        have h0 : l.countP q = 0 := by omega
        rw [List.countP_eq_zero] at h0
        refine ⟨a, List.mem_cons_self, ha, ?_⟩
        intro s hs hqs
        rcases List.mem_cons.mp hs with rfl | hs
        · rfl
        · exact absurd hqs (h0 s hs)
      · rintro ⟨k, _, _, huniq⟩
        have h0 : l.countP q = 0 := by
          rw [List.countP_eq_zero]
          intro s hs hqs
          have h1 := huniq s (List.mem_cons_of_mem _ hs) hqs
          have h2 := huniq a List.mem_cons_self ha
          rw [h1, ← h2] at hs
          exact hn'.1 hs
        omega
    · rw [List.countP_cons_of_neg ha, ih]
      constructor
      · rintro ⟨k, hk, hqk, huniq⟩
        refine ⟨k, List.mem_cons_of_mem _ hk, hqk, ?_⟩
        intro s hs hqs
        rcases List.mem_cons.mp hs with rfl | hs
        · exact absurd hqs ha
        · exact huniq s hs hqs
      · rintro ⟨k, hk, hqk, huniq⟩
        rcases List.mem_cons.mp hk with rfl | hk
        · exact absurd hqk ha
        · exact ⟨k, hk, hqk, fun s hs => huniq s (List.mem_cons_of_mem _ hs)⟩

theorem mem_allSq (s : Sq) : s ∈ allSq := List.mem_finRange s

/-- exactly one man `x` on the board: a unique square holds it -/
theorem countPiece_eq_one_iff (bd : Sq → Option Piece) (x : Piece) :
    countPiece bd x = 1 ↔ ∃ k, bd k = some x ∧ ∀ s, bd s = some x → s = k := by
  unfold countPiece
  rw [countP_eq_one_iff _ allSq (List.nodup_finRange 64)]
  simp only [mem_allSq, true_and, beq_iff_eq, forall_const]

theorem kingSq?_of_unique_s {bd : Sq → Option Piece} {c : Color} {k : Sq}
    (hk : bd k = some ⟨.king, c⟩) (hu : ∀ s, bd s = some ⟨.king, c⟩ → s = k) : kingSq? bd c = some k := by
  unfold kingSq?
  cases h : allSq.find? fun s => bd s == some ⟨.king, c⟩ with
  | none =>
    rw [List.find?_eq_none] at h
    have := h k (mem_allSq k)
    simp [hk] at this
  | some a =>
    have := List.find?_some h
    rw [hu a (by simpa using this)]

/-! ### the predicates in propositional form -/

theorem rightsOk_iff (p : Pos) (c : Color) : rightsOk p c = true ↔
    (((p.rights c).k = true ∨ (p.rights c).q = true) → p.board (hsqS c 4) = some ⟨.king, c⟩) ∧
    ((p.rights c).k = true → p.board (hsqS c 7) = some ⟨.rook, c⟩) ∧
    ((p.rights c).q = true → p.board (hsqS c 0) = some ⟨.rook, c⟩) := by
  simp only [rightsOk, hsqS, Bool.and_eq_true, Bool.or_eq_true, Bool.not_eq_true', beq_iff_eq, and_assoc]
  cases (p.rights c).k <;> cases (p.rights c).q <;> simp

theorem epOk_iff (p : Pos) : epOk p = true ↔ ∀ e, p.ep = some e →
    e.rank = (if p.stm = .white then 5 else 2) ∧ p.board e = none ∧
    (∃ s, mkSq? (e.rank + fwd p.stm.other) e.file = some s ∧ p.board s = some ⟨.pawn, p.stm.other⟩) ∧
    (∃ s, mkSq? (e.rank - fwd p.stm.other) e.file = some s ∧ p.board s = none) := by
  unfold epOk
  cases hep : p.ep with
  | none => simp
  | some e =>
    simp only [Option.some.injEq, forall_eq', Bool.and_eq_true, beq_iff_eq, Option.isNone_iff_eq_none, and_assoc]
    refine and_congr ?_ (and_congr Iff.rfl (and_congr ?_ ?_))
    · cases p.stm <;> simp
    · cases mkSq? (e.rank + fwd p.stm.other) e.file <;> simp
    · cases mkSq? (e.rank - fwd p.stm.other) e.file <;> simp

theorem validPos_iff (p : Pos) : ValidPos p = true ↔
    countPiece p.board ⟨.king, .white⟩ = 1 ∧ countPiece p.board ⟨.king, .black⟩ = 1 ∧
    inCheck p.board p.stm.other = false ∧ rightsOk p .white = true ∧ rightsOk p .black = true ∧ epOk p = true := by
  simp only [ValidPos, Bool.and_eq_true, beq_iff_eq, Bool.not_eq_true', and_assoc]

/-! ### `pseudo` in propositional form -/

section pseudo
variable {p : Pos} {pt : PT} {src dst : Sq} {promo : Option PT}

theorem pseudo_src (h : pseudo p pt src dst promo = true) : p.board src = some ⟨pt, p.stm⟩ := by
  simp only [pseudo, Bool.and_eq_true, beq_iff_eq] at h
  exact h.1.1

theorem pseudo_dst (h : pseudo p pt src dst promo = true) (q : Piece) (hq : p.board dst = some q) : q.c ≠ p.stm := by
  simp only [pseudo, Bool.and_eq_true, beq_iff_eq] at h
  have := h.1.2
  rw [hq] at this
  simpa using this

theorem pseudo_ne (h : pseudo p pt src dst promo = true) : src ≠ dst := by
  intro e
  have h1 := pseudo_src h
  rw [e] at h1
  exact pseudo_dst h _ h1 rfl

/-- the pawn movement alternatives -/
theorem pseudo_pawn (h : pseudo p .pawn src dst promo = true) :
    ((dst.file - src.file = 0 ∧ dst.rank - src.rank = fwd p.stm ∧ p.board dst = none) ∨
     (dst.file - src.file = 0 ∧ dst.rank - src.rank = 2 * fwd p.stm ∧ src.rank = pawnRank p.stm ∧ p.board dst = none ∧
        ∃ m, mkSq? (src.rank + fwd p.stm) src.file = some m ∧ p.board m = none) ∨
     ((dst.file - src.file).natAbs = 1 ∧ dst.rank - src.rank = fwd p.stm ∧ (p.board dst ≠ none ∨ p.ep = some dst))) ∧
    (if dst.rank = lastRank p.stm then promo = some .knight ∨ promo = some .bishop ∨ promo = some .rook ∨ promo = some .queen
     else promo = none) := by
  simp only [pseudo, Bool.and_eq_true, beq_iff_eq, Bool.or_eq_true, Option.isNone_iff_eq_none,
    Option.isSome_iff_ne_none] at h
  refine ⟨?_, ?_⟩
  · rcases h.2.1 with (h1 | h1) | h1
    · exact Or.inl ⟨h1.1.1, h1.1.2, h1.2⟩
    · refine Or.inr (Or.inl ⟨h1.1.1.1.1, h1.1.1.1.2, h1.1.1.2, h1.1.2, ?_⟩)
      have h2 := h1.2
      cases hm : mkSq? (src.rank + fwd p.stm) src.file with
      | none => rw [hm] at h2; cases h2
      | some m => rw [hm] at h2; exact ⟨m, rfl, by simpa using h2⟩
    · exact Or.inr (Or.inr ⟨h1.1.1, h1.1.2, h1.2⟩)
  · have h2 := h.2.2
    by_cases hl : dst.rank = lastRank p.stm
    · rw [if_pos hl]; simpa [hl, or_assoc] using h2
    · rw [if_neg hl]; simpa [hl] using h2

theorem pseudo_nonpawn (hpt : pt ≠ .pawn) (h : pseudo p pt src dst promo = true) :
    attacks p.board src dst = true ∧ promo = none := by
  simp only [pseudo, Bool.and_eq_true, beq_iff_eq] at h
  have := h.2
  cases pt <;> first | exact absurd rfl hpt | simpa using this

/-- a pseudo-legal move onto an occupied square is an attack on that square -/
theorem pseudo_attacks (h : pseudo p pt src dst promo = true) (hocc : p.board dst ≠ none) :
    attacks p.board src dst = true := by
  by_cases hpt : pt = .pawn
  · subst hpt
    have hs := pseudo_src h
    rcases (pseudo_pawn h).1 with h1 | h1 | h1
    · exact absurd h1.2.2 hocc
    · exact absurd h1.2.2.2.1 hocc
    · simp only [attacks, hs, Bool.and_eq_true, beq_iff_eq]
      exact ⟨h1.2.1, h1.1⟩
  · exact (pseudo_nonpawn hpt h).1

theorem pseudo_getD_king (h : pseudo p pt src dst promo = true) : promo.getD pt = .king ↔ pt = .king := by
  by_cases hpt : pt = .pawn
  · subst hpt
    have := (pseudo_pawn h).2
    split at this
    · rcases this with h | h | h | h <;> subst h <;> simp
    · subst this; simp
  · rw [(pseudo_nonpawn hpt h).2]; simp

end pseudo

/-! ### the placement after a piece move, pointwise -/

/-- the square of the pawn removed by an en-passant capture (computed without any legality assumption) -/
def victim? (p : Pos) (pt : PT) (dst : Sq) : Option Sq :=
  if pt == .pawn && p.ep == some dst then mkSq? (dst.rank - fwd p.stm) dst.file else none

theorem applyBoard_piece (p : Pos) (pt : PT) (src dst : Sq) (promo : Option PT) (x : Sq) :
    applyBoard p (.piece pt src dst promo) x =
      if victim? p pt dst = some x then none
      else if x = dst then some ⟨promo.getD pt, p.stm⟩
      else if x = src then none else p.board x := by
  simp only [applyBoard, victim?]
  by_cases hc : (pt == .pawn && p.ep == some dst) = true
  · simp only [if_pos hc]
    cases hm : mkSq? (dst.rank - fwd p.stm) dst.file with
    | none => simp [upd]
    | some v =>
      simp only [upd, Option.some.injEq]
      by_cases hx : x = v
      · simp [hx]
      · have hx' : ¬ v = x := fun e => hx e.symm
        simp [hx, hx']
  · simp only [if_neg hc]
    simp [upd]

theorem victim?_ne_dst {p : Pos} {pt : PT} {dst v : Sq} (h : victim? p pt dst = some v) : v ≠ dst := by
  unfold victim? at h
  split at h
  · have := (mkSq?_some h).1
    intro e; subst e
    rcases fwd_cases p.stm with hf | hf <;> rw [hf] at this <;> omega
  · cases h

theorem applyBoard_piece_dst (p : Pos) (pt : PT) (src dst : Sq) (promo : Option PT) :
    applyBoard p (.piece pt src dst promo) dst = some ⟨promo.getD pt, p.stm⟩ := by
  rw [applyBoard_piece, if_neg (fun h => victim?_ne_dst h rfl), if_pos rfl]

theorem victim?_pawn {p : Pos} (he : epOk p = true) {pt : PT} {dst v : Sq} (h : victim? p pt dst = some v) :
    p.board v = some ⟨.pawn, p.stm.other⟩ := by
  unfold victim? at h
  split at h
  · rename_i hc
    simp only [Bool.and_eq_true, beq_iff_eq] at hc
    obtain ⟨s, hs, hb⟩ := ((epOk_iff p).mp he dst hc.2).2.2.1
    rw [fwd_other, ← Int.sub_eq_add_neg, h] at hs
    injection hs with hs
    rw [hs]; exact hb
  · cases h

theorem applyBoard_keep {p : Pos} {pt : PT} {src dst : Sq} {promo : Option PT} {x : Sq}
    (hs : x ≠ src) (hd : x ≠ dst) (hv : victim? p pt dst ≠ some x) :
    applyBoard p (.piece pt src dst promo) x = p.board x := by
  rw [applyBoard_piece, if_neg hv, if_neg hd, if_neg hs]

/-- a square holding `K` after the move either is the destination (and the moved man is `K`) or held `K` before -/
theorem applyBoard_piece_inv {p : Pos} {pt : PT} {src dst : Sq} {promo : Option PT} {x : Sq} {K : Piece}
    (h : applyBoard p (.piece pt src dst promo) x = some K) :
    (x = dst ∧ (⟨promo.getD pt, p.stm⟩ : Piece) = K) ∨ (x ≠ dst ∧ x ≠ src ∧ p.board x = some K) := by
  rw [applyBoard_piece] at h
  split at h
  · cases h
  · split at h
    · rename_i hd
      injection h with h
      exact Or.inl ⟨hd, h⟩
    · rename_i hd
      split at h
      · cases h
      · rename_i hs
        exact Or.inr ⟨hd, hs, h⟩

section frame
variable {p : Pos} {pt : PT} {src dst : Sq} {promo : Option PT}

/-- own men other than the moved one stay where they are -/
theorem own_keep (he : epOk p = true) (h : pseudo p pt src dst promo = true) {x : Sq} {q : Piece}
    (hx : p.board x = some q) (hc : q.c = p.stm) (hs : x ≠ src) :
    applyBoard p (.piece pt src dst promo) x = some q := by
  rw [applyBoard_keep hs, hx]
  · intro e; subst e
    exact pseudo_dst h q hx hc
  · intro hv
    have := victim?_pawn he hv
    rw [hx] at this
    injection this with this
    subst this
    exact Color.other_ne _ hc

/-- enemy men other than pawns stay where they are unless captured on the destination square -/
theorem opp_keep (he : epOk p = true) (h : pseudo p pt src dst promo = true) {x : Sq} {q : Piece}
    (hx : p.board x = some q) (hc : q.c ≠ p.stm) (hp : q.pt ≠ .pawn) (hd : x ≠ dst) :
    applyBoard p (.piece pt src dst promo) x = some q := by
  rw [applyBoard_keep _ hd, hx]
  · intro hv
    have := victim?_pawn he hv
    rw [hx] at this
    injection this with this
    subst this
    exact hp rfl
  · intro e; subst e
    rw [pseudo_src h] at hx
    injection hx with hx
    subst hx
    exact hc rfl

end frame

/-! ### the enemy king is never captured -/

theorem inCheck_of_attack {bd : Sq → Option Piece} {c : Color} {k a : Sq} {q : Piece}
    (hk : bd k = some ⟨.king, c⟩) (hu : ∀ s, bd s = some ⟨.king, c⟩ → s = k)
    (ha : bd a = some q) (hc : q.c = c.other) (hat : attacks bd a k = true) : inCheck bd c = true := by
  unfold inCheck
  rw [kingSq?_of_unique_s hk hu]
  simp only [attackedBy, List.any_eq_true, Bool.and_eq_true]
  exact ⟨a, mem_allSq a, by rw [ha]; simpa using hc, hat⟩

theorem no_king_capture {p : Pos} (hv : ValidPos p = true) {pt : PT} {src dst : Sq} {promo : Option PT}
    (h : pseudo p pt src dst promo = true) : p.board dst ≠ some ⟨.king, p.stm.other⟩ := by
  intro hd
  have hv' := (validPos_iff p).mp hv
  have hcnt : countPiece p.board ⟨.king, p.stm.other⟩ = 1 := by
    cases p.stm
    · exact hv'.2.1
    · exact hv'.1
  obtain ⟨k, hk, hu⟩ := (countPiece_eq_one_iff _ _).mp hcnt
  have hkd : dst = k := hu dst hd
  subst hkd
  have := inCheck_of_attack hk hu (pseudo_src h) (by simp) (pseudo_attacks h (by rw [hd]; simp))
  rw [hv'.2.2.1] at this
  cases this

/-! ### castling, pointwise -/

def rookFrom : Side → Nat | .king => 7 | .queen => 0
def kingTo : Side → Nat | .king => 6 | .queen => 2
def rookTo : Side → Nat | .king => 5 | .queen => 3

theorem applyBoard_castle (p : Pos) (s : Side) (x : Sq) :
    applyBoard p (.castle s) x =
      if x = hsqS p.stm (rookTo s) then some ⟨.rook, p.stm⟩
      else if x = hsqS p.stm (kingTo s) then some ⟨.king, p.stm⟩
      else if x = hsqS p.stm (rookFrom s) then none
      else if x = hsqS p.stm 4 then none else p.board x := by
  cases s <;> rfl

theorem castleOk_spec {p : Pos} {s : Side} (h : castleOk p s = true) :
    (p.rights p.stm).has s = true ∧
    p.board (hsqS p.stm 4) = some ⟨.king, p.stm⟩ ∧
    p.board (hsqS p.stm (rookFrom s)) = some ⟨.rook, p.stm⟩ ∧
    p.board (hsqS p.stm (kingTo s)) = none ∧
    p.board (hsqS p.stm (rookTo s)) = none ∧
    inCheck (applyBoard p (.castle s)) p.stm = false := by
  cases s <;>
    simp only [castleOk, Bool.and_eq_true, beq_iff_eq, Bool.not_eq_true', Option.isNone_iff_eq_none] at h
  · exact ⟨h.1.1.1.1.1, h.1.1.1.1.2, h.1.1.1.2.1.1, h.1.1.1.2.2, h.1.1.1.2.1.2, h.2⟩
  · exact ⟨h.1.1.1.1.1, h.1.1.1.1.2, h.1.1.1.2.1.1.1, h.1.1.1.2.1.2, h.1.1.1.2.2, h.2⟩

theorem side_lt (s : Side) : rookFrom s < 8 ∧ kingTo s < 8 ∧ rookTo s < 8 ∧
    kingTo s ≠ rookTo s ∧ kingTo s ≠ rookFrom s ∧ kingTo s ≠ 4 ∧ rookTo s ≠ rookFrom s ∧ rookTo s ≠ 4 := by
  cases s <;> decide

/-- enemy men are untouched by castling -/
theorem castle_keep {p : Pos} {s : Side} (h : castleOk p s = true) {x : Sq} {q : Piece}
    (hx : p.board x = some q) (hc : q.c ≠ p.stm) : applyBoard p (.castle s) x = some q := by
  obtain ⟨_, h4, hrf, hkt, hrt, _⟩ := castleOk_spec h
  have ne : ∀ y, (p.board y = none ∨ ∃ r, p.board y = some ⟨r, p.stm⟩) → x ≠ y := by
    intro y hy e
    subst e
    rcases hy with hy | ⟨r, hy⟩
    · rw [hy] at hx; cases hx
    · rw [hy] at hx; injection hx with hx; subst hx; exact hc rfl
  rw [applyBoard_castle, if_neg (ne _ (Or.inl hrt)), if_neg (ne _ (Or.inl hkt)),
    if_neg (ne _ (Or.inr ⟨_, hrf⟩)), if_neg (ne _ (Or.inr ⟨_, h4⟩)), hx]

/-! ### clause (a): exactly one king of each colour -/

theorem validPos_king {p : Pos} (hv : ValidPos p = true) (col : Color) : countPiece p.board ⟨.king, col⟩ = 1 := by
  have hv' := (validPos_iff p).mp hv
  cases col
  · exact hv'.1
  · exact hv'.2.1

theorem color_cases (c col : Color) : col = c ∨ col = c.other := by cases c <;> cases col <;> simp [Color.other]

theorem kings_own_piece {p : Pos} (hv : ValidPos p = true) {pt : PT} {src dst : Sq} {promo : Option PT}
    (h : pseudo p pt src dst promo = true) :
    countPiece (applyBoard p (.piece pt src dst promo)) ⟨.king, p.stm⟩ = 1 := by
  have he := ((validPos_iff p).mp hv).2.2.2.2.2
  obtain ⟨k, hk, hu⟩ := (countPiece_eq_one_iff _ _).mp (validPos_king hv p.stm)
  rw [countPiece_eq_one_iff]
  by_cases hpt : pt = .king
  · subst hpt
    have hks : src = k := hu src (pseudo_src h)
    subst hks
    refine ⟨dst, ?_, ?_⟩
    · rw [applyBoard_piece_dst, (pseudo_nonpawn (by decide) h).2]; rfl
    · intro s hs
      rcases applyBoard_piece_inv hs with ⟨hd, _⟩ | ⟨_, hne, hb⟩
      · exact hd
      · exact absurd (hu s hb) hne
  · have hks : k ≠ src := by
      intro e; subst e
      rw [pseudo_src h] at hk
      injection hk with hk; injection hk with hk
      exact hpt hk
    refine ⟨k, own_keep he h hk rfl hks, ?_⟩
    intro s hs
    rcases applyBoard_piece_inv hs with ⟨_, hmv⟩ | ⟨_, _, hb⟩
    · injection hmv with hmv
      exact absurd ((pseudo_getD_king h).mp hmv) hpt
    · exact hu s hb

theorem kings_opp_piece {p : Pos} (hv : ValidPos p = true) {pt : PT} {src dst : Sq} {promo : Option PT}
    (h : pseudo p pt src dst promo = true) :
    countPiece (applyBoard p (.piece pt src dst promo)) ⟨.king, p.stm.other⟩ = 1 := by
  have he := ((validPos_iff p).mp hv).2.2.2.2.2
  obtain ⟨k, hk, hu⟩ := (countPiece_eq_one_iff _ _).mp (validPos_king hv p.stm.other)
  rw [countPiece_eq_one_iff]
  have hkd : k ≠ dst := by
    intro e; subst e
    exact no_king_capture hv h hk
  refine ⟨k, opp_keep he h hk (Color.other_ne _) (by simp) hkd, ?_⟩
  intro s hs
  rcases applyBoard_piece_inv hs with ⟨_, hmv⟩ | ⟨_, _, hb⟩
  · injection hmv with _ hmv
    exact absurd hmv.symm (Color.other_ne _)
  · exact hu s hb

theorem kings_own_castle {p : Pos} (hv : ValidPos p = true) {s : Side} (h : castleOk p s = true) :
    countPiece (applyBoard p (.castle s)) ⟨.king, p.stm⟩ = 1 := by
  obtain ⟨_, h4, hrf, hkt, hrt, _⟩ := castleOk_spec h
  obtain ⟨k, hk, hu⟩ := (countPiece_eq_one_iff _ _).mp (validPos_king hv p.stm)
  have hk4 : hsqS p.stm 4 = k := hu _ h4
  obtain ⟨l1, l2, l3, n1, n2, n3, n4, n5⟩ := side_lt s
  rw [countPiece_eq_one_iff]
  refine ⟨hsqS p.stm (kingTo s), ?_, ?_⟩
  · rw [applyBoard_castle, if_neg (fun e => n1 (hsq_inj l2 l3 e)), if_pos rfl]
  · intro x hx
    rw [applyBoard_castle] at hx
    split at hx
    · cases hx
    · split at hx
      · assumption
      · split at hx
        · cases hx
        · split at hx
          · cases hx
          · rename_i hne
            exact absurd ((hu x hx).trans hk4.symm) hne

theorem kings_opp_castle {p : Pos} (hv : ValidPos p = true) {s : Side} (h : castleOk p s = true) :
    countPiece (applyBoard p (.castle s)) ⟨.king, p.stm.other⟩ = 1 := by
  obtain ⟨k, hk, hu⟩ := (countPiece_eq_one_iff _ _).mp (validPos_king hv p.stm.other)
  rw [countPiece_eq_one_iff]
  refine ⟨k, castle_keep h hk (Color.other_ne _), ?_⟩
  intro x hx
  rw [applyBoard_castle] at hx
  have hoc : p.stm ≠ p.stm.other := fun e => Color.other_ne _ e.symm
  split at hx
  · injection hx with hx; injection hx with _ hx; exact absurd hx hoc
  · split at hx
    · injection hx with hx; injection hx with _ hx; exact absurd hx hoc
    · split at hx
      · cases hx
      · split at hx
        · cases hx
        · exact hu x hx

theorem kings_apply {p : Pos} (hv : ValidPos p = true) {m : Move} (hm : legal p m = true) (col : Color) :
    countPiece (apply p m).board ⟨.king, col⟩ = 1 := by
  show countPiece (applyBoard p m) ⟨.king, col⟩ = 1
  cases m with
  | piece pt src dst promo =>
    simp only [legal, Bool.and_eq_true] at hm
    rcases color_cases p.stm col with rfl | rfl
    · exact kings_own_piece hv hm.1
    · exact kings_opp_piece hv hm.1
  | castle s =>
    simp only [legal] at hm
    rcases color_cases p.stm col with rfl | rfl
    · exact kings_own_castle hv hm
    · exact kings_opp_castle hv hm

/-- clause (a) of C06: exactly one king of each colour after a legal move -/
theorem validPos_apply_kings (p : Pos) (hv : ValidPos p = true) (m : Move) (hm : legal p m = true) :
    countPiece (apply p m).board ⟨.king, .white⟩ = 1 ∧ countPiece (apply p m).board ⟨.king, .black⟩ = 1 :=
  ⟨kings_apply hv hm .white, kings_apply hv hm .black⟩

/-! ### clause (b): the side that just moved is not in check -/

theorem validPos_apply_notInCheck (p : Pos) (_hv : ValidPos p = true) (m : Move) (hm : legal p m = true) :
    inCheck (apply p m).board (apply p m).stm.other = false := by
  show inCheck (applyBoard p m) p.stm.other.other = false
  rw [Color.other_other]
  cases m with
  | piece pt src dst promo =>
    simp only [legal, Bool.and_eq_true, Bool.not_eq_true'] at hm
    exact hm.2
  | castle s =>
    simp only [legal] at hm
    exact (castleOk_spec hm).2.2.2.2.2

/-! ### clause (c): castling rights are backed by king and rook on their home squares -/

theorem apply_board (p : Pos) (m : Move) : (apply p m).board = applyBoard p m := rfl
theorem apply_stm (p : Pos) (m : Move) : (apply p m).stm = p.stm.other := rfl

theorem apply_rights_castle (p : Pos) (s : Side) (x : Color) :
    (apply p (.castle s)).rights x = if x = p.stm then ⟨false, false⟩ else p.rights p.stm.other := rfl

theorem own_rights_piece {p : Pos} {pt : PT} {src dst : Sq} {promo : Option PT} :
    (((apply p (.piece pt src dst promo)).rights p.stm).k = true →
      (p.rights p.stm).k = true ∧ pt ≠ .king ∧ (pt = .rook → src ≠ hsqS p.stm 7)) ∧
    (((apply p (.piece pt src dst promo)).rights p.stm).q = true →
      (p.rights p.stm).q = true ∧ pt ≠ .king ∧ (pt = .rook → src ≠ hsqS p.stm 0)) := by
  cases pt <;> simp [apply, dropRights, hsqS]

theorem opp_rights_piece {p : Pos} {pt : PT} {src dst : Sq} {promo : Option PT} :
    (((apply p (.piece pt src dst promo)).rights p.stm.other).k = true →
      (p.rights p.stm.other).k = true ∧ dst ≠ hsqS p.stm.other 7) ∧
    (((apply p (.piece pt src dst promo)).rights p.stm.other).q = true →
      (p.rights p.stm.other).q = true ∧ dst ≠ hsqS p.stm.other 0) := by
  simp [apply, dropRights, hsqS, Color.other_ne]

theorem rights_own_piece {p : Pos} (hv : ValidPos p = true) {pt : PT} {src dst : Sq} {promo : Option PT}
    (h : pseudo p pt src dst promo = true) : rightsOk (apply p (.piece pt src dst promo)) p.stm = true := by
  have hv' := (validPos_iff p).mp hv
  have he := hv'.2.2.2.2.2
  have hr : rightsOk p p.stm = true := by
    cases p.stm
    · exact hv'.2.2.2.1
    · exact hv'.2.2.2.2.1
  obtain ⟨r4, r7, r0⟩ := (rightsOk_iff _ _).mp hr
  obtain ⟨ok, oq⟩ := @own_rights_piece p pt src dst promo
  have hsrc := pseudo_src h
  rw [rightsOk_iff]
  simp only [apply_board]
  refine ⟨?_, ?_, ?_⟩
  · intro hkq
    have : ((p.rights p.stm).k = true ∨ (p.rights p.stm).q = true) ∧ pt ≠ .king := by
      rcases hkq with hk | hq
      · exact ⟨Or.inl (ok hk).1, (ok hk).2.1⟩
      · exact ⟨Or.inr (oq hq).1, (oq hq).2.1⟩
    have hb := r4 this.1
    refine own_keep he h hb rfl ?_
    intro e
    rw [e, hsrc] at hb
    injection hb with hb; injection hb with hb
    exact this.2 hb
  · intro hk
    have hb := r7 (ok hk).1
    refine own_keep he h hb rfl ?_
    intro e
    have hb' := hb
    rw [e, hsrc] at hb'
    injection hb' with hb'; injection hb' with hb'
    exact (ok hk).2.2 hb' e.symm
  · intro hq
    have hb := r0 (oq hq).1
    refine own_keep he h hb rfl ?_
    intro e
    have hb' := hb
    rw [e, hsrc] at hb'
    injection hb' with hb'; injection hb' with hb'
    exact (oq hq).2.2 hb' e.symm

theorem rights_opp_piece {p : Pos} (hv : ValidPos p = true) {pt : PT} {src dst : Sq} {promo : Option PT}
    (h : pseudo p pt src dst promo = true) : rightsOk (apply p (.piece pt src dst promo)) p.stm.other = true := by
  have hv' := (validPos_iff p).mp hv
  have he := hv'.2.2.2.2.2
  have hr : rightsOk p p.stm.other = true := by
    cases p.stm
    · exact hv'.2.2.2.2.1
    · exact hv'.2.2.2.1
  obtain ⟨r4, r7, r0⟩ := (rightsOk_iff _ _).mp hr
  obtain ⟨ok, oq⟩ := @opp_rights_piece p pt src dst promo
  rw [rightsOk_iff]
  simp only [apply_board]
  have hoc := Color.other_ne p.stm
  refine ⟨?_, ?_, ?_⟩
  · intro hkq
    have : (p.rights p.stm.other).k = true ∨ (p.rights p.stm.other).q = true := by
      rcases hkq with hk | hq
      · exact Or.inl (ok hk).1
      · exact Or.inr (oq hq).1
    have hb := r4 this
    refine opp_keep he h hb hoc (by simp) ?_
    intro e
    rw [e] at hb
    exact no_king_capture hv h hb
  · intro hk
    exact opp_keep he h (r7 (ok hk).1) hoc (by simp) (fun e => (ok hk).2 e.symm)
  · intro hq
    exact opp_keep he h (r0 (oq hq).1) hoc (by simp) (fun e => (oq hq).2 e.symm)

theorem rights_apply {p : Pos} (hv : ValidPos p = true) {m : Move} (hm : legal p m = true) (col : Color) :
    rightsOk (apply p m) col = true := by
  cases m with
  | piece pt src dst promo =>
    simp only [legal, Bool.and_eq_true] at hm
    rcases color_cases p.stm col with rfl | rfl
    · exact rights_own_piece hv hm.1
    · exact rights_opp_piece hv hm.1
  | castle s =>
    simp only [legal] at hm
    rw [rightsOk_iff]
    rcases color_cases p.stm col with rfl | rfl
    · simp [apply_rights_castle]
    · have hv' := (validPos_iff p).mp hv
      have hr : rightsOk p p.stm.other = true := by
        cases p.stm
        · exact hv'.2.2.2.2.1
        · exact hv'.2.2.2.1
      obtain ⟨r4, r7, r0⟩ := (rightsOk_iff _ _).mp hr
      have hoc := Color.other_ne p.stm
      rw [apply_rights_castle, if_neg hoc]
      simp only [apply_board]
      exact ⟨fun x => castle_keep hm (r4 x) hoc, fun x => castle_keep hm (r7 x) hoc,
        fun x => castle_keep hm (r0 x) hoc⟩

/-- clause (c) of C06 -/
theorem validPos_apply_rights (p : Pos) (hv : ValidPos p = true) (m : Move) (hm : legal p m = true) :
    rightsOk (apply p m) .white = true ∧ rightsOk (apply p m) .black = true :=
  ⟨rights_apply hv hm .white, rights_apply hv hm .black⟩

/-! ### clause (d): the en-passant square -/

theorem apply_ep_castle (p : Pos) (s : Side) : (apply p (.castle s)).ep = none := rfl

theorem apply_ep_piece {p : Pos} {pt : PT} {src dst : Sq} {promo : Option PT} {e : Sq}
    (h : (apply p (.piece pt src dst promo)).ep = some e) :
    pt = .pawn ∧ (dst.rank - src.rank).natAbs = 2 ∧ mkSq? ((src.rank + dst.rank) / 2) dst.file = some e := by
  cases pt <;> simp only [apply] at h <;> try cases h
  split at h
  · rename_i h2
    exact ⟨rfl, by simpa using h2, h⟩
  · cases h

theorem ep_piece {p : Pos} {src dst : Sq} {promo : Option PT}
    (h : pseudo p .pawn src dst promo = true) : epOk (apply p (.piece .pawn src dst promo)) = true := by
  rw [epOk_iff]
  intro e hep
  obtain ⟨_, h2, hm⟩ := apply_ep_piece hep
  obtain ⟨hgeo, hpromo⟩ := pseudo_pawn h
  have ⟨her, hef⟩ := mkSq?_some hm
  rw [apply_stm, Color.other_other, apply_board]
  have hfw := fwd_cases p.stm
  rcases hgeo with h1 | h1 | h1
  · exfalso; omega
  · obtain ⟨hdf, hdr, hpr, hdn, m, hmid, hmn⟩ := h1
    have ⟨hmr, hmf⟩ := mkSq?_some hmid
    have hem : e = m := sq_ext (by omega) (by omega)
    subst hem
    have hed : e ≠ dst := fun x => by subst x; omega
    have hes : e ≠ src := fun x => by subst x; omega
    have hsd : src ≠ dst := fun x => by subst x; omega
    have hpn : promo = none := by
      rw [if_neg] at hpromo
      · exact hpromo
      · rw [hpr] at hdr
        cases hc : p.stm <;> simp only [hc, pawnRank, fwd, lastRank] at hdr ⊢ <;> omega
    refine ⟨?_, ?_, ⟨dst, mkSq?_of (by omega) (by omega), ?_⟩, ⟨src, mkSq?_of (by omega) (by omega), ?_⟩⟩
    · rw [hpr] at hdr hmr
      cases hc : p.stm <;> simp only [hc, pawnRank, fwd, Color.other] at hdr hmr ⊢ <;> simp <;> omega
    · rw [applyBoard_piece]
      split
      · rfl
      · exact hmn
    · rw [applyBoard_piece_dst, hpn]; rfl
    · rw [applyBoard_piece]
      split
      · rfl
      · rw [if_pos rfl]
  · exfalso; omega

/-- clause (d) of C06 -/
theorem validPos_apply_ep (p : Pos) (_hv : ValidPos p = true) (m : Move) (hm : legal p m = true) :
    epOk (apply p m) = true := by
  cases m with
  | castle s => rw [epOk_iff, apply_ep_castle]; intro e he; cases he
  | piece pt src dst promo =>
    simp only [legal, Bool.and_eq_true] at hm
    by_cases hpt : pt = .pawn
    · subst hpt; exact ep_piece hm.1
    · rw [epOk_iff]
      intro e he
      exact absurd (apply_ep_piece he).1 hpt

/-! ### the invariant -/

/-- MAIN: a legal move of the declarative rules leads from a valid position to a valid position -/
theorem validPos_apply (p : Pos) (hv : ValidPos p = true) (m : Move) (hm : legal p m = true) :
    ValidPos (apply p m) = true := by
  rw [validPos_iff]
  exact ⟨(validPos_apply_kings p hv m hm).1, (validPos_apply_kings p hv m hm).2,
    validPos_apply_notInCheck p hv m hm, (validPos_apply_rights p hv m hm).1, (validPos_apply_rights p hv m hm).2,
    validPos_apply_ep p hv m hm⟩

/-- `ms` is a sequence of moves each legal in the position reached by its predecessors -/
inductive LegalSeqS : Pos → List Move → Prop
  | nil (p : Pos) : LegalSeqS p []
  | cons {p : Pos} {m : Move} {ms : List Move} : legal p m = true → LegalSeqS (apply p m) ms → LegalSeqS p (m :: ms)

/-- every position reachable from a valid position by legal moves is valid -/
theorem validPos_reachable (p : Pos) (hv : ValidPos p = true) (ms : List Move) (h : LegalSeqS p ms) :
    ValidPos (ms.foldl apply p) = true := by
  induction h with
  | nil p => exact hv
  | cons hm _ ih => exact ih (validPos_apply _ hv _ hm)

/-! ### the hypotheses are satisfiable: the initial position and 1. e4 -/

def startBoard : Sq → Option Piece := fun s =>
  let back : Nat → PT := fun f => match f with
    | 0 => .rook | 1 => .knight | 2 => .bishop | 3 => .queen | 4 => .king | 5 => .bishop | 6 => .knight | _ => .rook
  match s.val / 8 with
  | 0 => some ⟨back (s.val % 8), .white⟩
  | 1 => some ⟨.pawn, .white⟩
  | 6 => some ⟨.pawn, .black⟩
  | 7 => some ⟨back (s.val % 8), .black⟩
  | _ => none

def startPos : Pos := ⟨startBoard, .white, fun _ => ⟨true, true⟩, none, 0, 1⟩

example : ValidPos startPos = true ∧ legal startPos (.piece .pawn 12 28 none) = true ∧
    (apply startPos (.piece .pawn 12 28 none)).ep = some 20 := by decide +kernel

example : LegalSeqS startPos [.piece .pawn 12 28 none] := .cons (by decide +kernel) (.nil _)

end Chess
