import Chess.Lemmas.BB
import Chess.Model.Tables
/-! Membership in the generated tables: the OR-accumulating loop yields exactly the squares that
satisfy the loop's predicate (general proof), and the array caches equal the generators. -/
namespace Chess

theorem foldl_collect_mem (p : Sq → Bool) (s : Sq) (l : List Sq) (acc : BB) :
    mem s (l.foldl (fun m d => if p d then m ||| bbOf d else m) acc) = (mem s acc || (decide (s ∈ l) && p s)) := by
  induction l generalizing acc with
  | nil => simp
  | cons x xs ih =>
    simp only [List.foldl_cons, ih, List.mem_cons]
    by_cases hp : p x = true
    · simp only [hp, if_true, mem_or, mem_bbOf]
      by_cases hsx : s = x
      · subst hsx; simp [hp]
      · simp [hsx]
    · have hp' : p x = false := by simpa using hp
      simp only [hp', Bool.false_eq_true, if_false]
      by_cases hsx : s = x
      · subst hsx; simp [hp']
      · simp [hsx]

/-- the loop `for d in 0..64 { if p(d) { m |= from_square(d) } }` builds exactly `{d | p d}` -/
@[simp] theorem mem_collect (p : Sq → Bool) (s : Sq) : mem s (collect p) = p s := by
  unfold collect
  rw [foldl_collect_mem]
  simp [allSq, List.mem_finRange]

theorem getElem_ofFn' {α : Type} {n : Nat} (f : Fin n → α) (arr : Array α) (h : arr = Array.ofFn f)
    (i : Nat) (hi : i < arr.size) (hi' : i < n) : arr[i] = f ⟨i, hi'⟩ := by
  subst h; simp

theorem ray_eq (s : Sq) (i : Fin 8) : ray s i = rayGen s i := by
  unfold ray
  rw [getElem_ofFn' _ raysArr rfl _ _ (by omega)]
  have h1 : (s.val * 8 + i.val) / 8 = s.val := by omega
  have h2 : (s.val * 8 + i.val) % 8 = i.val := by omega
  have e1 : (⟨(s.val * 8 + i.val) / 8, by omega⟩ : Sq) = s := Fin.ext h1
  have e2 : (⟨(s.val * 8 + i.val) % 8, by omega⟩ : Fin 8) = i := Fin.ext h2
  simp only [e1, e2]
theorem knightT_eq (s : Sq) : knightT s = knightGen s := by
  unfold knightT; rw [getElem_ofFn' _ knightArr rfl _ _ s.isLt]
theorem kingT_eq (s : Sq) : kingT s = kingGen s := by
  unfold kingT; rw [getElem_ofFn' _ kingArr rfl _ _ s.isLt]
theorem colorSel (c : Color) (s : Sq) : (if s.val + 64 * c.idx < 64 then Color.white else Color.black) = c := by
  cases c <;> simp [Color.idx]
theorem sqSel (c : Color) (s : Sq) : (⟨(s.val + 64 * c.idx) % 64, by omega⟩ : Sq) = s := by
  apply Fin.ext; cases c <;> simp [Color.idx] <;> omega
theorem pawnPush_eq (c : Color) (s : Sq) : pawnPush c s = pawnPushGen c s := by
  unfold pawnPush; rw [getElem_ofFn' _ pawnPushArr rfl _ _ (by cases c <;> simp [Color.idx] <;> omega)]
  simp only [colorSel, sqSel]
theorem pawnDouble_eq (c : Color) (s : Sq) : pawnDouble c s = pawnDoubleGen c s := by
  unfold pawnDouble; rw [getElem_ofFn' _ pawnDoubleArr rfl _ _ (by cases c <;> simp [Color.idx] <;> omega)]
  simp only [colorSel, sqSel]
theorem pawnCap_eq (c : Color) (s : Sq) : pawnCap c s = pawnCapGen c s := by
  unfold pawnCap; rw [getElem_ofFn' _ pawnCapArr rfl _ _ (by cases c <;> simp [Color.idx] <;> omega)]
  simp only [colorSel, sqSel]
theorem between_eq (a b : Sq) : between a b = if a.val ≤ b.val then betweenGen a b else betweenGen b a := by
  unfold between; rw [getElem_ofFn' _ betweenArr rfl _ _ (by omega)]
  have h1 : (a.val * 64 + b.val) / 64 = a.val := by omega
  have h2 : (a.val * 64 + b.val) % 64 = b.val := by omega
  have ha : (⟨(a.val * 64 + b.val) / 64, by omega⟩ : Sq) = a := Fin.ext h1
  have hb : (⟨(a.val * 64 + b.val) % 64, by omega⟩ : Sq) = b := Fin.ext h2
  simp only [h1, h2, ha, hb]

@[simp] theorem mem_ray (s d : Sq) (i : Fin 8) : mem d (ray s i) = rayCond i (offsets s d).1 (offsets s d).2 := by
  rw [ray_eq]; simp [rayGen]

end Chess
