import Chess.Spec.Rules
/-! Board symmetries of the declarative rules (property C19).

`Sym` packages a square involution `σ` together with a colour involution `κ` and the finitely many
geometric facts the rules depend on.  Two instances: `symV` (rank mirror + colour swap) and `symH`
(file mirror, colours unchanged).  Everything that does not involve castling is proved once, generically. -/
namespace Chess
open Spec

instance decAllColor {P : Color → Prop} [DecidablePred P] : Decidable (∀ c, P c) :=
  decidable_of_iff (P .white ∧ P .black)
    ⟨fun h c => by cases c; exact h.1; exact h.2, fun h => ⟨h _, h _⟩⟩

/-! ### the two square maps -/
/-- rank mirror: a1 ↔ a8 -/
def flipSq (s : Sq) : Sq := ⟨(7 - s.val/8)*8 + s.val%8, by omega⟩
/-- file mirror: a1 ↔ h1 -/
def mirSq (s : Sq) : Sq := ⟨(s.val/8)*8 + (7 - s.val%8), by omega⟩

theorem flipSq_rank (s : Sq) : (flipSq s).rank = 7 - s.rank := by
  unfold flipSq Sq.rank; simp only; omega
theorem flipSq_file (s : Sq) : (flipSq s).file = s.file := by
  unfold flipSq Sq.file; simp only; omega
theorem mirSq_rank (s : Sq) : (mirSq s).rank = s.rank := by
  unfold mirSq Sq.rank; simp only; omega
theorem mirSq_file (s : Sq) : (mirSq s).file = 7 - s.file := by
  unfold mirSq Sq.file; simp only; omega
theorem flipSq_flipSq (s : Sq) : flipSq (flipSq s) = s := by
  apply Fin.ext; unfold flipSq; simp only; omega
theorem mirSq_mirSq (s : Sq) : mirSq (mirSq s) = s := by
  apply Fin.ext; unfold mirSq; simp only; omega
theorem flipSq_inj {a b : Sq} : flipSq a = flipSq b ↔ a = b :=
  ⟨fun h => by rw [← flipSq_flipSq a, h, flipSq_flipSq], fun h => h ▸ rfl⟩
theorem mirSq_inj {a b : Sq} : mirSq a = mirSq b ↔ a = b :=
  ⟨fun h => by rw [← mirSq_mirSq a, h, mirSq_mirSq], fun h => h ▸ rfl⟩
theorem flipSq_mirSq (s : Sq) : flipSq (mirSq s) = mirSq (flipSq s) := by
  apply Fin.ext; unfold flipSq mirSq; simp only; omega

/-! ### `strictlyBetween` through its arithmetic core -/
/-- the arithmetic core of `strictlyBetween` -/
def sbCore (dr df er ef : Int) : Bool :=
  (dr == 0 || df == 0 || dr.natAbs == df.natAbs) &&
  (er * df == ef * dr) && (er * dr + ef * df > 0) && (er.natAbs + ef.natAbs < dr.natAbs + df.natAbs)
theorem strictlyBetween_eq (a c b : Sq) : strictlyBetween a c b =
    (sbCore (b.rank - a.rank) (b.file - a.file) (c.rank - a.rank) (c.file - a.file) && a != b) := by
  unfold strictlyBetween sbCore
  simp only []
  cases (a != b) <;> simp [Bool.and_assoc, Bool.and_comm]
theorem neg_beq_zero (x : Int) : (-x == 0) = (x == 0) := by
  rw [Bool.eq_iff_iff]; simp
theorem neg_beq_neg (x y : Int) : (-x == -y) = (x == y) := by
  rw [Bool.eq_iff_iff]; simp
theorem sbCore_negR (dr df er ef : Int) : sbCore (-dr) df (-er) ef = sbCore dr df er ef := by
  unfold sbCore
  simp [Int.neg_mul, Int.mul_neg, Int.natAbs_neg, neg_beq_zero, neg_beq_neg]
theorem sbCore_negF (dr df er ef : Int) : sbCore dr (-df) er (-ef) = sbCore dr df er ef := by
  unfold sbCore
  simp [Int.neg_mul, Int.mul_neg, Int.natAbs_neg, neg_beq_zero, neg_beq_neg]

theorem strictlyBetween_flipSq (a c b : Sq) :
    strictlyBetween (flipSq a) (flipSq c) (flipSq b) = strictlyBetween a c b := by
  rw [strictlyBetween_eq, strictlyBetween_eq]
  simp only [flipSq_rank, flipSq_file]
  rw [show (7 - b.rank - (7 - a.rank) : Int) = -(b.rank - a.rank) by omega,
      show (7 - c.rank - (7 - a.rank) : Int) = -(c.rank - a.rank) by omega, sbCore_negR]
  congr 1
  rw [Bool.eq_iff_iff]; simp [flipSq_inj]
theorem strictlyBetween_mirSq (a c b : Sq) :
    strictlyBetween (mirSq a) (mirSq c) (mirSq b) = strictlyBetween a c b := by
  rw [strictlyBetween_eq, strictlyBetween_eq]
  simp only [mirSq_rank, mirSq_file]
  rw [show (7 - b.file - (7 - a.file) : Int) = -(b.file - a.file) by omega,
      show (7 - c.file - (7 - a.file) : Int) = -(c.file - a.file) by omega, sbCore_negF]
  congr 1
  rw [Bool.eq_iff_iff]; simp [mirSq_inj]

/-! ### the abstract symmetry -/
def mapPiece (κ : Color → Color) (q : Piece) : Piece := ⟨q.pt, κ q.c⟩

/-- A board symmetry: square involution `σ`, colour involution `κ`, and the geometric facts used by the rules. -/
structure Sym where
  σ : Sq → Sq
  κ : Color → Color
  σσ : ∀ s, σ (σ s) = s
  κκ : ∀ c, κ (κ c) = c
  κ_other : ∀ c, κ c.other = (κ c).other
  sb : ∀ a c b, strictlyBetween (σ a) (σ c) (σ b) = strictlyBetween a c b
  orth : ∀ a b, orthogonal (σ a) (σ b) = orthogonal a b
  diag : ∀ a b, diagonal (σ a) (σ b) = diagonal a b
  dr_abs : ∀ a t : Sq, ((σ t).rank - (σ a).rank).natAbs = (t.rank - a.rank).natAbs
  df_abs : ∀ a t : Sq, ((σ t).file - (σ a).file).natAbs = (t.file - a.file).natAbs
  df_zero : ∀ a t : Sq, ((σ t).file - (σ a).file == 0) = (t.file - a.file == 0)
  dr_fwd : ∀ (a t : Sq) (c : Color), ((σ t).rank - (σ a).rank == fwd (κ c)) = (t.rank - a.rank == fwd c)
  dr_fwd2 : ∀ (a t : Sq) (c : Color), ((σ t).rank - (σ a).rank == 2 * fwd (κ c)) = (t.rank - a.rank == 2 * fwd c)
  pawnRk : ∀ (s : Sq) (c : Color), ((σ s).rank == pawnRank (κ c)) = (s.rank == pawnRank c)
  lastRk : ∀ (s : Sq) (c : Color), ((σ s).rank == lastRank (κ c)) = (s.rank == lastRank c)
  mk_fwd : ∀ (s : Sq) (c : Color),
    mkSq? ((σ s).rank + fwd (κ c)) (σ s).file = (mkSq? (s.rank + fwd c) s.file).map σ
  mk_back : ∀ (s : Sq) (c : Color),
    mkSq? ((σ s).rank - fwd (κ c)) (σ s).file = (mkSq? (s.rank - fwd c) s.file).map σ
  mk_mid : ∀ (a b : Sq), (b.rank - a.rank).natAbs = 2 →
    mkSq? (((σ a).rank + (σ b).rank) / 2) (σ b).file = (mkSq? ((a.rank + b.rank) / 2) b.file).map σ

/-- rank mirror with colour swap -/
def symV : Sym where
  σ := flipSq
  κ := Color.other
  σσ := flipSq_flipSq
  κκ := Color.other_other
  κ_other := fun _ => rfl
  sb := strictlyBetween_flipSq
  orth := by decide +kernel
  diag := by decide +kernel
  dr_abs := by decide +kernel
  df_abs := by decide +kernel
  df_zero := by decide +kernel
  dr_fwd := by decide +kernel
  dr_fwd2 := by decide +kernel
  pawnRk := by decide +kernel
  lastRk := by decide +kernel
  mk_fwd := by decide +kernel
  mk_back := by decide +kernel
  mk_mid := by decide +kernel

/-- file mirror, colours unchanged -/
def symH : Sym where
  σ := mirSq
  κ := id
  σσ := mirSq_mirSq
  κκ := fun _ => rfl
  κ_other := fun _ => rfl
  sb := strictlyBetween_mirSq
  orth := by decide +kernel
  diag := by decide +kernel
  dr_abs := by decide +kernel
  df_abs := by decide +kernel
  df_zero := by decide +kernel
  dr_fwd := by decide +kernel
  dr_fwd2 := by decide +kernel
  pawnRk := by decide +kernel
  lastRk := by decide +kernel
  mk_fwd := by decide +kernel
  mk_back := by decide +kernel
  mk_mid := by decide +kernel

end Chess
