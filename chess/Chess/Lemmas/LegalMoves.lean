import Chess.Spec.Rules
/-! Facts read off `Spec.pseudo`, and the characterisation of an empty `Spec.legalMoves` list:
`legalMoves p` is empty iff no move at all is legal (the candidate list contains every legal move). -/
namespace Chess
open Spec
namespace LM

/-! ### facts read off `pseudo` -/
theorem pseudo_src {p : Pos} {pt : PT} {src dst : Sq} {promo : Option PT}
    (h : pseudo p pt src dst promo = true) : p.board src = some ⟨pt, p.stm⟩ := by
  unfold pseudo at h
  simp only [Bool.and_eq_true, beq_iff_eq] at h
  exact h.1.1
theorem pseudo_promo {p : Pos} {pt : PT} {src dst : Sq} {promo : Option PT}
    (h : pseudo p pt src dst promo = true) :
    (pt ≠ .pawn → promo = none) ∧
    (promo = none ∨ promo = some .knight ∨ promo = some .bishop ∨ promo = some .rook ∨ promo = some .queen) := by
  unfold pseudo at h
  simp only [Bool.and_eq_true] at h
  have h3 := h.2
  cases pt <;> simp only [Bool.and_eq_true, beq_iff_eq] at h3
  · refine ⟨fun h => absurd rfl h, ?_⟩
    have := h3.2
    split at this
    · simp only [Bool.or_eq_true, beq_iff_eq] at this
      rcases this with ((h | h) | h) | h <;> simp [h]
    · simp only [beq_iff_eq] at this; exact Or.inl this
  all_goals exact ⟨fun _ => h3.2, Or.inl h3.2⟩
theorem pseudo_moved_king {p : Pos} {pt : PT} {src dst : Sq} {promo : Option PT}
    (h : pseudo p pt src dst promo = true) (hk : promo.getD pt = .king) : pt = .king := by
  obtain ⟨h1, h2⟩ := pseudo_promo h
  cases pt
  · rcases h2 with h | h | h | h | h <;> simp [h] at hk
  all_goals first | rfl | (rw [h1 (by simp)] at hk; simp at hk)

theorem mem_forIn_mono {α γ : Type} (l : List α) (f : α → List γ → Id (ForInStep (List γ))) (x : γ)
    (hmono : ∀ a b, ∃ b', f a b = pure (ForInStep.yield b') ∧ ∀ y, y ∈ b → y ∈ b') :
    ∀ init, x ∈ init → x ∈ Id.run (forIn l init f) := by
  induction l with
  | nil => intro init h; simpa using h
  | cons a l ih =>
    intro init h
    obtain ⟨b', hb, hm⟩ := hmono a init
    rw [List.forIn_cons, hb]
    simp only [pure_bind]
    exact ih _ (hm _ h)

theorem mem_forIn_hit {α γ : Type} (l : List α) (f : α → List γ → Id (ForInStep (List γ))) (x : γ)
    (hmono : ∀ a b, ∃ b', f a b = pure (ForInStep.yield b') ∧ ∀ y, y ∈ b → y ∈ b')
    (a : α) (ha : a ∈ l) (hit : ∀ b, ∃ b', f a b = pure (ForInStep.yield b') ∧ x ∈ b') :
    ∀ init, x ∈ Id.run (forIn l init f) := by
  induction l with
  | nil => cases ha
  | cons a' l ih =>
    intro init
    rw [List.forIn_cons]
    rcases List.mem_cons.mp ha with rfl | ha'
    · obtain ⟨b', hb, hx⟩ := hit init
      rw [hb]; simp only [pure_bind]
      exact mem_forIn_mono l f x hmono _ hx
    · obtain ⟨b', hb, -⟩ := hmono a' init
      rw [hb]; simp only [pure_bind]
      exact ih ha' _


def f3 (pt : PT) (src dst : Sq) : Option PT → List Move → Id (ForInStep (List Move)) :=
  fun pr s => pure (ForInStep.yield (Move.piece pt src dst pr :: s))
def f2 (pt : PT) (src : Sq) : Sq → List Move → Id (ForInStep (List Move)) :=
  fun dst s => pure (ForInStep.yield (Id.run (forIn promos s (f3 pt src dst))))
def f1 (p : Pos) : Sq → List Move → Id (ForInStep (List Move)) :=
  fun src s => match p.board src with
    | some q => if (q.c == p.stm) = true then pure (ForInStep.yield (Id.run (forIn allSq s (f2 q.pt src)))) else pure (ForInStep.yield s)
    | none => pure (ForInStep.yield s)

theorem f3_mono (pt src dst) : ∀ a b, ∃ b', f3 pt src dst a b = pure (ForInStep.yield b') ∧ ∀ y, y ∈ b → y ∈ b' :=
  fun a b => ⟨_, rfl, fun y hy => List.mem_cons_of_mem _ hy⟩
theorem f2_mono (pt src) : ∀ a b, ∃ b', f2 pt src a b = pure (ForInStep.yield b') ∧ ∀ y, y ∈ b → y ∈ b' :=
  fun a b => ⟨_, rfl, fun y hy => mem_forIn_mono _ _ y (f3_mono pt src a) _ hy⟩
theorem f1_mono (p) : ∀ a b, ∃ b', f1 p a b = pure (ForInStep.yield b') ∧ ∀ y, y ∈ b → y ∈ b' := by
  intro a b
  unfold f1
  cases p.board a with
  | none => exact ⟨_, rfl, fun y hy => hy⟩
  | some q =>
    by_cases hq : (q.c == p.stm) = true
    · simp only [if_pos hq]
      exact ⟨_, rfl, fun y hy => mem_forIn_mono _ _ y (f2_mono q.pt a) _ hy⟩
    · simp only [if_neg hq]
      exact ⟨_, rfl, fun y hy => hy⟩

theorem mem_cands {p : Pos} {pt : PT} {src dst : Sq} {promo : Option PT}
    (hs : p.board src = some ⟨pt, p.stm⟩) (hp : promo ∈ promos) :
    Move.piece pt src dst promo ∈ Id.run (forIn allSq [] (f1 p)) := by
  apply mem_forIn_hit _ _ _ (f1_mono p) src (by simp [allSq])
  intro b
  refine ⟨Id.run (forIn allSq b (f2 pt src)), ?_, ?_⟩
  · unfold f1; rw [hs]; simp
  · apply mem_forIn_hit _ _ _ (f2_mono pt src) dst (by simp [allSq])
    intro b2
    refine ⟨_, rfl, ?_⟩
    apply mem_forIn_hit _ _ _ (f3_mono pt src dst) promo hp
    intro b3
    exact ⟨_, rfl, List.mem_cons_self⟩

theorem mem_legalMoves_of_legal {p : Pos} {m : Move} (h : legal p m = true) : m ∈ legalMoves p := by
  unfold legalMoves
  rw [List.mem_filter]
  refine ⟨?_, h⟩
  simp only [Id.run, bind, pure]
  cases m with
  | castle s => cases s <;> simp
  | piece pt src dst promo =>
    apply List.mem_cons_of_mem; apply List.mem_cons_of_mem
    have hp : pseudo p pt src dst promo = true := by
      simp only [legal, Bool.and_eq_true] at h; exact h.1
    have hpr : promo ∈ promos := by
      rcases (pseudo_promo hp).2 with h | h | h | h | h <;> simp [h, promos]
    exact mem_cands (pseudo_src hp) hpr

end LM

/-- every legal move is listed, hence: the list is empty iff no move whatsoever is legal -/
theorem legalMoves_isEmpty_iff (p : Pos) : (legalMoves p).isEmpty = true ↔ ∀ m, legal p m = false := by
  rw [List.isEmpty_iff]
  constructor
  · intro h m
    cases hm : legal p m with
    | false => rfl
    | true => have := LM.mem_legalMoves_of_legal hm; rw [h] at this; cases this
  · intro h
    unfold legalMoves
    rw [List.filter_eq_nil_iff]
    intro m _; simp [h m]

theorem mem_legalMoves_iff (p : Pos) (m : Move) : m ∈ legalMoves p ↔ legal p m = true :=
  ⟨fun h => by unfold legalMoves at h; exact (List.mem_filter.mp h).2, LM.mem_legalMoves_of_legal⟩

end Chess
