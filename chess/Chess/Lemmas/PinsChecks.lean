import Chess.Lemmas.BB
import Chess.Model.Board
/-! Structure of `get_pins_and_checks` (the attacker loop), for arbitrary table contents, and the
geometry-free soundness of the legal-move shortcut (`pin_lemma`). -/
namespace Chess

theorem loopStep_zero (b : Board) (sq a : Sq) (acc : BB × BB)
    (h : popcount (Board.betweenOcc b sq a) = 0) : Board.loopStep b sq acc a = (acc.1, acc.2 ||| bbOf a) := by
  simp [Board.loopStep, h]
theorem loopStep_one (b : Board) (sq a : Sq) (acc : BB × BB)
    (h : popcount (Board.betweenOcc b sq a) = 1) : Board.loopStep b sq acc a = (acc.1 ||| Board.betweenOcc b sq a, acc.2) := by
  simp [Board.loopStep, h]
theorem loopStep_many (b : Board) (sq a : Sq) (acc : BB × BB)
    (h : 2 ≤ popcount (Board.betweenOcc b sq a)) : Board.loopStep b sq acc a = acc := by
  simp only [Board.loopStep]
  split
  · omega
  · omega
  · rfl

theorem loop_spec (b : Board) (sq : Sq) (l : List Sq) (acc : BB × BB) :
    (∀ x, mem x (l.foldl (Board.loopStep b sq) acc).2 = true ↔
        (mem x acc.2 = true ∨ ∃ a ∈ l, x = a ∧ Board.betweenOcc b sq a = 0#64)) ∧
    (∀ x, mem x (l.foldl (Board.loopStep b sq) acc).1 = true ↔
        (mem x acc.1 = true ∨ ∃ a ∈ l, popcount (Board.betweenOcc b sq a) = 1 ∧ mem x (Board.betweenOcc b sq a) = true)) := by
  induction l generalizing acc with
  | nil => simp
  | cons a l ih =>
    simp only [List.foldl_cons]
    obtain ⟨h2, h1⟩ := ih (Board.loopStep b sq acc a)
    have hz_iff := popcount_zero (Board.betweenOcc b sq a)
    rcases Nat.lt_or_ge (popcount (Board.betweenOcc b sq a)) 1 with hp | hp
    · -- popcount = 0
      have hp0 : popcount (Board.betweenOcc b sq a) = 0 := by omega
      have hz := hz_iff.1 hp0
      rw [loopStep_zero b sq a acc hp0] at h1 h2 ⊢
      constructor
      · intro x; rw [h2 x]
        simp only [mem_or, mem_bbOf, Bool.or_eq_true, decide_eq_true_eq, List.mem_cons, exists_eq_or_imp]
        constructor
        · rintro ((h | h) | h)
          · exact Or.inl h
          · exact Or.inr (Or.inl ⟨h, hz⟩)
          · exact Or.inr (Or.inr h)
        · rintro (h | ⟨h, _⟩ | h)
          · exact Or.inl (Or.inl h)
          · exact Or.inl (Or.inr h)
          · exact Or.inr h
      · intro x; rw [h1 x]
        simp only [List.mem_cons, exists_eq_or_imp]
        constructor
        · rintro (h | h)
          · exact Or.inl h
          · exact Or.inr (Or.inr h)
        · rintro (h | ⟨h, _⟩ | h)
          · exact Or.inl h
          · omega
          · exact Or.inr h
    · have hnz : Board.betweenOcc b sq a ≠ 0#64 := fun e => by have := hz_iff.2 e; omega
      rcases Nat.lt_or_ge (popcount (Board.betweenOcc b sq a)) 2 with hq | hq
      · have hp1 : popcount (Board.betweenOcc b sq a) = 1 := by omega
        rw [loopStep_one b sq a acc hp1] at h1 h2 ⊢
        constructor
        · intro x; rw [h2 x]
          simp only [List.mem_cons, exists_eq_or_imp]
          constructor
          · rintro (h | h)
            · exact Or.inl h
            · exact Or.inr (Or.inr h)
          · rintro (h | ⟨_, h⟩ | h)
            · exact Or.inl h
            · exact absurd h hnz
            · exact Or.inr h
        · intro x; rw [h1 x]
          simp only [mem_or, Bool.or_eq_true, List.mem_cons, exists_eq_or_imp]
          constructor
          · rintro ((h | h) | h)
            · exact Or.inl h
            · exact Or.inr (Or.inl ⟨hp1, h⟩)
            · exact Or.inr (Or.inr h)
          · rintro (h | ⟨_, h⟩ | h)
            · exact Or.inl (Or.inl h)
            · exact Or.inl (Or.inr h)
            · exact Or.inr h
      · rw [loopStep_many b sq a acc hq] at h1 h2 ⊢
        constructor
        · intro x; rw [h2 x]
          simp only [List.mem_cons, exists_eq_or_imp]
          constructor
          · rintro (h | h)
            · exact Or.inl h
            · exact Or.inr (Or.inr h)
          · rintro (h | ⟨_, h⟩ | h)
            · exact Or.inl h
            · exact absurd h hnz
            · exact Or.inr h
        · intro x; rw [h1 x]
          simp only [List.mem_cons, exists_eq_or_imp]
          constructor
          · rintro (h | h)
            · exact Or.inl h
            · exact Or.inr (Or.inr h)
          · rintro (h | ⟨h, _⟩ | h)
            · exact Or.inl h
            · omega
            · exact Or.inr h

theorem checks_iff (b : Board) (sq x : Sq) :
    mem x (Board.pinsAndChecks b sq).2 = true ↔
      ((mem x (Board.attackersOf b sq) = true ∧ Board.betweenOcc b sq x = 0#64) ∨ mem x (Board.nonSliderChecks b sq) = true) := by
  have := (loop_spec b sq (toList (Board.attackersOf b sq)) (0#64, 0#64)).1 x
  simp only [Board.pinsAndChecks, mem_or, Bool.or_eq_true, this, mem_zero, Bool.false_eq_true, false_or, mem_toList]
  constructor
  · rintro (⟨a, ha, rfl, hz⟩ | h)
    · exact Or.inl ⟨ha, hz⟩
    · exact Or.inr h
  · rintro (⟨ha, hz⟩ | h)
    · exact Or.inl ⟨x, ha, rfl, hz⟩
    · exact Or.inr h

theorem pinned_iff (b : Board) (sq x : Sq) :
    mem x (Board.pinsAndChecks b sq).1 = true ↔
      (mem x (b.colors b.stm) = true ∧ ∃ a, mem a (Board.attackersOf b sq) = true ∧
          popcount (Board.betweenOcc b sq a) = 1 ∧ mem x (Board.betweenOcc b sq a) = true) := by
  have := (loop_spec b sq (toList (Board.attackersOf b sq)) (0#64, 0#64)).2 x
  simp only [Board.pinsAndChecks, mem_and, Bool.and_eq_true, this, mem_zero, Bool.false_eq_true, false_or, mem_toList]
  exact And.comm


/-- Geometry-free heart of the legal-move shortcut: if the king on `k` is not in check,
the moved man on `s` is an own man that is not counted as pinned, and the move only vacates `s`
and (re)occupies `d` with an own man, then the king is not in check afterwards.
Tables are arbitrary. -/
theorem pin_lemma (b b' : Board) (k s d : Sq)
    (hstm : b'.stm = b.stm)
    (hs_own : mem s (b.colors b.stm) = true)
    (hdisj : ∀ x, mem x (b.colors b.stm) = true → mem x (b.colors b.stm.other) = false)
    (hpieces : ∀ t x, x ≠ s → x ≠ d → mem x (b'.pieces t) = mem x (b.pieces t))
    (henemy : ∀ x, mem x (b'.colors b.stm.other) = (mem x (b.colors b.stm.other) && decide (x ≠ d)))
    (hcomb : ∀ x, mem x b'.combined = ((mem x b.combined && decide (x ≠ s)) || decide (x = d)))
    (hnocheck : (Board.pinsAndChecks b k).2 = 0#64)
    (hnotpinned : mem s (Board.pinsAndChecks b k).1 = false) :
    (Board.pinsAndChecks b' k).2 = 0#64 := by
  rw [eq_zero_iff]
  intro x
  cases hx : mem x (Board.pinsAndChecks b' k).2 with
  | false => rfl
  | true =>
    exfalso
    rw [eq_zero_iff] at hnocheck
    have hno := hnocheck x
    rw [checks_iff] at hx
    -- facts about x common to both branches
    have key : mem x (b'.colors b'.stm.other) = true →
        mem x (b.colors b.stm.other) = true ∧ x ≠ d ∧ x ≠ s := by
      intro h
      rw [hstm, henemy x] at h
      simp only [Bool.and_eq_true, decide_eq_true_eq] at h
      refine ⟨h.1, h.2, ?_⟩
      rintro rfl
      have := hdisj x hs_own
      simp [this] at h
    rcases hx with ⟨hatt, hbt⟩ | hns
    · -- slider
      have hatt' := hatt
      simp only [Board.attackersOf, mem_and, mem_or, Bool.and_eq_true, Bool.or_eq_true] at hatt'
      obtain ⟨hen, hline⟩ := hatt'
      obtain ⟨hxe, hxd, hxs⟩ := key hen
      have hattb : mem x (Board.attackersOf b k) = true := by
        simp only [Board.attackersOf, mem_and, mem_or, Bool.and_eq_true, Bool.or_eq_true]
        refine ⟨hxe, ?_⟩
        simpa [hpieces _ x hxs hxd] using hline
      -- every occupied between-square in b is s
      have hall : ∀ y, mem y (Board.betweenOcc b k x) = true → y = s := by
        intro y hy
        apply Classical.byContradiction
        intro hys
        have hy' : mem y (Board.betweenOcc b' k x) = true := by
          simp only [Board.betweenOcc, mem_and, Bool.and_eq_true] at hy ⊢
          refine ⟨?_, hy.2⟩
          rw [hcomb y]; simp [hy.1, hys]
        rw [hbt] at hy'; simp at hy'
      have hne : Board.betweenOcc b k x ≠ 0#64 := by
        intro hz
        have : mem x (Board.pinsAndChecks b k).2 = true := (checks_iff b k x).2 (Or.inl ⟨hattb, hz⟩)
        rw [hno] at this; exact Bool.noConfusion this
      -- hence s is in it
      have hsin : mem s (Board.betweenOcc b k x) = true := by
        apply Classical.byContradiction
        intro hns
        apply hne
        rw [eq_zero_iff]
        intro y
        cases hy : mem y (Board.betweenOcc b k x) with
        | false => rfl
        | true => have := hall y hy; subst this; exact absurd hy hns
      have hp1 : popcount (Board.betweenOcc b k x) = 1 := (popcount_one _).2 ⟨s, hsin, hall⟩
      have : mem s (Board.pinsAndChecks b k).1 = true :=
        (pinned_iff b k s).2 ⟨hs_own, x, hattb, hp1, hsin⟩
      rw [hnotpinned] at this; exact Bool.noConfusion this
    · -- knight / king / pawn attacker: it attacked before as well
      have hns' := hns
      simp only [Board.nonSliderChecks, mem_and, mem_or, Bool.and_eq_true, Bool.or_eq_true] at hns'
      obtain ⟨hen, hk⟩ := hns'
      obtain ⟨hxe, hxd, hxs⟩ := key hen
      have : mem x (Board.nonSliderChecks b k) = true := by
        simp only [Board.nonSliderChecks, mem_and, mem_or, Bool.and_eq_true, Bool.or_eq_true]
        refine ⟨hxe, ?_⟩
        rw [hstm] at hk
        simpa [hpieces _ x hxs hxd] using hk
      have : mem x (Board.pinsAndChecks b k).2 = true := (checks_iff b k x).2 (Or.inr this)
      rw [hno] at this; exact Bool.noConfusion this


end Chess
