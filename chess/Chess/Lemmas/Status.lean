import Chess.Props.C05
/-! # Status (C04): counting men with `popcount`, the insufficient-material test, `getStatus`

* `popcount_eq_countP`, `Rep.popcount_colors`, `Rep.minor_iff`: what the mask arithmetic of
  `is_theoretical_draw_on_board` counts, in terms of the placement.
* `isTheoreticalDraw_spec`: with exactly one king per side the mask test is the specification's
  "each side has only a king, or a king and a single bishop or knight"; the `unreachable!()` arms are dead
  (`panicsTheoreticalDraw_false`).
* `getStatus_spec`: `get_status` is `Spec.status`, given that the terminal flag is exact. -/
namespace Chess
open Board

/-! ### counting -/

/-- the man of colour `c` on square `s`, if any (the `filterMap` function of `Spec.menOf`) -/
def manAt (f : Sq → Option Piece) (c : Color) (s : Sq) : Option Piece :=
  match f s with | some q => if q.c == c then some q else none | none => none

theorem menOf_eq (f : Sq → Option Piece) (c : Color) : Spec.menOf f c = allSq.filterMap (manAt f c) := rfl

theorem manAt_eq_some {f : Sq → Option Piece} {c : Color} {s : Sq} {q : Piece} :
    manAt f c s = some q ↔ f s = some q ∧ q.c = c := by
  unfold manAt
  cases hf : f s with
  | none => simp
  | some p =>
    by_cases hc : p.c = c
    · simp only [hc, beq_self_eq_true, if_true, Option.some.injEq]
      constructor
      · rintro rfl; exact ⟨rfl, hc⟩
      · rintro ⟨rfl, _⟩; rfl
    · have : (p.c == c) = false := by simpa using hc
      simp only [this, Bool.false_eq_true, if_false, Option.some.injEq]
      constructor
      · intro h; cases h
      · rintro ⟨rfl, h⟩; exact absurd h hc

theorem mem_menOf {f : Sq → Option Piece} {c : Color} {q : Piece} :
    q ∈ Spec.menOf f c ↔ (∃ s, f s = some q) ∧ q.c = c := by
  rw [menOf_eq, List.mem_filterMap]
  constructor
  · rintro ⟨s, _, hs⟩
    have := manAt_eq_some.1 hs
    exact ⟨⟨s, this.1⟩, this.2⟩
  · rintro ⟨⟨s, hs⟩, hc⟩
    exact ⟨s, List.mem_finRange s, manAt_eq_some.2 ⟨hs, hc⟩⟩

/-- `count_ones` counts the members -/
theorem popcount_eq_countP (m : BB) : popcount m = allSq.countP (mem · m) := by
  unfold popcount
  rw [toList_spec, List.countP_eq_length_filter]

theorem Rep.mem_colors {b : Board} {f} (h : Rep b f) (c : Color) (s : Sq) :
    mem s (b.colors c) = (manAt f c s).isSome := by
  rw [h.cls]; unfold manAt
  cases f s with
  | none => rfl
  | some q => cases hq : (q.c == c) <;> simp [hq]

/-- the colour mask has as many members as the side has men -/
theorem Rep.popcount_colors {b : Board} {f} (h : Rep b f) (c : Color) :
    popcount (b.colors c) = (Spec.menOf f c).length := by
  rw [popcount_eq_countP, menOf_eq, List.length_filterMap_eq_countP]
  apply List.countP_congr
  intro s _
  rw [h.mem_colors]

/-- the "has a knight or bishop" mask test -/
theorem Rep.minor_iff {b : Board} {f} (h : Rep b f) (c : Color) :
    (!isBlank (b.colors c &&& (b.pieces .knight ||| b.pieces .bishop))) = true ↔
      ∃ s, f s = some ⟨.knight, c⟩ ∨ f s = some ⟨.bishop, c⟩ := by
  rw [Bool.not_eq_true', ← Bool.not_eq_true, isBlank_iff, ← Ne, ne_zero_iff]
  constructor
  · rintro ⟨s, hs⟩
    refine ⟨s, ?_⟩
    simp only [mem_and, mem_or, h.cls, h.pcs] at hs
    cases hf : f s with
    | none => simp [hf] at hs
    | some q =>
      obtain ⟨t, d⟩ := q
      simp only [hf, Bool.and_eq_true, Bool.or_eq_true, beq_iff_eq] at hs
      obtain ⟨rfl, rfl | rfl⟩ := hs
      · exact Or.inl rfl
      · exact Or.inr rfl
  · rintro ⟨s, hs | hs⟩ <;> exact ⟨s, by simp [mem_and, mem_or, h.cls, h.pcs, hs]⟩

/-! ### kings and non-kings -/

theorem nonKing_add_king (f : Sq → Option Piece) (c : Color) (l : List Sq) :
    ((l.filterMap (manAt f c)).filter (fun q => q.pt != .king)).length
      + l.countP (fun s => f s == some ⟨.king, c⟩) = (l.filterMap (manAt f c)).length := by
  induction l with
  | nil => rfl
  | cons x xs ih =>
    cases hm : manAt f c x with
    | none =>
      have hx : (f x == some (⟨.king, c⟩ : Piece)) = false := by
        cases hb : (f x == some (⟨.king, c⟩ : Piece)) with
        | false => rfl
        | true =>
          have : manAt f c x = some ⟨.king, c⟩ := manAt_eq_some.2 ⟨by simpa using hb, rfl⟩
          rw [hm] at this; cases this
      rw [List.filterMap_cons_none hm, List.countP_cons_of_neg (by simp [hx])]
      exact ih
    | some q =>
      rw [List.filterMap_cons_some hm]
      obtain ⟨hq, hc⟩ := manAt_eq_some.1 hm
      by_cases hk : q.pt = .king
      · have hq' : q = ⟨.king, c⟩ := by cases q; simp_all
        have h1 : (f x == some (⟨.king, c⟩ : Piece)) = true := by simp [hq, hq']
        simp only [List.filter_cons, List.countP_cons, List.length_cons, h1, hk, bne_self_eq_false,
          if_true, Bool.false_eq_true, if_false]
        omega
      · have h1 : (f x == some (⟨.king, c⟩ : Piece)) = false := by
          rw [beq_eq_false_iff_ne, hq]
          intro e; cases e; exact hk rfl
        have h2 : (q.pt != .king) = true := by simpa using hk
        simp only [List.filter_cons, List.countP_cons, List.length_cons, h1, h2, if_true,
          Bool.false_eq_true, if_false]
        omega

/-- with exactly one king, the non-king men are all men but one -/
theorem nonKing_length {f : Sq → Option Piece} {c : Color} (hk : Spec.countPiece f ⟨.king, c⟩ = 1) :
    ((Spec.menOf f c).filter (fun q => q.pt != .king)).length + 1 = (Spec.menOf f c).length := by
  have := nonKing_add_king f c allSq
  rw [← menOf_eq] at this
  unfold Spec.countPiece at hk
  rw [hk] at this
  exact this

theorem cannotMate_of_one {f : Sq → Option Piece} {c : Color} (hk : Spec.countPiece f ⟨.king, c⟩ = 1)
    (hn : (Spec.menOf f c).length = 1) : Spec.cannotMate f c = true := by
  have h := nonKing_length hk
  have h0 : (Spec.menOf f c).filter (fun q => q.pt != .king) = [] := by
    apply List.eq_nil_of_length_eq_zero; omega
  simp only [Spec.cannotMate, h0]

theorem cannotMate_of_ge_three {f : Sq → Option Piece} {c : Color} (hk : Spec.countPiece f ⟨.king, c⟩ = 1)
    (hn : (Spec.menOf f c).length ≥ 3) : Spec.cannotMate f c = false := by
  have h := nonKing_length hk
  match h0 : (Spec.menOf f c).filter (fun q => q.pt != .king) with
  | [] => rw [h0] at h; simp at h; omega
  | [_] => rw [h0] at h; simp at h; omega
  | x :: y :: r => simp only [Spec.cannotMate, h0]

theorem cannotMate_of_two {f : Sq → Option Piece} {c : Color} (hk : Spec.countPiece f ⟨.king, c⟩ = 1)
    (hn : (Spec.menOf f c).length = 2) :
    Spec.cannotMate f c = true ↔ ∃ s, f s = some ⟨.knight, c⟩ ∨ f s = some ⟨.bishop, c⟩ := by
  have h := nonKing_length hk
  have h1 : ((Spec.menOf f c).filter (fun q => q.pt != .king)).length = 1 := by omega
  obtain ⟨q, hq⟩ := List.length_eq_one_iff.1 h1
  have hmem : ∀ p : Piece, p ∈ [q] ↔ ((∃ s, f s = some p) ∧ p.c = c) ∧ p.pt ≠ .king := by
    intro p; rw [← hq, List.mem_filter, mem_menOf]; simp
  simp only [Spec.cannotMate, hq, Bool.or_eq_true, beq_iff_eq]
  constructor
  · intro hpt
    obtain ⟨⟨⟨s, hs⟩, hc⟩, _⟩ := (hmem q).1 (List.mem_singleton.2 rfl)
    refine ⟨s, ?_⟩
    obtain ⟨t, d⟩ := q
    simp only at hpt hc
    subst hc
    rcases hpt with rfl | rfl
    · exact Or.inr hs
    · exact Or.inl hs
  · rintro ⟨s, hs | hs⟩
    · have := (hmem ⟨.knight, c⟩).2 ⟨⟨⟨s, hs⟩, rfl⟩, by simp⟩
      rw [List.mem_singleton] at this; subst this; exact Or.inr rfl
    · have := (hmem ⟨.bishop, c⟩).2 ⟨⟨⟨s, hs⟩, rfl⟩, by simp⟩
      rw [List.mem_singleton] at this; subst this; exact Or.inl rfl

/-- a side with a king has at least one man -/
theorem Rep.popcount_colors_pos {b : Board} {f} (h : Rep b f) {c : Color}
    (hk : Spec.countPiece f ⟨.king, c⟩ = 1) : popcount (b.colors c) ≥ 1 := by
  rw [h.popcount_colors]; have := nonKing_length hk; omega

/-- the three cases of one side's arm in `is_theoretical_draw_on_board` -/
theorem Rep.cannotMate_cases {b : Board} {f} (h : Rep b f) {c : Color}
    (hk : Spec.countPiece f ⟨.king, c⟩ = 1) :
    (popcount (b.colors c) = 1 ∧ Spec.cannotMate f c = true) ∨
    (popcount (b.colors c) = 2 ∧
      Spec.cannotMate f c = !isBlank (b.colors c &&& (b.pieces .knight ||| b.pieces .bishop))) ∨
    (popcount (b.colors c) > 2 ∧ Spec.cannotMate f c = false) := by
  have hpos := h.popcount_colors_pos hk
  have hn := h.popcount_colors c
  by_cases h1 : popcount (b.colors c) = 1
  · exact Or.inl ⟨h1, cannotMate_of_one hk (by omega)⟩
  by_cases h2 : popcount (b.colors c) = 2
  · refine Or.inr (Or.inl ⟨h2, ?_⟩)
    rw [Bool.eq_iff_iff, cannotMate_of_two hk (by omega), h.minor_iff]
  · exact Or.inr (Or.inr ⟨by omega, cannotMate_of_ge_three hk (by omega)⟩)

/-! ### `is_theoretical_draw_on_board` -/

theorem isTheoreticalDraw_spec {b : Board} {f} (h : Rep b f)
    (hkw : Spec.countPiece f ⟨.king, .white⟩ = 1) (hkb : Spec.countPiece f ⟨.king, .black⟩ = 1) :
    b.isTheoreticalDraw = (Spec.cannotMate f .white && Spec.cannotMate f .black) := by
  simp only [isTheoreticalDraw]
  rcases h.cannotMate_cases hkw with ⟨hw, cw⟩ | ⟨hw, cw⟩ | ⟨hw, cw⟩ <;>
  rcases h.cannotMate_cases hkb with ⟨hb, cb⟩ | ⟨hb, cb⟩ | ⟨hb, cb⟩ <;>
  rw [cw, cb] <;> simp [hw, hb]

/-- the two `unreachable!()` arms of `is_theoretical_draw_on_board` (a side without men) are dead -/
theorem panicsTheoreticalDraw_false {b : Board} {f} (h : Rep b f)
    (hkw : Spec.countPiece f ⟨.king, .white⟩ = 1) (hkb : Spec.countPiece f ⟨.king, .black⟩ = 1) :
    b.panicsTheoreticalDraw = false := by
  have hw := h.popcount_colors_pos hkw
  have hb := h.popcount_colors_pos hkb
  simp only [panicsTheoreticalDraw]
  have e1 : (popcount (b.colors .white) == 0) = false := by simp; omega
  have e2 : (popcount (b.colors .black) == 0) = false := by simp; omega
  rw [e1, e2]; simp

/-! non-vacuity: the hypotheses of `isTheoreticalDraw_spec` hold of the board with just the two kings on e1, e8 -/
example (K : Keys) : ∃ (b : Board) (f : Sq → Option Piece), Rep b f ∧
    Spec.countPiece f ⟨.king, .white⟩ = 1 ∧ Spec.countPiece f ⟨.king, .black⟩ = 1 ∧ b.isTheoreticalDraw = true := by
  have h0 : Rep Board.new (fun _ => none) :=
    ⟨fun _ _ => by simp [Board.new], fun _ _ => by simp [Board.new], fun _ => by simp [Board.new]⟩
  have h2 := ((h0.putPiece K ⟨.king, .white⟩ 4).putPiece K ⟨.king, .black⟩ 60)
  have hkw : Spec.countPiece (Spec.upd (Spec.upd (fun _ => none) 4 (some ⟨.king, .white⟩)) 60 (some ⟨.king, .black⟩))
      ⟨.king, .white⟩ = 1 := by decide +kernel
  have hkb : Spec.countPiece (Spec.upd (Spec.upd (fun _ => none) 4 (some ⟨.king, .white⟩)) 60 (some ⟨.king, .black⟩))
      ⟨.king, .black⟩ = 1 := by decide +kernel
  refine ⟨_, _, h2, hkw, hkb, ?_⟩
  rw [isTheoreticalDraw_spec h2 hkw hkb]
  decide +kernel

/-! ### `get_status` -/

def statusToSpec : Board.Status → Spec.Status
  | .ongoing => .ongoing
  | .checkmated c => .checkmated c
  | .theoreticalDraw => .insufficient
  | .fiftyMoves => .fifty
  | .stalemate => .stalemate

theorem validPos_kings {p : Spec.Pos} (hv : Spec.ValidPos p = true) :
    Spec.countPiece p.board ⟨.king, .white⟩ = 1 ∧ Spec.countPiece p.board ⟨.king, .black⟩ = 1 := by
  simp only [Spec.ValidPos, Bool.and_eq_true, beq_iff_eq] at hv
  exact ⟨hv.1.1.1.1.1, hv.1.1.1.1.2⟩

theorem popcount_pos_iff (m : BB) : popcount m > 0 ↔ (!isBlank m) = true := by
  rw [Bool.not_eq_true', ← Bool.not_eq_true, isBlank_iff, ← popcount_zero]
  omega

theorem getStatus_spec {K : Keys} {b : Board} (hv : b.Valid K)
    (hterm : b.term = (Spec.legalMoves b.absPos).isEmpty) :
    statusToSpec b.getStatus = Spec.status b.absPos := by
  obtain ⟨hkw, hkb⟩ := validPos_kings hv.pos
  have hdraw : b.isTheoreticalDraw =
      (Spec.cannotMate b.absPos.board .white && Spec.cannotMate b.absPos.board .black) :=
    isTheoreticalDraw_spec hv.cons hkw hkb
  have hchk := C05.C05_inCheck hv
  have hstm : b.absPos.stm = b.stm := rfl
  have hhalf : b.absPos.half = b.half := rfl
  unfold getStatus Spec.status
  rw [← hterm, ← hdraw, ← hchk, hstm, hhalf]
  by_cases ht : b.term = true
  · rw [if_pos ht, if_pos ht]
    by_cases hc : popcount b.checks > 0
    · rw [if_pos hc, if_pos ((popcount_pos_iff _).1 hc)]; rfl
    · rw [if_neg hc, if_neg (fun e => hc ((popcount_pos_iff _).2 e))]; rfl
  · rw [if_neg ht, if_neg ht]
    by_cases hd : b.isTheoreticalDraw = true
    · rw [if_pos hd, if_pos hd]; rfl
    · rw [if_neg hd, if_neg hd]
      by_cases hh : b.half ≥ 100
      · rw [if_pos hh, if_pos hh]; rfl
      · rw [if_neg hh, if_neg hh]; rfl

end Chess
