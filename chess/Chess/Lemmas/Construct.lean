import Chess.Props.C07
import Chess.Lemmas.ChecksSpec
import Chess.Lemmas.Valid
/-! Lemmas for C09: the builder fold represents exactly the builder's placement; population counts of
masks under `Rep`; `validate` decomposed clause by clause and tied to `Spec.ValidPos`. -/
namespace Chess
open Board
variable (K : Keys)

/-- the specification position a builder describes -/
def Builder.toPos (bb : Builder) : Spec.Pos :=
  { board := bb.pieces, stm := bb.stm, rights := fun c => (bb.rights c).toRights, ep := bb.ep,
    half := bb.half, full := bb.full }

namespace Construct

/-! ### 1. the fold of `putPiece` over the squares represents exactly the builder's placement -/

/-- one step of the builder loop -/
def putStep (pcs : Sq → Option Piece) (b : Board) (sq : Sq) : Board :=
  match pcs sq with | some p => b.putPiece K p sq | none => b

theorem putStep_rep (pcs : Sq → Option Piece) {b : Board} {f} (h : Rep b f) (x : Sq) (hx : f x = none) :
    Rep (putStep K pcs b x) (Spec.upd f x (pcs x)) := by
  unfold putStep
  cases hp : pcs x with
  | none =>
    have : Spec.upd f x none = f := by
      funext s; simp only [Spec.upd]; split
      · next e => rw [e, hx]
      · rfl
    rw [this]; exact h
  | some p => exact h.putPiece K p x

/-- strengthened `foldPut_rep`: squares already processed hold the builder's content, the others keep theirs -/
theorem foldPut_rep_exact (pcs : Sq → Option Piece) (l : List Sq) (hnd : l.Nodup) (b : Board) (f : Sq → Option Piece)
    (h : Rep b f) (hf : ∀ s ∈ l, f s = none) :
    Rep (l.foldl (putStep K pcs) b) (fun s => if s ∈ l then pcs s else f s) := by
  induction l generalizing b f with
  | nil => simpa using h
  | cons x xs ih =>
    rw [List.nodup_cons] at hnd
    simp only [List.foldl_cons]
    have h1 := putStep_rep K pcs h x (hf x (by simp))
    have h2 := ih hnd.2 _ _ h1 (fun s hs => by
      have : s ≠ x := fun e => hnd.1 (e ▸ hs)
      simp only [Spec.upd, this, if_false]
      exact hf s (by simp [hs]))
    have e : (fun s => if s ∈ xs then pcs s else Spec.upd f x (pcs x) s) =
        (fun s => if s ∈ x :: xs then pcs s else f s) := by
      funext s
      by_cases hs : s ∈ xs
      · simp [hs]
      · by_cases hx : s = x
        · subst hx; simp [hs, Spec.upd]
        · simp [hs, hx, Spec.upd]
    rw [e] at h2
    exact h2

/-- the board after the placement loop of `TryFrom<&BoardBuilder>` -/
def b0 (bb : Builder) : Board := allSq.foldl (putStep K bb.pieces) Board.new

theorem b0_rep (bb : Builder) : Rep (b0 K bb) bb.pieces := by
  have h := foldPut_rep_exact K bb.pieces allSq (List.nodup_finRange 64) Board.new (fun _ => none) C07.new_rep
    (fun _ _ => rfl)
  have e : (fun s => if s ∈ allSq then bb.pieces s else none) = bb.pieces := by
    funext s; simp [allSq, List.mem_finRange]
  rw [e] at h
  exact h

/-! ### 2. population counts -/

theorem popcount_eq_countP (m : BB) : popcount m = allSq.countP (mem · m) := by
  unfold popcount; rw [toList_spec, List.countP_eq_length_filter]

/-- number of kings of a colour: mask count = declarative count -/
theorem popcount_king {b : Board} {f} (h : Rep b f) (c : Color) :
    popcount (b.pieces .king &&& b.colors c) = Spec.countPiece f ⟨.king, c⟩ := by
  rw [popcount_eq_countP]
  unfold Spec.countPiece
  apply List.countP_congr
  intro s _
  simp only [mem_and, h.pcs, h.cls]
  rcases hp : f s with _ | ⟨pt, c'⟩
  · simp
  · simp only [Bool.and_eq_true, beq_iff_eq, Option.some.injEq, Piece.mk.injEq]

theorem subset_popcount_eq {m n : BB} (hs : ∀ s, mem s m = true → mem s n = true) (hp : popcount m = popcount n) :
    m = n := by
  unfold popcount at hp
  have hsub : (toList m).Sublist (toList n) := by
    rw [toList_spec, toList_spec]
    have : allSq.filter (mem · m) = (allSq.filter (mem · n)).filter (mem · m) := by
      rw [List.filter_filter]
      apply List.filter_congr
      intro s _
      cases hm : mem s m with
      | false => simp
      | true => simp [hs s hm]
    rw [this]
    exact List.filter_sublist
  have := hsub.eq_of_length hp
  apply bb_ext
  intro s
  rw [Bool.eq_iff_iff, ← mem_toList, ← mem_toList, this]

/-- `count_ones(m & n) == count_ones(n)` says `n ⊆ m` -/
theorem popcount_and_eq_iff (m n : BB) :
    popcount (m &&& n) = popcount n ↔ ∀ s, mem s n = true → mem s m = true := by
  constructor
  · intro h s hs
    have := subset_popcount_eq (m := m &&& n) (n := n) (fun s hs => by simp at hs; exact hs.2) h
    rw [← this] at hs
    simp at hs; exact hs.1
  · intro h
    have : m &&& n = n := by
      apply bb_ext; intro s
      simp only [mem_and]
      cases hn : mem s n with
      | false => simp
      | true => simp [h s hn]
    rw [this]

theorem popcount_pos_iff (m : BB) : popcount m > 0 ↔ m ≠ 0#64 := by
  have := popcount_zero m
  constructor
  · intro h e; have := this.2 e; omega
  · intro h; apply Nat.pos_of_ne_zero; intro e; exact h (this.1 e)

/-! ### 3. `validate` clause by clause -/

def typeOverlap (b : Board) : Bool :=
  PT.all.any (fun t => PT.all.any fun u => decide (t.idx < u.idx) && !isBlank (b.pieces t &&& b.pieces u))
def unionPieces (b : Board) : BB := PT.all.foldl (fun acc t => acc ||| b.pieces t) 0#64
def flipped (b : Board) : Board := { b with stm := b.stm.other }
def epBad (b : Board) : Bool :=
  match b.ep with
  | none => false
  | some sq =>
    let opp := b.stm.other
    let epRank : Nat := match opp with | .white => 2 | .black => 5
    let pawnSq := mkSq? (sq.rank + Board.fwd opp) sq.file
    let origSq := mkSq? (sq.rank - Board.fwd opp) sq.file
    match pawnSq, origSq with
    | some p, some o =>
      !(sq.rk == epRank && b.isEmptySq sq && b.isEmptySq o &&
        !isBlank (b.pieces .pawn &&& b.colors opp &&& bbOf p))
    | _, _ => true
def rightsMask (c : Color) : CR → BB
  | .neither => 0#64 | .queenSide => bbOf (homeSq c 0) | .kingSide => bbOf (homeSq c 7)
  | .both => bbOf (homeSq c 0) ||| bbOf (homeSq c 7)
def rightsBad (b : Board) (c : Color) : Bool :=
  if b.kingSq c = homeSq c 4 then
    popcount (b.pieces .rook &&& b.colors c &&& rightsMask c (b.rights c)) != popcount (rightsMask c (b.rights c))
  else b.rights c != .neither

theorem validate_eq (b : Board) : b.validate =
    if !isBlank (b.colors .white &&& b.colors .black) then some .colorsOverlap else
    if typeOverlap b then some .typeOverlap else
    if unionPieces b != b.combined then some .selfNonConsistency else
    if popcount (b.pieces .king &&& b.colors .white) != 1 then some .multipleKings else
    if popcount (b.pieces .king &&& b.colors .black) != 1 then some .multipleKings else
    if popcount (flipped b).updatePinsAndChecks.checks > 0 then some .opponentInCheck else
    if epBad b then some .inconsistentEnPassant else
    if rightsBad b .white then some .inconsistentCastling else
    if rightsBad b .black then some .inconsistentCastling else none := by
  rfl

/-! #### the three mask-consistency tests never fire on masks that encode a placement -/

theorem colors_disjoint {b : Board} {f} (h : Rep b f) : isBlank (b.colors .white &&& b.colors .black) = true := by
  rw [isBlank_iff, eq_zero_iff]
  intro s
  simp only [mem_and, h.cls]
  rcases f s with _ | ⟨pt, c⟩
  · rfl
  · cases c <;> rfl

theorem pieces_disjoint {b : Board} {f} (h : Rep b f) (t u : PT) (htu : t ≠ u) :
    isBlank (b.pieces t &&& b.pieces u) = true := by
  rw [isBlank_iff, eq_zero_iff]
  intro s
  simp only [mem_and, h.pcs]
  rcases f s with _ | ⟨pt, c⟩
  · rfl
  · show ((pt == t) && (pt == u)) = false
    cases h1 : pt == t
    · rfl
    · cases h2 : pt == u
      · rfl
      · exact absurd ((beq_iff_eq.1 h1).symm.trans (beq_iff_eq.1 h2)) htu

theorem typeOverlap_false {b : Board} {f} (h : Rep b f) : typeOverlap b = false := by
  rw [Bool.eq_false_iff]
  intro ht
  simp only [typeOverlap, List.any_eq_true, Bool.and_eq_true, decide_eq_true_eq, Bool.not_eq_true'] at ht
  obtain ⟨t, _, u, _, hlt, hb⟩ := ht
  have hne : t ≠ u := by rintro rfl; exact Nat.lt_irrefl _ hlt
  rw [pieces_disjoint h t u hne] at hb
  exact Bool.noConfusion hb

theorem unionPieces_eq {b : Board} {f} (h : Rep b f) : unionPieces b = b.combined := by
  apply bb_ext
  intro s
  simp only [unionPieces, PT.all, List.foldl_cons, List.foldl_nil, mem_or, mem_zero, h.pcs, h.cmb]
  rcases f s with _ | ⟨pt, c⟩
  · rfl
  · cases pt <;> rfl

/-! #### the opponent-in-check clause -/

theorem flipped_rep {b : Board} {f} (h : Rep b f) : Rep (flipped b) f := ⟨h.pcs, h.cls, h.cmb⟩

theorem oppCheck_iff {b : Board} {f} (h : Rep b f) {k : Sq} (hk : Spec.kingSq? f b.stm.other = some k) :
    popcount (flipped b).updatePinsAndChecks.checks > 0 ↔ Spec.inCheck f b.stm.other = true := by
  have hks : (flipped b).kingSq (flipped b).stm = k := kingSq_spec (flipped_rep h) b.stm.other k hk
  have e1 : (flipped b).updatePinsAndChecks.checks = ((flipped b).pinsAndChecks k).2 := by
    rw [← hks]; rfl
  have e2 := isUnderAttack_spec (flipped_rep h) k
  have e3 : (flipped b).stm.other = b.stm.other.other := rfl
  rw [e3] at e2
  rw [e1, popcount_pos_iff, Spec.inCheck, hk]
  simp only []
  rw [← e2, Board.isUnderAttack, Bool.not_eq_true', ← Bool.not_eq_true, isBlank_iff]

/-! #### the en-passant clause -/

theorem fwd_eq (c : Color) : Board.fwd c = Spec.fwd c := by cases c <;> rfl

theorem rank_beq (e : Sq) (n : Nat) : (e.rank == (n : Int)) = (e.rk == n) := by
  rw [Bool.eq_iff_iff]; simp only [beq_iff_eq, Sq.rank, Sq.rk]; omega

theorem mem_pawnMask {b : Board} {f} (h : Rep b f) (c : Color) (s : Sq) :
    mem s (b.pieces .pawn &&& b.colors c) = (f s == some ⟨.pawn, c⟩) := by
  simp only [mem_and, h.pcs, h.cls]
  rcases hp : f s with _ | ⟨pt, c'⟩
  · rfl
  · rw [Bool.eq_iff_iff]
    simp only [Bool.and_eq_true, beq_iff_eq, Option.some.injEq, Piece.mk.injEq]

theorem epBad_spec {b : Board} {f} (h : Rep b f) (R : Color → Spec.Rights) (x y : Nat) :
    epBad b = !Spec.epOk ⟨f, b.stm, R, b.ep, x, y⟩ := by
  unfold epBad Spec.epOk
  simp only []
  cases he : b.ep with
  | none => rfl
  | some e =>
    simp only [fwd_eq]
    have hr : (e.rk == (match b.stm.other with | .white => 2 | .black => 5 : Nat)) =
        (e.rank == (if b.stm == .white then 5 else 2 : Int)) := by
      cases b.stm
      · exact (rank_beq e 5).symm
      · exact (rank_beq e 2).symm
    rcases hp : mkSq? (e.rank + Spec.fwd b.stm.other) e.file with _ | p
    · rcases ho : mkSq? (e.rank - Spec.fwd b.stm.other) e.file with _ | o <;> simp
    · rcases ho : mkSq? (e.rank - Spec.fwd b.stm.other) e.file with _ | o
      · simp
      · simp only [hr, h.isEmptySq, isBlank_and_bbOf, mem_pawnMask h, Bool.not_not]
        generalize (e.rank == (if b.stm == Color.white then 5 else 2 : Int)) = A
        generalize (f e).isNone = B
        generalize (f o).isNone = C
        generalize (f p == some ⟨.pawn, b.stm.other⟩) = D
        cases A <;> cases B <;> cases C <;> cases D <;> rfl

/-! #### the castling-rights clause -/

theorem specSq_eq (c : Color) (n : Nat) (hn : n < 8) :
    (⟨((Spec.homeRank c).toNat * 8 + n) % 64, Nat.mod_lt _ (by decide)⟩ : Sq) = homeSq c n hn := by
  cases c <;> apply Fin.ext <;> simp [Spec.homeRank, homeSq, backRank] <;> omega

theorem mem_kingMask {b : Board} {f} (h : Rep b f) (c : Color) (s : Sq) :
    mem s (b.pieces .king &&& b.colors c) = (f s == some ⟨.king, c⟩) := by
  simp only [mem_and, h.pcs, h.cls]
  rcases hp : f s with _ | ⟨pt, c'⟩
  · rfl
  · rw [Bool.eq_iff_iff]
    simp only [Bool.and_eq_true, beq_iff_eq, Option.some.injEq, Piece.mk.injEq]

theorem mem_rookMask {b : Board} {f} (h : Rep b f) (c : Color) (s : Sq) :
    mem s (b.pieces .rook &&& b.colors c) = (f s == some ⟨.rook, c⟩) := by
  simp only [mem_and, h.pcs, h.cls]
  rcases hp : f s with _ | ⟨pt, c'⟩
  · rfl
  · rw [Bool.eq_iff_iff]
    simp only [Bool.and_eq_true, beq_iff_eq, Option.some.injEq, Piece.mk.injEq]

/-- with exactly one king of colour `c`, `get_king_square(c)` is THE square holding it -/
theorem kingSq_eq_iff {b : Board} {f} (h : Rep b f) (c : Color)
    (hk : popcount (b.pieces .king &&& b.colors c) = 1) (x : Sq) :
    b.kingSq c = x ↔ f x = some ⟨.king, c⟩ := by
  obtain ⟨s, hs, huniq⟩ := (popcount_one _).1 hk
  have hks : b.kingSq c = s := by
    unfold Board.kingSq Board.kingSq?
    cases hl : lowest (b.pieces .king &&& b.colors c) with
    | none => rw [lowest_none] at hl; rw [hl] at hs; simp at hs
    | some k => exact huniq k ((lowest_some _ k).1 hl).1
  rw [hks]
  constructor
  · rintro rfl; rw [mem_kingMask h] at hs; exact beq_iff_eq.1 hs
  · intro hx; exact (huniq x (by rw [mem_kingMask h]; exact beq_iff_eq.2 hx)).symm

theorem rightsOk_eq (p : Spec.Pos) (c : Color) : Spec.rightsOk p c =
    ((!((p.rights c).k || (p.rights c).q) || p.board (homeSq c 4) == some ⟨.king, c⟩) &&
     (!(p.rights c).k || p.board (homeSq c 7) == some ⟨.rook, c⟩) &&
     (!(p.rights c).q || p.board (homeSq c 0) == some ⟨.rook, c⟩)) := by
  simp only [Spec.rightsOk]
  rw [specSq_eq c 4 (by decide), specSq_eq c 7 (by decide), specSq_eq c 0 (by decide)]

theorem rightsBad_spec {b : Board} {f} (h : Rep b f) (c : Color)
    (hk : popcount (b.pieces .king &&& b.colors c) = 1) (st : Color) (e : Option Sq) (x y : Nat) :
    rightsBad b c = false ↔
      Spec.rightsOk ⟨f, st, fun c => (b.rights c).toRights, e, x, y⟩ c = true := by
  rw [rightsOk_eq]
  unfold rightsBad
  simp only []
  by_cases hking : b.kingSq c = homeSq c 4
  · rw [if_pos hking]
    have hf4 : f (homeSq c 4) = some ⟨.king, c⟩ := (kingSq_eq_iff h c hk _).1 hking
    rw [bne_eq_false_iff_eq, popcount_and_eq_iff]
    simp only [mem_rookMask h, hf4, beq_self_eq_true, Bool.or_true, Bool.true_and]
    cases hr : b.rights c <;>
      simp [rightsMask, CR.toRights, CR.hasK, CR.hasQ]
    exact And.comm
  · rw [if_neg hking]
    have hf4 : ¬ f (homeSq c 4) = some ⟨.king, c⟩ := fun hx => hking ((kingSq_eq_iff h c hk _).2 hx)
    have hf4' : (f (homeSq c 4) == some ⟨.king, c⟩) = false := by
      rw [Bool.eq_false_iff]; intro hb; exact hf4 (beq_iff_eq.1 hb)
    rw [hf4']
    cases hr : b.rights c <;> simp [CR.toRights, CR.hasK, CR.hasQ]

/-! ### 4. `validate` accepts exactly the valid positions -/

theorem bool_of_iff {x y : Bool} (h : x = false ↔ y = true) : y = !x := by
  cases x <;> cases y <;> simp_all

/-- the position a board with placement `f` stands for -/
def posOf (b : Board) (f : Sq → Option Piece) : Spec.Pos :=
  ⟨f, b.stm, fun c => (b.rights c).toRights, b.ep, b.half, b.full⟩

theorem validate_none_iff {b : Board} {f} (h : Rep b f) :
    b.validate = none ↔ Spec.ValidPos (posOf b f) = true := by
  rw [validate_eq, colors_disjoint h, typeOverlap_false h, unionPieces_eq h]
  simp only [Bool.not_true, Bool.false_eq_true, if_false, bne_self_eq_false]
  unfold Spec.ValidPos posOf
  simp only []
  rw [← popcount_king h .white, ← popcount_king h .black]
  by_cases hw : popcount (b.pieces .king &&& b.colors .white) = 1
  · by_cases hb : popcount (b.pieces .king &&& b.colors .black) = 1
    · have hcnt : ∀ c, popcount (b.pieces .king &&& b.colors c) = 1 := fun c => by cases c <;> assumption
      obtain ⟨k, hk⟩ := kingSq?_isSome_of_count (f := f) (c := b.stm.other) (by rw [← popcount_king h]; exact hcnt _)
      have hA := oppCheck_iff h hk
      have hB : Spec.epOk ⟨f, b.stm, fun c => (b.rights c).toRights, b.ep, b.half, b.full⟩ = !epBad b := by
        rw [epBad_spec h (fun c => (b.rights c).toRights) b.half b.full, Bool.not_not]
      have hC := bool_of_iff (rightsBad_spec h .white hw b.stm b.ep b.half b.full)
      have hD := bool_of_iff (rightsBad_spec h .black hb b.stm b.ep b.half b.full)
      rw [hw, hb, hC, hD]
      simp only [bne_self_eq_false, Bool.false_eq_true, if_false, beq_self_eq_true, Bool.true_and]
      by_cases h1 : popcount (flipped b).updatePinsAndChecks.checks > 0
      · rw [if_pos h1, hA.1 h1]; simp
      · rw [if_neg h1]
        have h1' : Spec.inCheck f b.stm.other = false := by
          rw [Bool.eq_false_iff]; exact fun hx => h1 (hA.2 hx)
        rw [h1', hB]
        generalize epBad b = X
        generalize rightsBad b .white = Y
        generalize rightsBad b .black = Z
        cases X <;> cases Y <;> cases Z <;> simp
    · have : (popcount (b.pieces .king &&& b.colors .black) != 1) = true := by simpa using hb
      rw [hw]; simp [this, hb]
  · have : (popcount (b.pieces .king &&& b.colors .white) != 1) = true := by simpa using hw
    simp [this, hw]

/-! ### 5. the stages of `TryFrom<&BoardBuilder>` -/

def b1 (bb : Builder) : Board :=
  ((((b0 K bb).setSideToMove K bb.stm).setEnPassant K bb.ep).setCastlingRights K .white (bb.rights .white)
    ).setCastlingRights K .black (bb.rights .black)
def b2 (bb : Builder) : Board := ({ b1 K bb with full := bb.full, half := bb.half } : Board).updatePinsAndChecks
def b3 (bb : Builder) : Board := { b2 K bb with hash := (b2 K bb).calcHash K }

theorem ofBuilder_eq (bb : Builder) : Board.ofBuilder K bb =
    if popcount ((b0 K bb).pieces .king &&& (b0 K bb).colors .white) != 1 then .error .multipleKings else
    if popcount ((b0 K bb).pieces .king &&& (b0 K bb).colors .black) != 1 then .error .multipleKings else
    match (b3 K bb).validate with
    | none => .ok ((b3 K bb).updateTerminalStatus K)
    | some e => .error e := rfl

theorem setSideToMove_stm (b : Board) (c : Color) : (b.setSideToMove K c).stm = c := by
  unfold Board.setSideToMove
  by_cases h : c ≠ b.stm
  · rw [if_pos h]
  · rw [if_neg h]; exact (Classical.not_not.1 h).symm

theorem b1_masks (bb : Builder) : C07.SameMasks (b0 K bb) (b1 K bb) :=
  (((C07.setSideToMove_masks K _ bb.stm).trans (C07.setEnPassant_masks K _ bb.ep)).trans
    (C07.setCastlingRights_masks K _ .white (bb.rights .white))).trans
    (C07.setCastlingRights_masks K _ .black (bb.rights .black))

theorem b3_rep (bb : Builder) : Rep (b3 K bb) bb.pieces :=
  let h := (b1_masks K bb).rep (b0_rep K bb)
  ⟨h.pcs, h.cls, h.cmb⟩

theorem b3_stm (bb : Builder) : (b3 K bb).stm = bb.stm := setSideToMove_stm K _ _
theorem b3_ep (bb : Builder) : (b3 K bb).ep = bb.ep := rfl
theorem b3_half (bb : Builder) : (b3 K bb).half = bb.half := rfl
theorem b3_full (bb : Builder) : (b3 K bb).full = bb.full := rfl
theorem b3_rights (bb : Builder) (c : Color) : (b3 K bb).rights c = bb.rights c := by
  show setFn (setFn _ Color.white (bb.rights .white)) Color.black (bb.rights .black) c = bb.rights c
  cases c <;> simp [setFn]

theorem b3_pos (bb : Builder) : posOf (b3 K bb) bb.pieces = bb.toPos := by
  unfold posOf Builder.toPos
  rw [b3_stm, b3_ep, b3_half, b3_full]
  simp only [b3_rights]

theorem b3_pinned (bb : Builder) : (b3 K bb).pinned = ((b3 K bb).pinsAndChecks ((b3 K bb).kingSq (b3 K bb).stm)).1 := rfl
theorem b3_checks (bb : Builder) : (b3 K bb).checks = ((b3 K bb).pinsAndChecks ((b3 K bb).kingSq (b3 K bb).stm)).2 := rfl
theorem b3_hash (bb : Builder) : (b3 K bb).hash = (b3 K bb).calcHash K := rfl

/-! ### 6. the terminal flag is not read by `update_terminal_status` -/

def setTerm (b : Board) (t : Bool) : Board := { b with term := t }

theorem clearSquare_setTerm (b : Board) (t : Bool) (s : Sq) :
    (setTerm b t).clearSquare K s = setTerm (b.clearSquare K s) t := by
  unfold Board.clearSquare
  have e : (setTerm b t).getPieceOn s = b.getPieceOn s := rfl
  rw [e]
  cases b.getPieceOn s <;> rfl

theorem putPiece_setTerm (b : Board) (t : Bool) (p : Piece) (s : Sq) :
    (setTerm b t).putPiece K p s = setTerm (b.putPiece K p s) t := by
  unfold Board.putPiece
  have e : (setTerm b t).isEmptySq s = b.isEmptySq s := rfl
  rw [e]
  cases b.isEmptySq s
  · simp only [Bool.not_false, if_true, clearSquare_setTerm]; rfl
  · rfl

theorem movePiece_setTerm (b : Board) (t : Bool) (pt : PT) (src dst : Sq) (promo : Option PT) :
    (setTerm b t).movePiece K pt src dst promo = setTerm (b.movePiece K pt src dst promo) t := by
  unfold Board.movePiece
  have e : (setTerm b t).getPieceColorOn src = b.getPieceColorOn src := rfl
  rw [e]
  cases b.getPieceColorOn src
  · rfl
  · simp only [clearSquare_setTerm, putPiece_setTerm]

theorem clearIfEp_setTerm (b : Board) (t : Bool) (pt : PT) (dst : Sq) :
    (setTerm b t).clearIfEp K pt dst = setTerm (b.clearIfEp K pt dst) t := by
  unfold Board.clearIfEp
  have e : (setTerm b t).isEpMove pt dst = b.isEpMove pt dst := rfl
  have e2 : (setTerm b t).stm = b.stm := rfl
  rw [e, e2]
  cases b.isEpMove pt dst
  · rfl
  · simp only [if_true]
    cases epVictim b.stm dst
    · rfl
    · simp only [clearSquare_setTerm]

theorem checkMaskAfter_setTerm (b : Board) (t : Bool) (pt : PT) (src dst : Sq) (promo : Option PT) :
    (setTerm b t).checkMaskAfter K pt src dst promo = b.checkMaskAfter K pt src dst promo := by
  unfold Board.checkMaskAfter
  rw [movePiece_setTerm, clearIfEp_setTerm]
  rfl

theorem hasEscape_setTerm (b : Board) (t : Bool) : (setTerm b t).hasEscape K = b.hasEscape K := by
  unfold Board.hasEscape
  simp only [checkMaskAfter_setTerm]
  rfl

theorem updateTerminalStatus_term (b : Board) :
    (b.updateTerminalStatus K).term = !(b.updateTerminalStatus K).hasEscape K := by
  show (!b.hasEscape K) = !(setTerm b (!b.hasEscape K)).hasEscape K
  rw [hasEscape_setTerm]

end Construct
end Chess
