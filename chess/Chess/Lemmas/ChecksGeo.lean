import Chess.Lemmas.PinsChecks
import Chess.Lemmas.Rep
import Chess.Props.C17
/-! C05: finite geometric facts used by Lemmas/ChecksSpec.lean (kernel, whole domain). -/
namespace Chess
open Board Chess.C17

/-! ### finite geometric facts (kernel, whole domain) -/

theorem orthogonal_symm : ∀ a b : Sq, Spec.orthogonal a b = Spec.orthogonal b a := by decide +kernel
theorem diagonal_symm : ∀ a b : Sq, Spec.diagonal a b = Spec.diagonal b a := by decide +kernel

/-- knight geometry is symmetric -/
theorem knightGeo_symm : ∀ a b : Sq,
    (((dr a b).natAbs == 1 && (df a b).natAbs == 2) || ((dr a b).natAbs == 2 && (df a b).natAbs == 1)) =
    (((dr b a).natAbs == 1 && (df b a).natAbs == 2) || ((dr b a).natAbs == 2 && (df b a).natAbs == 1)) := by
  decide +kernel

theorem kingGeo_symm : ∀ a b : Sq,
    (a != b && decide ((dr a b).natAbs ≤ 1) && decide ((df a b).natAbs ≤ 1)) =
    (b != a && decide ((dr b a).natAbs ≤ 1) && decide ((df b a).natAbs ≤ 1)) := by
  decide +kernel

/-- `pawnAttT c k` = the squares from which a pawn of colour `c.other` attacks `k` -/
theorem pawnAttT_spec : ∀ (c : Color) (k x : Sq),
    mem x (Board.pawnAttT c k) = (dr x k == Spec.fwd c.other && (df x k).natAbs == 1) := by
  intro c; cases c <;> decide +kernel

end Chess
