import Chess.Lemmas.Valid
/-! Lemmas about `Board.makeMoveUnchecked` (mirror of `make_move_mut_unchecked`): the placement stage
(`movePiece`, `clearIfEp`, the two castlings) in terms of `Rep`, frame lemmas for the later pipeline stages,
and the effect of each stage on side to move, rights, en-passant square and the two clocks. -/
namespace Chess
open Board
variable (K : Keys)

/-! ### generalities -/

/-- `Rep` only looks at the nine masks -/
theorem Rep.of_masks {b b' : Board} {f} (h : Rep b f) (hp : b'.pieces = b.pieces) (hc : b'.colors = b.colors)
    (hm : b'.combined = b.combined) : Rep b' f :=
  ⟨by rw [hp]; exact h.pcs, by rw [hc]; exact h.cls, by rw [hm]; exact h.cmb⟩

theorem Spec.Pos.ext' {p q : Spec.Pos} (h1 : p.board = q.board) (h2 : p.stm = q.stm) (h3 : p.rights = q.rights)
    (h4 : p.ep = q.ep) (h5 : p.half = q.half) (h6 : p.full = q.full) : p = q := by
  cases p; cases q; simp_all

theorem fwd_eq (c : Color) : Board.fwd c = Spec.fwd c := by cases c <;> rfl

theorem Color.eq_other_of_ne {x c : Color} (h : x ≠ c) : x = c.other := by
  cases x <;> cases c <;> simp_all [Color.other]

theorem Color.beq_other (x c : Color) : (x == c.other) = (x != c) := by
  cases x <;> cases c <;> rfl

/-- the model's home squares are the specification's corner / king squares -/
theorem homeSq_eq (c : Color) (k : Nat) (hk : k < 8) :
    Board.homeSq c k hk = (⟨((Spec.homeRank c).toNat * 8 + k) % 64, Nat.mod_lt _ (by decide)⟩ : Sq) := by
  cases c <;> (apply Fin.ext; simp [Board.homeSq, Board.backRank, Spec.homeRank]; omega)

theorem homeSq_inj (c : Color) (j k : Nat) (hj : j < 8) (hk : k < 8) (h : Board.homeSq c j hj = Board.homeSq c k hk) : j = k := by
  have := congrArg Fin.val h
  simp only [Board.homeSq] at this; omega

/-! ### frame lemmas: placement stage -/
@[simp] theorem movePiece_stm (b : Board) (pt src dst promo) : (b.movePiece K pt src dst promo).stm = b.stm := by
  unfold Board.movePiece; split <;> simp
@[simp] theorem movePiece_rights (b : Board) (pt src dst promo) : (b.movePiece K pt src dst promo).rights = b.rights := by
  unfold Board.movePiece; split <;> simp
@[simp] theorem movePiece_ep (b : Board) (pt src dst promo) : (b.movePiece K pt src dst promo).ep = b.ep := by
  unfold Board.movePiece; split <;> simp
@[simp] theorem movePiece_half (b : Board) (pt src dst promo) : (b.movePiece K pt src dst promo).half = b.half := by
  unfold Board.movePiece; split <;> simp
@[simp] theorem movePiece_full (b : Board) (pt src dst promo) : (b.movePiece K pt src dst promo).full = b.full := by
  unfold Board.movePiece; split <;> simp

@[simp] theorem clearIfEp_stm (b : Board) (pt dst) : (b.clearIfEp K pt dst).stm = b.stm := by
  unfold Board.clearIfEp; split
  · split <;> simp
  · rfl
@[simp] theorem clearIfEp_rights (b : Board) (pt dst) : (b.clearIfEp K pt dst).rights = b.rights := by
  unfold Board.clearIfEp; split
  · split <;> simp
  · rfl
@[simp] theorem clearIfEp_ep (b : Board) (pt dst) : (b.clearIfEp K pt dst).ep = b.ep := by
  unfold Board.clearIfEp; split
  · split <;> simp
  · rfl
@[simp] theorem clearIfEp_half (b : Board) (pt dst) : (b.clearIfEp K pt dst).half = b.half := by
  unfold Board.clearIfEp; split
  · split <;> simp
  · rfl
@[simp] theorem clearIfEp_full (b : Board) (pt dst) : (b.clearIfEp K pt dst).full = b.full := by
  unfold Board.clearIfEp; split
  · split <;> simp
  · rfl

/-! ### placement stage -/

/-- `move_piece`: the man on `src` (whatever it is) leaves, a man of type `promo.getD pt` and the same colour lands on `dst` -/
theorem Rep.movePiece {b : Board} {f} (h : Rep b f) (pt : PT) (src dst : Sq) (promo : Option PT) (q : Piece)
    (hs : f src = some q) :
    Rep (b.movePiece K pt src dst promo) (Spec.upd (Spec.upd f src none) dst (some ⟨promo.getD pt, q.c⟩)) := by
  unfold Board.movePiece
  rw [h.getPieceColorOn, hs]
  exact (h.clearSquare K src).putPiece K _ dst

theorem isEpMove_eq (b : Board) (pt : PT) (dst : Sq) : b.isEpMove pt dst = (pt == .pawn && b.ep == some dst) := by
  unfold Board.isEpMove
  cases b.ep with
  | none => simp
  | some e =>
    by_cases hd : dst = e
    · subst hd; simp
    · have : e ≠ dst := fun x => hd x.symm
      have h1 : (dst == e) = false := by simp [hd]
      have h2 : (some e == some dst) = false := by simp [this]
      show (pt == PT.pawn && dst == e) = _
      rw [h1, h2]

/-- `clear_square_if_en_passant_capture` -/
theorem Rep.clearIfEp {b : Board} {f} (h : Rep b f) (pt : PT) (dst : Sq) :
    Rep (b.clearIfEp K pt dst)
      (if pt == .pawn && b.ep == some dst then
        match mkSq? (dst.rank - Spec.fwd b.stm) dst.file with
        | some v => Spec.upd f v none
        | none => f
       else f) := by
  unfold Board.clearIfEp
  rw [isEpMove_eq, Board.epVictim, fwd_eq]
  split
  · cases mkSq? (dst.rank - Spec.fwd b.stm) dst.file with
    | some v => exact h.clearSquare K _
    | none => exact h
  · exact h

/-! ### frame lemmas: the later pipeline stages -/
@[simp] theorem setCastlingRights_pieces (b : Board) (c : Color) (r : CR) : (Board.setCastlingRights K b c r).pieces = b.pieces := by
  unfold Board.setCastlingRights; rfl
@[simp] theorem setCastlingRights_colors (b : Board) (c : Color) (r : CR) : (Board.setCastlingRights K b c r).colors = b.colors := by
  unfold Board.setCastlingRights; rfl
@[simp] theorem setCastlingRights_combined (b : Board) (c : Color) (r : CR) : (Board.setCastlingRights K b c r).combined = b.combined := by
  unfold Board.setCastlingRights; rfl
@[simp] theorem setCastlingRights_stm (b : Board) (c : Color) (r : CR) : (Board.setCastlingRights K b c r).stm = b.stm := by
  unfold Board.setCastlingRights; rfl
@[simp] theorem setCastlingRights_ep (b : Board) (c : Color) (r : CR) : (Board.setCastlingRights K b c r).ep = b.ep := by
  unfold Board.setCastlingRights; rfl
@[simp] theorem setCastlingRights_half (b : Board) (c : Color) (r : CR) : (Board.setCastlingRights K b c r).half = b.half := by
  unfold Board.setCastlingRights; rfl
@[simp] theorem setCastlingRights_full (b : Board) (c : Color) (r : CR) : (Board.setCastlingRights K b c r).full = b.full := by
  unfold Board.setCastlingRights; rfl
@[simp] theorem setEnPassant_pieces (b : Board) (e : Option Sq) : (Board.setEnPassant K b e).pieces = b.pieces := by
  unfold Board.setEnPassant; rfl
@[simp] theorem setEnPassant_colors (b : Board) (e : Option Sq) : (Board.setEnPassant K b e).colors = b.colors := by
  unfold Board.setEnPassant; rfl
@[simp] theorem setEnPassant_combined (b : Board) (e : Option Sq) : (Board.setEnPassant K b e).combined = b.combined := by
  unfold Board.setEnPassant; rfl
@[simp] theorem setEnPassant_stm (b : Board) (e : Option Sq) : (Board.setEnPassant K b e).stm = b.stm := by
  unfold Board.setEnPassant; rfl
@[simp] theorem setEnPassant_rights (b : Board) (e : Option Sq) : (Board.setEnPassant K b e).rights = b.rights := by
  unfold Board.setEnPassant; rfl
@[simp] theorem setEnPassant_half (b : Board) (e : Option Sq) : (Board.setEnPassant K b e).half = b.half := by
  unfold Board.setEnPassant; rfl
@[simp] theorem setEnPassant_full (b : Board) (e : Option Sq) : (Board.setEnPassant K b e).full = b.full := by
  unfold Board.setEnPassant; rfl
@[simp] theorem setSideToMove_pieces (b : Board) (c : Color) : (Board.setSideToMove K b c).pieces = b.pieces := by
  unfold Board.setSideToMove; split <;> rfl
@[simp] theorem setSideToMove_colors (b : Board) (c : Color) : (Board.setSideToMove K b c).colors = b.colors := by
  unfold Board.setSideToMove; split <;> rfl
@[simp] theorem setSideToMove_combined (b : Board) (c : Color) : (Board.setSideToMove K b c).combined = b.combined := by
  unfold Board.setSideToMove; split <;> rfl
@[simp] theorem setSideToMove_rights (b : Board) (c : Color) : (Board.setSideToMove K b c).rights = b.rights := by
  unfold Board.setSideToMove; split <;> rfl
@[simp] theorem setSideToMove_ep (b : Board) (c : Color) : (Board.setSideToMove K b c).ep = b.ep := by
  unfold Board.setSideToMove; split <;> rfl
@[simp] theorem setSideToMove_half (b : Board) (c : Color) : (Board.setSideToMove K b c).half = b.half := by
  unfold Board.setSideToMove; split <;> rfl
@[simp] theorem setSideToMove_full (b : Board) (c : Color) : (Board.setSideToMove K b c).full = b.full := by
  unfold Board.setSideToMove; split <;> rfl
@[simp] theorem updatePinsAndChecks_pieces (b : Board)  : (Board.updatePinsAndChecks b).pieces = b.pieces := by
  rfl
@[simp] theorem updatePinsAndChecks_colors (b : Board)  : (Board.updatePinsAndChecks b).colors = b.colors := by
  rfl
@[simp] theorem updatePinsAndChecks_combined (b : Board)  : (Board.updatePinsAndChecks b).combined = b.combined := by
  rfl
@[simp] theorem updatePinsAndChecks_stm (b : Board)  : (Board.updatePinsAndChecks b).stm = b.stm := by
  rfl
@[simp] theorem updatePinsAndChecks_rights (b : Board)  : (Board.updatePinsAndChecks b).rights = b.rights := by
  rfl
@[simp] theorem updatePinsAndChecks_ep (b : Board)  : (Board.updatePinsAndChecks b).ep = b.ep := by
  rfl
@[simp] theorem updatePinsAndChecks_half (b : Board)  : (Board.updatePinsAndChecks b).half = b.half := by
  rfl
@[simp] theorem updatePinsAndChecks_full (b : Board)  : (Board.updatePinsAndChecks b).full = b.full := by
  rfl
@[simp] theorem updateTerminalStatus_pieces (b : Board)  : (Board.updateTerminalStatus K b).pieces = b.pieces := by
  rfl
@[simp] theorem updateTerminalStatus_colors (b : Board)  : (Board.updateTerminalStatus K b).colors = b.colors := by
  rfl
@[simp] theorem updateTerminalStatus_combined (b : Board)  : (Board.updateTerminalStatus K b).combined = b.combined := by
  rfl
@[simp] theorem updateTerminalStatus_stm (b : Board)  : (Board.updateTerminalStatus K b).stm = b.stm := by
  rfl
@[simp] theorem updateTerminalStatus_rights (b : Board)  : (Board.updateTerminalStatus K b).rights = b.rights := by
  rfl
@[simp] theorem updateTerminalStatus_ep (b : Board)  : (Board.updateTerminalStatus K b).ep = b.ep := by
  rfl
@[simp] theorem updateTerminalStatus_half (b : Board)  : (Board.updateTerminalStatus K b).half = b.half := by
  rfl
@[simp] theorem updateTerminalStatus_full (b : Board)  : (Board.updateTerminalStatus K b).full = b.full := by
  rfl
@[simp] theorem updateMoveNumber_pieces (b : Board)  : (Board.updateMoveNumber b).pieces = b.pieces := by
  unfold Board.updateMoveNumber; split <;> rfl
@[simp] theorem updateMoveNumber_colors (b : Board)  : (Board.updateMoveNumber b).colors = b.colors := by
  unfold Board.updateMoveNumber; split <;> rfl
@[simp] theorem updateMoveNumber_combined (b : Board)  : (Board.updateMoveNumber b).combined = b.combined := by
  unfold Board.updateMoveNumber; split <;> rfl
@[simp] theorem updateMoveNumber_stm (b : Board)  : (Board.updateMoveNumber b).stm = b.stm := by
  unfold Board.updateMoveNumber; split <;> rfl
@[simp] theorem updateMoveNumber_rights (b : Board)  : (Board.updateMoveNumber b).rights = b.rights := by
  unfold Board.updateMoveNumber; split <;> rfl
@[simp] theorem updateMoveNumber_ep (b : Board)  : (Board.updateMoveNumber b).ep = b.ep := by
  unfold Board.updateMoveNumber; split <;> rfl
@[simp] theorem updateMoveNumber_half (b : Board)  : (Board.updateMoveNumber b).half = b.half := by
  unfold Board.updateMoveNumber; split <;> rfl
@[simp] theorem updateMovesSinceCapture_pieces (b : Board) (m : Move) (ic : Bool) : (Board.updateMovesSinceCapture b m ic).pieces = b.pieces := by
  unfold Board.updateMovesSinceCapture; split <;> (try split) <;> rfl
@[simp] theorem updateMovesSinceCapture_colors (b : Board) (m : Move) (ic : Bool) : (Board.updateMovesSinceCapture b m ic).colors = b.colors := by
  unfold Board.updateMovesSinceCapture; split <;> (try split) <;> rfl
@[simp] theorem updateMovesSinceCapture_combined (b : Board) (m : Move) (ic : Bool) : (Board.updateMovesSinceCapture b m ic).combined = b.combined := by
  unfold Board.updateMovesSinceCapture; split <;> (try split) <;> rfl
@[simp] theorem updateMovesSinceCapture_stm (b : Board) (m : Move) (ic : Bool) : (Board.updateMovesSinceCapture b m ic).stm = b.stm := by
  unfold Board.updateMovesSinceCapture; split <;> (try split) <;> rfl
@[simp] theorem updateMovesSinceCapture_rights (b : Board) (m : Move) (ic : Bool) : (Board.updateMovesSinceCapture b m ic).rights = b.rights := by
  unfold Board.updateMovesSinceCapture; split <;> (try split) <;> rfl
@[simp] theorem updateMovesSinceCapture_ep (b : Board) (m : Move) (ic : Bool) : (Board.updateMovesSinceCapture b m ic).ep = b.ep := by
  unfold Board.updateMovesSinceCapture; split <;> (try split) <;> rfl
@[simp] theorem updateMovesSinceCapture_full (b : Board) (m : Move) (ic : Bool) : (Board.updateMovesSinceCapture b m ic).full = b.full := by
  unfold Board.updateMovesSinceCapture; split <;> (try split) <;> rfl
/-- the en-passant square `update_en_passant` installs -/
def epAfter : Move → Option Sq
  | .piece pt src dst _ =>
    if pt == .pawn && (if src.rk ≤ dst.rk then dst.rk - src.rk else src.rk - dst.rk) == 2 then
      some ⟨((src.rk + dst.rk) / 2) * 8 + dst.fl, by
        have : src.rk < 8 := by unfold Sq.rk; omega
        have : dst.rk < 8 := by unfold Sq.rk; omega
        have : dst.fl < 8 := by unfold Sq.fl; omega
        omega⟩
    else none
  | .castle _ => none

theorem updateEnPassant_eq (b : Board) (m : Move) : b.updateEnPassant K m = b.setEnPassant K (epAfter m) := by
  cases m with
  | castle s => rfl
  | piece pt src dst promo =>
    simp only [Board.updateEnPassant, epAfter]
    exact (apply_ite (Board.setEnPassant K b) _ _ _).symm

@[simp] theorem updateEnPassant_pieces (b : Board) (m : Move) : (Board.updateEnPassant K b m).pieces = b.pieces := by
  rw [updateEnPassant_eq]; simp
@[simp] theorem updateEnPassant_colors (b : Board) (m : Move) : (Board.updateEnPassant K b m).colors = b.colors := by
  rw [updateEnPassant_eq]; simp
@[simp] theorem updateEnPassant_combined (b : Board) (m : Move) : (Board.updateEnPassant K b m).combined = b.combined := by
  rw [updateEnPassant_eq]; simp
@[simp] theorem updateEnPassant_stm (b : Board) (m : Move) : (Board.updateEnPassant K b m).stm = b.stm := by
  rw [updateEnPassant_eq]; simp
@[simp] theorem updateEnPassant_rights (b : Board) (m : Move) : (Board.updateEnPassant K b m).rights = b.rights := by
  rw [updateEnPassant_eq]; simp
@[simp] theorem updateEnPassant_half (b : Board) (m : Move) : (Board.updateEnPassant K b m).half = b.half := by
  rw [updateEnPassant_eq]; simp
@[simp] theorem updateEnPassant_full (b : Board) (m : Move) : (Board.updateEnPassant K b m).full = b.full := by
  rw [updateEnPassant_eq]; simp
@[simp] theorem updateCastlingRights_pieces (b : Board) (m : Move) : (Board.updateCastlingRights K b m).pieces = b.pieces := by
  unfold Board.updateCastlingRights; cases m <;> simp only [] <;> (repeat' split) <;> simp
@[simp] theorem updateCastlingRights_colors (b : Board) (m : Move) : (Board.updateCastlingRights K b m).colors = b.colors := by
  unfold Board.updateCastlingRights; cases m <;> simp only [] <;> (repeat' split) <;> simp
@[simp] theorem updateCastlingRights_combined (b : Board) (m : Move) : (Board.updateCastlingRights K b m).combined = b.combined := by
  unfold Board.updateCastlingRights; cases m <;> simp only [] <;> (repeat' split) <;> simp
@[simp] theorem updateCastlingRights_stm (b : Board) (m : Move) : (Board.updateCastlingRights K b m).stm = b.stm := by
  unfold Board.updateCastlingRights; cases m <;> simp only [] <;> (repeat' split) <;> simp
@[simp] theorem updateCastlingRights_ep (b : Board) (m : Move) : (Board.updateCastlingRights K b m).ep = b.ep := by
  unfold Board.updateCastlingRights; cases m <;> simp only [] <;> (repeat' split) <;> simp
@[simp] theorem updateCastlingRights_half (b : Board) (m : Move) : (Board.updateCastlingRights K b m).half = b.half := by
  unfold Board.updateCastlingRights; cases m <;> simp only [] <;> (repeat' split) <;> simp
@[simp] theorem updateCastlingRights_full (b : Board) (m : Move) : (Board.updateCastlingRights K b m).full = b.full := by
  unfold Board.updateCastlingRights; cases m <;> simp only [] <;> (repeat' split) <;> simp

/-! ### effect lemmas -/
@[simp] theorem setCastlingRights_rights (b : Board) (c : Color) (r : CR) :
    (b.setCastlingRights K c r).rights = setFn b.rights c r := rfl
@[simp] theorem setEnPassant_ep (b : Board) (e : Option Sq) : (b.setEnPassant K e).ep = e := rfl
@[simp] theorem setSideToMove_stm (b : Board) (c : Color) : (b.setSideToMove K c).stm = c := by
  unfold Board.setSideToMove; split
  · rfl
  · rename_i h; simp only [ne_eq, Decidable.not_not] at h; exact h.symm
@[simp] theorem updateEnPassant_ep (b : Board) (m : Move) : (b.updateEnPassant K m).ep = epAfter m := by
  rw [updateEnPassant_eq]; rfl
theorem updateMoveNumber_full (b : Board) :
    b.updateMoveNumber.full = if b.stm = .black then b.full + 1 else b.full := by
  unfold Board.updateMoveNumber; split <;> rfl
theorem updateMovesSinceCapture_half_piece (b : Board) (pt src dst promo) (ic : Bool) :
    (b.updateMovesSinceCapture (.piece pt src dst promo) ic).half = if (pt == .pawn || ic) then 0 else b.half + 1 := by
  simp only [Board.updateMovesSinceCapture]; split <;> rfl
theorem updateMovesSinceCapture_half_castle (b : Board) (s : Side) (ic : Bool) :
    (b.updateMovesSinceCapture (.castle s) ic).half = b.half + 1 := rfl

theorem CR.neither_sub (x : CR) : CR.neither.sub x = .neither := by cases x <;> rfl
theorem CR.sub_neither (r : CR) : r.sub .neither = r := by cases r <;> rfl
theorem CR.toRights_sub (r x : CR) : (r.sub x).toRights = Spec.dropRights r.toRights x.hasK x.hasQ := by
  cases r <;> cases x <;> rfl
theorem CR.toRights_sub_both (r : CR) : (r.sub .both).toRights = ⟨false, false⟩ := by cases r <;> rfl

/-- one half of `update_castling_rights`: remove `x` from the rights of `c` unless there are none -/
def condSub (b : Board) (c : Color) (x : CR) : Board :=
  if b.rights c != .neither then b.setCastlingRights K c ((b.rights c).sub x) else b

@[simp] theorem condSub_stm (b : Board) (c : Color) (x : CR) : (condSub K b c x).stm = b.stm := by
  unfold condSub; split <;> rfl
theorem condSub_rights (b : Board) (c : Color) (x : CR) :
    (condSub K b c x).rights = setFn b.rights c ((b.rights c).sub x) := by
  unfold condSub; split
  · rfl
  · rename_i h
    have h' : b.rights c = .neither := by simpa using h
    funext y; simp only [setFn]; split
    · rename_i e; subst e; rw [h', CR.neither_sub]
    · rfl

/-- what a move takes from the opponent's rights (`o` = the opponent) -/
def oppLoss (o : Color) : Move → CR
  | .piece _ _ dst _ => if dst = homeSq o 7 then .kingSide else if dst = homeSq o 0 then .queenSide else .neither
  | .castle _ => .neither
/-- what a move takes from the mover's rights (`c` = the mover) -/
def ownLoss (c : Color) : Move → CR
  | .piece .rook src _ _ => if src = homeSq c 7 then .kingSide else if src = homeSq c 0 then .queenSide else .neither
  | .piece .king _ _ _ => .both
  | .piece _ _ _ _ => .neither
  | .castle _ => .both

theorem updateCastlingRights_rights' (b : Board) (m : Move) :
    (b.updateCastlingRights K m).rights =
      setFn (setFn b.rights b.stm.other ((b.rights b.stm.other).sub (oppLoss b.stm.other m)))
        b.stm ((b.rights b.stm).sub (ownLoss b.stm m)) := by
  cases m with
  | piece pt src dst promo =>
    show (condSub K (condSub K b b.stm.other (oppLoss b.stm.other (.piece pt src dst promo)))
            (condSub K b b.stm.other (oppLoss b.stm.other (.piece pt src dst promo))).stm
            (ownLoss (condSub K b b.stm.other (oppLoss b.stm.other (.piece pt src dst promo))).stm (.piece pt src dst promo))).rights = _
    rw [condSub_rights, condSub_stm, condSub_rights]
    rw [setFn_other _ _ _ _ (Color.other_ne b.stm).symm]
  | castle s =>
    show (condSub K b b.stm (ownLoss b.stm (.castle s))).rights = _
    rw [condSub_rights]
    simp only [oppLoss, CR.sub_neither]
    funext y; simp only [setFn]; split
    · rfl
    · split
      · rename_i e; rw [e]
      · rfl

/-! ### capture flag, en-passant square -/
theorem Board.Cons.isCapture {b : Board} (h : b.Cons) (m : Move) : b.isCapture m = Spec.isCapture b.absPos m := by
  cases m with
  | castle s => rfl
  | piece pt src dst promo =>
    simp only [Board.isCapture, Spec.isCapture, Board.absPos]
    rw [BitVec.and_comm, isBlank_and_bbOf, h.cls, isEpMove_eq]
    cases b.abs dst with
    | none => rfl
    | some q => simp only [Bool.not_not, Color.beq_other]

theorem epAfter_pawn (src dst : Sq) (promo : Option PT) :
    epAfter (.piece .pawn src dst promo) =
      if (dst.rank - src.rank).natAbs == 2 then mkSq? ((src.rank + dst.rank) / 2) dst.file else none := by
  have hsr : src.rank = (src.rk : Int) := rfl
  have hdr : dst.rank = (dst.rk : Int) := rfl
  have hdf : dst.file = (dst.fl : Int) := rfl
  have b1 : src.rk < 8 := by unfold Sq.rk; omega
  have b2 : dst.rk < 8 := by unfold Sq.rk; omega
  have b3 : dst.fl < 8 := by unfold Sq.fl; omega
  simp only [epAfter, mkSq?, beq_self_eq_true, Bool.true_and, beq_iff_eq, hsr, hdr, hdf]
  by_cases hc : (if src.rk ≤ dst.rk then dst.rk - src.rk else src.rk - dst.rk) = 2
  · have hc' : ((dst.rk : Int) - (src.rk : Int)).natAbs = 2 := by split at hc <;> omega
    rw [if_pos hc, if_pos hc', dif_pos (by omega)]
    simp only [Option.some.injEq, Fin.mk.injEq]; omega
  · have hc' : ¬ ((dst.rk : Int) - (src.rk : Int)).natAbs = 2 := by split at hc <;> omega
    rw [if_neg hc, if_neg hc']

theorem epAfter_not_pawn (pt : PT) (src dst : Sq) (promo : Option PT) (h : pt ≠ .pawn) :
    epAfter (.piece pt src dst promo) = none := by
  simp [epAfter, h]

/-! ### the two halves of `make_move_mut_unchecked` -/

/-- placement stage -/
def Board.place (b : Board) (m : Move) : Board :=
  match m with
  | .piece pt src dst promo => (b.movePiece K pt src dst promo).clearIfEp K pt dst
  | .castle .king =>
    ((b.movePiece K .king (homeSq b.stm 4) (homeSq b.stm 6) none).movePiece K .rook (homeSq b.stm 7) (homeSq b.stm 5) none)
  | .castle .queen =>
    ((b.movePiece K .king (homeSq b.stm 4) (homeSq b.stm 2) none).movePiece K .rook (homeSq b.stm 0) (homeSq b.stm 3) none)

/-- bookkeeping stage -/
def Board.finish (b1 : Board) (m : Move) (isCap : Bool) : Board :=
  ((((((b1.updateMoveNumber.updateMovesSinceCapture m isCap).updateCastlingRights K m).setSideToMove K b1.stm.other
    ).updateEnPassant K m).updatePinsAndChecks).updateTerminalStatus K)

theorem makeMoveUnchecked_eq (b : Board) (m : Move) :
    b.makeMoveUnchecked K m = (b.place K m).finish K m (b.isCapture m) := rfl

@[simp] theorem place_stm (b : Board) (m : Move) : (b.place K m).stm = b.stm := by
  rcases m with _ | (_ | _) <;> simp [Board.place]
@[simp] theorem place_rights (b : Board) (m : Move) : (b.place K m).rights = b.rights := by
  rcases m with _ | (_ | _) <;> simp [Board.place]
@[simp] theorem place_ep (b : Board) (m : Move) : (b.place K m).ep = b.ep := by
  rcases m with _ | (_ | _) <;> simp [Board.place]
@[simp] theorem place_half (b : Board) (m : Move) : (b.place K m).half = b.half := by
  rcases m with _ | (_ | _) <;> simp [Board.place]
@[simp] theorem place_full (b : Board) (m : Move) : (b.place K m).full = b.full := by
  rcases m with _ | (_ | _) <;> simp [Board.place]

/-! the bookkeeping stage: frame and effect -/
@[simp] theorem finish_pieces (b1 : Board) (m : Move) (ic : Bool) : (b1.finish K m ic).pieces = b1.pieces := by
  simp [Board.finish]
@[simp] theorem finish_colors (b1 : Board) (m : Move) (ic : Bool) : (b1.finish K m ic).colors = b1.colors := by
  simp [Board.finish]
@[simp] theorem finish_combined (b1 : Board) (m : Move) (ic : Bool) : (b1.finish K m ic).combined = b1.combined := by
  simp [Board.finish]
theorem finish_stm (b1 : Board) (m : Move) (ic : Bool) : (b1.finish K m ic).stm = b1.stm.other := by
  simp [Board.finish]
theorem finish_ep (b1 : Board) (m : Move) (ic : Bool) : (b1.finish K m ic).ep = epAfter m := by
  simp [Board.finish]
theorem finish_full (b1 : Board) (m : Move) (ic : Bool) :
    (b1.finish K m ic).full = if b1.stm = .black then b1.full + 1 else b1.full := by
  simp [Board.finish, updateMoveNumber_full]
theorem finish_half_piece (b1 : Board) (pt src dst promo) (ic : Bool) :
    (b1.finish K (.piece pt src dst promo) ic).half = if (pt == .pawn || ic) then 0 else b1.half + 1 := by
  simp [Board.finish, updateMovesSinceCapture_half_piece]
theorem finish_half_castle (b1 : Board) (s : Side) (ic : Bool) :
    (b1.finish K (.castle s) ic).half = b1.half + 1 := by
  simp [Board.finish, updateMovesSinceCapture_half_castle]
theorem finish_rights (b1 : Board) (m : Move) (ic : Bool) :
    (b1.finish K m ic).rights =
      setFn (setFn b1.rights b1.stm.other ((b1.rights b1.stm.other).sub (oppLoss b1.stm.other m)))
        b1.stm ((b1.rights b1.stm).sub (ownLoss b1.stm m)) := by
  simp [Board.finish, updateCastlingRights_rights']

theorem Rep.finish {b1 : Board} {f} (h : Rep b1 f) (m : Move) (ic : Bool) : Rep (b1.finish K m ic) f :=
  h.of_masks (finish_pieces K b1 m ic) (finish_colors K b1 m ic) (finish_combined K b1 m ic)

/-! ### the placement stage against `Spec.applyBoard` -/

/-- the squares a move lifts men from hold men of the mover's colour (all that the placement stage needs) -/
def moverOnSource (p : Spec.Pos) : Move → Bool
  | .piece _ src _ _ => Spec.isColor p.board p.stm src
  | .castle .king => Spec.isColor p.board p.stm (homeSq p.stm 4) && Spec.isColor p.board p.stm (homeSq p.stm 7)
  | .castle .queen => Spec.isColor p.board p.stm (homeSq p.stm 4) && Spec.isColor p.board p.stm (homeSq p.stm 0)

theorem isColor_iff (f : Sq → Option Piece) (c : Color) (s : Sq) :
    Spec.isColor f c s = true ↔ ∃ q, f s = some q ∧ q.c = c := by
  unfold Spec.isColor
  cases f s with
  | none => simp
  | some q => simp

theorem applyBoard_castle_king (p : Spec.Pos) :
    Spec.applyBoard p (.castle .king) =
      Spec.upd (Spec.upd (Spec.upd (Spec.upd p.board (homeSq p.stm 4) none) (homeSq p.stm 7) none)
        (homeSq p.stm 6) (some ⟨.king, p.stm⟩)) (homeSq p.stm 5) (some ⟨.rook, p.stm⟩) := by
  obtain ⟨bd, c, r, e, hf, fl⟩ := p
  cases c <;> rfl

theorem applyBoard_castle_queen (p : Spec.Pos) :
    Spec.applyBoard p (.castle .queen) =
      Spec.upd (Spec.upd (Spec.upd (Spec.upd p.board (homeSq p.stm 4) none) (homeSq p.stm 0) none)
        (homeSq p.stm 2) (some ⟨.king, p.stm⟩)) (homeSq p.stm 3) (some ⟨.rook, p.stm⟩) := by
  obtain ⟨bd, c, r, e, hf, fl⟩ := p
  cases c <;> rfl

/-- king e→kt then rook rf→rt equals the specification's order of updates when the four squares are distinct -/
theorem upd_castle_comm (f : Sq → Option Piece) (e rf kt rt : Sq) (k r : Option Piece)
    (h1 : rf ≠ e) (h2 : rf ≠ kt) :
    Spec.upd (Spec.upd (Spec.upd (Spec.upd f e none) kt k) rf none) rt r =
      Spec.upd (Spec.upd (Spec.upd (Spec.upd f e none) rf none) kt k) rt r := by
  funext x
  simp only [Spec.upd]
  by_cases a : x = rt <;> by_cases b : x = rf <;> by_cases c : x = kt <;> by_cases d : x = e <;> simp_all

theorem Board.Cons.place {b : Board} (h : b.Cons) (m : Move) (hm : moverOnSource b.absPos m = true) :
    Rep (b.place K m) (Spec.applyBoard b.absPos m) := by
  have h : Rep b b.abs := h
  rcases m with ⟨pt, src, dst, promo⟩ | (_ | _)
  · obtain ⟨q, hq, hc⟩ := (isColor_iff _ _ _).1 hm
    have R1 := Rep.movePiece K h pt src dst promo q hq
    have R2 := R1.clearIfEp K pt dst
    simp only [movePiece_ep, movePiece_stm] at R2
    have hc' : q.c = b.stm := hc
    rw [hc'] at R2
    exact R2
  · simp only [moverOnSource, Bool.and_eq_true, isColor_iff] at hm
    obtain ⟨⟨qk, hk, hkc⟩, ⟨qr, hr, hrc⟩⟩ := hm
    have hkc' : qk.c = b.stm := hkc
    have hrc' : qr.c = b.stm := hrc
    have d1 : homeSq b.stm 7 ≠ homeSq b.stm 4 := fun e => by have := homeSq_inj _ _ _ _ _ e; omega
    have d2 : homeSq b.stm 7 ≠ homeSq b.stm 6 := fun e => by have := homeSq_inj _ _ _ _ _ e; omega
    have R1 := Rep.movePiece K h .king (homeSq b.stm 4) (homeSq b.stm 6) none qk hk
    have R2 := R1.movePiece K .rook (homeSq b.stm 7) (homeSq b.stm 5) none qr (by simp [Spec.upd, d1, d2]; exact hr)
    rw [applyBoard_castle_king]
    simp only [Option.getD_none, hkc', hrc'] at R2
    rw [upd_castle_comm _ _ _ _ _ _ _ d1 d2] at R2
    exact R2
  · simp only [moverOnSource, Bool.and_eq_true, isColor_iff] at hm
    obtain ⟨⟨qk, hk, hkc⟩, ⟨qr, hr, hrc⟩⟩ := hm
    have hkc' : qk.c = b.stm := hkc
    have hrc' : qr.c = b.stm := hrc
    have d1 : homeSq b.stm 0 ≠ homeSq b.stm 4 := fun e => by have := homeSq_inj _ _ _ _ _ e; omega
    have d2 : homeSq b.stm 0 ≠ homeSq b.stm 2 := fun e => by have := homeSq_inj _ _ _ _ _ e; omega
    have R1 := Rep.movePiece K h .king (homeSq b.stm 4) (homeSq b.stm 2) none qk hk
    have R2 := R1.movePiece K .rook (homeSq b.stm 0) (homeSq b.stm 3) none qr (by simp [Spec.upd, d1, d2]; exact hr)
    rw [applyBoard_castle_queen]
    simp only [Option.getD_none, hkc', hrc'] at R2
    rw [upd_castle_comm _ _ _ _ _ _ _ d1 d2] at R2
    exact R2

end Chess
