import Chess.Model.Game
import Chess.Lemmas.BB
/-! # SAN text structure (for C14)

`sanText` of a piece move is `letter? ++ disamb ++ x? ++ [file, rank] ++ (=X)? ++ suffix?`.
This file names the six parts, proves the decomposition equation by `rfl`, and proves — without any parser — that
every part can be recovered from the text (`sanText_piece_inj`), that castling texts differ from each other and
from every piece move text. -/
namespace Chess

/-! ### the parts -/
/-- piece letter (none for a pawn) -/
def sanL (pt : PT) : Str := match pt with | .pawn => [] | t => [t.letter]
/-- disambiguation characters -/
def sanD (a : Amb) (src : Sq) : Str :=
  match a with
  | .extraFile => [fileChar src.fl] | .extraRank => [rankChar src.rk]
  | .extraSquare => printSquare src | .neither => []
/-- capture mark -/
def sanX (c : Bool) : Str := if c then ['x'] else []
/-- promotion suffix -/
def sanP (promo : Option PT) : Str := match promo with | some t => ['=', t.letter] | none => []
/-- check / mate suffix from the two flags -/
def sanChk (mate check : Bool) : Str := if mate then ['#'] else if check then ['+'] else []
def sanC (p : MoveProps) : Str := sanChk p.isMate p.isCheck
def castleStr : Side → Str | .king => ['O', '-', 'O'] | .queen => ['O', '-', 'O', '-', 'O']

/-- the decomposition equation of a piece move text -/
theorem sanText_piece (pt : PT) (src dst : Sq) (promo : Option PT) (p : MoveProps) :
    sanText (.piece pt src dst promo) p =
      sanL pt ++ sanD p.amb src ++ sanX p.isCapture ++ printSquare dst ++ sanP promo ++ sanC p := by
  cases pt <;> cases promo <;> rfl

theorem sanText_castle (s : Side) (p : MoveProps) : sanText (.castle s) p = castleStr s ++ sanC p := by
  cases s <;> rfl

/-! ### character classes -/
def isPieceLetter (c : Char) : Bool := c == 'N' || c == 'B' || c == 'R' || c == 'Q' || c == 'K' || c == 'P'
def isFileCh (c : Char) : Bool := 'a'.toNat ≤ c.toNat && c.toNat ≤ 'h'.toNat
def isRankCh (c : Char) : Bool := '1'.toNat ≤ c.toNat && c.toNat ≤ '8'.toNat
def isChkCh (c : Char) : Bool := c == '+' || c == '#'

theorem Sq.fl_lt (s : Sq) : s.fl < 8 := by unfold Sq.fl; omega
theorem Sq.rk_lt (s : Sq) : s.rk < 8 := by unfold Sq.rk; omega
theorem Sq.ext_rk_fl {s t : Sq} (hr : s.rk = t.rk) (hf : s.fl = t.fl) : s = t := by
  unfold Sq.rk at hr; unfold Sq.fl at hf; apply Fin.ext; omega

/-- one finite table of all the character facts used below, checked by evaluation -/
theorem fileChar_facts : ∀ f : Fin 8,
    isFileCh (fileChar f.val) = true ∧ isRankCh (fileChar f.val) = false ∧ isPieceLetter (fileChar f.val) = false ∧
    isChkCh (fileChar f.val) = false ∧ fileChar f.val ≠ 'x' ∧ fileChar f.val ≠ '=' ∧ fileChar f.val ≠ 'O' ∧ fileChar f.val ≠ '-' := by
  decide
theorem rankChar_facts : ∀ r : Fin 8,
    isRankCh (rankChar r.val) = true ∧ isFileCh (rankChar r.val) = false ∧ isPieceLetter (rankChar r.val) = false ∧
    isChkCh (rankChar r.val) = false ∧ rankChar r.val ≠ 'x' ∧ rankChar r.val ≠ '=' ∧ rankChar r.val ≠ 'O' ∧ rankChar r.val ≠ '-' := by
  decide
theorem letter_facts : ∀ t : PT,
    isPieceLetter t.letter = true ∧ isFileCh t.letter = false ∧ isRankCh t.letter = false ∧
    isChkCh t.letter = false ∧ t.letter ≠ 'x' ∧ t.letter ≠ '=' ∧ t.letter ≠ 'O' ∧ t.letter ≠ '-' := by
  intro t; cases t <;> decide
theorem fileChar_inj : ∀ f g : Fin 8, fileChar f.val = fileChar g.val → f = g := by decide
theorem rankChar_inj : ∀ f g : Fin 8, rankChar f.val = rankChar g.val → f = g := by decide
theorem letter_inj : ∀ t u : PT, t.letter = u.letter → t = u := by
  intro t u; cases t <;> cases u <;> decide

theorem fileChar_fl_inj {s t : Sq} (h : fileChar s.fl = fileChar t.fl) : s.fl = t.fl := by
  have := fileChar_inj ⟨s.fl, s.fl_lt⟩ ⟨t.fl, t.fl_lt⟩ h
  exact congrArg Fin.val this
theorem rankChar_rk_inj {s t : Sq} (h : rankChar s.rk = rankChar t.rk) : s.rk = t.rk := by
  have := rankChar_inj ⟨s.rk, s.rk_lt⟩ ⟨t.rk, t.rk_lt⟩ h
  exact congrArg Fin.val this

theorem fc (s : Sq) :
    isFileCh (fileChar s.fl) = true ∧ isRankCh (fileChar s.fl) = false ∧ isPieceLetter (fileChar s.fl) = false ∧
    isChkCh (fileChar s.fl) = false ∧ fileChar s.fl ≠ 'x' ∧ fileChar s.fl ≠ '=' ∧ fileChar s.fl ≠ 'O' ∧ fileChar s.fl ≠ '-' :=
  fileChar_facts ⟨s.fl, s.fl_lt⟩
theorem rc (s : Sq) :
    isRankCh (rankChar s.rk) = true ∧ isFileCh (rankChar s.rk) = false ∧ isPieceLetter (rankChar s.rk) = false ∧
    isChkCh (rankChar s.rk) = false ∧ rankChar s.rk ≠ 'x' ∧ rankChar s.rk ≠ '=' ∧ rankChar s.rk ≠ 'O' ∧ rankChar s.rk ≠ '-' :=
  rankChar_facts ⟨s.rk, s.rk_lt⟩

theorem rankChar_ne_letter (s : Sq) (t : PT) : rankChar s.rk ≠ t.letter := by
  intro e; have h := (letter_facts t).2.2.1; rw [← e, (rc s).1] at h; cases h

theorem printSquare_inj {s t : Sq} (h : printSquare s = printSquare t) : s = t := by
  simp only [printSquare, List.cons.injEq, and_true] at h
  exact Sq.ext_rk_fl (rankChar_rk_inj h.2) (fileChar_fl_inj h.1)

/-! ### shapes of the parts -/
theorem sanChk_cases (m c : Bool) : sanChk m c = [] ∨ sanChk m c = ['+'] ∨ sanChk m c = ['#'] := by
  cases m <;> cases c <;> simp [sanChk]

/-- an optional leading character of class `P` can be split off when what follows does not start with a `P` character -/
theorem peel1 (P : Char → Bool) {o₁ o₂ t₁ t₂ : Str}
    (ho₁ : o₁ = [] ∨ ∃ c, P c = true ∧ o₁ = [c]) (ho₂ : o₂ = [] ∨ ∃ c, P c = true ∧ o₂ = [c])
    (ht₁ : ∀ c r, t₁ = c :: r → P c = false) (ht₂ : ∀ c r, t₂ = c :: r → P c = false)
    (h : o₁ ++ t₁ = o₂ ++ t₂) : o₁ = o₂ ∧ t₁ = t₂ := by
  rcases ho₁ with rfl | ⟨c₁, hc₁, rfl⟩ <;> rcases ho₂ with rfl | ⟨c₂, hc₂, rfl⟩
  · exact ⟨rfl, h⟩
  · have := ht₁ c₂ t₂ h; rw [this] at hc₂; cases hc₂
  · have := ht₂ c₁ t₁ h.symm; rw [this] at hc₁; cases hc₁
  · simp only [List.cons_append, List.nil_append, List.cons.injEq] at h
    exact ⟨by rw [h.1], h.2⟩

theorem sanC_shape (p : MoveProps) : sanC p = [] ∨ ∃ c, isChkCh c = true ∧ sanC p = [c] := by
  rcases sanChk_cases p.isMate p.isCheck with h | h | h
  · exact Or.inl h
  · exact Or.inr ⟨'+', by decide, h⟩
  · exact Or.inr ⟨'#', by decide, h⟩
theorem sanC_reverse (p : MoveProps) : (sanC p).reverse = sanC p := by
  rcases sanC_shape p with h | ⟨c, _, h⟩ <;> rw [h] <;> rfl
theorem sanX_shape (x : Bool) : sanX x = [] ∨ ∃ c, (c == 'x') = true ∧ sanX x = [c] := by
  cases x
  · exact Or.inl rfl
  · exact Or.inr ⟨'x', by decide, rfl⟩
theorem sanX_reverse (x : Bool) : (sanX x).reverse = sanX x := by cases x <;> rfl
theorem sanX_inj {x y : Bool} (h : sanX x = sanX y) : x = y := by
  cases x <;> cases y <;> simp [sanX] at h ⊢
theorem sanL_shape (pt : PT) : sanL pt = [] ∨ ∃ c, isPieceLetter c = true ∧ sanL pt = [c] := by
  cases pt
  · exact Or.inl rfl
  all_goals exact Or.inr ⟨_, by decide, rfl⟩
theorem sanL_inj : ∀ t u : PT, sanL t = sanL u → t = u := by
  intro t u; cases t <;> cases u <;> decide
theorem sanP_inj : ∀ t u : Option PT, sanP t = sanP u → t = u := by
  intro t u h
  cases t <;> cases u <;> simp [sanP] at h ⊢
  exact letter_inj _ _ h

/-- the disambiguation part starts (if at all) with a file or rank character -/
theorem sanD_head (a : Amb) (s : Sq) (c : Char) (r : Str) (h : sanD a s = c :: r) :
    isPieceLetter c = false ∧ (c == 'x') = false ∧ c ≠ 'O' := by
  have hf := fc s; have hr := rc s
  cases a <;> simp only [sanD, printSquare, List.cons.injEq, reduceCtorEq] at h
  all_goals (obtain ⟨rfl, _⟩ := h; simp [hf, hr])
theorem sanD_reverse_head (a : Amb) (s : Sq) (c : Char) (r : Str) (h : (sanD a s).reverse = c :: r) :
    isPieceLetter c = false ∧ (c == 'x') = false := by
  have hf := fc s; have hr := rc s
  cases a <;> simp only [sanD, printSquare, List.reverse_cons, List.reverse_nil, List.nil_append, List.cons_append,
    List.cons.injEq, reduceCtorEq] at h
  all_goals (obtain ⟨rfl, _⟩ := h; simp [hf, hr])

/-! ### the inversion: every part is determined by the text -/
theorem sanText_piece_inj {pt₁ pt₂ : PT} {src₁ src₂ dst₁ dst₂ : Sq} {promo₁ promo₂ : Option PT} {p₁ p₂ : MoveProps}
    (h : sanText (.piece pt₁ src₁ dst₁ promo₁) p₁ = sanText (.piece pt₂ src₂ dst₂ promo₂) p₂) :
    pt₁ = pt₂ ∧ dst₁ = dst₂ ∧ promo₁ = promo₂ ∧ sanD p₁.amb src₁ = sanD p₂.amb src₂ ∧
    p₁.isCapture = p₂.isCapture ∧ sanC p₁ = sanC p₂ := by
  rw [sanText_piece, sanText_piece] at h
  have h := congrArg List.reverse h
  simp only [List.reverse_append, List.append_assoc, sanC_reverse, sanX_reverse] at h
  -- 1. the check suffix
  have hd₁ := rc dst₁; have hd₂ := rc dst₂
  have hdf₁ := fc dst₁; have hdf₂ := fc dst₂
  obtain ⟨hC, h⟩ := peel1 isChkCh (sanC_shape p₁) (sanC_shape p₂)
    (by intro c r hc
        cases promo₁ <;> simp only [sanP, printSquare, List.reverse_cons, List.reverse_nil, List.nil_append,
          List.cons_append, List.cons.injEq] at hc
        · obtain ⟨rfl, _⟩ := hc; exact hd₁.2.2.2.1
        · obtain ⟨rfl, _⟩ := hc; exact (letter_facts _).2.2.2.1)
    (by intro c r hc
        cases promo₂ <;> simp only [sanP, printSquare, List.reverse_cons, List.reverse_nil, List.nil_append,
          List.cons_append, List.cons.injEq] at hc
        · obtain ⟨rfl, _⟩ := hc; exact hd₂.2.2.2.1
        · obtain ⟨rfl, _⟩ := hc; exact (letter_facts _).2.2.2.1) h
  -- 2. the promotion suffix and the destination
  have hPD : promo₁ = promo₂ ∧ dst₁ = dst₂ ∧
      sanX p₁.isCapture ++ ((sanD p₁.amb src₁).reverse ++ (sanL pt₁).reverse) =
      sanX p₂.isCapture ++ ((sanD p₂.amb src₂).reverse ++ (sanL pt₂).reverse) := by
    cases promo₁ <;> cases promo₂ <;>
      simp only [sanP, printSquare, List.reverse_cons, List.reverse_nil, List.nil_append,
          List.cons_append, List.cons.injEq] at h
    · exact ⟨rfl, Sq.ext_rk_fl (rankChar_rk_inj h.1) (fileChar_fl_inj h.2.1), h.2.2⟩
    · exact absurd h.1 (rankChar_ne_letter _ _)
    · exact absurd h.1.symm (rankChar_ne_letter _ _)
    · rw [letter_inj _ _ h.1]
      exact ⟨rfl, Sq.ext_rk_fl (rankChar_rk_inj h.2.2.1) (fileChar_fl_inj h.2.2.2.1), h.2.2.2.2⟩
  obtain ⟨hP, hDst, h⟩ := hPD
  -- 3. the capture mark
  have tailHead : ∀ (a : Amb) (s : Sq) (pt : PT) c r, (sanD a s).reverse ++ (sanL pt).reverse = c :: r → (c == 'x') = false := by
    intro a s pt c r hc
    rcases hs : (sanD a s).reverse with _ | ⟨c', r'⟩
    · rw [hs, List.nil_append] at hc
      cases pt <;> simp only [sanL, List.reverse_cons, List.reverse_nil, List.nil_append, List.cons.injEq, reduceCtorEq] at hc
      all_goals (obtain ⟨rfl, _⟩ := hc; decide)
    · rw [hs, List.cons_append, List.cons.injEq] at hc
      obtain ⟨rfl, _⟩ := hc
      exact (sanD_reverse_head a s _ _ hs).2
  obtain ⟨hX, h⟩ := peel1 (· == 'x') (sanX_shape _) (sanX_shape _) (tailHead _ _ _) (tailHead _ _ _) h
  -- 4. letter and disambiguation
  have h := congrArg List.reverse h
  simp only [List.reverse_append, List.reverse_reverse] at h
  obtain ⟨hL, hD⟩ := peel1 isPieceLetter (sanL_shape pt₁) (sanL_shape pt₂)
    (fun c r hc => (sanD_head _ _ c r hc).1) (fun c r hc => (sanD_head _ _ c r hc).1) h
  exact ⟨sanL_inj _ _ hL, hDst, hP, hD, sanX_inj hX, hC⟩

/-- a piece move text never starts with `O` -/
theorem sanText_piece_head (pt : PT) (src dst : Sq) (promo : Option PT) (p : MoveProps) :
    ∃ c r, sanText (.piece pt src dst promo) p = c :: r ∧ c ≠ 'O' := by
  rw [sanText_piece]
  rcases sanL_shape pt with hl | ⟨c, hc, hl⟩
  · rw [hl, List.nil_append]
    rcases hd : sanD p.amb src with _ | ⟨c, r⟩
    · rw [List.nil_append]
      cases p.isCapture
      · exact ⟨_, _, rfl, (fc dst).2.2.2.2.2.2.1⟩
      · exact ⟨_, _, rfl, by decide⟩
    · exact ⟨_, _, rfl, (sanD_head _ _ _ _ hd).2.2⟩
  · rw [hl]
    refine ⟨c, _, rfl, ?_⟩
    rintro rfl; cases hc

theorem sanText_castle_ne_piece (s : Side) (pt : PT) (src dst : Sq) (promo : Option PT) (p q : MoveProps) :
    sanText (.castle s) p ≠ sanText (.piece pt src dst promo) q := by
  obtain ⟨c, r, hc, hne⟩ := sanText_piece_head pt src dst promo q
  rw [hc, sanText_castle]
  cases s <;> simp only [castleStr, List.cons_append, ne_eq, List.cons.injEq, not_and] <;> intro e <;> exact absurd e.symm hne

theorem sanText_castle_inj {s₁ s₂ : Side} {p₁ p₂ : MoveProps} (h : sanText (.castle s₁) p₁ = sanText (.castle s₂) p₂) :
    s₁ = s₂ ∧ sanC p₁ = sanC p₂ := by
  rw [sanText_castle, sanText_castle] at h
  rcases sanC_shape p₁ with h₁ | ⟨c₁, hc₁, h₁⟩ <;> rcases sanC_shape p₂ with h₂ | ⟨c₂, hc₂, h₂⟩ <;>
    rw [h₁, h₂] at h ⊢ <;> cases s₁ <;> cases s₂ <;>
    simp only [castleStr, List.cons_append, List.nil_append, List.cons.injEq, true_and, and_true, reduceCtorEq,
      List.append_nil] at h ⊢
  all_goals first
    | exact h
    | (exfalso; obtain ⟨rfl, _⟩ := h; cases hc₁)
    | (exfalso; obtain ⟨rfl, _⟩ := h; cases hc₂)
    | (exfalso; simp at h)

end Chess
