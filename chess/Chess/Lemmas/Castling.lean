import Chess.Lemmas.Legal
/-! Castling part of C01: `Board.castlingAvailable` names exactly the castling moves the rules allow
(`Spec.castleOk`), and an available castling implies a legal one-step king move. -/
namespace Chess
open Board

/-! ### a list lemma and the king square of a placement -/
theorem countP_one_unique' {α} (p : α → Bool) :
    ∀ (l : List α), l.countP p = 1 → ∀ a b, a ∈ l → b ∈ l → p a = true → p b = true → a = b
  | [], h => by simp at h
  | x :: xs, h => by
    intro a b ha hb pa pb
    rw [List.countP_cons] at h
    by_cases px : p x = true
    · simp only [px, if_true] at h
      have h0 : xs.countP p = 0 := by omega
      rw [List.countP_eq_zero] at h0
      have ha' : a = x := by
        rcases List.mem_cons.1 ha with r | r
        · exact r
        · exact absurd pa (h0 a r)
      have hb' : b = x := by
        rcases List.mem_cons.1 hb with r | r
        · exact r
        · exact absurd pb (h0 b r)
      rw [ha', hb']
    · simp only [px] at h
      have h1 : xs.countP p = 1 := by simpa using h
      have ha' : a ∈ xs := by
        rcases List.mem_cons.1 ha with r | r
        · subst r; exact absurd pa px
        · exact r
      have hb' : b ∈ xs := by
        rcases List.mem_cons.1 hb with r | r
        · subst r; exact absurd pb px
        · exact r
      exact countP_one_unique' p xs h1 a b ha' hb' pa pb

theorem king_unique_of_count (f : Sq → Option Piece) (c : Color) (h : Spec.countPiece f ⟨.king, c⟩ = 1)
    (s t : Sq) (hs : f s = some ⟨.king, c⟩) (ht : f t = some ⟨.king, c⟩) : s = t := by
  unfold Spec.countPiece at h
  exact countP_one_unique' _ _ h s t (List.mem_finRange s) (List.mem_finRange t) (by simp [hs]) (by simp [ht])

theorem exists_king_of_count (f : Sq → Option Piece) (c : Color) (h : Spec.countPiece f ⟨.king, c⟩ = 1) :
    ∃ k, f k = some ⟨.king, c⟩ := by
  unfold Spec.countPiece at h
  have hp : 0 < allSq.countP (fun s => f s == some ⟨.king, c⟩) := by omega
  rw [List.countP_pos_iff] at hp
  obtain ⟨k, _, hk⟩ := hp
  exact ⟨k, by simpa using hk⟩

/-- exactly one king of colour `c` ⇒ the specification finds it -/
theorem kingSq?_of_count (f : Sq → Option Piece) (c : Color) (h : Spec.countPiece f ⟨.king, c⟩ = 1) :
    ∃ k, Spec.kingSq? f c = some k ∧ f k = some ⟨.king, c⟩ := by
  obtain ⟨k, hk⟩ := exists_king_of_count f c h
  exact ⟨k, kingSq?_of_unique f c k hk (fun s hs => king_unique_of_count f c h s k hs hk), hk⟩

/-! ### `attacks` depends only on the attacker and on the emptiness of the squares strictly between -/
theorem clearBetween_congr (f g : Sq → Option Piece) (a t : Sq)
    (h : ∀ x, Spec.strictlyBetween a x t = true → (f x).isNone = (g x).isNone) :
    Spec.clearBetween f a t = Spec.clearBetween g a t := by
  unfold Spec.clearBetween
  apply List.all_congr rfl
  intro x
  cases hb : Spec.strictlyBetween a x t with
  | false => rfl
  | true => simp [h x hb]

theorem clearBetween_false_of (f : Sq → Option Piece) (a t x : Sq)
    (hx : Spec.strictlyBetween a x t = true) (hf : (f x).isSome = true) : Spec.clearBetween f a t = false := by
  unfold Spec.clearBetween
  rw [List.all_eq_false]
  refine ⟨x, List.mem_finRange x, ?_⟩
  cases hfx : f x with
  | none => simp [hfx] at hf
  | some p => simp [hx]

theorem clearBetween_true_iff (f : Sq → Option Piece) (a t : Sq) :
    Spec.clearBetween f a t = true ↔ ∀ x, Spec.strictlyBetween a x t = true → f x = none := by
  unfold Spec.clearBetween
  rw [List.all_eq_true]
  constructor
  · intro h x hx
    have := h x (List.mem_finRange x)
    simpa [hx] using this
  · intro h x _
    cases hb : Spec.strictlyBetween a x t with
    | false => rfl
    | true => simp [h x hb]

/-- the congruence lemma -/
theorem attacks_congr (f g : Sq → Option Piece) (a t : Sq) (ha : f a = g a)
    (hc : Spec.clearBetween f a t = Spec.clearBetween g a t) : Spec.attacks f a t = Spec.attacks g a t := by
  unfold Spec.attacks
  rw [ha, hc]

theorem attacks_congr' (f g : Sq → Option Piece) (a t : Sq) (ha : f a = g a)
    (h : ∀ x, Spec.strictlyBetween a x t = true → (f x).isNone = (g x).isNone) :
    Spec.attacks f a t = Spec.attacks g a t :=
  attacks_congr f g a t ha (clearBetween_congr f g a t h)

theorem attackedBy_congr (f g : Sq → Option Piece) (c : Color) (t u : Sq)
    (h : ∀ a, (Spec.isColor f c a && Spec.attacks f a t) = (Spec.isColor g c a && Spec.attacks g a u)) :
    Spec.attackedBy f c t = Spec.attackedBy g c u := by
  rw [attackedBy_eq_any, attackedBy_eq_any]
  apply List.any_congr rfl
  intro a
  exact h a

theorem isColor_other_own (c : Color) (t : PT) (f : Sq → Option Piece) (s : Sq) (h : f s = some ⟨t, c⟩) :
    Spec.isColor f c.other s = false := by
  unfold Spec.isColor; rw [h]; cases c <;> rfl

theorem isColor_none (c : Color) (f : Sq → Option Piece) (s : Sq) (h : f s = none) :
    Spec.isColor f c s = false := by
  unfold Spec.isColor; rw [h]

/-! ### the geometric heart: the castled placement -/
/-- the placement after castling with king `e → g`, rook `h → f` -/
def castled (P : Sq → Option Piece) (c : Color) (e h g f : Sq) : Sq → Option Piece :=
  Spec.upd (Spec.upd (Spec.upd (Spec.upd P e none) h none) g (some ⟨.king, c⟩)) f (some ⟨.rook, c⟩)

theorem castled_apply (P : Sq → Option Piece) (c : Color) (e h g f x : Sq) :
    castled P c e h g f x =
      if x = f then some ⟨.rook, c⟩ else if x = g then some ⟨.king, c⟩ else if x = h then none else
      if x = e then none else P x := rfl

theorem attackedBy_castled (P : Sq → Option Piece) (c : Color) (e h g f : Sq)
    (hPe : Spec.isColor P c.other e = false) (hPe' : (P e).isSome = true)
    (hPh : Spec.isColor P c.other h = false)
    (hPf : P f = none) (hPg : P g = none)
    (hhg : ∀ a, Spec.strictlyBetween a h g = false) (hgg : ∀ a, Spec.strictlyBetween a g g = false)
    (hef : ∀ a, a ≠ e → a ≠ f → Spec.strictlyBetween a e g = Spec.strictlyBetween a f g) :
    Spec.attackedBy (castled P c e h g f) c.other g = Spec.attackedBy P c.other g := by
  apply attackedBy_congr
  intro a
  have hoc : (c == c.other) = false := by cases c <;> rfl
  by_cases af : a = f
  · subst af; simp [castled_apply, Spec.isColor, hPf, hoc]
  by_cases ag : a = g
  · subst ag; simp [castled_apply, Spec.isColor, hPg, hoc, af]
  by_cases ah : a = h
  · subst ah; rw [hPh]; simp [castled_apply, Spec.isColor, af, ag]
  by_cases ae : a = e
  · subst ae; rw [hPe]; simp [castled_apply, Spec.isColor, af, ag, ah]
  have hQa : castled P c e h g f a = P a := by simp [castled_apply, af, ag, ah, ae]
  have hcol : Spec.isColor (castled P c e h g f) c.other a = Spec.isColor P c.other a := by
    unfold Spec.isColor; rw [hQa]
  rw [hcol]
  cases Spec.isColor P c.other a with
  | false => rfl
  | true =>
    simp only [Bool.true_and]
    apply attacks_congr _ _ _ _ hQa
    cases hb : Spec.strictlyBetween a e g with
    | true =>
      have hb' : Spec.strictlyBetween a f g = true := by rw [← hef a ae af]; exact hb
      rw [clearBetween_false_of _ a g f hb' (by simp [castled_apply]),
          clearBetween_false_of _ a g e hb hPe']
    | false =>
      have hb' : Spec.strictlyBetween a f g = false := by rw [← hef a ae af]; exact hb
      apply clearBetween_congr
      intro x hx
      have xf : x ≠ f := by rintro rfl; rw [hb'] at hx; exact Bool.noConfusion hx
      have xe : x ≠ e := by rintro rfl; rw [hb] at hx; exact Bool.noConfusion hx
      have xh : x ≠ h := by rintro rfl; rw [hhg] at hx; exact Bool.noConfusion hx
      have xg : x ≠ g := by rintro rfl; rw [hgg] at hx; exact Bool.noConfusion hx
      simp [castled_apply, xf, xe, xh, xg]

theorem inCheck_castled (P : Sq → Option Piece) (c : Color) (e h g f : Sq)
    (hPe : P e = some ⟨.king, c⟩) (hu : ∀ s, P s = some ⟨.king, c⟩ → s = e)
    (hPh : Spec.isColor P c.other h = false)
    (hPf : P f = none) (hPg : P g = none) (hgf : g ≠ f)
    (hhg : ∀ a, Spec.strictlyBetween a h g = false) (hgg : ∀ a, Spec.strictlyBetween a g g = false)
    (hef : ∀ a, a ≠ e → a ≠ f → Spec.strictlyBetween a e g = Spec.strictlyBetween a f g) :
    Spec.inCheck (castled P c e h g f) c = Spec.attackedBy P c.other g := by
  have hk : Spec.kingSq? (castled P c e h g f) c = some g := by
    apply kingSq?_of_unique
    · simp [castled_apply, hgf]
    · intro s hs
      rw [castled_apply] at hs
      by_cases sf : s = f
      · simp [sf] at hs
      by_cases sg : s = g
      · exact sg
      by_cases sh : s = h
      · subst sh; simp [sf, sg] at hs
      by_cases se : s = e
      · subst se; simp [sf, sg, sh] at hs
      simp only [sf, sg, sh, se, if_false] at hs
      exact absurd (hu s hs) se
  unfold Spec.inCheck
  rw [hk]
  exact attackedBy_castled P c e h g f (isColor_other_own c .king P e hPe) (by simp [hPe]) hPh hPf hPg hhg hgg hef

/-! ### home-rank squares -/
/-- the home-rank square of file `k`, written as the specification writes it -/
def hsq (c : Color) (k : Nat) : Sq := ⟨((Spec.homeRank c).toNat * 8 + k) % 64, Nat.mod_lt _ (by decide)⟩

theorem homeSq_eq_hsq (c : Color) (k : Nat) (hk : k < 8) : Board.homeSq c k hk = hsq c k := by
  cases c <;> apply Fin.ext <;> simp [Board.homeSq, hsq, Board.backRank, Spec.homeRank] <;> omega

theorem applyBoard_castle_king_hsq (p : Spec.Pos) : Spec.applyBoard p (.castle .king) =
    castled p.board p.stm (hsq p.stm 4) (hsq p.stm 7) (hsq p.stm 6) (hsq p.stm 5) := rfl
theorem applyBoard_castle_queen_hsq (p : Spec.Pos) : Spec.applyBoard p (.castle .queen) =
    castled p.board p.stm (hsq p.stm 4) (hsq p.stm 0) (hsq p.stm 2) (hsq p.stm 3) := rfl

theorem castleOk_king_eq (p : Spec.Pos) : Spec.castleOk p .king =
    ((p.rights p.stm).k && (p.board (hsq p.stm 4) == some ⟨.king, p.stm⟩) &&
     (p.board (hsq p.stm 7) == some ⟨.rook, p.stm⟩ && (p.board (hsq p.stm 5)).isNone && (p.board (hsq p.stm 6)).isNone) &&
     !Spec.inCheck p.board p.stm && !Spec.attackedBy p.board p.stm.other (hsq p.stm 5) &&
     !Spec.inCheck (castled p.board p.stm (hsq p.stm 4) (hsq p.stm 7) (hsq p.stm 6) (hsq p.stm 5)) p.stm) := rfl

theorem castleOk_queen_eq (p : Spec.Pos) : Spec.castleOk p .queen =
    ((p.rights p.stm).q && (p.board (hsq p.stm 4) == some ⟨.king, p.stm⟩) &&
     (p.board (hsq p.stm 0) == some ⟨.rook, p.stm⟩ && (p.board (hsq p.stm 1)).isNone && (p.board (hsq p.stm 2)).isNone &&
       (p.board (hsq p.stm 3)).isNone) &&
     !Spec.inCheck p.board p.stm && !Spec.attackedBy p.board p.stm.other (hsq p.stm 3) &&
     !Spec.inCheck (castled p.board p.stm (hsq p.stm 4) (hsq p.stm 0) (hsq p.stm 2) (hsq p.stm 3)) p.stm) := rfl

/-! finite geometric facts (per colour, by kernel evaluation) -/
theorem geomK (c : Color) :
    hsq c 6 ≠ hsq c 5 ∧
    (∀ a, Spec.strictlyBetween a (hsq c 7) (hsq c 6) = false) ∧
    (∀ a, Spec.strictlyBetween a (hsq c 6) (hsq c 6) = false) ∧
    (∀ a, a ≠ hsq c 4 → a ≠ hsq c 5 →
      Spec.strictlyBetween a (hsq c 4) (hsq c 6) = Spec.strictlyBetween a (hsq c 5) (hsq c 6)) := by
  cases c <;> decide +kernel

theorem geomQ (c : Color) :
    hsq c 2 ≠ hsq c 3 ∧
    (∀ a, Spec.strictlyBetween a (hsq c 0) (hsq c 2) = false) ∧
    (∀ a, Spec.strictlyBetween a (hsq c 2) (hsq c 2) = false) ∧
    (∀ a, a ≠ hsq c 4 → a ≠ hsq c 3 →
      Spec.strictlyBetween a (hsq c 4) (hsq c 2) = Spec.strictlyBetween a (hsq c 3) (hsq c 2)) := by
  cases c <;> decide +kernel

theorem hsq_distinct (c : Color) :
    hsq c 5 ≠ hsq c 6 ∧ hsq c 3 ≠ hsq c 2 ∧ hsq c 3 ≠ hsq c 1 ∧ hsq c 2 ≠ hsq c 1 ∧ hsq c 4 ≠ hsq c 5 ∧ hsq c 4 ≠ hsq c 3 := by
  cases c <;> decide +kernel

/-! ### consequences of `Spec.ValidPos` -/
theorem validPos_parts (p : Spec.Pos) (h : Spec.ValidPos p = true) :
    Spec.countPiece p.board ⟨.king, .white⟩ = 1 ∧ Spec.countPiece p.board ⟨.king, .black⟩ = 1 ∧
    Spec.inCheck p.board p.stm.other = false ∧ Spec.rightsOk p .white = true ∧ Spec.rightsOk p .black = true ∧
    Spec.epOk p = true := by
  unfold Spec.ValidPos at h
  simp only [Bool.and_eq_true, beq_iff_eq, Bool.not_eq_true'] at h
  obtain ⟨⟨⟨⟨⟨h1, h2⟩, h3⟩, h4⟩, h5⟩, h6⟩ := h
  exact ⟨h1, h2, h3, h4, h5, h6⟩

theorem validPos_count (p : Spec.Pos) (h : Spec.ValidPos p = true) (c : Color) :
    Spec.countPiece p.board ⟨.king, c⟩ = 1 := by
  obtain ⟨h1, h2, _⟩ := validPos_parts p h
  cases c
  · exact h1
  · exact h2

theorem validPos_rightsOk (p : Spec.Pos) (h : Spec.ValidPos p = true) (c : Color) : Spec.rightsOk p c = true := by
  obtain ⟨_, _, _, h4, h5, _⟩ := validPos_parts p h
  cases c
  · exact h4
  · exact h5

theorem rightsOk_eq (p : Spec.Pos) (c : Color) : Spec.rightsOk p c =
    ((!((p.rights c).k || (p.rights c).q) || p.board (hsq c 4) == some ⟨.king, c⟩) &&
     (!(p.rights c).k || p.board (hsq c 7) == some ⟨.rook, c⟩) &&
     (!(p.rights c).q || p.board (hsq c 0) == some ⟨.rook, c⟩)) := rfl

/-- a held king-side right has the king on e-home and the rook on h-home -/
theorem rights_k (p : Spec.Pos) (h : Spec.ValidPos p = true) (c : Color) (hr : (p.rights c).k = true) :
    p.board (hsq c 4) = some ⟨.king, c⟩ ∧ p.board (hsq c 7) = some ⟨.rook, c⟩ := by
  have := validPos_rightsOk p h c
  rw [rightsOk_eq, hr] at this
  simp only [Bool.true_or, Bool.not_true, Bool.false_or, Bool.and_eq_true, beq_iff_eq] at this
  exact this.1

/-- a held queen-side right has the king on e-home and the rook on a-home -/
theorem rights_q (p : Spec.Pos) (h : Spec.ValidPos p = true) (c : Color) (hr : (p.rights c).q = true) :
    p.board (hsq c 4) = some ⟨.king, c⟩ ∧ p.board (hsq c 0) = some ⟨.rook, c⟩ := by
  have := validPos_rightsOk p h c
  rw [rightsOk_eq, hr] at this
  simp only [Bool.or_true, Bool.not_true, Bool.false_or, Bool.and_eq_true, beq_iff_eq] at this
  exact ⟨this.1.1, this.2⟩

/-- with the king of `c` on `e` (and no other), being in check is `e` being attacked -/
theorem inCheck_eq_attacked (p : Spec.Pos) (h : Spec.ValidPos p = true) (c : Color) (e : Sq)
    (he : p.board e = some ⟨.king, c⟩) : Spec.inCheck p.board c = Spec.attackedBy p.board c.other e := by
  have hk := kingSq?_of_unique p.board c e he
    (fun s hs => king_unique_of_count p.board c (validPos_count p h c) s e hs he)
  unfold Spec.inCheck; rw [hk]

/-! ### `Spec.castleOk` in the shape the code computes it -/
theorem castleOk_king_iff (p : Spec.Pos) (hv : Spec.ValidPos p = true) :
    Spec.castleOk p .king =
      (!Spec.inCheck p.board p.stm && ((p.rights p.stm).k &&
        (!Spec.attackedBy p.board p.stm.other (hsq p.stm 5) && !Spec.attackedBy p.board p.stm.other (hsq p.stm 6) &&
         ((p.board (hsq p.stm 5)).isNone && (p.board (hsq p.stm 6)).isNone)))) := by
  rw [castleOk_king_eq]
  cases hr : (p.rights p.stm).k with
  | false => simp
  | true =>
    obtain ⟨hK, hR⟩ := rights_k p hv p.stm hr
    rw [hK, hR]
    cases h5 : p.board (hsq p.stm 5) with
    | some x => simp
    | none =>
      cases h6 : p.board (hsq p.stm 6) with
      | some x => simp
      | none =>
        obtain ⟨g1, g2, g3, g4⟩ := geomK p.stm
        rw [inCheck_castled p.board p.stm _ _ _ _ hK
          (fun s hs => king_unique_of_count p.board p.stm (validPos_count p hv p.stm) s _ hs hK)
          (isColor_other_own p.stm .rook p.board _ hR) h5 h6 g1 g2 g3 g4]
        simp [Bool.and_assoc]

theorem castleOk_queen_iff (p : Spec.Pos) (hv : Spec.ValidPos p = true) :
    Spec.castleOk p .queen =
      (!Spec.inCheck p.board p.stm && ((p.rights p.stm).q &&
        (!Spec.attackedBy p.board p.stm.other (hsq p.stm 3) && !Spec.attackedBy p.board p.stm.other (hsq p.stm 2) &&
         ((p.board (hsq p.stm 3)).isNone && (p.board (hsq p.stm 2)).isNone && (p.board (hsq p.stm 1)).isNone)))) := by
  rw [castleOk_queen_eq]
  cases hr : (p.rights p.stm).q with
  | false => simp
  | true =>
    obtain ⟨hK, hR⟩ := rights_q p hv p.stm hr
    rw [hK, hR]
    cases h3 : p.board (hsq p.stm 3) with
    | some x => simp
    | none =>
      cases h2 : p.board (hsq p.stm 2) with
      | some x => simp
      | none =>
        obtain ⟨g1, g2, g3, g4⟩ := geomQ p.stm
        rw [inCheck_castled p.board p.stm _ _ _ _ hK
          (fun s hs => king_unique_of_count p.board p.stm (validPos_count p hv p.stm) s _ hs hK)
          (isColor_other_own p.stm .rook p.board _ hR) h3 h2 g1 g2 g3 g4]
        cases p.board (hsq p.stm 1) <;> simp [Bool.and_assoc]

/-! ### the model side -/
theorem CR.hasK_add (a b : CR) : (a.add b).hasK = (a.hasK || b.hasK) := by cases a <;> cases b <;> rfl
theorem CR.hasQ_add (a b : CR) : (a.add b).hasQ = (a.hasQ || b.hasQ) := by cases a <;> cases b <;> rfl

theorem castlingAvailable_hasK (b : Board) (m : Option BB) :
    (b.castlingAvailable m).hasK =
      (isBlank (m.getD b.checks) && ((b.rights b.stm).hasK &&
        (!b.isUnderAttack (homeSq b.stm 5) && !b.isUnderAttack (homeSq b.stm 6) &&
         isBlank ((bbOf (homeSq b.stm 5) ^^^ bbOf (homeSq b.stm 6)) &&& b.combined)))) := by
  simp only [Board.castlingAvailable]
  cases isBlank (m.getD b.checks) <;> cases (b.rights b.stm).hasK <;> cases (b.rights b.stm).hasQ <;>
    cases (!b.isUnderAttack (homeSq b.stm 5) && !b.isUnderAttack (homeSq b.stm 6) &&
         isBlank ((bbOf (homeSq b.stm 5) ^^^ bbOf (homeSq b.stm 6)) &&& b.combined)) <;>
    cases (!b.isUnderAttack (homeSq b.stm 3) && !b.isUnderAttack (homeSq b.stm 2) &&
         isBlank ((bbOf (homeSq b.stm 3) ^^^ bbOf (homeSq b.stm 2) ^^^ bbOf (homeSq b.stm 1)) &&& b.combined)) <;>
    first | rfl | (simp; done) | (simp; rfl)

theorem castlingAvailable_hasQ (b : Board) (m : Option BB) :
    (b.castlingAvailable m).hasQ =
      (isBlank (m.getD b.checks) && ((b.rights b.stm).hasQ &&
        (!b.isUnderAttack (homeSq b.stm 3) && !b.isUnderAttack (homeSq b.stm 2) &&
         isBlank ((bbOf (homeSq b.stm 3) ^^^ bbOf (homeSq b.stm 2) ^^^ bbOf (homeSq b.stm 1)) &&& b.combined)))) := by
  simp only [Board.castlingAvailable]
  cases isBlank (m.getD b.checks) <;> cases (b.rights b.stm).hasK <;> cases (b.rights b.stm).hasQ <;>
    cases (!b.isUnderAttack (homeSq b.stm 5) && !b.isUnderAttack (homeSq b.stm 6) &&
         isBlank ((bbOf (homeSq b.stm 5) ^^^ bbOf (homeSq b.stm 6)) &&& b.combined)) <;>
    cases (!b.isUnderAttack (homeSq b.stm 3) && !b.isUnderAttack (homeSq b.stm 2) &&
         isBlank ((bbOf (homeSq b.stm 3) ^^^ bbOf (homeSq b.stm 2) ^^^ bbOf (homeSq b.stm 1)) &&& b.combined)) <;>
    first | rfl | (simp; done) | (simp; rfl)

theorem isBlank_true_iff_mem (x : BB) : isBlank x = true ↔ ∀ s, mem s x = false := by
  rw [isBlank_iff, eq_zero_iff]

theorem isBlank_xor2 {b : Board} {f} (h : Rep b f) (s1 s2 : Sq) (hne : s1 ≠ s2) :
    isBlank ((bbOf s1 ^^^ bbOf s2) &&& b.combined) = ((f s1).isNone && (f s2).isNone) := by
  rw [Bool.eq_iff_iff, isBlank_true_iff_mem]
  have hne' : s2 ≠ s1 := fun e => hne e.symm
  constructor
  · intro hm
    have h1 := hm s1; have h2 := hm s2
    simp only [mem_and, mem_xor, mem_bbOf, h.cmb, hne, hne', decide_true, decide_false] at h1 h2
    cases hf1 : f s1 <;> cases hf2 : f s2 <;> simp_all
  · intro hn x
    simp only [Bool.and_eq_true, Option.isNone_iff_eq_none] at hn
    simp only [mem_and, mem_xor, mem_bbOf, h.cmb]
    by_cases x1 : x = s1
    · subst x1; simp [hn.1]
    by_cases x2 : x = s2
    · subst x2; simp [hn.2]
    simp [x1, x2]

theorem isBlank_xor3 {b : Board} {f} (h : Rep b f) (s1 s2 s3 : Sq) (h12 : s1 ≠ s2) (h13 : s1 ≠ s3) (h23 : s2 ≠ s3) :
    isBlank ((bbOf s1 ^^^ bbOf s2 ^^^ bbOf s3) &&& b.combined) = ((f s1).isNone && (f s2).isNone && (f s3).isNone) := by
  rw [Bool.eq_iff_iff, isBlank_true_iff_mem]
  have h21 : s2 ≠ s1 := fun e => h12 e.symm
  have h31 : s3 ≠ s1 := fun e => h13 e.symm
  have h32 : s3 ≠ s2 := fun e => h23 e.symm
  constructor
  · intro hm
    have h1 := hm s1; have h2 := hm s2; have h3 := hm s3
    simp only [mem_and, mem_xor, mem_bbOf, h.cmb, h12, h13, h23, h21, h31, h32, decide_true, decide_false] at h1 h2 h3
    cases hf1 : f s1 <;> cases hf2 : f s2 <;> cases hf3 : f s3 <;> simp_all
  · intro hn x
    simp only [Bool.and_eq_true, Option.isNone_iff_eq_none] at hn
    simp only [mem_and, mem_xor, mem_bbOf, h.cmb]
    by_cases x1 : x = s1
    · subst x1; simp [hn.1.1]
    by_cases x2 : x = s2
    · subst x2; simp [hn.1.2]
    by_cases x3 : x = s3
    · subst x3; simp [hn.2]
    simp [x1, x2, x3]

variable {K : Keys}

/-- the cached check mask is blank iff the side to move is not in check -/
theorem checks_blank_inCheck {b : Board} (hv : b.Valid K) : isBlank b.checks = !Spec.inCheck b.abs b.stm := by
  obtain ⟨k, hk, _⟩ := kingSq?_of_count b.abs b.stm (validPos_count b.absPos hv.pos b.stm)
  have hc : Rep b b.abs := hv.cons
  rw [hv.checks_eq, kingSq_spec hc b.stm k hk, checks_blank_spec hc k, Spec.inCheck, hk]

/-- C01, castling part: availability as computed = castling allowed by the rules -/
theorem castlingAvailable_spec_of {b : Board} (hv : b.Valid K) (m : Option BB) (hm : m.getD b.checks = b.checks) :
    (b.castlingAvailable m).hasK = Spec.castleOk b.absPos .king ∧
    (b.castlingAvailable m).hasQ = Spec.castleOk b.absPos .queen := by
  have hc : Rep b b.abs := hv.cons
  obtain ⟨d56, d32, d31, d21, _, _⟩ := hsq_distinct b.stm
  constructor
  · rw [castlingAvailable_hasK, castleOk_king_iff _ hv.pos, hm, checks_blank_inCheck hv,
      isUnderAttack_spec hc, isUnderAttack_spec hc]
    simp only [homeSq_eq_hsq]
    rw [isBlank_xor2 hc _ _ d56]
    rfl
  · rw [castlingAvailable_hasQ, castleOk_queen_iff _ hv.pos, hm, checks_blank_inCheck hv,
      isUnderAttack_spec hc, isUnderAttack_spec hc]
    simp only [homeSq_eq_hsq]
    rw [isBlank_xor3 hc _ _ _ d32 d31 d21]
    rfl

theorem castlingAvailable_spec {b : Board} (hv : b.Valid K) :
    (b.castlingAvailable none).hasK = Spec.castleOk b.absPos .king ∧
    (b.castlingAvailable none).hasQ = Spec.castleOk b.absPos .queen :=
  castlingAvailable_spec_of hv none rfl

theorem castlingAvailable_spec_checks {b : Board} (hv : b.Valid K) :
    (b.castlingAvailable (some b.checks)).hasK = Spec.castleOk b.absPos .king ∧
    (b.castlingAvailable (some b.checks)).hasQ = Spec.castleOk b.absPos .queen :=
  castlingAvailable_spec_of hv (some b.checks) rfl

theorem CR.eq_ofBits (r : CR) : r = CR.ofBits r.hasK r.hasQ := by cases r <;> rfl

/-- the availability value itself -/
theorem castlingAvailable_eq {b : Board} (hv : b.Valid K) :
    b.castlingAvailable none = CR.ofBits (Spec.castleOk b.absPos .king) (Spec.castleOk b.absPos .queen) ∧
    b.castlingAvailable (some b.checks) = b.castlingAvailable none := by
  have h1 := castlingAvailable_spec hv
  have h2 := castlingAvailable_spec_checks hv
  constructor
  · rw [CR.eq_ofBits (b.castlingAvailable none), h1.1, h1.2]
  · rw [CR.eq_ofBits (b.castlingAvailable (some b.checks)), CR.eq_ofBits (b.castlingAvailable none), h1.1, h1.2, h2.1, h2.2]

/-! ### part 2: an available castling implies a legal king step onto the crossed square -/
/-- movement geometry of a man, without the emptiness condition -/
def reach (p : Piece) (a t : Sq) : Bool :=
  let dr := t.rank - a.rank; let df := t.file - a.file
  match p.pt with
  | .knight => (dr.natAbs == 1 && df.natAbs == 2) || (dr.natAbs == 2 && df.natAbs == 1)
  | .king   => a != t && dr.natAbs ≤ 1 && df.natAbs ≤ 1
  | .rook   => Spec.orthogonal a t
  | .bishop => Spec.diagonal a t
  | .queen  => Spec.orthogonal a t || Spec.diagonal a t
  | .pawn   => dr == Spec.fwd p.c && df.natAbs == 1
def slider (p : Piece) : Bool := p.pt == .rook || p.pt == .bishop || p.pt == .queen

theorem attacks_eq (bd : Sq → Option Piece) (a t : Sq) (p : Piece) (h : bd a = some p) :
    Spec.attacks bd a t = (reach p a t && (!slider p || Spec.clearBetween bd a t)) := by
  unfold Spec.attacks
  rw [h]
  obtain ⟨pt, c⟩ := p
  cases pt <;> simp [reach, slider]

theorem reach_slider_mono (p : Piece) (a e f : Sq) (hs : slider p = true) (hr : reach p a f = true)
    (ho : Spec.orthogonal a f = true → Spec.orthogonal a e = true)
    (hd : Spec.diagonal a f = true → Spec.diagonal a e = true) : reach p a e = true := by
  obtain ⟨pt, c⟩ := p
  cases pt <;> simp [slider] at hs <;> simp only [reach] at hr ⊢
  · exact hd hr
  · exact ho hr
  · rw [Bool.or_eq_true] at hr ⊢
    exact hr.imp ho hd

/-- the king steps from `e` to the empty `f`; neither square is attacked; every line reaching `f` through `e`
    reaches `e` first: the king is not in check afterwards -/
theorem inCheck_kingStep (P : Sq → Option Piece) (c : Color) (e f : Sq)
    (hPe : P e = some ⟨.king, c⟩) (hu : ∀ s, P s = some ⟨.king, c⟩ → s = e)
    (hne : Spec.attackedBy P c.other e = false) (hnf : Spec.attackedBy P c.other f = false)
    (hff : ∀ a, Spec.strictlyBetween a f f = false)
    (G : ∀ a, Spec.strictlyBetween a e f = true →
      (Spec.orthogonal a f = true → Spec.orthogonal a e = true) ∧
      (Spec.diagonal a f = true → Spec.diagonal a e = true) ∧
      (∀ x, Spec.strictlyBetween a x e = true → Spec.strictlyBetween a x f = true ∧ x ≠ e ∧ x ≠ f)) :
    Spec.inCheck (Spec.upd (Spec.upd P e none) f (some ⟨.king, c⟩)) c = false := by
  have hQ : ∀ x, Spec.upd (Spec.upd P e none) f (some ⟨.king, c⟩) x =
      if x = f then some ⟨.king, c⟩ else if x = e then none else P x := fun _ => rfl
  have hk : Spec.kingSq? (Spec.upd (Spec.upd P e none) f (some ⟨.king, c⟩)) c = some f := by
    apply kingSq?_of_unique
    · simp [hQ]
    · intro s hs
      rw [hQ] at hs
      by_cases sf : s = f
      · exact sf
      by_cases se : s = e
      · subst se; simp [sf] at hs
      simp only [sf, se, if_false] at hs
      exact absurd (hu s hs) se
  unfold Spec.inCheck
  rw [hk]
  show Spec.attackedBy _ c.other f = false
  rw [attackedBy_eq_any, List.any_eq_false]
  intro a _
  rw [attackedBy_eq_any, List.any_eq_false] at hne hnf
  have hne := hne a (List.mem_finRange a)
  have hnf := hnf a (List.mem_finRange a)
  have hoc : (c == c.other) = false := by cases c <;> rfl
  by_cases af : a = f
  · subst af; simp [hQ, Spec.isColor, hoc]
  by_cases ae : a = e
  · subst ae; simp [hQ, Spec.isColor, af]
  have hQa : Spec.upd (Spec.upd P e none) f (some ⟨.king, c⟩) a = P a := by simp [hQ, af, ae]
  have hcol : Spec.isColor (Spec.upd (Spec.upd P e none) f (some ⟨.king, c⟩)) c.other a = Spec.isColor P c.other a := by
    unfold Spec.isColor; rw [hQa]
  rw [hcol]
  cases hc : Spec.isColor P c.other a with
  | false => simp
  | true =>
    rw [hc] at hne hnf
    simp only [Bool.true_and, Bool.not_eq_true] at hne hnf ⊢
    cases hb : Spec.strictlyBetween a e f with
    | false =>
      rw [← hnf]
      apply attacks_congr' _ _ _ _ hQa
      intro x hx
      have xf : x ≠ f := by rintro rfl; rw [hff] at hx; exact Bool.noConfusion hx
      have xe : x ≠ e := by rintro rfl; rw [hb] at hx; exact Bool.noConfusion hx
      simp [hQ, xf, xe]
    | true =>
      obtain ⟨go, gd, gx⟩ := G a hb
      cases hpa : P a with
      | none => simp [Spec.isColor, hpa] at hc
      | some p =>
        rw [attacks_eq _ a f p (by rw [hQa, hpa])]
        rw [attacks_eq _ a f p hpa] at hnf
        rw [attacks_eq _ a e p hpa] at hne
        cases hr : reach p a f with
        | false => rfl
        | true =>
          rw [hr] at hnf
          simp only [Bool.true_and, Bool.or_eq_false_iff, Bool.not_eq_false'] at hnf
          obtain ⟨hs, _⟩ := hnf
          rw [reach_slider_mono p a e f hs hr go gd, hs] at hne
          simp only [hs, Bool.true_and, Bool.not_true, Bool.false_or] at hne ⊢
          cases hq : Spec.clearBetween (Spec.upd (Spec.upd P e none) f (some ⟨.king, c⟩)) a f with
          | false => rfl
          | true =>
            rw [clearBetween_true_iff] at hq
            have : Spec.clearBetween P a e = true := by
              rw [clearBetween_true_iff]
              intro x hx
              obtain ⟨x1, x2, x3⟩ := gx x hx
              have := hq x x1
              rw [hQ] at this
              simpa [x2, x3] using this
            rw [this] at hne
            exact Bool.noConfusion hne

theorem applyBoard_king (p : Spec.Pos) (src dst : Sq) : Spec.applyBoard p (.piece .king src dst none) =
    Spec.upd (Spec.upd p.board src none) dst (some ⟨.king, p.stm⟩) := rfl

/-- a king step onto an empty square that `reach`es, from a position where neither square is attacked -/
theorem legal_kingStep (p : Spec.Pos) (hv : Spec.ValidPos p = true) (e f : Sq)
    (hPe : p.board e = some ⟨.king, p.stm⟩) (hPf : p.board f = none)
    (hic : Spec.inCheck p.board p.stm = false) (hnf : Spec.attackedBy p.board p.stm.other f = false)
    (hr : reach ⟨.king, p.stm⟩ e f = true)
    (hff : ∀ a, Spec.strictlyBetween a f f = false)
    (G : ∀ a, Spec.strictlyBetween a e f = true →
      (Spec.orthogonal a f = true → Spec.orthogonal a e = true) ∧
      (Spec.diagonal a f = true → Spec.diagonal a e = true) ∧
      (∀ x, Spec.strictlyBetween a x e = true → Spec.strictlyBetween a x f = true ∧ x ≠ e ∧ x ≠ f)) :
    Spec.legal p (.piece .king e f none) = true := by
  have hu : ∀ s, p.board s = some ⟨.king, p.stm⟩ → s = e :=
    fun s hs => king_unique_of_count p.board p.stm (validPos_count p hv p.stm) s e hs hPe
  rw [inCheck_eq_attacked p hv p.stm e hPe] at hic
  have h1 := inCheck_kingStep p.board p.stm e f hPe hu hic hnf hff G
  show (Spec.pseudo p .king e f none && !Spec.inCheck (Spec.applyBoard p (.piece .king e f none)) p.stm) = true
  rw [applyBoard_king, h1]
  simp [Spec.pseudo, hPe, hPf, attacks_eq _ _ _ _ hPe, slider, hr]

theorem geomStepK (c : Color) :
    reach ⟨.king, c⟩ (hsq c 4) (hsq c 5) = true ∧
    (∀ a, Spec.strictlyBetween a (hsq c 5) (hsq c 5) = false) ∧
    (∀ a, Spec.strictlyBetween a (hsq c 4) (hsq c 5) = true →
      (Spec.orthogonal a (hsq c 5) = true → Spec.orthogonal a (hsq c 4) = true) ∧
      (Spec.diagonal a (hsq c 5) = true → Spec.diagonal a (hsq c 4) = true) ∧
      (∀ x, Spec.strictlyBetween a x (hsq c 4) = true →
        Spec.strictlyBetween a x (hsq c 5) = true ∧ x ≠ hsq c 4 ∧ x ≠ hsq c 5)) := by
  cases c <;> decide +kernel

theorem geomStepQ (c : Color) :
    reach ⟨.king, c⟩ (hsq c 4) (hsq c 3) = true ∧
    (∀ a, Spec.strictlyBetween a (hsq c 3) (hsq c 3) = false) ∧
    (∀ a, Spec.strictlyBetween a (hsq c 4) (hsq c 3) = true →
      (Spec.orthogonal a (hsq c 3) = true → Spec.orthogonal a (hsq c 4) = true) ∧
      (Spec.diagonal a (hsq c 3) = true → Spec.diagonal a (hsq c 4) = true) ∧
      (∀ x, Spec.strictlyBetween a x (hsq c 4) = true →
        Spec.strictlyBetween a x (hsq c 3) = true ∧ x ≠ hsq c 4 ∧ x ≠ hsq c 3)) := by
  cases c <;> decide +kernel

/-- castling allowed ⇒ the king may also step onto the crossed square (specification level) -/
theorem castleOk_king_step (p : Spec.Pos) (hv : Spec.ValidPos p = true) (side : Side)
    (h : Spec.castleOk p side = true) :
    Spec.legal p (.piece .king (hsq p.stm 4) (match (generalizing := false) side with | .king => hsq p.stm 5 | .queen => hsq p.stm 3) none) = true := by
  cases side with
  | king =>
    rw [castleOk_king_eq] at h
    simp only [Bool.and_eq_true, beq_iff_eq, Option.isNone_iff_eq_none, Bool.not_eq_true'] at h
    obtain ⟨⟨⟨⟨⟨_, hK⟩, ⟨_, h5⟩, _⟩, hic⟩, hna⟩, _⟩ := h
    obtain ⟨g1, g2, g3⟩ := geomStepK p.stm
    exact legal_kingStep p hv _ _ hK h5 hic hna g1 g2 g3
  | queen =>
    rw [castleOk_queen_eq] at h
    simp only [Bool.and_eq_true, beq_iff_eq, Option.isNone_iff_eq_none, Bool.not_eq_true'] at h
    obtain ⟨⟨⟨⟨⟨_, hK⟩, _, h3⟩, hic⟩, hna⟩, _⟩ := h
    obtain ⟨g1, g2, g3⟩ := geomStepQ p.stm
    exact legal_kingStep p hv _ _ hK h3 hic hna g1 g2 g3

/-- castling available ⇒ the one-step king move towards that side is legal (so such a position is never terminal) -/
theorem castle_implies_king_step {b : Board} (hv : b.Valid K) (side : Side)
    (h : Spec.castleOk b.absPos side = true) :
    Spec.legal b.absPos (.piece .king (Board.homeSq b.stm 4)
      (match (generalizing := false) side with | .king => Board.homeSq b.stm 5 | .queen => Board.homeSq b.stm 3) none) = true := by
  have := castleOk_king_step b.absPos hv.pos side h
  simp only [homeSq_eq_hsq]
  exact this

/-! ### sanity: the hypotheses are satisfiable and the specification discriminates -/
/-- Ke1 Ra1 Rh1 against Ke8 and one black rook on `r`; White to move with both rights -/
def exPos (r : Sq) : Spec.Pos :=
  { board := fun s => if s = 4 then some ⟨.king, .white⟩ else if s = 7 then some ⟨.rook, .white⟩
      else if s = 0 then some ⟨.rook, .white⟩ else if s = 60 then some ⟨.king, .black⟩
      else if s = r then some ⟨.rook, .black⟩ else none,
    stm := .white, rights := fun c => if c = .white then ⟨true, true⟩ else ⟨false, false⟩, ep := none, half := 0, full := 1 }
-- rook on h8 (63): both castlings allowed
example : Spec.ValidPos (exPos 63) = true ∧ Spec.castleOk (exPos 63) .king = true ∧ Spec.castleOk (exPos 63) .queen = true := by
  decide +kernel
-- rook on g8 (62) attacks g1: king side forbidden (castling into check), queen side allowed
example : Spec.ValidPos (exPos 62) = true ∧ Spec.castleOk (exPos 62) .king = false ∧ Spec.castleOk (exPos 62) .queen = true := by
  decide +kernel
-- rook on b8 (57) attacks only b1: queen side still allowed
example : Spec.ValidPos (exPos 57) = true ∧ Spec.castleOk (exPos 57) .queen = true := by
  decide +kernel
-- rook on d8 (59) attacks the crossed square d1: queen side forbidden
example : Spec.ValidPos (exPos 59) = true ∧ Spec.castleOk (exPos 59) .queen = false ∧ Spec.castleOk (exPos 59) .king = true := by
  decide +kernel

end Chess
